/-
  C03 — Events round-trip and their identity is a function of the redacted content.

  Model: VModel/EventParse.lean (`parseUntrusted`, `parseTrusted`, `parseHeadered`, `redact`,
  `setUnsigned`, `signWith`, `eventID`, `roomID`, `authEventIDs`, `referenceID`), SHA-256 a parameter `H`.

  Identity (room versions 3 and later = event ID formats 2 and 3):
  * `referenceID_ignores_unsigned` / `eventID_ignores_unsigned`      edits of `unsigned` do not change the ID
  * `referenceID_ignores_signatures` / `eventID_ignores_signatures`  edits of `signatures` / adding a signature do not
  * `eventID_redact_invariant`                                        `Redact()` does not (events whose JSON has no `event_id`
                                                                      member; `eventID_redact_invariant_received`: every
                                                                      event received as untrusted input, no proviso)
  * `eventID_injective`                                               under collision-free `H`: equal IDs ⇒ equal
                                                                      redacted, signature- and unsigned-stripped events
  * `eventID_determines_hashes` / `eventID_injective_hashed` /        … ⇒ equal `hashes` members ⇒ (valid content hashes) equal
    `build_eventID_injective`                                         hashed fields: every field but `unsigned` / `signatures`;
                                                                      at the level of `EventBuilder.Build`: two builds with the
                                                                      same ID agree on every hashed field
  * `build_eventID_injective_proto` / `build_differ_eventID_ne`       … i.e. on type, sender, room ID, state key, prev / auth events,
                                                                      redacts, depth, content (canonical form), clock and origin;
                                                                      contrapositive: proto-events differing in any of these get
                                                                      different IDs
  * `eventID_alphabet`                                                `$` + 43 characters of the prescribed base64 alphabet
  Room version 12:
  * `v12_create_roomID`, `v12_auth_first`
  Round trip:
  * `build_roundtrip`        an event produced by `EventBuilder.Build` (model: VModel/EventBuild.lean) re-parses from
                             its JSON as untrusted input, as trusted input and through the headered form, each time
                             successfully, to the same event (ID, type, sender, room, state key, content, depth,
                             timestamp, prev / auth references), not redacted, passing `CheckFields`
  * `reparse_same_partial`   (round 1) a text accepted as trusted and as untrusted input (content hash valid) gives
                             the same event both ways
  * `build_checked_partial`  (round 1) `Build`'s result passed `CheckFields`, is not redacted, is a trusted parse
-/
import VProofs.RedactCongr
import VProofs.EventParse
import VProofs.B64
import VProps.C04
import VModel.EventBuild
import VProofs.EventBuildRoundtrip
import VProofs.EventIdInj
namespace V.C03
open V V.Json V.GoJson V.Redact V.EventParse V.RedactProofs V.EventProofs V.BuildProofs

/-! ## Table facts -/

/-- no keep struct lists `unsigned` (or another key stripped on receipt); `signatures` is an omitempty raw field -/
def tableOk (a : Algo) : Bool :=
  unlisted a b!"unsigned" && unlisted a b!"age_ts" && unlisted a b!"outlier" && unlisted a b!"destinations" &&
  a.fields.any (fun f => f.name == b!"signatures" && f.kind == .raw && f.omitempty) &&
  a.fields.all (fun f => !(f.kind == .raw) || f.omitempty)

theorem tables_ok : ∀ row ∈ VGen.roomVersions,
    (match algoByName row.redactionAlgorithm with
     | some a => tableOk a
     | none => false) = true := by
  decide

theorem algoOf_tableOk {ver : Bytes} {a : Algo} (h : algoOf ver = some a) : tableOk a = true := by
  unfold algoOf at h
  cases hr : rowOf ver with
  | none => rw [hr] at h; cases h
  | some row =>
    rw [hr] at h
    simp only [Option.bind_some] at h
    have := tables_ok row (List.mem_of_find?_eq_some hr)
    rw [h] at this
    exact this

/-! ## `unsigned` -/

theorem redactJSON_obj_eq {ver : Bytes} {kvs kvs' : EventParse.Obj}
    (h : ∀ a, algoOf ver = some a → redactWith a (.obj kvs') = redactWith a (.obj kvs)) :
    redactJSON ver (.obj kvs') = redactJSON ver (.obj kvs) := by
  unfold redactJSON
  cases ha : algoOf ver with
  | none => rfl
  | some a => exact h a ha

/-- the four keys a receiver strips are listed by no keep struct: the redaction does not see them -/
theorem redactJSON_strip4 (ver : Bytes) (kvs : EventParse.Obj) :
    redactJSON ver (.obj (deleteKeys strip4 kvs)) = redactJSON ver (.obj kvs) := by
  apply redactJSON_obj_eq
  intro a ha
  have hT := algoOf_tableOk ha
  simp only [tableOk, Bool.and_eq_true] at hT
  obtain ⟨⟨⟨⟨⟨hu1, hu2⟩, hu3⟩, hu4⟩, _⟩, _⟩ := hT
  simp only [strip4, deleteKeys, List.foldl_cons, List.foldl_nil]
  rw [redactWith_deleteFirst a _ _ hu1, redactWith_deleteFirst a _ _ hu2, redactWith_deleteFirst a _ _ hu4,
    redactWith_deleteFirst a _ _ hu3]

/-- The redaction — hence the reference hash, the event ID and the signing payload — of an event
    does not depend on its `unsigned` member: setting, replacing or removing it changes nothing. -/
theorem referenceID_ignores_unsigned (H : Bytes → Bytes) (row : VGen.VersionRow) (ver : Bytes) (kvs : EventParse.Obj) (u : JVal) :
    redactJSON ver (.obj (setFirst b!"unsigned" u kvs)) = redactJSON ver (.obj kvs) ∧
    redactJSON ver (.obj (deleteFirst b!"unsigned" kvs)) = redactJSON ver (.obj kvs) ∧
    referenceID H row ver (.obj (setFirst b!"unsigned" u kvs)) = referenceID H row ver (.obj kvs) ∧
    referenceID H row ver (.obj (deleteFirst b!"unsigned" kvs)) = referenceID H row ver (.obj kvs) ∧
    signingPayload ver (.obj (setFirst b!"unsigned" u kvs)) = signingPayload ver (.obj kvs) := by
  have hu : ∀ a, algoOf ver = some a → unlisted a b!"unsigned" = true := by
    intro a ha
    have := algoOf_tableOk ha
    simp only [tableOk, Bool.and_eq_true] at this
    exact this.1.1.1.1.1
  have h1 : redactJSON ver (.obj (setFirst b!"unsigned" u kvs)) = redactJSON ver (.obj kvs) :=
    redactJSON_obj_eq (fun a ha => redactWith_setFirst a _ u kvs (hu a ha))
  have h2 : redactJSON ver (.obj (deleteFirst b!"unsigned" kvs)) = redactJSON ver (.obj kvs) :=
    redactJSON_obj_eq (fun a ha => redactWith_deleteFirst a _ kvs (hu a ha))
  refine ⟨h1, h2, ?_, ?_, ?_⟩
  · simp only [referenceID, h1]
  · simp only [referenceID, h2]
  · simp only [signingPayload, referenceBytes, h1]

theorem dedupLast_step_fresh (acc : EventParse.Obj) (kv : Bytes × JVal) (h : kv.1 ∉ keysOf acc) :
    acc.filter (fun x => x.1 != kv.1) ++ [kv] = acc ++ [kv] := by
  congr 1
  apply filter_eq_self_of
  intro x hx
  simp only [bne_iff_ne, ne_eq]
  intro hxe
  exact h (List.mem_map.mpr ⟨x, hx, hxe⟩)

theorem dedupLast_fresh (acc rest : EventParse.Obj) (h : (keysOf (acc ++ rest)).Nodup) :
    rest.foldl (fun acc kv => (acc.filter (fun x => x.1 != kv.1)) ++ [kv]) acc = acc ++ rest := by
  induction rest generalizing acc with
  | nil => simp
  | cons kv rest ih =>
    have hk : kv.1 ∉ keysOf acc := by
      simp only [keysOf, List.map_append, List.map_cons, List.nodup_append, List.nodup_cons] at h
      intro hmem
      exact h.2.2 kv.1 hmem kv.1 List.mem_cons_self rfl
    simp only [List.foldl_cons]
    rw [dedupLast_step_fresh acc kv hk]
    have h' : (keysOf ((acc ++ [kv]) ++ rest)).Nodup := by simpa [List.append_assoc] using h
    rw [ih (acc ++ [kv]) h']
    simp [List.append_assoc]

theorem dedupLast_nodup (kvs : EventParse.Obj) (h : (keysOf kvs).Nodup) : dedupLast kvs = kvs := by
  have := dedupLast_fresh [] kvs (by simpa using h)
  simpa [dedupLast] using this

/-- **`SetUnsigned` keeps the event ID** (events without duplicate top-level keys; the stored ID is
    copied, and where it is computed it is computed from a redaction that ignores `unsigned`). -/
theorem eventID_ignores_unsigned (H : Bytes → Bytes) {e e' : PDU} {u : JVal} (h : setUnsigned e u = .ok e')
    (hn : (keysOf e.obj).Nodup) : eventID H e' = eventID H e := by
  unfold setUnsigned at h
  split at h
  · cases h
  · rename_i row hrow
    dsimp only at h
    split at h
    · cases h
    · cases h
    · cases h
      unfold eventID
      simp only [hrow]
      rw [dedupLast_nodup e.obj hn]
      rw [(referenceID_ignores_unsigned H row e.ver e.obj u).2.2.1]

/-! ## `signatures` -/

theorem stripSigs_flatMap (E E' : Field → EventParse.Obj) (fs : List Field) (g : Field)
    (hE : ∀ f ∈ fs, f ≠ g → E' f = E f)
    (hg : ∀ kv ∈ E g, kv.1 = b!"signatures") (hg' : ∀ kv ∈ E' g, kv.1 = b!"signatures") :
    stripSigs (fs.flatMap E') = stripSigs (fs.flatMap E) := by
  induction fs with
  | nil => rfl
  | cons f rest ih =>
    simp only [List.flatMap_cons, stripSigs, List.filter_append]
    have ih' := ih (fun x hx hne => hE x (List.mem_cons_of_mem _ hx) hne)
    simp only [stripSigs] at ih'
    rw [ih']
    congr 1
    by_cases hfg : f = g
    · subst hfg
      rw [filter_eq_nil_of _ _ (fun kv hkv => by simp [hg' kv hkv]), filter_eq_nil_of _ _ (fun kv hkv => by simp [hg kv hkv])]
    · rw [hE f List.mem_cons_self hfg]

/-- Two objects in which every field of the keep struct other than `signatures` selects the same members have
    redactions that differ at most in their `signatures` member (and one succeeds iff the other does). -/
theorem redactObj_signatures {a : Algo} (hT : tablesOk a = true) (hS : tableOk a = true) {kvs kvs' : EventParse.Obj} {v : JVal}
    (hselo : ∀ f ∈ a.fields, f.name ≠ b!"signatures" → sel f.name kvs' = sel f.name kvs)
    (h : redactObj a kvs = .ok v) :
    ∃ r r', v = .obj r ∧ redactObj a kvs' = .ok (.obj r') ∧ stripSigs r' = stripSigs r := by
  obtain ⟨tf, cf, F, hv⟩ := redactObj_ok h
  obtain ⟨hdist, _, _, _⟩ := tablesOk_parts hT
  simp only [tableOk, Bool.and_eq_true] at hS
  obtain ⟨⟨_, hsig⟩, hall⟩ := hS
  obtain ⟨g, hg, hgp⟩ := List.any_eq_true.mp hsig
  simp only [Bool.and_eq_true, beq_iff_eq] at hgp
  obtain ⟨⟨hgn, hgk⟩, hgo⟩ := hgp
  obtain ⟨htfm, htfk⟩ := typeField_mem F.htf
  obtain ⟨hcfm, hcfk⟩ := contentField_mem F.hcf
  have hne_of : ∀ f ∈ a.fields, f ≠ g → f.name ≠ b!"signatures" := by
    intro f hf hne he
    exact hne (foldDistinct_inj hdist hf hg (by rw [he, hgn]))
  have htg : tf ≠ g := by intro he; rw [he, hgk] at htfk; cases htfk
  have hcg : cf ≠ g := by intro he; rw [he, hgk] at hcfk; cases hcfk
  have h1 : decType tf.name kvs' = decType tf.name kvs := by
    rw [decType_sel, decType_sel, hselo tf htfm (hne_of tf htfm htg)]
  have h2 : decContent cf.name kvs' = decContent cf.name kvs := by
    rw [decContent_sel, decContent_sel, hselo cf hcfm (hne_of cf hcfm hcg)]
  have F' : RedactFacts a kvs' tf cf := by
    refine ⟨F.htf, F.hcf, F.noUnknown, by rw [h1]; exact F.terr, by rw [h2]; exact F.cerr, by rw [h2]; exact F.ccls,
      by rw [h1]; exact F.tutf, by rw [h1, h2]; exact F.cmod, ?_⟩
    simp only [marshalOk, List.all_eq_true]
    intro f hf
    have := List.all_eq_true.mp hall f hf
    simp only [Bool.or_eq_true, Bool.not_eq_true'] at this ⊢
    rcases this with h | h
    · exact Or.inl (Or.inl h)
    · exact Or.inl (Or.inr h)
  refine ⟨_, _, hv, redactObj_of F', ?_⟩
  unfold outputOf
  rw [h1, h2]
  apply stripSigs_flatMap _ _ a.fields g
  · intro f hf hne
    unfold emitField
    rw [lookupField_sel, lookupField_sel, hselo f hf (hne_of f hf hne)]
  · intro kv hkv; rw [emitField_name hkv, hgn]
  · intro kv hkv; rw [emitField_name hkv, hgn]

/-- Replacing the `signatures` member changes the redaction only in its `signatures` member. -/
theorem redactWith_signatures {a : Algo} (hT : tablesOk a = true) (hS : tableOk a = true) (s : JVal) {kvs : EventParse.Obj} {v : JVal}
    (h : redactWith a (.obj kvs) = .ok v) :
    ∃ r r', v = .obj r ∧ redactWith a (.obj (setFirst b!"signatures" s kvs)) = .ok (.obj r') ∧ stripSigs r' = stripSigs r := by
  obtain ⟨hdist, _, _, _⟩ := tablesOk_parts hT
  have hnd := names_nodup hdist
  apply redactObj_signatures hT hS (kvs := exactFields a.fields kvs) ?_ h
  intro f hf hne
  rw [sel_wf (exactFields_wf hdist _) hf, sel_wf (exactFields_wf hdist _) hf, lookupExact_exactFields hnd _ hf,
    lookupExact_exactFields hnd _ hf, lookupExact_setFirst_other s kvs (fun e => hne e.symm)]

/-- The reference hash input (= the signing payload) and the event ID do not depend on the
    `signatures` member. -/
theorem referenceID_ignores_signatures (H : Bytes → Bytes) (row : VGen.VersionRow) (ver : Bytes) (kvs : EventParse.Obj) (s : JVal)
    (hfmt : row.eventFormat = 2) {id : Bytes} (h : referenceID H row ver (.obj kvs) = .ok id) :
    referenceID H row ver (.obj (setFirst b!"signatures" s kvs)) = .ok id ∧
    referenceBytes ver (.obj (setFirst b!"signatures" s kvs)) = referenceBytes ver (.obj kvs) := by
  unfold referenceID at h
  cases hr : redactJSON ver (.obj kvs) with
  | error x => rw [hr] at h; cases h
  | ok v =>
    obtain ⟨a, kvs0, rk, ha, hro, hv⟩ := C04.redactJSON_obj hr
    have hro' : redactWith a (.obj kvs) = .ok v := by
      simpa [redactJSON, ha] using hr
    obtain ⟨hT, _⟩ := C05.algoOf_ok ha
    obtain ⟨r, r', hvr, hr', hstrip⟩ := redactWith_signatures hT (algoOf_tableOk ha) s hro'
    have hr2 : redactJSON ver (.obj (setFirst b!"signatures" s kvs)) = .ok (.obj r') := by
      simpa [redactJSON, ha] using hr'
    subst hvr
    rw [hr] at h
    constructor
    · unfold referenceID
      rw [hr2]
      simp only [hfmt] at h ⊢
      rw [hstrip]
      exact h
    · simp only [referenceBytes, hr, hr2, hstrip]

/-- **`Sign` keeps the event ID** (events without duplicate top-level keys, event formats with
    hashed IDs). -/
theorem eventID_ignores_signatures (H : Bytes → Bytes) {e e' : PDU} {name kid sig : Bytes} (h : signWith e name kid sig = .ok e')
    (hn : (keysOf e.obj).Nodup) {row : VGen.VersionRow} (hrow : rowOf e.ver = some row) (hfmt : row.eventFormat = 2)
    {id : Bytes} (hid : eventID H e = .ok id) : eventID H e' = .ok id := by
  unfold signWith at h
  rw [hrow] at h
  simp only at h
  split at h
  · split at h <;> cases h
  · cases h
  · split at h
    · cases h
    · rename_i ns _
      split at h
      · cases h
      · cases h
      · cases h
        unfold eventID at hid ⊢
        simp only [hrow] at hid ⊢
        split
        · rename_i hc; rw [if_pos hc] at hid; exact hid
        · rename_i hc
          rw [if_neg hc] at hid
          rw [dedupLast_nodup e.obj hn]
          cases hr : referenceID H row e.ver (.obj e.obj) with
          | error x =>
            exfalso
            rw [hr] at hid
            cases x with
            | other w => simp only at hid; split at hid <;> cases hid
            | badJSON => cases hid
            | panic s => cases hid
          | ok i =>
            rw [hr] at hid
            simp only at hid
            rw [(referenceID_ignores_signatures H row e.ver e.obj ns hfmt hr).1]
            exact hid

/-! ## Redaction -/

/-- **`Redact()` keeps the event ID** (event formats with hashed IDs), for every event whose JSON has no
    member with the key `event_id` (`hnoid` — a condition on the event itself, not on its redaction: redaction
    matches keys exactly, so neither a case variant such as `Event_id` nor anything else can put an `event_id`
    member into the redacted JSON).  It holds of every event received through `NewEventFromUntrustedJSON`
    (`eventID_redact_invariant_received`: the key is stripped on receipt) and of every `EventBuilder.Build`
    output of these formats (`Build` writes no `event_id`).

    What remains outside: TRUSTED JSON (`NewEventFromTrustedJSON`, `…WithEventID`, the headered form) that carries
    an `event_id` member in a hashed-ID format.  The constructors take the stored ID from it (or from the
    argument), `Redact()` re-reads the member from the redacted JSON: the two can differ (a case variant read by
    the struct decoding, an `…WithEventID` argument different from the member). -/
theorem eventID_redact_invariant (H : Bytes → Bytes) {e e' : PDU} (h : redact e = .ok e') (hv : e.fmt ≠ .v1)
    (hnoid : lookupExact e.obj b!"event_id" = none) :
    eventID H e' = eventID H e := by
  unfold redact at h
  split at h
  · cases h; rfl
  · split at h
    · cases h
    · rename_i row hrow
      cases hr : redactJSON e.ver (.obj e.obj) with
      | error x =>
        rw [hr] at h
        cases x with
        | other w => simp only at h; split at h <;> cases h
        | badJSON => cases h
        | panic s => cases h
      | ok r =>
        rw [hr] at h
        dsimp only at h
        obtain ⟨a', _, rk, ha', hro, hrk⟩ := C04.redactJSON_obj hr
        subst hrk
        have hm : members rk b!"event_id" = [] := by
          obtain ⟨_, a, ha, hev⟩ := C04.row_facts hrow
          have haa : a' = a := by rw [ha] at ha'; exact (Option.some.inj ha').symm
          subst haa
          obtain ⟨hT, _⟩ := C05.algoOf_ok ha
          have := no_event_id_member hT hev hro
          rwa [deleteFirst_absent _ _ (C05.redact_drops_unlisted hr (by decide) (by decide) hnoid)] at this
        have hv' : (e.fmt == Fmt.v1) = false := by simp [hv]
        have hraw : (decodeFields Fmt.v2 rk).f.eventIDRaw = [] := by
          simp only [decodeFields, hm, seqString, List.foldl_nil]
        have href := (C05.redact_preserves_reference hr H row).2
        cases henf : enforcedOkVal row (.obj rk) with
        | none => rw [henf] at h; cases h
        | some b =>
          rw [henf] at h
          cases b with
          | false => cases h
          | true =>
            dsimp only at h
            simp only [hv', Bool.false_eq_true, if_false] at h
            split at h
            · cases h
            · split at h
              · cases h
              · cases h
                unfold eventID
                simp only [hv', Bool.false_or, hraw, List.isEmpty_nil, if_true, hrow, href]

/-- `Redact()` keeps the ID of every event received through `NewEventFromUntrustedJSON` (formats with hashed
    IDs) — no proviso: the receiver stripped `event_id`, and redaction cannot bring one back. -/
theorem eventID_redact_invariant_received (H : Bytes → Bytes) {ver text : Bytes} {e e' : PDU}
    (hp : parseUntrusted H ver text = .ok e) (h : redact e = .ok e') (hv : e.fmt ≠ .v1) :
    eventID H e' = eventID H e :=
  eventID_redact_invariant H h hv (C04.accepted_no_event_id hp hv)

/-! ## Injectivity and alphabet -/

theorem encodeWith_injective {α : List UInt8} (h : B64.GoodAlphabet α) {x y : Bytes}
    (he : B64.encodeWith α x = B64.encodeWith α y) : x = y := by
  have hx := B64.decode_encode_with h x
  have hy := B64.decode_encode_with h y
  rw [he] at hx
  rw [hx] at hy
  exact Option.some.inj hy

/-- the event ID of the hashed formats, once the redaction is known -/
theorem referenceID_hashed (H : Bytes → Bytes) (row : VGen.VersionRow) (ver : Bytes) (hfmt : row.eventFormat = 2)
    {j : JVal} {r : EventParse.Obj} (hr : redactJSON ver j = .ok (.obj r)) :
    referenceID H row ver j =
      if row.eventIDFormat = 2 then .ok (0x24 :: B64.encodeWith B64.stdAlphabet (H (encodeCanon (.obj (stripSigs r)))))
      else if row.eventIDFormat = 3 then .ok (0x24 :: B64.encodeWith B64.urlAlphabet (H (encodeCanon (.obj (stripSigs r)))))
      else .error errOther := by
  simp [referenceID, hr, hfmt]

/-- **The event ID determines the redacted, signature- and unsigned-stripped event** (collision-free
    `H`): two events with the same ID (event formats with hashed IDs) have the same reference bytes,
    i.e. the same canonical encoding of their redacted forms without `signatures` / `unsigned`; for
    values with well-formed number literals those forms are then equal up to member order and the
    spelling of zero (`C01.encodeCanon_injective`).  Since `hashes` is part of the redacted form, events
    built from proto-events that differ in a hashed field differ in `hashes.sha256` (again by collision
    freeness of `H`: `hash_injective`) and hence in their ID.  That last step is formalised at the end of this
    file: `eventID_determines_hashes` (equal IDs ⇒ equal `hashes` members up to canonical form, equal
    `hashes.sha256`), `eventID_injective_hashed` (… and valid content hashes ⇒ equal hashed fields) and
    `build_eventID_injective` (the statement about `EventBuilder.Build`). -/
theorem eventID_injective (H : Bytes → Bytes) (hH : Function.Injective H) (row : VGen.VersionRow) (ver : Bytes)
    (hfmt : row.eventFormat = 2) {j1 j2 : JVal} {id : Bytes}
    (h1 : referenceID H row ver j1 = .ok id) (h2 : referenceID H row ver j2 = .ok id) :
    referenceBytes ver j1 = referenceBytes ver j2 := by
  cases hr1 : redactJSON ver j1 with
  | error x => simp [referenceID, hr1] at h1
  | ok v1 =>
    cases hr2 : redactJSON ver j2 with
    | error x => simp [referenceID, hr2] at h2
    | ok v2 =>
      obtain ⟨_, _, r1, _, _, hv1⟩ := C04.redactJSON_obj hr1
      obtain ⟨_, _, r2, _, _, hv2⟩ := C04.redactJSON_obj hr2
      subst hv1 hv2
      rw [referenceID_hashed H row ver hfmt hr1] at h1
      rw [referenceID_hashed H row ver hfmt hr2] at h2
      simp only [referenceBytes, hr1, hr2]
      by_cases hf2 : row.eventIDFormat = 2
      · rw [if_pos hf2] at h1 h2
        rw [← h2] at h1
        have e := (List.cons.inj (Except.ok.inj h1)).2
        rw [hH (encodeWith_injective B64.std_good e)]
      · rw [if_neg hf2] at h1 h2
        by_cases hf3 : row.eventIDFormat = 3
        · rw [if_pos hf3] at h1 h2
          rw [← h2] at h1
          have e := (List.cons.inj (Except.ok.inj h1)).2
          rw [hH (encodeWith_injective B64.url_good e)]
        · rw [if_neg hf3] at h1; cases h1

/-- equal, valid content hashes ⇒ equal hashed fields (collision-free `H`) -/
theorem hash_injective (H : Bytes → Bytes) (hH : Function.Injective H) {k1 k2 : EventParse.Obj}
    (h1 : contentHashOk H k1 = true) (h2 : contentHashOk H k2 = true) (he : claimedHash k1 = claimedHash k2) :
    hashedBytes k1 = hashedBytes k2 := by
  unfold contentHashOk at h1 h2
  rw [he] at h1
  cases hd : B64.decode (claimedHash k2) with
  | none => rw [hd] at h2; cases h2
  | some d =>
    rw [hd] at h1 h2
    simp only [beq_iff_eq] at h1 h2
    rw [h1] at h2
    exact hH h2

theorem encodeWith_length (α : List UInt8) : ∀ bs : Bytes, (B64.encodeWith α bs).length = (bs.length * 4 + 2) / 3 := by
  intro bs
  induction bs using B64.encodeWith.induct with
  | case1 => simp [B64.encodeWith]
  | case2 a => simp [B64.encodeWith]
  | case3 a b => simp [B64.encodeWith]
  | case4 a b c rest ih =>
    rw [B64.encodeWith]
    simp only [List.length_cons, ih]
    omega

/-- **The ID uses the prescribed alphabet**: `$` followed by characters of the standard base64
    alphabet (ID format 2) resp. the URL-safe alphabet (ID format 3); 43 of them for a 32-byte hash. -/
theorem eventID_alphabet (H : Bytes → Bytes) (row : VGen.VersionRow) (ver : Bytes) (hfmt : row.eventFormat = 2)
    {j : JVal} {id : Bytes} (h : referenceID H row ver j = .ok id) :
    ∃ s, id = 0x24 :: s ∧
      (row.eventIDFormat = 2 → ∀ c ∈ s, ∃ i : Fin 64, c = B64.encChar B64.stdAlphabet i.val) ∧
      (row.eventIDFormat = 3 → ∀ c ∈ s, ∃ i : Fin 64, c = B64.encChar B64.urlAlphabet i.val) ∧
      ((∀ x, (H x).length = 32) → s.length = 43) := by
  cases hr : redactJSON ver j with
  | error x => simp [referenceID, hr] at h
  | ok v =>
    obtain ⟨_, _, r, _, _, hv⟩ := C04.redactJSON_obj hr
    subst hv
    rw [referenceID_hashed H row ver hfmt hr] at h
    by_cases hf2 : row.eventIDFormat = 2
    · rw [if_pos hf2] at h
      refine ⟨_, (Except.ok.inj h).symm, fun _ => B64.encodeWith_chars _ _, ?_, ?_⟩
      · intro h3; rw [hf2] at h3; cases h3
      · intro hl; rw [encodeWith_length, hl]
    · rw [if_neg hf2] at h
      by_cases hf3 : row.eventIDFormat = 3
      · rw [if_pos hf3] at h
        refine ⟨_, (Except.ok.inj h).symm, fun h2 => absurd h2 hf2, fun _ => B64.encodeWith_chars _ _, ?_⟩
        intro hl; rw [encodeWith_length, hl]
      · rw [if_neg hf3] at h; cases h

/-! ## Room version 12 -/

/-- **v12: a create event's room ID is its event ID with the sigil swapped.** -/
theorem v12_create_roomID (H : Bytes → Bytes) {e : PDU} (hf : e.fmt = .v3) (hc : isCreate e = true)
    {rid id : Bytes} (hr : roomID H e = .ok rid) (hi : eventID H e = .ok id) : rid = 0x21 :: id.drop 1 := by
  unfold roomID at hr
  simp only [hf, hc, beq_self_eq_true, Bool.and_self, if_true, hi] at hr
  cases id with
  | nil => cases hr
  | cons c rest =>
    simp only [newRoomIDOrPanic] at hr
    split at hr
    · cases hr
    · cases hr; rfl
    · cases hr

/-- **v12: every other event reports the create event (the room ID with the sigil swapped) as its
    first auth event.** -/
theorem v12_auth_first {e : PDU} (hf : e.fmt = .v3) (hc : isCreate e = false)
    {l : Option (List Bytes)} (h : authEventIDs e = .ok l) :
    ∃ rest, l = some ((0x24 :: e.f.roomID.drop 1) :: rest) := by
  unfold authEventIDs at h
  simp only [hf, hc, Bool.false_eq_true, if_false] at h
  split at h
  · cases h
  · rename_i c rest hroom
    cases h
    exact ⟨_, by rw [hroom]; rfl⟩

/-- a v12 create event has no auth events -/
theorem v12_create_no_auth {e : PDU} (hf : e.fmt = .v3) (hc : isCreate e = true) : authEventIDs e = .ok (some []) := by
  unfold authEventIDs
  simp only [hf, hc, if_true]

/-! ### The events `Sign`, `SetUnsigned` and `SetUnsignedField` return are the same event

`Sign()` and `SetUnsigned()` return a copy, `SetUnsignedField()` edits in place; in every room version the result is an
event of the SAME struct (eventV3 overrides `Sign` and `SetUnsigned` since /repo 2aa10ca — before it the result for a
version-12 event was an `*eventV2`: `RoomID()` of a create event panicked, `AuthEventIDs()` of any other event lost the
create event; `event.derived` is the correspondence op) with the same decoded fields, so the two version-12 clauses
above — and every accessor C03 lists — carry over to it. -/

/-- the struct, version, redaction flag and every decoded field but `unsigned` -/
def SameDerived (e' e : PDU) : Prop :=
  e'.fmt = e.fmt ∧ e'.ver = e.ver ∧ e'.redacted = e.redacted ∧ ∃ u, e'.f = { e.f with unsigned := u }

theorem signWith_same {e e' : PDU} {name kid sig : Bytes} (h : signWith e name kid sig = .ok e') : SameDerived e' e := by
  unfold signWith at h
  split at h
  · cases h
  · split at h
    · split at h <;> cases h
    · cases h
    · split at h
      · cases h
      · simp only at h
        split at h
        · cases h
        · cases h
        · cases h; exact ⟨rfl, rfl, rfl, e.f.unsigned, rfl⟩

theorem setUnsigned_same {e e' : PDU} {u : JVal} (h : setUnsigned e u = .ok e') : SameDerived e' e := by
  unfold setUnsigned at h
  split at h
  · cases h
  · simp only at h
    split at h
    · cases h
    · cases h
    · cases h; exact ⟨rfl, rfl, rfl, some u, rfl⟩

theorem setUnsignedField_same {e e' : PDU} {k : Bytes} {v : JVal} (h : setUnsignedField e k v = .ok e') : SameDerived e' e := by
  unfold setUnsignedField at h
  simp only at h
  split at h
  · cases h
  · cases h; exact ⟨rfl, rfl, rfl, _, rfl⟩

/-- **Every accessor C03 lists reports on the derived event what it reports on the original**: type, sender, state key,
    content, depth, timestamp, prev / auth references (in version 12: the create event first) and — for an event with a
    stored ID, i.e. anything a constructor other than `…WithEventID("")` returned — the event ID and the room ID (in
    version 12: of a create event, its own event ID with the sigil swapped). -/
theorem derived_same_accessors (H : Bytes → Bytes) {e' e : PDU} (h : SameDerived e' e)
    (hid : e.fmt = .v1 ∨ e.f.eventIDRaw ≠ []) :
    e'.f.type = e.f.type ∧ e'.f.sender = e.f.sender ∧ e'.f.stateKey = e.f.stateKey ∧ e'.f.content = e.f.content ∧
    e'.f.depth = e.f.depth ∧ e'.f.originServerTS = e.f.originServerTS ∧ prevEventIDs e' = prevEventIDs e ∧
    authEventIDs e' = authEventIDs e ∧ eventID H e' = eventID H e ∧ roomID H e' = roomID H e := by
  obtain ⟨hf, _, _, u, hu⟩ := h
  have hc : isCreate e' = isCreate e := by simp only [isCreate, isCreateF, hu]
  have he : eventID H e' = eventID H e := by
    unfold eventID
    have hraw : e'.f.eventIDRaw = e.f.eventIDRaw := by rw [hu]
    have hcond : (e.fmt == .v1 || !e.f.eventIDRaw.isEmpty) = true := by
      rcases hid with h1 | h1
      · simp [h1]
      · cases hr : e.f.eventIDRaw with
        | nil => exact absurd hr h1
        | cons c r => simp
    rw [hf, hraw, if_pos hcond, if_pos hcond]
  refine ⟨by rw [hu], by rw [hu], by rw [hu], by rw [hu], by rw [hu], by rw [hu], ?_, ?_, he, ?_⟩
  · simp only [prevEventIDs, hf, hu]
  · simp only [authEventIDs, hf, hc, hu]
  · simp only [roomID, hf, hc, he, hu]

/-! ## Round trip through the constructors -/

theorem members_deleteFirst_other (n k : Bytes) (kvs : EventParse.Obj) (h : matchesField k n = false) :
    members (deleteFirst k kvs) n = members kvs n := by
  have := sel_deleteFirst_other n k kvs h
  unfold members
  unfold sel at this
  rw [this]

/-- the struct fields C03 lists, by JSON name -/
def coreNames : List Bytes := [b!"room_id", b!"sender", b!"type", b!"state_key", b!"content", b!"redacts", b!"depth",
  b!"origin_server_ts", b!"prev_events", b!"auth_events"]

theorem strip_keeps_core : ∀ fmt : Fmt, ∀ k ∈ stripKeys fmt, ∀ n ∈ coreNames, matchesField k n = false := by
  intro fmt
  cases fmt <;> decide

theorem members_deleteKeys (ks : List Bytes) (n : Bytes) (kvs : EventParse.Obj) (h : ∀ k ∈ ks, matchesField k n = false) :
    members (deleteKeys ks kvs) n = members kvs n := by
  unfold deleteKeys
  induction ks generalizing kvs with
  | nil => rfl
  | cons k rest ih =>
    simp only [List.foldl_cons]
    rw [ih _ (fun x hx => h x (List.mem_cons_of_mem _ hx)), members_deleteFirst_other n k kvs (h k List.mem_cons_self)]

/-- the fields C03 lists -/
structure SameCore (f g : Fields) : Prop where
  roomID : f.roomID = g.roomID
  sender : f.sender = g.sender
  type : f.type = g.type
  stateKey : f.stateKey = g.stateKey
  content : f.content = g.content
  redacts : f.redacts = g.redacts
  depth : f.depth = g.depth
  ts : f.originServerTS = g.originServerTS
  prev : f.prevEvents = g.prevEvents
  auth : f.authEvents = g.authEvents

theorem decode_stripped_core (fmt : Fmt) (kvs : EventParse.Obj) :
    SameCore (decodeFields fmt (deleteKeys (stripKeys fmt) kvs)).f (decodeFields fmt kvs).f := by
  have hm : ∀ n ∈ coreNames, members (deleteKeys (stripKeys fmt) kvs) n = members kvs n :=
    fun n hn => members_deleteKeys _ n kvs (fun k hk => strip_keeps_core fmt k hk n hn)
  have h1 := hm b!"room_id" (by decide)
  have h2 := hm b!"sender" (by decide)
  have h3 := hm b!"type" (by decide)
  have h4 := hm b!"state_key" (by decide)
  have h5 := hm b!"content" (by decide)
  have h6 := hm b!"redacts" (by decide)
  have h7 := hm b!"depth" (by decide)
  have h8 := hm b!"origin_server_ts" (by decide)
  have h9 := hm b!"prev_events" (by decide)
  have h10 := hm b!"auth_events" (by decide)
  constructor <;> simp only [decodeFields, h1, h2, h3, h4, h5, h6, h7, h8, h9, h10]

theorem parseTrusted_ok {H : Bytes → Bytes} {ver text : Bytes} {red : Bool} {e : PDU} (h : parseTrusted H ver red text = .ok e) :
    ∃ row p fmt kvs e0, rowOf ver = some row ∧ parse text = some p ∧ fmtOfName row.newEventFromTrustedJSONFunc = some fmt ∧
      p.toJVal = .obj kvs ∧ construct fmt ver red text (.obj kvs) = .ok e0 ∧ SameButID e0 e ∧
      (e0.fmt ≠ .v1 → referenceID H row ver (.obj kvs) = .ok e.f.eventIDRaw) := by
  unfold parseTrusted at h
  split at h
  · cases h
  · rename_i row hrow
    split at h
    · cases h
    · rename_i p hp
      obtain ⟨fmt, e0, hf, hc, hs, hid⟩ := trustedCore_ok h
      obtain ⟨kvs, hj, g1, g2, g3, g4, g5, g6⟩ := construct_ok hc
      refine ⟨row, p, fmt, kvs, e0, hrow, hp, hf, hj, by rw [← hj]; exact hc, hs, ?_⟩
      intro hne
      have := hid hne
      rw [g1, g5] at this
      exact this

/-- **Round trip through the constructors.**  If a text is accepted as trusted input and as
    untrusted input and its content hash is valid, the two events agree on type, sender, room ID,
    state key, content, redacts, depth, timestamp and prev / auth references, the untrusted one is not
    marked redacted and has passed `CheckFields`; if the text has no `event_id` member (no case
    variant either) the two events have the same (computed) event ID.

    `_partial`: a statement about arbitrary texts under the hypotheses `ht`, `hu`, `hh`; that the
    output of `EventBuilder.Build` satisfies them — and the full round trip, headered form included —
    is `build_roundtrip` below. -/
theorem reparse_same_partial {H : Bytes → Bytes} {ver text : Bytes} {e e' : PDU}
    (ht : parseTrusted H ver false text = .ok e) (hu : parseUntrusted H ver text = .ok e')
    (hh : ∀ row fmt p kvs, rowOf ver = some row → fmtOfName row.newEventFromUntrustedJSONFunc = some fmt →
      parse text = some p → stripped fmt p.toJVal = .obj kvs → contentHashOk H kvs = true) :
    SameCore e'.f e.f ∧ e'.redacted = false ∧ e.redacted = false ∧
    (e.fmt ≠ .v1 → members e.obj b!"event_id" = [] → e'.f.eventIDRaw = e.f.eventIDRaw) := by
  obtain ⟨row, p, fmt, kvs, e0, hrow, hp, hf, hj, hc, hs, hid⟩ := parseTrusted_ok ht
  obtain ⟨row', fmt', p', kvs', hrow', hfmt', hp', hs', hA, hef, hcase⟩ := C04.parseUntrusted_cases hu
  have e1 : row' = row := by rw [hrow] at hrow'; exact (Option.some.inj hrow').symm
  subst e1
  have e3 : p' = p := by rw [hp] at hp'; exact (Option.some.inj hp').symm
  subst e3
  have e2 : fmt' = fmt := by
    have := (C04.row_facts hrow).1
    rw [hfmt', hf] at this
    exact Option.some.inj this
  subst e2
  obtain ⟨kvs0, gj, g1, g2, g3, g4, g5, g6⟩ := construct_ok hc
  have hk0 : kvs0 = kvs := by injection gj with h1; exact h1.symm
  subst hk0
  have hkv' : kvs' = deleteKeys (stripKeys fmt') kvs0 := by
    rw [hj] at hs'
    simp only [stripped] at hs'
    injection hs' with h1; exact h1.symm
  have hok := hh row' fmt' p' kvs' hrow hfmt' hp hs'
  rcases hcase with ⟨_, hr, ho, hff⟩ | ⟨hbad, _⟩
  · have hobj : e.obj = kvs0 := by rw [hs]; exact g5
    have hef0 : e.f = { e0.f with eventIDRaw := e.f.eventIDRaw } := by conv => lhs; rw [hs]
    have hcore : SameCore e'.f e.f := by
      unfold FieldsFrom at hff
      rw [hff, ho, hkv', hef0, g6]
      have := decode_stripped_core fmt' kvs0
      exact ⟨this.roomID, this.sender, this.type, this.stateKey, this.content, this.redacts, this.depth, this.ts, this.prev, this.auth⟩
    refine ⟨hcore, hr, by rw [hs]; exact g3, ?_⟩
    intro hne hnoid
    have hfe : e.fmt = fmt' := by rw [hs]; exact g2
    rw [hfe] at hne
    rw [hobj] at hnoid
    have hidt := hid (by rw [g2]; exact hne)
    obtain ⟨row2, hrow2, hidu⟩ := hA.hid (by rw [hef]; exact hne)
    have : row2 = row' := by rw [hrow] at hrow2; exact (Option.some.inj hrow2).symm
    subst this
    -- the untrusted event's ID is computed from the stripped value: unsigned / age_ts / … and the
    -- (absent) event_id do not enter the redaction
    rw [ho, hkv'] at hidu
    have hred : redactJSON ver (.obj (deleteKeys (stripKeys fmt') kvs0)) = redactJSON ver (.obj kvs0) := by
      -- delete the four local keys, then (later formats) event_id, which is absent
      have hfmt2 : stripKeys fmt' = [b!"outlier", b!"destinations", b!"age_ts", b!"unsigned", b!"event_id"] := by
        unfold stripKeys
        have : (fmt' == Fmt.v1) = false := by simp [hne]
        simp [this]
      rw [hfmt2]
      have hsplit : deleteKeys [b!"outlier", b!"destinations", b!"age_ts", b!"unsigned", b!"event_id"] kvs0 =
          deleteFirst b!"event_id" (deleteKeys strip4 kvs0) := by
        simp [deleteKeys, strip4]
      rw [hsplit]
      -- no member matches event_id, so deleting it is the identity
      have hnone : lookupExact (deleteKeys strip4 kvs0) b!"event_id" = none := by
        rw [lookupExact_eq, lastSome_none_iff]
        intro kv hkv
        have hm4 : members (deleteKeys strip4 kvs0) b!"event_id" = [] := by
          rw [members_deleteKeys _ _ _ (by decide)]; exact hnoid
        cases hke : kv.1 == b!"event_id"
        · rfl
        · exfalso
          have hmem : kv.2 ∈ members (deleteKeys strip4 kvs0) b!"event_id" := by
            unfold members
            apply List.mem_map.mpr
            refine ⟨kv, List.mem_filter.mpr ⟨hkv, ?_⟩, rfl⟩
            rw [beq_iff_eq.mp hke]; exact matchesField_self _
          rw [hm4] at hmem; cases hmem
      rw [deleteFirst_absent _ _ hnone, redactJSON_strip4]
    simp only [referenceID, hred] at hidu
    simp only [referenceID] at hidt
    rw [hidt] at hidu
    exact (Except.ok.inj hidu).symm
  · rw [hok] at hbad; cases hbad

/-! ## `EventBuilder.Build` -/

/-- `Build` inverted: the version row, the signed members, the canonical text read back, the
    trusted constructor, `CheckFields` -/
theorem build_ok {H : Bytes → Bytes} {ver : Bytes} {pe : EventBuild.Proto} {now : Nat} {origin kid rand16 sig : Bytes} {e : PDU}
    (h : EventBuild.build H ver pe now origin kid rand16 sig = .ok e) :
    ∃ row signed p, rowOf ver = some row ∧ EventBuild.signedMembers H row ver pe now origin kid rand16 sig = .ok signed ∧
      enforcedOkVal row (.obj signed) = some true ∧ (JVal.obj signed).noDupKeys = true ∧
      parse (encodeCanon (.obj signed)) = some p ∧
      trustedCore H row ver false (encodeCanon (.obj signed)) p.toJVal = .ok e ∧ checkFields e = .ok () := by
  unfold EventBuild.build at h
  split at h
  · cases h
  · rename_i row hrow
    split at h
    · cases h
    · rename_i signed hsm
      unfold EventBuild.finishBuild at h
      split at h
      · cases h
      · cases h
      · rename_i henf
        split at h
        · cases h
        · rename_i hnd
          split at h
          · cases h
          · rename_i p hp
            split at h
            · cases h
            · rename_i e1 ht
              split at h
              · cases h
              · rename_i hcf
                cases h
                exact ⟨row, signed, p, hrow, hsm, henf, by simpa using hnd, hp, ht, hcf⟩

/-- **What `Build` returns has passed its own field checks, is not marked redacted, and is the
    trusted parse of a canonical JSON text** (kept from round 1; `build_roundtrip` below is the full
    round-trip statement). -/
theorem build_checked_partial {H : Bytes → Bytes} {ver : Bytes} {pe : EventBuild.Proto} {now : Nat}
    {origin kid rand16 sig : Bytes} {e : PDU} (h : EventBuild.build H ver pe now origin kid rand16 sig = .ok e) :
    checkFields e = .ok () ∧ e.redacted = false ∧ e.ver = ver ∧ (ProtoOk pe → e.json = encodeCanon (.obj e.obj)) ∧
    ∃ row, rowOf ver = some row ∧ trustedCore H row ver false e.json (.obj e.obj) = .ok e := by
  obtain ⟨row, signed, p, hrow, hsm, _, hnd, hp, ht, hcf⟩ := build_ok h
  obtain ⟨fmt, e0, _, hc, hs, _⟩ := trustedCore_ok ht
  obtain ⟨kvs, hj, g1, g2, g3, g4, g5, g6⟩ := construct_ok hc
  have hobj : e.obj = e0.obj := by rw [hs]
  have hjson : e.json = e0.json := by rw [hs]
  have hver : e.ver = e0.ver := by rw [hs]
  have hred : e.redacted = e0.redacted := by rw [hs]
  refine ⟨hcf, by rw [hred, g3], by rw [hver, g1], ?_, row, hrow, ?_⟩
  · intro hpe
    have hpj := parse_canon_text (signed_numsOk hpe hsm) hp
    rw [hpj] at hj
    have hk : kvs = canonMembers signed := by injection hj with h1; exact h1.symm
    rw [hjson, hobj, g4, g5, hk, ← canon_obj, encodeCanon_canon _ hnd]
  · rw [hjson, hobj, g4, g5, ← hj]
    exact ht

/-- per version: the with-ID constructor fills the same struct as the trusted one; the V1 struct is
    used exactly by event format 1; the event format is 1 or 2 -/
theorem build_table_facts : ∀ row ∈ VGen.roomVersions,
    (fmtOfName row.newEventFromTrustedJSONWithEventIDFunc == fmtOfName row.newEventFromTrustedJSONFunc &&
     ((fmtOfName row.newEventFromTrustedJSONFunc == some Fmt.v1) == (row.eventFormat == 1)) &&
     (row.eventFormat == 1 || row.eventFormat == 2)) = true := by
  decide

theorem build_row_facts {ver : Bytes} {row : VGen.VersionRow} {fmt : Fmt} (hrow : rowOf ver = some row)
    (hf : fmtOfName row.newEventFromTrustedJSONFunc = some fmt) :
    fmtOfName row.newEventFromTrustedJSONWithEventIDFunc = some fmt ∧ (fmt ≠ .v1 → (row.eventFormat == 2) = true) := by
  have := build_table_facts row (List.mem_of_find?_eq_some hrow)
  simp only [Bool.and_eq_true, beq_iff_eq, Bool.or_eq_true] at this
  obtain ⟨⟨h1, h2⟩, h3⟩ := this
  refine ⟨by rw [h1, hf], fun hne => ?_⟩
  rw [hf] at h2
  have : (some fmt == some Fmt.v1) = false := by simp [hne]
  rw [this] at h2
  rcases h3 with h3 | h3
  · rw [h3] at h2; simp at h2
  · simp [h3]

theorem ite_err_inv {c : Prop} [Decidable c] {x : Err} {B : Except Err Unit}
    (h : (if c then Except.error x else B) = Except.ok ()) : ¬ c ∧ B = Except.ok () := by
  by_cases hc : c
  · rw [if_pos hc] at h; cases h
  · rw [if_neg hc] at h; exact ⟨hc, h⟩

/-- `CheckFields` reads the format, the version, the listed fields and the size of the JSON -/
theorem checkFields_congr {e e' : PDU} (hf : e'.fmt = e.fmt) (hv : e'.ver = e.ver) (hc : SameCore e'.f e.f)
    (hl : e'.json.length ≤ e.json.length) (h : checkFields e = .ok ()) : checkFields e' = .ok () := by
  have ha : authEventIDs e' = authEventIDs e := by
    unfold authEventIDs isCreate isCreateF
    rw [hf, hc.type, hc.stateKey, hc.roomID, hc.auth]
  have hp : prevEventIDs e' = prevEventIDs e := by
    unfold prevEventIDs
    rw [hf, hc.prev]
  unfold checkFields at h ⊢
  rw [ha, hp, hv, hc.type, hc.stateKey, hc.sender]
  cases hae : authEventIDs e with
  | error x => rw [hae] at h; cases h
  | ok a =>
    rw [hae] at h
    simp only at h ⊢
    obtain ⟨c1, h⟩ := ite_err_inv h
    obtain ⟨c2, h⟩ := ite_err_inv h
    obtain ⟨c3, h⟩ := ite_err_inv h
    obtain ⟨c4, h⟩ := ite_err_inv h
    obtain ⟨c5, h⟩ := ite_err_inv h
    obtain ⟨c6, h⟩ := ite_err_inv h
    obtain ⟨c7, h⟩ := ite_err_inv h
    obtain ⟨c8, h⟩ := ite_err_inv h
    obtain ⟨c9, h⟩ := ite_err_inv h
    obtain ⟨c10, _⟩ := ite_err_inv h
    rw [if_neg c1, if_neg (by omega), if_neg c3, if_neg c4, if_neg c5, if_neg c6, if_neg c7, if_neg c8, if_neg c9, if_neg c10]

/-- **`e'` is the event `e`**, as far as the accessors C03 lists can tell: same room version and
    struct, same type / sender / room ID / state key / content / redacts / depth / timestamp /
    prev- and auth-event lists (`SameCore`), same stored and reported event ID, same `RoomID()`,
    `PrevEventIDs()`, `AuthEventIDs()`; not marked redacted; passes `CheckFields`. -/
structure SameEvent (H : Bytes → Bytes) (e' e : PDU) : Prop where
  ver : e'.ver = e.ver
  fmt : e'.fmt = e.fmt
  core : SameCore e'.f e.f
  idRaw : e'.f.eventIDRaw = e.f.eventIDRaw
  eventID : eventID H e' = eventID H e
  roomID : roomID H e' = roomID H e
  prev : prevEventIDs e' = prevEventIDs e
  auth : authEventIDs e' = authEventIDs e
  notRedacted : e'.redacted = false
  checked : checkFields e' = .ok ()

theorem sameCore_of {f' f g' g : Fields} {a b : Bytes} {u : Option JVal} (h1 : f' = { g' with eventIDRaw := a })
    (h2 : f = { g with eventIDRaw := b }) (h3 : g' = { g with unsigned := u }) : SameCore f' f := by
  subst h1 h2 h3
  constructor <;> rfl

theorem sameEvent_of {H : Bytes → Bytes} {e' e : PDU} (hv : e'.ver = e.ver) (hf : e'.fmt = e.fmt) (hc : SameCore e'.f e.f)
    (hr : e'.f.eventIDRaw = e.f.eventIDRaw)
    (ho : ∀ row, referenceID H row e.ver (.obj e'.obj) = referenceID H row e.ver (.obj e.obj))
    (hnr : e'.redacted = false) (hck : checkFields e' = .ok ()) : SameEvent H e' e := by
  have hid : eventID H e' = eventID H e := by
    unfold eventID
    rw [hf, hr, hv]
    simp only [ho]
  refine ⟨hv, hf, hc, hr, hid, ?_, ?_, ?_, hnr, hck⟩
  · unfold roomID isCreate isCreateF
    rw [hf, hid, hc.type, hc.stateKey, hc.roomID]
  · unfold prevEventIDs
    rw [hf, hc.prev]
  · unfold authEventIDs isCreate isCreateF
    rw [hf, hc.type, hc.stateKey, hc.roomID, hc.auth]

/-- **C03, round trip.**  An event produced by `EventBuilder.Build` — any registered room version,
    any proto-event whose raw-JSON inputs are JSON values (`ProtoOk`), any time, origin, key ID,
    random event-ID characters and signature bytes — re-parses from its JSON

    (a) as untrusted input (`NewEventFromUntrustedJSON`): successfully, to an event with the same
        version, type, sender, room ID, state key, content, redacts, depth, origin_server_ts, prev- and
        auth-event references, event ID (stored and reported), `RoomID()`; not marked redacted; passing
        `CheckFields` (`SameEvent`).  The two facts behind it: the content hash `Build` wrote is the one
        the receiver recomputes after its own stripping (`contentHash_canon`), and every stage of the
        untrusted constructor accepts the canonical text (`parseUntrusted_intro`);
    (b) as trusted input (`NewEventFromTrustedJSON`): successfully, to the very same event;
    (c) through the headered form: `ToHeaderedJSON` succeeds, and every text denoting the value it
        writes (the event's members followed by `_room_version` and `_event_id`; such texts exist —
        the compact rendering of that value is one) is read back by `NewEventFromHeaderedJSON` as the
        very same event;

    and the event itself is not marked redacted and has passed `CheckFields`. -/
theorem build_roundtrip {H : Bytes → Bytes} {ver : Bytes} {pe : EventBuild.Proto} {now : Nat}
    {origin kid rand16 sig : Bytes} {e : PDU} (hpe : ProtoOk pe)
    (hb : EventBuild.build H ver pe now origin kid rand16 sig = .ok e) :
    (∃ e', parseUntrusted H ver e.json = .ok e' ∧ SameEvent H e' e) ∧
    parseTrusted H ver false e.json = .ok e ∧
    (∃ hv, toHeadered H e = .ok hv ∧ (∃ p, parse (encode hv) = some p ∧ p.toJVal = hv) ∧
      ∀ th p, parse th = some p → p.toJVal = hv → parseHeadered false th = .ok e) ∧
    e.redacted = false ∧ checkFields e = .ok () := by
  obtain ⟨row, signed, p, hrow, hsm, henf, hnd, hp, ht, hcf⟩ := build_ok hb
  have SF := signedFacts hsm
  have hnum := signed_numsOk hpe hsm
  have hpj := parse_canon_text hnum hp
  rw [hpj] at ht
  obtain ⟨fmt, id, hfmt, d1, d2, d3, hE, hidv1, hidl⟩ := trustedCore_shape ht
  -- table facts of the version
  obtain ⟨hfeq, a, ha, _⟩ := C04.row_facts hrow
  obtain ⟨hwid, hef⟩ := build_row_facts hrow hfmt
  have hfmtU : fmtOfName row.newEventFromUntrustedJSONFunc = some fmt := by rw [hfeq]; exact hfmt
  obtain ⟨enf, henf'⟩ : ∃ enf, enforces row = some enf := by
    unfold enforcedOkVal at henf
    cases he : enforces row with
    | none => rw [he] at henf; cases henf
    | some enf => exact ⟨enf, rfl⟩
  -- the members of the canonical value: keys, duplicates, text
  have hkeys : ∀ kv ∈ signed, kv.1 ∈ allKeys := by
    intro kv hkv
    rcases SF.keys kv hkv with h | h
    · rw [h]; exact List.mem_cons_self
    · exact List.mem_cons_of_mem _ h
  have hSk := canon_keys hkeys
  have hev : fmt ≠ .v1 → ∀ kv ∈ signed, kv.1 ≠ b!"event_id" := fun hne => SF.noEventID (hef hne)
  have hevS : fmt ≠ .v1 → ∀ kv ∈ canonMembers signed, kv.1 ≠ b!"event_id" := fun hne => canon_key_ne (hev hne)
  have hK := stripKeys_eq fmt (canonMembers signed) hevS
  obtain ⟨k1, k2, k3⟩ := decode_strip4 fmt (canonMembers signed)
  have hSd : (JVal.obj (canonMembers signed)).noDupKeys = true := by
    rw [← canon_obj]; exact noDup_canon _ hnd
  have htext : encodeCanon (.obj (canonMembers signed)) = encodeCanon (.obj signed) := by
    rw [← canon_obj]; exact encodeCanon_canon _ hnd
  have hlen : (encodeCanon (.obj (deleteKeys (stripKeys fmt) (canonMembers signed)))).length ≤
      (encodeCanon (.obj signed)).length := by
    rw [← htext]; exact encodeCanon_sublist_length (deleteKeys_sublist _ _)
  -- the event ID of the later formats; the redaction does not see the receiver's stripping
  have hidS : fmt ≠ .v1 → referenceID H row ver (.obj (canonMembers signed)) = .ok id := fun hne =>
    hidl hne
  have hrefK : ∀ row', referenceID H row' ver (.obj (deleteKeys (stripKeys fmt) (canonMembers signed))) =
      referenceID H row' ver (.obj (canonMembers signed)) := by
    intro row'; simp only [referenceID, hK, redactJSON_strip4]
  -- the canonical value can be redacted (what `signEvent` redacted, signed and canonicalised)
  have hredS : ∃ r, redactJSON ver (.obj (canonMembers signed)) = .ok r := by
    obtain ⟨wh, ns, r, hsig, hr⟩ := SF.redactable
    have hro : redactWith a (.obj wh) = .ok r := by simpa [redactJSON, ha] using hr
    obtain ⟨hT, _⟩ := C05.algoOf_ok ha
    obtain ⟨_, r', _, hr', _⟩ := redactWith_signatures hT (algoOf_tableOk ha) ns hro
    rw [← hsig] at hr'
    obtain ⟨v', hv'⟩ := redactWith_canon hT hnd hr'
    exact ⟨v', by simp [redactJSON, ha, hv']⟩
  subst hE
  have hcore : SameCore (received ver fmt (deleteKeys (stripKeys fmt) (canonMembers signed)) id).f
      ({ (decodeFields fmt (canonMembers signed)).f with eventIDRaw := id } : Fields) :=
    sameCore_of rfl rfl (by rw [hK]; exact k3)
  have hcf' : checkFields (received ver fmt (deleteKeys (stripKeys fmt) (canonMembers signed)) id) = .ok () :=
    checkFields_congr (e := ⟨ver, fmt, false, encodeCanon (.obj signed), canonMembers signed, _⟩) rfl rfl hcore hlen hcf
  refine ⟨⟨received ver fmt (deleteKeys (stripKeys fmt) (canonMembers signed)) id, ?_, ?_⟩, ?_, ?_, rfl, hcf⟩
  · -- (a) untrusted
    refine parseUntrusted_intro hrow hfmtU henf' hp hpj (hasUnderscoreKey_false hSk) ?_ hSd (hasFieldVariant_false hSk) ?_ ?_ ?_ ?_ ?_ ?_ ?_ ?_ hcf'
    · -- the enforced number check passed in `Build`
      unfold enforcedOkVal at henf
      rw [henf'] at henf
      cases enf with
      | false => rfl
      | true =>
        have hj : jNumbersOk (.obj signed) = true := by simpa using henf
        have := jNum_canon _ hj
        rw [canon_obj, ← hpj, jNumbersOk_toJVal] at this
        simp [this]
    · rw [hK, k1]; exact d1
    · rw [hK, k2]; exact d2
    · rw [hK, k3]; exact d3
    · exact Nat.le_trans hlen (checkFields_size hcf)
    · exact contentHash_canon H fmt hnd hkeys hev SF.hash
    · intro _
      obtain ⟨r, hr⟩ := hredS
      exact ⟨r, by rw [hK, redactJSON_strip4]; exact hr⟩
    · intro hne
      rw [hrefK]; exact hidS hne
    · intro h1
      rw [hK, k3]; exact hidv1 h1
  · exact sameEvent_of rfl rfl hcore rfl hrefK rfl hcf'
  · -- (b) trusted
    show parseTrusted H ver false (encodeCanon (.obj signed)) = _
    unfold parseTrusted
    simp only [hrow, hp, hpj]
    exact ht
  · -- (c) headered
    have hide : eventID H (⟨ver, fmt, false, encodeCanon (.obj signed), canonMembers signed,
        { (decodeFields fmt (canonMembers signed)).f with eventIDRaw := id }⟩ : PDU) = .ok id := by
      unfold eventID
      simp only
      by_cases hc : (fmt == Fmt.v1 || !id.isEmpty) = true
      · rw [if_pos hc]
      · rw [if_neg hc]
        have hne : fmt ≠ .v1 := by intro h; simp [h] at hc
        simp only [hrow, hidS hne]
    have hnoh : ∀ kv ∈ canonMembers signed, (kv.1 == b!"_event_id") = false ∧ (kv.1 == b!"_room_version") = false :=
      fun kv hkv => allKeys_no_header kv.1 (hSk kv hkv)
    refine ⟨.obj (setFirst b!"_event_id" (.str id) (setFirst b!"_room_version" (.str ver) (canonMembers signed))), ?_, ?_, ?_⟩
    · unfold toHeadered
      rw [hide]
    · have hnS : numsOkMembers (canonMembers signed) = true := by
        have := parse_numsOk hp
        rw [hpj] at this
        simpa [JVal.numsOk] using this
      exact headered_text hnS (canonMembers_normalised signed) id ver hnoh
    · intro th p' hpth hpv
      rw [parseHeadered_intro hpth hpv (fun kv hkv => allKeys_no_header kv.1 (hSk kv hkv)) hrow hwid d1 d2 d3, htext]

/-! ### Non-vacuity of `build_roundtrip`: concrete successful builds (toy hash) -/

/-- a state event with a `-0` in its content, an `unsigned` member, two auth events -/
def exProto : EventBuild.Proto :=
  { type := b!"m.room.member", sender := b!"@u:hs", roomID := b!"!r:hs", stateKey := some b!"@u:hs", prev := [b!"$p"],
    auth := [b!"$a", b!"$b"], redacts := [], depth := 5,
    content := some (.obj [(b!"membership", .str b!"join"), (b!"n", .num b!"-0")]),
    unsigned := some (.obj [(b!"age", .num b!"7")]), signatures := none }

/-- a room-version-12 create event (no room ID, no prev / auth events) -/
def exCreate : EventBuild.Proto :=
  { exProto with type := b!"m.room.create", stateKey := some [], roomID := [], prev := [], auth := [],
                 content := some (.obj [(b!"room_version", .str b!"12")]) }

example : ProtoOk exProto ∧ ProtoOk exCreate :=
  ⟨⟨fun c h => by cases h; decide, fun u h => by cases h; decide, fun s h => by cases h⟩,
   ⟨fun c h => by cases h; decide, fun u h => by cases h; decide, fun s h => by cases h⟩⟩

def isOk' {α : Type} (x : Except Err α) : Bool :=
  match x with
  | .ok _ => true
  | .error _ => false

/-- `Build` succeeds and the three re-parses succeed (evaluated; the theorem says why) -/
def roundtrips (ver : Bytes) (pe : EventBuild.Proto) : Bool :=
  match EventBuild.build C04.H0 ver pe 1000 b!"hs" b!"ed25519:1" b!"abcdefghijklmnop" b!"c2ln" with
  | .ok e => isOk' (parseUntrusted C04.H0 ver e.json) && isOk' (parseTrusted C04.H0 ver false e.json) &&
      (match toHeadered C04.H0 e with
       | .ok hv => isOk' (parseHeadered false (encode hv))
       | .error _ => false)
  | .error _ => false

set_option maxRecDepth 100000 in
/-- event format 1 (room version 1), event format 2 without the enforced number check (room version 5),
    with it (room version 10; `-0` would be refused there), and a version-12 create event -/
example : roundtrips b!"1" exProto = true ∧ roundtrips b!"5" exProto = true ∧
    roundtrips b!"10" { exProto with content := some (.obj [(b!"membership", .str b!"join")]) } = true ∧
    roundtrips b!"12" exCreate = true := by decide +kernel

/-! ## Non-vacuity (room version 10, toy hash) -/

def isOk {α : Type} (x : Except Err α) : Bool :=
  match x with
  | .ok _ => true
  | .error _ => false

/-- the received example event of C04 can have its `unsigned` set, be signed and be redacted, and
    parses as trusted input too: the hypotheses of the theorems above are satisfiable -/
example : (match parseUntrusted C04.H0 b!"10" (C04.exText "") with
  | .ok e => isOk (setUnsigned e (.obj [(b!"age", .num b!"7")])) && isOk (signWith e b!"hs" b!"ed25519:1" b!"c2ln") &&
             isOk (redact e) && isOk (eventID C04.H0 e) && isOk (parseTrusted C04.H0 b!"10" false (C04.exText ""))
  | _ => false) = true := by decide +kernel

/-- `eventID_redact_invariant` on a received event (no `event_id` member: the receiver stripped it): accepted,
    redactable, and its ID is the same after `Redact()` -/
example : (match parseUntrusted C04.H1 b!"10" (C04.exEv "\"event_id\":\"$x\"," "x" "hw") with
  | .ok e => (match redact e, eventID C04.H1 e with
    | .ok e', .ok id => !e.redacted && e'.redacted && (match eventID C04.H1 e' with
      | .ok id' => id' == id && !id.isEmpty
      | _ => false) && (lookupExact e.obj b!"event_id").isNone
    | _, _ => false)
  | _ => false) = true := by decide +kernel

/-- **`Build` refuses what the untrusted constructors refuse** (defect P5 of the second audit round): when the members
    `Build` has assembled — the proto-event's raw `content` / `unsigned` included — repeat a member name at any depth,
    `Build` returns `BadJSONError` instead of an event (`checkUntrustedEventJSON` on its own output).  Together with
    `build_ok` (an event `Build` returns has no repeated name) this is why `build_roundtrip` needs no hypothesis about
    duplicate names: before the fix the code returned such events and `NewEventFromUntrustedJSON` refused them. -/
theorem build_refuses_duplicate_members (H : Bytes → Bytes) (row : VGen.VersionRow) (ver : Bytes) (signed : EventParse.Obj)
    (henf : enforcedOkVal row (.obj signed) = some true) (hd : (JVal.obj signed).noDupKeys = false) :
    EventBuild.finishBuild H row ver signed = .error .badJSON := by
  unfold EventBuild.finishBuild
  simp [henf, hd]

/-- … and the untrusted constructor refuses the same texts: a text whose value repeats a member name is never accepted -/
theorem untrusted_refuses_duplicate_members (H : Bytes → Bytes) (ver t : Bytes) (p : PVal) (hp : parse t = some p)
    (hd : p.toJVal.noDupKeys = false) : ∀ e, parseUntrusted H ver t ≠ .ok e := by
  intro e h
  unfold parseUntrusted at h
  split at h
  · cases h
  · split at h
    · rw [hp] at h
      simp only at h
      split at h
      · cases h
      · split at h
        · cases h
        · split at h
          · cases h
          · rename_i hnd
            simp [hd] at hnd
    · cases h

/-! ## Injectivity, completed: the event ID determines `hashes`, hence every hashed field

`eventID_injective` stops at the reference bytes.  The three theorems below carry the argument through: equal reference
bytes are equal canonical forms of the redacted events (`C01.encodeCanon_injective`; the redaction of a value with
grammatical number literals has grammatical number literals: `IdInj.redactWith_numsOk`), the redaction keeps `hashes`
verbatim (`IdInj.redactWith_raw`), the canonical form of an object holds under a key the canonical form of the member
the text has under it (`IdInj.lookupExact_canonFirst`), and `hashes.sha256` as gjson reads it is a function of the
canonical form of `hashes` (`IdInj.claimedHash_canon`, no hypothesis about duplicate keys inside `hashes`). -/

/-- **The event ID determines the `hashes` member** (collision-free `H`, event formats with hashed IDs).  Two events
    with the same ID, given as objects without repeated top-level keys whose number literals follow the JSON grammar
    (`numsOk`: true of every value a text denotes, `parse_numsOk`), have the same `hashes` member up to canonical form
    (member order, `-0`) — equivalently the same canonical encoding of it — and the same `hashes.sha256` string.

    The hypothesis "no repeated top-level key" is needed: gjson (`claimedHash`) reads the FIRST `hashes` member,
    redaction keeps the LAST one; `exDupHashes` below is a pair with equal IDs and different `hashes.sha256`.  (The
    untrusted constructors refuse such events, `C04.refuses_repeated_member`; `Build` does not produce them.) -/
theorem eventID_determines_hashes (H : Bytes → Bytes) (hH : Function.Injective H) (row : VGen.VersionRow) (ver : Bytes)
    (hfmt : row.eventFormat = 2) {k1 k2 : EventParse.Obj} {id : Bytes}
    (hn1 : (JVal.obj k1).numsOk = true) (hn2 : (JVal.obj k2).numsOk = true)
    (hd1 : (keysOf k1).Nodup) (hd2 : (keysOf k2).Nodup)
    (h1 : referenceID H row ver (.obj k1) = .ok id) (h2 : referenceID H row ver (.obj k2) = .ok id) :
    (getFirst k1 b!"hashes").map (fun v => v.sorted.normNums) = (getFirst k2 b!"hashes").map (fun v => v.sorted.normNums) ∧
    (getFirst k1 b!"hashes").map encodeCanon = (getFirst k2 b!"hashes").map encodeCanon ∧
    claimedHash k1 = claimedHash k2 := by
  have hb := eventID_injective H hH row ver hfmt h1 h2
  have ok : ∀ {k : EventParse.Obj}, referenceID H row ver (.obj k) = .ok id → ∃ b, referenceBytes ver (.obj k) = .ok b := by
    intro k h
    cases hr : redactJSON ver (.obj k) with
    | error x => simp [referenceID, hr] at h
    | ok v =>
      obtain ⟨_, _, r, _, _, hv⟩ := C04.redactJSON_obj hr
      subst hv
      exact ⟨encodeCanon (.obj (stripSigs r)), by simp [referenceBytes, hr]⟩
  obtain ⟨b, hb1⟩ := ok h1
  have hb2 : referenceBytes ver (.obj k2) = .ok b := by rw [← hb, hb1]
  have hcan := IdInj.hashes_of_referenceBytes hn1 hn2 hb1 hb2
  rw [← IdInj.getFirst_eq_lookupExact hd1, ← IdInj.getFirst_eq_lookupExact hd2] at hcan
  refine ⟨hcan, ?_, ?_⟩
  · have e : ∀ o : Option JVal, o.map encodeCanon = (o.map (fun v => v.sorted.normNums)).map encode := by
      intro o
      cases o with
      | none => rfl
      | some v =>
        simp only [Option.map_some, encodeCanon]
        rw [encode_normNums]
    rw [e, e (getFirst k2 _), hcan]
  · rw [IdInj.claimedHash_canon, IdInj.claimedHash_canon, hcan]

/-- the pair showing that `eventID_determines_hashes` needs "no repeated top-level key": a second, earlier `hashes` member -/
def exDupHashes (dup : Bool) : EventParse.Obj :=
  (if dup then [(b!"hashes", JVal.obj [(b!"sha256", .str b!"QQ")])] else []) ++
  [(b!"type", .str b!"m.x"), (b!"content", .obj []), (b!"hashes", .obj [(b!"sha256", .str b!"Qg")]), (b!"sender", .str b!"@a:h")]

/-- same reference hash under the identity as hash function (room version 10), different `hashes.sha256` -/
example : (match rowOf b!"10" with
  | some row =>
    (match referenceID (fun b => b) row b!"10" (.obj (exDupHashes true)), referenceID (fun b => b) row b!"10" (.obj (exDupHashes false)) with
     | .ok a, .ok b => a == b && !a.isEmpty && claimedHash (exDupHashes true) != claimedHash (exDupHashes false)
     | _, _ => false)
  | none => false) = true := by decide +kernel

/-- **The event ID determines every hashed field** (collision-free `H`, event formats with hashed IDs).  Two events
    with a valid content hash (`checkEventContentHash` passes: what `NewEventFromUntrustedJSON` returns unredacted,
    what `Build` returns) and the same event ID have the same hashed bytes: the canonical encodings of the two events
    without `unsigned`, `signatures` and `hashes` coincide, i.e. (second clause) those two objects are equal up to
    member order and the spelling of zero — every other field, top-level or inside `content`, protected by the
    redaction algorithm or not, is the same. -/
theorem eventID_injective_hashed (H : Bytes → Bytes) (hH : Function.Injective H) (row : VGen.VersionRow) (ver : Bytes)
    (hfmt : row.eventFormat = 2) {k1 k2 : EventParse.Obj} {id : Bytes}
    (hn1 : (JVal.obj k1).numsOk = true) (hn2 : (JVal.obj k2).numsOk = true)
    (hd1 : (keysOf k1).Nodup) (hd2 : (keysOf k2).Nodup)
    (hc1 : contentHashOk H k1 = true) (hc2 : contentHashOk H k2 = true)
    (h1 : referenceID H row ver (.obj k1) = .ok id) (h2 : referenceID H row ver (.obj k2) = .ok id) :
    hashedBytes k1 = hashedBytes k2 ∧
    (JVal.obj (deleteKeys [b!"signatures", b!"unsigned", b!"hashes"] k1)).sorted.normNums =
      (JVal.obj (deleteKeys [b!"signatures", b!"unsigned", b!"hashes"] k2)).sorted.normNums := by
  have hb := hash_injective H hH hc1 hc2 (eventID_determines_hashes H hH row ver hfmt hn1 hn2 hd1 hd2 h1 h2).2.2
  refine ⟨hb, ?_⟩
  have nums : ∀ {k : EventParse.Obj}, (JVal.obj k).numsOk = true →
      (JVal.obj (deleteKeys [b!"signatures", b!"unsigned", b!"hashes"] k)).numsOk = true := by
    intro k hn
    have := numsOk_obj_forall hn
    exact numsOk_obj_of_forall (fun kv hkv => this kv ((deleteKeys_sublist _ _).subset hkv))
  exact C01.encodeCanon_injective _ _ (nums hn1) (nums hn2) hb

/-- event format 2 is read by the later structs -/
theorem fmt_of_eventFormat2 {ver : Bytes} {row : VGen.VersionRow} {fmt : Fmt} (hrow : rowOf ver = some row)
    (hf : fmtOfName row.newEventFromTrustedJSONFunc = some fmt) (hfmt : row.eventFormat = 2) : fmt ≠ .v1 := by
  have := build_table_facts row (List.mem_of_find?_eq_some hrow)
  simp only [Bool.and_eq_true, beq_iff_eq] at this
  obtain ⟨⟨_, h2⟩, _⟩ := this
  intro hv
  rw [hf, hv, hfmt] at h2
  simp at h2

/-- what `Build` returns (event format 2): an object without repeated top-level keys, with grammatical number
    literals and a valid content hash, whose reference hash is the event ID -/
theorem build_hashed {H : Bytes → Bytes} {ver : Bytes} {row : VGen.VersionRow} (hrow : rowOf ver = some row)
    (hfmt : row.eventFormat = 2) {pe : EventBuild.Proto} {now : Nat} {origin kid rand16 sig : Bytes} {e : PDU}
    (hpe : ProtoOk pe) (hb : EventBuild.build H ver pe now origin kid rand16 sig = .ok e) :
    (JVal.obj e.obj).numsOk = true ∧ (keysOf e.obj).Nodup ∧ contentHashOk H e.obj = true ∧
    ∃ id, referenceID H row ver (.obj e.obj) = .ok id ∧ eventID H e = .ok id := by
  obtain ⟨row', signed, p, hrow', hsm, henf, hnd, hp, ht, hcf⟩ := build_ok hb
  have er : row' = row := by rw [hrow] at hrow'; exact (Option.some.inj hrow').symm
  subst er
  have SF := signedFacts hsm
  have hpj := parse_canon_text (signed_numsOk hpe hsm) hp
  have hnum := parse_numsOk hp
  rw [hpj] at ht hnum
  obtain ⟨fmt, id, hf, _, _, _, hE, _, hidl⟩ := trustedCore_shape ht
  have hne := fmt_of_eventFormat2 hrow hf hfmt
  have hkeys : ∀ kv ∈ signed, kv.1 ∈ allKeys := by
    intro kv hkv
    rcases SF.keys kv hkv with h | h
    · rw [h]; exact List.mem_cons_self
    · exact List.mem_cons_of_mem _ h
  have hid := hidl hne
  subst hE
  refine ⟨hnum, ?_, IdInj.contentHash_canon_obj H hnd hkeys SF.hash, id, hid, ?_⟩
  · exact keys_nodup_of_noDup (by rw [← canon_obj]; exact noDup_canon _ hnd)
  · unfold eventID
    simp only
    by_cases hc : (fmt == Fmt.v1 || !id.isEmpty) = true
    · rw [if_pos hc]
    · rw [if_neg hc]
      simp only [hrow, hid]

/-- **C03 at the level of `EventBuilder.Build`: events built from proto-events that differ in any field other than
    `unsigned` / `signatures` get different IDs** (contrapositive; collision-free `H`).  Two successful builds in the
    same room version (event format 2 = room versions 3 and later), from any two proto-events whose raw-JSON inputs
    are JSON values (`ProtoOk`), at any times, with any origins, key IDs and signature bytes: if the two events have
    the same event ID, then their JSON without `unsigned`, `signatures` and `hashes` has the same canonical encoding
    — the same type, sender, room ID, state key, content (every key of it), depth, `origin_server_ts`, `origin`,
    prev / auth references, redacts — and the two objects are equal up to member order and the spelling of zero. -/
theorem build_eventID_injective {H : Bytes → Bytes} (hH : Function.Injective H) {ver : Bytes} {row : VGen.VersionRow}
    (hrow : rowOf ver = some row) (hfmt : row.eventFormat = 2)
    {pe1 pe2 : EventBuild.Proto} {now1 now2 : Nat} {origin1 origin2 kid1 kid2 rand1 rand2 sig1 sig2 : Bytes} {e1 e2 : PDU}
    (hpe1 : ProtoOk pe1) (hpe2 : ProtoOk pe2)
    (hb1 : EventBuild.build H ver pe1 now1 origin1 kid1 rand1 sig1 = .ok e1)
    (hb2 : EventBuild.build H ver pe2 now2 origin2 kid2 rand2 sig2 = .ok e2)
    (hid : eventID H e1 = eventID H e2) :
    hashedBytes e1.obj = hashedBytes e2.obj ∧
    (JVal.obj (deleteKeys [b!"signatures", b!"unsigned", b!"hashes"] e1.obj)).sorted.normNums =
      (JVal.obj (deleteKeys [b!"signatures", b!"unsigned", b!"hashes"] e2.obj)).sorted.normNums := by
  obtain ⟨hn1, hd1, hc1, id1, hr1, hi1⟩ := build_hashed hrow hfmt hpe1 hb1
  obtain ⟨hn2, hd2, hc2, id2, hr2, hi2⟩ := build_hashed hrow hfmt hpe2 hb2
  rw [hi1, hi2] at hid
  have : id1 = id2 := Except.ok.inj hid
  subst this
  exact eventID_injective_hashed H hH row ver hfmt hn1 hn2 hd1 hd2 hc1 hc2 hr1 hr2


/-! ### Non-vacuity of `build_eventID_injective`: concrete builds under an injective toy hash (the identity) -/

/-- an injective "hash": the identity -/
def Hid : Bytes → Bytes := fun b => b

theorem Hid_injective : Function.Injective Hid := fun _ _ h => h

/-- a member event whose content carries a `displayname` (a key NO redaction keeps: the two events below have the
    same redacted content, their IDs differ through `hashes` only) -/
def exMember (name : Bytes) (uns : Option JVal) : EventBuild.Proto :=
  { exProto with content := some (.obj [(b!"membership", .str b!"join"), (b!"displayname", .str name)]), unsigned := uns }

/-- the ID of what `Build` returns (room version 10), `none` when `Build` fails -/
def builtID (pe : EventBuild.Proto) (sig : Bytes) : Option Bytes :=
  match EventBuild.build Hid b!"10" pe 1000 b!"hs" b!"ed25519:1" b!"abcdefghijklmnop" sig with
  | .ok e =>
    (match eventID Hid e with
     | .ok id => some id
     | .error _ => none)
  | .error _ => none

example : ProtoOk (exMember b!"a" none) ∧ ProtoOk (exMember b!"b" (some (.obj [(b!"age", .num b!"7")]))) :=
  ⟨⟨fun c h => by cases h; decide, fun u h => (by cases h), fun s h => (by cases h)⟩,
   ⟨fun c h => by cases h; decide, fun u h => by cases h; decide, fun s h => (by cases h)⟩⟩

set_option maxRecDepth 100000 in
/-- what `build_hashed` derives, evaluated on a concrete build: the hypotheses of `eventID_determines_hashes` /
    `eventID_injective_hashed` are satisfiable together (with an injective `H`) -/
example : (match EventBuild.build Hid b!"10" (exMember b!"a" none) 1000 b!"hs" b!"ed25519:1" b!"abcdefghijklmnop" b!"c2ln" with
  | .ok e => (JVal.obj e.obj).numsOk && noDupIn (keysOf e.obj) && contentHashOk Hid e.obj && !(claimedHash e.obj).isEmpty
  | .error _ => false) = true := by decide +kernel

set_option maxRecDepth 100000 in
/-- three successful builds: two that differ in one (redactable) content field have different IDs; two that differ
    only in `unsigned` and in the signature bytes have the same ID -/
example : (match builtID (exMember b!"a" none) b!"c2ln", builtID (exMember b!"b" none) b!"c2ln",
      builtID (exMember b!"a" (some (.obj [(b!"age", .num b!"7")]))) b!"eHl6" with
  | some i1, some i2, some i3 => i1 != i2 && i1 == i3 && !i1.isEmpty
  | _, _, _ => false) = true := by decide +kernel

/-! ## … and at the level of the proto-event: every hashed input is determined by the event ID -/

/-- the bytes the content hash of a `Build` result covers (event format 2), in terms of the proto-event, the clock and
    the origin: the canonical encoding of the struct marshalling without `event_id`, `signatures`, `unsigned` -/
theorem build_hashed_members {H : Bytes → Bytes} {ver : Bytes} {row : VGen.VersionRow} (hrow : rowOf ver = some row)
    (hfmt : row.eventFormat = 2) {pe : EventBuild.Proto} {now : Nat} {origin kid rand16 sig : Bytes} {e : PDU}
    (hpe : ProtoOk pe) (hb : EventBuild.build H ver pe now origin kid rand16 sig = .ok e) :
    ∃ content eid, pe.content = some content ∧
      hashedBytes e.obj = encodeCanon (.obj ((deleteFirst b!"event_id"
        (membersOf pe content (pe.prev.map JVal.str) (pe.auth.map JVal.str) eid now origin)).filter hashP)) ∧
      (JVal.obj ((deleteFirst b!"event_id"
        (membersOf pe content (pe.prev.map JVal.str) (pe.auth.map JVal.str) eid now origin)).filter hashP)).numsOk = true := by
  obtain ⟨row', signed, p, hrow', hsm, henf, hnd, hp, ht, hcf⟩ := build_ok hb
  have er : row' = row := by rw [hrow] at hrow'; exact (Option.some.inj hrow').symm
  subst er
  have SF := signedFacts hsm
  have hnum := signed_numsOk hpe hsm
  have hpj := parse_canon_text hnum hp
  rw [hpj] at ht
  obtain ⟨fmt, id, hf, _, _, _, hE, _, _⟩ := trustedCore_shape ht
  have hkeys : ∀ kv ∈ signed, kv.1 ∈ allKeys := by
    intro kv hkv
    rcases SF.keys kv hkv with h | h
    · rw [h]; exact List.mem_cons_self
    · exact List.mem_cons_of_mem _ h
  obtain ⟨content, prev, auth, eid, ms, sigs, ns, hc, hrefs, hms, _, _, _, hsigned⟩ := signedMembers_ok hsm
  unfold RefsOf at hrefs
  rw [if_neg (by simp [hfmt])] at hrefs
  rw [if_pos (by simp [hfmt])] at hms
  have hfilter : signed.filter hashP = ms.filter hashP := by
    rw [hsigned, filter_setFirst hashP _ _ (hashP_key _ (Or.inl rfl)), filter_setFirst hashP _ _ (hashP_key _ (Or.inr rfl))]
  rw [hrefs.1, hrefs.2] at hms
  refine ⟨content, eid, hc, ?_, ?_⟩
  · subst hE
    show hashedBytes (canonMembers signed) = _
    rw [IdInj.hashedBytes_canon hnd hkeys, hfilter, hms]
  · rw [← hms, ← hfilter]
    have := numsOk_obj_forall hnum
    exact numsOk_obj_of_forall (fun kv hkv => this kv (List.mem_filter.mp hkv).1)

/-- **C03 at the level of the proto-event: the event ID determines every hashed input of `Build`.**  Two successful builds
    in one room version of event format 2 (room versions 3 and later) — any two proto-events whose raw-JSON inputs are
    JSON values, any times, origins, key IDs, signature bytes — that return events with the same ID were given the same
    type, sender, room ID, state key (absent vs present included), prev- and auth-event lists, redacts, depth, the same
    content up to member order and the spelling of zero (both contents are present: `Build` fails without one), the same
    clock reading (`origin_server_ts`) and the same origin.  What may differ: `unsigned`, `signatures`, the key ID, the
    signature — exactly what the property excepts.  (`prev_state`, the last hashed member, is a function of the state key.) -/
theorem build_eventID_injective_proto {H : Bytes → Bytes} (hH : Function.Injective H) {ver : Bytes} {row : VGen.VersionRow}
    (hrow : rowOf ver = some row) (hfmt : row.eventFormat = 2)
    {pe1 pe2 : EventBuild.Proto} {now1 now2 : Nat} {origin1 origin2 kid1 kid2 rand1 rand2 sig1 sig2 : Bytes} {e1 e2 : PDU}
    (hpe1 : ProtoOk pe1) (hpe2 : ProtoOk pe2)
    (hb1 : EventBuild.build H ver pe1 now1 origin1 kid1 rand1 sig1 = .ok e1)
    (hb2 : EventBuild.build H ver pe2 now2 origin2 kid2 rand2 sig2 = .ok e2)
    (hid : eventID H e1 = eventID H e2) :
    pe1.type = pe2.type ∧ pe1.sender = pe2.sender ∧ pe1.roomID = pe2.roomID ∧ pe1.stateKey = pe2.stateKey ∧
    pe1.prev = pe2.prev ∧ pe1.auth = pe2.auth ∧ pe1.redacts = pe2.redacts ∧ pe1.depth = pe2.depth ∧
    pe1.content.map (fun c => c.sorted.normNums) = pe2.content.map (fun c => c.sorted.normNums) ∧
    now1 = now2 ∧ origin1 = origin2 := by
  obtain ⟨hbytes, _⟩ := build_eventID_injective hH hrow hfmt hpe1 hpe2 hb1 hb2 hid
  obtain ⟨c1, eid1, hc1, hm1, hnum1⟩ := build_hashed_members hrow hfmt hpe1 hb1
  obtain ⟨c2, eid2, hc2, hm2, hnum2⟩ := build_hashed_members hrow hfmt hpe2 hb2
  rw [hm1, hm2] at hbytes
  have hcan := C01.encodeCanon_injective _ _ hnum1 hnum2 hbytes
  rw [canon_obj, canon_obj] at hcan
  have hm := JVal.obj.inj hcan
  have hn1 := (membersOf_keys pe1 c1 (pe1.prev.map JVal.str) (pe1.auth.map JVal.str) eid1 now1 origin1).nodup buildKeys_nodup
  have hn2 := (membersOf_keys pe2 c2 (pe2.prev.map JVal.str) (pe2.auth.map JVal.str) eid2 now2 origin2).nodup buildKeys_nodup
  have key : ∀ k : Bytes, hashP (k, .null) = true → b!"event_id" ≠ k →
      (lookupExact (membersOf pe1 c1 (pe1.prev.map JVal.str) (pe1.auth.map JVal.str) eid1 now1 origin1) k).map (fun v => v.sorted.normNums) =
      (lookupExact (membersOf pe2 c2 (pe2.prev.map JVal.str) (pe2.auth.map JVal.str) eid2 now2 origin2) k).map (fun v => v.sorted.normNums) := by
    intro k hk hke
    rw [← IdInj.hashed_lookup hn1 k hk hke, ← IdInj.hashed_lookup hn2 k hk hke, hm]
  have L1 := IdInj.membersOf_lookups pe1 c1 (pe1.prev.map JVal.str) (pe1.auth.map JVal.str) eid1 now1 origin1
  have L2 := IdInj.membersOf_lookups pe2 c2 (pe2.prev.map JVal.str) (pe2.auth.map JVal.str) eid2 now2 origin2
  refine ⟨?_, ?_, ?_, ?_, ?_, ?_, ?_, ?_, ?_, ?_, ?_⟩
  · have := key b!"type" (by decide) (by decide)
    rw [L1.type, L2.type] at this
    simpa [JVal.sorted, JVal.normNums] using this
  · have := key b!"sender" (by decide) (by decide)
    rw [L1.sender, L2.sender] at this
    simpa [JVal.sorted, JVal.normNums] using this
  · have := key b!"room_id" (by decide) (by decide)
    rw [L1.roomID, L2.roomID] at this
    exact IdInj.optStr_inj this
  · have := key b!"state_key" (by decide) (by decide)
    rw [L1.stateKey, L2.stateKey] at this
    cases h1 : pe1.stateKey <;> cases h2 : pe2.stateKey <;> rw [h1, h2] at this <;>
      simp [JVal.sorted, JVal.normNums] at this ⊢
    exact this
  · have := key b!"prev_events" (by decide) (by decide)
    rw [L1.prev, L2.prev] at this
    simp only [Option.map_some, IdInj.canon_strs, Option.some.injEq, JVal.arr.injEq] at this
    exact IdInj.map_str_inj this
  · have := key b!"auth_events" (by decide) (by decide)
    rw [L1.auth, L2.auth] at this
    simp only [Option.map_some, IdInj.canon_strs, Option.some.injEq, JVal.arr.injEq] at this
    exact IdInj.map_str_inj this
  · have := key b!"redacts" (by decide) (by decide)
    rw [L1.redacts, L2.redacts] at this
    exact IdInj.optStr_inj this
  · have := key b!"depth" (by decide) (by decide)
    rw [L1.depth, L2.depth] at this
    simp only [Option.map_some, JVal.sorted, JVal.normNums, IdInj.encodeNum_intLit, Option.some.injEq, JVal.num.injEq] at this
    exact IdInj.intLit_inj this
  · have := key b!"content" (by decide) (by decide)
    rw [L1.content, L2.content] at this
    rw [hc1, hc2]; exact this
  · have := key b!"origin_server_ts" (by decide) (by decide)
    rw [L1.ts, L2.ts] at this
    simp only [Option.map_some, JVal.sorted, JVal.normNums, IdInj.encodeNum_natDigits, Option.some.injEq, JVal.num.injEq] at this
    exact IdInj.natDigits_inj this
  · have := key b!"origin" (by decide) (by decide)
    rw [L1.origin, L2.origin] at this
    simpa [JVal.sorted, JVal.normNums] using this


/-- **C03, literally: two events built from proto-events that differ in a field other than `unsigned` / `signatures`
    get different IDs** (contrapositive of `build_eventID_injective_proto`; so do two builds of the same proto-event at
    different times or for different origins) -/
theorem build_differ_eventID_ne {H : Bytes → Bytes} (hH : Function.Injective H) {ver : Bytes} {row : VGen.VersionRow}
    (hrow : rowOf ver = some row) (hfmt : row.eventFormat = 2)
    {pe1 pe2 : EventBuild.Proto} {now1 now2 : Nat} {origin1 origin2 kid1 kid2 rand1 rand2 sig1 sig2 : Bytes} {e1 e2 : PDU}
    (hpe1 : ProtoOk pe1) (hpe2 : ProtoOk pe2)
    (hb1 : EventBuild.build H ver pe1 now1 origin1 kid1 rand1 sig1 = .ok e1)
    (hb2 : EventBuild.build H ver pe2 now2 origin2 kid2 rand2 sig2 = .ok e2)
    (hdiff : pe1.type ≠ pe2.type ∨ pe1.sender ≠ pe2.sender ∨ pe1.roomID ≠ pe2.roomID ∨ pe1.stateKey ≠ pe2.stateKey ∨
      pe1.prev ≠ pe2.prev ∨ pe1.auth ≠ pe2.auth ∨ pe1.redacts ≠ pe2.redacts ∨ pe1.depth ≠ pe2.depth ∨
      pe1.content.map (fun c => c.sorted.normNums) ≠ pe2.content.map (fun c => c.sorted.normNums) ∨
      now1 ≠ now2 ∨ origin1 ≠ origin2) :
    eventID H e1 ≠ eventID H e2 := by
  intro hid
  obtain ⟨a1, a2, a3, a4, a5, a6, a7, a8, a9, a10, a11⟩ := build_eventID_injective_proto hH hrow hfmt hpe1 hpe2 hb1 hb2 hid
  rcases hdiff with h | h | h | h | h | h | h | h | h | h | h
  · exact h a1
  · exact h a2
  · exact h a3
  · exact h a4
  · exact h a5
  · exact h a6
  · exact h a7
  · exact h a8
  · exact h a9
  · exact h a10
  · exact h a11

/-- room version 10 is registered with event format 2 -/
theorem v10_format : (match rowOf b!"10" with
  | some row => row.eventFormat == 2
  | none => false) = true := by decide

/-- the theorem on the concrete builds above (`Hid`, room version 10): the two member events that differ in `displayname`
    only — whatever `Build` returns for them, at any two times, for any origins, key IDs and signature bytes — have different
    IDs (the evaluated example above shows that both builds succeed) -/
example {now1 now2 : Nat} {o1 o2 k1 k2 r1 r2 s1 s2 : Bytes} {e1 e2 : PDU}
    (hb1 : EventBuild.build Hid b!"10" (exMember b!"a" none) now1 o1 k1 r1 s1 = .ok e1)
    (hb2 : EventBuild.build Hid b!"10" (exMember b!"b" (some (.obj [(b!"age", .num b!"7")]))) now2 o2 k2 r2 s2 = .ok e2) :
    eventID Hid e1 ≠ eventID Hid e2 := by
  have hv := v10_format
  cases hr : rowOf b!"10" with
  | none => rw [hr] at hv; cases hv
  | some row =>
    rw [hr] at hv
    have hfmt : row.eventFormat = 2 := by simpa using hv
    refine build_differ_eventID_ne Hid_injective hr hfmt
      ⟨fun c h => by cases h; decide, fun u h => (by cases h), fun s h => (by cases h)⟩
      ⟨fun c h => by cases h; decide, fun u h => by cases h; decide, fun s h => (by cases h)⟩ hb1 hb2 ?_
    refine Or.inr (Or.inr (Or.inr (Or.inr (Or.inr (Or.inr (Or.inr (Or.inr (Or.inl ?_))))))))
    intro h
    exact absurd (congrArg (fun o : Option JVal => o.map encode) h) (by decide +kernel)

end V.C03
