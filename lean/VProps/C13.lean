/-
  C13 — Federation request authentication binds method, URI, origin, destination, body.

  Property theorems only (helper lemmas live in VProofs.FedReq).  Model: VModel.FedReq
  (fclient/request.go; the JSONVerifier as `keyRingVerifier`, mirroring keyring.go with a key
  database).  Cryptography enters through `IdealSig` / `CanonCorrect` hypotheses only.  The facts about
  canonical JSON that `signed_request_accepted` needs (what Sign stores as the body is valid UTF-8 and
  re-parses to the same value) are DERIVED from C01 (`canonical_body_facts`: `V.C01.canonical_eq_spec_general`,
  `parse_encodeCanon`, `encodeCanon_sorted`, `canonical_utf8`).

  Round 3 (K5 / K7).  The two carve-outs of the earlier rounds are refusals now, in the code and here:
  * a method / request URI / X-Matrix origin / destination that is not valid UTF-8 (json.Marshal wrote U+FFFD for
    it on both sides, so it was not bound by the signature; the model answered `unmodelled`) is refused by
    `readHTTPRequest` and by `Sign`: `refused_if_not_utf8`, `accepted_fields_utf8`;
  * a body with duplicate member names or ill-formed strings (lone surrogate escapes) is refused by the gate of
    SignJSON / VerifyJSON: `ambiguous_body_refused` (receiver, key ring), and `sign` refuses it on the sending
    side, which is why the residue of the completeness theorems shrinks to `BodyOk` = "the body is valid UTF-8"
    (a body that is not is refused: `refused_if` (6)); `signed_request_accepted_gated` is completeness against
    the key ring WITH its gate (what Sign stores passes it: `canonical_strict`).

  Partial claims (props/C13.py): net/http, net/url and mime are parameters of the model (`HttpReq`,
  `urlRequestURI`); residue outside the model: a key ID or signature TEXT in an X-Matrix header that is not valid
  UTF-8 (neither is a signed field).
-/
import VModel.FedReq
import VProofs.FedReq
import VProofs.FedReqStrict
import VProofs.JsonUtf8
import VProps.C01
import VGen.C13
namespace V.C13
open V V.Json V.FedReq

/-! ### Regenerated facts -/

theorem gen_fields :
    VGen.fedReqFields = [("Content", "content", true), ("Destination", "destination", false), ("Method", "method", false),
      ("Origin", "origin", false), ("RequestURI", "uri", false), ("Signatures", "signatures", true)] := by decide

theorem gen_header_format :
    VGen.authHeaderFormat = ("X-Matrix origin=\"%s\",key=\"%s\",sig=\"%s\",destination=\"%s\"",
      ["r.fields.Origin", "keyID", "sig", "r.fields.Destination"]) ∧
    VGen.httpRequestHeaders = [("Content-Type", "application/json")] ∧
    VGen.authParamNames = [("==", "origin"), ("==", "key"), ("==", "sig"), ("==", "destination")] ∧
    VGen.authSchemeChecks = [("!=", "X-Matrix")] ∧ VGen.mediaTypeChecks = [("!=", "application/json")] :=
  ⟨rfl, rfl, rfl, rfl, rfl⟩

set_option maxRecDepth 20000 in
/-- the model's `safeByte` is the regenerated switch of isSafeInHTTPQuotedString, for every byte -/
theorem gen_safe_ranges :
    ∀ n : Nat, n < 256 → safeByte (UInt8.ofNat n) = VGen.safeRanges.any (fun r => decide (r.1 ≤ n) && decide (n ≤ r.2)) := by
  decide

/-! ### Header round trip -/

/-- What HTTPRequest writes into the Authorization header, ParseAuthorization reads back — for every
    origin, key ID, signature and destination free of commas and double quotes (isSafeInHTTPQuotedString
    excludes the quote; the comma is excluded by the server-name and key-ID grammars and by base64). -/
theorem header_roundtrip (o k s d : Str)
    (ho : 0x2C ∉ o ∧ 0x22 ∉ o) (hk : 0x2C ∉ k ∧ 0x22 ∉ k) (hs : 0x2C ∉ s ∧ 0x22 ∉ s) (hd : 0x2C ∉ d ∧ 0x22 ∉ d) :
    parseAuthorization (authHeader o k s d) = ⟨xMatrix, o, d, k, s⟩ :=
  parse_authHeader o k s d ho hk hs hd

example : parseAuthorization (authHeader (bz!"localhost:8800") (bz!"ed25519:a_Obwu") (bz!"7vt4vP/w8zYB3Zg") (bz!"localhost:44033"))
    = ⟨xMatrix, bz!"localhost:8800", bz!"localhost:44033", bz!"ed25519:a_Obwu", bz!"7vt4vP/w8zYB3Zg"⟩ := by decide

/-- the comma hypothesis is needed: a key ID with a comma does not survive (the code checks quotes only) -/
example : (parseAuthorization (authHeader (bz!"a") (bz!"ed25519:a,b") (bz!"s") (bz!"d"))).key = bz!"ed25519:a" := by decide

/-! ### Acceptance is sound: everything an accepted request guarantees -/

/-- If VerifyHTTPRequest accepts, then: the reported method and URI are the transmitted ones; the reported
    content is the transmitted body, which had JSON content type and was valid UTF-8; there is an X-Matrix
    header, every X-Matrix header is well-formed and names the reported origin; the reported destination
    is the one named by the (last) header, or the receiver's own name if none is named, and the receiver owns
    it; the origin is a valid server name; and the verifier accepted exactly the object built from the reported
    fields at the time of receipt. -/
theorem accepted_facts (req : HttpReq) (now : Millis) (destination : Str) (isLocal : Option (Str → Bool))
    (V : Verifier) (r : Fields) (h : verifyHTTPRequest req now destination isLocal V = .ok r) :
    r.method = req.method ∧ r.uri = req.requestURI ∧
    (req.body = [] → r.content = none) ∧
    (req.body ≠ [] → r.content = some req.body ∧ req.mediaType = some applicationJSON ∧ utf8Valid req.body = true) ∧
    (∃ a, claimed req = some a ∧ a.wellFormed = true ∧ r.origin = a.origin ∧
        r.destination = (if a.destination.isEmpty then destination else a.destination)) ∧
    (∀ a ∈ xMatrixAuths req.authorization, a.wellFormed = true ∧ a.origin = r.origin) ∧
    Owned destination isLocal r.destination ∧
    validServerName r.origin = true ∧
    ∃ cv, contentValue r.content = some cv ∧
      V r.origin now (signingObject cv r.destination r.method r.origin r.uri) r.signatures = .accepted :=
  verify_ok_facts req now destination isLocal V r h

/-! ### Refusals -/

/-- The request is refused (whatever the verifier says) if
    (1) no Authorization header is an X-Matrix one, or
    (2) some X-Matrix header lacks an origin, a key or a signature, or
    (3) the claimed origin is not a valid server name, or
    (4) two X-Matrix headers name different origins, or
    (5) it names a destination the receiver does not own, or
    (6) it has a body whose content type is not application/json or which is not valid UTF-8, or
    (7) the verifier does not accept the claimed origin's signature over the request at the time of receipt. -/
theorem refused_if (req : HttpReq) (now : Millis) (destination : Str) (isLocal : Option (Str → Bool)) (V : Verifier)
    (hbad :
      (∀ h ∈ req.authorization, (parseAuthorization h).scheme ≠ xMatrix) ∨
      (∃ a ∈ xMatrixAuths req.authorization, a.wellFormed = false) ∨
      (∃ a, claimed req = some a ∧ validServerName a.origin = false) ∨
      (∃ a ∈ xMatrixAuths req.authorization, ∃ b ∈ xMatrixAuths req.authorization, a.origin ≠ b.origin) ∨
      (∃ a, claimed req = some a ∧ a.destination ≠ [] ∧ ¬ Owned destination isLocal a.destination) ∨
      (req.body ≠ [] ∧ (req.mediaType ≠ some applicationJSON ∨ utf8Valid req.body = false)) ∨
      (∀ a, claimed req = some a → ∀ obj sigs, V a.origin now obj sigs ≠ .accepted)) :
    ∀ r, verifyHTTPRequest req now destination isLocal V ≠ .ok r := by
  intro r hok
  obtain ⟨_, _, _, f4, ⟨a, hcl, hwf, ho, hd⟩, f6, hown, hvalid, cv, _, hacc⟩ := accepted_facts req now destination isLocal V r hok
  have hmem : a ∈ xMatrixAuths req.authorization := List.mem_of_getLast? hcl
  rcases hbad with h1 | ⟨b, hb, hbw⟩ | ⟨b, hb, hbv⟩ | ⟨b, hb, c, hc, hne⟩ | ⟨b, hb, hbne, hbo⟩ | ⟨hbody, hbb⟩ | h7
  · -- no X-Matrix header
    simp only [xMatrixAuths, List.mem_filter, List.mem_map, beq_iff_eq] at hmem
    obtain ⟨⟨h, hh, rfl⟩, hs⟩ := hmem
    exact h1 h hh hs
  · rw [(f6 b hb).1] at hbw; cases hbw
  · rw [hcl] at hb; simp only [Option.some.injEq] at hb; subst hb
    rw [ho] at hvalid; rw [hvalid] at hbv; cases hbv
  · exact hne ((f6 b hb).2.trans (f6 c hc).2.symm)
  · rw [hcl] at hb; simp only [Option.some.injEq] at hb; subst hb
    have hde : a.destination.isEmpty = false := by simpa using hbne
    rw [hde] at hd; simp only [Bool.false_eq_true, ↓reduceIte] at hd
    rw [hd] at hown; exact hbo hown
  · obtain ⟨_, hm, hu⟩ := f4 hbody
    rcases hbb with hx | hx
    · exact hx hm
    · rw [hu] at hx; cases hx
  · exact h7 a hcl _ _ (ho ▸ hacc)

/-- (7) for the key ring: a request is refused when none of the origin's keys it is signed with was valid at
    the time of receipt (StrictValiditySignatureCheck / expired_ts), whatever the signatures are. -/
theorem refused_if_key_invalid (req : HttpReq) (now : Millis) (destination : Str) (isLocal : Option (Str → Bool))
    (table : List KeyEntry) (dbError : Bool) (wc : Nat) (check : Nat → JVal → Str → Bool)
    (hkeys : ∀ a, claimed req = some a → ∀ k ∈ table, k.server = a.origin → wasValidAt wc k now = false) :
    ∀ r, verifyHTTPRequest req now destination isLocal (keyRingVerifier table dbError wc check) ≠ .ok r := by
  apply refused_if
  right; right; right; right; right; right
  intro a ha obj sigs hacc
  obtain ⟨_, kv, _, _, k, hk, hs, _, hv, _⟩ := (keyRing_accepted_iff table dbError wc check a.origin now obj sigs).mp hacc
  rw [hkeys a ha k hk hs] at hv; cases hv

/-! ### Binding -/

/-- Binding.  With an ideal signature scheme, an accepted request was signed by a key of the reported origin
    that the receiver's key table holds as valid at the time of receipt; and if what that key signed was a
    request object (destination d, method m, origin o, URI u, content c), then the receiver reports exactly d, m,
    o, u — which are also the transmitted method and URI — and a content equal to c up to member order (the
    same canonical JSON).  Contrapositive: a request that differs from what was signed in any of these is refused. -/
theorem binding (S : SigScheme) (hS : IdealSig S)
    (req : HttpReq) (now : Millis) (destination : Str) (isLocal : Option (Str → Bool))
    (table : List KeyEntry) (dbError : Bool) (wc : Nat) (r : Fields)
    (h : verifyHTTPRequest req now destination isLocal (keyRingVerifier table dbError wc S.check) = .ok r) :
    ∃ k ∈ table, k.server = r.origin ∧ wasValidAt wc k now = true ∧
      ∃ signedObj, (∃ kv ∈ r.signatures, kv.1 = k.keyID ∧ kv.2 = S.sign k.pk signedObj) ∧
        ∀ c d m o u, signedObj = signingObject c d m o u →
          r.destination = d ∧ r.method = m ∧ r.origin = o ∧ r.uri = u ∧ req.method = m ∧ req.requestURI = u ∧
          ∃ cv, contentValue r.content = some cv ∧ cv.map JVal.sorted = c.map JVal.sorted := by
  obtain ⟨f1, f2, _, _, _, _, _, _, cv, hcv, hacc⟩ := accepted_facts req now destination isLocal _ r h
  obtain ⟨_, kv, hkv, _, k, hk, hs, hid, hv, hc⟩ := (keyRing_accepted_iff table dbError wc S.check _ now _ _).mp hacc
  obtain ⟨signedObj, hsig, hsorted⟩ := hS.unforgeable _ _ _ hc
  refine ⟨k, hk, hs, hv, signedObj, ⟨kv, hkv, hid.symm, hsig⟩, ?_⟩
  intro c d m o u hobj
  subst hobj
  obtain ⟨h1, h2, h3, h4, h5⟩ := signingObject_sorted_inj _ _ _ _ _ _ _ _ _ _ hsorted
  exact ⟨h1, h2, h3, h4, by rw [← f1, h2], by rw [← f2, h4], cv, hcv, h5⟩

/-! ### C01's contribution: what Sign leaves as the body re-reads to the same value -/

mutual
/-- no number of the parsed text is the literal `-0` (the one literal canonical JSON re-spells) -/
def noNegZero : PVal → Bool
  | .num raw => raw != [0x2D, 0x30]
  | .arr xs => noNegZeroList xs
  | .obj kvs => noNegZeroMembers kvs
  | _ => true
def noNegZeroList : List PVal → Bool
  | [] => true
  | x :: xs => noNegZero x && noNegZeroList xs
def noNegZeroMembers : List (Bytes × Bytes × PVal) → Bool
  | [] => true
  | (_, _, v) :: kvs => noNegZero v && noNegZeroMembers kvs
end

mutual
theorem normNums_of_noNegZero : (p : PVal) → noNegZero p = true → p.toJVal.normNums = p.toJVal
  | .null, _ => rfl
  | .bool _, _ => rfl
  | .str _ _, _ => rfl
  | .num raw, h => by
    simp only [noNegZero, bne_iff_ne, ne_eq] at h
    simp [PVal.toJVal, JVal.normNums, encodeNum, h]
  | .arr xs, h => by
    simp only [noNegZero] at h
    simp only [PVal.toJVal, JVal.normNums, normNumsList_of_noNegZero xs h]
  | .obj kvs, h => by
    simp only [noNegZero] at h
    simp only [PVal.toJVal, JVal.normNums, normNumsMembers_of_noNegZero kvs h]
theorem normNumsList_of_noNegZero : (xs : List PVal) → noNegZeroList xs = true → normNumsList (toJVals xs) = toJVals xs
  | [], _ => rfl
  | x :: xs, h => by
    simp only [noNegZeroList, Bool.and_eq_true] at h
    simp only [toJVals, normNumsList, normNums_of_noNegZero x h.1, normNumsList_of_noNegZero xs h.2]
theorem normNumsMembers_of_noNegZero : (kvs : List (Bytes × Bytes × PVal)) → noNegZeroMembers kvs = true →
    normNumsMembers (toJMembers kvs) = toJMembers kvs
  | [], _ => rfl
  | (_, _, v) :: kvs, h => by
    simp only [noNegZeroMembers, Bool.and_eq_true] at h
    simp only [toJMembers, normNumsMembers, normNums_of_noNegZero v h.1, normNumsMembers_of_noNegZero kvs h.2]
end

/-- **What `hcanon` used to assume, derived from C01.**  For a body that is valid UTF-8 and denotes a JSON value
    `p` without lone surrogate escapes and without duplicate keys, the canonical JSON `c` that Sign stores
    (`V.C01.canonical_eq_spec_general`: it is `encodeCanon p`) is valid UTF-8 (`V.Json.canonical_utf8`), parses
    (`V.Json.parse_encodeCanon`, the content of `V.C01.canonical_output_valid`) to the value `p` with members sorted
    and `-0` written `0`, and has the same canonical bytes as `p` (`V.C01`'s idempotence: `encodeCanon_sorted`,
    `encodeCanon_normNums`); if no number is the literal `-0`, the two values are equal up to member order. -/
theorem canonical_body_facts {raw c : Bytes} {p : PVal} (hp : parse raw = some p) (hu : utf8Valid raw = true)
    (hs : p.surrogatesOk = true) (hd : p.noDupKeys = true) (hc : canonical raw = .ok c) :
    c = encodeCanon p.toJVal ∧ utf8Valid c = true ∧
    ∃ p', parse c = some p' ∧ p'.toJVal = p.toJVal.sorted.normNums ∧
      encodeCanon p'.toJVal = encodeCanon p.toJVal ∧
      (noNegZero p = true → p'.toJVal.sorted = p.toJVal.sorted) := by
  have hspec := V.C01.canonical_eq_spec_general raw p hp hs
  rw [hspec] at hc
  have hce : c = encodeCanon p.toJVal := by injection hc with h; exact h.symm
  subst hce
  obtain ⟨hp', hv'⟩ := parse_encodeCanon p.toJVal (parse_numsOk hp)
  have hdj : p.toJVal.noDupKeys = true := (noDupKeys_toJVal p).trans hd
  refine ⟨rfl, canonical_utf8 hp hu, _, hp', hv', ?_, ?_⟩
  · rw [hv', encodeCanon_normNums, encodeCanon_sorted _ hdj]
  · intro hnz
    rw [hv', sorted_normNums, sorted_idem _ hdj, ← sorted_normNums, normNums_of_noNegZero p hnz]

/-- the hypotheses of `canonical_body_facts` hold of an ordinary body: `{"b":-0, "a":[1,"é\n"]}` is valid UTF-8, has no
    lone surrogate escape and no duplicate key; its canonical form is `{"a":[1,"é\n"],"b":0}`.  (It does contain
    `-0`: the two values then differ in that literal only.) -/
example : (utf8Valid (bz!"{\"b\":-0, \"a\":[1,\"é\\n\"]}") &&
    (parse (bz!"{\"b\":-0, \"a\":[1,\"é\\n\"]}")).any (fun p => p.surrogatesOk && p.noDupKeys && !noNegZero p) &&
    (canonical (bz!"{\"b\":-0, \"a\":[1,\"é\\n\"]}")).toOption == some (bz!"{\"a\":[1,\"é\\n\"],\"b\":0}")) = true := by
  decide

/-- …and why the residue "no lone surrogate escape" cannot be dropped: Sign stores `""` for the body `"\ud800"`
    (CompactJSON drops the escape), which does not denote the value the body denotes (U+FFFD, as gjson reads it:
    the canonical bytes of the two values differ). -/
example : (canonical (bz!"\"\\ud800\"")).toOption = some (bz!"\"\"") ∧
    canonicalSpec (bz!"\"\\ud800\"") = some [0x22, 0xEF, 0xBF, 0xBD, 0x22] ∧ canonicalSpec (bz!"\"\"") = some (bz!"\"\"") := by
  decide

/-! ### Completeness: a signed request sent through HTTPRequest is accepted -/

/-- The common part of the two completeness theorems: everything except the signature check itself, which enters as
    `hchk` (body present: the object the receiver rebuilds from the canonical body checks against the signature made
    over the object built from the original body) and `hchk0` (no body). -/
private theorem accepted_core (S : SigScheme)
    (f0 f : Fields) (serverName keyID : Str) (pk : Nat) (up : Option Str) (req : HttpReq)
    (now : Millis) (destination : Str) (isLocal : Option (Str → Bool)) (table : List KeyEntry) (wc : Nat)
    (hsign : sign f0 serverName keyID (S.sign pk) = .ok f)
    (hreq : httpRequest f up = .ok req)
    (hnosig : f0.signatures = [])
    (hmethod : f0.method ≠ [])
    (hdest : f0.destination ≠ [])
    (hown : match isLocal with
      | some loc => loc f0.destination = true
      | none => destination = f0.destination)
    (hname : serverName ≠ []) (hvalid : validServerName serverName = true)
    (hkid : ed25519Prefix.isPrefixOf keyID = true)
    (hkey : ∃ k ∈ table, k.server = serverName ∧ k.keyID = keyID ∧ k.pk = pk ∧ wasValidAt wc k now = true)
    (hcomma : 0x2C ∉ serverName ∧ 0x2C ∉ keyID ∧ 0x2C ∉ f0.destination)
    (hsigtext : ∀ obj, 0x2C ∉ S.sign pk obj ∧ 0x22 ∉ S.sign pk obj ∧ S.sign pk obj ≠ [] ∧ utf8Valid (S.sign pk obj) = true)
    (hcontent : f0.content ≠ some [])
    (hcanon : ∀ raw c, f0.content = some raw → canonical raw = .ok c →
      utf8Valid c = true ∧ ∃ p p', parse raw = some p ∧ parse c = some p' ∧
        S.check pk (signingObject (some p'.toJVal) f0.destination f0.method serverName f0.uri)
          (S.sign pk (signingObject (some p.toJVal) f0.destination f0.method serverName f0.uri)) = true)
    (hchk0 : S.check pk (signingObject none f0.destination f0.method serverName f0.uri)
          (S.sign pk (signingObject none f0.destination f0.method serverName f0.uri)) = true) :
    verifyHTTPRequest req now destination isLocal (keyRingVerifier table false wc S.check) = .ok f ∧
      f.method = f0.method ∧ f.uri = f0.uri ∧ f.origin = serverName ∧ f.destination = f0.destination := by
  obtain ⟨so, sd, sm, su, hmar, hkidv, cv0, hcv0, hsigs, hcnone, hcsome, _⟩ := sign_shape f0 f serverName keyID _ hsign
  have hfu8 : fieldsUTF8 f = true := by
    have := sign_fieldsUTF8 f0 f serverName keyID _ hsign
    simp only [fieldsUTF8] at this ⊢
    rw [sd, sm, so, su]; exact this
  rw [hnosig] at hsigs
  simp only [setSig, List.any_nil, Bool.false_eq_true, ↓reduceIte, List.nil_append] at hsigs
  -- the signature text
  obtain ⟨hsc, hsq, hsne, hsu⟩ := hsigtext (signingObject cv0 f0.destination f0.method serverName f0.uri)
  have hkne : keyID ≠ [] := by
    intro e; rw [e] at hkid; revert hkid; decide
  -- the content the receiver reads
  have hcontentF : (f.content = none ∧ cv0 = none) ∨
      (∃ raw c p p', f0.content = some raw ∧ f.content = some c ∧ c ≠ [] ∧ utf8Valid c = true ∧
        parse raw = some p ∧ parse c = some p' ∧ cv0 = some p.toJVal ∧
        S.check pk (signingObject (some p'.toJVal) f0.destination f0.method serverName f0.uri)
          (S.sign pk (signingObject (some p.toJVal) f0.destination f0.method serverName f0.uri)) = true) := by
    cases hc0 : f0.content with
    | none =>
      left
      refine ⟨hcnone (Or.inl hc0), ?_⟩
      rw [hc0] at hcv0; simp [contentValue] at hcv0; exact hcv0.symm
    | some raw =>
      right
      have hrne : raw ≠ [] := by intro e; rw [e] at hc0; exact hcontent hc0
      obtain ⟨c, hcan, hfc⟩ := hcsome raw hc0 hrne
      obtain ⟨hu, p, p', hp, hp', hs⟩ := hcanon raw c hc0 hcan
      have hcne : c ≠ [] := by intro e; rw [e, parse_nil] at hp'; cases hp'
      refine ⟨raw, c, p, p', rfl, hfc, hcne, hu, hp, hp', ?_, hs⟩
      rw [hc0] at hcv0
      have : raw.isEmpty = false := by simpa using hrne
      simp [contentValue, this, hp] at hcv0
      exact hcv0.symm
  -- the receiver reads back exactly f
  have hread : readHTTPRequest req = .ok f := by
    have h1 : f.method ≠ [] := by rw [sm]; exact hmethod
    have h2 : ∀ c, f.content = some c → c ≠ [] ∧ utf8Valid c = true := by
      intro c hc
      rcases hcontentF with ⟨hn, _⟩ | ⟨_, c', _, _, _, hfc, hcne, hu, _⟩
      · rw [hn] at hc; cases hc
      · rw [hfc] at hc; simp only [Option.some.injEq] at hc; subst hc; exact ⟨hcne, hu⟩
    have h3 : 0x2C ∉ f.origin ∧ 0x2C ∉ keyID ∧
        0x2C ∉ S.sign pk (signingObject cv0 f0.destination f0.method serverName f0.uri) ∧ 0x2C ∉ f.destination := by
      rw [so, sd]; exact ⟨hcomma.1, hcomma.2.1, hsc, hcomma.2.2⟩
    have h5 : f.origin ≠ [] ∧ keyID ≠ [] ∧ S.sign pk (signingObject cv0 f0.destination f0.method serverName f0.uri) ≠ [] := by
      rw [so]; exact ⟨hname, hkne, hsne⟩
    exact read_produced f up req keyID _ hreq hsigs h1 h2 h3 hsq h5 hfu8
  -- marshalable
  have hmarF : marshalable f = true := by
    simp only [marshalable, Bool.and_eq_true, List.all_eq_true] at hmar ⊢
    rw [sd, sm, so, su, hsigs]
    refine ⟨⟨⟨⟨hmar.1.1.1.1, hmar.1.1.1.2⟩, hmar.1.1.2⟩, hmar.1.2⟩, ?_⟩
    intro kv hkv
    simp only [List.mem_singleton] at hkv
    subst hkv
    exact ⟨hkidv, hsu⟩
  obtain ⟨k, hk, hks, hkid2, hkpk, hkv⟩ := hkey
  refine ⟨?_, sm, su, so, sd⟩
  rcases hcontentF with ⟨hn, hcv0n⟩ | ⟨raw, c, p, p', _, hfc, _, _, _, hp', hcv0s, hchk⟩
  · apply verify_of_read req now destination isLocal _ f none hread (by rw [sd]; exact hdest)
      (by rw [sd]; exact hown) hmarF (by rw [hn]; rfl) (by rw [so]; exact hname) (by rw [so]; exact hvalid)
    rw [keyRing_accepted_iff]
    refine ⟨rfl, (keyID, S.sign pk (signingObject cv0 f0.destination f0.method serverName f0.uri)),
      by rw [hsigs]; simp, hkid, k, hk, by rw [so]; exact hks, hkid2, hkv, ?_⟩
    rw [hkpk, sd, sm, so, su, hcv0n]
    exact hchk0
  · have hce : c.isEmpty = false := by
      cases c with
      | nil => rw [parse_nil] at hp'; cases hp'
      | cons _ _ => rfl
    apply verify_of_read req now destination isLocal _ f (some p'.toJVal) hread (by rw [sd]; exact hdest)
      (by rw [sd]; exact hown) hmarF (by rw [hfc]; simp [contentValue, hce, hp']) (by rw [so]; exact hname)
      (by rw [so]; exact hvalid)
    rw [keyRing_accepted_iff]
    refine ⟨rfl, (keyID, S.sign pk (signingObject cv0 f0.destination f0.method serverName f0.uri)),
      by rw [hsigs]; simp, hkid, k, hk, by rw [so]; exact hks, hkid2, hkv, ?_⟩
    rw [hkpk, sd, sm, so, su, hcv0s]
    exact hchk

/-- The residue of the completeness theorems: the body is valid UTF-8 (anything else is refused — `refused_if` (6)).
    "No lone surrogate escape, no duplicate key" used to be part of it; these bodies are refused by `sign` now (the
    gate of SignJSON), so the hypothesis `hsign` already excludes them (`signed_body_strict`). -/
def BodyOk (raw : Bytes) : Prop := utf8Valid raw = true

/-- A request that `sign` accepted has a body SignJSON's gate lets through: it parses, its surrogate escapes are paired
    (hence no lone one), no object has two members with one name. -/
theorem signed_body_strict {f0 f : Fields} {serverName keyID : Str} {mk : JVal → Str}
    (hsign : sign f0 serverName keyID mk = .ok f) {raw : Bytes} (hc0 : f0.content = some raw) (hne : raw ≠ []) :
    ∃ p, parse raw = some p ∧ V.Sign.pairedOk p = true ∧ p.surrogatesOk = true ∧ p.noDupKeys = true := by
  obtain ⟨_, _, _, _, _, _, _, _, _, _, _, hstrict⟩ := sign_shape f0 f serverName keyID mk hsign
  rw [hc0] at hstrict
  obtain ⟨p, hp, hw, hd⟩ := (contentSignStrict_some hne).mp hstrict
  exact ⟨p, hp, hw, surrogatesOk_of_paired p hw, hd⟩

/-- A request (NewFederationRequest + optional SetContent = `f0`, not yet signed) signed by its origin with a
    key the receiver holds as valid at the time of receipt, rendered by HTTPRequest and delivered unchanged, is
    accepted at the named destination, and VerifyHTTPRequest reports the signed fields (`f`: method, URI,
    origin, destination as given; the content in canonical form).

    C01's facts about canonical JSON are not assumed: they are `canonical_body_facts`, for every body that is valid
    UTF-8 (`BodyOk`; that it has no lone surrogate escape and no duplicate key follows from `hsign`: Sign refuses such
    bodies).  One further restriction is
    forced by `IdealSig.correct`, which promises a valid check only for objects equal *up to member order*: no number of
    the body is the literal `-0` (canonical JSON writes it `0`, so the receiver's object differs from the signed one in
    that literal).  `signed_request_accepted_canon` removes it under the byte-level reading of correctness. -/
theorem signed_request_accepted (S : SigScheme) (hS : IdealSig S)
    (f0 f : Fields) (serverName keyID : Str) (pk : Nat) (up : Option Str) (req : HttpReq)
    (now : Millis) (destination : Str) (isLocal : Option (Str → Bool)) (table : List KeyEntry) (wc : Nat)
    (hsign : sign f0 serverName keyID (S.sign pk) = .ok f)
    (hreq : httpRequest f up = .ok req)
    (hnosig : f0.signatures = [])
    (hmethod : f0.method ≠ [])
    (hdest : f0.destination ≠ [])
    (hown : match isLocal with
      | some loc => loc f0.destination = true
      | none => destination = f0.destination)
    (hname : serverName ≠ []) (hvalid : validServerName serverName = true)
    (hkid : ed25519Prefix.isPrefixOf keyID = true)
    (hkey : ∃ k ∈ table, k.server = serverName ∧ k.keyID = keyID ∧ k.pk = pk ∧ wasValidAt wc k now = true)
    (hcomma : 0x2C ∉ serverName ∧ 0x2C ∉ keyID ∧ 0x2C ∉ f0.destination)
    (hsigtext : ∀ obj, 0x2C ∉ S.sign pk obj ∧ 0x22 ∉ S.sign pk obj ∧ S.sign pk obj ≠ [] ∧ utf8Valid (S.sign pk obj) = true)
    (hcontent : f0.content ≠ some [])
    (hbody : ∀ raw, f0.content = some raw → BodyOk raw ∧ ∀ p, parse raw = some p → noNegZero p = true) :
    verifyHTTPRequest req now destination isLocal (keyRingVerifier table false wc S.check) = .ok f ∧
      f.method = f0.method ∧ f.uri = f0.uri ∧ f.origin = serverName ∧ f.destination = f0.destination := by
  apply accepted_core S f0 f serverName keyID pk up req now destination isLocal table wc hsign hreq hnosig hmethod hdest
    hown hname hvalid hkid hkey hcomma hsigtext hcontent
  · intro raw c hc0 hcan
    obtain ⟨hu, hnz⟩ := hbody raw hc0
    have hrne : raw ≠ [] := by intro e; rw [e] at hc0; exact hcontent hc0
    obtain ⟨p, hp, _, hs, hd⟩ := signed_body_strict hsign hc0 hrne
    obtain ⟨_, hcu, p', hp', _, _, hsort⟩ := canonical_body_facts hp hu hs hd hcan
    exact ⟨hcu, p, p', hp, hp', hS.correct _ _ _ (signingObject_sorted_congr _ _ _ _ _ _ (by simp [hsort (hnz p hp)]))⟩
  · exact hS.correct _ _ _ rfl

/-- Correctness of a scheme that signs the canonical JSON bytes (what ed25519 over `CanonicalJSON` does): a signature
    checks against every object with the same canonical bytes as the signed one.  Implies `IdealSig.correct`. -/
def CanonCorrect (S : SigScheme) : Prop :=
  ∀ pk obj obj', encodeCanon obj' = encodeCanon obj → S.check pk obj' (S.sign pk obj) = true

theorem CanonCorrect.toSorted {S : SigScheme} (h : CanonCorrect S) :
    ∀ pk obj obj', obj'.sorted = obj.sorted → S.check pk obj' (S.sign pk obj) = true :=
  fun pk obj obj' hs => h pk obj obj' (by unfold encodeCanon; rw [hs])

theorem encodeCanon_signingObject_congr (a b : JVal) (d m o u : Bytes) (h : encodeCanon a = encodeCanon b) :
    encodeCanon (signingObject (some a) d m o u) = encodeCanon (signingObject (some b) d m o u) := by
  unfold encodeCanon at h ⊢
  rw [sorted_signingObject_some, sorted_signingObject_some]
  simp only [encode, encodeMembers, h]

/-- The same at full strength for bodies containing `-0`: with correctness read at the level of the signed bytes
    (`CanonCorrect`), every signed request whose body is valid UTF-8 (`BodyOk`) is accepted. -/
theorem signed_request_accepted_canon (S : SigScheme) (hS : CanonCorrect S)
    (f0 f : Fields) (serverName keyID : Str) (pk : Nat) (up : Option Str) (req : HttpReq)
    (now : Millis) (destination : Str) (isLocal : Option (Str → Bool)) (table : List KeyEntry) (wc : Nat)
    (hsign : sign f0 serverName keyID (S.sign pk) = .ok f)
    (hreq : httpRequest f up = .ok req)
    (hnosig : f0.signatures = [])
    (hmethod : f0.method ≠ [])
    (hdest : f0.destination ≠ [])
    (hown : match isLocal with
      | some loc => loc f0.destination = true
      | none => destination = f0.destination)
    (hname : serverName ≠ []) (hvalid : validServerName serverName = true)
    (hkid : ed25519Prefix.isPrefixOf keyID = true)
    (hkey : ∃ k ∈ table, k.server = serverName ∧ k.keyID = keyID ∧ k.pk = pk ∧ wasValidAt wc k now = true)
    (hcomma : 0x2C ∉ serverName ∧ 0x2C ∉ keyID ∧ 0x2C ∉ f0.destination)
    (hsigtext : ∀ obj, 0x2C ∉ S.sign pk obj ∧ 0x22 ∉ S.sign pk obj ∧ S.sign pk obj ≠ [] ∧ utf8Valid (S.sign pk obj) = true)
    (hcontent : f0.content ≠ some [])
    (hbody : ∀ raw, f0.content = some raw → BodyOk raw) :
    verifyHTTPRequest req now destination isLocal (keyRingVerifier table false wc S.check) = .ok f ∧
      f.method = f0.method ∧ f.uri = f0.uri ∧ f.origin = serverName ∧ f.destination = f0.destination := by
  apply accepted_core S f0 f serverName keyID pk up req now destination isLocal table wc hsign hreq hnosig hmethod hdest
    hown hname hvalid hkid hkey hcomma hsigtext hcontent
  · intro raw c hc0 hcan
    have hu := hbody raw hc0
    have hrne : raw ≠ [] := by intro e; rw [e] at hc0; exact hcontent hc0
    obtain ⟨p, hp, _, hs, hd⟩ := signed_body_strict hsign hc0 hrne
    obtain ⟨_, hcu, p', hp', _, henc, _⟩ := canonical_body_facts hp hu hs hd hcan
    exact ⟨hcu, p, p', hp, hp', hS _ _ _ (encodeCanon_signingObject_congr _ _ _ _ _ _ henc)⟩
  · exact hS _ _ _ rfl

/-! ### Round 3: the gate of the key ring, and fields that are not valid UTF-8 -/

/-- Completeness against the key ring WITH the gate of VerifyJSON (`verifyWithKeyRing`): what Sign stores as the body
    — canonical JSON of a body that passed the sender's gate — passes the receiver's gate (`canonical_strict`), so the
    signed request is accepted exactly as in `signed_request_accepted_canon`. -/
theorem signed_request_accepted_gated (S : SigScheme) (hS : CanonCorrect S)
    (f0 f : Fields) (serverName keyID : Str) (pk : Nat) (up : Option Str) (req : HttpReq)
    (now : Millis) (destination : Str) (isLocal : Option (Str → Bool)) (table : List KeyEntry) (wc : Nat)
    (hsign : sign f0 serverName keyID (S.sign pk) = .ok f)
    (hreq : httpRequest f up = .ok req)
    (hnosig : f0.signatures = [])
    (hmethod : f0.method ≠ [])
    (hdest : f0.destination ≠ [])
    (hown : match isLocal with
      | some loc => loc f0.destination = true
      | none => destination = f0.destination)
    (hname : serverName ≠ []) (hvalid : validServerName serverName = true)
    (hkid : ed25519Prefix.isPrefixOf keyID = true)
    (hkey : ∃ k ∈ table, k.server = serverName ∧ k.keyID = keyID ∧ k.pk = pk ∧ wasValidAt wc k now = true)
    (hcomma : 0x2C ∉ serverName ∧ 0x2C ∉ keyID ∧ 0x2C ∉ f0.destination)
    (hsigtext : ∀ obj, 0x2C ∉ S.sign pk obj ∧ 0x22 ∉ S.sign pk obj ∧ S.sign pk obj ≠ [] ∧ utf8Valid (S.sign pk obj) = true)
    (hcontent : f0.content ≠ some [])
    (hbody : ∀ raw, f0.content = some raw → BodyOk raw) :
    verifyWithKeyRing req now destination isLocal table false wc S.check = .ok f ∧
      f.method = f0.method ∧ f.uri = f0.uri ∧ f.origin = serverName ∧ f.destination = f0.destination := by
  have hacc := signed_request_accepted_canon S hS f0 f serverName keyID pk up req now destination isLocal table wc hsign hreq
    hnosig hmethod hdest hown hname hvalid hkid hkey hcomma hsigtext hcontent hbody
  have hstrict : contentStrict (some req.body) = true := by
    by_cases hb : req.body = []
    · rw [hb]; rfl
    · obtain ⟨_, _, _, f4, _⟩ := accepted_facts req now destination isLocal _ f hacc.1
      obtain ⟨hfc, _, _⟩ := f4 hb
      obtain ⟨_, _, _, _, _, _, _, _, _, hcnone, hcsome, _⟩ := sign_shape f0 f serverName keyID _ hsign
      cases hc0 : f0.content with
      | none => rw [hcnone (Or.inl hc0)] at hfc; cases hfc
      | some raw =>
        have hrne : raw ≠ [] := by intro e; rw [e] at hc0; exact hcontent hc0
        obtain ⟨c, hcan, hfc'⟩ := hcsome raw hc0 hrne
        rw [hfc'] at hfc
        simp only [Option.some.injEq] at hfc
        obtain ⟨p, hp, _, hs, hd⟩ := signed_body_strict hsign hc0 hrne
        have hu := hbody raw hc0
        obtain ⟨hce, _⟩ := canonical_body_facts hp hu hs hd hcan
        rw [← hfc, hce]
        exact canonical_strict hp hu hd
  rw [verifyWithKeyRing_of_strict _ _ _ _ _ _ _ _ hstrict]
  exact hacc

/-- **A body its readers disagree on is refused** (K7 for requests): whatever the headers, the keys and the
    signatures, a request whose body has two members with one name in some object, or a string / member name that is
    not well formed (a lone surrogate escape), is not accepted by a receiver whose JSONVerifier is a key ring —
    VerifyJSON's gate fails for every key.  (It used to be accepted under a signature made over the body as
    encoding/json and CompactJSON read it.) -/
theorem ambiguous_body_refused (req : HttpReq) (now : Millis) (destination : Str) (isLocal : Option (Str → Bool))
    (table : List KeyEntry) (dbError : Bool) (wc : Nat) (check : Nat → JVal → Str → Bool)
    (h : contentStrict (some req.body) = false) :
    ∀ r, verifyWithKeyRing req now destination isLocal table dbError wc check ≠ .ok r := by
  unfold verifyWithKeyRing
  apply refused_if
  right; right; right; right; right; right
  intro a _ obj sigs
  exact gated_never_accepts req.body h table dbError wc check a.origin now obj sigs

/-- **Sign refuses such a body too** (duplicate names, lone surrogate escapes; a body that is merely not valid UTF-8 is
    signed as before and refused by the receiver: `refused_if` (6)), and a method / URI / origin / destination that is not
    valid UTF-8. -/
theorem sign_refuses (f0 : Fields) (serverName keyID : Str) (mk : JVal → Str)
    (h : contentSignStrict f0.content = false ∨ fieldsUTF8 { f0 with origin := serverName } = false) :
    ∀ f, sign f0 serverName keyID mk ≠ .ok f := by
  intro f hs
  rcases h with h | h
  · obtain ⟨_, _, _, _, _, _, _, _, _, _, _, hstrict⟩ := sign_shape f0 f serverName keyID mk hs
    rw [hstrict] at h; cases h
  · rw [sign_fieldsUTF8 f0 f serverName keyID mk hs] at h; cases h

/-- **Fields that are not valid UTF-8 are refused** (K5): a transmitted request whose method or request URI, or whose
    X-Matrix origin or destination, is not valid UTF-8 is not accepted — by any verifier.  (json.Marshal wrote U+FFFD for
    every invalid sequence, on both sides: `PUT /a?user=<U+FFFD>` signed, `/a?user=\xc0` transmitted, was accepted.) -/
theorem refused_if_not_utf8 (req : HttpReq) (now : Millis) (destination : Str) (isLocal : Option (Str → Bool)) (V : Verifier)
    (h : utf8Valid req.method = false ∨ utf8Valid req.requestURI = false ∨
      ∃ a ∈ xMatrixAuths req.authorization, utf8Valid a.origin = false ∨ utf8Valid a.destination = false) :
    ∀ r, verifyHTTPRequest req now destination isLocal V ≠ .ok r := by
  intro r hok
  obtain ⟨f, hf⟩ := verify_ok_read req now destination isLocal V r hok
  obtain ⟨hm, hu, ha⟩ := readHTTPRequest_utf8 req f hf
  rcases h with h | h | ⟨a, hmem, h | h⟩
  · rw [hm] at h; cases h
  · rw [hu] at h; cases h
  · rw [(ha a hmem).1] at h; cases h
  · rw [(ha a hmem).2] at h; cases h

/-- … in positive form: every signed string field an accepted request reports is valid UTF-8, so the JSON object the
    signature was checked over carries exactly these bytes (`binding` is then a statement about the transmitted bytes). -/
theorem accepted_fields_utf8 (req : HttpReq) (now : Millis) (destination : Str) (isLocal : Option (Str → Bool))
    (V : Verifier) (r : Fields) (h : verifyHTTPRequest req now destination isLocal V = .ok r) :
    utf8Valid r.method = true ∧ utf8Valid r.uri = true ∧ utf8Valid r.origin = true ∧
    (∀ a, claimed req = some a → a.destination ≠ [] → utf8Valid r.destination = true) := by
  obtain ⟨f, hf⟩ := verify_ok_read req now destination isLocal V r h
  obtain ⟨hm, hu, ha⟩ := readHTTPRequest_utf8 req f hf
  obtain ⟨f1, f2, _, _, ⟨a, hcl, _, ho, hd⟩, _⟩ := accepted_facts req now destination isLocal V r h
  have hmem : a ∈ xMatrixAuths req.authorization := List.mem_of_getLast? hcl
  refine ⟨by rw [f1]; exact hm, by rw [f2]; exact hu, by rw [ho]; exact (ha a hmem).1, ?_⟩
  intro b hb hne
  rw [hcl] at hb; simp only [Option.some.injEq] at hb; subst hb
  have hde : a.destination.isEmpty = false := by simpa using hne
  rw [hd, hde]; simp only [Bool.false_eq_true, ↓reduceIte]
  exact (ha a hmem).2

/-! ### Non-vacuity: the hypotheses are jointly satisfiable -/

/-- a toy scheme: the "signature" is the canonical JSON of the object followed by a key tag -/
def toyScheme : SigScheme where
  sign pk obj := 0x41 :: (encodeCanon obj).filter (fun c => c != 0x2C && c != 0x22 && c < 0x80) ++ [UInt8.ofNat (0x30 + pk % 10)]
  check pk obj sig := sig == 0x41 :: (encodeCanon obj).filter (fun c => c != 0x2C && c != 0x22 && c < 0x80) ++ [UInt8.ofNat (0x30 + pk % 10)]

/-- the toy scheme satisfies `IdealSig` (it is of course not secure: the point is joint satisfiability) -/
example : IdealSig toyScheme where
  correct := by
    intro pk obj obj' h
    simp only [toyScheme, encodeCanon, h, beq_self_eq_true]
  unforgeable := by
    intro pk obj' sig h
    refine ⟨obj', ?_, rfl⟩
    simpa [toyScheme] using h

/-- a concrete accepted request (a bodiless GET), evaluated by the kernel: the model accepts what it produced -/
example :
    (match sign (newRequest (bz!"GET") [] (bz!"b.example") (bz!"/_matrix/federation/v1/version"))
        (bz!"a.example") (bz!"ed25519:1") (toyScheme.sign 3) with
    | .ok f =>
      (match httpRequest f (some f.uri) with
       | .ok req =>
         (match verifyHTTPRequest req 1000 (bz!"b.example") none
            (keyRingVerifier [⟨bz!"a.example", bz!"ed25519:1", 3, 5000, 0⟩] false 2000 toyScheme.check) with
          | .ok r => r.method == bz!"GET" && r.origin == bz!"a.example" && r.destination == bz!"b.example"
          | .error _ => false)
       | .error _ => false)
    | .error _ => false) = true := by
  decide

/-- the toy scheme is also correct at the level of canonical bytes (hypothesis of `signed_request_accepted_canon`) -/
example : CanonCorrect toyScheme := by
  intro pk obj obj' h
  simp [toyScheme, h]

/-- `hbody` of `signed_request_accepted` is satisfiable by an ordinary body: `{"b":1, "a":[1,"é\n"]}` -/
example : BodyOk (bz!"{\"b\":1, \"a\":[1,\"é\\n\"]}") ∧
    ∀ p, parse (bz!"{\"b\":1, \"a\":[1,\"é\\n\"]}") = some p → noNegZero p = true := by
  have h : (parse (bz!"{\"b\":1, \"a\":[1,\"é\\n\"]}")).all (fun p => noNegZero p) = true := by
    decide
  refine ⟨by unfold BodyOk; decide, fun p hp => ?_⟩
  rw [hp] at h
  simpa using h

/-- `hbody` of `signed_request_accepted_canon`: a body containing `-0` is in its domain -/
example : BodyOk (bz!"{\"b\":-0, \"a\":[1,\"é\\n\"]}") := by
  unfold BodyOk; decide

/-- a concrete accepted request with a body (a PUT whose body contains `-0` and a non-ASCII string, sent with its
    members out of order), evaluated by the kernel: the receiver reports the canonical body -/
example :
    (match setContent (newRequest (bz!"put") [] (bz!"b.example") (bz!"/_matrix/federation/v1/send/1")) (bz!"{\"b\":-0, \"a\":[1,\"é\\n\"]}") with
    | .ok f0 =>
      (match sign f0 (bz!"a.example") (bz!"ed25519:1") (toyScheme.sign 3) with
       | .ok f =>
         (match httpRequest f (some f.uri) with
          | .ok req =>
            (match verifyHTTPRequest req 1000 (bz!"b.example") none
               (keyRingVerifier [⟨bz!"a.example", bz!"ed25519:1", 3, 5000, 0⟩] false 2000 toyScheme.check) with
             | .ok r => r.method == bz!"PUT" && r.origin == bz!"a.example" && r.content == some (bz!"{\"a\":[1,\"é\\n\"],\"b\":0}")
             | .error _ => false)
          | .error _ => false)
       | .error _ => false)
    | .error _ => false) = true := by
  decide +kernel

/-! ### The inputs of K5 / K7, now refused -/

/-- K5: `/a?user=\xc0` (signed: `/a?user=<U+FFFD>`) — refused whatever the headers and the verifier -/
example (auth : List Str) (body : Bytes) (mt : Option Str) (now : Millis) (d : Str) (l : Option (Str → Bool)) (V : Verifier) :
    ∀ r, verifyHTTPRequest ⟨bz!"PUT", [0x2F, 0x61, 0x3F, 0x75, 0x73, 0x65, 0x72, 0x3D, 0xC0], body, mt, auth⟩ now d l V ≠ .ok r :=
  refused_if_not_utf8 _ now d l V (Or.inr (Or.inl (by dsimp only; decide)))

/-- K5, sending side: Sign refuses `PUT /_matrix/x?q=\xff` (it used to store `/_matrix/x?q=<U+FFFD>`) -/
example (mk : JVal → Str) : ∀ f, sign (newRequest (bz!"PUT") [] (bz!"b.example") [0x2F, 0x78, 0x3F, 0x71, 0x3D, 0xFF])
    (bz!"a.example") (bz!"ed25519:1") mk ≠ .ok f :=
  sign_refuses _ _ _ mk (Or.inr (by decide))

/-- K7: the bodies `{"a":"a\ud800b","n":{"x":1}}` and `{"a":"EVIL","a":"ab","n":{"x":1}}` (signed: `{"a":"ab","n":{"x":1}}`) -/
example (m u : Str) (auth : List Str) (now : Millis) (d : Str) (l : Option (Str → Bool)) (table : List KeyEntry) (db : Bool)
    (wc : Nat) (check : Nat → JVal → Str → Bool) :
    (∀ r, verifyWithKeyRing ⟨m, u, bz!"{\"a\":\"a\\ud800b\",\"n\":{\"x\":1}}", some applicationJSON, auth⟩ now d l table db wc check ≠ .ok r) ∧
    (∀ r, verifyWithKeyRing ⟨m, u, bz!"{\"a\":\"EVIL\",\"a\":\"ab\",\"n\":{\"x\":1}}", some applicationJSON, auth⟩ now d l table db wc check ≠ .ok r) :=
  ⟨ambiguous_body_refused _ now d l table db wc check (by dsimp only; decide),
   ambiguous_body_refused _ now d l table db wc check (by dsimp only; decide)⟩

/-- … and Sign refuses to sign `{"a":1,"a":2}` -/
example (mk : JVal → Str) : ∀ f, sign { newRequest (bz!"PUT") [] (bz!"b.example") (bz!"/a") with content := some (bz!"{\"a\":1,\"a\":2}") }
    (bz!"a.example") (bz!"ed25519:1") mk ≠ .ok f :=
  sign_refuses _ _ _ mk (Or.inl (by decide))

end V.C13
