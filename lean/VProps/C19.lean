/-
  C19 — Shared caches and parallel key fetching are safe under concurrency.

  Theorems over ALL schedules of the interleaving models VModel.ConcDns / VModel.ConcFetch: `Reachable` is the closure of
  `init` under the executable `step` function the driver runs, for any number of threads, any op list per thread, any
  clock readings (non-decreasing), any resolver / key-client fault pattern and any Go map iteration order.

  What the model cannot exhibit (the property is claimed PARTIAL for these): the Go memory model (torn reads,
  reordering), the real scheduler and timers.  The granularity is the atomic region (lock … unlock, channel receive,
  unlocked oracle call); the schedule-for-schedule correspondence check ties it to the code.

  Findings of this property (both fixed in /repo, kept as regression guards / documented lemmas):
  * (fixed in /repo bcd0619) NewDNSCache(size ≤ 0, …): the first miss spun forever with the mutex held
    (`dns_evict_spins_of_size_le_zero` is the lemma about the loop; `dns_disabled_of_size_le_zero`,
    `dns_lookup_terminates` are the theorems about the fixed code; ops `conc.dns_size0`).
  * (fixed in /repo 69aec98) eventV2.EventID() used to write EventIDRaw on first use without a lock; the ID is now
    computed at construction and the accessor is read-only: `event_accessors_read_only`.
  * (fixed in /repo 3755557) KeyRing.VerifyJSONs ended with `StoreKeys(keysFetched)` — everything it held, including the
    entries it had only READ from the database: of two concurrent calls on one database, the one whose fetch failed
    wrote the stale entry it had read back over the fresh entry the other one had fetched and stored in between (a lost
    update; no sequential order of the two calls leaves the stale entry).  `verify_store_only_fetched`,
    `verify_no_lost_update`, `verify_serializable_one_writer` are the theorems about the fixed code; ops `conc.verify2`.
-/
import VModel.ConcDns
import VModel.ConcFetch
import VProofs.ConcDns
import VProofs.ConcFetch
import VModel.ConcVerify
import VProofs.ConcVerify
namespace V.C19
open V.Conc V.Conc.Dns

/-! ## DNS cache -/

/-- The cache never holds more entries than its configured size — for EVERY size: a cache with `size ≤ 0` holds nothing. -/
theorem dns_size_bounded {c : Cfg} {todos : List (List Op)} {t0 : Int} {s : State}
    (h : Reachable c todos t0 s) : (s.entries.length : Int) ≤ max c.size 0 := by
  by_cases hc : 0 < c.size
  · have : (s.entries.length : Int) ≤ c.size := by
      induction h with
      | init => simp [init]; omega
      | step m _ hs ih => exact size_step ih hs
    omega
  · have : s.entries = [] := by
      apply Classical.byContradiction
      intro hne
      exact hc ((invC_reachable h).ent hne)
    simp [this]; omega

/-- With `size ≤ 0` the locked store path (Lock, eviction loop, insert) is never entered and the map stays empty:
    the cache is disabled, every lookup resolves (/repo bcd0619). -/
theorem dns_disabled_of_size_le_zero {c : Cfg} {todos : List (List Op)} {t0 : Int} {s : State} (hc : c.size ≤ 0)
    (h : Reachable c todos t0 s) :
    s.entries = [] ∧ s.mutex = none ∧ ∀ th ∈ s.threads, (∀ n a, th.pc ≠ .store n a) ∧ (∀ n a, th.pc ≠ .evict n a) := by
  have ic := invC_reachable h
  refine ⟨?_, ?_, ?_⟩
  · apply Classical.byContradiction
    intro hne
    have := ic.ent hne; omega
  · cases hm : s.mutex with
    | none => rfl
    | some i =>
      obtain ⟨th, hth, n, a, hpc⟩ := ((invA_reachable h).owner i).1 hm
      have := ic.thr th (List.mem_of_getElem? hth) (Or.inr ⟨n, a, hpc⟩); omega
  · intro th hth
    constructor
    · intro n a hpc; have := ic.thr th hth (Or.inl ⟨n, a, hpc⟩); omega
    · intro n a hpc; have := ic.thr th hth (Or.inr ⟨n, a, hpc⟩); omega

/-- The map never holds two entries for one host name. -/
theorem dns_no_dup_keys {c : Cfg} {todos : List (List Op)} {t0 : Int} {s : State}
    (h : Reachable c todos t0 s) : (s.entries.map (·.1)).Nodup := (invA_reachable h).nodup

/-- A step that returns a cached entry (`hit`) at clock value `m.t` has `m.t < entry.expires`, and the entry is the one
    stored under that name. -/
theorem dns_no_stale_served {c : Cfg} {s s' : State} {m : Move} {th th' : Thread} {n : Name} {e : Entry}
    (h : step c s m = some s') (hth : s.threads[m.tid]? = some th) (hth' : s'.threads[m.tid]? = some th')
    (hret : th'.rets = .hit n e :: th.rets) : m.t < e.expires ∧ (n, e) ∈ s.entries := by
  have hne : ∀ (r : Ret), th.rets ≠ r :: th.rets := fun r h => by
    have := congrArg List.length h; simp at this
  cases step_rel h with
  | hit th0 n0 sel rest e0 hth0 hpc htodo hmx hget hlt =>
    rw [hth] at hth0; cases hth0
    simp only [get_set hth, if_true] at hth'; cases hth'
    simp only [List.cons.injEq] at hret
    obtain ⟨hr, _⟩ := hret
    injection hr with h1 h2; subst h1 h2
    exact ⟨hlt, get?_mem hget⟩
  | stale th0 n0 sel rest e0 hth0 =>
    rw [hth] at hth0; cases hth0
    simp only [get_set hth, if_true] at hth'; cases hth'
    exact absurd hret (hne _)
  | absent th0 n0 sel rest hth0 =>
    rw [hth] at hth0; cases hth0
    simp only [get_set hth, if_true] at hth'; cases hth'
    exact absurd hret (hne _)
  | del th0 n0 rest hth0 =>
    rw [hth] at hth0; cases hth0
    simp only [get_set hth, if_true] at hth'; cases hth'
    simp at hret
  | resolveFail th0 n0 sel hth0 =>
    rw [hth] at hth0; cases hth0
    simp only [get_set hth, if_true] at hth'; cases hth'
    simp at hret
  | resolveNoCache th0 n0 sel a hth0 =>
    rw [hth] at hth0; cases hth0
    simp only [get_set hth, if_true] at hth'; cases hth'
    simp at hret
  | resolveOk th0 n0 sel a hth0 =>
    rw [hth] at hth0; cases hth0
    simp only [get_set hth, if_true] at hth'; cases hth'
    exact absurd hret (hne _)
  | lock th0 n0 a hth0 =>
    rw [hth] at hth0; cases hth0
    simp only [get_set hth, if_true] at hth'; cases hth'
    exact absurd hret (hne _)
  | evictOne th0 n0 a hth0 =>
    rw [hth] at hth'; cases hth'
    exact absurd hret (hne _)
  | insert th0 n0 a hth0 =>
    rw [hth] at hth0; cases hth0
    simp only [get_set hth, if_true] at hth'; cases hth'
    simp at hret

/-- If the resolver's successful answers are a function `ans` of the host name, every entry stored under `h` holds
    `ans h`, and every lookup of `h` that returned an entry (cached or fresh) returned `ans h`: never one host's
    addresses for another. -/
theorem dns_right_host {c : Cfg} {ans : Name → Addrs} (hres : ∀ n k a, c.resolver n k = some a → a = ans n)
    {todos : List (List Op)} {t0 : Int} {s : State} (h : Reachable c todos t0 s) :
    (∀ p ∈ s.entries, p.2.addrs = ans p.1) ∧
    (∀ th ∈ s.threads, ∀ r ∈ th.rets, ∀ n e, (r = .hit n e ∨ r = .miss n e) → e.addrs = ans n) :=
  ⟨(invH_reachable hres h).host, (invH_reachable hres h).rets⟩

/-- Every caller gets a result the SEQUENTIAL specification of its own op allows (`Spec.okRet`): in every reachable state the
    ops of each thread split into finished ones, at most one in flight, and the rest; the finished ones explain the
    thread's results one by one: a lookup of `n` returned `ans n` (cached or fresh), or failed — and then the resolver
    call made for that very lookup failed; a delete returned nothing.
    PARTIAL as a linearizability statement: the `cached` flag and the map contents are NOT claimed to be those of one
    sequential execution under the same clock — two concurrent misses of one name both call the resolver and both
    return `cached = false`, which a sequential run (second lookup hits) would not do; callers cannot observe the
    difference in the addresses they get.  What is missing for full linearizability is a sequential witness order for
    the flags; it does not exist for the code as written. -/
theorem linearizable_lookup_partial {c : Cfg} {ans : Name → Addrs} (hres : ∀ n k a, c.resolver n k = some a → a = ans n)
    {todos : List (List Op)} {t0 : Int} {s : State} (h : Reachable c todos t0 s) {i : Nat} {th : Thread}
    (hth : s.threads[i]? = some th) :
    ∃ ops doneRev infl, todos[i]? = some ops ∧ ops = doneRev.reverse ++ infl ++ th.todo ∧ infl.length ≤ 1 ∧
      Spec.Explained c ans doneRev th.rets := by
  obtain ⟨ops, h1, doneRev, infl, h2, h3, h4⟩ := invL_reachable hres h i th hth
  refine ⟨ops, doneRev, infl, h1, h2, ?_, h3⟩
  cases hpc : th.pc <;> rw [hpc] at h4 <;> simp only at h4
  · subst h4; simp
  · subst h4; simp
  · obtain ⟨_, h4, _⟩ := h4; subst h4; simp
  · obtain ⟨_, h4, _⟩ := h4; subst h4; simp

/-- The mutex is held between steps exactly by a thread inside the eviction loop (mutual exclusion of the locked regions). -/
theorem dns_mutex_owner {c : Cfg} {todos : List (List Op)} {t0 : Int} {s : State} (h : Reachable c todos t0 s) (i : Nat) :
    s.mutex = some i ↔ ∃ th, s.threads[i]? = some th ∧ ∃ n a, th.pc = .evict n a := (invA_reachable h).owner i

/-- Lockset discipline: every access of every step to `entries` happens with `c.mutex` held (the lock set is computed
    from the state in which the access happens). -/
theorem dns_lockset_discipline (c : Cfg) (s : State) (m : Move) : ∀ a ∈ accesses c s m, a.disciplined = true := by
  intro a ha
  unfold accesses at ha
  split at ha
  · simp at ha
  · split at ha
    · split at ha
      · simp at ha
      · split at ha
        · simp at ha
        · split at ha
          · split at ha <;> simp at ha <;> (try rcases ha with rfl | rfl) <;> (try subst ha) <;>
              simp [Access.disciplined, guardOf, heldBy]
          · simp at ha; subst ha; simp [Access.disciplined, guardOf, heldBy]
      · split at ha
        · simp at ha
        · simp at ha; subst ha; simp [Access.disciplined, guardOf, heldBy]
    · simp at ha
    · simp at ha
    · split at ha
      · simp at ha
      · rename_i hmx
        have hmx' : s.mutex = some m.tid := by simpa using hmx
        simp at ha
        rcases ha with rfl | rfl <;> simp [Access.disciplined, guardOf, heldBy, hmx']

/-- No deadlock: in every reachable state in which some thread still has something to do, some move is enabled. -/
theorem dns_no_deadlock {c : Cfg} {todos : List (List Op)} {t0 : Int} {s : State} (h : Reachable c todos t0 s)
    (hw : ∃ th ∈ s.threads, ¬ (th.pc = .idle ∧ th.todo = [])) : ∃ m s', step c s m = some s' := by
  have inv := invA_reachable h
  cases hmx : s.mutex with
  | some i =>
    obtain ⟨th, hth, n, a, hpc⟩ := (inv.owner i).1 hmx
    by_cases hlen : (s.entries.length : Int) ≥ c.size
    · exact ⟨⟨i, s.now, 0⟩, _, step_evict_ge hth hpc hmx (Int.le_refl _) hlen⟩
    · exact ⟨⟨i, s.now, 0⟩, _, step_evict_lt hth hpc hmx (Int.le_refl _) hlen⟩
  | none =>
    obtain ⟨th, hmem, hwork⟩ := hw
    obtain ⟨i, hth⟩ := List.getElem?_of_mem hmem
    have hlt : ¬ s.now < s.now := by omega
    refine ⟨⟨i, s.now, 0⟩, ?_⟩
    cases hpc : th.pc with
    | idle =>
      cases htodo : th.todo with
      | nil => exact absurd ⟨hpc, htodo⟩ hwork
      | cons op rest =>
        cases op with
        | lookup n sel =>
          cases hget : get? n s.entries with
          | none => exact ⟨_, by simp [step, hth, hpc, htodo, hmx, hget]; rfl⟩
          | some e =>
            by_cases hexp : s.now < e.expires
            · exact ⟨_, by simp [step, hth, hpc, htodo, hmx, hget, hexp]; rfl⟩
            · exact ⟨_, by simp [step, hth, hpc, htodo, hmx, hget, hexp]; rfl⟩
        | del n => exact ⟨_, by simp [step, hth, hpc, htodo, hmx]; rfl⟩
    | resolve n sel =>
      cases hr : c.resolver n sel with
      | none => exact ⟨_, by simp [step, hth, hpc, hr]; rfl⟩
      | some a =>
        by_cases hsz : c.size ≤ 0
        · exact ⟨_, by simp [step, hth, hpc, hr, hsz]; rfl⟩
        · exact ⟨_, by simp [step, hth, hpc, hr, hsz]; rfl⟩
    | store n a => exact ⟨_, by simp [step, hth, hpc, hmx]; rfl⟩
    | evict n a =>
      have := (inv.owner i).2 ⟨th, hth, n, a, hpc⟩
      rw [hmx] at this; cases this

/-- Termination of the eviction loop (what makes `lookup` return): with `0 < size`, once the clock value read in the
    loop is strictly later than every stored entry's timestamp (`expires < t + duration`), the loop of the thread holding
    the mutex ends within `len(entries) + 2` iterations, the entry is stored and the mutex released. -/
theorem dns_evict_terminates {c : Cfg} (hc : 0 < c.size) {g : Nat} {t : Int} {th : Thread} {n : Name} {a : Addrs} {s : State}
    (hth : s.threads[g]? = some th) (hpc : th.pc = .evict n a) (hmx : s.mutex = some g) (hnow : s.now ≤ t)
    (hold : ∀ p ∈ s.entries, p.2.expires < t + c.dur) :
    ∃ s', evictLoop c g t (s.entries.length + 2) s = some s' ∧ ∃ th', s'.threads[g]? = some th' ∧ th'.pc = .idle ∧ s'.mutex = none :=
  evictLoop_terminates hc _ s hth hpc hmx hnow hold (by omega)

/-- `lookup` terminates for EVERY configured size: region 1, the resolver call, the disabled-cache return and the Lock
    are single steps; the only loop is the eviction loop, which is only ever entered with `0 < size`
    (`dns_disabled_of_size_le_zero`), and from any REACHABLE state it ends within `len(entries) + 2` iterations as soon
    as the clock value it reads is strictly later than the last one read (a real monotonic clock after one tick). -/
theorem dns_lookup_terminates {c : Cfg} {todos : List (List Op)} {t0 : Int} {s : State} (h : Reachable c todos t0 s)
    {g : Nat} {t : Int} {th : Thread} {n : Name} {a : Addrs}
    (hth : s.threads[g]? = some th) (hpc : th.pc = .evict n a) (ht : s.now < t) :
    ∃ s', evictLoop c g t (s.entries.length + 2) s = some s' ∧ ∃ th', s'.threads[g]? = some th' ∧ th'.pc = .idle ∧ s'.mutex = none := by
  have ia := invA_reachable h
  have hc : 0 < c.size := (invC_reachable h).thr th (List.mem_of_getElem? hth) (Or.inr ⟨n, a, hpc⟩)
  have hmx : s.mutex = some g := (ia.owner g).2 ⟨th, hth, n, a, hpc⟩
  exact evictLoop_terminates hc _ s hth hpc hmx (by omega) (fun p hp => by have := ia.expiry p hp; omega) (by omega)

/-- In every reachable state the stored timestamps are not in the future (`expires ≤ now + duration`): so a clock read
    STRICTLY later than the current one satisfies the hypothesis `hold` of `dns_evict_terminates`. -/
theorem dns_expiry_bounded {c : Cfg} {todos : List (List Op)} {t0 : Int} {s : State} (h : Reachable c todos t0 s) :
    ∀ p ∈ s.entries, p.2.expires ≤ s.now + c.dur := (invA_reachable h).expiry

/-- Lemma about `evictLoop` as a definition (the reason for the guard `if c.size <= 0` added in /repo bcd0619): run with
    `size ≤ 0` the loop never ends, for every amount of fuel.  Since the fix no reachable state has a thread inside the
    loop when `size ≤ 0` (`dns_disabled_of_size_le_zero`); before it, the first miss spun forever holding the mutex. -/
theorem dns_evict_spins_of_size_le_zero {c : Cfg} (hc : c.size ≤ 0) {g : Nat} {t : Int} {th : Thread} {n : Name} {a : Addrs} {s : State}
    (hth : s.threads[g]? = some th) (hpc : th.pc = .evict n a) (hmx : s.mutex = some g) (hnow : s.now ≤ t) :
    ∀ fuel, evictLoop c g t fuel s = none :=
  fun fuel => evictLoop_spins_of_size_le_zero hc fuel s hth hpc hmx hnow

/-- The precondition "strictly later clock" is needed: while the clock does not advance, a full cache whose entries
    were all stored at the current clock value has no entry strictly older than `now + duration`; nothing is evicted
    and the loop spins (harmless with a real clock: it ticks). -/
theorem dns_evict_spins_while_clock_frozen {c : Cfg} {g : Nat} {t : Int} {th : Thread} {n : Name} {a : Addrs} {s : State}
    (hth : s.threads[g]? = some th) (hpc : th.pc = .evict n a) (hmx : s.mutex = some g) (hnow : s.now ≤ t)
    (hlen : (s.entries.length : Int) ≥ c.size) (hfresh : ∀ p ∈ s.entries, ¬ p.2.expires < t + c.dur)
    (hkey : ∀ p ∈ s.entries, p.1 ≠ "") : ∀ fuel, evictLoop c g t fuel s = none :=
  fun fuel => evictLoop_spins_while_clock_frozen fuel s hth hpc hmx hnow hlen hfresh hkey

/-! ### concrete instances (non-vacuity) -/

/-- running a schedule of enabled moves stays inside `Reachable` -/
theorem reachable_run {c : Cfg} {todos : List (List Op)} {t0 : Int} {s s' : State} (h : Reachable c todos t0 s)
    (ms : List Move) (hr : run c s ms = some s') : Reachable c todos t0 s' := by
  induction ms generalizing s with
  | nil => simp [run] at hr; subst hr; exact h
  | cons m ms ih =>
    unfold run at hr
    cases hs : step c s m with
    | none => simp [hs] at hr
    | some s1 => simp only [hs] at hr; exact ih (Reachable.step m h hs) hr

/-- resolver of the examples: a function of the name, selector 1 fails -/
def exResolver : Name → Nat → Option Addrs := fun n k => if k = 0 then some [n.length] else none
def exCfg (size : Int) : Cfg := ⟨size, 100, exResolver⟩

/-- a reachable state with a full cache of size 1 in which thread 1 holds the mutex inside the eviction loop while
    thread 0 has already returned: thread 0 looked up "a", thread 1 looked up "bb" concurrently. -/
def exState : State :=
  ⟨[("a", ⟨[1], 103⟩)], some 1, 5, [⟨.idle, [], [.miss "a" ⟨[1], 103⟩]⟩, ⟨.evict "bb" [2], [], []⟩]⟩

theorem exState_reachable : Reachable (exCfg 1) [[.lookup "a" 0], [.lookup "bb" 0]] 0 exState := by
  -- g0 region 1 (miss), g1 region 1 (miss), g0 resolver, g1 resolver, g0 Lock, g0 stores "a" and returns, g1 Lock
  exact reachable_run .init [⟨0, 1, 0⟩, ⟨1, 2, 0⟩, ⟨0, 2, 0⟩, ⟨1, 2, 0⟩, ⟨0, 3, 0⟩, ⟨0, 3, 0⟩, ⟨1, 5, 0⟩] (by decide)

example : (exState.entries.length : Int) ≤ max (exCfg 1).size 0 := dns_size_bounded exState_reachable
example : Spec.Explained (exCfg 1) (fun n => [n.length]) [.lookup "a" 0] [.miss "a" ⟨[1], 103⟩] :=
  .cons ⟨rfl, rfl⟩ .nil
example : ∀ p ∈ exState.entries, p.2.addrs = [p.1.length] :=
  (dns_right_host (ans := fun n => [n.length]) (by intro n k a h; simp [exCfg, exResolver] at h; exact h.2.symm) exState_reachable).1
/-- from `exState`, thread 1 evicts "a" (clock 6 is strictly later), stores "bb" and returns -/
example : (evictLoop (exCfg 1) 1 6 3 exState).map (fun s' => s'.entries.map (·.1)) = some ["bb"] := by decide
/-- `evictLoop` run with `size = 0` spins for every fuel (unreachable since the fix: next example) -/
example : ∀ fuel, evictLoop (exCfg 0) 0 7 fuel
    ⟨[], some 0, 3, [⟨.evict "a" [1], [], []⟩]⟩ = none :=
  dns_evict_spins_of_size_le_zero (by decide) (th := ⟨.evict "a" [1], [], []⟩) rfl rfl rfl (by decide)
/-- with `size = 0` the lookup returns right after the resolver call, nothing is stored -/
example : Reachable (exCfg 0) [[.lookup "a" 0]] 0 ⟨[], none, 2, [⟨.idle, [], [.miss "a" ⟨[1], 102⟩]⟩]⟩ := by
  exact reachable_run .init [⟨0, 1, 0⟩, ⟨0, 2, 0⟩] (by decide)
/-- from the reachable `exState` the loop of thread 1 terminates for any strictly later clock value -/
example : ∃ s', evictLoop (exCfg 1) 1 6 (exState.entries.length + 2) exState = some s' ∧
    ∃ th', s'.threads[1]? = some th' ∧ th'.pc = .idle ∧ s'.mutex = none :=
  dns_lookup_terminates exState_reachable (th := ⟨.evict "bb" [2], [], []⟩) rfl rfl (by decide)
/-- frozen clock: thread 1 reads the same clock value 3 at which "a" was stored: nothing qualifies -/
example : ∀ fuel, evictLoop (exCfg 1) 1 3 fuel ⟨[("a", ⟨[1], 103⟩)], some 1, 3, [⟨.idle, [], []⟩, ⟨.evict "bb" [2], [], []⟩]⟩ = none :=
  dns_evict_spins_while_clock_frozen (th := ⟨.evict "bb" [2], [], []⟩) rfl rfl rfl (by decide) (by decide)
    (by intro p hp; simp at hp; subst hp; decide) (by intro p hp; simp at hp; subst hp; decide)

/-! ## DirectKeyFetcher.FetchKeys -/

section Fetch
open V.Conc.Fetch

/-- Parallel key fetching returns exactly the union of the local entries and of the per-server answers that succeeded
    (direct, else notary), whatever the interleaving of the workers, the order of the queue (`order` = Go's iteration
    order over `byServer`, any list with the same elements) and the fault pattern of the key client.
    No disjointness hypothesis is needed: it is a THEOREM of the model (`answer_spec`) that a server's answer only
    contains keys of that server, because CheckKeys rejects a response whose `server_name` differs from the queried
    server and mapServerKeysToPublicKeyLookupResult keys every entry by that `server_name`; and local server names
    never enter `byServer`. -/
theorem fetch_union {c : Fetch.Cfg} {order : List Server} (horder : ∀ x, x ∈ order ↔ x ∈ byServerKeys c)
    {s : Fetch.State} (h : Fetch.Reachable c order s) (hd : s.mainDone = true) :
    ∀ k, rget k s.results = specGet c k := by
  intro k
  have inv := finv_reachable h
  have hloc : ∀ x ∈ order, c.isLocal x = false := fun x hx => by
    obtain ⟨_, _, hl⟩ := mem_byServerKeys.1 ((horder x).1 hx); exact hl
  have hw : live s.workers = 0 := by rw [← inv.cnt]; exact inv.done hd
  have hall : ∀ pc ∈ s.workers, pc = .exited := by
    unfold live at hw
    rw [List.countP_eq_zero] at hw
    intro pc hpc
    simpa using hw pc hpc
  have hfin : ∀ x ∈ order, x ∈ s.finished := by
    intro x hx
    have hq : s.queue = [] := by
      cases hws : s.workers with
      | nil =>
        have hl := inv.len
        rw [hws] at hl
        simp only [List.length_nil, numWorkers] at hl
        have hpos : 0 < VGen.fetchMaxWorkers := by decide
        have : order.length = 0 := by
          split at hl <;> omega
        have : order = [] := List.eq_nil_of_length_eq_zero this
        rw [this] at hx; cases hx
      | cons pc ws =>
        apply inv.ex
        exact ⟨pc, by rw [hws]; simp, hall pc (by rw [hws]; simp)⟩
    rcases inv.cover x hx with h | h | ⟨pc, hpc, hin⟩
    · rw [hq] at h; cases h
    · exact h
    · rw [hall pc hpc] at hin
      rcases hin with h | h | ⟨_, h⟩ <;> cases h
  rw [inv.res hloc k]
  unfold resultsSpec specGet
  by_cases hl : c.isLocal k.1 = true
  · simp [hl]
  · simp only [hl, Bool.false_eq_true, if_false, List.contains_iff_mem]
    by_cases hb : k.1 ∈ byServerKeys c
    · have := hfin k.1 ((horder k.1).2 hb)
      simp [hb, this]
    · have : k.1 ∉ s.finished := fun hf => hb ((horder k.1).1 (inv.subf _ hf))
      simp [hb, this]

/-- the map printed on the driver's specification stream is that union -/
theorem fetch_spec_map (c : Fetch.Cfg) (k : Req) : rget k (specMap c) = specGet c k := specMap_get c k

/-- No deadlock: as long as FetchKeys has not returned, some move is enabled (a worker can run, or every worker has
    called wait.Done() and main's wait.Wait() returns). -/
theorem fetch_no_deadlock {c : Fetch.Cfg} {order : List Server} {s : Fetch.State} (h : Fetch.Reachable c order s)
    (hd : s.mainDone = false) : ∃ m s', Fetch.step c s m = some s' := by
  have inv := finv_reachable h
  by_cases hw : live s.workers = 0
  · refine ⟨.main, { s with mainDone := true }, ?_⟩
    have : s.wait = 0 := by rw [inv.cnt]; exact hw
    simp [Fetch.step, hd, this]
  · have : ∃ pc ∈ s.workers, pc ≠ .exited := by
      apply Classical.byContradiction
      intro hno
      apply hw
      unfold live
      rw [List.countP_eq_zero]
      intro pc hpc hne
      exact hno ⟨pc, hpc, by simpa using hne⟩
    obtain ⟨pc, hpc, hne⟩ := this
    obtain ⟨i, hi⟩ := List.getElem?_of_mem hpc
    refine ⟨.worker i, ?_⟩
    cases pc with
    | recv =>
      cases hq : s.queue with
      | nil => exact ⟨_, by simp [Fetch.step, hi, hq]; rfl⟩
      | cons x q => exact ⟨_, by simp [Fetch.step, hi, hq]; rfl⟩
    | fetch srv =>
      cases hr : fetchDirect c srv with
      | none => exact ⟨_, by simp [Fetch.step, hi, hr]; rfl⟩
      | some r => exact ⟨_, by simp [Fetch.step, hi, hr]; rfl⟩
    | notary srv =>
      cases hr : fetchNotary c srv with
      | none => exact ⟨_, by simp [Fetch.step, hi, hr]; rfl⟩
      | some r => exact ⟨_, by simp [Fetch.step, hi, hr]; rfl⟩
    | merge srv res => exact ⟨_, by simp [Fetch.step, hi, inv.mx]; rfl⟩
    | exited => exact absurd rfl hne

/-- Termination: every step strictly decreases `5·|queue| + Σ weight(worker pc) + [main not returned]`, so every
    schedule is finite (at most `measure (init …)` steps) and, with `fetch_no_deadlock`, ends with FetchKeys returned. -/
theorem fetch_terminates {c : Fetch.Cfg} {s s' : Fetch.State} {m : Fetch.Move} (h : Fetch.step c s m = some s') :
    Fetch.measure s' < Fetch.measure s := measure_decreases h

/-- wait.Done() is never called on a zero counter (no "negative WaitGroup counter" panic), and the counter always equals
    the number of workers that have not exited. -/
theorem fetch_waitgroup_exact {c : Fetch.Cfg} {order : List Server} {s : Fetch.State} (h : Fetch.Reachable c order s) :
    s.negWait = false ∧ s.wait = live s.workers := ⟨(finv_reachable h).neg, (finv_reachable h).cnt⟩

/-- Lockset discipline for `results`: the workers' only access is the merge, inside resultsMutex.  (Main writes the
    local entries before any worker exists and reads the map after wait.Wait(): ordered by goroutine creation and by
    the WaitGroup, not by the lock — these accesses are not in the workers' step relation.) -/
theorem fetch_lockset_discipline (s : Fetch.State) (m : Fetch.Move) : ∀ a ∈ Fetch.accesses s m, a.disciplined = true := by
  intro a ha
  unfold Fetch.accesses at ha
  split at ha
  · simp at ha
  · split at ha
    · split at ha
      · simp at ha
      · simp at ha; subst ha; simp [Access.disciplined, guardOf]
    · simp at ha

/-- a concrete run: two remote servers (one answering directly, one only through the notary), one local name; two
    workers interleaved; the result is the union -/
def exFetchCfg : Fetch.Cfg :=
  { requests := [("s0", "ed25519:a"), ("s1", "ed25519:a"), ("me", "ed25519:l")],
    isLocal := fun s => s == "me", localKey := 7,
    direct := fun s => if s == "s0" then some ⟨"s0", 1000, [("ed25519:a", 1, .ok)], []⟩ else none,
    notary := fun s => if s == "s1" then some [⟨"other", 5, [], []⟩, ⟨"s1", 2000, [("ed25519:a", 2, .ok)], [("ed25519:o", 3, 99)]⟩] else none }

def exFetchRun : Option Fetch.State :=
  ([.worker 0, .worker 1, .worker 1, .worker 0, .worker 1, .worker 0, .worker 1, .worker 0, .worker 0, .main] : List Fetch.Move).foldlM
    (fun s m => Fetch.step exFetchCfg s m) (Fetch.init exFetchCfg ["s1", "s0"])

example : exFetchRun.map (fun s => (s.mainDone, s.results)) =
    some (true, [(("me", "ed25519:l"), ⟨7, 0, localValidUntil⟩), (("s0", "ed25519:a"), ⟨1, 0, 1000⟩),
                 (("s1", "ed25519:a"), ⟨2, 0, 2000⟩), (("s1", "ed25519:o"), ⟨3, 99, 0⟩)]) := by decide
example : ∀ x, x ∈ ["s1", "s0"] ↔ x ∈ byServerKeys exFetchCfg := by
  have : byServerKeys exFetchCfg = ["s0", "s1"] := by decide
  intro x; rw [this]; simp [or_comm]

/-! ### several concurrent FetchKeys calls on one DirectKeyFetcher -/

/-- Two concurrent calls do not interact: whatever caller A does — any schedule, any fault pattern of ITS client calls,
    its context ending at any moment (from then on its calls fail: the oracle of an A-step is arbitrary) — the state of
    caller B is one that B reaches on its own. -/
theorem fetch_callers_independent {ca0 cb : Fetch.Cfg} {oa ob : List Server} {p : Two.Pair}
    (h : Two.Reachable2 ca0 cb oa ob p) : Fetch.Reachable cb ob p.b := by
  induction h with
  | init => exact .init
  | @step p p' m _ hs ih =>
    cases m with
    | a ca m =>
      simp only [Two.step2, Option.map_eq_some_iff] at hs
      obtain ⟨_, _, rfl⟩ := hs
      exact ih
    | b m =>
      simp only [Two.step2, Option.map_eq_some_iff] at hs
      obtain ⟨b', hb, rfl⟩ := hs
      exact .step m ih hb

/-- **Every caller gets the result a sequential execution gives it.**  A caller whose context stays live returns
    exactly the union of the local entries and of the per-server answers that succeeded — with another call in flight on
    the same fetcher for the same servers, and whether or not that other caller's context ends before the remote
    servers answer.  (A fetcher in which a caller takes over the outcome — the error — of another caller's request has no
    such theorem: op `conc.fetch2` is the correspondence for this one.) -/
theorem fetch_live_caller_gets_union {ca0 cb : Fetch.Cfg} {oa ob : List Server} (hob : ∀ x, x ∈ ob ↔ x ∈ byServerKeys cb)
    {p : Two.Pair} (h : Two.Reachable2 ca0 cb oa ob p) (hd : p.b.mainDone = true) :
    ∀ k, rget k p.b.results = specGet cb k :=
  fetch_union hob (fetch_callers_independent h) hd

/-- the pair never deadlocks either: while B has not returned, B has an enabled step (whatever state A is in) -/
theorem fetch_live_caller_no_deadlock {ca0 cb : Fetch.Cfg} {oa ob : List Server} {p : Two.Pair}
    (h : Two.Reachable2 ca0 cb oa ob p) (hd : p.b.mainDone = false) : ∃ m p', Two.step2 cb p m = some p' := by
  obtain ⟨m, b', hb⟩ := fetch_no_deadlock (fetch_callers_independent h) hd
  exact ⟨.b m, { p with b := b' }, by simp [Two.step2, hb]⟩

/-- non-vacuity: A is cancelled at once (all its calls fail), B runs to the end and holds the server's key -/
example :
    let c := exFetchCfg
    let run : Option Two.Pair := ([.b (.worker 0), .b (.worker 1), .a (Two.failing c) (.worker 0), .a (Two.failing c) (.worker 0), .b (.worker 1),
        .b (.worker 0), .b (.worker 1), .a (Two.failing c) (.worker 0), .b (.worker 0), .b (.worker 1), .b (.worker 0), .b (.worker 0),
        .b .main] : List Two.Move2).foldlM
      (fun p m => Two.step2 c p m) ⟨Fetch.init c ["s1", "s0"], Fetch.init c ["s1", "s0"]⟩
    run.map (fun p => (p.b.mainDone, rget ("s0", "ed25519:a") p.b.results)) = some (true, some ⟨1, 0, 1000⟩) := by decide

end Fetch

/-! ## several `KeyRing.VerifyJSONs` calls on one key ring with one shared key database

  Model: VModel.ConcVerify — a move lets one caller run to the next of its three barriers (database read, fetcher call,
  database store); what a call computes in between is the sequential model of C12 (`KeyRing.verifyJSONs`).
  `Verify.Reachable` is the closure of the initial state under `Verify.poke`: any number of callers, any requests, any
  per-caller fetcher behaviour, any schedule. -/

section Verify
open V.KeyRing V.Conc.Verify

/-- **A store writes only what its caller fetched.**  Whatever the schedule, an entry that is in the database after a move and
    was not there before is an entry of the answer of one of the moving caller's own fetchers — never an entry the caller
    merely read (which another caller may have replaced since). -/
theorem verify_store_only_fetched {cs : List Caller} {now : Nat} {db0 : KeyMap} {s : Verify.State} (h : Verify.Reachable cs now db0 s)
    (g : Nat) (e : KeyReq × KeyRes) (he : e ∈ (poke cs now s g).1.db) :
    e ∈ s.db ∨ ∃ c, cs[g]? = some c ∧ ∃ m, some m ∈ c.fetchers ∧ e ∈ m := by
  rcases db_poke cs now s g with h1 | ⟨c, r, m, hc, hp, h1⟩
  · left; rw [h1] at he; exact he
  · rw [h1] at he
    rcases mem_dbStore he with h2 | h2
    · exact Or.inl h2
    · right
      obtain ⟨snap, hsnap⟩ := wf_of_reachable h g c r m hc hp
      have hrun : verifyJSONs c.reqs (some snap) true c.fetchers now = ((localRun c now snap).1, (localRun c now snap).2) := rfl
      obtain ⟨call, _, m', hm', hem⟩ := verifyJSONs_stored_mem hrun m hsnap e h2
      exact ⟨c, hc, m', List.mem_of_getElem? hm', hem⟩

/-- the key's entry after a move is the one before, or one a fetcher of the moving caller answered -/
theorem verify_entry_after_move {cs : List Caller} {now : Nat} {db0 : KeyMap} {s : Verify.State} (h : Verify.Reachable cs now db0 s)
    (g : Nat) (q : KeyReq) :
    AList.lookup q (poke cs now s g).1.db = AList.lookup q s.db ∨
      ∃ c v m, cs[g]? = some c ∧ some m ∈ c.fetchers ∧ (q, v) ∈ m ∧ AList.lookup q (poke cs now s g).1.db = some v := by
  rcases db_poke cs now s g with h1 | ⟨c, r, m, hc, hp, h1⟩
  · left; rw [h1]
  · rw [h1]
    rcases lookup_dbStore s.db m q with h2 | ⟨v, hv, h2⟩
    · exact Or.inl h2
    · right
      obtain ⟨snap, hsnap⟩ := wf_of_reachable h g c r m hc hp
      have hrun : verifyJSONs c.reqs (some snap) true c.fetchers now = ((localRun c now snap).1, (localRun c now snap).2) := rfl
      obtain ⟨call, _, m', hm', hem⟩ := verifyJSONs_stored_mem hrun m hsnap (q, v) hv
      exact ⟨c, v, m', hc, List.mem_of_getElem? hm', hem, h2⟩

/-- **No lost update.**  Let every answer of every caller's fetchers be part of one "world" `W` (the remote side holds one
    key per (server, key ID); individual fetches may fail or come back empty).  Once the database holds the world's entry for
    a key, no move of any caller under any schedule replaces it — in particular not the store of a caller that read the
    database before that entry was written. -/
theorem verify_no_lost_update {cs : List Caller} {now : Nat} {db0 : KeyMap} {s : Verify.State} {W : KeyMap}
    (hW : (W.map Prod.fst).Nodup) (hworld : ∀ c ∈ cs, ∀ m, some m ∈ c.fetchers → ∀ e ∈ m, e ∈ W)
    (h : Verify.Reachable cs now db0 s) (g : Nat) (q : KeyReq) (v : KeyRes) (hq : AList.lookup q W = some v)
    (hs : AList.lookup q s.db = some v) : AList.lookup q (poke cs now s g).1.db = some v := by
  rcases verify_entry_after_move h g q with h1 | ⟨c, v', m, hc, hm, hv', h1⟩
  · rw [h1]; exact hs
  · have hmemW : (q, v') ∈ W := hworld c (List.mem_of_getElem? hc) m hm _ hv'
    have := AList.lookup_of_mem_nodup hW hmemW
    rw [hq] at this
    cases this
    exact h1

/-- … and at every moment every key's entry is the initial one or the world's -/
theorem verify_db_initial_or_world {cs : List Caller} {now : Nat} {db0 : KeyMap} {s : Verify.State} {W : KeyMap}
    (hW : (W.map Prod.fst).Nodup) (hworld : ∀ c ∈ cs, ∀ m, some m ∈ c.fetchers → ∀ e ∈ m, e ∈ W)
    (h : Verify.Reachable cs now db0 s) (q : KeyReq) :
    AList.lookup q s.db = AList.lookup q db0 ∨ AList.lookup q s.db = AList.lookup q W := by
  induction h with
  | init => exact Or.inl rfl
  | step g hr ih =>
    rcases verify_entry_after_move hr g q with h1 | ⟨c, v', m, hc, hm, hv', h1⟩
    · rw [h1]; exact ih
    · right
      have hmemW : (q, v') ∈ W := hworld c (List.mem_of_getElem? hc) m hm _ hv'
      rw [h1, AList.lookup_of_mem_nodup hW hmemW]

/-- **Every interleaving is a sequential execution** when at most one caller (`x`) ever has something to store (`Silent`:
    the other callers' runs hand `StoreKeys` nothing, whatever they read — e.g. their fetches fail).  In any state any
    schedule leads to in which every caller has returned, the results the callers hold (`heldIn`) and the database are
    exactly those of running the calls one after the other, alone, in some order of the callers. -/
theorem verify_serializable_one_writer {cs : List Caller} {now : Nat} {db0 : KeyMap} (x : Nat) (hsil : Silent cs now x)
    {s : Verify.State} (h : Verify.Reachable cs now db0 s) (hall : ∀ g, g < cs.length → ∃ r, s.pcs[g]? = some (PC.done r)) :
    ∃ order : List Nat, order.Perm (List.range cs.length) ∧ serial cs now order db0 = (heldIn s order, s.db) :=
  serializable_of_inv hsil (inv_of_reachable hsil h) hall

/-- callers whose fetchers all fail or answer nothing are `Silent` … -/
theorem verify_silent_of_failing_fetchers {cs : List Caller} {now : Nat} (x : Nat)
    (hfail : ∀ (g : Nat) (c : Caller), g ≠ x → cs[g]? = some c → ∀ f ∈ c.fetchers, f = none ∨ f = some []) : Silent cs now x := by
  intro g c hg hc snap
  have hrun : verifyJSONs c.reqs (some snap) true c.fetchers now = ((localRun c now snap).1, (localRun c now snap).2) := rfl
  exact verifyJSONs_stored_silent hrun (hfail g c hg hc)

/-- … so: **if the fetches of all callers but one fail, every schedule of the calls gives every caller the result, and
    leaves the database in the state, of one sequential execution** (stated for a schedule: a list of moves). -/
theorem verify_interleaving_is_sequential {cs : List Caller} {now : Nat} {db0 : KeyMap} (x : Nat)
    (hfail : ∀ (g : Nat) (c : Caller), g ≠ x → cs[g]? = some c → ∀ f ∈ c.fetchers, f = none ∨ f = some [])
    (sched : List Nat)
    (hall : ∀ g, g < cs.length → ∃ r, (run cs now (Verify.init db0 cs.length) sched).pcs[g]? = some (PC.done r)) :
    ∃ order : List Nat, order.Perm (List.range cs.length) ∧
      serial cs now order db0 =
        (heldIn (run cs now (Verify.init db0 cs.length) sched) order, (run cs now (Verify.init db0 cs.length) sched).db) :=
  verify_serializable_one_writer x (verify_silent_of_failing_fetchers x hfail) (Verify.reachable_run Verify.Reachable.init sched) hall

/-- how far a caller is from returning -/
def verifyRank : PC → Nat
  | .idle => 4 | .atRead => 3 | .atFetch _ => 2 | .atStore _ _ => 1 | .done _ => 0

/-- **No deadlock, and every call returns**: a caller can always move (`poke` is total: no move waits for another caller),
    and each of its moves brings it strictly closer to returning — after at most four moves it has returned. -/
theorem verify_progress (c : Caller) (now : Nat) (db : KeyMap) (pc : PC) (h : isDone pc = false) :
    verifyRank (nextPC c now db pc) < verifyRank pc := by
  cases pc with
  | idle => simp only [nextPC]; split <;> simp [verifyRank]
  | atRead =>
    simp only [nextPC, afterRead]
    split
    · simp [verifyRank]
    · unfold toStoreBarrier; split <;> simp [verifyRank]
  | atFetch snap =>
    simp only [nextPC, afterFetch]
    unfold toStoreBarrier; split <;> simp [verifyRank]
  | atStore r m => simp [nextPC, verifyRank]
  | done r => cases h

/-! ### the audit's scenario (defect V1), kernel-checked on the model of the fixed code -/

def vKid : Bytes := algPrefix ++ [97]
def vGood : Bytes := List.replicate 32 7
def vQ : KeyReq := ⟨[115, 48], vKid⟩
/-- a message signed by s0, to be valid at 4000 under the strict rule -/
def vReq : Request := { server := [115, 48], atTS := 4000, strict := true, listOk := true,
                        sigs := [{ keyID := vKid, reaches := true, verifies := fun k => k == vGood }] }
def vStale : KeyRes := { key := vGood, expiredTS := 0, validUntilTS := 3000 }
def vFresh : KeyRes := { key := vGood, expiredTS := 0, validUntilTS := 9000 }
/-- caller 0: its fetch fails; caller 1: its fetch brings the fresh key; caller 2 (later): its fetch fails -/
def vCallers : List Caller := [⟨[vReq], [none]⟩, ⟨[vReq], [some [(vQ, vFresh)]]⟩, ⟨[vReq], [none]⟩]

/-- the database holds the key past its validity (now = 5000); caller 0 reads it and waits in its fetcher; caller 1 reads,
    fetches and stores the fresh key; caller 0's fetch fails and it stores — nothing; caller 2 then verifies from the
    database alone.  (Before the fix caller 0 wrote the stale entry back: the database ended at `vStale`, caller 2 failed.) -/
example :
    let s := run vCallers 5000 (Verify.init [(vQ, vStale)] 3) [0, 0, 1, 1, 1, 1, 0, 0, 2, 2, 2, 2]
    s.db = [(vQ, vFresh)] ∧ resultOf s 0 = some (.ok [false]) ∧ resultOf s 1 = some (.ok [true]) ∧ resultOf s 2 = some (.ok [true]) := by
  refine ⟨by rfl, by rfl, by rfl, by rfl⟩

/-- … which is the outcome of the sequential execution 0, 1, 2 -/
example : serial vCallers 5000 [0, 1, 2] [(vQ, vStale)] = ([(0, .ok [false]), (1, .ok [true]), (2, .ok [true])], [(vQ, vFresh)]) := by rfl

/-- the hypothesis of `verify_interleaving_is_sequential` holds of it (x = 1) -/
example : ∀ (g : Nat) (c : Caller), g ≠ 1 → vCallers[g]? = some c → ∀ f ∈ c.fetchers, f = none ∨ f = some [] := by
  intro g c hg hc f hf
  match g, hg with
  | 0, _ => simp [vCallers] at hc; subst hc; simp at hf; exact Or.inl hf
  | 2, _ => simp [vCallers] at hc; subst hc; simp at hf; exact Or.inl hf
  | n + 3, _ => simp [vCallers] at hc

end Verify

/-! ## destinationTripper.getTransport / reaper -/

section Transport
open V.Conc.Fetch.Transport

/-- Every call of getTransport / reaper is one region under transportsMutex: a concurrent execution IS the sequential
    execution `trun` of its regions in lock-acquisition order.  The map never holds two transports for one TLS name. -/
theorem transport_no_dup (ms : List TMove) : ((trun tinit ms).transports.map (·.1)).Nodup := by
  have gen : ∀ (ms : List TMove) (s : TState), (s.transports.map (·.1)).Nodup → ((trun s ms).transports.map (·.1)).Nodup := by
    intro ms
    induction ms with
    | nil => intro s h; exact h
    | cons m ms ih =>
      intro s h
      apply ih
      cases m with
      | get tid n =>
        simp only [tstep]
        cases hg : tget n s.transports with
        | some id => exact h
        | none =>
          simp only [List.map_append, List.map_cons, List.map_nil]
          rw [List.nodup_append]
          refine ⟨h, by simp, ?_⟩
          intro a ha b hb
          simp only [List.mem_cons, List.not_mem_nil, or_false] at hb
          subst hb
          intro heq; subst heq
          simp only [List.mem_map] at ha
          obtain ⟨p, hp, rfl⟩ := ha
          unfold tget at hg
          have : s.transports.find? (fun q => q.1 == p.1) = none := by
            cases hf : s.transports.find? (fun q => q.1 == p.1) with
            | none => rfl
            | some q => simp [hf] at hg
          rw [List.find?_eq_none] at this
          exact this p hp (by simp)
      | reap dead =>
        simp only [tstep]
        have : (s.transports.filter (fun p => !dead p.1)).map (·.1) = (s.transports.map (·.1)).filter (fun n => !dead n) := by
          induction s.transports with
          | nil => rfl
          | cons x xs ih => simp only [List.filter_cons, List.map_cons]; by_cases hx : (!dead x.1) = true <;> simp [hx, ih]
        rw [this]; exact h.sublist List.filter_sublist
  exact gen ms tinit (by simp [tinit])

theorem transport_lockset_discipline (m : TMove) : ∀ a ∈ taccesses m, a.disciplined = true := by
  intro a ha
  cases m <;> simp [taccesses] at ha <;> rcases ha with rfl | rfl <;> simp [Access.disciplined, guardOf]

example : (trun tinit [.get 0 "a", .get 1 "b", .get 2 "a", .reap (· == "a"), .get 1 "a"]).got =
    [(1, "a", 2), (2, "a", 0), (1, "b", 1), (0, "a", 0)] := by decide

/-- `getTransport` returns the cached transport of the name if there is one, a fresh one otherwise, and afterwards the
    name is cached with exactly that transport: what a caller gets is what the sequential run of the regions gives. -/
theorem transport_get_spec (s : TState) (tid : Nat) (n : String) :
    ∃ id, (tstep s (.get tid n)).got.head? = some (tid, n, id) ∧
      tget n (tstep s (.get tid n)).transports = some id ∧
      ((tget n s.transports = some id ∧ (tstep s (.get tid n)).transports = s.transports) ∨
       (tget n s.transports = none ∧ id = s.nextId)) := by
  cases hg : tget n s.transports with
  | some id =>
    refine ⟨id, ?_, ?_, .inl ⟨rfl, ?_⟩⟩ <;> simp [tstep, hg]
  | none =>
    refine ⟨s.nextId, ?_, ?_, .inr ⟨rfl, rfl⟩⟩
    · simp [tstep, hg]
    · have hnone : s.transports.find? (fun p => p.1 == n) = none := by
        unfold tget at hg
        cases hf : s.transports.find? (fun p => p.1 == n) with
        | none => rfl
        | some _ => rw [hf] at hg; cases hg
      simp [tstep, tget, List.find?_append, hnone]

/-- a reaper pass removes exactly the transports it finds idle for longer than the lifetime, and nothing else -/
theorem transport_reap_spec (s : TState) (dead : String → Bool) (p : String × Nat) :
    p ∈ (tstep s (.reap dead)).transports ↔ p ∈ s.transports ∧ dead p.1 = false := by
  simp [tstep, List.mem_filter]

/-- every call is ONE region (the model's step function is total): a run of any sequence of getTransport / reaper calls
    has a result.  That the real regions finish — in particular that none of them takes transportsMutex again while it
    holds it — is what `sync_skeleton_transport` pins (the bodies contain no call that locks) and what op `conc.transport`
    checks on the real code (every move under a timeout, a reaper pass over an idle transport included). -/
theorem transport_run_total (ms : List TMove) (s : TState) : ∃ s', trun s ms = s' := ⟨_, rfl⟩

end Transport

/-! ## eventV2.EventID — read-only accessors of a shared event

Since commit 69aec98 of /repo the event ID is computed when the event is constructed (`populateEventID`), before the event
can be shared; `EventID()` only reads `EventIDRaw`.  `EventIDRaw` has no lock: its discipline is "written during
construction only, read-only afterwards" (`Access.disciplined` for a variable without a guard = the access is a read),
so the accessor is INCLUDED in the lockset theorem.  (Before the fix `EventID()` wrote the field on first use: the race
detector reported it; op `conc.race_eventid` stays in the thorough tier as a regression guard.) -/
section EventID
open V.Conc.Fetch.EventID

/-- every access of an `EventID()` call is a read: disciplined, and the shared field is never changed by an accessor -/
theorem event_accessors_read_only (idOf : Nat) (s : EState) (i : Nat) :
    (∀ a ∈ eaccesses s i, a.disciplined = true) ∧ (∀ s', estep idOf s i = some s' → s'.raw = s.raw) := by
  constructor
  · intro a ha
    unfold eaccesses at ha
    split at ha <;> simp at ha <;> subst ha <;> simp [Access.disciplined, guardOf]
  · intro s' h
    unfold estep at h
    split at h
    · injection h with h; subst h; rfl
    · cases h

/-- all callers get the same ID, whatever the interleaving: the value returned by a step only depends on the (never
    changing) field and on the event -/
theorem event_id_same_for_all (idOf : Nat) (s s' : EState) (i : Nat) (h : estep idOf s i = some s') :
    s'.rets = (i, s.raw.getD idOf) :: s.rets := by
  unfold estep at h
  split at h
  · injection h with h; subst h; rfl
  · cases h

example : (do let s1 ← estep 42 (construct 42 none 2) 1; let s2 ← estep 42 s1 0; pure (s2.raw, s2.rets)) =
    some (some 42, [(0, 42), (1, 42)]) := by decide

end EventID

/-! ## regenerated obligations: the synchronisation skeleton of the modelled functions

`VGen.conc*` are extracted from /repo's source on every run (tools/extract/conc.go): the calls that delimit the atomic
regions, loop conditions, and the conditions on size / expiry, in source order.  The models above were written against
exactly these skeletons; a change of the locking structure (a dropped Lock, a resolver call moved inside the mutex, a
different loop condition, a write in an event accessor) breaks one of these kernel-checked equalities even if no
explored schedule shows a difference. -/

/-- region 1 (Lock … Unlock, stale entries deleted inside), the resolver call with no lock held, the disabled-cache guard,
    then Lock / deferred Unlock around the eviction loop `for len(c.entries) >= c.size` with its scan and delete -/
theorem sync_skeleton_dns_lookup : VGen.concDnsLookup =
    ["c.mutex.Lock()", "if time.Now().Before(entry.expires)", "c.mutex.Unlock()", "delete(c.entries, name)", "c.mutex.Unlock()",
     "c.resolver.LookupIPAddr(ctx, name)", "if c.size <= 0", "c.mutex.Lock()", "defer c.mutex.Unlock()",
     "for len(c.entries) >= c.size", "range c.entries", "if e.expires.Before(ts)", "delete(c.entries, name)"] := by decide

/-- DialContext deletes the failed entry inside the mutex (the op `del`) -/
theorem sync_skeleton_dns_dialcontext : VGen.concDnsDialContext =
    ["range entry.addrs", "c.mutex.Lock()", "delete(c.entries, host)", "c.mutex.Unlock()"] := by decide

/-- getTransport and reaper are each one region under transportsMutex; lastUsed is an atomic.Value -/
theorem sync_skeleton_transport :
    VGen.concGetTransport = ["f.transportsMutex.Lock()", "defer f.transportsMutex.Unlock()", "transport.lastUsed.Store(time.Now())"] ∧
    VGen.concReaper = ["f.transportsMutex.Lock()", "defer f.transportsMutex.Unlock()", "range f.transports", "transport.lastUsed.Load()",
      "if time.Since(since) > destinationTripperLifetime", "delete(f.transports, serverName)"] := by decide

/-- FetchKeys: min(64, len(byServer)) workers, wait.Add before they start, queue filled and closed before they start,
    deferred wait.Done, merge inside resultsMutex, wait.Wait before returning -/
theorem sync_skeleton_fetchkeys : VGen.concFetchKeys =
    ["range requests", "assign numWorkers := 64", "if len(byServer) < numWorkers", "assign numWorkers = len(byServer)",
     "range localServerRequests", "wait.Add(numWorkers)", "range byServer", "close(pending)", "defer wait.Done()", "range ch",
     "resultsMutex.Lock()", "range serverResults", "resultsMutex.Unlock()", "for i < numWorkers", "go worker(pending)",
     "wait.Wait()"] ∧ 0 < VGen.fetchMaxWorkers := by decide

/-- eventV2.EventID() contains no assignment to EventIDRaw: a pure read -/
theorem sync_skeleton_eventid : VGen.concEventIDV2 = ["if e.EventIDRaw != \"\""] := by decide

end V.C19
