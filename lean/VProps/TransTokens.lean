/-
  Translated-function obligations for tokens/tokens_handlers.go: `verifyExpiry`.
-/
import VGen.TransTokens
import VModel.Tokens
namespace V.Trans.Tokens
open V V.Tokens

theorem atoiDigits_eq (ds : List UInt8) (acc : Nat) : GoSem.atoiDigits ds acc = parseDigits ds acc := by
  induction ds generalizing acc with
  | nil => rfl
  | cons b rest ih =>
    simp only [GoSem.atoiDigits, parseDigits, digitVal]
    by_cases h : 48 ≤ b.toNat ∧ b.toNat ≤ 57
    · simp [h, ih]
    · simp [h]

/-- the translator's reading of `strconv.Atoi` is the model's -/
theorem atoi_eq (s : List UInt8) : GoSem.atoi s = V.Tokens.atoi s := by
  cases s with
  | nil => rfl
  | cons c rest =>
    simp only [GoSem.atoi, V.Tokens.atoi, atoiDigits_eq, minInt64, maxInt64]
    generalize (if (c == 45 || c == 43) = true then rest else c :: rest) = ds
    cases ds with
    | nil => rfl
    | cons d ds' =>
      show (match parseDigits (d :: ds') 0 with | none => none | some n => _) = (match parseDigits (d :: ds') 0 with | none => none | some n => _)
      generalize parseDigits (d :: ds') 0 = r
      cases r <;> rfl

/-- **verifyExpiry**, translated from the current source: the caveat's number must parse as a decimal int64 and the
    clock must be strictly before it — the model's `verifyExpiry`, for every text and clock reading. -/
theorem verifyExpiry_eq_model (t : List UInt8) (now : Int) :
    VGen.TransTokens.verifyExpiry t now = V.Tokens.verifyExpiry t now := by
  unfold VGen.TransTokens.verifyExpiry V.Tokens.verifyExpiry
  rw [atoi_eq]
  cases h : V.Tokens.atoi t <;> simp

/-- the property's clause on the translated function: a token is live only strictly before its expiry -/
theorem verifyExpiry_true_iff (t : List UInt8) (now : Int) :
    VGen.TransTokens.verifyExpiry t now = true ↔ ∃ e, V.Tokens.atoi t = some e ∧ now < e := by
  rw [verifyExpiry_eq_model]
  unfold V.Tokens.verifyExpiry
  cases h : V.Tokens.atoi t <;> simp

end V.Trans.Tokens
