/-
  C11 — State resolution is order-independent and yields well-formed state.

  The model (VModel/StateRes.lean) represents every Go map as an association list in first-insertion order and
  ranges over it in that order; the Go code ranges over its maps in an order that changes from run to run.  The
  theorems below show that the model's answer does not depend on those orders (nor on the order / duplication of
  its inputs): so every run, on every server holding the same events, computes the same room state.

  Hypotheses used (and only where needed):
  * `Input.ids`       — within the supplied events the event ID identifies the event (Go compares events by ID;
                        cf. `V.C09.Ids`: all events of one resolution have one room version);
  * `Input.oneCreate` — the supplied events contain at most one create event (they belong to one room): the v12
                        creator bonus in the power ordering reads "the" create event with a first-match search.
  Proof files: VProofs/StateRes{Basic,Sort,State,Group,Split,Closure,KahnSim,KahnSim2,KahnTopo,KahnTopo2,MapEq,Stages,WF,Flow,
  Invariant,V1,V1b..V1g,Old}.lean and VProofs/AuthLookup.lean (the auth verdict depends on the provider only through lookups).
  Sections: 1 well-formedness (v2/v2.1) · 3 order independence (v2/v2.1) · 2 orderings (Kahn, mainline, public entry points,
  LineariseStateResponse) · 4 version 1 · entry point ResolveConflictsNew · 5 deprecated entry points.
-/
import VModel.StateRes
import VProofs.StateResInvariant
import VProofs.StateResKahnTopo2
import VProofs.StateResV1g
import VProofs.StateResV1Ex
import VProofs.StateResOld
namespace V.C11
open V V.StateRes List

/-! ## First instalment (kept): the partial state is a map -/

def KeysNodup (s : State) : Prop := (s.map (·.1)).Nodup

theorem set_keys (s : State) (t k : Bytes) (e : Event) :
    (s.set t k e).map (·.1) = if (s.find? (fun x => x.1 == (t, k))).isSome then s.map (·.1) else s.map (·.1) ++ [(t, k)] := by
  unfold State.set
  split
  · rename_i h
    simp only [h, if_true, List.map_map]
    apply List.map_congr_left
    intro x hx
    simp only [Function.comp]
    split
    · rename_i hxk; simp at hxk; exact hxk.symm
    · rfl
  · rename_i h
    simp [h]

theorem set_keysNodup (s : State) (t k : Bytes) (e : Event) (h : KeysNodup s) : KeysNodup (s.set t k e) :=
  State.set_nodup h t k e

/-- **`applyEvents` keeps at most one event per (type, state_key).** -/
theorem applyEvents_keysNodup (s : State) (evs : List Event) (h : KeysNodup s) : KeysNodup (applyEvents s evs) := by
  unfold applyEvents
  induction evs generalizing s with
  | nil => exact h
  | cons e rest ih =>
    simp only [List.foldl_cons]
    apply ih
    split
    · exact h
    · exact set_keysNodup _ _ _ _ h

/-- **The iterative auth checks keep at most one event per (type, state_key)**, whatever the auth oracle answers. -/
theorem authAndApply_keysNodup (authMap : List Event) (rejected : List ID) (s : State) (evs : List Event)
    (h : KeysNodup s) : KeysNodup (authAndApply authMap rejected s evs) := by
  unfold authAndApply
  induction evs generalizing s with
  | nil => exact h
  | cons e rest ih =>
    simp only [List.foldl_cons]
    apply ih
    split
    · exact applyEvents_keysNodup _ _ h
    · exact h

example : KeysNodup ([] : State) := by simp [KeysNodup]

/-! ## 1. The v2 / v2.1 result is well formed -/

/-- The model's answer is the list of event IDs of the resolved state `finalState` (VProofs/StateResStages.lean:
    the `let`s of `resolveV2New`, named). -/
theorem result_eq_finalState (algo : Nat) (sets : List (List Event)) (auth : List Event) (rejected : List ID) :
    (resolveV2New algo sets auth rejected).result = (finalState algo sets auth rejected).map (·.2.eventID) :=
  resolveV2New_result algo sets auth rejected

/-- a well-formed partial state: distinct slots, every entry in the slot of its event, no two events share (type, state_key) -/
theorem stateWF_facts {s : State} (h : StateWF s) :
    KeysNodup s ∧ (∀ x ∈ s, x.2.type = x.1.1 ∧ x.2.stateKey = some x.1.2) ∧
    (s.map (·.2)).Pairwise (fun a b => ¬ (a.type = b.type ∧ a.stateKey = b.stateKey)) := by
  refine ⟨h.nodup, fun x hx => ?_, ?_⟩
  · have := hasKey_iff.mp (h.slot x hx); exact ⟨this.2, this.1⟩
  · have hn := h.nodup
    rw [List.nodup_iff_pairwise_ne, List.pairwise_map] at hn
    rw [List.pairwise_map]
    have : s.Pairwise (fun a b => a ∈ s ∧ b ∈ s ∧ a.1 ≠ b.1) := by
      rw [List.pairwise_iff_forall_sublist] at hn ⊢
      intro a b hab
      exact ⟨hab.subset List.mem_cons_self, hab.subset (List.mem_cons_of_mem _ List.mem_cons_self), hn hab⟩
    refine this.imp ?_
    rintro a b ⟨ha, hb, hne⟩ ⟨h1, h2⟩
    apply hne
    have ka := hasKey_iff.mp (h.slot a ha)
    have kb := hasKey_iff.mp (h.slot b hb)
    refine Prod.ext (ka.2.symm.trans (h1.trans kb.2)) ?_
    have := ka.1.symm.trans (h2.trans kb.1); simpa using this

/-- **At most one event per (type, state_key).**  The resolved state has pairwise distinct slots, every entry sits in the
    slot of its event, hence no two resolved events share (type, state_key). -/
theorem result_unique_keys (algo : Nat) (sets : List (List Event)) (auth : List Event) (rejected : List ID) :
    let s := finalState algo sets auth rejected
    KeysNodup s ∧ (∀ x ∈ s, x.2.type = x.1.1 ∧ x.2.stateKey = some x.1.2) ∧
    (s.map (·.2)).Pairwise (fun a b => ¬ (a.type = b.type ∧ a.stateKey = b.stateKey)) :=
  stateWF_facts (finalState_wf algo sets auth rejected)

/-- **Only supplied events.** -/
theorem result_subset_inputs (algo : Nat) (sets : List (List Event)) (auth : List Event) (rejected : List ID) :
    ∀ id ∈ (resolveV2New algo sets auth rejected).result, ∃ e ∈ sets.flatten ++ auth, e.eventID = id := by
  intro id hid
  rw [result_eq_finalState] at hid
  obtain ⟨x, hx, rfl⟩ := List.mem_map.mp hid
  exact ⟨x.2, List.mem_append.mpr (mem_finalState hx), rfl⟩

/-- An event is unconflicted iff it is the only supplied state event of its slot and occurs in every state set
    (`countID` counts its occurrences over all state sets). -/
theorem unconflicted_iff (sets : List (List Event)) (e : Event) :
    e ∈ (splitConflictedUnconflicted false sets).2 ↔
      e ∈ distinctStateEvents sets ∧ ((distinctStateEvents sets).filter (hasKey (keyOf e))).length = 1 ∧
      countID sets e.eventID = sets.length := by
  rw [mem_split_unconflicted]; simp [dse]

/-- a nodup list all of whose members equal `e`, and which contains `e`, has length 1 -/
private theorem length_one_of_all_eq {l : List Event} (hn : l.Nodup) {e : Event} (he : e ∈ l) (hall : ∀ x ∈ l, x = e) :
    l.length = 1 := by
  cases l with
  | nil => cases he
  | cons a as =>
    cases as with
    | nil => rfl
    | cons b bs =>
      exfalso
      have ha := hall a List.mem_cons_self
      have hb := hall b (List.mem_cons_of_mem _ List.mem_cons_self)
      rw [List.nodup_cons] at hn
      exact hn.1 (by rw [ha, ← hb]; exact List.mem_cons_self)

/-- **All state sets agree on a key ⇒ its event is unconflicted**: the state event `e` is in every state set, listed once
    (by ID), and every supplied event of its slot is `e`. -/
theorem agreed_is_unconflicted {sets : List (List Event)} (hne : sets ≠ []) (hU : IdsIn sets.flatten) {e : Event}
    (hk : e.stateKey.isSome) (he : ∀ s ∈ sets, e ∈ s)
    (hocc : ∀ s ∈ sets, (s.filter (fun x => x.eventID == e.eventID)).length = 1)
    (hslot : ∀ x ∈ sets.flatten, hasKey (keyOf e) x = true → x = e) :
    e ∈ (splitConflictedUnconflicted false sets).2 := by
  rw [unconflicted_iff]
  have hflat : e ∈ sets.flatten := by
    cases sets with
    | nil => exact absurd rfl hne
    | cons s ss => exact List.mem_flatten.mpr ⟨s, List.mem_cons_self, he s List.mem_cons_self⟩
  have hd : e ∈ distinctStateEvents sets := by
    unfold distinctStateEvents
    exact List.mem_filter.mpr ⟨mem_eventMap_of_mem hU hflat, hk⟩
  refine ⟨hd, ?_, ?_⟩
  · apply length_one_of_all_eq ((dse_idNodup sets).nodup.sublist List.filter_sublist)
    · exact List.mem_filter.mpr ⟨hd, hasKey_keyOf hk⟩
    · intro x hx
      obtain ⟨hx1, hx2⟩ := List.mem_filter.mp hx
      exact hslot x (mem_dse hx1).1 hx2
  · rw [countID_eq]
    exact flatten_filter_length _ sets hocc

/-- **Agreed keys are kept.**  For every key on which all state sets agree, the resolved state holds exactly that event in
    that slot (and, slots being distinct, no other event for that key). -/
theorem result_keeps_agreed (algo : Nat) (sets : List (List Event)) (auth : List Event) (rejected : List ID)
    (u : Event) (hu : u ∈ (splitConflictedUnconflicted false sets).2) :
    (finalState algo sets auth rejected).get u.type (u.stateKey.getD []) = some u ∧
    u.eventID ∈ (resolveV2New algo sets auth rejected).result := by
  have h := finalState_keeps_unconflicted algo sets auth rejected hu
  refine ⟨State.get_eq_some_of_mem (finalState_wf algo sets auth rejected).nodup h, ?_⟩
  rw [result_eq_finalState]
  exact List.mem_map.mpr ⟨_, h, rfl⟩

/-- **Equal state sets resolve to themselves.**  If all state sets are rearrangements of one duplicate-free set `S` of
    state events with distinct (type, state_key), the result is exactly `S` (whatever auth events are supplied). -/
theorem resolve_all_equal (algo : Nat) (S : List Event) (hS : IdNodup S) (hkeys : (S.map keyOf).Nodup)
    (hst : ∀ e ∈ S, e.stateKey.isSome) (sets : List (List Event)) (hne : sets ≠ []) (h : ∀ s ∈ sets, s ~ S)
    (auth : List Event) (rejected : List ID) :
    (resolveV2New algo sets auth rejected).result ~ S.map (·.eventID) := by
  rw [result_eq_finalState]
  have := (finalState_all_equal_perm algo S hS hkeys hst sets hne h auth rejected).map (·.eventID)
  rwa [List.map_map] at this

/-! ## 3. Order independence of the stages and of the whole resolution -/

/-- the supplied events are identified by their IDs and contain at most one create event -/
structure Input (sets : List (List Event)) (auth : List Event) : Prop where
  ids : IdsIn (sets.flatten ++ auth)
  oneCreate : OneCreate (· ∈ sets.flatten ++ auth)

theorem Input.setsU {sets : List (List Event)} {auth : List Event} :
    ∀ s ∈ sets, ∀ x ∈ s, x ∈ sets.flatten ++ auth :=
  fun s hs x hx => List.mem_append_left _ (List.mem_flatten.mpr ⟨s, hs, hx⟩)

/-- permuting the state sets is a `SetsEquiv` -/
theorem SetsEquiv.of_perm {a b : List (List Event)} (h : a ~ b) : SetsEquiv a b := by
  obtain ⟨c, hc, he⟩ := SetsEquiv.refl b
  exact ⟨c, h.trans hc, he⟩

/-- permuting the events inside each state set is a `SetsEquiv` -/
theorem SetsEquiv.of_eachPerm {a b : List (List Event)} (h : EachPerm a b) : SetsEquiv a b := ⟨a, Perm.refl a, h⟩

/-- **The split into conflicted / unconflicted events is order independent.** -/
theorem split_perm_invariant (v1 : Bool) {sets sets' : List (List Event)} (hU : IdsIn sets.flatten) (hs : SetsEquiv sets sets') :
    (splitConflictedUnconflicted v1 sets).1 ~ (splitConflictedUnconflicted v1 sets').1 ∧
    (splitConflictedUnconflicted v1 sets).2 ~ (splitConflictedUnconflicted v1 sets').2 :=
  split_perm_invariant_perm hU v1 (fun s hs x hx => List.mem_flatten.mpr ⟨s, hs, hx⟩) hs

/-- **The auth difference (v2) / auth difference + conflicted subgraph (v2.1) is order independent**: it depends only on
    the sets involved (auth map up to lookups, conflicted events as a set, state sets up to rearrangement). -/
theorem authDifference_perm_invariant {U : Event → Prop} (hU : EvId U) (algo : Nat) {am am' c c' : List Event}
    {sets sets' : List (List Event)} (hsets : ∀ s ∈ sets, ∀ x ∈ s, U x) (hsets' : ∀ s ∈ sets', ∀ x ∈ s, U x)
    (ham : ∀ x ∈ am, U x) (ham' : ∀ x ∈ am', U x) (hcU : ∀ x ∈ c, U x) (hcU' : ∀ x ∈ c', U x)
    (hm : MapEq am am') (hc : SameSet c c') (hs : SetsSim sets sets') :
    SameSet (authDifferenceNew algo am c sets) (authDifferenceNew algo am' c' sets') :=
  authDifferenceNew_congr hU algo hsets hsets' ham ham' hcU hcU' hm hc hs

/-- **The full control set is order independent** (closure through the conflicted map from the control roots). -/
theorem controlSet_perm_invariant {cm cm' roots roots' : List Event} (hm : MapEq cm cm') (hr : SameSet roots roots') :
    SameSet (controlIDsOf cm roots) (controlIDsOf cm' roots') := by
  unfold controlIDsOf
  rw [controlClosure_mapEq hm, hm.1]
  apply controlClosure_sameSet _ _ hr
  intro id
  rw [eventMap_ids, eventMap_ids]
  exact (hr.map _) id

/-- **Every stage of `resolveV2New` is order independent**: for state sets permuted (and permuted inside) and an auth list
    with the same events (reordered, entries repeated), the conflicted / unconflicted / auth-difference / control / other
    sets are the same sets, the power ordering and the mainline ordering are the same lists, and the results are
    permutations of each other. -/
theorem stages_perm_invariant (algo : Nat) {sets sets' : List (List Event)} {auth auth' : List Event}
    (hin : Input sets auth) (hs : SetsEquiv sets sets') (ha : SameSet auth auth') (rejected : List ID) :
    let r := resolveV2New algo sets auth rejected
    let r' := resolveV2New algo sets' auth' rejected
    SameSet r.conflicted r'.conflicted ∧ SameSet r.unconflicted r'.unconflicted ∧ SameSet r.authDiff r'.authDiff ∧
    SameSet r.control r'.control ∧ SameSet r.others r'.others ∧
    r.controlOrder = r'.controlOrder ∧ r.othersOrder = r'.othersOrder ∧ r.result ~ r'.result :=
  V.StateRes.stages_perm_invariant hin.ids hin.oneCreate algo Input.setsU (fun x hx => List.mem_append_right _ hx) hs ha rejected

/-- **Every run of the process.**  Wherever the Go code ranges over a map the model uses first-insertion order.  Replace the
    lists the model obtains that way — conflicted events, unconflicted events, auth map, auth difference — by ANY lists with the
    same contents (`c'`, `d'` the same sets, `u'` a permutation, `am'` answering lookups alike): the resolved state is a
    permutation of the model's.  (The orderings fed to the iterative auth checks are functions of the sets by section 2; the
    partial state is read through lookups only.) -/
theorem internal_order_irrelevant (algo : Nat) {sets : List (List Event)} {auth : List Event} (hin : Input sets auth)
    (rejected : List ID) {c' u' am' d' : List Event}
    (hcU' : ∀ x ∈ c', x ∈ sets.flatten ++ auth) (hdU' : ∀ x ∈ d', x ∈ sets.flatten ++ auth)
    (hc : SameSet (prepOf algo sets auth).conflicted c') (hu : (prepOf algo sets auth).unconflicted ~ u')
    (ham : MapEq (prepOf algo sets auth).authMap am') (hd : SameSet (prepOf algo sets auth).authDiff d') :
    stateS4 algo (prepOf algo sets auth) rejected ~ stateS4 algo (mkPrep c' u' am' (prepOf algo sets auth).createEv d') rejected :=
  finalState_internal_order_irrelevant hin.ids algo Input.setsU (fun _ hx => List.mem_append_right _ hx) rejected hcU' hdU' hc hu ham hd

/-- **C11, main theorem (v2 and v2.1).**  The set of events returned by state resolution is the same for every ordering of
    the state sets, of the events inside each set, of the auth events, and with auth events listed more than once. -/
theorem resolve_perm_invariant (algo : Nat) {sets sets' : List (List Event)} {auth auth' : List Event}
    (hin : Input sets auth) (hs : SetsEquiv sets sets') (ha : SameSet auth auth') (rejected : List ID) :
    (resolveV2New algo sets' auth' rejected).result ~ (resolveV2New algo sets auth rejected).result :=
  (stages_perm_invariant algo hin hs ha rejected).2.2.2.2.2.2.2.symm

/-- in particular the two answers hold the same event IDs -/
theorem resolve_same_ids (algo : Nat) {sets sets' : List (List Event)} {auth auth' : List Event}
    (hin : Input sets auth) (hs : SetsEquiv sets sets') (ha : SameSet auth auth') (rejected : List ID) (id : ID) :
    id ∈ (resolveV2New algo sets' auth' rejected).result ↔ id ∈ (resolveV2New algo sets auth rejected).result :=
  (resolve_perm_invariant algo hin hs ha rejected).mem_iff

/-! ## 2. The orderings

  `kahn lt parents nodes` is Kahn's algorithm exactly as the library writes it (generic in the comparator and in the parent
  relation; `reverseTopoAuth` uses `powerLt` on (sender power desc, timestamp, event ID) with `auth_events`, `reverseTopoPrev` uses
  `otherLt` with `prev_events`); `mainlineOrdering` is a sort by `otherLt`.  `kNodes nodes` is the input with repeated event
  IDs dropped (first occurrence kept): `(kNodes (l.map mk)).map (·.ev) = eventMapFromEvents l`. -/

/-- the comparators are strict total orders on their keys (the key ends with the event ID) -/
theorem powerLt_strictTotal : StrictTotal powerLt := V.StateRes.powerLt_strictTotal
theorem otherLt_strictTotal : StrictTotal otherLt := V.StateRes.otherLt_strictTotal

/-- **Kahn: permutation of the distinct input events** — no acyclicity needed (strays are appended, the fuel suffices). -/
theorem kahn_perm {κ : Type} (lt : κ → κ → Bool) (parents : Event → List ID) (nodes : List (KNode κ)) :
    kahn lt parents nodes ~ (kNodes nodes).map (·.ev) := V.StateRes.kahn_perm lt parents nodes

/-- **Kahn: topological for acyclic input** (`KAcyclic`: some rank strictly increases from every parent present in the input
    to its child): no event comes before one of its parents, there are no strays … -/
theorem kahn_topological {κ : Type} (lt : κ → κ → Bool) (parents : Event → List ID) (nodes : List (KNode κ))
    (hac : KAcyclic parents nodes) :
    (kahn lt parents nodes).Pairwise (fun a b => b.eventID ∉ parents a) := V.StateRes.kahn_topological lt parents nodes hac

/-- … and every event comes after all of its ancestors present in the input. -/
theorem kahn_topological_ancestors {κ : Type} (lt : κ → κ → Bool) (parents : Event → List ID) (nodes : List (KNode κ))
    (hac : KAcyclic parents nodes) :
    (kahn lt parents nodes).Pairwise (fun a b => ¬ Relation.TransGen (ParentIn parents (kahn lt parents nodes)) b a) :=
  V.StateRes.kahn_topological_ancestors lt parents nodes hac

/-- **Kahn: the output is a function of the SET of input nodes** (any order, any duplication), for a strict total order on
    keys that determine the event ID. -/
theorem kahn_input_order_irrelevant {κ : Type} (lt : κ → κ → Bool) (hlt : StrictTotal lt) (parents : Event → List ID)
    (n1 n2 : List (KNode κ))
    (hids : ∀ a ∈ n1 ++ n2, ∀ b ∈ n1 ++ n2, a.ev.eventID = b.ev.eventID → a = b)
    (hkey : ∀ a ∈ n1, ∀ b ∈ n1, a.key = b.key → a.ev.eventID = b.ev.eventID)
    (hset : SameSet n1 n2) : kahn lt parents n1 = kahn lt parents n2 :=
  V.StateRes.kahn_input_order_irrelevant lt hlt parents n1 n2 hids hkey hset

/-- acyclicity of a list of events w.r.t. a parent relation, by a rank function -/
def Acyclic (parents : Event → List ID) (l : List Event) : Prop :=
  ∃ rk : ID → Nat, ∀ e ∈ l, ∀ p ∈ parents e, p ∈ l.map (·.eventID) → rk p < rk e.eventID

theorem reverseTopoAuth_perm (am : List Event) (ce : Option Event) (l : List Event) :
    reverseTopoAuth am ce l ~ eventMapFromEvents l := V.StateRes.reverseTopoAuth_perm am ce l

theorem reverseTopoAuth_topological (am : List Event) (ce : Option Event) (l : List Event)
    (hac : Acyclic (fun e => e.authEventIDs) l) :
    (reverseTopoAuth am ce l).Pairwise
      (fun a b => ¬ Relation.TransGen (ParentIn (fun e => e.authEventIDs) (reverseTopoAuth am ce l)) b a) :=
  V.StateRes.reverseTopoAuth_topological_ancestors am ce l hac

theorem reverseTopoAuth_input_order_irrelevant (am : List Event) (ce : Option Event) {l1 l2 : List Event}
    (hU : IdsIn (l1 ++ l2)) (h : SameSet l1 l2) : reverseTopoAuth am ce l1 = reverseTopoAuth am ce l2 :=
  V.StateRes.reverseTopoAuth_input_order_irrelevant am ce hU h

theorem reverseTopoPrev_perm (l : List Event) : reverseTopoPrev l ~ eventMapFromEvents l := V.StateRes.reverseTopoPrev_perm l

theorem reverseTopoPrev_topological (l : List Event) (hac : Acyclic (fun e => e.prevEventIDs) l) :
    (reverseTopoPrev l).Pairwise
      (fun a b => ¬ Relation.TransGen (ParentIn (fun e => e.prevEventIDs) (reverseTopoPrev l)) b a) :=
  V.StateRes.reverseTopoPrev_topological_ancestors l hac

theorem reverseTopoPrev_input_order_irrelevant {l1 l2 : List Event} (hU : IdsIn (l1 ++ l2)) (h : SameSet l1 l2) :
    reverseTopoPrev l1 = reverseTopoPrev l2 := V.StateRes.reverseTopoPrev_input_order_irrelevant hU h

theorem mainlineOrdering_perm (am ml evs : List Event) : mainlineOrdering am ml evs ~ evs :=
  V.StateRes.mainlineOrdering_perm am ml evs

theorem mainlineOrdering_input_order_irrelevant (am ml : List Event) {l1 l2 : List Event} (hp : l1 ~ l2) (hn : IdNodup l1) :
    mainlineOrdering am ml l1 = mainlineOrdering am ml l2 := V.StateRes.mainlineOrdering_input_order_irrelevant am ml hp hn

/-- `ReverseTopologicalOrdering(input, TopologicalOrderByAuthEvents)` as the public entry point runs it (no auth map; the
    create event is looked up in the input) — what VDriver/Topo.lean ties to the code -/
def publicTopoAuth (input : List Event) : List Event := reverseTopoAuth [] (getCreateEvent input) input

theorem publicTopoAuth_perm (l : List Event) : publicTopoAuth l ~ eventMapFromEvents l := reverseTopoAuth_perm _ _ l

theorem publicTopoAuth_topological (l : List Event) (hac : Acyclic (fun e => e.authEventIDs) l) :
    (publicTopoAuth l).Pairwise (fun a b => ¬ Relation.TransGen (ParentIn (fun e => e.authEventIDs) (publicTopoAuth l)) b a) :=
  reverseTopoAuth_topological _ _ l hac

theorem publicTopoAuth_input_order_irrelevant {l1 l2 : List Event} (hU : IdsIn (l1 ++ l2)) (hC : OneCreate (· ∈ l1 ++ l2))
    (h : SameSet l1 l2) : publicTopoAuth l1 = publicTopoAuth l2 := by
  unfold publicTopoAuth
  rw [getCreateEvent_congr hC (fun x hx => List.mem_append_left _ hx) (fun x hx => List.mem_append_right _ hx) h]
  exact reverseTopoAuth_input_order_irrelevant _ _ hU h

/-- `LineariseStateResponse`: the auth events and the state events are put into a map keyed by event ID and the map's values
    — `all`, in whatever order the map yields them — are ordered by auth events.  Any two runs see arrangements `all`,
    `all'` of the same events and return the same list: a permutation of the distinct events, ancestors first. -/
theorem linearise_deterministic {all all' : List Event} (hU : IdsIn (all ++ all')) (hC : OneCreate (· ∈ all ++ all'))
    (h : SameSet all all') (hac : Acyclic (fun e => e.authEventIDs) all) :
    publicTopoAuth all = publicTopoAuth all' ∧ publicTopoAuth all ~ eventMapFromEvents all ∧
    (publicTopoAuth all).Pairwise (fun a b => ¬ Relation.TransGen (ParentIn (fun e => e.authEventIDs) (publicTopoAuth all)) b a) :=
  ⟨publicTopoAuth_input_order_irrelevant hU hC h, publicTopoAuth_perm all, publicTopoAuth_topological all hac⟩

/-! ## 4. Version 1 (`ResolveStateConflicts`; `ResolveConflictsNew` for room versions with algorithm 1)

  Precondition of the version-1 resolver: (P1) supplied auth events occupying one slot are equal (`addAuthEvent` keeps the
  last one in caller order); (P3) the candidates of one slot have distinct (depth, SHA-1 of the event ID) — `sha` is an
  arbitrary function of the ID.  The former (P2) "no supplied auth event occupies the slot of a conflicted event" is no longer
  needed: since /repo e1299c1 `resolveAuthBlock` puts the supplied auth event of a slot back once the block is resolved
  (before, a sibling block resolved later no longer saw it — the order dependence reproduced on the real code; the former
  witness is `V.StateRes.V1Ex.ex_order1/ex_order2/ex_invariant` in VProofs/StateResV1Ex.lean). -/

theorem v1_result_unique_keys (sha : ID → Bytes) (conflicted auth : List Event) :
    ((resolveV1 sha conflicted auth).map keyOf).Nodup := V.StateRes.v1_result_unique_keys sha conflicted auth

theorem v1_result_subset_inputs {sha : ID → Bytes} {conflicted auth : List Event} {e : Event}
    (h : e ∈ resolveV1 sha conflicted auth) : e ∈ conflicted ∧ e.stateKey.isSome := V.StateRes.v1_result_subset_inputs h

/-- exactly one resolved event per slot occurring among the conflicted state events -/
theorem v1_result_keys_complete (sha : ID → Bytes) (conflicted auth : List Event) (K : Bytes × Bytes) :
    K ∈ (resolveV1 sha conflicted auth).map keyOf ↔ ∃ e ∈ conflicted, e.stateKey.isSome ∧ keyOf e = K :=
  V.StateRes.v1_result_keys_complete sha conflicted auth K

/-- **Sibling blocks are independent** (the deferral of registration in `resolveAndAddAuthBlocks`): one call on two
    arrangements of the same blocks (each block = the candidates of one slot), against well-formed resolver states with equal
    lookups, yields the same winners (up to order) and again states with equal lookups. -/
theorem blocks_order_irrelevant (sha : ID → Bytes) (valid : Bool) {s s' : V1State} {blocks blocks' : List (List Event)}
    (hw : s.WF) (hw' : s'.WF) (hsim : s.Sim s') (heq : SetsEquiv blocks blocks') (hb : BlocksSlots blocks)
    (hdist : blocks.Pairwise (fun b1 b2 => ∀ e1 ∈ b1, ∀ e2 ∈ b2, keyOf e1 ≠ keyOf e2))
    (hinj : ∀ b ∈ blocks, ∀ x ∈ b, ∀ y ∈ b, x.depth = y.depth → sha x.eventID = sha y.eventID → x = y) :
    (resolveAndAddAuthBlocks sha valid s blocks).2 ~ (resolveAndAddAuthBlocks sha valid s' blocks').2 ∧
      (resolveAndAddAuthBlocks sha valid s blocks).1.Sim (resolveAndAddAuthBlocks sha valid s' blocks').1 :=
  let h := V.StateRes.blocks_order_irrelevant sha valid hw hw' hsim heq hb hdist hinj
  ⟨h.1, h.2.1⟩

/-- **Version 1 is order independent** (one supplied auth event per slot, distinct sort keys inside a slot). -/
theorem v1_perm_invariant (sha : ID → Bytes) {conflicted conflicted' auth auth' : List Event}
    (hc : conflicted ~ conflicted') (ha : SameSet auth auth')
    (P1 : ∀ a ∈ auth, ∀ b ∈ auth, a.stateKey.isSome → keyOf a = keyOf b → b.stateKey.isSome → a = b)
    (P3 : ∀ a ∈ conflicted, ∀ b ∈ conflicted, a.stateKey.isSome → b.stateKey.isSome → keyOf a = keyOf b →
      a.depth = b.depth → sha a.eventID = sha b.eventID → a = b) :
    resolveV1 sha conflicted auth ~ resolveV1 sha conflicted' auth' :=
  V.StateRes.v1_perm_invariant sha hc ha P1 P3

/-- the version-1 precondition, for an input of `ResolveConflictsNew` -/
structure V1Input (sha : ID → Bytes) (sets : List (List Event)) (auth : List Event) : Prop where
  P1 : ∀ a ∈ auth, ∀ b ∈ auth, a.stateKey.isSome → keyOf a = keyOf b → b.stateKey.isSome → a = b
  P3 : ∀ a ∈ (splitConflictedUnconflicted true sets).1, ∀ b ∈ (splitConflictedUnconflicted true sets).1,
      a.stateKey.isSome → b.stateKey.isSome → keyOf a = keyOf b → a.depth = b.depth → sha a.eventID = sha b.eventID → a = b

/-- the v1 answer of the entry point: unique keys, only supplied state events, one event per supplied slot -/
theorem v1_entry_well_formed (sha : ID → Bytes) (sets : List (List Event)) (auth : List Event) :
    ((v1Resolved sha sets auth).map keyOf).Nodup ∧ (∀ e ∈ v1Resolved sha sets auth, e ∈ sets.flatten ∧ e.stateKey.isSome) :=
  ⟨v1Resolved_unique_keys sha sets auth, fun _ h => v1Resolved_subset_inputs h⟩

/-! ## The entry point `ResolveConflictsNew`, all three algorithms -/

/-- both answers are errors, or both are results that are permutations of each other -/
def SameAnswer : Option (List ID) → Option (List ID) → Prop
  | some l, some l' => l ~ l'
  | none, none => True
  | _, _ => False

/-- **C11 for the entry point**: `ResolveConflictsNew` gives the same set of events for every presentation of its input, for
    every room version (algorithm 1 under the version-1 precondition, algorithms 2 and 2.1 unconditionally). -/
theorem resolveConflictsNew_perm_invariant (sha : ID → Bytes) (ver : Bytes) {sets sets' : List (List Event)}
    {auth auth' : List Event} (hin : Input sets auth) (hs : SetsEquiv sets sets') (ha : SameSet auth auth')
    (hv1 : ∀ row, versionRow? ver = some row → row.stateResAlgorithm = 1 → V1Input sha sets auth) (rejected : List ID) :
    SameAnswer (resolveConflictsNew sha ver sets auth rejected) (resolveConflictsNew sha ver sets' auth' rejected) := by
  cases hv : versionRow? ver with
  | none => simp [resolveConflictsNew, hv, SameAnswer]
  | some row =>
    by_cases h1 : row.stateResAlgorithm = 1
    · obtain ⟨P1, P3⟩ := hv1 row hv h1
      obtain ⟨l, l', e1, e2, hp⟩ := resolveConflictsNew_v1_perm_invariant sha ver hv h1 hin.ids rejected rejected
        Input.setsU hs ha P1 P3
      rw [e1, e2]; exact hp
    · have h1' : (row.stateResAlgorithm == 1) = false := by simpa using h1
      unfold resolveConflictsNew
      simp only [hv, h1', Bool.false_eq_true, if_false]
      split
      · exact (resolve_perm_invariant row.stateResAlgorithm hin hs ha rejected).symm
      · trivial

/-! ## 5. The deprecated entry points (`ResolveStateConflictsV2`, `ResolveConflicts`)

  `resolveV2Old conflicted unconflicted auth rejected` takes the split from its caller; `resolveConflictsOld` decides
  "conflicted" by key multiplicity over the distinct input events (= `splitConflictedUnconflicted true [events]`) and then runs
  the version-1 resolver or `resolveV2Old`.  Nothing is returned when the auth events lack a create event. -/

theorem old_result_eq_finalStateOld (c u auth : List Event) (rejected : List ID) :
    resolveV2Old c u auth rejected = (finalStateOld c u auth rejected).map (·.2.eventID) := resolveV2Old_result c u auth rejected

theorem old_result_unique_keys (c u auth : List Event) (rejected : List ID) :
    let s := finalStateOld c u auth rejected
    KeysNodup s ∧ (∀ x ∈ s, x.2.type = x.1.1 ∧ x.2.stateKey = some x.1.2) ∧
    (s.map (·.2)).Pairwise (fun a b => ¬ (a.type = b.type ∧ a.stateKey = b.stateKey)) :=
  stateWF_facts (finalStateOld_wf c u auth rejected)

theorem old_result_subset_inputs (c u auth : List Event) (rejected : List ID) :
    ∀ id ∈ resolveV2Old c u auth rejected, ∃ e ∈ c ++ u ++ auth, e.eventID = id := by
  intro id hid
  rw [old_result_eq_finalStateOld] at hid
  obtain ⟨x, hx, rfl⟩ := List.mem_map.mp hid
  refine ⟨x.2, ?_, rfl⟩
  simp only [List.mem_append]
  rcases mem_finalStateOld hx with h | h | h
  · exact Or.inl (Or.inl h)
  · exact Or.inl (Or.inr h)
  · exact Or.inr h

/-- the unconflicted events (distinct slots) are kept, provided the auth events contain a create event -/
theorem old_result_keeps_unconflicted (c : List Event) {u auth : List Event} (rejected : List ID)
    (hd : (u.map keyOf).Nodup) (hcr : (getCreateEvent auth).isSome) {e : Event} (he : e ∈ u) (hk : e.stateKey.isSome) :
    e.eventID ∈ resolveV2Old c u auth rejected := by
  rw [old_result_eq_finalStateOld]
  exact List.mem_map.mpr ⟨_, finalStateOld_keeps_unconflicted c rejected (distinctSlots_of_keys hd) hcr he hk, rfl⟩

/-- **`ResolveStateConflictsV2` is order independent**: conflicted events as a set, unconflicted events (distinct slots) in
    any order, auth events as a set (reordered, repeated). -/
theorem old_perm_invariant {c c' u u' auth auth' : List Event} (hU : IdsIn (c ++ u ++ auth))
    (hc : SameSet c c') (hu : u ~ u') (hd : (u.map keyOf).Nodup) (ha : SameSet auth auth') (rejected : List ID) :
    resolveV2Old c' u' auth' rejected ~ resolveV2Old c u auth rejected := by
  rw [old_result_eq_finalStateOld, old_result_eq_finalStateOld]
  refine ((finalStateOld_perm_invariant hU ?_ ?_ ?_ ?_ hc hu (distinctSlots_of_keys hd) ha rejected).map _).symm
  · intro x hx; simp only [List.mem_append]; exact Or.inl (Or.inl hx)
  · intro x hx; simp only [List.mem_append]; exact Or.inl (Or.inl ((hc x).mpr hx))
  · intro x hx; simp only [List.mem_append]; exact Or.inl (Or.inr hx)
  · intro x hx; simp only [List.mem_append]; exact Or.inr hx

/-- **C11 for the deprecated entry point `ResolveConflicts`**: the same answer for every ordering of the events and every
    presentation of the auth events, for every room version (algorithm 1 under the version-1 precondition). -/
theorem resolveConflictsOld_perm_invariant (sha : ID → Bytes) (ver : Bytes) {events events' auth auth' : List Event}
    (hU : IdsIn (events ++ auth)) (he : events ~ events') (ha : SameSet auth auth')
    (hv1 : ∀ row, versionRow? ver = some row → row.stateResAlgorithm = 1 → V1Input sha [events] auth) (rejected : List ID) :
    SameAnswer (resolveConflictsOld sha ver events auth rejected) (resolveConflictsOld sha ver events' auth' rejected) := by
  cases hv : versionRow? ver with
  | none => simp [resolveConflictsOld, hv, SameAnswer]
  | some row =>
    by_cases h1 : row.stateResAlgorithm = 1
    · obtain ⟨P1, P3⟩ := hv1 row hv h1
      rw [resolveConflictsOld_v1 sha ver events auth rejected hv h1, resolveConflictsOld_v1 sha ver events' auth' rejected hv h1]
      have hU' : IdsIn ([events].flatten ++ auth) := by simpa using hU
      obtain ⟨l, l', e1, e2, hp⟩ := resolveConflictsNew_v1_perm_invariant sha ver hv h1 hU' rejected rejected
        Input.setsU (setsEquiv_singleton he) ha P1 P3
      rw [e1, e2]; exact hp
    · by_cases h23 : row.stateResAlgorithm = 2 ∨ row.stateResAlgorithm = 3
      · rw [resolveConflictsOld_v2 sha ver events auth rejected hv h23, resolveConflictsOld_v2 sha ver events' auth' rejected hv h23]
        exact (finalStateOld_entry_perm_invariant hU (fun x hx => List.mem_append_left _ hx)
          (fun x hx => List.mem_append_right _ hx) he ha rejected).map _
      · have hn : ∀ r, versionRow? ver = some r → ¬ (r.stateResAlgorithm = 1 ∨ r.stateResAlgorithm = 2 ∨ r.stateResAlgorithm = 3) := by
          intro r hr; rw [hv] at hr; cases hr
          rintro (h | h | h)
          · exact h1 h
          · exact h23 (Or.inl h)
          · exact h23 (Or.inr h)
        rw [resolveConflictsOld_other sha ver events auth rejected hn, resolveConflictsOld_other sha ver events' auth' rejected hn]
        trivial

/-- the v2 / v2.1 answer of the deprecated entry point: at most one event per slot, only supplied events, and every key with a
    single distinct event keeps it (when the auth events contain a create event) -/
theorem resolveConflictsOld_well_formed (events auth : List Event) (rejected : List ID) :
    let cu := splitConflictedUnconflicted true [events]
    let s := finalStateOld cu.1 cu.2 auth rejected
    KeysNodup s ∧ (∀ x ∈ s, x.2 ∈ events ∨ x.2 ∈ auth) ∧
    ((getCreateEvent auth).isSome → ∀ e ∈ cu.2, (keyOf e, e) ∈ s) := by
  intro cu s
  refine ⟨(finalStateOld_wf _ _ _ _).nodup, ?_, ?_⟩
  · intro x hx
    have sub : ∀ {y : Event}, y ∈ cu.1 ∨ y ∈ cu.2 → y ∈ events := by
      intro y hy
      have := (split_sub true [events] hy).1
      simpa using this
    rcases mem_finalStateOld hx with h | h | h
    · exact Or.inl (sub (Or.inl h))
    · exact Or.inl (sub (Or.inr h))
    · exact Or.inr h
  · intro hcr e he
    exact finalStateOld_keeps_unconflicted _ rejected (distinctSlots_of_keys (split_unconflicted_keys true [events])) hcr he
      (split_sub true [events] (Or.inr he)).2

/-! ## Non-vacuity of the hypotheses: a concrete, non-trivial instance -/

section Examples
open V.Json

private def mkEv (id ty sk : Bytes) (auth : List Bytes) : Event :=
  { ver := b!"10", eventID := id,
    obj := [(b!"type", .str ty), (b!"state_key", .str sk), (b!"auth_events", .arr (auth.map .str))] }

private def eCreate := mkEv b!"$create" b!"m.room.create" [] []
private def eA := mkEv b!"$a" b!"m.room.topic" [] [b!"$create"]
private def eB := mkEv b!"$b" b!"m.room.topic" [] [b!"$create", b!"$a"]
private def eN := mkEv b!"$n" b!"m.room.name" [] [b!"$create"]

private theorem ex_idNodup : IdNodup [eCreate, eA, eB, eN] := by unfold IdNodup; decide

/-- two state sets that disagree on the topic, auth events listed with a repetition: the hypotheses of
    `resolve_perm_invariant` hold -/
example : Input [[eCreate, eA, eN], [eCreate, eB, eN]] [eCreate, eA, eCreate] := by
  constructor
  · refine ex_idNodup.idsIn.mono ?_
    intro x hx; revert hx; simp only [List.flatten_cons, List.flatten_nil, List.cons_append, List.nil_append, List.append_nil,
      List.mem_cons, List.not_mem_nil, or_false]
    rintro (h | h | h | h | h | h | h | h | h) <;> simp [h]
  · intro x y hx hy hxc hyc
    have key : ∀ z, z ∈ [[eCreate, eA, eN], [eCreate, eB, eN]].flatten ++ [eCreate, eA, eCreate] → z.isCreate = true → z = eCreate := by
      intro z hz hzc
      simp only [List.flatten_cons, List.flatten_nil, List.cons_append, List.nil_append, List.append_nil,
        List.mem_cons, List.not_mem_nil, or_false] at hz
      rcases hz with h | h | h | h | h | h | h | h | h <;> subst h <;> first | rfl | (exact absurd hzc (by decide))
    rw [key x hx hxc, key y hy hyc]

example : SetsEquiv [[eCreate, eA, eN], [eCreate, eB, eN]] [[eN, eB, eCreate], [eA, eCreate, eN]] := by
  refine ⟨[[eCreate, eB, eN], [eCreate, eA, eN]], Perm.swap _ _ _, .cons ?_ (.cons ?_ .nil)⟩
  · exact (Perm.swap _ _ _).trans ((Perm.swap _ _ _).cons _ |>.trans (Perm.swap _ _ _))
  · exact Perm.swap _ _ _

example : SameSet [eCreate, eA, eCreate] [eA, eCreate] := by
  intro x; simp only [List.mem_cons, List.not_mem_nil, or_false]
  constructor
  · rintro (h | h | h) <;> simp [h]
  · rintro (h | h) <;> simp [h]

/-- the DAG create ← a ← b (and create ← n) is acyclic: rank = length of the longest chain below; the input lists `b` twice.
    (The parent function is spelled out: `Event.authEventIDs` consults the room-version table through `String.toUTF8`,
    which the kernel does not evaluate.) -/
example : Acyclic (fun e => if e.eventID = b!"$b" then [b!"$create", b!"$a"] else if e.eventID = b!"$create" then [] else [b!"$create"])
    [eB, eN, eA, eCreate, eB] := by
  refine ⟨fun id => if id = b!"$create" then 0 else if id = b!"$a" then 1 else 2, ?_⟩
  intro e he
  simp only [List.mem_cons, List.not_mem_nil, or_false] at he
  rcases he with h | h | h | h | h <;> subst h <;> decide

/-- equal state sets: hypotheses of `resolve_all_equal` -/
example : IdNodup [eCreate, eA, eN] ∧ ([eCreate, eA, eN].map keyOf).Nodup ∧ (∀ e ∈ [eCreate, eA, eN], e.stateKey.isSome) := by
  refine ⟨by unfold IdNodup; decide, by decide, by decide⟩

/-- the version-1 precondition holds for the former witness of the order dependence (two state sets conflicting on the
    memberships of @a:x and @b:x; the auth event `AJ` sits on the conflicted slot of @a:x — allowed now) -/
example : V1Input id [[V1Ex.a1, V1Ex.b1], [V1Ex.a2, V1Ex.b2]] [V1Ex.C, V1Ex.AJ] := by
  have sub : ∀ x ∈ (splitConflictedUnconflicted true [[V1Ex.a1, V1Ex.b1], [V1Ex.a2, V1Ex.b2]]).1,
      x ∈ [V1Ex.a1, V1Ex.a2, V1Ex.b1, V1Ex.b2] := by
    intro x hx
    have := (split_sub true _ (Or.inl hx)).1
    simp only [List.flatten_cons, List.flatten_nil, List.cons_append, List.nil_append, List.append_nil,
      List.mem_cons, List.not_mem_nil, or_false] at this ⊢
    rcases this with h | h | h | h <;> simp [h]
  exact ⟨V1Ex.ex_P1, fun a ha b hb => V1Ex.ex_P3 a (sub a ha) b (sub b hb)⟩

/-- and on it both block orders now give the same resolved events (before /repo e1299c1: `[$a2,$b1]` vs `[$b2,$a2]`) -/
example : (resolveV1 id [V1Ex.a1, V1Ex.a2, V1Ex.b1, V1Ex.b2] [V1Ex.C, V1Ex.AJ]).map (·.eventID) = [b!"$a2", b!"$b2"] ∧
    (resolveV1 id [V1Ex.b1, V1Ex.b2, V1Ex.a1, V1Ex.a2] [V1Ex.C, V1Ex.AJ]).map (·.eventID) = [b!"$b2", b!"$a2"] :=
  ⟨V1Ex.ex_order1, V1Ex.ex_order2⟩

end Examples

end V.C11
