/-
  C11 — State resolution is order-independent and yields well-formed state.
  (first instalment: the resolved state is a map — at most one event per (type, state_key);
   the order-independence theorems are in progress, see DESIGN.md §5 C11)
-/
import VModel.StateRes
namespace V.C11
open V V.StateRes

def KeysNodup (s : State) : Prop := (s.map (·.1)).Nodup

theorem set_keys (s : State) (t k : Bytes) (e : Event) :
    (s.set t k e).map (·.1) = if (s.find? (fun x => x.1 == (t, k))).isSome then s.map (·.1) else s.map (·.1) ++ [(t, k)] := by
  unfold State.set
  split
  · rename_i h
    simp only [h, if_true, List.map_map]
    apply List.map_congr_left
    intro x hx
    simp only [Function.comp]
    split
    · rename_i hxk; simp at hxk; exact hxk.symm
    · rfl
  · rename_i h
    simp [h]

theorem set_keysNodup (s : State) (t k : Bytes) (e : Event) (h : KeysNodup s) : KeysNodup (s.set t k e) := by
  unfold KeysNodup at *
  rw [set_keys]
  split
  · exact h
  · rename_i hf
    rw [List.nodup_append]
    refine ⟨h, by simp, ?_⟩
    intro a ha b hb
    simp only [List.mem_singleton] at hb
    subst hb
    intro hab
    subst hab
    apply hf
    obtain ⟨x, hx, hxk⟩ := List.mem_map.mp ha
    rw [List.find?_isSome]
    exact ⟨x, hx, by simp [hxk]⟩

/-- **`applyEvents` keeps at most one event per (type, state_key).** -/
theorem applyEvents_keysNodup (s : State) (evs : List Event) (h : KeysNodup s) : KeysNodup (applyEvents s evs) := by
  unfold applyEvents
  induction evs generalizing s with
  | nil => exact h
  | cons e rest ih =>
    simp only [List.foldl_cons]
    apply ih
    split
    · exact h
    · exact set_keysNodup _ _ _ _ h

/-- **The iterative auth checks keep at most one event per (type, state_key)**, whatever the auth oracle answers. -/
theorem authAndApply_keysNodup (authMap : List Event) (rejected : List ID) (s : State) (evs : List Event)
    (h : KeysNodup s) : KeysNodup (authAndApply authMap rejected s evs) := by
  unfold authAndApply
  induction evs generalizing s with
  | nil => exact h
  | cons e rest ih =>
    simp only [List.foldl_cons]
    apply ih
    split
    · exact applyEvents_keysNodup _ _ h
    · exact h

example : KeysNodup ([] : State) := by simp [KeysNodup]

end V.C11
