/-
  C11 property theorems.
-/
import VModel.StateRes
namespace V.C11
end V.C11
