/-
  C15 composed with C07 and C06 — the oracles of the handshake handlers discharged by the models of the functions the
  code really calls there.

  make_join / make_leave.  `TemplateAns.built ty stateOK allowed` carries two oracle bits.  Here they are COMPUTED from
  what the caller's `BuildEventTemplate` returned — an event and a list of state events —

      stateOK  :=  `NewAuthEvents(state)` succeeds              — every state event has a state key
      allowed  :=  `Allowed(event, NewAuthEvents(state)) == nil` — VModel.Auth.allowedFresh (C07) on Provider.ofEvents

  so that "the resulting event passes the auth rules" reads, without oracles: the C07 model of `Allowed` accepts the
  event the builder made against the provider `NewAuthEvents` makes of the builder's state — and, through the `Valid()`
  gate of `Allowed` (C07 `different_rooms_refused`, C09 `valid_ofEvents`), a state that spans two rooms never yields a
  template.  With the builder the harness uses (`templateEvent`: the proto event of the handler made into an event) the
  accepted event is an `m.room.member` event of the room, sent by the user with the user as state key, whose content —
  in the reading of the auth rules, `NewMemberContentFromEvent` (VModel.Signers.memberContent) — is the membership
  `join` / `leave` and the authorising user the restricted-join stage picked.

  send_join / invite.  The `verify` field of `SendJoinIn` / `InviteIn` is NOT shaped like `VerifyEventSignatures`: the
  handlers (/repo handlejoin.go:442-461, handleinvite.go:98-120) redact the event themselves and hand the caller's
  verifier ONE request

      VerifyJSONRequest{ ServerName: sender.Domain(), Message: redacted, AtTS: event.OriginServerTS(),
                         ValidityCheckingFunc: StrictValiditySignatureCheck }

  — for the server of the user the user-ID querier named, at the event's origin_server_ts, under the STRICT key-validity
  rule whatever the room version.  That is what is modelled here (`VerifierWorld`, `handlerRequest`): the theorems say
  that this one request was reported valid, that its server is the requesting server (send_join), and that it is the first
  server `V.Signers.requiredSigners` (C06) lists for the event; the other servers C06 would require of a join are
  accounted for in `sendJoin_required_signers_covered`: the authorising user's server is the local server, whose
  signature the handler adds itself (`sendJoin_signs_unmodified`), and only the server named in a version-1/2 event ID
  is checked by nobody on this path.  `invite_required_signers_covered` says the same of HandleInvite (the third server
  there is the invited user's: the one the handler signs for).
-/
import VProps.C15
import VProps.C06
import VProps.C07
import VProofs.AuthNeededProviders
namespace V.C15
open V V.Json V.GoJson V.Handshake V.Handshake.Spec V.Signers V.Auth

/-! ## make_join / make_leave: the template against the C07 model of `Allowed` -/

/-- what the caller's `BuildEventTemplate(&proto)` returned -/
inductive BuilderAns where
  | err                                         -- templateErr != nil
  | nilEvent
  | nilState
  | built (ev : Event) (state : List Event)
  deriving Inhabited

/-- `NewAuthEvents(state)` succeeds: every event has a state key -/
def stateOKOf (state : List Event) : Bool := state.all (fun e => e.stateKey.isSome)

/-- `Allowed(ev, NewAuthEvents(state), …) == nil` by the C07 model -/
def allowedOf (ev : Event) (state : List Event) : Bool := allowedFresh ev (Provider.ofEvents state) == .ok

/-- the oracle bits of `TemplateAns` computed by the models of what the handler calls on the builder's answer -/
def BuilderAns.toTemplateAns : BuilderAns → TemplateAns
  | .err => .err
  | .nilEvent => .nilEvent
  | .nilState => .nilState
  | .built ev state => .built ev.type (stateOKOf state) (allowedOf ev state)

/-- HandleMakeJoin's input with the template oracle instantiated: `build via` is what the builder returns for the proto
    event whose content names `via` as authorising user -/
def composedMakeJoin (i : MakeJoinIn) (build : Bytes → BuilderAns) : MakeJoinIn :=
  { i with template := fun via => (build via).toTemplateAns }

def composedMakeLeave (i : MakeLeaveIn) (build : BuilderAns) : MakeLeaveIn :=
  { i with template := build.toTemplateAns }

theorem allowedOf_iff (ev : Event) (state : List Event) :
    allowedOf ev state = true ↔ allowedFresh ev (Provider.ofEvents state) = .ok := by
  unfold allowedOf
  cases allowedFresh ev (Provider.ofEvents state) <;> simp

/-- an event the C07 model accepts against `NewAuthEvents(state)` sees a state of ONE room: the `Valid()` gate -/
theorem allowed_state_one_room (ev : Event) (state : List Event) (sig : Bool)
    (h : allowedFresh ev (Provider.ofEvents state) sig = .ok) :
    ∀ a ∈ state, ∀ b ∈ state, a.roomID = b.roomID := by
  have hv : (Provider.ofEvents state).valid = true := by
    cases hc : (Provider.ofEvents state).valid with
    | true => rfl
    | false =>
      have := C07.different_rooms_refused ev (Provider.ofEvents state) sig (by simp [hc])
      rw [this] at h
      cases h
  exact (AuthNeeded.valid_ofEvents state).mp hv

/-- what `templateOK` says of a computed template answer -/
theorem templateOK_computed {b : BuilderAns} (h : templateOK b.toTemplateAns = true) :
    ∃ ev state, b = .built ev state ∧ ev.type = b!"m.room.member" ∧ (∀ s ∈ state, s.stateKey.isSome = true) ∧
      allowedFresh ev (Provider.ofEvents state) = .ok := by
  cases b with
  | err => simp [BuilderAns.toTemplateAns, templateOK] at h
  | nilEvent => simp [BuilderAns.toTemplateAns, templateOK] at h
  | nilState => simp [BuilderAns.toTemplateAns, templateOK] at h
  | built ev state =>
    simp only [BuilderAns.toTemplateAns, templateOK, Bool.and_eq_true, beq_iff_eq] at h
    refine ⟨ev, state, rfl, h.1.1, ?_, (allowedOf_iff ev state).mp h.2⟩
    have := h.1.2
    unfold stateOKOf at this
    rw [List.all_eq_true] at this
    exact this

/-- **HandleMakeJoin, without the `Allowed` oracle.**  If the handler returns a template, the builder returned — for the
    authorising user the handler answers with — an `m.room.member` event and a state all of whose events are state events
    of one room, and the C07 model of `Allowed` accepts that event against `NewAuthEvents(state)`. -/
theorem makeJoin_template_allowed (i : MakeJoinIn) (build : Bytes → BuilderAns) (o : MakeJoinOut)
    (h : handleMakeJoin (composedMakeJoin i build) = .ok o) :
    ∃ ev state, build o.authorisedVia = .built ev state ∧ ev.type = b!"m.room.member" ∧
      (∀ s ∈ state, s.stateKey.isSome = true) ∧
      allowedFresh ev (Provider.ofEvents state) = .ok ∧
      (∀ a ∈ state, ∀ b ∈ state, a.roomID = b.roomID) := by
  obtain ⟨_, ht, _, _, _⟩ := makeJoin_ok_implies_guards _ o h
  obtain ⟨ev, state, hb, hty, hsk, hal⟩ := templateOK_computed (b := build o.authorisedVia) ht
  exact ⟨ev, state, hb, hty, hsk, hal, allowed_state_one_room ev state false hal⟩

/-- **HandleMakeLeave, without the `Allowed` oracle.** -/
theorem makeLeave_template_allowed (i : MakeLeaveIn) (build : BuilderAns) (v : Bytes)
    (h : handleMakeLeave (composedMakeLeave i build) = .ok v) :
    ∃ ev state, build = .built ev state ∧ ev.type = b!"m.room.member" ∧
      (∀ s ∈ state, s.stateKey.isSome = true) ∧
      allowedFresh ev (Provider.ofEvents state) = .ok ∧
      (∀ a ∈ state, ∀ b ∈ state, a.roomID = b.roomID) := by
  obtain ⟨hg, _⟩ := makeLeave_ok_implies_guards _ v h
  have ht : templateOK build.toTemplateAns = true := by
    simp only [makeLeaveGuards, Bool.and_eq_true] at hg
    exact hg.2
  obtain ⟨ev, state, hb, hty, hsk, hal⟩ := templateOK_computed ht
  exact ⟨ev, state, hb, hty, hsk, hal, allowed_state_one_room ev state false hal⟩

/-- **A state that spans two rooms never yields a join template**: whatever else the input says, if the state the builder
    hands back (for every authorising user) contains events of two rooms, HandleMakeJoin refuses. -/
theorem makeJoin_cross_room_refused (i : MakeJoinIn) (build : Bytes → BuilderAns)
    (hx : ∀ via ev state, build via = .built ev state → ∃ a ∈ state, ∃ b ∈ state, a.roomID ≠ b.roomID) :
    ∀ o, handleMakeJoin (composedMakeJoin i build) ≠ .ok o := by
  intro o h
  obtain ⟨ev, state, hb, _, _, _, hroom⟩ := makeJoin_template_allowed i build o h
  obtain ⟨a, ha, b, hb', hne⟩ := hx _ ev state hb
  exact hne (hroom a ha b hb')

theorem makeLeave_cross_room_refused (i : MakeLeaveIn) (ev : Event) (state : List Event)
    (hx : ∃ a ∈ state, ∃ b ∈ state, a.roomID ≠ b.roomID) :
    ∀ v, handleMakeLeave (composedMakeLeave i (.built ev state)) ≠ .ok v := by
  intro v h
  obtain ⟨ev', state', hb, _, _, _, hroom⟩ := makeLeave_template_allowed i _ v h
  cases hb
  obtain ⟨a, ha, b, hb', hne⟩ := hx
  exact hne (hroom a ha b hb')

/-! ### The builder of the correspondence check: the handler's proto event made into an event

  (`templateEvent` / `templateAns` of VDriver/Handshake.lean, at model level: the proto event of HandleMakeJoin /
  HandleMakeLeave is `{type: m.room.member, sender, room_id, state_key: sender, content: {membership, and
  join_authorised_via_users_server when not ""}}`; the builder adds depth, a timestamp and one prev event.) -/

def memberContentKVs (membership via : Bytes) : List (Bytes × JVal) :=
  [(b!"membership", .str membership)] ++ (if via.isEmpty then [] else [(b!"join_authorised_via_users_server", .str via)])

def templateEvent (ver : Bytes) (type sender roomID : Bytes) (membership via : Bytes) : Event :=
  { ver := ver, eventID := b!"$template:hs1",
    obj := [(b!"type", .str type), (b!"sender", .str sender), (b!"room_id", .str roomID), (b!"state_key", .str sender),
            (b!"content", .obj (memberContentKVs membership via)), (b!"depth", .num b!"10"), (b!"origin_server_ts", .num b!"1"),
            (b!"prev_events", .arr (if ((versionRow? ver).map (·.eventFormat)).getD 2 == 1
                then [.arr [.str b!"$prev:hs1", .obj [(b!"sha256", .str b!"47DEQpj8HBSa+/TImW+5JCeuQeRkm5NMpJWZG3hSuFU")]]]
                else [.str b!"$prev:hs1"])),
            (b!"auth_events", .arr [])] }

/-- the builder that makes the proto event into `templateEvent` and hands back `state` -/
def protoBuilder (ver : Bytes) (state : List Event) (user roomID membership : Bytes) : Bytes → BuilderAns :=
  fun via => .built (templateEvent ver b!"m.room.member" user roomID membership via) state

/-- the shape of the template event, as the accessors report it: an `m.room.member` event of the room, sent by the user
    with the user as state key, whose content reads — as `NewMemberContentFromEvent` reads it, the reading of the auth
    rules — as the membership and the authorising user -/
theorem templateEvent_shape (ver user roomID membership via : Bytes) :
    (templateEvent ver b!"m.room.member" user roomID membership via).type = b!"m.room.member" ∧
    (templateEvent ver b!"m.room.member" user roomID membership via).sender = user ∧
    (templateEvent ver b!"m.room.member" user roomID membership via).stateKey = some user ∧
    (templateEvent ver b!"m.room.member" user roomID membership via).roomID = roomID ∧
    Signers.memberContent (templateEvent ver b!"m.room.member" user roomID membership via).content = some ⟨membership, via⟩ := by
  refine ⟨rfl, rfl, rfl, ?_, ?_⟩
  · have hc : (templateEvent ver b!"m.room.member" user roomID membership via).isCreate = false := rfl
    unfold Event.roomID
    rw [hc, Bool.and_false]
    rfl
  · show Signers.memberContent (some (.obj (memberContentKVs membership via))) = _
    unfold memberContentKVs
    cases hv : via.isEmpty with
    | true =>
      have : via = [] := List.isEmpty_iff.mp hv
      subst this
      rfl
    | false => rfl

/-- **make_join with the handler's own proto event.**  If HandleMakeJoin returns a template — authorising user `via` —
    then the join event made of it (type `m.room.member`, membership `join`, sender = state key = the user, the room,
    `join_authorised_via_users_server = via` when `via` is not empty) passes the auth rules — the C07 model of `Allowed` —
    against `NewAuthEvents(state)`, and `state` is a list of state events of one room. -/
theorem makeJoin_proto_template_allowed (i : MakeJoinIn) (ver : Bytes) (state : List Event) (user roomID : Bytes)
    (o : MakeJoinOut)
    (h : handleMakeJoin (composedMakeJoin i (protoBuilder ver state user roomID b!"join")) = .ok o) :
    allowedFresh (templateEvent ver b!"m.room.member" user roomID b!"join" o.authorisedVia) (Provider.ofEvents state) = .ok ∧
    (∀ s ∈ state, s.stateKey.isSome = true) ∧ (∀ a ∈ state, ∀ b ∈ state, a.roomID = b.roomID) := by
  obtain ⟨ev, st, hb, _, hsk, hal, hroom⟩ := makeJoin_template_allowed i _ o h
  cases hb
  exact ⟨hal, hsk, hroom⟩

/-- **make_leave with the handler's own proto event** (membership `leave`, no authorising user). -/
theorem makeLeave_proto_template_allowed (i : MakeLeaveIn) (ver : Bytes) (state : List Event) (user roomID : Bytes)
    (v : Bytes)
    (h : handleMakeLeave (composedMakeLeave i (protoBuilder ver state user roomID b!"leave" [])) = .ok v) :
    allowedFresh (templateEvent ver b!"m.room.member" user roomID b!"leave" []) (Provider.ofEvents state) = .ok ∧
    (∀ s ∈ state, s.stateKey.isSome = true) ∧ (∀ a ∈ state, ∀ b ∈ state, a.roomID = b.roomID) := by
  obtain ⟨ev, st, hb, _, hsk, hal, hroom⟩ := makeLeave_template_allowed i _ v h
  cases hb
  exact ⟨hal, hsk, hroom⟩

/-- … and a state with events of two rooms yields no template, whoever authorises -/
theorem makeJoin_proto_cross_room_refused (i : MakeJoinIn) (ver : Bytes) (state : List Event) (user roomID : Bytes)
    (hx : ∃ a ∈ state, ∃ b ∈ state, a.roomID ≠ b.roomID) :
    ∀ o, handleMakeJoin (composedMakeJoin i (protoBuilder ver state user roomID b!"join")) ≠ .ok o := by
  apply makeJoin_cross_room_refused
  intro via ev st hb
  cases hb
  exact hx

/-! ## send_join / invite: the verifier's answer to the ONE request the handlers make -/

/-- the caller's `JSONVerifier` as the two handlers use it: `VerifyJSONs` fails as a whole, or reports per request
    whether the signature is valid (the message of the request is the redacted event: VModel.Signers) -/
structure VerifierWorld where
  callFails : Bool
  valid : Request → Bool

def VerifierWorld.answer (w : VerifierWorld) (r : Request) : VerifyAns :=
  if w.callFails then .callErr else if w.valid r then .good else .bad

/-- the request of HandleSendJoin / HandleInvite: the server of the user the user-ID querier named for the sender
    (`sender.Domain()`), at the event's origin_server_ts, `StrictValiditySignatureCheck` — in EVERY room version (where
    `VerifyEventSignatures` would use the version's rule: strict from version 5 on).  Without a user the handlers never
    reach the verifier. -/
def handlerRequest (sd : SenderAns) (e : Event) : Request :=
  { server := match sd with
      | .dom d => d
      | _ => [],
    ts := e.originServerTS, strict := true }

/-- HandleSendJoin's input with the verification oracle instantiated for the event `e` -/
def composedSendJoin (i : SendJoinIn) (e : Event) (w : VerifierWorld) : SendJoinIn :=
  { i with verify := w.answer (handlerRequest i.senderDomain e) }

def composedInvite (i : InviteIn) (e : Event) (w : VerifierWorld) : InviteIn :=
  { i with verify := w.answer (handlerRequest i.senderDomain e) }

theorem answer_good {w : VerifierWorld} {r : Request} (h : w.answer r = .good) : w.callFails = false ∧ w.valid r = true := by
  unfold VerifierWorld.answer at h
  cases hc : w.callFails <;> cases hv : w.valid r <;> simp_all

/-- the sender's server heads every list of required signers (C06 model) -/
theorem sender_server_required (row : VGen.VersionRow) (e : Event) (d : Bytes) (l : List Bytes)
    (h : requiredSigners row e (.ok (some d)) = .ok l) : d ∈ l := by
  unfold requiredSigners at h
  simp only at h
  split at h
  · cases h
  · rename_i n1 hn1
    have h1 : d ∈ n1 := by
      split at hn1
      · cases hs : splitIDDomain 0x24 e.eventID with
        | none => rw [hs] at hn1; cases hn1
        | some x =>
          rw [hs] at hn1
          simp only [Option.map_some, Option.some.injEq] at hn1
          subst hn1
          exact C06.mem_addNeeded' _ _ _ (List.mem_singleton.mpr rfl)
      · cases hn1
        exact List.mem_singleton.mpr rfl
    split at h
    · cases h; exact h1
    · split at h
      · cases h
      · rename_i m hm
        split at h
        · cases h
        · rename_i n2 hn2
          have h2 : d ∈ n2 := by
            split at hn2
            · split at hn2
              · cases hn2
              · split at hn2
                · cases hn2
                  exact C06.mem_addNeeded' _ _ _ h1
                · cases hn2
            · cases hn2; exact h1
          split at h
          · split at h
            · cases h
            · split at h
              · cases h; exact h2
              · cases h; exact C06.mem_addNeeded' _ _ _ h2
          · cases h; exact h2

/-- **HandleSendJoin, without the verification oracle.**  The handler does not call `VerifyEventSignatures`; it asks the
    verifier about ONE server.  If it accepts, the user-ID querier placed the sender on the requesting server, the
    verifier call succeeded and it reported the REQUESTING server's signature over the redacted event valid at the event's
    origin_server_ts under the strict key-validity rule; and that server is one — the first — of the servers
    `requiredSigners` (C06) lists for the event under any version row. -/
theorem sendJoin_origin_signature_valid (i : SendJoinIn) (e : Event) (w : VerifierWorld) (o : SendJoinOut)
    (h : handleSendJoin (composedSendJoin i e w) = .ok o) :
    i.senderDomain = .dom i.requestOrigin ∧ w.callFails = false ∧
    w.valid ⟨i.requestOrigin, e.originServerTS, true⟩ = true ∧
    (∀ row l, requiredSigners row e (.ok (some i.requestOrigin)) = .ok l → i.requestOrigin ∈ l) := by
  obtain ⟨hg, _, _⟩ := sendJoin_ok_implies_guards _ o h
  simp only [sendJoinGuards, Bool.and_eq_true, beq_iff_eq] at hg
  have hd' : i.senderDomain = .dom i.requestOrigin := hg.1.1.1.2
  have hv' : w.answer (handlerRequest i.senderDomain e) = .good := hg.1.1.2
  rw [hd'] at hv'
  obtain ⟨h1, h2⟩ := answer_good hv'
  exact ⟨hd', h1, h2, fun row l hl => sender_server_required row e _ l hl⟩

/-- **HandleInvite, without the verification oracle**: the verifier reported the signature of the SENDER's server (the
    server of the user the querier named for the event's sender; HandleInviteInput has no request origin) over the
    redacted event valid at the event's origin_server_ts under the strict rule; it is the first server `requiredSigners`
    lists for the event. -/
theorem invite_sender_signature_valid (i : InviteIn) (e : Event) (w : VerifierWorld) (o : InviteOut)
    (h : handleInvite (composedInvite i e w) = .ok o) :
    ∃ d, i.senderDomain = .dom d ∧ w.callFails = false ∧ w.valid ⟨d, e.originServerTS, true⟩ = true ∧
      (∀ row l, requiredSigners row e (.ok (some d)) = .ok l → d ∈ l) := by
  obtain ⟨_, _, _, _, sk, _, _, ht⟩ := handleInvite_ok h
  obtain ⟨hd, hv, _⟩ := inviteTail_ok ht
  have hv' : w.answer (handlerRequest i.senderDomain e) = .good := hv
  cases hs : i.senderDomain with
  | err => have : senderKnown i.senderDomain = true := hd; rw [hs] at this; cases this
  | nil => have : senderKnown i.senderDomain = true := hd; rw [hs] at this; cases this
  | dom d =>
    rw [hs] at hv'
    obtain ⟨h1, h2⟩ := answer_good hv'
    exact ⟨d, rfl, h1, h2, fun row l hl => sender_server_required row e d l hl⟩

/-! ### The other servers C06 requires of a join

  `requiredSigners` lists, for an `m.room.member` join: the sender's server, in event format 1 (room versions 1, 2) the
  server named in the event ID, and the server of `join_authorised_via_users_server`.  HandleSendJoin verifies the
  first; insists that the third is the local server — and adds that signature itself; nobody checks the second on this
  path.  Stated for an input whose event facts are the accessors' readings of the event. -/

/-- `MemberContent.AuthorisedVia` of the event: the member named exactly `join_authorised_via_users_server` of the
    content, decoded as a Go string (what HandleSendJoin reads after its `json.Unmarshal(exactMembersOnly(…))`) -/
def authorisedViaOf (e : Event) : Bytes :=
  match e.content with
  | some (.obj kvs) => (decString (lookupExact kvs b!"join_authorised_via_users_server")).val
  | _ => []

/-- the standard `spec.NewUserID(id, true)` as the user-ID oracle (`userIDOracle` of the driver) -/
def stdUserID : UserIDOracle := fun id =>
  match parseUserID? id with
  | some (some u) => some u.domain
  | _ => none

/-- the event facts of `SendJoinIn` that matter below are read off the event `e` -/
structure JoinReadOff (e : Event) (i : SendJoinIn) : Prop where
  type : i.evType = e.type
  /-- `event.Membership()`: the exact `membership` member, then the state-key check — `membershipForSignatures` -/
  membership : i.membership = (Signers.membership e).toOption
  via : i.authorisedVia = authorisedViaOf e
  userID : i.userID = stdUserID

theorem stdUserID_domain {id dom : Bytes} (h : stdUserID id = some dom) : splitIDDomain 0x40 id = some dom := by
  unfold stdUserID at h
  split at h
  · rename_i u hu
    cases h
    unfold parseUserID? at hu
    split at hu
    · cases hu
    · split at hu
      · rename_i rest _
        split at hu
        · cases hu
        · rename_i l d hc
          split at hu
          · cases hu
          · cases hu
          · split at hu
            · cases hu
            · cases hu
              show (if (0x40 : UInt8) == 0x40 then (cutAt 0x3A (0x40 :: rest)).map (·.2) else none) = some d
              simp only [beq_self_eq_true, if_true]
              rw [C06.cutAt_cons_ne (by decide) rest, hc]
              rfl
      · cases hu
  · cases h

/-- the server C06 requires for the authorising user is the domain `spec.NewUserID` reads off that user -/
theorem via_server_is_domain (row : VGen.VersionRow) (e : Event) (s dom : Bytes)
    (h : restrictedJoinServername row e.content = .ok s) (hs : s ≠ [])
    (hu : stdUserID (authorisedViaOf e) = some dom) : s = dom := by
  have hd := stdUserID_domain hu
  unfold restrictedJoinServername at h
  split at h
  · unfold extractAuthorisedVia at h
    unfold authorisedViaOf at hd
    split at h
    · rename_i kvs hc
      rw [hc] at hd
      simp only at hd
      split at h
      · cases h; exact absurd rfl hs
      · rename_i v hv
        rw [hv] at hd
        simp only at h
        split at h
        · cases h
        · rw [hd] at h
          simp only at h
          split at h
          · cases h
          · cases h; rfl
    · cases h; exact absurd rfl hs
    · cases h
  · split at h
    · cases h; exact absurd rfl hs
    · cases h

/-- the servers the C06 model requires of a join: the sender's, the event-ID server (format 1), the authoriser's -/
theorem join_required_cases (row : VGen.VersionRow) (e : Event) (d : Bytes) (l : List Bytes)
    (hty : e.type = b!"m.room.member") (hm : Signers.membership e = .ok b!"join")
    (h : requiredSigners row e (.ok (some d)) = .ok l) :
    ∀ s ∈ l, s = d ∨ (row.eventIDFormat = 1 ∧ splitIDDomain 0x24 e.eventID = some s) ∨
      (restrictedJoinServername row e.content = .ok s ∧ s ≠ []) := by
  unfold requiredSigners at h
  have hj : (b!"join" == b!"invite") = false := by decide
  simp only [hty, hm, bne_self_eq_false, Bool.false_eq_true, if_false, hj, beq_self_eq_true, if_true] at h
  split at h
  · cases h
  · rename_i n1 hn1
    have h1 : ∀ s ∈ n1, s = d ∨ (row.eventIDFormat = 1 ∧ splitIDDomain 0x24 e.eventID = some s) := by
      intro s hs
      split at hn1
      · rename_i hf
        cases hx : splitIDDomain 0x24 e.eventID with
        | none => rw [hx] at hn1; cases hn1
        | some x =>
          rw [hx] at hn1
          simp only [Option.map_some, Option.some.injEq] at hn1
          subst hn1
          rcases (C06.mem_addNeeded x s [d]).mp hs with hsx | hsd
          · exact Or.inr ⟨by simpa using hf, by rw [hsx]⟩
          · exact Or.inl (List.mem_singleton.mp hsd)
      · cases hn1
        exact Or.inl (List.mem_singleton.mp hs)
    split at h
    · cases h
    · rename_i auth hauth
      split at h
      · cases h
        intro s hs
        rcases h1 s hs with h' | h'
        · exact Or.inl h'
        · exact Or.inr (Or.inl h')
      · rename_i hne
        cases h
        intro s hs
        rcases (C06.mem_addNeeded auth s n1).mp hs with hsa | hsn
        · subst hsa
          refine Or.inr (Or.inr ⟨hauth, ?_⟩)
          intro hc
          rw [hc] at hne
          exact hne rfl
        · rcases h1 s hsn with h' | h'
          · exact Or.inl h'
          · exact Or.inr (Or.inl h')

theorem toOption_some {ε α} {x : Except ε α} {a : α} (h : x.toOption = some a) : x = .ok a := by
  cases x with
  | error _ => cases h
  | ok b => cases h; rfl

/-- **Every server C06 requires of an accepted join is accounted for.**  For an event whose facts the input reads off
    (`JoinReadOff`), under any version row: each server `requiredSigners` lists for it — with the sender lookup answering
    the requesting server, as it did — is
      * the requesting server, whose signature the verifier reported valid (origin_server_ts, strict rule), or
      * the LOCAL server (the authorising user's: "whose authorising user is local"), whose signature is the one the
        handler adds to what it returns (`o.sig.signer`), or
      * in event format 1 (room versions 1 and 2) the server named in the event ID — which nobody verifies on this path. -/
theorem sendJoin_required_signers_covered (row : VGen.VersionRow) (e : Event) (i : SendJoinIn) (w : VerifierWorld)
    (o : SendJoinOut) (hr : JoinReadOff e i) (h : handleSendJoin (composedSendJoin i e w) = .ok o)
    (l : List Bytes) (hl : requiredSigners row e (.ok (some i.requestOrigin)) = .ok l) :
    i.requestOrigin ∈ l ∧
    ∀ s ∈ l, (s = i.requestOrigin ∧ w.valid ⟨s, e.originServerTS, true⟩ = true)
      ∨ (s = i.localServer ∧ o.sig.signer = s)
      ∨ (row.eventIDFormat = 1 ∧ splitIDDomain 0x24 e.eventID = some s) := by
  obtain ⟨_, _, hvalid, hmem⟩ := sendJoin_origin_signature_valid i e w o h
  obtain ⟨hg, hty, hm⟩ := sendJoin_ok_implies_guards _ o h
  obtain ⟨hsig, _⟩ := sendJoin_signs_unmodified _ o h
  have hty' : e.type = b!"m.room.member" := by rw [← hr.type]; exact hty
  have hm' : Signers.membership e = .ok b!"join" := by
    apply toOption_some
    rw [← hr.membership]
    exact hm
  have hvia : i.authorisedVia.isEmpty = true ∨ i.userID i.authorisedVia = some i.localServer := by
    simp only [sendJoinGuards, Bool.and_eq_true, Bool.or_eq_true, beq_iff_eq] at hg
    exact hg.2
  refine ⟨hmem row l hl, ?_⟩
  intro s hs
  rcases join_required_cases row e _ l hty' hm' hl s hs with h1 | h1 | ⟨h1, h2⟩
  · exact Or.inl ⟨h1, by rw [h1]; exact hvalid⟩
  · exact Or.inr (Or.inr h1)
  · right; left
    rcases hvia with he | hu
    · -- no authorising user in the content: C06 requires nobody for it
      exfalso
      have hv0 : authorisedViaOf e = [] := by rw [← hr.via]; exact List.isEmpty_iff.mp he
      unfold restrictedJoinServername at h1
      split at h1
      · unfold extractAuthorisedVia at h1
        unfold authorisedViaOf at hv0
        split at h1
        · rename_i kvs hc
          rw [hc] at hv0
          simp only at hv0
          split at h1
          · cases h1; exact h2 rfl
          · rename_i v hv
            rw [hv] at hv0
            simp only at h1
            split at h1
            · cases h1
            · rw [hv0] at h1
              cases h1
        · cases h1; exact h2 rfl
        · cases h1
      · split at h1
        · cases h1; exact h2 rfl
        · cases h1
    · rw [hr.userID, hr.via] at hu
      have := via_server_is_domain row e s _ h1 h2 hu
      exact ⟨this, by rw [hsig, this]; rfl⟩

/-- **What HandleSendJoin returns would pass `VerifyEventSignatures`** (C06 model) in the room versions whose event IDs
    name no server and whose key-validity rule is the strict one (versions 5 on): given that the signature the handler
    adds for the local server is one the verifier reports valid (C02: it is made with the local key) and that the
    required servers can be determined at all, every request `VerifyEventSignatures` makes for the event is answered
    "valid". -/
theorem sendJoin_passes_verifyEventSignatures (row : VGen.VersionRow) (e : Event) (i : SendJoinIn) (w : VerifierWorld)
    (o : SendJoinOut) (hr : JoinReadOff e i) (h : handleSendJoin (composedSendJoin i e w) = .ok o)
    (hstrict : strictValidity row = true) (hfmt : row.eventIDFormat ≠ 1)
    (hlocal : w.valid ⟨o.sig.signer, e.originServerTS, true⟩ = true)
    (hdet : ∃ l, requiredSigners row e (.ok (some i.requestOrigin)) = .ok l) :
    verifyEventSignatures row e (.ok (some i.requestOrigin)) w.valid false = .ok () := by
  obtain ⟨l, hl⟩ := hdet
  rw [C06.verify_iff]
  refine ⟨l, hl, ?_⟩
  intro s hs
  rw [hstrict]
  rcases (sendJoin_required_signers_covered row e i w o hr h l hl).2 s hs with ⟨_, h1⟩ | ⟨_, h1⟩ | ⟨h1, _⟩
  · exact h1
  · rw [← h1]; exact hlocal
  · exact absurd h1 hfmt

/-- the servers the C06 model requires of an invite: the sender's, the event-ID server (format 1), the invited user's -/
theorem invite_required_cases (row : VGen.VersionRow) (e : Event) (d : Bytes) (l : List Bytes)
    (hty : e.type = b!"m.room.member") (hm : Signers.membership e = .ok b!"invite")
    (h : requiredSigners row e (.ok (some d)) = .ok l) :
    ∀ s ∈ l, s = d ∨ (row.eventIDFormat = 1 ∧ splitIDDomain 0x24 e.eventID = some s) ∨
      (∃ sk, e.stateKey = some sk ∧ splitIDDomain 0x40 sk = some s) := by
  unfold requiredSigners at h
  have hj : (b!"invite" == b!"join") = false := by decide
  simp only [hty, hm, bne_self_eq_false, Bool.false_eq_true, if_false, hj, beq_self_eq_true, if_true] at h
  split at h
  · cases h
  · rename_i n1 hn1
    have h1 : ∀ s ∈ n1, s = d ∨ (row.eventIDFormat = 1 ∧ splitIDDomain 0x24 e.eventID = some s) := by
      intro s hs
      split at hn1
      · rename_i hf
        cases hx : splitIDDomain 0x24 e.eventID with
        | none => rw [hx] at hn1; cases hn1
        | some x =>
          rw [hx] at hn1
          simp only [Option.map_some, Option.some.injEq] at hn1
          subst hn1
          rcases (C06.mem_addNeeded x s [d]).mp hs with hsx | hsd
          · exact Or.inr ⟨by simpa using hf, by rw [hsx]⟩
          · exact Or.inl (List.mem_singleton.mp hsd)
      · cases hn1
        exact Or.inl (List.mem_singleton.mp hs)
    split at h
    · cases h
    · rename_i n2 hn2
      cases h
      split at hn2
      · cases hn2
      · rename_i sk hsk
        split at hn2
        · rename_i dd hdd
          cases hn2
          intro s hs
          rcases (C06.mem_addNeeded dd s n1).mp hs with hsa | hsn
          · subst hsa
            exact Or.inr (Or.inr ⟨sk, hsk, hdd⟩)
          · rcases h1 s hsn with h' | h'
            · exact Or.inl h'
            · exact Or.inr (Or.inl h')
        · cases hn2

/-- **Every server C06 requires of an accepted invite is accounted for.**  For an invite whose type, membership and state
    key the input reads off the event, handed to HandleInvite for a user of the server it signs for
    (`input.InvitedUser.Domain()` is the domain of `input.InvitedUser`; `input.InvitedSenderID` is that user ID — user-ID
    room versions — or left empty): each server `requiredSigners` lists is the sender's server, reported valid by the
    verifier; or the invited user's server, whose signature is the one the handler adds; or (format 1) the event-ID
    server, which nobody verifies on this path. -/
theorem invite_required_signers_covered (row : VGen.VersionRow) (e : Event) (i : InviteIn) (w : VerifierWorld)
    (o : InviteOut)
    (hty : i.eventType = e.type) (hms : i.membership = (Signers.membership e).toOption) (hsk : i.stateKey = e.stateKey)
    (hsid : i.invitedSenderID = i.invitedUserID ∨ i.invitedSenderID = []) (hdom : stdUserID i.invitedUserID = some i.invitedUserDomain)
    (h : handleInvite (composedInvite i e w) = .ok o) :
    ∃ d, i.senderDomain = .dom d ∧ ∀ l, requiredSigners row e (.ok (some d)) = .ok l →
      d ∈ l ∧
      ∀ s ∈ l, (s = d ∧ w.valid ⟨s, e.originServerTS, true⟩ = true)
        ∨ (s = i.invitedUserDomain ∧ o.sig.signer = s)
        ∨ (row.eventIDFormat = 1 ∧ splitIDDomain 0x24 e.eventID = some s) := by
  obtain ⟨d, hd, _, hvalid, hmem⟩ := invite_sender_signature_valid i e w o h
  obtain ⟨_, _, hty', hm', sk, hsk', hor, _⟩ := handleInvite_ok h
  obtain ⟨hsig, _⟩ := invite_signs_unmodified _ o h
  refine ⟨d, hd, fun l hl => ⟨hmem row l hl, ?_⟩⟩
  have hty'' : e.type = b!"m.room.member" := by rw [← hty]; exact hty'
  have hm'' : Signers.membership e = .ok b!"invite" := by
    apply toOption_some
    rw [← hms]
    exact hm'
  intro s hs
  rcases invite_required_cases row e d l hty'' hm'' hl s hs with h1 | h1 | ⟨sk', hk1, hk2⟩
  · exact Or.inl ⟨h1, by rw [h1]; exact hvalid⟩
  · exact Or.inr (Or.inr h1)
  · right; left
    have hsk2 : sk' = i.invitedUserID := by
      have : some sk = some sk' := by rw [← hk1, ← hsk]; exact hsk'.symm
      cases this
      rcases hor with h2 | h2
      · rcases hsid with h3 | h3
        · exact h2.trans h3
        · have h4 : sk = [] := h2.trans h3
          rw [h4] at hk2
          cases hk2
      · exact h2
    rw [hsk2, stdUserID_domain hdom] at hk2
    cases hk2
    exact ⟨rfl, by rw [hsig]; rfl⟩

/-! ## Non-vacuity (kernel-evaluated)

  A room `!room:hs1` of version 10 with restricted joins: create event, join rules, power levels (invite level 50,
  @alice:hs1 at 50) and @alice:hs1's membership.  @bob:hs5 asks hs1 for a join template; the queriers are those of
  `makeJoinWitness` (VProps/C15.lean): the restricted-join stage picks @alice:hs1. -/

def xsEv (room id type sender sk : Bytes) (content : List (Bytes × JVal)) : Event :=
  { ver := b!"10", eventID := id,
    obj := [(b!"type", .str type), (b!"sender", .str sender), (b!"room_id", .str room), (b!"state_key", .str sk),
            (b!"content", .obj content), (b!"origin_server_ts", .num b!"5"), (b!"depth", .num b!"1"),
            (b!"prev_events", .arr [.str b!"$p"]), (b!"auth_events", .arr [])] }

def xsCreate : Event :=
  xsEv b!"!room:hs1" b!"$c" b!"m.room.create" b!"@creator:hs1" []
    [(b!"creator", .str b!"@creator:hs1"), (b!"room_version", .str b!"10")]

def xsState : List Event :=
  [xsCreate,
   xsEv b!"!room:hs1" b!"$j" b!"m.room.join_rules" b!"@creator:hs1" []
     [(b!"join_rule", .str b!"restricted"),
      (b!"allow", .arr [.obj [(b!"type", .str b!"m.room_membership"), (b!"room_id", .str b!"!a:hs1")]])],
   xsEv b!"!room:hs1" b!"$l" b!"m.room.power_levels" b!"@creator:hs1" []
     [(b!"users", .obj [(b!"@creator:hs1", .num b!"100"), (b!"@alice:hs1", .num b!"50")]), (b!"invite", .num b!"50")],
   xsEv b!"!room:hs1" b!"$m" b!"m.room.member" b!"@alice:hs1" b!"@alice:hs1" [(b!"membership", .str b!"join")]]

/-- a state event of ANOTHER room -/
def xsForeign : Event := xsEv b!"!other:hs1" b!"$n" b!"m.room.name" b!"@creator:hs1" [] [(b!"name", .str b!"n")]

def xsMakeJoin (state : List Event) : MakeJoinIn :=
  composedMakeJoin (makeJoinWitness (.ans (some infoWitness))) (protoBuilder b!"10" state b!"@bob:hs5" b!"!room:hs1" b!"join")

/-- the hypothesis of `makeJoin_proto_template_allowed` holds with `authorisedVia = @alice:hs1`: the handler returns the
    template; the join it describes is accepted by the C07 model, and WITHOUT the authorising user it is not (the `allowed`
    bit is a real verdict of the auth rules, not a constant) -/
example : isOkVia (handleMakeJoin (xsMakeJoin xsState)) b!"@alice:hs1" = true
    ∧ allowedFresh (templateEvent b!"10" b!"m.room.member" b!"@bob:hs5" b!"!room:hs1" b!"join" b!"@alice:hs1")
        (Provider.ofEvents xsState) = .ok
    ∧ allowedFresh (templateEvent b!"10" b!"m.room.member" b!"@bob:hs5" b!"!room:hs1" b!"join" [])
        (Provider.ofEvents xsState) = .notAllowed := by
  decide +kernel

/-- the same request with one state event of another room added to the builder's state is refused (M_FORBIDDEN):
    `makeJoin_proto_cross_room_refused` on a concrete input -/
example : isErr (handleMakeJoin (xsMakeJoin (xsState ++ [xsForeign]))) eForbidden = true := by decide +kernel

example : ∃ a ∈ xsState ++ [xsForeign], ∃ b ∈ xsState ++ [xsForeign], a.roomID ≠ b.roomID :=
  ⟨xsForeign, List.mem_append_right _ (List.mem_singleton.mpr rfl),
   xsCreate, List.mem_append_left _ List.mem_cons_self, by decide +kernel⟩

/-- make_leave: @alice:hs1 (joined) may leave — `makeLeave_proto_template_allowed` applies; with a state that spans two
    rooms she gets no template (`makeLeave_cross_room_refused`) -/
def xsMakeLeave (user dom : Bytes) (state : List Event) : MakeLeaveIn :=
  composedMakeLeave { roomVersion := b!"10", userDomain := dom, requestOrigin := dom, localServerInRoom := true, template := .err }
    (protoBuilder b!"10" state user b!"!room:hs1" b!"leave" [])

def leaveOutcome (r : Handshake.R Bytes) : Option HErr :=
  match r with
  | .ok _ => none
  | .error e => some e

example : leaveOutcome (handleMakeLeave (xsMakeLeave b!"@alice:hs1" b!"hs1" xsState)) = none
    ∧ leaveOutcome (handleMakeLeave (xsMakeLeave b!"@alice:hs1" b!"hs1" (xsState ++ [xsForeign]))) = some eForbidden := by
  decide +kernel

/-! send_join: @bob:hs2 sends his join — authorised by @alice:hs1 — to hs1; the input facts are read off the event -/

def xsJoin (ver id : Bytes) : Event :=
  { ver := ver, eventID := id,
    obj := [(b!"type", .str b!"m.room.member"), (b!"sender", .str b!"@bob:hs2"), (b!"room_id", .str b!"!room:hs1"),
            (b!"state_key", .str b!"@bob:hs2"),
            (b!"content", .obj [(b!"membership", .str b!"join"), (b!"join_authorised_via_users_server", .str b!"@alice:hs1")]),
            (b!"origin_server_ts", .num b!"5"), (b!"depth", .num b!"7"),
            (b!"prev_events", .arr [.str b!"$p"]), (b!"auth_events", .arr [])] }

def xsSendJoinIn (e : Event) : SendJoinIn :=
  { sendJoinWitness with
    evType := e.type, stateKey := e.stateKey, sender := e.sender, eventRoomID := e.roomID, eventID := e.eventID,
    reqEventID := e.eventID,
    membership := (Signers.membership e).toOption, authorisedVia := authorisedViaOf e, userID := stdUserID }

/-- the verifier reports hs2 valid at timestamp 5 under the strict rule (`good`), or nothing -/
def xsVerifier (good : Bool) : VerifierWorld :=
  { callFails := false, valid := fun r => good && r.server == b!"hs2" && r.ts == 5 && r.strict }

def signerOf (r : Handshake.R SendJoinOut) : Option Bytes :=
  match r with
  | .ok o => some o.sig.signer
  | .error _ => none

def requiredIn (ver : String) (e : Event) (d : Bytes) : Option (List Bytes) :=
  (VGen.roomVersions.find? (fun r => r.key == ver)).bind (fun row =>
    match requiredSigners row e (.ok (some d)) with
    | .ok l => some l
    | .error _ => none)

example : JoinReadOff (xsJoin b!"10" b!"$e") (xsSendJoinIn (xsJoin b!"10" b!"$e")) := ⟨rfl, rfl, rfl, rfl⟩

/-- room version 10: accepted (and counter-signed by hs1) when the verifier vouches for hs2, refused when it does not;
    C06 requires hs2 and hs1 — the hypotheses of `sendJoin_required_signers_covered` hold and both disjuncts occur -/
example :
    signerOf (handleSendJoin (composedSendJoin (xsSendJoinIn (xsJoin b!"10" b!"$e")) (xsJoin b!"10" b!"$e") (xsVerifier true)))
      = some b!"hs1"
    ∧ signerOf (handleSendJoin (composedSendJoin (xsSendJoinIn (xsJoin b!"10" b!"$e")) (xsJoin b!"10" b!"$e") (xsVerifier false)))
      = none
    ∧ requiredIn "10" (xsJoin b!"10" b!"$e") b!"hs2" = some [b!"hs2", b!"hs1"] := by
  decide +kernel

/-- room version 1, an event ID that names a third server: the handler accepts on hs2's signature alone although C06
    requires `elsewhere` too — the third disjunct of `sendJoin_required_signers_covered` is not idle (version 1 has no
    restricted joins: nobody is required for the authorising user) -/
example :
    signerOf (handleSendJoin (composedSendJoin (xsSendJoinIn (xsJoin b!"1" b!"$e:elsewhere")) (xsJoin b!"1" b!"$e:elsewhere")
      (xsVerifier true))) = some b!"hs1"
    ∧ requiredIn "1" (xsJoin b!"1" b!"$e:elsewhere") b!"hs2" = some [b!"hs2", b!"elsewhere"] := by
  decide +kernel

/-! invite: @carol:hs2 invites @alice:hs1; hs1 is handed the invite (`inviteWitness` of VProps/C15.lean, read off the event) -/

def xsInvite : Event :=
  { ver := b!"10", eventID := b!"$i",
    obj := [(b!"type", .str b!"m.room.member"), (b!"sender", .str b!"@carol:hs2"), (b!"room_id", .str b!"!room:hs2"),
            (b!"state_key", .str b!"@alice:hs1"), (b!"content", .obj [(b!"membership", .str b!"invite")]),
            (b!"origin_server_ts", .num b!"5"), (b!"depth", .num b!"7"),
            (b!"prev_events", .arr [.str b!"$p"]), (b!"auth_events", .arr [])] }

def xsInviteIn : InviteIn :=
  { inviteWitness with eventType := xsInvite.type, membership := (Signers.membership xsInvite).toOption,
                       stateKey := xsInvite.stateKey, eventRoomID := xsInvite.roomID }

def inviteSignerOf (r : Handshake.R InviteOut) : Option Bytes :=
  match r with
  | .ok o => some o.sig.signer
  | .error _ => none

/-- the hypotheses of `invite_required_signers_covered` hold: accepted (counter-signed for hs1) exactly when the verifier
    vouches for hs2; C06 requires hs2 and hs1 -/
example :
    inviteSignerOf (handleInvite (composedInvite xsInviteIn xsInvite (xsVerifier true))) = some b!"hs1"
    ∧ inviteSignerOf (handleInvite (composedInvite xsInviteIn xsInvite (xsVerifier false))) = none
    ∧ stdUserID xsInviteIn.invitedUserID = some xsInviteIn.invitedUserDomain
    ∧ xsInviteIn.invitedSenderID = xsInviteIn.invitedUserID
    ∧ requiredIn "10" xsInvite b!"hs2" = some [b!"hs2", b!"hs1"] := by
  decide +kernel

end V.C15
