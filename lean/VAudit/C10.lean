import VProps.C10
#print axioms V.C10.stateres_column_eq_spec
#print axioms V.C10.entrypoint_selects
