import VProps.C10
