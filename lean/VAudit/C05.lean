import VProps.C05
#print axioms V.C05.keep_tables_eq_spec_partial
#print axioms V.C05.keep_tables_v11_member_deviates
#print axioms V.C05.algos_ok
#print axioms V.C05.redact_exact
#print axioms V.C05.redact_drops_unlisted
#print axioms V.C05.redact_idem
#print axioms V.C05.redact_preserves_ids
#print axioms V.C05.redact_preserves_reference
#print axioms V.C05.redact_preserves_signatures
#print axioms V.C05.redact_keeps_signatures_member
