import VProps.C02
#print axioms V.C02.sign_verify
#print axioms V.C02.verify_reserialised
#print axioms V.C02.sign_verify_after
#print axioms V.C02.sign_preserves
#print axioms V.C02.verify_sound_key
#print axioms V.C02.verify_sound_tamper
#print axioms V.C02.verify_needs_signature
#print axioms V.C02.verify_iff
#print axioms V.C02.listKeyIDs_complete
#print axioms V.C02.sign_never_panics
#print axioms V.C02.toy_ideal
#print axioms V.Sign.b64Decode_encode
