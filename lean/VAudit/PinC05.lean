import VProps.PinC05
#print axioms V.Pin.C05.function_list
#print axioms V.Pin.C05.eventV1_eventV1_Redact
#print axioms V.Pin.C05.eventV2_eventV2_Redact
#print axioms V.Pin.C05.redactevent__redactEventJSON
#print axioms V.Pin.C05.redactevent__redactEventJSONV1
#print axioms V.Pin.C05.redactevent__redactEventJSONV2
#print axioms V.Pin.C05.redactevent__redactEventJSONV3
#print axioms V.Pin.C05.redactevent__redactEventJSONV4
#print axioms V.Pin.C05.redactevent__redactEventJSONV5
#print axioms V.Pin.C05.redactevent_unredactableEventFieldsV1_GetContent
#print axioms V.Pin.C05.redactevent_unredactableEventFieldsV1_GetType
#print axioms V.Pin.C05.redactevent_unredactableEventFieldsV1_SetContent
#print axioms V.Pin.C05.redactevent_unredactableEventFieldsV2_GetContent
#print axioms V.Pin.C05.redactevent_unredactableEventFieldsV2_GetType
#print axioms V.Pin.C05.redactevent_unredactableEventFieldsV2_SetContent
