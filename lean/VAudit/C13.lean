import VProps.C13
#print axioms V.C13.gen_fields
#print axioms V.C13.gen_header_format
#print axioms V.C13.gen_safe_ranges
#print axioms V.C13.header_roundtrip
#print axioms V.C13.accepted_facts
#print axioms V.C13.refused_if
#print axioms V.C13.refused_if_key_invalid
#print axioms V.C13.binding
#print axioms V.C13.signed_request_accepted
#print axioms V.C13.canonical_body_facts
#print axioms V.C13.signed_request_accepted_canon
