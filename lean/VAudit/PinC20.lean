import VProps.PinC20
#print axioms V.Pin.C20.function_list
#print axioms V.Pin.C20.tokens_tokens__GenerateLoginToken
#print axioms V.Pin.C20.tokens_tokens__deSerializeMacaroon
#print axioms V.Pin.C20.tokens_tokens__generateBaseMacaroon
#print axioms V.Pin.C20.tokens_tokens__isValidTokenOptions
#print axioms V.Pin.C20.tokens_tokens__macaroonError
#print axioms V.Pin.C20.tokens_tokens__serializeMacaroon
#print axioms V.Pin.C20.tokens_tokens_handlers__GetUserFromToken
#print axioms V.Pin.C20.tokens_tokens_handlers__ValidateToken
#print axioms V.Pin.C20.tokens_tokens_handlers__verifyCaveats
#print axioms V.Pin.C20.tokens_tokens_type_TokenOptions
