import VProps.C01
#print axioms V.C01.canon_member_order_irrelevant
#print axioms V.C01.canon_keys_strictly_sorted
#print axioms V.C01.negzero_is_zero
#print axioms V.C01.other_literals_kept
#print axioms V.C01.numOk_sound
#print axioms V.C01.enforced_rejects_leaf
#print axioms V.C01.enforced_versions
