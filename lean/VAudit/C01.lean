import VProps.TransJson
import VProps.C01
#print axioms V.C01.canon_member_order_irrelevant
#print axioms V.C01.canon_keys_strictly_sorted
#print axioms V.C01.negzero_is_zero
#print axioms V.C01.other_literals_kept
#print axioms V.C01.numOk_sound
#print axioms V.C01.enforced_rejects_leaf
#print axioms V.C01.enforced_versions
#print axioms V.C01.canonical_eq_spec_general
#print axioms V.C01.canonical_eq_spec
#print axioms V.C01.canonical_eq_canonicalSpec
#print axioms V.C01.canonical_rejects_invalid
#print axioms V.C01.canonical_unique
#print axioms V.C01.canonical_unique_conv
#print axioms V.C01.canonical_output_valid
#print axioms V.C01.canonical_idem
#print axioms V.C01.encodeCanon_injective
#print axioms V.C01.enforced_rejects
#print axioms V.C01.enforced_iff
#print axioms V.C01.canonical_of_rendering
#print axioms V.Trans.Json.isNegativeZeroLiteral_eq_model
#print axioms V.Trans.Json.readHexDigits_correct
#print axioms V.Trans.Json.readHexDigits_total
