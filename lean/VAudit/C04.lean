import VProps.C04
#print axioms V.C04.table_facts
#print axioms V.C04.accessors_only_see_json
#print axioms V.C04.hash_match_intact
#print axioms V.C04.hash_mismatch_redacted
#print axioms V.C04.redaction_no_event_id
#print axioms V.C04.dropEventID_noop
#print axioms V.C04.accepted_no_event_id
#print axioms V.C04.identity_of_accepted
#print axioms V.C04.tamper_redactable_same_identity
#print axioms V.C04.same_redaction_same_identity_intact
#print axioms V.C04.refuses_repeated_member
#print axioms V.C04.refuses_field_variant
#print axioms V.C04.keep_names_no_variant
#print axioms V.C04.accepted_keys_nodup
#print axioms V.C04.accepted_no_variant
#print axioms V.C04.accessors_read_exact_members
