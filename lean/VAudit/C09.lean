import VProps.C09
#print axioms V.C09.update_eq_freshOf
#print axioms V.C09.inv_freshOf
#print axioms V.C09.verdicts_history_independent
#print axioms V.C09.allowedFresh_eq
#print axioms V.C09.freshOf_congr
