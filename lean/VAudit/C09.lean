import VProps.C09
#print axioms V.C09.update_eq_freshOf
#print axioms V.C09.inv_freshOf
#print axioms V.C09.verdicts_history_independent
#print axioms V.C09.allowedFresh_eq
#print axioms V.C09.freshOf_congr
#print axioms V.C09.verdict_needs_only_needed
#print axioms V.C09.verdict_needs_only_needed_exact
#print axioms V.C09.insertion_order_irrelevant
#print axioms V.C09.unrelated_state_irrelevant
#print axioms V.C09.unrelated_state_added
#print axioms V.C09.add_auth_events_sufficient
#print axioms V.C09.ofEvents_sameRoom
#print axioms V.C09.allowedFresh_eq_noValid
#print axioms V.C09.check_eq_allowed
#print axioms V.C09.reused_checker_eq_allowed
#print axioms V.C09.sameEvent_eq
