import VProps.PinC02
#print axioms V.Pin.C02.function_list
#print axioms V.Pin.C02.signing__ListKeyIDs
#print axioms V.Pin.C02.signing__SignJSON
#print axioms V.Pin.C02.signing__VerifyJSON
