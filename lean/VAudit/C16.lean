import VProps.C16
#print axioms V.C16.gen_default_port
#print axioms V.C16.gen_srv_services
#print axioms V.C16.gen_wellknown_limits
#print axioms V.C16.gen_control_networks
#print axioms V.C16.resolve_eq_spec
#print axioms V.C16.invalid_refused
#print axioms V.C16.invalid_iff_spec
#print axioms V.C16.invalid_delegate_refused
#print axioms V.C16.delegated_no_second_wellknown
#print axioms V.C16.targets_nonempty_or_error
#print axioms V.C16.wellknown_honoured_iff
#print axioms V.C16.wellknown_honoured_only_if
#print axioms V.C16.cache_lifetime_prefers_max_age
#print axioms V.C16.contains_iff_prefix
#print axioms V.C16.isAllowed_iff_permitted
#print axioms V.C16.control_permits_iff
#print axioms V.C16.roundtrip_uses_only_targets
