import VProps.C14
#print axioms V.C14.state_response_fails_iff
#print axioms V.C14.state_response_exact
#print axioms V.C14.state_response_sound
#print axioms V.C14.send_join_accept_iff
#print axioms V.C14.retry_diverges
#print axioms V.C14.at_state_iff
#print axioms V.C14.auth_chain_iff
#print axioms V.C14.load_classification
#print axioms V.C14.collect_mem
#print axioms V.C14.collect_no_panic
#print axioms V.C14.padd_idem
#print axioms V.C14.authOracles_addIdem
#print axioms V.C14.tableProvider_provOK
#print axioms V.FedCheck.retryAE_eq_stepC
#print axioms V.FedCheck.checkAllowed_contract
#print axioms V.FedCheck.verifyEventAuthChain_log
#print axioms V.FedCheck.chainStep_post
