import VProps.C11
