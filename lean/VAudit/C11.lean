import VProps.C11
#print axioms V.C11.set_keysNodup
#print axioms V.C11.applyEvents_keysNodup
#print axioms V.C11.authAndApply_keysNodup
