import VProps.TransLevels
import VProps.C08
#print axioms V.C08.checks_imply_no_escalation
#print axioms V.C08.accepted_notifications
#print axioms V.C08.accepted_pl_no_escalation
#print axioms V.C08.v12_no_creator_in_users
#print axioms V.C08.integer_only_levels
#print axioms V.C08.pl_columns_eq_spec
#print axioms V.C08.ceiling_step
#print axioms V.C08.history_ceiling
#print axioms V.C08.accepted_history
#print axioms V.C08.accepted_pl_notifications
#print axioms V.C08.integer_only_levels_spelled
#print axioms V.C08.accepted_pl_integer
#print axioms V.Trans.Levels.userLevel_eq_model
#print axioms V.Trans.Levels.eventLevel_eq_model
#print axioms V.Trans.Levels.notificationLevel_eq_model
