import VProps.PinC18
#print axioms V.Pin.C18.function_list
#print axioms V.Pin.C18.spec_senderid_SenderID_IsPseudoID
#print axioms V.Pin.C18.spec_senderid_SenderID_IsUserID
#print axioms V.Pin.C18.spec_senderid_SenderID_RawBytes
#print axioms V.Pin.C18.spec_senderid_SenderID_ToPseudoID
#print axioms V.Pin.C18.spec_senderid_SenderID_ToUserID
#print axioms V.Pin.C18.spec_senderid__SenderIDFromPseudoIDKey
#print axioms V.Pin.C18.spec_senderid__SenderIDFromUserID
