import VProps.PinC04
#print axioms V.Pin.C04.function_list
#print axioms V.Pin.C04.eventcrypto__VerifyAllEventSignatures
#print axioms V.Pin.C04.eventcrypto__VerifyEventSignatures
#print axioms V.Pin.C04.eventcrypto__addContentHashesToEvent
#print axioms V.Pin.C04.eventcrypto__checkEventContentHash
#print axioms V.Pin.C04.eventcrypto__emptyAuthorisedViaServerName
#print axioms V.Pin.C04.eventcrypto__extractAuthorisedViaServerName
#print axioms V.Pin.C04.eventcrypto__getMXIDMapping
#print axioms V.Pin.C04.eventcrypto__referenceOfEvent
#print axioms V.Pin.C04.eventcrypto__referenceOfEventForVersion
#print axioms V.Pin.C04.eventcrypto__signEvent
#print axioms V.Pin.C04.eventcrypto__validateMXIDMappingSignatures
