import VProps.C19
import VProofs.ConcDnsClient
import VDriver.Conc
import VProofs.ConcDnsReplay
#print axioms V.C19.dns_size_bounded
#print axioms V.C19.dns_no_dup_keys
#print axioms V.C19.dns_no_stale_served
#print axioms V.C19.dns_right_host
#print axioms V.C19.linearizable_lookup_partial
#print axioms V.C19.dns_mutex_owner
#print axioms V.C19.dns_lockset_discipline
#print axioms V.C19.dns_no_deadlock
#print axioms V.C19.dns_evict_terminates
#print axioms V.C19.dns_lookup_terminates
#print axioms V.C19.dns_disabled_of_size_le_zero
#print axioms V.C19.dns_expiry_bounded
#print axioms V.C19.dns_evict_spins_of_size_le_zero
#print axioms V.C19.dns_evict_spins_while_clock_frozen
#print axioms V.C19.fetch_union
#print axioms V.C19.fetch_spec_map
#print axioms V.C19.fetch_no_deadlock
#print axioms V.C19.fetch_terminates
#print axioms V.C19.fetch_waitgroup_exact
#print axioms V.C19.fetch_lockset_discipline
#print axioms V.C19.transport_no_dup
#print axioms V.C19.transport_lockset_discipline
#print axioms V.C19.event_accessors_read_only
#print axioms V.C19.event_id_same_for_all
#print axioms V.C19.sync_skeleton_dns_lookup
#print axioms V.C19.sync_skeleton_dns_dialcontext
#print axioms V.C19.sync_skeleton_transport
#print axioms V.C19.sync_skeleton_fetchkeys
#print axioms V.C19.sync_skeleton_eventid
#print axioms V.C19.fetch_callers_independent
#print axioms V.C19.fetch_live_caller_gets_union
#print axioms V.C19.fetch_live_caller_no_deadlock
#print axioms V.C19.transport_get_spec
#print axioms V.C19.transport_reap_spec
#print axioms V.C19.transport_run_total
#print axioms V.C19.verify_store_only_fetched
#print axioms V.C19.verify_entry_after_move
#print axioms V.C19.verify_no_lost_update
#print axioms V.C19.verify_db_initial_or_world
#print axioms V.C19.verify_serializable_one_writer
#print axioms V.C19.verify_silent_of_failing_fetchers
#print axioms V.C19.verify_interleaving_is_sequential
#print axioms V.C19.verify_progress
#print axioms V.C19Client.step_extendTodo
#print axioms V.C19Client.run_extendTodo
#print axioms V.C19Client.reachable_extendTodo
#print axioms V.C19Client.todo_suffix
#print axioms V.C19Client.inject_reachable
#print axioms V.C19Client.clientReach_reachable
#print axioms V.C19Client.size_bounded_with_injections
#print axioms V.C19Client.no_dup_keys_with_injections
#print axioms V.C19Client.right_host_with_injections
#print axioms V.C19Client.clientReach_poke
-- the definition the driver replays client ops with IS the one the injection theorems are about
example : @V.Driver.ConcOps.injectOps = @V.C19Client.injectOps := rfl
#print axioms V.C19Replay.dnsReplayBoth_fst
#print axioms V.C19Replay.dnsReplayBoth_line
#print axioms V.C19Replay.dnsReplayBoth_clientReach
#print axioms V.C19Replay.dnsReplayStates_clientReach
#print axioms V.C19Replay.dnsModel_eq
#print axioms V.C19Replay.dnsModel_lines
#print axioms V.C19Replay.dnsModel_states_clientReach
#print axioms V.C19Replay.dnsModel_states_bounded
#print axioms V.C19Replay.dnsModel_allStates_bounded
