import VProps.C03
#print axioms V.C03.tables_ok
#print axioms V.C03.referenceID_ignores_unsigned
#print axioms V.C03.eventID_ignores_unsigned
#print axioms V.C03.referenceID_ignores_signatures
#print axioms V.C03.eventID_ignores_signatures
#print axioms V.C03.eventID_redact_invariant
#print axioms V.C03.eventID_redact_invariant_received
#print axioms V.C03.eventID_injective
#print axioms V.C03.hash_injective
#print axioms V.C03.eventID_alphabet
#print axioms V.C03.v12_create_roomID
#print axioms V.C03.v12_auth_first
#print axioms V.C03.reparse_same_partial
#print axioms V.C03.build_checked_partial
#print axioms V.C03.build_roundtrip
