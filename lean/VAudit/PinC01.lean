import VProps.PinC01
#print axioms V.Pin.C01.function_list
#print axioms V.Pin.C01.eventversion_RoomVersionImpl_CheckCanonicalJSON
#print axioms V.Pin.C01.json_EventJSONs_TrustedEvents
#print axioms V.Pin.C01.json_EventJSONs_UntrustedEvents
#print axioms V.Pin.C01.json__CanonicalJSON
#print axioms V.Pin.C01.json__CanonicalJSONAssumeValid
#print axioms V.Pin.C01.json__CompactJSON
#print axioms V.Pin.C01.json__EnforcedCanonicalJSON
#print axioms V.Pin.C01.json__NewEventJSONsFromEvents
#print axioms V.Pin.C01.json__SortJSON
#print axioms V.Pin.C01.json__compactUnicodeEscape
#print axioms V.Pin.C01.json__noVerifyCanonicalJSON
#print axioms V.Pin.C01.json__sortJSONArray
#print axioms V.Pin.C01.json__sortJSONObject
#print axioms V.Pin.C01.json__sortJSONValue
#print axioms V.Pin.C01.json__verifyEnforcedCanonicalJSON
#print axioms V.Pin.C01.json_type_EventJSONs
