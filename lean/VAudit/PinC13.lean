import VProps.PinC13
#print axioms V.Pin.C13.function_list
#print axioms V.Pin.C13.fclient_request_FederationRequest_Content
#print axioms V.Pin.C13.fclient_request_FederationRequest_Destination
#print axioms V.Pin.C13.fclient_request_FederationRequest_HTTPRequest
#print axioms V.Pin.C13.fclient_request_FederationRequest_Method
#print axioms V.Pin.C13.fclient_request_FederationRequest_Origin
#print axioms V.Pin.C13.fclient_request_FederationRequest_RequestURI
#print axioms V.Pin.C13.fclient_request_FederationRequest_SetContent
#print axioms V.Pin.C13.fclient_request_FederationRequest_Sign
#print axioms V.Pin.C13.fclient_request__NewFederationRequest
#print axioms V.Pin.C13.fclient_request__ParseAuthorization
#print axioms V.Pin.C13.fclient_request__VerifyHTTPRequest
#print axioms V.Pin.C13.fclient_request__isSafeInHTTPQuotedString
#print axioms V.Pin.C13.fclient_request__readHTTPRequest
