import VProps.C06
import VProps.C06Ring
import VProps.C12
#print axioms V.C06.columns_eq_spec
#print axioms V.C06.required_eq_spec
#print axioms V.C06.verify_iff
#print axioms V.C06.verify_iff_spec
#print axioms V.C06.undeterminable_rejects
#print axioms V.C06.others_irrelevant
#print axioms V.C06.one_bad_fails
#print axioms V.C06.bad_sender_rejects
#print axioms V.C06.no_panic
#print axioms V.C06.pseudo_sender_required
#print axioms V.C06.pseudo_mapping_signers_valid
#print axioms V.C06Ring.verify_with_keyring_sound
#print axioms V.C06Ring.verify_with_keyring_one_bad
#print axioms V.C06Ring.verify_with_keyring_complete
#print axioms V.C12.consts_match_model
#print axioms V.C12.wasValidAt_source
#print axioms V.C12.strictValidity_source
#print axioms V.C12.noStrictValidity_source
#print axioms V.C12.timestamp_source
#print axioms V.C12.asTimestamp_source
#print axioms V.C12.verifyJSONs_source
#print axioms V.C12.publicKeyRequests_source
#print axioms V.C12.checkUsingKeys_source
#print axioms V.C12.isAlgorithmSupported_source
#print axioms V.C12.verifyJSON_length_guard
#print axioms V.C12.results_shape
#print axioms V.C12.results_index
#print axioms V.C12.success_sound
#print axioms V.C12.success_sound_spec
#print axioms V.C12.wasValidAt_spec
#print axioms V.C12.success_complete
#print axioms V.C12.fetch_minimal
#print axioms V.C12.stores_fetched
#print axioms V.C12.stale_db_key_replaced
