import VProps.C06
#print axioms V.C06.columns_eq_spec
#print axioms V.C06.required_eq_spec
#print axioms V.C06.verify_iff
#print axioms V.C06.verify_iff_spec
#print axioms V.C06.undeterminable_rejects
#print axioms V.C06.others_irrelevant
#print axioms V.C06.one_bad_fails
#print axioms V.C06.bad_sender_rejects
#print axioms V.C06.no_panic
#print axioms V.C06.pseudo_sender_required
#print axioms V.C06.pseudo_mapping_signers_valid
