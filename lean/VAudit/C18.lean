import VProps.TransJson
import VProps.C18
import VProps.C02
import VProps.C06
import VProps.C07
import VProps.C14
import VProps.C17
#print axioms V.C18.version_table_total
#print axioms V.C18.version_table_keys
#print axioms V.C18.compact_no_panic
#print axioms V.C18.canonical_no_panic
#print axioms V.C18.no_panic_accessors
#print axioms V.C18.no_panic_sign
#print axioms V.C18.no_panic_accessors_trusted
#print axioms V.C18.trusted_roomID_ok
#print axioms V.C18.sign_undecodable_ok
#print axioms V.C18.roomID_variant_refused
#print axioms V.C18.resolve_refines
#print axioms V.C18.resolve_refines_deprecated
#print axioms V.C18.no_panic_resolve
#print axioms V.C18.no_panic_resolve_deprecated
#print axioms V.C18.no_panic_orderings
#print axioms V.C18.resolve_cycle_resolves
#print axioms V.C02.sign_never_panics
#print axioms V.C06.no_panic
#print axioms V.C07.no_panic_allowed
#print axioms V.C14.collect_no_panic
#print axioms V.C17.splitID_no_panic
#print axioms V.C18.no_panic_sender_lookup
#print axioms V.C18.sender_lookup_std
#print axioms V.C18.sender_lookup_nil_refused
#print axioms V.C18.no_panic_allowed_nil_querier
#print axioms V.C18.nil_querier_witnesses
#print axioms V.C18.no_panic_event_references
#print axioms V.C18.no_panic_event_references_ids
#print axioms V.C18.event_references_witnesses
#print axioms V.Trans.Json.isNegativeZeroLiteral_eq_model
#print axioms V.Trans.Json.readHexDigits_total
