import VProps.C18
#print axioms V.C18.version_table_total
#print axioms V.C18.version_table_keys
#print axioms V.C18.compact_no_panic
#print axioms V.C18.canonical_no_panic
