import VProps.PinC06
#print axioms V.Pin.C06.function_list
#print axioms V.Pin.C06.eventcrypto__VerifyAllEventSignatures
#print axioms V.Pin.C06.eventcrypto__VerifyEventSignatures
#print axioms V.Pin.C06.eventcrypto__addContentHashesToEvent
#print axioms V.Pin.C06.eventcrypto__checkEventContentHash
#print axioms V.Pin.C06.eventcrypto__emptyAuthorisedViaServerName
#print axioms V.Pin.C06.eventcrypto__extractAuthorisedViaServerName
#print axioms V.Pin.C06.eventcrypto__getMXIDMapping
#print axioms V.Pin.C06.eventcrypto__referenceOfEvent
#print axioms V.Pin.C06.eventcrypto__referenceOfEventForVersion
#print axioms V.Pin.C06.eventcrypto__signEvent
#print axioms V.Pin.C06.eventcrypto__validateMXIDMappingSignatures
