import VProps.C15
import VProps.C15Compose
import VDriver.Handshake
#print axioms V.C15.sendJoin_ok_implies_guards
#print axioms V.C15.sendJoin_signs_unmodified
#print axioms V.C15.sendJoin_decision_table
#print axioms V.C15.makeJoin_ok_implies_guards
#print axioms V.C15.makeJoin_ok_implies_spec
#print axioms V.C15.pickAuthoriser_some
#print axioms V.C15.rulesLoop_some
#print axioms V.C15.restrictedStage_err_class
#print axioms V.C15.makeJoin_decision_table
#print axioms V.C15.makeLeave_ok_implies_guards
#print axioms V.C15.makeLeave_decision_table
#print axioms V.C15.invite_ok_implies_guards
#print axioms V.C15.invite_signs_unmodified
#print axioms V.C15.invite_decision_table
#print axioms V.C15.inviteCommonChecks_table
#print axioms V.C15.performJoin_ok_implies
#print axioms V.C15.inviteV3_ok_implies
#print axioms V.C15.inviteV3_decision_table
#print axioms V.C15.performInvite_ok_implies_guards
#print axioms V.C15.performInvite_decision_table
#print axioms V.C15.performInvite_no_panic
#print axioms V.C15.piPrepare_table
#print axioms V.C15.sendJoinPseudo_ok_implies_guards
#print axioms V.C15.sendJoinPseudo_decision_table
#print axioms V.C15.joinEventUsed_ok
#print axioms V.C15.performJoinPseudo_stores_vouched
#print axioms V.C15.performJoinPseudo_trace_shape
#print axioms V.C15.performJoinPseudo_ok_implies
#print axioms V.C15.makeJoin_template_allowed
#print axioms V.C15.makeLeave_template_allowed
#print axioms V.C15.makeJoin_cross_room_refused
#print axioms V.C15.makeLeave_cross_room_refused
#print axioms V.C15.allowed_state_one_room
#print axioms V.C15.templateEvent_shape
#print axioms V.C15.makeJoin_proto_template_allowed
#print axioms V.C15.makeLeave_proto_template_allowed
#print axioms V.C15.makeJoin_proto_cross_room_refused
#print axioms V.C15.sender_server_required
#print axioms V.C15.sendJoin_origin_signature_valid
#print axioms V.C15.invite_sender_signature_valid
#print axioms V.C15.join_required_cases
#print axioms V.C15.invite_required_cases
#print axioms V.C15.sendJoin_required_signers_covered
#print axioms V.C15.sendJoin_passes_verifyEventSignatures
#print axioms V.C15.invite_required_signers_covered
-- the template event the driver's make_join / make_leave ops are answered with IS the one of the composition theorems
example : @V.Driver.HandshakeOps.templateEvent = @V.C15.templateEvent := rfl
