import VProps.PinC16
#print axioms V.Pin.C16.function_list
#print axioms V.Pin.C16.fclient_resolve__ResolveServer
#print axioms V.Pin.C16.fclient_resolve__handleNoWellKnown
#print axioms V.Pin.C16.fclient_resolve__lookupSRV
#print axioms V.Pin.C16.fclient_resolve__resolveServer
#print axioms V.Pin.C16.fclient_well_known__LookupWellKnown
