/-
  VProofs.ConcDns — helper lemmas for the DNS-cache interleaving model (C19): association-list facts,
  inversion of `step` into the relation `StepRel`, and the reachable-state invariant.
-/
import VModel.ConcDns
namespace V.Conc.Dns
open V.Conc

/-! ### association lists -/

theorem mem_erase {n : Name} {l : EMap} {p : Name × Entry} : p ∈ erase n l ↔ p ∈ l ∧ p.1 ≠ n := by
  simp [erase, List.mem_filter]

theorem erase_length_le (n : Name) (l : EMap) : (erase n l).length ≤ l.length :=
  List.length_filter_le _ _

theorem put_length_le (n : Name) (e : Entry) (l : EMap) : (put n e l).length ≤ l.length + 1 := by
  simp only [put, List.length_append, List.length_cons, List.length_nil]
  have := erase_length_le n l
  omega

theorem mem_put {n : Name} {e : Entry} {l : EMap} {p : Name × Entry} :
    p ∈ put n e l ↔ (p ∈ l ∧ p.1 ≠ n) ∨ p = (n, e) := by
  simp [put, mem_erase]

theorem keys_erase (n : Name) (l : EMap) : (erase n l).map (·.1) = (l.map (·.1)).filter (· != n) := by
  induction l with
  | nil => rfl
  | cons x xs ih =>
    simp only [erase, List.filter_cons, List.map_cons] at *
    by_cases h : (x.1 != n) = true <;> simp [h, ih]

theorem nodup_keys_erase {n : Name} {l : EMap} (h : (l.map (·.1)).Nodup) : ((erase n l).map (·.1)).Nodup := by
  rw [keys_erase]
  exact h.sublist List.filter_sublist

theorem nodup_keys_put {n : Name} {e : Entry} {l : EMap} (h : (l.map (·.1)).Nodup) : ((put n e l).map (·.1)).Nodup := by
  simp only [put, List.map_append, List.map_cons, List.map_nil]
  rw [List.nodup_append]
  refine ⟨nodup_keys_erase h, by simp, ?_⟩
  intro a ha b hb
  simp only [List.mem_cons, List.not_mem_nil, or_false] at hb
  subst hb
  rw [keys_erase] at ha
  simp [List.mem_filter] at ha
  exact ha.2

theorem get?_mem {n : Name} {l : EMap} {e : Entry} (h : get? n l = some e) : (n, e) ∈ l := by
  unfold get? at h
  cases hf : l.find? (fun p => p.1 == n) with
  | none => simp [hf] at h
  | some p =>
    simp [hf] at h
    have h1 := List.mem_of_find?_eq_some hf
    have h2 := List.find?_some hf
    simp at h2
    obtain ⟨a, b⟩ := p
    simp at h h2
    subst h h2
    exact h1

/-! ### inversion of `step` -/

inductive StepRel (c : Cfg) (s : State) (m : Move) : State → Prop where
  | hit (th : Thread) (n : Name) (sel : Nat) (rest : List Op) (e : Entry) :
      s.threads[m.tid]? = some th → th.pc = .idle → th.todo = .lookup n sel :: rest → s.mutex = none →
      get? n s.entries = some e → m.t < e.expires →
      StepRel c s m { s with now := m.t, threads := s.threads.set m.tid ⟨.idle, rest, .hit n e :: th.rets⟩ }
  | stale (th : Thread) (n : Name) (sel : Nat) (rest : List Op) (e : Entry) :
      s.threads[m.tid]? = some th → th.pc = .idle → th.todo = .lookup n sel :: rest → s.mutex = none →
      get? n s.entries = some e → ¬ m.t < e.expires →
      StepRel c s m { s with now := m.t, entries := erase n s.entries,
                             threads := s.threads.set m.tid ⟨.resolve n sel, rest, th.rets⟩ }
  | absent (th : Thread) (n : Name) (sel : Nat) (rest : List Op) :
      s.threads[m.tid]? = some th → th.pc = .idle → th.todo = .lookup n sel :: rest → s.mutex = none →
      get? n s.entries = none →
      StepRel c s m { s with now := m.t, threads := s.threads.set m.tid ⟨.resolve n sel, rest, th.rets⟩ }
  | del (th : Thread) (n : Name) (rest : List Op) :
      s.threads[m.tid]? = some th → th.pc = .idle → th.todo = .del n :: rest → s.mutex = none →
      StepRel c s m { s with now := m.t, entries := erase n s.entries,
                             threads := s.threads.set m.tid ⟨.idle, rest, .deleted n :: th.rets⟩ }
  | resolveFail (th : Thread) (n : Name) (sel : Nat) :
      s.threads[m.tid]? = some th → th.pc = .resolve n sel → c.resolver n sel = none →
      StepRel c s m { s with now := m.t, threads := s.threads.set m.tid ⟨.idle, th.todo, .fail n :: th.rets⟩ }
  | resolveNoCache (th : Thread) (n : Name) (sel : Nat) (a : Addrs) :
      s.threads[m.tid]? = some th → th.pc = .resolve n sel → c.resolver n sel = some a → c.size ≤ 0 →
      StepRel c s m { s with now := m.t, threads := s.threads.set m.tid ⟨.idle, th.todo, .miss n ⟨a, m.t + c.dur⟩ :: th.rets⟩ }
  | resolveOk (th : Thread) (n : Name) (sel : Nat) (a : Addrs) :
      s.threads[m.tid]? = some th → th.pc = .resolve n sel → c.resolver n sel = some a → 0 < c.size →
      StepRel c s m { s with now := m.t, threads := s.threads.set m.tid ⟨.store n a, th.todo, th.rets⟩ }
  | lock (th : Thread) (n : Name) (a : Addrs) :
      s.threads[m.tid]? = some th → th.pc = .store n a → s.mutex = none →
      StepRel c s m { s with now := m.t, mutex := some m.tid, threads := s.threads.set m.tid ⟨.evict n a, th.todo, th.rets⟩ }
  | evictOne (th : Thread) (n : Name) (a : Addrs) :
      s.threads[m.tid]? = some th → th.pc = .evict n a → s.mutex = some m.tid → (s.entries.length : Int) ≥ c.size →
      StepRel c s m { s with now := m.t, entries := erase (scan (iterOrder s.entries m.k) (m.t + c.dur)).1 s.entries }
  | insert (th : Thread) (n : Name) (a : Addrs) :
      s.threads[m.tid]? = some th → th.pc = .evict n a → s.mutex = some m.tid → ¬ (s.entries.length : Int) ≥ c.size →
      StepRel c s m { s with now := m.t, entries := put n ⟨a, m.t + c.dur⟩ s.entries, mutex := none,
                             threads := s.threads.set m.tid ⟨.idle, th.todo, .miss n ⟨a, m.t + c.dur⟩ :: th.rets⟩ }

theorem step_now {c : Cfg} {s s' : State} {m : Move} (h : step c s m = some s') : s.now ≤ m.t := by
  unfold step at h
  split at h
  · simp at h
  · omega

theorem step_rel {c : Cfg} {s s' : State} {m : Move} (h : step c s m = some s') : StepRel c s m s' := by
  unfold step at h
  split at h
  · simp at h
  · split at h
    · simp at h
    · rename_i th hth
      split at h
      · -- idle
        rename_i hpc
        split at h
        · simp at h
        · rename_i n sel rest htodo
          split at h
          · simp at h
          · rename_i hmx
            have hmx' : s.mutex = none := by cases hm : s.mutex <;> simp_all
            split at h
            · rename_i e hget
              split at h
              · rename_i hlt
                injection h with h; subst h
                exact .hit th n sel rest e hth hpc htodo hmx' hget hlt
              · rename_i hlt
                injection h with h; subst h
                exact .stale th n sel rest e hth hpc htodo hmx' hget hlt
            · rename_i hget
              injection h with h; subst h
              exact .absent th n sel rest hth hpc htodo hmx' hget
        · rename_i n rest htodo
          split at h
          · simp at h
          · rename_i hmx
            have hmx' : s.mutex = none := by cases hm : s.mutex <;> simp_all
            injection h with h; subst h
            exact .del th n rest hth hpc htodo hmx'
      · rename_i n sel hpc
        split at h
        · rename_i hr
          injection h with h; subst h
          exact .resolveFail th n sel hth hpc hr
        · rename_i a hr
          split at h
          · rename_i hsz
            injection h with h; subst h
            exact .resolveNoCache th n sel a hth hpc hr hsz
          · rename_i hsz
            injection h with h; subst h
            exact .resolveOk th n sel a hth hpc hr (by omega)
      · rename_i n a hpc
        split at h
        · simp at h
        · rename_i hmx
          have hmx' : s.mutex = none := by cases hm : s.mutex <;> simp_all
          injection h with h; subst h
          exact .lock th n a hth hpc hmx'
      · rename_i n a hpc
        split at h
        · simp at h
        · rename_i hmx
          have hmx' : s.mutex = some m.tid := by simpa using hmx
          split at h
          · rename_i hlen
            injection h with h; subst h
            exact .evictOne th n a hth hpc hmx' hlen
          · rename_i hlen
            injection h with h; subst h
            exact .insert th n a hth hpc hmx' hlen

/-! ### thread-list updates -/

theorem get_set {α} {l : List α} {i j : Nat} {x y : α} (h : l[i]? = some x) :
    (l.set i y)[j]? = if j = i then some y else l[j]? := by
  have hi : i < l.length := by
    rcases Nat.lt_or_ge i l.length with h' | h'
    · exact h'
    · rw [List.getElem?_eq_none h'] at h; cases h
  rw [List.getElem?_set]
  by_cases hij : i = j
  · subst hij; simp [hi]
  · have : ¬ j = i := fun h => hij h.symm
    simp [hij, this]

theorem mem_set_of {α} {l : List α} {i : Nat} {y z : α} (h : z ∈ l.set i y) : z ∈ l ∨ z = y :=
  List.mem_or_eq_of_mem_set h

/-! ### invariants that need no hypothesis -/

def atEvict (th : Thread) : Prop := ∃ n a, th.pc = .evict n a
def atStore (th : Thread) : Prop := (∃ n a, th.pc = .store n a) ∨ (∃ n a, th.pc = .evict n a)

structure InvA (c : Cfg) (s : State) : Prop where
  nodup : (s.entries.map (·.1)).Nodup
  owner : ∀ i, s.mutex = some i ↔ ∃ th, s.threads[i]? = some th ∧ atEvict th
  expiry : ∀ p ∈ s.entries, p.2.expires ≤ s.now + c.dur

theorem invA_init (c : Cfg) (todos : List (List Op)) (t0 : Int) : InvA c (init todos t0) := by
  refine ⟨by simp [init], ?_, by simp [init]⟩
  intro i
  simp only [init, List.getElem?_map]
  constructor
  · intro h; cases h
  · rintro ⟨th, hth, n, a, hpc⟩
    cases hg : todos[i]? with
    | none => simp [hg] at hth
    | some ops => simp [hg] at hth; subst hth; simp at hpc

/-- a step by a thread that is not at `evict` before or after, with the mutex untouched, keeps the owner invariant -/
theorem owner_keep {s : State} {tid : Nat} {th th' : Thread} {mx : Option Nat}
    (hown : ∀ i, s.mutex = some i ↔ ∃ th, s.threads[i]? = some th ∧ atEvict th)
    (hth : s.threads[tid]? = some th) (hmx : mx = s.mutex) (h1 : ¬ atEvict th) (h2 : ¬ atEvict th') :
    ∀ i, mx = some i ↔ ∃ t, (s.threads.set tid th')[i]? = some t ∧ atEvict t := by
  intro i
  subst hmx
  rw [hown i]
  simp only [get_set hth]
  by_cases hi : i = tid
  · subst hi
    simp only [if_true]
    constructor
    · rintro ⟨t, ht, he⟩; rw [hth] at ht; cases ht; exact absurd he h1
    · rintro ⟨t, ht, he⟩; cases ht; exact absurd he h2
  · simp [hi]

theorem invA_step {c : Cfg} {s s' : State} {m : Move} (hi : InvA c s) (h : step c s m = some s') : InvA c s' := by
  have hnow := step_now h
  have hexp_keep : ∀ p ∈ s.entries, p.2.expires ≤ m.t + c.dur := fun p hp => by have := hi.expiry p hp; omega
  have hexp_erase : ∀ n, ∀ p ∈ erase n s.entries, p.2.expires ≤ m.t + c.dur := fun n p hp => hexp_keep p (mem_erase.1 hp).1
  cases step_rel h with
  | hit th n sel rest e hth hpc htodo hmx hget hlt =>
    exact ⟨hi.nodup, owner_keep hi.owner hth rfl (by simp [atEvict, hpc]) (by simp [atEvict]), hexp_keep⟩
  | stale th n sel rest e hth hpc htodo hmx hget hlt =>
    exact ⟨nodup_keys_erase hi.nodup, owner_keep hi.owner hth rfl (by simp [atEvict, hpc]) (by simp [atEvict]), hexp_erase n⟩
  | absent th n sel rest hth hpc htodo hmx hget =>
    exact ⟨hi.nodup, owner_keep hi.owner hth rfl (by simp [atEvict, hpc]) (by simp [atEvict]), hexp_keep⟩
  | del th n rest hth hpc htodo hmx =>
    exact ⟨nodup_keys_erase hi.nodup, owner_keep hi.owner hth rfl (by simp [atEvict, hpc]) (by simp [atEvict]), hexp_erase n⟩
  | resolveFail th n sel hth hpc hr =>
    exact ⟨hi.nodup, owner_keep hi.owner hth rfl (by simp [atEvict, hpc]) (by simp [atEvict]), hexp_keep⟩
  | resolveNoCache th n sel a hth hpc hr =>
    exact ⟨hi.nodup, owner_keep hi.owner hth rfl (by simp [atEvict, hpc]) (by simp [atEvict]), hexp_keep⟩
  | resolveOk th n sel a hth hpc hr =>
    exact ⟨hi.nodup, owner_keep hi.owner hth rfl (by simp [atEvict, hpc]) (by simp [atEvict]), hexp_keep⟩
  | lock th n a hth hpc hmx =>
    refine ⟨hi.nodup, ?_, hexp_keep⟩
    intro i
    simp only [get_set hth]
    by_cases hi' : i = m.tid
    · subst hi'; simp [atEvict]
    · simp only [hi', if_false]
      constructor
      · intro h; cases h; exact absurd rfl hi'
      · intro h
        have := (hi.owner i).2 h
        rw [hmx] at this; cases this
  | evictOne th n a hth hpc hmx hlen =>
    exact ⟨nodup_keys_erase hi.nodup, hi.owner, hexp_erase _⟩
  | insert th n a hth hpc hmx hlen =>
    refine ⟨nodup_keys_put hi.nodup, ?_, ?_⟩
    · intro i
      simp only [get_set hth]
      by_cases hi' : i = m.tid
      · subst hi'; simp [atEvict]
      · simp only [hi', if_false]
        constructor
        · intro h; cases h
        · intro h
          have := (hi.owner i).2 h
          rw [hmx] at this; cases this; exact absurd rfl hi'
    · intro p hp
      rcases mem_put.1 hp with ⟨hp, _⟩ | rfl
      · exact hexp_keep p hp
      · simp

theorem invA_reachable {c : Cfg} {todos : List (List Op)} {t0 : Int} {s : State}
    (h : Reachable c todos t0 s) : InvA c s := by
  induction h with
  | init => exact invA_init c todos t0
  | step m _ hs ih => exact invA_step ih hs

/-! ### a cache without capacity is never touched: the locked store path is only entered with `0 < size` -/

structure InvC (c : Cfg) (s : State) : Prop where
  thr : ∀ th ∈ s.threads, atStore th → 0 < c.size
  ent : s.entries ≠ [] → 0 < c.size

theorem invC_init (c : Cfg) (todos : List (List Op)) (t0 : Int) : InvC c (init todos t0) := by
  refine ⟨?_, by simp [init]⟩
  intro th hth hat
  simp only [init, List.mem_map] at hth
  obtain ⟨ops, _, rfl⟩ := hth
  rcases hat with ⟨_, _, h⟩ | ⟨_, _, h⟩ <;> cases h

theorem erase_ne_nil {n : Name} {l : EMap} (h : erase n l ≠ []) : l ≠ [] := by
  intro hl; subst hl; exact h rfl

theorem invC_step {c : Cfg} {s s' : State} {m : Move} (hi : InvC c s) (h : step c s m = some s') : InvC c s' := by
  have upd : ∀ (th' : Thread), (atStore th' → 0 < c.size) → ∀ t ∈ s.threads.set m.tid th', atStore t → 0 < c.size := by
    intro th' h1 t ht
    rcases mem_set_of ht with ht | rfl
    · exact hi.thr t ht
    · exact h1
  have notAt : ∀ (td : List Op) (rs : List Ret), ¬ atStore ⟨.idle, td, rs⟩ := by
    intro td rs h; rcases h with ⟨_, _, h⟩ | ⟨_, _, h⟩ <;> cases h
  have notAtR : ∀ n sel (td : List Op) (rs : List Ret), ¬ atStore ⟨.resolve n sel, td, rs⟩ := by
    intro n sel td rs h; rcases h with ⟨_, _, h⟩ | ⟨_, _, h⟩ <;> cases h
  cases step_rel h with
  | hit th n sel rest e hth => exact ⟨upd _ (fun h => absurd h (notAt _ _)), hi.ent⟩
  | stale th n sel rest e hth => exact ⟨upd _ (fun h => absurd h (notAtR _ _ _ _)), fun h => hi.ent (erase_ne_nil h)⟩
  | absent th n sel rest hth => exact ⟨upd _ (fun h => absurd h (notAtR _ _ _ _)), hi.ent⟩
  | del th n rest hth => exact ⟨upd _ (fun h => absurd h (notAt _ _)), fun h => hi.ent (erase_ne_nil h)⟩
  | resolveFail th n sel hth => exact ⟨upd _ (fun h => absurd h (notAt _ _)), hi.ent⟩
  | resolveNoCache th n sel a hth => exact ⟨upd _ (fun h => absurd h (notAt _ _)), hi.ent⟩
  | resolveOk th n sel a hth hpc hr hsz => exact ⟨upd _ (fun _ => hsz), hi.ent⟩
  | lock th n a hth hpc hmx =>
    exact ⟨upd _ (fun _ => hi.thr th (List.mem_of_getElem? hth) (Or.inl ⟨n, a, hpc⟩)), hi.ent⟩
  | evictOne th n a hth hpc hmx hlen => exact ⟨hi.thr, fun h => hi.ent (erase_ne_nil h)⟩
  | insert th n a hth hpc hmx hlen =>
    have := hi.thr th (List.mem_of_getElem? hth) (Or.inr ⟨n, a, hpc⟩)
    exact ⟨upd _ (fun _ => this), fun _ => this⟩

theorem invC_reachable {c : Cfg} {todos : List (List Op)} {t0 : Int} {s : State}
    (h : Reachable c todos t0 s) : InvC c s := by
  induction h with
  | init => exact invC_init c todos t0
  | step m _ hs ih => exact invC_step ih hs

/-! ### the size bound -/

theorem size_step {c : Cfg} {s s' : State} {m : Move} (hs : (s.entries.length : Int) ≤ c.size)
    (h : step c s m = some s') : (s'.entries.length : Int) ≤ c.size := by
  have herase : ∀ n, ((erase n s.entries).length : Int) ≤ c.size := fun n => by
    have := erase_length_le n s.entries; omega
  cases step_rel h with
  | hit => exact hs
  | stale => exact herase _
  | absent => exact hs
  | del => exact herase _
  | resolveFail => exact hs
  | resolveNoCache => exact hs
  | resolveOk => exact hs
  | lock => exact hs
  | evictOne => exact herase _
  | insert th n a hth hpc hmx hlen =>
    have := put_length_le n ⟨a, m.t + c.dur⟩ s.entries
    show ((put n ⟨a, m.t + c.dur⟩ s.entries).length : Int) ≤ c.size
    omega

/-! ### right host -/

structure InvH (ans : Name → Addrs) (s : State) : Prop where
  host : ∀ p ∈ s.entries, p.2.addrs = ans p.1
  pcs : ∀ th ∈ s.threads, (∀ n a, th.pc = .store n a → a = ans n) ∧ (∀ n a, th.pc = .evict n a → a = ans n)
  rets : ∀ th ∈ s.threads, ∀ r ∈ th.rets, ∀ n e, (r = .hit n e ∨ r = .miss n e) → e.addrs = ans n

theorem invH_init (ans : Name → Addrs) (todos : List (List Op)) (t0 : Int) : InvH ans (init todos t0) := by
  refine ⟨by simp [init], ?_, ?_⟩
  · intro th hth
    simp only [init, List.mem_map] at hth
    obtain ⟨ops, _, rfl⟩ := hth
    simp
  · intro th hth
    simp only [init, List.mem_map] at hth
    obtain ⟨ops, _, rfl⟩ := hth
    simp

theorem mem_of_get {α} {l : List α} {i : Nat} {x : α} (h : l[i]? = some x) : x ∈ l :=
  List.mem_of_getElem? h

theorem invH_step {c : Cfg} {ans : Name → Addrs} (hres : ∀ n k a, c.resolver n k = some a → a = ans n)
    {s s' : State} {m : Move} (hi : InvH ans s) (h : step c s m = some s') : InvH ans s' := by
  have hhost_erase : ∀ n, ∀ p ∈ erase n s.entries, p.2.addrs = ans p.1 := fun n p hp => hi.host p (mem_erase.1 hp).1
  -- updating thread `tid` by a thread satisfying the thread-local parts keeps them
  have upd : ∀ (th' : Thread),
      ((∀ n a, th'.pc = .store n a → a = ans n) ∧ (∀ n a, th'.pc = .evict n a → a = ans n)) →
      (∀ r ∈ th'.rets, ∀ n e, (r = .hit n e ∨ r = .miss n e) → e.addrs = ans n) →
      (∀ t ∈ s.threads.set m.tid th', (∀ n a, t.pc = .store n a → a = ans n) ∧ (∀ n a, t.pc = .evict n a → a = ans n)) ∧
      (∀ t ∈ s.threads.set m.tid th', ∀ r ∈ t.rets, ∀ n e, (r = .hit n e ∨ r = .miss n e) → e.addrs = ans n) := by
    intro th' h1 h2
    constructor
    · intro t ht
      rcases mem_set_of ht with ht | rfl
      · exact hi.pcs t ht
      · exact h1
    · intro t ht
      rcases mem_set_of ht with ht | rfl
      · exact hi.rets t ht
      · exact h2
  cases step_rel h with
  | hit th n sel rest e hth hpc htodo hmx hget hlt =>
    have hm := mem_of_get hth
    obtain ⟨u1, u2⟩ := upd ⟨.idle, rest, .hit n e :: th.rets⟩ (by simp) (by
      intro r hr n' e' hre
      rcases List.mem_cons.1 hr with rfl | hr
      · rcases hre with hre | hre
        · injection hre with h1 h2; subst h1 h2
          exact hi.host _ (get?_mem hget)
        · cases hre
      · exact hi.rets th hm r hr n' e' hre)
    exact ⟨hi.host, u1, u2⟩
  | stale th n sel rest e hth hpc htodo hmx hget hlt =>
    have hm := mem_of_get hth
    obtain ⟨u1, u2⟩ := upd ⟨.resolve n sel, rest, th.rets⟩ (by simp) (hi.rets th hm)
    exact ⟨hhost_erase n, u1, u2⟩
  | absent th n sel rest hth hpc htodo hmx hget =>
    have hm := mem_of_get hth
    obtain ⟨u1, u2⟩ := upd ⟨.resolve n sel, rest, th.rets⟩ (by simp) (hi.rets th hm)
    exact ⟨hi.host, u1, u2⟩
  | del th n rest hth hpc htodo hmx =>
    have hm := mem_of_get hth
    obtain ⟨u1, u2⟩ := upd ⟨.idle, rest, .deleted n :: th.rets⟩ (by simp) (by
      intro r hr n' e' hre
      rcases List.mem_cons.1 hr with rfl | hr
      · rcases hre with hre | hre <;> cases hre
      · exact hi.rets th hm r hr n' e' hre)
    exact ⟨hhost_erase n, u1, u2⟩
  | resolveFail th n sel hth hpc hr =>
    have hm := mem_of_get hth
    obtain ⟨u1, u2⟩ := upd ⟨.idle, th.todo, .fail n :: th.rets⟩ (by simp) (by
      intro r hr n' e' hre
      rcases List.mem_cons.1 hr with rfl | hr
      · rcases hre with hre | hre <;> cases hre
      · exact hi.rets th hm r hr n' e' hre)
    exact ⟨hi.host, u1, u2⟩
  | resolveNoCache th n sel a hth hpc hr =>
    have hm := mem_of_get hth
    have ha := hres n sel a hr
    obtain ⟨u1, u2⟩ := upd ⟨.idle, th.todo, .miss n ⟨a, m.t + c.dur⟩ :: th.rets⟩ (by simp) (by
      intro r hr n' e' hre
      rcases List.mem_cons.1 hr with rfl | hr
      · rcases hre with hre | hre
        · cases hre
        · injection hre with h1 h2; subst h1 h2; exact ha
      · exact hi.rets th hm r hr n' e' hre)
    exact ⟨hi.host, u1, u2⟩
  | resolveOk th n sel a hth hpc hr =>
    have hm := mem_of_get hth
    have ha := hres n sel a hr
    obtain ⟨u1, u2⟩ := upd ⟨.store n a, th.todo, th.rets⟩ (by
      constructor
      · intro n' a' h'; injection h' with h1 h2; subst h1 h2; exact ha
      · intro n' a' h'; cases h') (hi.rets th hm)
    exact ⟨hi.host, u1, u2⟩
  | lock th n a hth hpc hmx =>
    have hm := mem_of_get hth
    have ha := (hi.pcs th hm).1 n a hpc
    obtain ⟨u1, u2⟩ := upd ⟨.evict n a, th.todo, th.rets⟩ (by
      constructor
      · intro n' a' h'; cases h'
      · intro n' a' h'; injection h' with h1 h2; subst h1 h2; exact ha) (hi.rets th hm)
    exact ⟨hi.host, u1, u2⟩
  | evictOne th n a hth hpc hmx hlen =>
    exact ⟨hhost_erase _, hi.pcs, hi.rets⟩
  | insert th n a hth hpc hmx hlen =>
    have hm := mem_of_get hth
    have ha := (hi.pcs th hm).2 n a hpc
    obtain ⟨u1, u2⟩ := upd ⟨.idle, th.todo, .miss n ⟨a, m.t + c.dur⟩ :: th.rets⟩ (by simp) (by
      intro r hr n' e' hre
      rcases List.mem_cons.1 hr with rfl | hr
      · rcases hre with hre | hre
        · cases hre
        · injection hre with h1 h2; subst h1 h2; exact ha
      · exact hi.rets th hm r hr n' e' hre)
    refine ⟨?_, u1, u2⟩
    intro p hp
    rcases mem_put.1 hp with ⟨hp, _⟩ | rfl
    · exact hi.host p hp
    · exact ha

theorem invH_reachable {c : Cfg} {ans : Name → Addrs} (hres : ∀ n k a, c.resolver n k = some a → a = ans n)
    {todos : List (List Op)} {t0 : Int} {s : State} (h : Reachable c todos t0 s) : InvH ans s := by
  induction h with
  | init => exact invH_init ans todos t0
  | step m _ hs ih => exact invH_step hres ih hs

/-! ### the eviction scan -/

theorem mem_iterOrder {l : EMap} {k : Nat} {p : Name × Entry} : p ∈ iterOrder l k ↔ p ∈ l := by
  unfold iterOrder List.rotateLeft
  by_cases h : l.length ≤ 1
  · simp [h]
  · simp only [h, if_false, List.mem_append]
    rw [or_comm, ← List.mem_append, List.take_append_drop]

theorem scan_aux (l : EMap) (acc : Name × Int) :
    let r := l.foldl (fun acc p => if p.2.expires < acc.2 then (p.1, p.2.expires) else acc) acc
    (r = acc ∨ ∃ q ∈ l, q.1 = r.1) ∧ r.2 ≤ acc.2 ∧ (∀ q ∈ l, r.2 ≤ q.2.expires) := by
  induction l generalizing acc with
  | nil => simp
  | cons x xs ih =>
    simp only [List.foldl_cons]
    by_cases hx : x.2.expires < acc.2
    · simp only [hx, if_true]
      obtain ⟨h1, h2, h3⟩ := ih (x.1, x.2.expires)
      refine ⟨?_, ?_, ?_⟩
      · right
        rcases h1 with h1 | ⟨q, hq, hq'⟩
        · exact ⟨x, by simp, by rw [h1]⟩
        · exact ⟨q, by simp [hq], hq'⟩
      · simp only at h2; omega
      · intro q hq
        rcases List.mem_cons.1 hq with rfl | hq
        · exact h2
        · exact h3 q hq
    · simp only [hx, if_false]
      obtain ⟨h1, h2, h3⟩ := ih acc
      refine ⟨?_, h2, ?_⟩
      · rcases h1 with h1 | ⟨q, hq, hq'⟩
        · exact Or.inl h1
        · exact Or.inr ⟨q, by simp [hq], hq'⟩
      · intro q hq
        rcases List.mem_cons.1 hq with rfl | hq
        · omega
        · exact h3 q hq

/-- if some entry expires before `ts`, the scan names an entry of the map -/
theorem scan_picks {l : EMap} {ts : Int} (h : ∃ p ∈ l, p.2.expires < ts) : ∃ q ∈ l, q.1 = (scan l ts).1 := by
  obtain ⟨p, hp, hlt⟩ := h
  obtain ⟨h1, _, h3⟩ := scan_aux l ("", ts)
  rcases h1 with h1 | h1
  · have := h3 p hp
    unfold scan
    rw [h1] at this
    simp only at this
    omega
  · exact h1

/-- if no entry expires before `ts`, the scan names nothing: `name` stays "" -/
theorem scan_none {l : EMap} {ts : Int} (h : ∀ p ∈ l, ¬ p.2.expires < ts) : scan l ts = ("", ts) := by
  unfold scan
  induction l with
  | nil => rfl
  | cons x xs ih =>
    simp only [List.foldl_cons]
    have hx := h x (by simp)
    simp only [hx, if_false]
    exact ih (fun p hp => h p (by simp [hp]))

theorem erase_absent {n : Name} {l : EMap} (h : ∀ p ∈ l, p.1 ≠ n) : erase n l = l := by
  unfold erase
  rw [List.filter_eq_self]
  intro a ha
  simpa using h a ha

/-- one eviction iteration removes at least one entry when every entry is older than the clock value read -/
theorem evict_progress {l : EMap} {ts : Int} {k : Nat} (hne : l ≠ []) (hold : ∀ p ∈ l, p.2.expires < ts) :
    (erase (scan (iterOrder l k) ts).1 l).length < l.length := by
  have : ∃ p ∈ iterOrder l k, p.2.expires < ts := by
    cases l with
    | nil => exact absurd rfl hne
    | cons x xs => exact ⟨x, mem_iterOrder.2 (by simp), hold x (by simp)⟩
  obtain ⟨q, hq, hq'⟩ := scan_picks this
  unfold erase
  rw [List.length_filter_lt_length_iff_exists]
  exact ⟨q, mem_iterOrder.1 hq, by simp [hq']⟩

/-! ### the eviction loop: termination under `0 < size` and a strictly later clock; divergence otherwise -/

/-- the state after the storing step of thread `g` -/
def insertState (c : Cfg) (s : State) (g : Nat) (t : Int) (th : Thread) (n : Name) (a : Addrs) : State :=
  { s with now := t, entries := put n ⟨a, t + c.dur⟩ s.entries, mutex := none,
           threads := s.threads.set g ⟨.idle, th.todo, .miss n ⟨a, t + c.dur⟩ :: th.rets⟩ }

theorem step_evict_ge {c : Cfg} {s : State} {g : Nat} {t : Int} {k : Nat} {th : Thread} {n : Name} {a : Addrs}
    (hth : s.threads[g]? = some th) (hpc : th.pc = .evict n a) (hmx : s.mutex = some g) (hnow : s.now ≤ t)
    (hlen : (s.entries.length : Int) ≥ c.size) :
    step c s ⟨g, t, k⟩ = some { s with now := t, entries := erase (scan (iterOrder s.entries k) (t + c.dur)).1 s.entries } := by
  have h1 : ¬ t < s.now := by omega
  simp [step, h1, hth, hpc, hmx, hlen]

theorem step_evict_lt {c : Cfg} {s : State} {g : Nat} {t : Int} {k : Nat} {th : Thread} {n : Name} {a : Addrs}
    (hth : s.threads[g]? = some th) (hpc : th.pc = .evict n a) (hmx : s.mutex = some g) (hnow : s.now ≤ t)
    (hlen : ¬ (s.entries.length : Int) ≥ c.size) :
    step c s ⟨g, t, k⟩ = some (insertState c s g t th n a) := by
  have h1 : ¬ t < s.now := by omega
  simp [step, h1, hth, hpc, hmx, hlen, insertState]

theorem evictLoop_terminates {c : Cfg} (hc : 0 < c.size) {g : Nat} {t : Int} {th : Thread} {n : Name} {a : Addrs} :
    ∀ (fuel : Nat) (s : State), s.threads[g]? = some th → th.pc = .evict n a → s.mutex = some g → s.now ≤ t →
      (∀ p ∈ s.entries, p.2.expires < t + c.dur) → s.entries.length + 1 < fuel →
      ∃ s', evictLoop c g t fuel s = some s' ∧ ∃ th', s'.threads[g]? = some th' ∧ th'.pc = .idle ∧ s'.mutex = none := by
  intro fuel
  induction fuel with
  | zero => intro s _ _ _ _ _ h; omega
  | succ fuel ih =>
    intro s hth hpc hmx hnow hold hfuel
    unfold evictLoop
    simp only [hth, hpc]
    by_cases hlen : (s.entries.length : Int) ≥ c.size
    · rw [step_evict_ge hth hpc hmx hnow hlen]
      have hne : s.entries ≠ [] := by
        intro h; rw [h] at hlen; simp at hlen; omega
      have hprog := evict_progress (k := 0) hne hold
      apply ih
      · exact hth
      · exact hpc
      · exact hmx
      · exact Int.le_refl t
      · intro p hp; exact hold p (mem_erase.1 hp).1
      · show (erase _ s.entries).length + 1 < fuel
        omega
    · rw [step_evict_lt hth hpc hmx hnow hlen]
      cases fuel with
      | zero => omega
      | succ f =>
        have hg : (insertState c s g t th n a).threads[g]? = some ⟨.idle, th.todo, .miss n ⟨a, t + c.dur⟩ :: th.rets⟩ := by
          simp [insertState, get_set hth]
        unfold evictLoop
        simp only [hg]
        exact ⟨_, rfl, _, hg, rfl, rfl⟩

/-- `size ≤ 0`: `len(entries) >= size` can never become false — the loop spins forever with the mutex held -/
theorem evictLoop_spins_of_size_le_zero {c : Cfg} (hc : c.size ≤ 0) {g : Nat} {t : Int} {th : Thread} {n : Name} {a : Addrs} :
    ∀ (fuel : Nat) (s : State), s.threads[g]? = some th → th.pc = .evict n a → s.mutex = some g → s.now ≤ t →
      evictLoop c g t fuel s = none := by
  intro fuel
  induction fuel with
  | zero => intro s _ _ _ _; rfl
  | succ fuel ih =>
    intro s hth hpc hmx hnow
    unfold evictLoop
    simp only [hth, hpc]
    have hlen : (s.entries.length : Int) ≥ c.size := by omega
    rw [step_evict_ge hth hpc hmx hnow hlen]
    exact ih _ hth hpc hmx (Int.le_refl t)

/-- a clock that does not advance: no entry is strictly older than `now+duration`, nothing is evicted, the loop spins
    (until the clock ticks) -/
theorem evictLoop_spins_while_clock_frozen {c : Cfg} {g : Nat} {t : Int} {th : Thread} {n : Name} {a : Addrs} :
    ∀ (fuel : Nat) (s : State), s.threads[g]? = some th → th.pc = .evict n a → s.mutex = some g → s.now ≤ t →
      (s.entries.length : Int) ≥ c.size → (∀ p ∈ s.entries, ¬ p.2.expires < t + c.dur) → (∀ p ∈ s.entries, p.1 ≠ "") →
      evictLoop c g t fuel s = none := by
  intro fuel
  induction fuel with
  | zero => intro s _ _ _ _ _ _ _; rfl
  | succ fuel ih =>
    intro s hth hpc hmx hnow hlen hfresh hkey
    unfold evictLoop
    simp only [hth, hpc]
    rw [step_evict_ge hth hpc hmx hnow hlen]
    have hs : scan (iterOrder s.entries 0) (t + c.dur) = ("", t + c.dur) :=
      scan_none (fun p hp => hfresh p (mem_iterOrder.1 hp))
    rw [hs, erase_absent hkey]
    exact ih _ hth hpc hmx (Int.le_refl t) hlen hfresh hkey

/-! ### every returned result is explained by the sequential specification of its own op -/

open Spec in
/-- the ops of a thread so far: finished ones (explaining its results), at most one in flight, the rest to do -/
def ThreadHist (c : Cfg) (ans : Name → Addrs) (ops : List Op) (th : Thread) : Prop :=
  ∃ doneRev infl, ops = doneRev.reverse ++ infl ++ th.todo ∧ Explained c ans doneRev th.rets ∧
    (match th.pc with
     | .idle => infl = []
     | .resolve n sel => infl = [.lookup n sel]
     | .store n a => ∃ sel, infl = [.lookup n sel] ∧ a = ans n
     | .evict n a => ∃ sel, infl = [.lookup n sel] ∧ a = ans n)

abbrev InvL (c : Cfg) (ans : Name → Addrs) (todos : List (List Op)) (s : State) : Prop :=
  ∀ (i : Nat) (th : Thread), s.threads[i]? = some th → ∃ ops : List Op, todos[i]? = some ops ∧ ThreadHist c ans ops th

theorem invL_init (c : Cfg) (ans : Name → Addrs) (todos : List (List Op)) (t0 : Int) : InvL c ans todos (init todos t0) := by
  intro i th hth
  simp only [init, List.getElem?_map] at hth
  cases hg : todos[i]? with
  | none => simp [hg] at hth
  | some ops =>
    simp [hg] at hth; subst hth
    exact ⟨ops, rfl, [], [], by simp, .nil, rfl⟩

theorem invL_update {c : Cfg} {ans : Name → Addrs} {todos : List (List Op)} {s : State} {tid : Nat} {th th' : Thread}
    (hi : InvL c ans todos s) (hth : s.threads[tid]? = some th)
    (hnew : ∀ ops, ThreadHist c ans ops th → ThreadHist c ans ops th') :
    ∀ (i : Nat) (t : Thread), (s.threads.set tid th')[i]? = some t → ∃ ops : List Op, todos[i]? = some ops ∧ ThreadHist c ans ops t := by
  intro i t ht
  rw [get_set hth] at ht
  by_cases hit : i = tid
  · subst hit
    simp only [if_true] at ht; cases ht
    obtain ⟨ops, h1, h2⟩ := hi i th hth
    exact ⟨ops, h1, hnew ops h2⟩
  · simp only [hit, if_false] at ht
    exact hi i t ht

open Spec in
theorem invL_step {c : Cfg} {ans : Name → Addrs} (hres : ∀ n k a, c.resolver n k = some a → a = ans n)
    {todos : List (List Op)} {s s' : State} {m : Move} (hh : InvH ans s) (hi : InvL c ans todos s)
    (h : step c s m = some s') : InvL c ans todos s' := by
  cases step_rel h with
  | hit th n sel rest e hth hpc htodo hmx hget hlt =>
    apply invL_update hi hth
    rintro ops ⟨doneRev, infl, hops, hex, hin⟩
    rw [hpc] at hin; simp only at hin; subst hin
    refine ⟨.lookup n sel :: doneRev, [], ?_, .cons ⟨rfl, hh.host _ (get?_mem hget)⟩ hex, rfl⟩
    rw [hops, htodo]; simp
  | stale th n sel rest e hth hpc htodo hmx hget hlt =>
    apply invL_update hi hth
    rintro ops ⟨doneRev, infl, hops, hex, hin⟩
    rw [hpc] at hin; simp only at hin; subst hin
    refine ⟨doneRev, [.lookup n sel], ?_, hex, rfl⟩
    rw [hops, htodo]; simp
  | absent th n sel rest hth hpc htodo hmx hget =>
    apply invL_update hi hth
    rintro ops ⟨doneRev, infl, hops, hex, hin⟩
    rw [hpc] at hin; simp only at hin; subst hin
    refine ⟨doneRev, [.lookup n sel], ?_, hex, rfl⟩
    rw [hops, htodo]; simp
  | del th n rest hth hpc htodo hmx =>
    apply invL_update hi hth
    rintro ops ⟨doneRev, infl, hops, hex, hin⟩
    rw [hpc] at hin; simp only at hin; subst hin
    refine ⟨.del n :: doneRev, [], ?_, .cons rfl hex, rfl⟩
    rw [hops, htodo]; simp
  | resolveFail th n sel hth hpc hr =>
    apply invL_update hi hth
    rintro ops ⟨doneRev, infl, hops, hex, hin⟩
    rw [hpc] at hin; simp only at hin; subst hin
    refine ⟨.lookup n sel :: doneRev, [], ?_, .cons ⟨rfl, hr⟩ hex, rfl⟩
    rw [hops]; simp
  | resolveNoCache th n sel a hth hpc hr hsz =>
    apply invL_update hi hth
    rintro ops ⟨doneRev, infl, hops, hex, hin⟩
    rw [hpc] at hin; simp only at hin; subst hin
    refine ⟨.lookup n sel :: doneRev, [], ?_, .cons ⟨rfl, hres n sel a hr⟩ hex, rfl⟩
    rw [hops]; simp
  | resolveOk th n sel a hth hpc hr hsz =>
    apply invL_update hi hth
    rintro ops ⟨doneRev, infl, hops, hex, hin⟩
    rw [hpc] at hin; simp only at hin; subst hin
    exact ⟨doneRev, [.lookup n sel], hops, hex, sel, rfl, hres n sel a hr⟩
  | lock th n a hth hpc hmx =>
    apply invL_update hi hth
    rintro ops ⟨doneRev, infl, hops, hex, hin⟩
    rw [hpc] at hin; simp only at hin
    exact ⟨doneRev, infl, hops, hex, hin⟩
  | evictOne th n a hth hpc hmx hlen => exact hi
  | insert th n a hth hpc hmx hlen =>
    apply invL_update hi hth
    rintro ops ⟨doneRev, infl, hops, hex, hin⟩
    rw [hpc] at hin; simp only at hin
    obtain ⟨sel, hin, ha⟩ := hin
    subst hin
    refine ⟨.lookup n sel :: doneRev, [], ?_, .cons ⟨rfl, ha⟩ hex, rfl⟩
    rw [hops]; simp

theorem invL_reachable {c : Cfg} {ans : Name → Addrs} (hres : ∀ n k a, c.resolver n k = some a → a = ans n)
    {todos : List (List Op)} {t0 : Int} {s : State} (h : Reachable c todos t0 s) : InvL c ans todos s := by
  induction h with
  | init => exact invL_init c ans todos t0
  | step m hr hs ih => exact invL_step hres (invH_reachable hres hr) ih hs

end V.Conc.Dns
