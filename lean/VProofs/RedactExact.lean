/-
  VProofs.RedactExact — on well-formed events the output of a redaction has exactly the kept
  members, with unchanged values.  Core Lean only.
-/
import VProofs.RedactMain
namespace V.RedactProofs
open V V.Json V.GoJson V.Redact

/-- top-level well-formedness of an event for a keep struct: no duplicate keys and no key that is
    a case variant of a struct field's name -/
structure WfTop (fs : List Field) (kvs : Obj) : Prop where
  nodup : (keysOf kvs).Nodup
  novar : ∀ kv ∈ kvs, ∀ f ∈ fs, foldBytes kv.1 = foldBytes f.name → kv.1 = f.name

theorem matches_iff_eq {fs : List Field} {kvs : Obj} (W : WfTop fs kvs) {kv : Bytes × JVal} (hkv : kv ∈ kvs)
    {f : Field} (hf : f ∈ fs) : matchesField kv.1 f.name = (kv.1 == f.name) := by
  cases hm : matchesField kv.1 f.name
  · cases he : kv.1 == f.name
    · rfl
    · rw [beq_iff_eq.mp he, matchesField_self] at hm; cases hm
  · have := W.novar kv hkv f hf (matchesField_fold hm)
    simp [this]

theorem lookupField_eq_exact {fs : List Field} {kvs : Obj} (W : WfTop fs kvs) {f : Field} (hf : f ∈ fs) :
    lookupField kvs f.name = lookupExact kvs f.name := by
  rw [lookupField_eq, lookupExact_eq]
  exact lastSome_congr _ _ kvs (fun kv hkv => matches_iff_eq W hkv hf)

/-- with distinct keys, the members with key `n` are the one `lookupExact` finds -/
theorem filter_key_nodup (kvs : Obj) (n : Bytes) (h : (keysOf kvs).Nodup) :
    kvs.filter (fun kv => kv.1 == n) = match lookupExact kvs n with
      | some v => [(n, v)]
      | none => [] := by
  induction kvs with
  | nil => rfl
  | cons kv rest ih =>
    have hnd := List.nodup_cons.mp (show (kv.1 :: keysOf rest).Nodup from h)
    rw [List.filter_cons, lookupExact_eq, lastSome_cons, ← lookupExact_eq]
    by_cases hk : kv.1 = n
    · have hnone : lookupExact rest n = none := by
        rw [lookupExact_eq]
        apply lastSome_none_of_forall
        intro x hx
        cases hxe : x.1 == n
        · rfl
        · exfalso
          apply hnd.1
          rw [hk, ← beq_iff_eq.mp hxe]
          exact List.mem_map.mpr ⟨x, hx, rfl⟩
      have hfil : rest.filter (fun kv => kv.1 == n) = [] := by
        rw [ih hnd.2, hnone]
      have hb : (kv.1 == n) = true := by simp [hk]
      simp only [hb, if_true, hfil, hnone]
      obtain ⟨k, v⟩ := kv
      simp at hk
      rw [hk]
    · have hb : (kv.1 == n) = false := by simp [hk]
      simp only [hb, Bool.false_eq_true, if_false]
      rw [ih hnd.2]
      cases lookupExact rest n <;> rfl

theorem sel_wf {fs : List Field} {kvs : Obj} (W : WfTop fs kvs) {f : Field} (hf : f ∈ fs) :
    sel f.name kvs = match lookupExact kvs f.name with
      | some v => [(f.name, v)]
      | none => [] := by
  rw [← filter_key_nodup kvs f.name W.nodup]
  unfold sel
  apply List.filter_congr
  intro kv hkv
  exact matches_iff_eq W hkv hf

/-- the content keys an algorithm keeps for an event type -/
def keeps (ct : CTable) (ty k : Bytes) : Bool :=
  match mapGet ct ty with
  | some [] => true
  | some keys => keys.contains k
  | none => false

theorem mapGet_newContent (ct : CTable) (ty : Bytes) (m : Obj) (k : Bytes) :
    mapGet ((newContent ct ty (some m)).getD []) k = if keeps ct ty k then mapGet m k else none := by
  unfold newContent keeps
  cases hct : mapGet ct ty with
  | none => simp [mapGet]
  | some keys =>
    cases keys with
    | nil => simp
    | cons k0 ks =>
      simp only [Option.getD_some]
      rw [mapGet_filterMap (k0 :: ks) (fun k' => mapGet m k') k]
      simp

theorem newContent_some (ct : CTable) (ty : Bytes) (m : Obj) : ∃ m', newContent ct ty (some m) = some m' := by
  unfold newContent
  cases hct : mapGet ct ty with
  | none => exact ⟨_, rfl⟩
  | some keys => cases keys <;> exact ⟨_, rfl⟩

theorem foldDistinct_inj {fs : List Field} (h : foldDistinct fs = true) {f g : Field} (hf : f ∈ fs) (hg : g ∈ fs)
    (he : foldBytes f.name = foldBytes g.name) : f = g := by
  induction fs with
  | nil => cases hf
  | cons x xs ih =>
    have hd' : noDupIn (foldBytes x.name :: xs.map (fun f => foldBytes f.name)) = true := h
    have hc := noDupIn_cons hd'
    rcases List.mem_cons.mp hf with rfl | hf'
    · rcases List.mem_cons.mp hg with rfl | hg'
      · rfl
      · exfalso; apply hc.1; rw [he]; exact List.mem_map.mpr ⟨g, hg', rfl⟩
    · rcases List.mem_cons.mp hg with rfl | hg'
      · exfalso; apply hc.1; rw [← he]; exact List.mem_map.mpr ⟨f, hf', rfl⟩
      · exact ih hc.2 hf' hg'

/-- in the output, exact and folded lookups of a field name agree -/
theorem output_exact_eq_field {a : Algo} {kvs : Obj} {tf cf : Field} (hd : foldDistinct a.fields = true)
    {f : Field} (hf : f ∈ a.fields) :
    lookupExact (outputOf a kvs tf cf) f.name = lookupField (outputOf a kvs tf cf) f.name := by
  rw [lookupField_eq, lookupExact_eq]
  apply lastSome_congr
  intro kv hkv
  rcases List.mem_flatMap.mp hkv with ⟨g, hg, hkv'⟩
  have hn : kv.1 = g.name := emitField_name hkv'
  cases hm : matchesField kv.1 f.name
  · cases he : kv.1 == f.name
    · rfl
    · rw [beq_iff_eq.mp he, matchesField_self] at hm; cases hm
  · have hfold := matchesField_fold hm
    rw [hn] at hfold
    have := foldDistinct_inj hd hg hf hfold
    rw [hn, this]; simp

/-- every member of the output carries the name of a struct field -/
theorem output_keys {a : Algo} {kvs : Obj} {tf cf : Field} {kv : Bytes × JVal} (h : kv ∈ outputOf a kvs tf cf) :
    ∃ f ∈ a.fields, kv.1 = f.name := by
  rcases List.mem_flatMap.mp h with ⟨g, hg, hkv'⟩
  exact ⟨g, hg, emitField_name hkv'⟩

/-! ## shape of the output: at most one member per field, in field order -/

theorem emitField_shape (kvs : RedactProofs.Obj) (ty : Bytes) (nc : Option RedactProofs.Obj) (f : Field) :
    emitField kvs ty nc f = [] ∨ ∃ v, emitField kvs ty nc f = [(f.name, v)] := by
  unfold emitField
  split
  · split
    · exact Or.inl rfl
    · exact Or.inr ⟨_, rfl⟩
  · split
    · split
      · exact Or.inl rfl
      · exact Or.inr ⟨_, rfl⟩
    · split
      · exact Or.inl rfl
      · exact Or.inr ⟨_, rfl⟩
  · split
    · exact Or.inr ⟨_, rfl⟩
    · exact Or.inl rfl
  · exact Or.inl rfl

theorem output_keys_sublist (E : Field → RedactProofs.Obj) (hE : ∀ f, E f = [] ∨ ∃ v, E f = [(f.name, v)]) (fs : List Field) :
    List.Sublist (keysOf (fs.flatMap E)) (fs.map (·.name)) := by
  induction fs with
  | nil => simp [keysOf]
  | cons g gs ih =>
    simp only [List.flatMap_cons, keysOf, List.map_append, List.map_cons]
    rcases hE g with h | ⟨v, h⟩
    · rw [h]; simp only [List.map_nil, List.nil_append]
      exact List.Sublist.cons _ ih
    · rw [h]; simp only [List.map_cons, List.map_nil, List.cons_append, List.nil_append]
      exact List.Sublist.cons_cons _ ih

theorem nodup_of_map_nodup {α β : Type} (f : α → β) : ∀ l : List α, (l.map f).Nodup → l.Nodup
  | [], _ => List.nodup_nil
  | x :: xs, h => by
    rw [List.map_cons, List.nodup_cons] at h
    rw [List.nodup_cons]
    exact ⟨fun hx => h.1 (List.mem_map.mpr ⟨x, hx, rfl⟩), nodup_of_map_nodup f xs h.2⟩

theorem names_nodup {fs : List Field} (h : foldDistinct fs = true) : (fs.map (·.name)).Nodup := by
  have h' := (noDupIn_iff_nodup _).mp h
  have : (fs.map (fun f => foldBytes f.name)) = (fs.map (·.name)).map foldBytes := by simp [List.map_map]
  rw [this] at h'
  exact nodup_of_map_nodup foldBytes _ h'

theorem output_keys_nodup {a : Algo} (hd : foldDistinct a.fields = true) (kvs : RedactProofs.Obj) (tf cf : Field) :
    (keysOf (outputOf a kvs tf cf)).Nodup :=
  (output_keys_sublist _ (fun f => emitField_shape _ _ _ f) a.fields).nodup (names_nodup hd)

/-! ## `exactFieldsOnly`

What the restriction to exact field names leaves (`exactFields`), and why every statement about
`redactObj` on objects without duplicate keys and without case variants of field names applies to
`redactWith` on ANY object: the restriction establishes both. -/

theorem lookupExact_nil (n : Bytes) : lookupExact [] n = none := rfl

theorem exactFields_nil (fs : List Field) : exactFields fs [] = [] := by
  unfold exactFields
  induction fs with
  | nil => rfl
  | cons f rest ih =>
    simp only [List.filterMap_cons, lookupExact_nil, Option.map_none]
    simpa only [lookupExact_nil, Option.map_none] using ih

theorem exactFields_cons (f : Field) (fs : List Field) (kvs : Obj) :
    exactFields (f :: fs) kvs = match lookupExact kvs f.name with
      | some v => (f.name, v) :: exactFields fs kvs
      | none => exactFields fs kvs := by
  unfold exactFields
  simp only [List.filterMap_cons]
  cases lookupExact kvs f.name <;> rfl

/-- a member of the restriction carries a field's name and the value the last member with that key had -/
theorem exactFields_mem {fs : List Field} {kvs : Obj} {kv : Bytes × JVal} (h : kv ∈ exactFields fs kvs) :
    ∃ f ∈ fs, kv.1 = f.name ∧ lookupExact kvs f.name = some kv.2 := by
  unfold exactFields at h
  obtain ⟨f, hf, hfv⟩ := List.mem_filterMap.mp h
  cases hl : lookupExact kvs f.name with
  | none => rw [hl] at hfv; cases hfv
  | some v =>
    rw [hl] at hfv
    simp only [Option.map_some, Option.some.injEq] at hfv
    subst hfv
    exact ⟨f, hf, rfl, hl⟩

theorem exactFields_keys_sublist (fs : List Field) (kvs : Obj) :
    List.Sublist (keysOf (exactFields fs kvs)) (fs.map (·.name)) := by
  induction fs with
  | nil => simp [exactFields, keysOf]
  | cons f rest ih =>
    rw [exactFields_cons]
    cases lookupExact kvs f.name with
    | none => exact List.Sublist.cons _ ih
    | some v => exact List.Sublist.cons_cons _ ih

theorem exactFields_nodup {fs : List Field} (hd : foldDistinct fs = true) (kvs : Obj) :
    (keysOf (exactFields fs kvs)).Nodup :=
  (exactFields_keys_sublist fs kvs).nodup (names_nodup hd)

/-- a key that is no field's name is not in the restriction -/
theorem lookupExact_exactFields_other (fs : List Field) (kvs : Obj) (n : Bytes) (hn : ∀ f ∈ fs, f.name ≠ n) :
    lookupExact (exactFields fs kvs) n = none := by
  rw [lookupExact_eq]
  apply lastSome_none_of_forall
  intro kv hkv
  obtain ⟨f, hf, hk, _⟩ := exactFields_mem hkv
  cases hb : kv.1 == n
  · rfl
  · exact absurd (by rw [← hk]; exact beq_iff_eq.mp hb) (hn f hf)

/-- the restriction holds, under a field's name, exactly what the last member with that key held -/
theorem lookupExact_exactFields {fs : List Field} (hd : (fs.map (·.name)).Nodup) (kvs : Obj) {f : Field} (hf : f ∈ fs) :
    lookupExact (exactFields fs kvs) f.name = lookupExact kvs f.name := by
  induction fs with
  | nil => cases hf
  | cons g gs ih =>
    have hnd := List.nodup_cons.mp (show (g.name :: gs.map (·.name)).Nodup from hd)
    rw [exactFields_cons]
    rcases List.mem_cons.mp hf with rfl | hmem
    · have hrest : lookupExact (exactFields gs kvs) f.name = none := by
        apply lookupExact_exactFields_other
        intro f' hf' he
        exact hnd.1 (by rw [← he]; exact List.mem_map.mpr ⟨f', hf', rfl⟩)
      cases hl : lookupExact kvs f.name with
      | none => exact hrest
      | some v =>
        simp only
        rw [lookupExact_eq, lastSome_cons, ← lookupExact_eq, hrest]
        simp
    · have hne : g.name ≠ f.name := fun he => hnd.1 (by rw [he]; exact List.mem_map.mpr ⟨f, hmem, rfl⟩)
      cases hl : lookupExact kvs g.name with
      | none => exact ih hnd.2 hmem
      | some v =>
        simp only
        rw [lookupExact_eq, lastSome_cons, ← lookupExact_eq, ih hnd.2 hmem]
        have : ((g.name, v).1 == f.name) = false := by simp [hne]
        simp only [this, Bool.false_eq_true, if_false]
        cases lookupExact kvs f.name <;> rfl

/-- The restriction is well-formed for the keep struct whatever the event looked like: no
    duplicate keys, no case variants of field names. -/
theorem exactFields_wf {fs : List Field} (hd : foldDistinct fs = true) (kvs : Obj) : WfTop fs (exactFields fs kvs) where
  nodup := exactFields_nodup hd kvs
  novar := by
    intro kv hkv f hf hfold
    obtain ⟨g, hg, hk, _⟩ := exactFields_mem hkv
    rw [hk] at hfold ⊢
    rw [foldDistinct_inj hd hg hf hfold]

/-- the restriction depends only on what the last member under each field name holds -/
theorem exactFields_congr (fs : List Field) (kvs kvs' : Obj)
    (h : ∀ f ∈ fs, lookupExact kvs f.name = lookupExact kvs' f.name) : exactFields fs kvs = exactFields fs kvs' := by
  unfold exactFields
  apply filterMap_congr'
  intro f hf
  rw [h f hf]

theorem filterMap_eq_flatMap {α β : Type} (g : α → Option β) (l : List α) :
    l.filterMap g = l.flatMap (fun x => (g x).toList) := by
  induction l with
  | nil => rfl
  | cons x xs ih =>
    simp only [List.filterMap_cons, List.flatMap_cons]
    cases g x <;> simp [ih]

/-- the output of a redaction contains exact field names only, each at most once and in field
    order: restricting it again changes nothing -/
theorem exactFields_output {a : Algo} (hd : foldDistinct a.fields = true) (kvs : Obj) (tf cf : Field) :
    exactFields a.fields (outputOf a kvs tf cf) = outputOf a kvs tf cf := by
  have hE : ∀ g, ∀ kv ∈ emitField kvs (decType tf.name kvs).val
      (newContent a.ctable (decType tf.name kvs).val (decContent cf.name kvs).val) g, kv.1 = g.name :=
    fun g kv hkv => emitField_name hkv
  unfold exactFields
  rw [filterMap_eq_flatMap]
  show _ = a.fields.flatMap _
  apply flatMap_congr'
  intro f hf
  have hsel : sel f.name (outputOf a kvs tf cf) = _ := sel_flatMap_emit _ hE a.fields hd f hf
  rw [output_exact_eq_field hd hf, lookupField_sel, hsel]
  rcases emitField_shape kvs (decType tf.name kvs).val
      (newContent a.ctable (decType tf.name kvs).val (decContent cf.name kvs).val) f with h | ⟨v, h⟩
  · rw [h]; rfl
  · rw [h]; rfl

/-- `redactWith` is `redactObj` on the restriction -/
theorem redactWith_obj (a : Algo) (kvs : Obj) : redactWith a (.obj kvs) = redactObj a (exactFields a.fields kvs) := rfl

theorem redactWith_null (a : Algo) : redactWith a .null = redactObj a [] := by
  show redactObj a (exactFields a.fields []) = _
  rw [exactFields_nil]

/-- `redactWith` is idempotent: redacting its output succeeds and returns the output unchanged. -/
theorem redactWith_idem {a : Algo} (hT : tablesOk a = true) {j v : JVal} (h : redactWith a j = .ok v) :
    redactWith a v = .ok v := by
  have hobj : ∃ kvs, redactObj a kvs = .ok v := by
    unfold redactWith at h
    split at h
    · exact ⟨_, h⟩
    · exact ⟨_, h⟩
    · cases h
  obtain ⟨kvs, hk⟩ := hobj
  obtain ⟨tf, cf, F, hv⟩ := redactObj_ok hk
  obtain ⟨r, hv', hr⟩ := redactObj_idem hT hk
  obtain ⟨hdist, _, _, _⟩ := tablesOk_parts hT
  have hre : r = outputOf a kvs tf cf := by rw [hv] at hv'; injection hv' with h1; exact h1.symm
  subst hv'
  rw [redactWith_obj, hre, exactFields_output hdist, ← hre]
  exact hr

/-- The exactness statement for `redactObj`. -/
theorem redactObj_exact {a : Algo} (hT : tablesOk a = true) {kvs : Obj} {tf cf : Field}
    (htf : typeField a.fields = some tf) (hcf : contentField a.fields = some cf)
    (W : WfTop a.fields kvs) {ty : Bytes} {m : Obj}
    (hty : lookupExact kvs tf.name = some (.str ty)) (hco : lookupExact kvs cf.name = some (.obj m))
    (hm : (keysOf m).Nodup) {v : JVal} (h : redactObj a kvs = .ok v) :
    ∃ r kept, v = .obj r ∧
      lookupExact r tf.name = some (.str ty) ∧
      lookupExact r cf.name = some (.obj kept) ∧
      (∀ k, mapGet kept k = if keeps a.ctable ty k then mapGet m k else none) ∧
      (∀ f ∈ a.fields, f.kind = .raw → lookupExact r f.name = lookupExact kvs f.name) ∧
      (∀ kv ∈ r, ∃ f ∈ a.fields, kv.1 = f.name) := by
  obtain ⟨tf', cf', F, hv⟩ := redactObj_ok h
  have e1 : tf' = tf := by have := F.htf; rw [htf] at this; exact (Option.some.inj this).symm
  have e2 : cf' = cf := by have := F.hcf; rw [hcf] at this; exact (Option.some.inj this).symm
  subst e1 e2
  obtain ⟨hdist, hkeys, htfo, hcfo⟩ := tablesOk_parts hT
  obtain ⟨htfm, htfk⟩ := typeField_mem F.htf
  obtain ⟨hcfm, hcfk⟩ := contentField_mem F.hcf
  -- what the first pass decoded
  have hdt : decType tf'.name kvs = ⟨ty, false⟩ := by
    rw [decType_sel, sel_wf W htfm, hty]; simp [typeStep]
  have hdc : (decContent cf'.name kvs).val = some m := by
    rw [decContent_sel, sel_wf W hcfm, hco]
    simp [contentStep, mergeInto_nil_of_nodup m hm]
  obtain ⟨kept, hkept⟩ := newContent_some a.ctable ty m
  have hE : ∀ g, ∀ kv ∈ emitField kvs (decType tf'.name kvs).val
      (newContent a.ctable (decType tf'.name kvs).val (decContent cf'.name kvs).val) g, kv.1 = g.name :=
    fun g kv hkv => emitField_name hkv
  have hsel : ∀ f ∈ a.fields, sel f.name (outputOf a kvs tf' cf') = emitField kvs (decType tf'.name kvs).val
      (newContent a.ctable (decType tf'.name kvs).val (decContent cf'.name kvs).val) f :=
    fun f hf => sel_flatMap_emit _ hE a.fields hdist f hf
  refine ⟨outputOf a kvs tf' cf', kept, hv, ?_, ?_, ?_, ?_, ?_⟩
  · rw [output_exact_eq_field hdist htfm, lookupField_sel, hsel tf' htfm]
    simp [emitField, htfk, htfo tf' F.htf, hdt]
  · rw [output_exact_eq_field hdist hcfm, lookupField_sel, hsel cf' hcfm]
    simp [emitField, hcfk, hcfo cf' F.hcf, hdt, hdc, hkept]
  · intro k
    have := mapGet_newContent a.ctable ty m k
    rw [hkept] at this
    simpa using this
  · intro f hf hk
    rw [output_exact_eq_field hdist hf, lookupField_sel, hsel f hf, ← lookupField_eq_exact W hf]
    simp only [emitField, hk]
    cases hl : lookupField kvs f.name <;> simp
  · intro kv hkv
    exact output_keys hkv

/-- **The exactness statement for `redactWith`** — for ANY object: duplicate top-level keys (the last
    member counts, as `lookupExact` reads it) and case variants of field names (dropped) included. -/
theorem redactWith_exact {a : Algo} (hT : tablesOk a = true) {kvs : Obj} {tf cf : Field}
    (htf : typeField a.fields = some tf) (hcf : contentField a.fields = some cf) {ty : Bytes} {m : Obj}
    (hty : lookupExact kvs tf.name = some (.str ty)) (hco : lookupExact kvs cf.name = some (.obj m))
    (hm : (keysOf m).Nodup) {v : JVal} (h : redactWith a (.obj kvs) = .ok v) :
    ∃ r kept, v = .obj r ∧
      lookupExact r tf.name = some (.str ty) ∧
      lookupExact r cf.name = some (.obj kept) ∧
      (∀ k, mapGet kept k = if keeps a.ctable ty k then mapGet m k else none) ∧
      (∀ f ∈ a.fields, f.kind = .raw → lookupExact r f.name = lookupExact kvs f.name) ∧
      (∀ kv ∈ r, ∃ f ∈ a.fields, kv.1 = f.name) := by
  obtain ⟨hdist, _, _, _⟩ := tablesOk_parts hT
  have hnd := names_nodup hdist
  obtain ⟨htfm, _⟩ := typeField_mem htf
  obtain ⟨hcfm, _⟩ := contentField_mem hcf
  obtain ⟨r, kept, hv, e1, e2, e3, e4, e5⟩ :=
    redactObj_exact hT htf hcf (exactFields_wf hdist kvs) (ty := ty) (m := m)
      (by rw [lookupExact_exactFields hnd kvs htfm]; exact hty)
      (by rw [lookupExact_exactFields hnd kvs hcfm]; exact hco) hm h
  exact ⟨r, kept, hv, e1, e2, e3, fun f hf hk => by rw [e4 f hf hk, lookupExact_exactFields hnd kvs hf], e5⟩

/-- a redaction never has a member whose key is absent (as an exact key) from the event: in
    particular no `event_id` when the event carried none, whatever case variants it carried -/
theorem redactWith_absent {a : Algo} (hT : tablesOk a = true) {kvs : Obj} {rk : Obj}
    (h : redactWith a (.obj kvs) = .ok (.obj rk)) {n : Bytes} (hn : lookupExact kvs n = none)
    (hraw : ∀ f ∈ a.fields, f.name = n → f.kind = .raw) : lookupExact rk n = none := by
  obtain ⟨hdist, _, _, _⟩ := tablesOk_parts hT
  have hnd := names_nodup hdist
  have h' : redactObj a (exactFields a.fields kvs) = .ok (.obj rk) := h
  obtain ⟨tf, cf, F, hv⟩ := redactObj_ok h'
  have hr : rk = outputOf a (exactFields a.fields kvs) tf cf := by injection hv
  by_cases hex : ∃ f ∈ a.fields, f.name = n
  · obtain ⟨f, hf, hfn⟩ := hex
    have hE : ∀ g, ∀ kv ∈ emitField (exactFields a.fields kvs) (decType tf.name (exactFields a.fields kvs)).val
        (newContent a.ctable (decType tf.name (exactFields a.fields kvs)).val (decContent cf.name (exactFields a.fields kvs)).val) g,
        kv.1 = g.name := fun g kv hkv => emitField_name hkv
    have hsel : sel f.name (outputOf a (exactFields a.fields kvs) tf cf) = _ := sel_flatMap_emit _ hE a.fields hdist f hf
    rw [hr, ← hfn, output_exact_eq_field hdist hf, lookupField_sel, hsel]
    simp only [emitField, hraw f hf hfn]
    rw [lookupField_eq_exact (exactFields_wf hdist kvs) hf, lookupExact_exactFields hnd kvs hf, hfn, hn]
    rfl
  · rw [lookupExact_eq]
    apply lastSome_none_of_forall
    intro kv hkv
    rw [hr] at hkv
    obtain ⟨f, hf, hk⟩ := output_keys hkv
    cases hb : kv.1 == n
    · rfl
    · exact absurd ⟨f, hf, by rw [← hk]; exact beq_iff_eq.mp hb⟩ hex

end V.RedactProofs
