/-
  VProofs.RedactExact — on well-formed events the output of a redaction has exactly the kept
  members, with unchanged values.  Core Lean only.
-/
import VProofs.RedactMain
namespace V.RedactProofs
open V V.Json V.GoJson V.Redact

/-- top-level well-formedness of an event for a keep struct: no duplicate keys and no key that is
    a case variant of a struct field's name -/
structure WfTop (fs : List Field) (kvs : Obj) : Prop where
  nodup : (keysOf kvs).Nodup
  novar : ∀ kv ∈ kvs, ∀ f ∈ fs, foldBytes kv.1 = foldBytes f.name → kv.1 = f.name

theorem matches_iff_eq {fs : List Field} {kvs : Obj} (W : WfTop fs kvs) {kv : Bytes × JVal} (hkv : kv ∈ kvs)
    {f : Field} (hf : f ∈ fs) : matchesField kv.1 f.name = (kv.1 == f.name) := by
  cases hm : matchesField kv.1 f.name
  · cases he : kv.1 == f.name
    · rfl
    · rw [beq_iff_eq.mp he, matchesField_self] at hm; cases hm
  · have := W.novar kv hkv f hf (matchesField_fold hm)
    simp [this]

theorem lookupField_eq_exact {fs : List Field} {kvs : Obj} (W : WfTop fs kvs) {f : Field} (hf : f ∈ fs) :
    lookupField kvs f.name = lookupExact kvs f.name := by
  rw [lookupField_eq, lookupExact_eq]
  exact lastSome_congr _ _ kvs (fun kv hkv => matches_iff_eq W hkv hf)

/-- with distinct keys, the members with key `n` are the one `lookupExact` finds -/
theorem filter_key_nodup (kvs : Obj) (n : Bytes) (h : (keysOf kvs).Nodup) :
    kvs.filter (fun kv => kv.1 == n) = match lookupExact kvs n with
      | some v => [(n, v)]
      | none => [] := by
  induction kvs with
  | nil => rfl
  | cons kv rest ih =>
    have hnd := List.nodup_cons.mp (show (kv.1 :: keysOf rest).Nodup from h)
    rw [List.filter_cons, lookupExact_eq, lastSome_cons, ← lookupExact_eq]
    by_cases hk : kv.1 = n
    · have hnone : lookupExact rest n = none := by
        rw [lookupExact_eq]
        apply lastSome_none_of_forall
        intro x hx
        cases hxe : x.1 == n
        · rfl
        · exfalso
          apply hnd.1
          rw [hk, ← beq_iff_eq.mp hxe]
          exact List.mem_map.mpr ⟨x, hx, rfl⟩
      have hfil : rest.filter (fun kv => kv.1 == n) = [] := by
        rw [ih hnd.2, hnone]
      have hb : (kv.1 == n) = true := by simp [hk]
      simp only [hb, if_true, hfil, hnone]
      obtain ⟨k, v⟩ := kv
      simp at hk
      rw [hk]
    · have hb : (kv.1 == n) = false := by simp [hk]
      simp only [hb, Bool.false_eq_true, if_false]
      rw [ih hnd.2]
      cases lookupExact rest n <;> rfl

theorem sel_wf {fs : List Field} {kvs : Obj} (W : WfTop fs kvs) {f : Field} (hf : f ∈ fs) :
    sel f.name kvs = match lookupExact kvs f.name with
      | some v => [(f.name, v)]
      | none => [] := by
  rw [← filter_key_nodup kvs f.name W.nodup]
  unfold sel
  apply List.filter_congr
  intro kv hkv
  exact matches_iff_eq W hkv hf

/-- the content keys an algorithm keeps for an event type -/
def keeps (ct : CTable) (ty k : Bytes) : Bool :=
  match mapGet ct ty with
  | some [] => true
  | some keys => keys.contains k
  | none => false

theorem mapGet_newContent (ct : CTable) (ty : Bytes) (m : Obj) (k : Bytes) :
    mapGet ((newContent ct ty (some m)).getD []) k = if keeps ct ty k then mapGet m k else none := by
  unfold newContent keeps
  cases hct : mapGet ct ty with
  | none => simp [mapGet]
  | some keys =>
    cases keys with
    | nil => simp
    | cons k0 ks =>
      simp only [Option.getD_some]
      rw [mapGet_filterMap (k0 :: ks) (fun k' => mapGet m k') k]
      simp

theorem newContent_some (ct : CTable) (ty : Bytes) (m : Obj) : ∃ m', newContent ct ty (some m) = some m' := by
  unfold newContent
  cases hct : mapGet ct ty with
  | none => exact ⟨_, rfl⟩
  | some keys => cases keys <;> exact ⟨_, rfl⟩

theorem foldDistinct_inj {fs : List Field} (h : foldDistinct fs = true) {f g : Field} (hf : f ∈ fs) (hg : g ∈ fs)
    (he : foldBytes f.name = foldBytes g.name) : f = g := by
  induction fs with
  | nil => cases hf
  | cons x xs ih =>
    have hd' : noDupIn (foldBytes x.name :: xs.map (fun f => foldBytes f.name)) = true := h
    have hc := noDupIn_cons hd'
    rcases List.mem_cons.mp hf with rfl | hf'
    · rcases List.mem_cons.mp hg with rfl | hg'
      · rfl
      · exfalso; apply hc.1; rw [he]; exact List.mem_map.mpr ⟨g, hg', rfl⟩
    · rcases List.mem_cons.mp hg with rfl | hg'
      · exfalso; apply hc.1; rw [← he]; exact List.mem_map.mpr ⟨f, hf', rfl⟩
      · exact ih hc.2 hf' hg'

/-- in the output, exact and folded lookups of a field name agree -/
theorem output_exact_eq_field {a : Algo} {kvs : Obj} {tf cf : Field} (hd : foldDistinct a.fields = true)
    {f : Field} (hf : f ∈ a.fields) :
    lookupExact (outputOf a kvs tf cf) f.name = lookupField (outputOf a kvs tf cf) f.name := by
  rw [lookupField_eq, lookupExact_eq]
  apply lastSome_congr
  intro kv hkv
  rcases List.mem_flatMap.mp hkv with ⟨g, hg, hkv'⟩
  have hn : kv.1 = g.name := emitField_name hkv'
  cases hm : matchesField kv.1 f.name
  · cases he : kv.1 == f.name
    · rfl
    · rw [beq_iff_eq.mp he, matchesField_self] at hm; cases hm
  · have hfold := matchesField_fold hm
    rw [hn] at hfold
    have := foldDistinct_inj hd hg hf hfold
    rw [hn, this]; simp

/-- every member of the output carries the name of a struct field -/
theorem output_keys {a : Algo} {kvs : Obj} {tf cf : Field} {kv : Bytes × JVal} (h : kv ∈ outputOf a kvs tf cf) :
    ∃ f ∈ a.fields, kv.1 = f.name := by
  rcases List.mem_flatMap.mp h with ⟨g, hg, hkv'⟩
  exact ⟨g, hg, emitField_name hkv'⟩

/-- The exactness statement for `redactObj`. -/
theorem redactObj_exact {a : Algo} (hT : tablesOk a = true) {kvs : Obj} {tf cf : Field}
    (htf : typeField a.fields = some tf) (hcf : contentField a.fields = some cf)
    (W : WfTop a.fields kvs) {ty : Bytes} {m : Obj}
    (hty : lookupExact kvs tf.name = some (.str ty)) (hco : lookupExact kvs cf.name = some (.obj m))
    (hm : (keysOf m).Nodup) {v : JVal} (h : redactObj a kvs = .ok v) :
    ∃ r kept, v = .obj r ∧
      lookupExact r tf.name = some (.str ty) ∧
      lookupExact r cf.name = some (.obj kept) ∧
      (∀ k, mapGet kept k = if keeps a.ctable ty k then mapGet m k else none) ∧
      (∀ f ∈ a.fields, f.kind = .raw → lookupExact r f.name = lookupExact kvs f.name) ∧
      (∀ kv ∈ r, ∃ f ∈ a.fields, kv.1 = f.name) := by
  obtain ⟨tf', cf', F, hv⟩ := redactObj_ok h
  have e1 : tf' = tf := by have := F.htf; rw [htf] at this; exact (Option.some.inj this).symm
  have e2 : cf' = cf := by have := F.hcf; rw [hcf] at this; exact (Option.some.inj this).symm
  subst e1 e2
  obtain ⟨hdist, hkeys, htfo, hcfo⟩ := tablesOk_parts hT
  obtain ⟨htfm, htfk⟩ := typeField_mem F.htf
  obtain ⟨hcfm, hcfk⟩ := contentField_mem F.hcf
  -- what the first pass decoded
  have hdt : decType tf'.name kvs = ⟨ty, false⟩ := by
    rw [decType_sel, sel_wf W htfm, hty]; simp [typeStep]
  have hdc : (decContent cf'.name kvs).val = some m := by
    rw [decContent_sel, sel_wf W hcfm, hco]
    simp [contentStep, mergeInto_nil_of_nodup m hm]
  obtain ⟨kept, hkept⟩ := newContent_some a.ctable ty m
  have hE : ∀ g, ∀ kv ∈ emitField kvs (decType tf'.name kvs).val
      (newContent a.ctable (decType tf'.name kvs).val (decContent cf'.name kvs).val) g, kv.1 = g.name :=
    fun g kv hkv => emitField_name hkv
  have hsel : ∀ f ∈ a.fields, sel f.name (outputOf a kvs tf' cf') = emitField kvs (decType tf'.name kvs).val
      (newContent a.ctable (decType tf'.name kvs).val (decContent cf'.name kvs).val) f :=
    fun f hf => sel_flatMap_emit _ hE a.fields hdist f hf
  refine ⟨outputOf a kvs tf' cf', kept, hv, ?_, ?_, ?_, ?_, ?_⟩
  · rw [output_exact_eq_field hdist htfm, lookupField_sel, hsel tf' htfm]
    simp [emitField, htfk, htfo tf' F.htf, hdt]
  · rw [output_exact_eq_field hdist hcfm, lookupField_sel, hsel cf' hcfm]
    simp [emitField, hcfk, hcfo cf' F.hcf, hdt, hdc, hkept]
  · intro k
    have := mapGet_newContent a.ctable ty m k
    rw [hkept] at this
    simpa using this
  · intro f hf hk
    rw [output_exact_eq_field hdist hf, lookupField_sel, hsel f hf, ← lookupField_eq_exact W hf]
    simp only [emitField, hk]
    cases hl : lookupField kvs f.name <;> simp
  · intro kv hkv
    exact output_keys hkv

end V.RedactProofs
