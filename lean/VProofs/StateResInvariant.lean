/-
  Order independence of `resolveV2New`: permuting the state sets, the events inside each state set, reordering the
  auth events and listing some of them more than once changes the resolved state only by a permutation of its
  entries.  Assembles the stage lemmas (split, auth difference, control set, Kahn, mainline sort, application of
  the unconflicted state).  Core only.
-/
import VProofs.StateResFlow
namespace V.StateRes
open V Json GoJson Auth List

/-- all supplied create events are one and the same event (the events belong to one room) -/
def OneCreate (U : Event → Prop) : Prop := ∀ x y, U x → U y → x.isCreate = true → y.isCreate = true → x = y

theorem getCreateEvent_congr {U : Event → Prop} (hC : OneCreate U) {l l' : List Event} (hl : ∀ x ∈ l, U x) (hl' : ∀ x ∈ l', U x)
    (h : SameSet l l') : getCreateEvent l = getCreateEvent l' := by
  unfold getCreateEvent
  cases h1 : l.find? (fun e => e.isCreate) with
  | none =>
    symm
    rw [List.find?_eq_none] at h1 ⊢
    intro x hx; exact h1 x ((h x).mpr hx)
  | some c =>
    have hc := List.mem_of_find?_eq_some h1
    have hcc : c.isCreate = true := List.find?_some h1
    cases h2 : l'.find? (fun e => e.isCreate) with
    | none =>
      rw [List.find?_eq_none] at h2
      exact absurd hcc (h2 c ((h c).mp hc))
    | some c' =>
      have hc' := List.mem_of_find?_eq_some h2
      have hcc' : c'.isCreate = true := List.find?_some h2
      rw [hC c c' (hl c hc) (hl' c' hc') hcc hcc']

theorem createEvOf_congr {U : Event → Prop} (hC : OneCreate U) {u u' a a' c c' : List Event}
    (hu : ∀ x ∈ u, U x) (hu' : ∀ x ∈ u', U x) (ha : ∀ x ∈ a, U x) (ha' : ∀ x ∈ a', U x) (hc : ∀ x ∈ c, U x) (hc' : ∀ x ∈ c', U x)
    (h1 : SameSet u u') (h2 : SameSet a a') (h3 : SameSet c c') : createEvOf u a c = createEvOf u' a' c' := by
  unfold createEvOf
  rw [getCreateEvent_congr hC hu hu' h1, getCreateEvent_congr hC ha ha' h2, getCreateEvent_congr hC hc hc' h3]

section prep
variable {U : Event → Prop} (hU : EvId U) (hC : OneCreate U) (algo : Nat)
  {sets sets' : List (List Event)} {auth auth' : List Event}
  (hsU : ∀ s ∈ sets, ∀ x ∈ s, U x) (haU : ∀ x ∈ auth, U x)
  (hs : SetsEquiv sets sets') (ha : SameSet auth auth')

include hU hC hsU haU hs ha in
theorem prepOf_sim : PrepSim U (prepOf algo sets auth) (prepOf algo sets' auth') := by
  -- membership in the universe
  have hfl : ∀ x, x ∈ sets'.flatten ↔ x ∈ sets.flatten := fun x => (hs.flatten_perm.mem_iff).symm
  have hsU' : ∀ s ∈ sets', ∀ x ∈ s, U x := by
    intro s hs' x hx
    have : x ∈ sets.flatten := (hfl x).mp (List.mem_flatten.mpr ⟨s, hs', hx⟩)
    obtain ⟨s0, hs0, hx0⟩ := List.mem_flatten.mp this
    exact hsU s0 hs0 x hx0
  have haU' : ∀ x ∈ auth', U x := fun x hx => haU x ((ha x).mpr hx)
  have hflU : ∀ x ∈ sets.flatten, U x := by
    intro x hx; obtain ⟨s0, hs0, hx0⟩ := List.mem_flatten.mp hx; exact hsU s0 hs0 x hx0
  have hflU' : ∀ x ∈ sets'.flatten, U x := fun x hx => hflU x ((hfl x).mp hx)
  -- split
  obtain ⟨hc, hu⟩ := split_perm_invariant hU false hsU hs
  obtain ⟨_, hup⟩ := split_perm_invariant_perm hU false hsU hs
  have hcU : ∀ x ∈ (splitConflictedUnconflicted false sets).1, U x :=
    fun x hx => hflU x (split_sub false sets (Or.inl hx)).1
  have hcU' : ∀ x ∈ (splitConflictedUnconflicted false sets').1, U x :=
    fun x hx => hflU' x (split_sub false sets' (Or.inl hx)).1
  have huU : ∀ x ∈ (splitConflictedUnconflicted false sets).2, U x :=
    fun x hx => hflU x (split_sub false sets (Or.inr hx)).1
  have huU' : ∀ x ∈ (splitConflictedUnconflicted false sets').2, U x :=
    fun x hx => hflU' x (split_sub false sets' (Or.inr hx)).1
  -- maps
  have hamU : ∀ x ∈ eventMapFromEvents auth, U x := fun x hx => haU x (mem_eventMap hx)
  have hamU' : ∀ x ∈ eventMapFromEvents auth', U x := fun x hx => haU' x (mem_eventMap hx)
  have ham : MapEq (eventMapFromEvents auth) (eventMapFromEvents auth') := eventMap_mapEq hU haU haU' ha
  -- auth difference
  have had := authDifferenceNew_congr hU algo hsU hsU' hamU hamU' hcU hcU' ham hc hs.sim
  have hdU : ∀ x ∈ authDifferenceNew algo (eventMapFromEvents auth) (splitConflictedUnconflicted false sets).1 sets, U x := by
    intro x hx
    rcases mem_authDifferenceNew_sub hx with h | h
    · exact hamU x h
    · exact hcU x h
  have hdU' : ∀ x ∈ authDifferenceNew algo (eventMapFromEvents auth') (splitConflictedUnconflicted false sets').1 sets', U x := by
    intro x hx
    rcases mem_authDifferenceNew_sub hx with h | h
    · exact hamU' x h
    · exact hcU' x h
  rw [prepOf_eq_mkPrep, prepOf_eq_mkPrep, createEvOf_congr hC huU huU' haU haU' hcU hcU' hu ha hc]
  exact mkPrep_sim hU _ hcU hcU' huU huU' hdU hdU' hc hup (unconflicted_distinctSlots sets) ham had

end prep

/-! ## from similar preparations to permuted results -/

section states
variable {U : Event → Prop} (hU : EvId U) (algo : Nat) {p p' : Prep} (h : PrepSim U p p') (rej : List ID)

include hU h in
theorem stateS1_sim : stateS1 algo p = stateS1 algo p' := by
  unfold stateS1
  rw [reverseTopoAuth_mapEq h.authMap, h.createEv]
  rw [reverseTopoAuth_input_order_irrelevant p'.authMap p'.createEv (l1 := p.unconflicted) (l2 := p'.unconflicted)
    (hU.mono (fun x hx => by
      rcases List.mem_append.mp hx with hx | hx
      · exact h.inU.1 x hx
      · exact h.inU.2.1 x hx)) (SameSet.of_perm h.unconflicted)]

include hU h in
theorem controlOrderOf_sim : controlOrderOf algo p = controlOrderOf algo p' := by
  unfold controlOrderOf
  rw [stateS1_sim hU algo h, reverseTopoAuth_mapEq h.authMap, h.createEv]
  exact reverseTopoAuth_input_order_irrelevant _ _
    (hU.mono (fun x hx => by
      rcases List.mem_append.mp hx with hx | hx
      · exact h.inU.2.2.1 x hx
      · exact h.inU.2.2.2 x hx)) h.controlEvents

include hU h in
theorem stateS2_sim : stateS2 algo p rej = stateS2 algo p' rej := by
  unfold stateS2
  rw [stateS1_sim hU algo h, controlOrderOf_sim hU algo h, authAndApply_mapEq h.authMap]

include hU h in
theorem othersOrderOf_sim : othersOrderOf algo p rej = othersOrderOf algo p' rej := by
  unfold othersOrderOf
  rw [stateS2_sim hU algo h, createMainline_mapEq h.authMap, mainlineOrdering_mapEq h.authMap]
  exact mainlineOrdering_input_order_irrelevant _ _ h.others h.othersNodup

include hU h in
theorem stateS3_sim : stateS3 algo p rej = stateS3 algo p' rej := by
  unfold stateS3
  rw [stateS2_sim hU algo h, othersOrderOf_sim hU algo h, authAndApply_mapEq h.authMap]

include hU h in
theorem stateS4_sim : stateS4 algo p rej ~ stateS4 algo p' rej := by
  unfold stateS4
  rw [stateS3_sim hU algo h]
  exact applyEvents_perm h.unconflicted h.slots (stateS3_wf algo p' rej)

end states

/-- **Order independence of the resolved state.** -/
theorem finalState_perm_invariant {U : Event → Prop} (hU : EvId U) (hC : OneCreate U) (algo : Nat)
    {sets sets' : List (List Event)} {auth auth' : List Event}
    (hsU : ∀ s ∈ sets, ∀ x ∈ s, U x) (haU : ∀ x ∈ auth, U x)
    (hs : SetsEquiv sets sets') (ha : SameSet auth auth') (rej : List ID) :
    finalState algo sets auth rej ~ finalState algo sets' auth' rej := by
  have hp := prepOf_sim hU hC algo hsU haU hs ha
  unfold finalState
  simp only
  have e1 : (prepOf algo sets auth).conflicted.isEmpty = (prepOf algo sets' auth').conflicted.isEmpty := hp.conflicted.isEmpty
  have e2 : (prepOf algo sets auth).unconflicted.isEmpty = (prepOf algo sets' auth').unconflicted.isEmpty :=
    (SameSet.of_perm hp.unconflicted).isEmpty
  have e3 : auth.isEmpty = auth'.isEmpty := ha.isEmpty
  rw [e1, e2, e3]
  split
  · exact Perm.refl _
  · exact stateS4_sim hU algo hp rej

/-- **Every stage is order independent**: the conflicted / unconflicted / auth-difference / control / other sets are the
    same sets of IDs, the two orderings are the same LISTS, and the result is a permutation. -/
theorem stages_perm_invariant {U : Event → Prop} (hU : EvId U) (hC : OneCreate U) (algo : Nat)
    {sets sets' : List (List Event)} {auth auth' : List Event}
    (hsU : ∀ s ∈ sets, ∀ x ∈ s, U x) (haU : ∀ x ∈ auth, U x)
    (hs : SetsEquiv sets sets') (ha : SameSet auth auth') (rej : List ID) :
    let r := resolveV2New algo sets auth rej
    let r' := resolveV2New algo sets' auth' rej
    SameSet r.conflicted r'.conflicted ∧ SameSet r.unconflicted r'.unconflicted ∧ SameSet r.authDiff r'.authDiff ∧
    SameSet r.control r'.control ∧ SameSet r.others r'.others ∧
    r.controlOrder = r'.controlOrder ∧ r.othersOrder = r'.othersOrder ∧ r.result ~ r'.result := by
  have hp := prepOf_sim hU hC algo hsU haU hs ha
  simp only [resolveV2New_eq, stagesOf]
  have e1 : (prepOf algo sets auth).conflicted.isEmpty = (prepOf algo sets' auth').conflicted.isEmpty := hp.conflicted.isEmpty
  have e2 : (prepOf algo sets auth).unconflicted.isEmpty = (prepOf algo sets' auth').unconflicted.isEmpty :=
    (SameSet.of_perm hp.unconflicted).isEmpty
  have e3 : auth.isEmpty = auth'.isEmpty := ha.isEmpty
  rw [e1, e2, e3]
  split
  · exact ⟨SameSet.refl _, SameSet.refl _, SameSet.refl _, SameSet.refl _, SameSet.refl _, rfl, rfl, Perm.refl _⟩
  · refine ⟨hp.conflicted.map _, (SameSet.of_perm hp.unconflicted).map _, hp.authDiff.map _, hp.controlIDs,
      (SameSet.of_perm hp.others).map _, ?_, ?_, ?_⟩
    · rw [controlOrderOf_sim hU algo hp]
    · rw [othersOrderOf_sim hU algo hp]
    · exact (stateS4_sim hU algo hp rej).map _

/-- **The order in which the Go maps are ranged over is irrelevant.**  Replace the conflicted list, the unconflicted list, the
    auth map and the auth difference computed by the model (first-insertion order) by ANY lists holding the same events
    (`c'`, `d'` the same sets, `u'` a permutation, `am'` answering lookups alike): the resolved state is a permutation of
    the model's. -/
theorem finalState_internal_order_irrelevant {U : Event → Prop} (hU : EvId U) (algo : Nat)
    {sets : List (List Event)} {auth : List Event} (hsU : ∀ s ∈ sets, ∀ x ∈ s, U x) (haU : ∀ x ∈ auth, U x) (rej : List ID)
    {c' u' am' d' : List Event} (hcU' : ∀ x ∈ c', U x) (hdU' : ∀ x ∈ d', U x)
    (hc : SameSet (prepOf algo sets auth).conflicted c') (hu : (prepOf algo sets auth).unconflicted ~ u')
    (ham : MapEq (prepOf algo sets auth).authMap am') (hd : SameSet (prepOf algo sets auth).authDiff d') :
    stateS4 algo (prepOf algo sets auth) rej ~ stateS4 algo (mkPrep c' u' am' (prepOf algo sets auth).createEv d') rej := by
  have hflU : ∀ x ∈ sets.flatten, U x := by
    intro x hx; obtain ⟨s0, hs0, hx0⟩ := List.mem_flatten.mp hx; exact hsU s0 hs0 x hx0
  have hcU : ∀ x ∈ (splitConflictedUnconflicted false sets).1, U x :=
    fun x hx => hflU x (split_sub false sets (Or.inl hx)).1
  have huU : ∀ x ∈ (splitConflictedUnconflicted false sets).2, U x :=
    fun x hx => hflU x (split_sub false sets (Or.inr hx)).1
  have hdU : ∀ x ∈ authDifferenceNew algo (eventMapFromEvents auth) (splitConflictedUnconflicted false sets).1 sets, U x := by
    intro x hx
    rcases mem_authDifferenceNew_sub hx with h | h
    · exact haU x (mem_eventMap h)
    · exact hcU x h
  have hp : PrepSim U (prepOf algo sets auth) (mkPrep c' u' am' (prepOf algo sets auth).createEv d') := by
    rw [prepOf_eq_mkPrep] at hc hu ham hd ⊢
    exact mkPrep_sim hU _ hcU hcU' huU (fun x hx => huU x (hu.mem_iff.mpr hx)) hdU hdU' hc hu
      (unconflicted_distinctSlots sets) ham hd
  exact stateS4_sim hU algo hp rej

end V.StateRes
