/- Fuel independence of the byte-level compactor (`compactString`, `compactGo`) and the fuel-free
   unfolding equations (`compactStr`, `compactAll`) the rest of the C01 proofs use. Core only. -/
import VModel.Json
namespace V.Json

/-! ### `compactUnicodeEscape` never returns more input than it was given -/

theorem compactUnicodeEscape_length {r out r' : Bytes}
    (h : compactUnicodeEscape r = .ok (out, r')) : r'.length ≤ r.length := by
  unfold compactUnicodeEscape at h
  split at h
  · simp only [] at h
    repeat' split at h
    all_goals first
      | (simp only [Except.ok.injEq, Prod.mk.injEq] at h; obtain ⟨_, rfl⟩ := h
         simp only [List.length_cons, List.length_nil]; omega)
      | cases h
  · simp only [Except.ok.injEq, Prod.mk.injEq] at h; obtain ⟨_, rfl⟩ := h; simp

/-! ### `compactString` -/

theorem compactString_length : ∀ (f : Nat) (s acc acc' r' : Bytes),
    compactString f s acc = .ok (acc', r') → r'.length ≤ s.length
  | 0, s, acc, acc', r', h => by
    simp only [compactString, Except.ok.injEq, Prod.mk.injEq] at h; obtain ⟨_, rfl⟩ := h; simp
  | f + 1, [], acc, acc', r', h => by
    simp only [compactString, Except.ok.injEq, Prod.mk.injEq] at h; obtain ⟨_, rfl⟩ := h; simp
  | f + 1, c :: rest, acc, acc', r', h => by
    unfold compactString at h
    split at h
    · split at h
      · cases h
      · rename_i e rest'
        split at h
        · split at h
          · cases h
          · rename_i out rest'' hc
            have h1 := compactUnicodeEscape_length hc
            have h2 := compactString_length f _ _ _ _ h
            simp only [List.length_cons]; omega
        · split at h
          · have h2 := compactString_length f _ _ _ _ h
            simp only [List.length_cons]; omega
          · have h2 := compactString_length f _ _ _ _ h
            simp only [List.length_cons]; omega
    · split at h
      · simp only [Except.ok.injEq, Prod.mk.injEq] at h; obtain ⟨_, rfl⟩ := h; simp
      · have h2 := compactString_length f _ _ _ _ h
        simp only [List.length_cons]; omega

/-- Any two fuels above the input length give the same result. -/
theorem compactString_fuel : ∀ (f1 f2 : Nat) (s acc : Bytes), s.length < f1 → s.length < f2 →
    compactString f1 s acc = compactString f2 s acc
  | 0, _, _, _, h, _ => by omega
  | _ + 1, 0, _, _, _, h => by omega
  | f1 + 1, f2 + 1, [], acc, _, _ => by simp [compactString]
  | f1 + 1, f2 + 1, c :: rest, acc, h1, h2 => by
    simp only [List.length_cons] at h1 h2
    unfold compactString
    split
    · split
      · rfl
      · rename_i e rest'
        simp only [List.length_cons] at h1 h2
        split
        · split
          · rfl
          · rename_i out rest'' hc
            have hl := compactUnicodeEscape_length hc
            exact compactString_fuel f1 f2 _ _ (by omega) (by omega)
        · split
          · exact compactString_fuel f1 f2 _ _ (by omega) (by omega)
          · exact compactString_fuel f1 f2 _ _ (by omega) (by omega)
    · split
      · rfl
      · exact compactString_fuel f1 f2 _ _ (by omega) (by omega)

/-- `compactString` with sufficient fuel. -/
def compactStr (s acc : Bytes) : Except Err (Bytes × Bytes) := compactString (s.length + 1) s acc

theorem compactString_eq_compactStr {f : Nat} {s : Bytes} (acc : Bytes) (h : s.length < f) :
    compactString f s acc = compactStr s acc :=
  compactString_fuel _ _ _ _ h (Nat.lt_succ_self _)

theorem compactStr_length {s acc acc' r' : Bytes} (h : compactStr s acc = .ok (acc', r')) :
    r'.length ≤ s.length := compactString_length _ _ _ _ _ h

theorem compactString_succ (f : Nat) (c : UInt8) (rest acc : Bytes) :
    compactString (f + 1) (c :: rest) acc =
      if c == 0x5C then
        match rest with
        | [] => .error (.panic "json.go:CompactJSON escape := input[i]")
        | e :: rest' =>
          if e == 0x75 then
            match compactUnicodeEscape rest' with
            | .error err => .error err
            | .ok (out, rest'') => compactString f rest'' (acc ++ out)
          else if e == 0x2F then compactString f rest' (acc ++ [e])
          else compactString f rest' (acc ++ [0x5C, e])
      else if c == 0x22 then .ok (acc ++ [c], rest)
      else compactString f rest (acc ++ [c]) := by
  conv => lhs; unfold compactString
  rfl

theorem compactGo_succ (f : Nat) (prev : Option UInt8) (c : UInt8) (rest acc : Bytes) :
    compactGo (f + 1) prev (c :: rest) acc =
      if c ≤ 0x20 then compactGo f (some c) rest acc
      else if c == 0x2D && isNegZero prev rest then compactGo f (some c) rest acc
      else if c == 0x22 then
        match compactString f rest (acc ++ [c]) with
        | .error e => .error e
        | .ok (acc', rest') => compactGo f (some 0x22) rest' acc'
      else compactGo f (some c) rest (acc ++ [c]) := by
  conv => lhs; unfold compactGo
  rfl

theorem compactStr_nil (acc : Bytes) : compactStr [] acc = .ok (acc, []) := rfl

/-- closing quote -/
theorem compactStr_quote (rest acc : Bytes) : compactStr (0x22 :: rest) acc = .ok (acc ++ [0x22], rest) := by
  simp [compactStr, compactString]

/-- an ordinary byte is copied -/
theorem compactStr_byte (c : UInt8) (rest acc : Bytes) (h1 : (c == 0x5C) = false) (h2 : (c == 0x22) = false) :
    compactStr (c :: rest) acc = compactStr rest (acc ++ [c]) := by
  unfold compactStr
  rw [List.length_cons, compactString_succ]
  simp only [h1, h2, Bool.false_eq_true, ↓reduceIte]

/-- `\/` loses its backslash -/
theorem compactStr_slash (rest acc : Bytes) :
    compactStr (0x5C :: 0x2F :: rest) acc = compactStr rest (acc ++ [0x2F]) := by
  unfold compactStr
  rw [List.length_cons, compactString_succ]
  have : ((0x2F : UInt8) == 0x75) = false := by decide
  simp only [beq_self_eq_true, ↓reduceIte, this, Bool.false_eq_true]
  exact compactString_eq_compactStr _ (by simp only [List.length_cons]; omega)

/-- every other two-character escape is kept -/
theorem compactStr_esc (e : UInt8) (rest acc : Bytes) (h1 : (e == 0x75) = false) (h2 : (e == 0x2F) = false) :
    compactStr (0x5C :: e :: rest) acc = compactStr rest (acc ++ [0x5C, e]) := by
  unfold compactStr
  rw [List.length_cons, compactString_succ]
  simp only [beq_self_eq_true, ↓reduceIte, h1, h2, Bool.false_eq_true]
  exact compactString_eq_compactStr _ (by simp only [List.length_cons]; omega)

/-- `\u….` is delegated to `compactUnicodeEscape` -/
theorem compactStr_u (rest acc out rest' : Bytes) (h : compactUnicodeEscape rest = .ok (out, rest')) :
    compactStr (0x5C :: 0x75 :: rest) acc = compactStr rest' (acc ++ out) := by
  unfold compactStr
  rw [List.length_cons, compactString_succ]
  simp only [beq_self_eq_true, ↓reduceIte, h]
  have := compactUnicodeEscape_length h
  exact compactString_eq_compactStr _ (by simp only [List.length_cons]; omega)

/-! ### `compactGo` -/

theorem compactGo_fuel : ∀ (f1 f2 : Nat) (prev : Option UInt8) (s acc : Bytes), s.length < f1 → s.length < f2 →
    compactGo f1 prev s acc = compactGo f2 prev s acc
  | 0, _, _, _, _, h, _ => by omega
  | _ + 1, 0, _, _, _, _, h => by omega
  | f1 + 1, f2 + 1, prev, [], acc, _, _ => by simp [compactGo]
  | f1 + 1, f2 + 1, prev, c :: rest, acc, h1, h2 => by
    simp only [List.length_cons] at h1 h2
    unfold compactGo
    split
    · exact compactGo_fuel f1 f2 _ _ _ (by omega) (by omega)
    · split
      · exact compactGo_fuel f1 f2 _ _ _ (by omega) (by omega)
      · split
        · rw [compactString_fuel f1 f2 rest _ (by omega) (by omega)]
          split
          · rfl
          · rename_i acc' rest' hs
            have := compactString_length _ _ _ _ _ hs
            exact compactGo_fuel f1 f2 _ _ _ (by omega) (by omega)
        · exact compactGo_fuel f1 f2 _ _ _ (by omega) (by omega)

/-- `compactGo` with sufficient fuel. -/
def compactAll (prev : Option UInt8) (s acc : Bytes) : Except Err Bytes := compactGo (s.length + 1) prev s acc

theorem compactGo_eq_compactAll {f : Nat} {s : Bytes} (prev : Option UInt8) (acc : Bytes) (h : s.length < f) :
    compactGo f prev s acc = compactAll prev s acc :=
  compactGo_fuel _ _ _ _ _ h (Nat.lt_succ_self _)

theorem compact_eq_compactAll (t : Bytes) : compact t = compactAll none t [] := rfl

theorem compactAll_nil (prev : Option UInt8) (acc : Bytes) : compactAll prev [] acc = .ok acc := rfl

/-- whitespace (any byte ≤ 0x20) is skipped -/
theorem compactAll_ws (prev : Option UInt8) (c : UInt8) (rest acc : Bytes) (h : c ≤ 0x20) :
    compactAll prev (c :: rest) acc = compactAll (some c) rest acc := by
  unfold compactAll
  rw [List.length_cons, compactGo_succ]
  simp only [h, ↓reduceIte]

/-- the sign of the literal `-0` is dropped -/
theorem compactAll_negzero (prev : Option UInt8) (rest acc : Bytes) (h : isNegZero prev rest = true) :
    compactAll prev (0x2D :: rest) acc = compactAll (some 0x2D) rest acc := by
  unfold compactAll
  rw [List.length_cons, compactGo_succ]
  have : ¬ ((0x2D : UInt8) ≤ 0x20) := by decide
  simp only [this, ↓reduceIte, beq_self_eq_true, h, Bool.and_self]

/-- every other `-` is copied -/
theorem compactAll_minus (prev : Option UInt8) (rest acc : Bytes) (h : isNegZero prev rest = false) :
    compactAll prev (0x2D :: rest) acc = compactAll (some 0x2D) rest (acc ++ [0x2D]) := by
  unfold compactAll
  rw [List.length_cons, compactGo_succ]
  have h1 : ¬ ((0x2D : UInt8) ≤ 0x20) := by decide
  have h2 : ((0x2D : UInt8) == 0x22) = false := by decide
  simp only [h1, ↓reduceIte, beq_self_eq_true, h, Bool.and_false, Bool.false_eq_true, h2]

/-- a byte that is neither whitespace, `-` nor `"` is copied -/
theorem compactAll_copy (prev : Option UInt8) (c : UInt8) (rest acc : Bytes)
    (h1 : ¬ c ≤ 0x20) (h2 : (c == 0x2D) = false) (h3 : (c == 0x22) = false) :
    compactAll prev (c :: rest) acc = compactAll (some c) rest (acc ++ [c]) := by
  unfold compactAll
  rw [List.length_cons, compactGo_succ]
  simp only [h1, ↓reduceIte, h2, Bool.false_and, Bool.false_eq_true, h3]

/-- a string is handed to `compactString` -/
theorem compactAll_string (prev : Option UInt8) (rest acc acc' rest' : Bytes)
    (h : compactStr rest (acc ++ [0x22]) = .ok (acc', rest')) :
    compactAll prev (0x22 :: rest) acc = compactAll (some 0x22) rest' acc' := by
  unfold compactAll
  rw [List.length_cons, compactGo_succ]
  have h1 : ¬ ((0x22 : UInt8) ≤ 0x20) := by decide
  have h2 : ((0x22 : UInt8) == 0x2D) = false := by decide
  simp only [h1, ↓reduceIte, h2, Bool.false_and, Bool.false_eq_true, beq_self_eq_true]
  rw [compactString_eq_compactStr _ (Nat.lt_succ_self _), h]
  have := compactStr_length h
  exact compactGo_eq_compactAll _ _ (by omega)

end V.Json
