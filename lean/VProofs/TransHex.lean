import VProofs.TransHex.Chunk00
import VProofs.TransHex.Chunk01
import VProofs.TransHex.Chunk02
import VProofs.TransHex.Chunk03
import VProofs.TransHex.Chunk04
import VProofs.TransHex.Chunk05
import VProofs.TransHex.Chunk06
import VProofs.TransHex.Chunk07
import VProofs.TransHex.Chunk08
import VProofs.TransHex.Chunk09
import VProofs.TransHex.Chunk10
import VProofs.TransHex.Chunk11
import VProofs.TransHex.Chunk12
import VProofs.TransHex.Chunk13
import VProofs.TransHex.Chunk14
import VProofs.TransHex.Chunk15
import VProofs.TransHex.Chunk16
import VProofs.TransHex.Chunk17
import VProofs.TransHex.Chunk18
import VProofs.TransHex.Chunk19
import VProofs.TransHex.Chunk20
import VProofs.TransHex.Chunk21
namespace V.Trans.Hex

/-- all 22^4 combinations of hex digits -/
theorem all_chunks : digsV.all chunkOk = true := by
  simp only [digsV, List.all_cons, List.all_nil, Bool.and_true, Bool.and_eq_true]
  exact ⟨chunk_0, chunk_1, chunk_2, chunk_3, chunk_4, chunk_5, chunk_6, chunk_7, chunk_8, chunk_9, chunk_10, chunk_11, chunk_12, chunk_13, chunk_14, chunk_15, chunk_16, chunk_17, chunk_18, chunk_19, chunk_20, chunk_21⟩

theorem ok4_of_mem {a b c d : UInt8 × Nat} (ha : a ∈ digsV) (hb : b ∈ digsV) (hc : c ∈ digsV) (hd : d ∈ digsV) :
    ok4 a b c d = true := by
  have h := List.all_eq_true.mp all_chunks a ha
  unfold chunkOk at h
  exact List.all_eq_true.mp (List.all_eq_true.mp (List.all_eq_true.mp h b hb) c hc) d hd

end V.Trans.Hex
