/-
  Version 1 state resolution, part 3: the facts of part 2 for the model's own constants; `V1State.Sim`
  (equal lookups) is a congruence for everything the resolver does, and the auth verdict `v1Allowed`
  depends on a well-formed state only through its lookups.  Core only.
-/
import VProofs.StateResV1b
import VProofs.AuthLookup
namespace V.StateRes
open V Json GoJson Auth List

theorem d5 : D5 b!"m.room.create" b!"m.room.power_levels" b!"m.room.join_rules" b!"m.room.member" b!"m.room.third_party_invite" :=
  ⟨ne_create_pl, ne_create_jr, ne_create_member, ne_create_tpi, ne_pl_jr, ne_pl_member, ne_pl_tpi, ne_jr_member, ne_jr_tpi,
    ne_member_tpi⟩

/-- what the resolver answers for the slot (t, k): `Create()`, `PowerLevels()`, `JoinRules()` (k = ""), `Member(k)`,
    `ThirdPartyInvite(k)`; `none` for every other (t, k) -/
def V1State.lookup (s : V1State) (t k : Bytes) : Option Event :=
  lookupG b!"m.room.create" b!"m.room.power_levels" b!"m.room.join_rules" b!"m.room.member" b!"m.room.third_party_invite" s t k

/-- the five slot lookups, spelled out -/
theorem V1State.lookup_eq (s : V1State) (t k : Bytes) : s.lookup t k =
    if t = b!"m.room.create" then (if k = [] then s.create else none)
    else if t = b!"m.room.power_levels" then (if k = [] then s.pl else none)
    else if t = b!"m.room.join_rules" then (if k = [] then s.jr else none)
    else if t = b!"m.room.member" then lookupOpt s.members k
    else if t = b!"m.room.third_party_invite" then lookupOpt s.tpis k
    else none := rfl

/-- (t, k) is one of the slots the resolver keeps -/
def isAuthSlot (t k : Bytes) : Prop :=
  isAuthSlotG b!"m.room.create" b!"m.room.power_levels" b!"m.room.join_rules" b!"m.room.member" b!"m.room.third_party_invite" t k

theorem isAuthSlot_iff (t k : Bytes) : isAuthSlot t k ↔
    ((t = b!"m.room.create" ∧ k = []) ∨ (t = b!"m.room.power_levels" ∧ k = []) ∨ (t = b!"m.room.join_rules" ∧ k = []) ∨
      t = b!"m.room.member" ∨ t = b!"m.room.third_party_invite") := Iff.rfl

/-- `addAuthEvent e` stores `e` under the slot (t, k): `e` is a state event of that slot and the slot is kept -/
def authEff (e : Event) (t k : Bytes) : Prop := e.stateKey = some k ∧ e.type = t ∧ isAuthSlot t k

instance (e : Event) (t k : Bytes) : Decidable (authEff e t k) :=
  inferInstanceAs (Decidable (authEffG _ _ _ _ _ e t k))

/-- representation invariant: the create / power-levels / join-rules slots hold events of that type with state key "",
    every non-nil entry of the member / third-party-invite maps is stored under its own state key and has that type,
    map keys are pairwise distinct -/
def V1State.WF (s : V1State) : Prop :=
  WFG b!"m.room.create" b!"m.room.power_levels" b!"m.room.join_rules" b!"m.room.member" b!"m.room.third_party_invite" s

theorem V1State.WF.iff (s : V1State) : s.WF ↔
    ((∀ e, s.create = some e → e.type = b!"m.room.create" ∧ e.stateKey = some []) ∧
     (∀ e, s.pl = some e → e.type = b!"m.room.power_levels" ∧ e.stateKey = some []) ∧
     (∀ e, s.jr = some e → e.type = b!"m.room.join_rules" ∧ e.stateKey = some []) ∧
     (∀ x ∈ s.members, ∀ e, x.2 = some e → e.type = b!"m.room.member" ∧ e.stateKey = some x.1) ∧
     (∀ x ∈ s.tpis, ∀ e, x.2 = some e → e.type = b!"m.room.third_party_invite" ∧ e.stateKey = some x.1) ∧
     (s.members.map (·.1)).Nodup ∧ (s.tpis.map (·.1)).Nodup) :=
  ⟨fun h => ⟨h.create, h.pl, h.jr, h.members, h.tpis, h.membersKeys, h.tpisKeys⟩,
   fun ⟨a, b, c, d, e, f, g⟩ => ⟨a, b, c, d, e, f, g⟩⟩

theorem addAuthEvent_eq (s : V1State) (e : Event) : s.addAuthEvent e =
    addG b!"m.room.create" b!"m.room.power_levels" b!"m.room.join_rules" b!"m.room.member" b!"m.room.third_party_invite" s e := rfl

theorem removeAuthEvent_eq (s : V1State) (t k : Bytes) : s.removeAuthEvent t k =
    removeG b!"m.room.create" b!"m.room.power_levels" b!"m.room.join_rules" b!"m.room.member" b!"m.room.third_party_invite" s t k := rfl

theorem V1State.WF.empty : ({} : V1State).WF := WFG.empty

theorem V1State.WF.addAuthEvent {s : V1State} (h : s.WF) (e : Event) : (s.addAuthEvent e).WF := WFG.addG h e

theorem V1State.WF.removeAuthEvent {s : V1State} (h : s.WF) (t k : Bytes) : (s.removeAuthEvent t k).WF := WFG.removeG h t k

theorem lookup_empty (t k : Bytes) : ({} : V1State).lookup t k = none := lookupG_empty t k

theorem lookup_none_of_not_slot {s : V1State} {t k : Bytes} (h : ¬ isAuthSlot t k) : s.lookup t k = none :=
  lookupG_none_of_not_slot h

/-- `addAuthEvent` is a point update of the lookup function -/
theorem lookup_addAuthEvent (s : V1State) (e : Event) (t k : Bytes) :
    (s.addAuthEvent e).lookup t k = if authEff e t k then some e else s.lookup t k := by
  split
  · rename_i h; exact lookupG_addG_eff d5 s h
  · rename_i h; exact lookupG_addG_not d5 s h

/-- `removeAuthEvent` clears one point of the lookup function -/
theorem lookup_removeAuthEvent (s : V1State) (t0 k0 t k : Bytes) :
    (s.removeAuthEvent t0 k0).lookup t k = if t = t0 ∧ k = k0 then none else s.lookup t k :=
  lookupG_removeG d5 s t0 k0 t k

/-- For a well-formed state the provider handed to the auth checks answers exactly the slot lookup. -/
theorem provider_get {s : V1State} (h : s.WF) (valid : Bool) (t k : Bytes) : (s.provider valid).get t k = s.lookup t k :=
  provider_getG d5 h valid t k
-- WF is needed: the provider searches a flat event list by the events' own (type, state_key), the lookup goes by slot.

/-- the model's own slot lookup is the lookup function -/
theorem V1State.authEventAt_eq_lookup (s : V1State) (t k : Bytes) : s.authEventAt t k = s.lookup t k := by
  unfold V1State.authEventAt V1State.lookup lookupG lookupOpt
  simp only [beq_iff_eq, List.isEmpty_iff]

/-- in a well-formed state an event found under a slot is a state event of exactly that slot (so `addAuthEvent`
    stores it there again) -/
theorem lookup_some_authEff {s : V1State} (h : s.WF) {t k : Bytes} {p : Event} (hl : s.lookup t k = some p) : authEff p t k :=
  lookupG_some_eff h hl
-- WF: a slot could otherwise hold an event of another type / state key.

theorem authEff_key {e : Event} {t k : Bytes} (h : authEff e t k) : e.stateKey.isSome ∧ keyOf e = (t, k) := by
  obtain ⟨h1, h2, _⟩ := h
  unfold keyOf; rw [h1, h2]; exact ⟨rfl, rfl⟩

/-- a stored event sits in its own slot -/
theorem lookup_addAuthEvent_ne (s : V1State) (e : Event) {t k : Bytes} (h : keyOf e ≠ (t, k)) :
    (s.addAuthEvent e).lookup t k = s.lookup t k := by
  rw [lookup_addAuthEvent, if_neg]
  intro hh; exact h (authEff_key hh).2

/-! ## Sim -/

/-- the two states answer every slot lookup alike -/
def V1State.Sim (s s' : V1State) : Prop := ∀ t k, s.lookup t k = s'.lookup t k

/-- `Sim` = the five slot-lookup functions agree -/
theorem V1State.sim_iff (s s' : V1State) : s.Sim s' ↔
    (s.create = s'.create ∧ s.pl = s'.pl ∧ s.jr = s'.jr ∧ (∀ k, lookupOpt s.members k = lookupOpt s'.members k) ∧
      (∀ k, lookupOpt s.tpis k = lookupOpt s'.tpis k)) := by
  constructor
  · intro h
    refine ⟨?_, ?_, ?_, ?_, ?_⟩
    · exact h b!"m.room.create" []
    · exact h b!"m.room.power_levels" []
    · exact h b!"m.room.join_rules" []
    · intro k; exact h b!"m.room.member" k
    · intro k; exact h b!"m.room.third_party_invite" k
  · rintro ⟨h1, h2, h3, h4, h5⟩ t k
    rw [V1State.lookup_eq, V1State.lookup_eq, h1, h2, h3, h4, h5]

theorem V1State.Sim.refl (s : V1State) : s.Sim s := fun _ _ => rfl
theorem V1State.Sim.symm {s s' : V1State} (h : s.Sim s') : s'.Sim s := fun t k => (h t k).symm
theorem V1State.Sim.trans {s s' s'' : V1State} (h : s.Sim s') (h' : s'.Sim s'') : s.Sim s'' := fun t k => (h t k).trans (h' t k)

theorem V1State.Sim.addAuthEvent {s s' : V1State} (h : s.Sim s') (e : Event) : (s.addAuthEvent e).Sim (s'.addAuthEvent e) := by
  intro t k; rw [lookup_addAuthEvent, lookup_addAuthEvent, h t k]

theorem V1State.Sim.removeAuthEvent {s s' : V1State} (h : s.Sim s') (t0 k0 : Bytes) :
    (s.removeAuthEvent t0 k0).Sim (s'.removeAuthEvent t0 k0) := by
  intro t k; rw [lookup_removeAuthEvent, lookup_removeAuthEvent, h t k]

/-- `addAuthEvent`s for different slots commute up to `Sim` -/
theorem addAuthEvent_comm (s : V1State) {a b : Event} (h : keyOf a ≠ keyOf b) :
    ((s.addAuthEvent a).addAuthEvent b).Sim ((s.addAuthEvent b).addAuthEvent a) := by
  intro t k
  simp only [lookup_addAuthEvent]
  by_cases ha : authEff a t k
  · by_cases hb : authEff b t k
    · exact absurd ((authEff_key ha).2.trans (authEff_key hb).2.symm) h
    · simp [ha, hb]
  · simp [ha]
-- `h`: two events of the same slot overwrite each other, so the later one wins.

/-- The auth verdict depends on a well-formed state only through its lookups. -/
theorem v1Allowed_congr {s s' : V1State} (hw : s.WF) (hw' : s'.WF) (h : s.Sim s') (valid : Bool) (e : Event) :
    v1Allowed s valid e = v1Allowed s' valid e := by
  unfold v1Allowed
  rw [allowedFresh_lookup_congr e (s.provider valid) (s'.provider valid) false ⟨?_, rfl⟩]
  intro t k
  rw [provider_get hw, provider_get hw', h t k]
-- WF on both sides: `provider_get`.

end V.StateRes
