/-
  VProofs.EventAccessorsRedact — `Redact()` on an accepted, unredacted event reaches none of its four
  panic sites: the redaction succeeds (the constructor computed it already), its number literals pass
  the canonical-JSON check the input passed (redaction only keeps values of the input), and the
  struct decoding of the redacted JSON reports no error (every kept member is the last of the members
  the struct decoding of the input accepted).  Core Lean only.
-/
import VProofs.EventAccessors
import VProps.C03
namespace V.AccProofs
open V V.Json V.GoJson V.Redact V.EventParse V.RedactProofs V.EventProofs V.EventAccessors

/-! ## Number literals: `jNumbersOk` of a value built from values of the input -/

mutual
theorem jNumbersOk_toJVal : (p : PVal) → jNumbersOk p.toJVal = p.numbersOk
  | .null => rfl
  | .bool _ => rfl
  | .num _ => rfl
  | .str _ _ => rfl
  | .arr xs => by simp only [PVal.toJVal, jNumbersOk, PVal.numbersOk, jNumbersOk_toJVals xs]
  | .obj kvs => by simp only [PVal.toJVal, jNumbersOk, PVal.numbersOk, jNumbersOk_toJMembers kvs]
theorem jNumbersOk_toJVals : (xs : List PVal) → jNumbersOkList (toJVals xs) = numbersOkList xs
  | [] => rfl
  | x :: xs => by simp only [toJVals, jNumbersOkList, numbersOkList, jNumbersOk_toJVal x, jNumbersOk_toJVals xs]
theorem jNumbersOk_toJMembers : (kvs : List (Bytes × Bytes × PVal)) → jNumbersOkMembers (toJMembers kvs) = numbersOkMembers kvs
  | [] => rfl
  | (r, d, v) :: kvs => by
    simp only [toJMembers, jNumbersOkMembers, numbersOkMembers, jNumbersOk_toJVal v, jNumbersOk_toJMembers kvs]
end

theorem jNumMembers_iff (kvs : EventParse.Obj) : jNumbersOkMembers kvs = true ↔ ∀ kv ∈ kvs, jNumbersOk kv.2 = true := by
  induction kvs with
  | nil => simp [jNumbersOkMembers]
  | cons kv rest ih =>
    obtain ⟨k, v⟩ := kv
    simp only [jNumbersOkMembers, Bool.and_eq_true, ih, List.mem_cons, forall_eq_or_imp]

theorem deleteFirst_mem (k : Bytes) (l : EventParse.Obj) : ∀ kv ∈ deleteFirst k l, kv ∈ l := by
  induction l with
  | nil => intro kv h; cases h
  | cons x rest ih =>
    intro kv h
    unfold deleteFirst at h
    split at h
    · exact List.mem_cons_of_mem _ h
    · rcases List.mem_cons.mp h with rfl | h'
      · exact List.mem_cons_self
      · exact List.mem_cons_of_mem _ (ih kv h')

theorem deleteKeys_mem (ks : List Bytes) (l : EventParse.Obj) : ∀ kv ∈ deleteKeys ks l, kv ∈ l := by
  unfold deleteKeys
  induction ks generalizing l with
  | nil => intro kv h; exact h
  | cons k ks ih =>
    intro kv h
    simp only [List.foldl_cons] at h
    exact deleteFirst_mem k l kv (ih _ kv h)

theorem lookupField_mem {kvs : EventParse.Obj} {n : Bytes} {v : JVal} (h : lookupField kvs n = some v) : ∃ kv ∈ kvs, kv.2 = v := by
  rw [lookupField_sel] at h
  cases hl : (sel n kvs).getLast? with
  | none => rw [hl] at h; cases h
  | some kv =>
    rw [hl] at h
    simp only [Option.map_some, Option.some.injEq] at h
    have hm := List.mem_of_getLast? hl
    exact ⟨kv, (List.mem_filter.mp hm).1, h⟩

theorem setKey_vals (P : JVal → Prop) (m : EventParse.Obj) (k : Bytes) (v : JVal) (hm : ∀ kv ∈ m, P kv.2) (hv : P v) :
    ∀ kv ∈ setKey m k v, P kv.2 := by
  unfold setKey
  split
  · intro kv h
    obtain ⟨x, hx, rfl⟩ := List.mem_map.mp h
    split
    · exact hv
    · exact hm x hx
  · intro kv h
    rcases List.mem_append.mp h with h | h
    · exact hm kv h
    · simp only [List.mem_singleton] at h; subst h; exact hv

theorem mergeInto_vals (P : JVal → Prop) (acc m : EventParse.Obj) (ha : ∀ kv ∈ acc, P kv.2) (hm : ∀ kv ∈ m, P kv.2) :
    ∀ kv ∈ mergeInto acc m, P kv.2 := by
  unfold mergeInto
  induction m generalizing acc with
  | nil => exact ha
  | cons x rest ih =>
    simp only [List.foldl_cons]
    exact ih _ (setKey_vals P acc x.1 x.2 ha (hm x List.mem_cons_self)) (fun kv h => hm kv (List.mem_cons_of_mem _ h))

theorem decContent_vals (name : Bytes) (kvs : EventParse.Obj) (h : ∀ kv ∈ kvs, jNumbersOk kv.2 = true) :
    ∀ m, (decContent name kvs).val = some m → ∀ kv ∈ m, jNumbersOk kv.2 = true := by
  unfold decContent
  suffices H : ∀ (l : EventParse.Obj) (acc : ContentDec), (∀ kv ∈ l, jNumbersOk kv.2 = true) →
      (∀ m, acc.val = some m → ∀ kv ∈ m, jNumbersOk kv.2 = true) →
      ∀ m, (l.foldl (fun acc kv =>
        if matchesField kv.1 name then
          match kv.2 with
          | .obj m => { val := some (mergeInto (acc.val.getD []) m), err := acc.err, cls := acc.cls.worst (floatScanMembers m) }
          | .null => { acc with val := none }
          | _ => { acc with err := true }
        else acc) acc).val = some m → ∀ kv ∈ m, jNumbersOk kv.2 = true by
    exact H kvs {} h (by intro m hm; cases hm)
  intro l
  induction l with
  | nil => intro acc _ ha; exact ha
  | cons x rest ih =>
    intro acc hl ha
    simp only [List.foldl_cons]
    apply ih _ (fun kv hkv => hl kv (List.mem_cons_of_mem _ hkv))
    split
    · split
      · rename_i m0 hx
        intro m hm
        simp only [Option.some.injEq] at hm
        subst hm
        have hx2 : jNumbersOk x.2 = true := hl x List.mem_cons_self
        rw [hx] at hx2
        have hm0 : ∀ kv ∈ m0, jNumbersOk kv.2 = true := (jNumMembers_iff m0).mp (by simpa [jNumbersOk] using hx2)
        apply mergeInto_vals (fun v => jNumbersOk v = true) _ _ _ hm0
        cases hv : acc.val with
        | none => intro kv hkv; cases hkv
        | some m1 => exact ha m1 hv
      · intro m hm; cases hm
      · exact ha
    · exact ha

theorem newContent_vals (ct : CTable) (ty : Bytes) (c : Option EventParse.Obj)
    (hc : ∀ m, c = some m → ∀ kv ∈ m, jNumbersOk kv.2 = true) :
    ∀ m, newContent ct ty c = some m → ∀ kv ∈ m, jNumbersOk kv.2 = true := by
  unfold newContent
  split
  · exact hc
  · intro m hm
    simp only [Option.some.injEq] at hm
    subst hm
    intro kv hkv
    obtain ⟨k, _, hk⟩ := List.mem_filterMap.mp hkv
    cases hg : mapGet (c.getD []) k with
    | none => rw [hg] at hk; cases hk
    | some v =>
      rw [hg] at hk
      simp only [Option.map_some, Option.some.injEq] at hk
      subst hk
      obtain ⟨k', hmem⟩ := mapGet_mem _ _ _ hg
      cases hcv : c with
      | none => rw [hcv] at hmem; cases hmem
      | some m0 =>
        rw [hcv] at hmem
        exact hc m0 hcv (k', v) hmem
  · intro m hm
    simp only [Option.some.injEq] at hm
    subst hm
    intro kv hkv; cases hkv

/-- redaction only keeps values of the input (and the decoded type string) -/
theorem redactObj_numbers_ok {a : Algo} {kvs rk : EventParse.Obj} (hn : jNumbersOkMembers kvs = true)
    (hro' : redactObj a kvs = .ok (.obj rk)) : jNumbersOkMembers rk = true := by
  obtain ⟨tf, cf, _, hv⟩ := redactObj_ok hro'
  have hrk : rk = outputOf a kvs tf cf := by injection hv
  have hall := (jNumMembers_iff kvs).mp hn
  rw [jNumMembers_iff, hrk]
  intro kv hkv
  unfold outputOf at hkv
  obtain ⟨f, _, hkf⟩ := List.mem_flatMap.mp hkv
  have hnc := newContent_vals a.ctable (decType tf.name kvs).val (decContent cf.name kvs).val (decContent_vals cf.name kvs hall)
  unfold emitField at hkf
  split at hkf
  · split at hkf
    · cases hkf
    · simp only [List.mem_singleton] at hkf; subst hkf; rfl
  · split at hkf
    · split at hkf
      · cases hkf
      · simp only [List.mem_singleton] at hkf; subst hkf; rfl
    · rename_i m hm
      split at hkf
      · cases hkf
      · simp only [List.mem_singleton] at hkf; subst hkf
        simp only [jNumbersOk]
        exact (jNumMembers_iff m).mpr (hnc m hm)
  · split at hkf
    · rename_i v hl
      simp only [List.mem_singleton] at hkf; subst hkf
      obtain ⟨kv0, hkv0, rfl⟩ := lookupField_mem hl
      exact hall kv0 hkv0
    · cases hkf
  · cases hkf

/-- … and `RedactEventJSON` first restricts the event to the last member under each exact field name -/
theorem redacted_numbers_ok {ver : Bytes} {kvs rk : EventParse.Obj} (hn : jNumbersOkMembers kvs = true)
    (hr : redactJSON ver (.obj kvs) = .ok (.obj rk)) : jNumbersOkMembers rk = true := by
  obtain ⟨a, kvs0, rk0, ha, hro, hr0⟩ := C04.redactJSON_obj hr
  have hro' : redactObj a (exactFields a.fields kvs) = .ok (.obj rk) := by simpa [redactJSON, ha, redactWith] using hr
  apply redactObj_numbers_ok _ hro'
  rw [jNumMembers_iff] at hn ⊢
  intro kv hkv
  obtain ⟨f, _, _, hl⟩ := exactFields_mem hkv
  exact hn (f.name, kv.2) (lookupExact_mem hl)

/-! ## Struct decoding of the redacted JSON -/

theorem lookupField_last (kvs : EventParse.Obj) (n : Bytes) : lookupField kvs n = (members kvs n).getLast? := by
  rw [lookupField_sel, C05.members_eq_sel, List.getLast?_map]

theorem foldl_err {α : Type} (step : Dec α → JVal → Dec α) (bad : JVal → Bool)
    (hstep : ∀ acc v, (step acc v).err = (acc.err || bad v)) (vs : List JVal) (acc : Dec α) :
    (vs.foldl step acc).err = (acc.err || vs.any bad) := by
  induction vs generalizing acc with
  | nil => simp
  | cons v rest ih => simp only [List.foldl_cons, ih, hstep, List.any_cons, Bool.or_assoc]

theorem err_last {α : Type} (step : Dec α → JVal → Dec α) (bad : JVal → Bool)
    (hstep : ∀ acc v, (step acc v).err = (acc.err || bad v)) (init : Dec α) (hi : init.err = false) (vs : List JVal)
    (h : (vs.foldl step init).err = false) : ((vs.getLast?.toList).foldl step init).err = false := by
  rw [foldl_err step bad hstep, hi, Bool.false_or] at h ⊢
  cases hl : vs.getLast? with
  | none => rfl
  | some v =>
    have hm := List.mem_of_getLast? hl
    have := (List.any_eq_false.mp h) v hm
    simp [this]

theorem seqString_last (vs : List JVal) (h : (seqString vs).err = false) : (seqString vs.getLast?.toList).err = false := by
  unfold seqString at h ⊢
  exact err_last _ (fun v => match v with | .str _ => false | .null => false | _ => true)
    (by intro acc v; cases v <;> simp) _ rfl vs h

theorem seqStringPtr_last (vs : List JVal) (h : (seqStringPtr vs).err = false) : (seqStringPtr vs.getLast?.toList).err = false := by
  unfold seqStringPtr at h ⊢
  exact err_last _ (fun v => match v with | .str _ => false | .null => false | _ => true)
    (by intro acc v; cases v <;> simp) _ rfl vs h

theorem seqInt64_last (vs : List JVal) (h : (seqInt64 vs).err = false) : (seqInt64 vs.getLast?.toList).err = false := by
  unfold seqInt64 at h ⊢
  exact err_last _ (fun v => match v with | .num lit => (parseInt64 lit).isNone | .null => false | _ => true)
    (by
      intro acc v
      cases v with
      | num lit => cases hp : parseInt64 lit <;> simp [hp]
      | _ => simp) _ rfl vs h

theorem seqUint64_last (vs : List JVal) (h : (seqUint64 vs).err = false) : (seqUint64 vs.getLast?.toList).err = false := by
  unfold seqUint64 at h ⊢
  exact err_last _ (fun v => match v with | .num lit => (parseUint64 lit).isNone | .null => false | _ => true)
    (by
      intro acc v
      cases v with
      | num lit => cases hp : parseUint64 lit <;> simp [hp]
      | _ => simp) _ rfl vs h

/-- the element-wise form: any ONE of the members (or none) instead of the last — the redaction keeps the
    last member under the EXACT name, which is one of the members the struct decoding read -/
theorem err_pick {α : Type} (step : Dec α → JVal → Dec α) (bad : JVal → Bool)
    (hstep : ∀ acc v, (step acc v).err = (acc.err || bad v)) (init : Dec α) (hi : init.err = false) (vs : List JVal)
    (h : (vs.foldl step init).err = false) (w : Option JVal) (hw : ∀ v, w = some v → v ∈ vs) :
    ((w.toList).foldl step init).err = false := by
  rw [foldl_err step bad hstep, hi, Bool.false_or] at h ⊢
  cases w with
  | none => rfl
  | some v =>
    have := (List.any_eq_false.mp h) v (hw v rfl)
    simp [this]

theorem seqString_pick (vs : List JVal) (h : (seqString vs).err = false) (w : Option JVal) (hw : ∀ v, w = some v → v ∈ vs) :
    (seqString w.toList).err = false := by
  unfold seqString at h ⊢
  exact err_pick _ (fun v => match v with | .str _ => false | .null => false | _ => true)
    (by intro acc v; cases v <;> simp) _ rfl vs h w hw

theorem seqStringPtr_pick (vs : List JVal) (h : (seqStringPtr vs).err = false) (w : Option JVal) (hw : ∀ v, w = some v → v ∈ vs) :
    (seqStringPtr w.toList).err = false := by
  unfold seqStringPtr at h ⊢
  exact err_pick _ (fun v => match v with | .str _ => false | .null => false | _ => true)
    (by intro acc v; cases v <;> simp) _ rfl vs h w hw

theorem seqInt64_pick (vs : List JVal) (h : (seqInt64 vs).err = false) (w : Option JVal) (hw : ∀ v, w = some v → v ∈ vs) :
    (seqInt64 w.toList).err = false := by
  unfold seqInt64 at h ⊢
  exact err_pick _ (fun v => match v with | .num lit => (parseInt64 lit).isNone | .null => false | _ => true)
    (by
      intro acc v
      cases v with
      | num lit => cases hp : parseInt64 lit <;> simp [hp]
      | _ => simp) _ rfl vs h w hw

theorem seqUint64_pick (vs : List JVal) (h : (seqUint64 vs).err = false) (w : Option JVal) (hw : ∀ v, w = some v → v ∈ vs) :
    (seqUint64 w.toList).err = false := by
  unfold seqUint64 at h ⊢
  exact err_pick _ (fun v => match v with | .num lit => (parseUint64 lit).isNone | .null => false | _ => true)
    (by
      intro acc v
      cases v with
      | num lit => cases hp : parseUint64 lit <;> simp [hp]
      | _ => simp) _ rfl vs h w hw

theorem decSlice_v3 (vs : List JVal) : decSlice .v3 vs = decSlice .v2 vs := by
  unfold decSlice
  split <;> rfl

/-- the struct `Redact()` decodes into: eventV1 for eventV1, eventV2 for the two later structs -/
def redactFmt (fmt : Fmt) : Fmt := if fmt == .v1 then .v1 else .v2

theorem decSlice_redactFmt (fmt : Fmt) (vs : List JVal) : decSlice (redactFmt fmt) vs = decSlice fmt vs := by
  cases fmt
  · rfl
  · rfl
  · exact (decSlice_v3 vs).symm

theorem decSlice_last (fmt : Fmt) (vs : List JVal) (he : (decSlice fmt vs).err = false) (hu : (decSlice fmt vs).unmodelled = false) :
    (decSlice (redactFmt fmt) vs.getLast?.toList).err = false := by
  rw [decSlice_redactFmt]
  cases vs with
  | nil => exact he
  | cons x r =>
    cases r with
    | nil => exact he
    | cons y r' =>
      exfalso
      unfold decSlice at hu
      simp at hu

theorem decSlice_pick (fmt : Fmt) (vs : List JVal) (he : (decSlice fmt vs).err = false) (hu : (decSlice fmt vs).unmodelled = false)
    (w : Option JVal) (hw : ∀ v, w = some v → v ∈ vs) : (decSlice (redactFmt fmt) w.toList).err = false := by
  rw [decSlice_redactFmt]
  cases w with
  | none => rfl
  | some v =>
    have hv := hw v rfl
    cases vs with
    | nil => cases hv
    | cons x r =>
      cases r with
      | nil =>
        have : v = x := by simpa using hv
        subst this
        exact he
      | cons y r' =>
        exfalso
        unfold decSlice at hu
        simp at hu

/-- the names the event structs decode, by what the keep struct does with them -/
def rawNames : List Bytes := [b!"room_id", b!"sender", b!"state_key", b!"depth", b!"origin_server_ts", b!"event_id",
  b!"prev_events", b!"auth_events"]
def absentNames : List Bytes := [b!"redacts", b!"msc4354_sticky", b!"sticky"]

def decShape (a : Algo) : Bool :=
  rawNames.all (fun n => a.fields.any (fun f => f.name == n && f.kind == .raw)) &&
  absentNames.all (fun n => a.fields.all (fun g => foldBytes g.name != foldBytes n))

theorem algos_decShape : ∀ row ∈ VGen.roomVersions,
    (match algoByName row.redactionAlgorithm with
     | some a => decShape a
     | none => false) = true := by
  decide

theorem algoOf_decShape {ver : Bytes} {a : Algo} (h : algoOf ver = some a) : decShape a = true := by
  unfold algoOf at h
  cases hr : rowOf ver with
  | none => rw [hr] at h; cases h
  | some row =>
    rw [hr] at h
    simp only [Option.bind_some] at h
    have := algos_decShape row (rowOf_mem hr)
    rw [h] at this
    simpa using this

theorem members_raw {a : Algo} (hd : foldDistinct a.fields = true) (kvs : EventParse.Obj) (tf cf : Field) {n : Bytes}
    (hn : a.fields.any (fun f => f.name == n && f.kind == .raw) = true) :
    members (outputOf a kvs tf cf) n = (members kvs n).getLast?.toList := by
  obtain ⟨f, hf, hfn⟩ := List.any_eq_true.mp hn
  simp only [Bool.and_eq_true, beq_iff_eq] at hfn
  obtain ⟨hname, hraw⟩ := hfn
  subst hname
  rw [C05.members_eq_sel]
  have hsel := sel_flatMap_emit (emitField kvs (decType tf.name kvs).val
      (newContent a.ctable (decType tf.name kvs).val (decContent cf.name kvs).val))
      (fun g kv hkv => emitField_name hkv) a.fields hd f hf
  have : sel f.name (outputOf a kvs tf cf) = _ := hsel
  rw [this]
  simp only [emitField, hraw]
  rw [lookupField_last]
  cases (members kvs f.name).getLast? <;> rfl

theorem members_absent {a : Algo} (kvs : EventParse.Obj) (tf cf : Field) {n : Bytes}
    (hn : a.fields.all (fun g => foldBytes g.name != foldBytes n) = true) :
    members (outputOf a kvs tf cf) n = [] := by
  rw [C05.members_eq_sel]
  have := sel_flatMap_emit_other (emitField kvs (decType tf.name kvs).val
      (newContent a.ctable (decType tf.name kvs).val (decContent cf.name kvs).val))
      (fun g kv hkv => emitField_name hkv) a.fields n
      (fun g hg => by simpa using List.all_eq_true.mp hn g hg)
  have h2 : sel n (outputOf a kvs tf cf) = [] := this
  rw [h2]; rfl

theorem members_type {a : Algo} (hT : tablesOk a = true) (kvs : EventParse.Obj) {tf : Field} (cf : Field)
    (htf : typeField a.fields = some tf) :
    members (outputOf a kvs tf cf) tf.name = [.str (decType tf.name kvs).val] := by
  obtain ⟨hd, _, hto, _⟩ := tablesOk_parts hT
  obtain ⟨hmem, hkind⟩ := typeField_mem htf
  rw [C05.members_eq_sel]
  have hsel := sel_flatMap_emit (emitField kvs (decType tf.name kvs).val
      (newContent a.ctable (decType tf.name kvs).val (decContent cf.name kvs).val))
      (fun g kv hkv => emitField_name hkv) a.fields hd tf hmem
  have : sel tf.name (outputOf a kvs tf cf) = _ := hsel
  rw [this]
  simp only [emitField, hkind, hto tf htf, Bool.false_and, Bool.false_eq_true, if_false, List.map_cons, List.map_nil]

/-- what the restriction to exact field names holds under a field's name: one of the members the struct
    decoding of the event reads for that name (the last one with exactly that key), or nothing -/
theorem members_exactFields {fs : List Field} (hd : foldDistinct fs = true) (kvs : EventParse.Obj) {f : Field} (hf : f ∈ fs) :
    members (exactFields fs kvs) f.name = (lookupExact kvs f.name).toList ∧
    ∀ v, lookupExact kvs f.name = some v → v ∈ members kvs f.name := by
  constructor
  · rw [C05.members_eq_sel, sel_wf (exactFields_wf hd kvs) hf, lookupExact_exactFields (names_nodup hd) kvs hf]
    cases lookupExact kvs f.name <;> rfl
  · intro v hv
    have hm := lookupExact_mem hv
    unfold members
    exact List.mem_map.mpr ⟨(f.name, v), List.mem_filter.mpr ⟨hm, matchesField_self _⟩, rfl⟩

/-- **The struct decoding of the redacted JSON reports no error** when that of the input did not. -/
theorem redacted_decode_ok {ver : Bytes} {kvs rk : EventParse.Obj} {fmt : Fmt}
    (hr : redactJSON ver (.obj kvs) = .ok (.obj rk))
    (hd : (decodeFields fmt kvs).err = false) (hu : (decodeFields fmt kvs).unmodelled = false) :
    (decodeFields (redactFmt fmt) rk).err = false := by
  obtain ⟨a, _, _, ha, _, _⟩ := C04.redactJSON_obj hr
  have hro' : redactObj a (exactFields a.fields kvs) = .ok (.obj rk) := by simpa [redactJSON, ha, redactWith] using hr
  obtain ⟨tf, cf, F, hv⟩ := redactObj_ok hro'
  have hrk : rk = outputOf a (exactFields a.fields kvs) tf cf := by injection hv
  obtain ⟨hT, hS⟩ := C05.algoOf_ok ha
  obtain ⟨tf', cf', htf', _, hn1, _⟩ := C05.shape_names hS
  have htf : tf' = tf := by have := F.htf; rw [htf'] at this; exact Option.some.inj this
  subst htf
  obtain ⟨hdist, _, _, _⟩ := tablesOk_parts hT
  have hsh := algoOf_decShape ha
  simp only [decShape, Bool.and_eq_true] at hsh
  obtain ⟨hraws, habs⟩ := hsh
  -- a kept raw member is ONE of the members the struct decoding of the input read (or is absent)
  have raw : ∀ n ∈ rawNames, ∃ w : Option JVal, members rk n = w.toList ∧ ∀ v, w = some v → v ∈ members kvs n := by
    intro n hn
    have hany := List.all_eq_true.mp hraws n hn
    obtain ⟨f, hf, hfn⟩ := List.any_eq_true.mp hany
    simp only [Bool.and_eq_true, beq_iff_eq] at hfn
    obtain ⟨hname, _⟩ := hfn
    subst hname
    obtain ⟨m1, m2⟩ := members_exactFields hdist kvs hf
    refine ⟨lookupExact kvs f.name, ?_, m2⟩
    rw [hrk, members_raw hdist _ tf' cf hany, m1]
    cases lookupExact kvs f.name <;> rfl
  have abs : ∀ n ∈ absentNames, members rk n = [] := by
    intro n hn
    rw [hrk]
    exact members_absent _ tf' cf (List.all_eq_true.mp habs n hn)
  have hty : members rk b!"type" = [.str (decType tf'.name (exactFields a.fields kvs)).val] := by
    rw [hrk, ← hn1]
    exact members_type hT _ cf htf'
  simp only [decodeFields, Bool.or_eq_false_iff] at hd hu ⊢
  obtain ⟨⟨⟨⟨⟨⟨⟨⟨⟨⟨⟨d1, d2⟩, _⟩, d4⟩, _⟩, d6⟩, d7⟩, d8⟩, d9⟩, d10⟩, _⟩, _⟩ := hd
  obtain ⟨u1, u2⟩ := hu
  obtain ⟨w1, e1, p1⟩ := raw b!"room_id" (by simp [rawNames])
  obtain ⟨w2, e2, p2⟩ := raw b!"sender" (by simp [rawNames])
  obtain ⟨w4, e4, p4⟩ := raw b!"state_key" (by simp [rawNames])
  obtain ⟨w6, e6, p6⟩ := raw b!"depth" (by simp [rawNames])
  obtain ⟨w7, e7, p7⟩ := raw b!"origin_server_ts" (by simp [rawNames])
  obtain ⟨w8, e8, p8⟩ := raw b!"event_id" (by simp [rawNames])
  obtain ⟨w9, e9, p9⟩ := raw b!"prev_events" (by simp [rawNames])
  obtain ⟨w10, e10, p10⟩ := raw b!"auth_events" (by simp [rawNames])
  rw [e1, e2, e4, e6, e7, e8, e9, e10,
    abs b!"redacts" (by simp [absentNames]), abs b!"msc4354_sticky" (by simp [absentNames]), abs b!"sticky" (by simp [absentNames]), hty]
  refine ⟨⟨⟨⟨⟨⟨⟨⟨⟨⟨⟨seqString_pick _ d1 w1 p1, seqString_pick _ d2 w2 p2⟩, rfl⟩, seqStringPtr_pick _ d4 w4 p4⟩, rfl⟩, seqInt64_pick _ d6 w6 p6⟩,
    seqUint64_pick _ d7 w7 p7⟩, seqString_pick _ d8 w8 p8⟩, decSlice_pick fmt _ d9 u1 w9 p9⟩, decSlice_pick fmt _ d10 u2 w10 p10⟩, rfl⟩, rfl⟩

/-! ## What the constructor established for an event it did not flag as redacted -/

theorem parseUntrusted_enf {H : Bytes → Bytes} {ver text : Bytes} {e : PDU} (h : parseUntrusted H ver text = .ok e) :
    ∃ row p enf, rowOf ver = some row ∧ parse text = some p ∧ enforces row = some enf ∧ (enf = true → p.numbersOk = true) := by
  unfold parseUntrusted at h
  split at h
  · cases h
  · rename_i row hrow
    split at h
    · rename_i fmt enf hfmt henf
      split at h
      · cases h
      · rename_i p hp
        split at h
        · cases h
        · split at h
          · cases h
          · rename_i h2
            refine ⟨row, p, enf, hrow, hp, henf, ?_⟩
            intro he
            subst he
            simpa using h2
    · cases h

theorem construct_decode {fmt : Fmt} {ver : Bytes} {red : Bool} {text : Bytes} {kvs : EventParse.Obj} {e : PDU}
    (h : construct fmt ver red text (.obj kvs) = .ok e) :
    (decodeFields fmt kvs).err = false ∧ (decodeFields fmt kvs).unmodelled = false := by
  unfold construct at h
  simp only at h
  split at h
  · cases h
  · rename_i h1
    split at h
    · cases h
    · rename_i h2
      exact ⟨by simpa using h1, by simpa using h2⟩

theorem finishUntrusted_intact {H : Bytes → Bytes} {row : VGen.VersionRow} {fmt : Fmt} {ver text' : Bytes} {e1 e : PDU}
    (h : finishUntrusted H row fmt ver text' e1 = .ok e) (hh : contentHashOk H e1.obj = true) :
    redactableV1 fmt ver e1 = .ok () := by
  unfold finishUntrusted at h
  simp only [hh, if_true] at h
  split at h
  · cases h
  · split at h
    · cases h
    · rename_i hr; exact hr

theorem referenceID_redactable {H : Bytes → Bytes} {row : VGen.VersionRow} {ver : Bytes} {j : JVal} {id : Bytes}
    (h : referenceID H row ver j = .ok id) : ∃ rk, redactJSON ver j = .ok (.obj rk) := by
  unfold referenceID at h
  split at h
  · cases h
  · rename_i r hr; exact ⟨r, hr⟩
  · cases h

/-- what `Redact()` relies on when the event is not flagged as redacted -/
structure Intact (ver : Bytes) (row : VGen.VersionRow) (e : PDU) : Prop where
  err : (decodeFields e.fmt e.obj).err = false
  unm : (decodeFields e.fmt e.obj).unmodelled = false
  redactable : ∃ rk, redactJSON ver (.obj e.obj) = .ok (.obj rk)
  numbers : enforces row = some true → jNumbersOkMembers e.obj = true

theorem intact_of_accepted {H : Bytes → Bytes} {ver text : Bytes} {e : PDU} (h : parseUntrusted H ver text = .ok e)
    (hred : e.redacted = false) {row : VGen.VersionRow} (I : Inv H ver row e) : Intact ver row e := by
  obtain ⟨row1, p1, enf, hrow1, hp1, henf, hnum⟩ := parseUntrusted_enf h
  obtain ⟨row2, fmt, p, e0, R, hfin⟩ := C04.parseUntrusted_ok h
  obtain ⟨row3, fmt3, p3, kvs, hrow3, hfmt3, hp3, hs, hA, hef, hcase⟩ := C04.parseUntrusted_cases h
  have r1 : row1 = row := by have := I.hrow; rw [hrow1] at this; exact Option.some.inj this
  have r2 : row2 = row := by have := I.hrow; rw [R.hrow] at this; exact Option.some.inj this
  have r3 : row3 = row := by have := I.hrow; rw [hrow3] at this; exact Option.some.inj this
  subst r1; subst r2; subst r3
  have f3 : fmt3 = fmt := by have := R.hfmt; rw [hfmt3] at this; exact Option.some.inj this
  subst f3
  have q1 : p1 = p := by have := R.hparse; rw [hp1] at this; exact Option.some.inj this
  have q3 : p3 = p := by have := R.hparse; rw [hp3] at this; exact Option.some.inj this
  subst q1; subst q3
  have hint : contentHashOk H kvs = true ∧ e.obj = kvs := by
    rcases hcase with ⟨hh, _, hobj, _⟩ | ⟨_, hr, _⟩
    · exact ⟨hh, hobj⟩
    · rw [hred] at hr; cases hr
  obtain ⟨hh, hobj⟩ := hint
  obtain ⟨kvs', hj, g1, g2, g3, g4, g5, g6, g7⟩ := C04.resetID_facts R.hcons
  have hk : kvs' = kvs := by rw [hs] at hj; injection hj with h1; exact h1.symm
  subst hk
  have hcons := R.hcons
  rw [hs] at hcons
  obtain ⟨d1, d2⟩ := construct_decode hcons
  refine ⟨by rw [hef, hobj]; exact d1, by rw [hef, hobj]; exact d2, ?_, ?_⟩
  · by_cases hv : e.fmt = .v1
    · have hra := finishUntrusted_intact hfin (by rw [g5]; exact hh)
      unfold redactableV1 at hra
      have hv' : fmt3 = .v1 := by rw [← hef]; exact hv
      rw [if_pos (by simp [hv'])] at hra
      split at hra
      · rename_i r hrj
        rw [g5] at hrj
        obtain ⟨_, _, rk, _, _, hr0⟩ := C04.redactJSON_obj hrj
        subst hr0
        exact ⟨rk, by rw [hobj]; exact hrj⟩
      · split at hra <;> cases hra
      · cases hra
    · exact referenceID_redactable (I.hid hv)
  · intro he
    have he' : enf = true := by rw [henf] at he; exact Option.some.inj he
    have hp := hnum he'
    rw [← jNumbersOk_toJVal] at hp
    rw [hobj, jNumMembers_iff]
    intro kv hkv
    cases hpj : p3.toJVal with
    | obj kvs0 =>
      rw [hpj] at hs hp
      simp only [stripped, JVal.obj.injEq] at hs
      subst hs
      have := (jNumMembers_iff kvs0).mp (by simpa [jNumbersOk] using hp)
      exact this kv (deleteKeys_mem _ _ kv hkv)
    | _ => rw [hpj] at hs; simp [stripped] at hs

theorem cls_ite_np {α : Type} {c : Prop} [Decidable c] {a b : Except Err α} {site : String}
    (ha : cls a ≠ .error (.panic site)) (hb : cls b ≠ .error (.panic site)) : cls (if c then a else b) ≠ .error (.panic site) := by
  split <;> assumption

/-- **`Redact()` reaches none of its panic sites on an accepted event.** -/
theorem redact_np {H : Bytes → Bytes} {ver text : Bytes} {e : PDU} (h : parseUntrusted H ver text = .ok e)
    {row : VGen.VersionRow} (I : Inv H ver row e) (site : String) : cls (redact e) ≠ .error (.panic site) := by
  unfold redact
  split
  · intro h; cases h
  · rename_i hred
    have hred : e.redacted = false := by simpa using hred
    have T := intact_of_accepted h hred I
    obtain ⟨rk, hrk⟩ := T.redactable
    rw [I.hver, I.hrow]
    simp only [hrk]
    obtain ⟨b, hb⟩ := (rowFacts I.hrow I.hfmt).enf
    have hnum : enforcedOkVal row (.obj rk) = some true := by
      unfold enforcedOkVal
      rw [hb]
      cases b with
      | false => rfl
      | true =>
        have := redacted_numbers_ok (T.numbers hb) hrk
        simp [jNumbersOk, this]
    rw [hnum]
    simp only
    have hdec := redacted_decode_ok hrk T.err T.unm
    unfold redactFmt at hdec
    rw [hdec]
    simp only [Bool.false_eq_true, if_false]
    exact cls_ite_np (by intro h; cases h) (by intro h; cases h)

/-! ## `Sign()` on an accepted event whose `signatures` member decodes -/

/-- every accepted event (flagged redacted or not) can be redacted again -/
theorem accepted_redactable {H : Bytes → Bytes} {ver text : Bytes} {e : PDU} (h : parseUntrusted H ver text = .ok e)
    {row : VGen.VersionRow} (I : Inv H ver row e) : ∃ rk, redactJSON ver (.obj e.obj) = .ok (.obj rk) := by
  by_cases hv : e.fmt = .v1
  · by_cases hred : e.redacted = false
    · exact (intact_of_accepted h hred I).redactable
    · obtain ⟨row3, fmt3, p3, kvs, hrow3, hfmt3, hp3, hs, hA, hef, hcase⟩ := C04.parseUntrusted_cases h
      rcases hcase with ⟨_, hr, _⟩ | ⟨_, _, r0, hr0, _, ho | hdrop⟩
      · exact absurd hr hred
      · obtain ⟨_, _, rk, _, _, hrk⟩ := C04.redactJSON_obj hr0
        subst hrk
        exact ⟨rk, by rw [ho]; exact hr0⟩
      · obtain ⟨_, _, rk, _, _, hrk⟩ := C04.redactJSON_obj hr0
        subst hrk
        have hf : fmt3 = .v1 := by rw [← hef]; exact hv
        subst hf
        have hd : dropEventID Fmt.v1 (.obj rk) = .obj rk := rfl
        rw [hd] at hdrop
        have : e.obj = rk := by injection hdrop with h1; exact h1.symm
        exact ⟨rk, by rw [this]; exact C05.redact_idem hr0⟩
  · exact referenceID_redactable (I.hid hv)

/-- the number literals of every accepted event pass the canonical-JSON check of its version -/
theorem accepted_numbers {H : Bytes → Bytes} {ver text : Bytes} {e : PDU} (h : parseUntrusted H ver text = .ok e)
    {row : VGen.VersionRow} (I : Inv H ver row e) (henf : enforces row = some true) : jNumbersOkMembers e.obj = true := by
  obtain ⟨row1, p1, enf, hrow1, hp1, henf1, hnum⟩ := parseUntrusted_enf h
  obtain ⟨row3, fmt3, p3, kvs, hrow3, hfmt3, hp3, hs, hA, hef, hcase⟩ := C04.parseUntrusted_cases h
  have r1 : row1 = row := by have := I.hrow; rw [hrow1] at this; exact Option.some.inj this
  subst r1
  have q : p1 = p3 := by rw [hp1] at hp3; exact Option.some.inj hp3
  subst q
  have he' : enf = true := by rw [henf1] at henf; exact Option.some.inj henf
  have hp := hnum he'
  rw [← jNumbersOk_toJVal] at hp
  have hk : jNumbersOkMembers kvs = true := by
    rw [jNumMembers_iff]
    intro kv hkv
    cases hpj : p1.toJVal with
    | obj kvs0 =>
      rw [hpj] at hs hp
      simp only [stripped, JVal.obj.injEq] at hs
      subst hs
      have := (jNumMembers_iff kvs0).mp (by simpa [jNumbersOk] using hp)
      exact this kv (deleteKeys_mem _ _ kv hkv)
    | _ => rw [hpj] at hs; simp [stripped] at hs
  rcases hcase with ⟨_, _, ho, _⟩ | ⟨_, _, r0, hr0, _, ho | hdrop⟩
  · rw [ho]; exact hk
  · rw [ho]; exact hk
  · obtain ⟨_, _, rk, _, _, hrk⟩ := C04.redactJSON_obj hr0
    subst hrk
    have hrkn := redacted_numbers_ok hk hr0
    unfold dropEventID at hdrop
    split at hdrop
    · have : e.obj = rk := by injection hdrop with h1; exact h1.symm
      rw [this]; exact hrkn
    · simp only [JVal.obj.injEq] at hdrop
      rw [← hdrop, jNumMembers_iff]
      intro kv hkv
      exact (jNumMembers_iff rk).mp hrkn kv (deleteFirst_mem _ _ kv hkv)

theorem dedupLast_mem (l : EventParse.Obj) : ∀ kv ∈ dedupLast l, kv ∈ l := by
  unfold dedupLast
  suffices H : ∀ (l acc : EventParse.Obj), ∀ kv ∈ l.foldl (fun acc kv => (acc.filter (fun x => x.1 != kv.1)) ++ [kv]) acc,
      kv ∈ acc ∨ kv ∈ l by
    intro kv hkv
    rcases H l [] kv hkv with h | h
    · cases h
    · exact h
  intro l
  induction l with
  | nil => intro acc kv h; exact Or.inl h
  | cons x rest ih =>
    intro acc kv h
    simp only [List.foldl_cons] at h
    rcases ih _ kv h with h1 | h1
    · rcases List.mem_append.mp h1 with h2 | h2
      · exact Or.inl (List.mem_filter.mp h2).1
      · simp only [List.mem_singleton] at h2; subst h2; exact Or.inr List.mem_cons_self
    · exact Or.inr (List.mem_cons_of_mem _ h1)

theorem setFirst_vals (P : JVal → Prop) (k : Bytes) (v : JVal) (hv : P v) : ∀ (l : EventParse.Obj), (∀ kv ∈ l, P kv.2) →
    ∀ kv ∈ setFirst k v l, P kv.2 := by
  intro l
  induction l with
  | nil => intro _ kv h; simp only [setFirst, List.mem_singleton] at h; subst h; exact hv
  | cons x rest ih =>
    intro hl kv h
    unfold setFirst at h
    split at h
    · rcases List.mem_cons.mp h with rfl | h'
      · exact hv
      · exact hl kv (List.mem_cons_of_mem _ h')
    · rcases List.mem_cons.mp h with rfl | h'
      · exact hl _ List.mem_cons_self
      · exact ih (fun y hy => hl y (List.mem_cons_of_mem _ hy)) kv h'

theorem addSignature_numbers {sigs : Option JVal} {name kid sig : Bytes} {ns : JVal}
    (hs : ∀ v, sigs = some v → jNumbersOk v = true) (h : addSignature sigs name kid sig = some ns) : jNumbersOk ns = true := by
  unfold addSignature at h
  split at h
  · cases h; rfl
  · rename_i m
    have hm : ∀ kv ∈ m, jNumbersOk kv.2 = true := (jNumMembers_iff m).mp (by simpa [jNumbersOk] using hs _ rfl)
    split at h
    · cases h
      simp only [jNumbersOk]
      rw [jNumMembers_iff]
      intro kv hkv
      rcases List.mem_append.mp hkv with h1 | h1
      · exact hm kv h1
      · simp only [List.mem_singleton] at h1; subst h1; rfl
    · rename_i km hkm
      cases h
      simp only [jNumbersOk]
      rw [jNumMembers_iff]
      obtain ⟨k', hmem⟩ := mapGet_mem _ _ _ hkm
      have hkmn : ∀ kv ∈ km, jNumbersOk kv.2 = true := (jNumMembers_iff km).mp (by simpa [jNumbersOk] using hm _ hmem)
      apply setKey_vals (fun v => jNumbersOk v = true) _ _ _ hm
      simp only [jNumbersOk]
      rw [jNumMembers_iff]
      exact setKey_vals (fun v => jNumbersOk v = true) _ _ _ hkmn rfl
    · cases h
  · cases h

/-! ### `signableEventJSON`: the `signatures` member `Sign()` hands on always decodes -/

theorem getLast_eq_lookupExact (o : EventParse.Obj) (k : Bytes) : Sign.getLast o k = lookupExact o k := by
  induction o with
  | nil => rfl
  | cons kv rest ih =>
    obtain ⟨k', v⟩ := kv
    rw [lookupExact_eq, lastSome_cons, ← lookupExact_eq, ← ih]
    simp only [Sign.getLast]
    cases Sign.getLast rest k <;> rfl

/-- a raw field of the keep struct comes out of the redaction exactly as the event carried it -/
theorem redactWith_raw {a : Algo} (hT : tablesOk a = true) {kvs rk : EventParse.Obj}
    (h : redactWith a (.obj kvs) = .ok (.obj rk)) {f : Field} (hf : f ∈ a.fields) (hk : f.kind = .raw) :
    lookupExact rk f.name = lookupExact kvs f.name := by
  obtain ⟨hdist, _, _, _⟩ := tablesOk_parts hT
  have hnd := names_nodup hdist
  have h' : redactObj a (exactFields a.fields kvs) = .ok (.obj rk) := h
  obtain ⟨tf, cf, F, hv⟩ := redactObj_ok h'
  have hr : rk = outputOf a (exactFields a.fields kvs) tf cf := by injection hv
  have hE : ∀ g, ∀ kv ∈ emitField (exactFields a.fields kvs) (decType tf.name (exactFields a.fields kvs)).val
      (newContent a.ctable (decType tf.name (exactFields a.fields kvs)).val (decContent cf.name (exactFields a.fields kvs)).val) g,
      kv.1 = g.name := fun g kv hkv => emitField_name hkv
  have hsel : sel f.name (outputOf a (exactFields a.fields kvs) tf cf) = _ := sel_flatMap_emit _ hE a.fields hdist f hf
  rw [hr, output_exact_eq_field hdist hf, lookupField_sel, hsel, ← lookupExact_exactFields hnd kvs hf,
    ← lookupField_eq_exact (exactFields_wf hdist kvs) hf]
  simp only [emitField, hk]
  cases hl : lookupField (exactFields a.fields kvs) f.name <;> simp

/-- the keep struct of every registered version has `signatures` as a raw field -/
theorem signatures_field {a : Algo} (hS : C03.tableOk a = true) : ∃ g ∈ a.fields, g.name = b!"signatures" ∧ g.kind = .raw := by
  simp only [C03.tableOk, Bool.and_eq_true] at hS
  obtain ⟨⟨_, hsig⟩, _⟩ := hS
  obtain ⟨g, hg, hgp⟩ := List.any_eq_true.mp hsig
  simp only [Bool.and_eq_true, beq_iff_eq] at hgp
  exact ⟨g, hg, hgp.1.1, hgp.1.2⟩

/-- **The `signatures` member survives redaction verbatim** (or stays absent), for every event that can be redacted. -/
theorem redaction_signatures {ver : Bytes} {kvs rk : EventParse.Obj} (h : redactJSON ver (.obj kvs) = .ok (.obj rk)) :
    lookupExact rk b!"signatures" = lookupExact kvs b!"signatures" := by
  cases ha : algoOf ver with
  | none => simp [redactJSON, ha] at h
  | some a =>
    obtain ⟨hT, _⟩ := C05.algoOf_ok ha
    obtain ⟨g, hg, hgn, hgk⟩ := signatures_field (C03.algoOf_tableOk ha)
    have h' : redactWith a (.obj kvs) = .ok (.obj rk) := by simpa [redactJSON, ha] using h
    rw [← hgn]
    exact redactWith_raw hT h' hg hgk

/-- the event without its `signatures` member can be redacted whenever the event can -/
theorem redactable_without_signatures {ver : Bytes} {kvs rk : EventParse.Obj} (h : redactJSON ver (.obj kvs) = .ok (.obj rk)) :
    ∃ rk', redactJSON ver (.obj (deleteFirst b!"signatures" kvs)) = .ok (.obj rk') := by
  cases ha : algoOf ver with
  | none => simp [redactJSON, ha] at h
  | some a =>
    obtain ⟨hT, _⟩ := C05.algoOf_ok ha
    have hS := C03.algoOf_tableOk ha
    have h0 : redactWith a (.obj kvs) = .ok (.obj rk) := by simpa [redactJSON, ha] using h
    have h' : redactObj a (exactFields a.fields kvs) = .ok (.obj rk) := h0
    obtain ⟨hdist, _, _, _⟩ := tablesOk_parts hT
    have hnd := names_nodup hdist
    obtain ⟨r, r', _, hr', _⟩ := C03.redactObj_signatures hT hS (kvs' := exactFields a.fields (deleteFirst b!"signatures" kvs)) (by
      intro f hf hne
      rw [sel_wf (exactFields_wf hdist _) hf, sel_wf (exactFields_wf hdist _) hf, lookupExact_exactFields hnd _ hf,
        lookupExact_exactFields hnd _ hf, lookupExact_deleteFirst_other kvs (fun e => hne e.symm)]) h'
    have hr2 : redactWith a (.obj (deleteFirst b!"signatures" kvs)) = .ok (.obj r') := hr'
    exact ⟨r', by simpa [redactJSON, ha] using hr2⟩

theorem getFirst_none_lookupExact {kvs : EventParse.Obj} {k : Bytes} (h : getFirst kvs k = none) : lookupExact kvs k = none := by
  rw [lookupExact_eq]
  apply lastSome_none_of_forall
  intro kv hkv
  unfold getFirst at h
  cases hf : kvs.find? (fun kv => kv.1 == k) with
  | some x => rw [hf] at h; cases h
  | none =>
    have := List.find?_eq_none.mp hf kv hkv
    simpa using this

theorem getFirst_eq_lookupExact : ∀ {kvs : EventParse.Obj} (k : Bytes), (keysOf kvs).Nodup → getFirst kvs k = lookupExact kvs k
  | [], _, _ => rfl
  | x :: rest, k, hn => by
    have hnd := List.nodup_cons.mp (show (x.1 :: keysOf rest).Nodup from hn)
    rw [lookupExact_eq, lastSome_cons, ← lookupExact_eq, ← getFirst_eq_lookupExact k hnd.2]
    unfold getFirst
    by_cases hx : (x.1 == k) = true
    · simp only [List.find?_cons, hx, Option.map_some]
      have : rest.find? (fun kv => kv.1 == k) = none := by
        apply List.find?_eq_none.mpr
        intro y hy hyk
        apply hnd.1
        rw [beq_iff_eq.mp hx, ← beq_iff_eq.mp hyk]
        exact List.mem_map.mpr ⟨y, hy, rfl⟩
      rw [this]
      rfl
    · have hx' : (x.1 == k) = false := by simpa using hx
      simp only [List.find?_cons, hx']
      cases (rest.find? (fun kv => kv.1 == k)).map (·.2) <;> simp

/-- `signWith` reaches none of its sites on an event of a registered version that can be redacted and whose number
    literals pass the version's canonical-JSON check -/
theorem signWith_np {ver : Bytes} {row : VGen.VersionRow} {x : PDU} {rk : EventParse.Obj} {b : Bool}
    (hver : x.ver = ver) (hrow : rowOf ver = some row) (hrk : redactJSON ver (.obj x.obj) = .ok (.obj rk))
    (hb : enforces row = some b) (hnum : b = true → jNumbersOkMembers x.obj = true)
    (name kid sig : Bytes) (site : String) : cls (signWith x name kid sig) ≠ .error (.panic site) := by
  unfold signWith
  rw [hver, hrow]
  simp only
  unfold signaturesOf
  rw [hrk]
  simp only
  cases hadd : addSignature (lookupExact rk b!"signatures") name kid sig with
  | none => intro hc; cases hc
  | some ns =>
    simp only
    have hnumv : enforcedOkVal row (.obj (setFirst b!"signatures" ns (dedupLast x.obj))) = some true := by
      unfold enforcedOkVal
      rw [hb]
      cases b with
      | false => rfl
      | true =>
        have hobj := (jNumMembers_iff x.obj).mp (hnum rfl)
        have hrkn := (jNumMembers_iff rk).mp (redacted_numbers_ok (hnum rfl) hrk)
        have hns : jNumbersOk ns = true := addSignature_numbers (by
          intro v hv
          exact hrkn _ (lookupExact_mem hv)) hadd
        have : jNumbersOkMembers (setFirst b!"signatures" ns (dedupLast x.obj)) = true := by
          rw [jNumMembers_iff]
          exact setFirst_vals (fun v => jNumbersOk v = true) _ _ hns _ (fun kv hkv => hobj kv (dedupLast_mem _ kv hkv))
        simp [jNumbersOk, this]
    rw [hnumv]
    intro hc; cases hc

/-- **`Sign()` reaches none of its sites on an accepted event**, whatever its `signatures` member is: a member that
    `SignJSON` cannot decode is left out by `signableEventJSON`, and the text of an accepted event repeats no member. -/
theorem sign_np {H : Bytes → Bytes} {ver text : Bytes} {e : PDU} (h : parseUntrusted H ver text = .ok e)
    {row : VGen.VersionRow} (I : Inv H ver row e) (name kid sig : Bytes) (site : String) :
    cls (sign e name kid sig) ≠ .error (.panic site) := by
  obtain ⟨rk, hrk⟩ := accepted_redactable h I
  obtain ⟨b, hb⟩ := (rowFacts I.hrow I.hfmt).enf
  have hnumE : b = true → jNumbersOkMembers e.obj = true := fun hbt => accepted_numbers h I (by rw [hb, hbt])
  have hnd := C04.accepted_keys_nodup h
  have hsigs := redaction_signatures hrk
  unfold sign
  -- what `signableEventJSON` hands on: the event, or the event without its `signatures` member
  have key : ∃ x rk', x.ver = ver ∧ signable e = x ∧ redactJSON ver (.obj x.obj) = .ok (.obj rk') ∧
      (b = true → jNumbersOkMembers x.obj = true) ∧ sigsDecodable x = true := by
    unfold signable
    cases hg : getFirst e.obj b!"signatures" with
    | none =>
      refine ⟨e, rk, I.hver, rfl, hrk, hnumE, ?_⟩
      unfold sigsDecodable
      rw [I.hver, hrk]
      simp only [Sign.readPreserve, Sign.kSignatures, getLast_eq_lookupExact, hsigs, getFirst_none_lookupExact hg]
      rfl
    | some v =>
      have hlv : lookupExact e.obj b!"signatures" = some v := by rw [← getFirst_eq_lookupExact _ hnd]; exact hg
      simp only
      by_cases hd : sigValDecodable v = true
      · rw [if_pos hd]
        refine ⟨e, rk, I.hver, rfl, hrk, hnumE, ?_⟩
        unfold sigsDecodable
        rw [I.hver, hrk]
        simp only [Sign.readPreserve, Sign.kSignatures, getLast_eq_lookupExact, hsigs, hlv]
        unfold sigValDecodable at hd
        cases hdv : Sign.decodeOuterInto Sign.decodeSigVal (some []) v with
        | none => rw [hdv] at hd; cases hd
        | some m => rfl
      · rw [if_neg hd]
        obtain ⟨rk', hrk'⟩ := redactable_without_signatures hrk
        have hobj' : ∀ kv ∈ deleteFirst b!"signatures" e.obj, kv ∈ e.obj := deleteFirst_mem _ _
        refine ⟨{ e with obj := deleteFirst b!"signatures" e.obj }, rk', I.hver, rfl, hrk', ?_, ?_⟩
        · intro hbt
          rw [jNumMembers_iff]
          intro kv hkv
          exact (jNumMembers_iff e.obj).mp (hnumE hbt) kv (hobj' kv hkv)
        · have hnone : lookupExact (deleteFirst b!"signatures" e.obj) b!"signatures" = none := by
            rw [lookupExact_eq]
            apply lastSome_none_of_forall
            intro kv hkv
            have := deleteFirst_removes _ _ hnd kv hkv
            simpa using this
          unfold sigsDecodable
          show (match redactJSON e.ver (.obj (deleteFirst b!"signatures" e.obj)) with
            | .ok (.obj r) => (Sign.readPreserve r).isSome
            | _ => true) = true
          rw [I.hver, hrk']
          simp only [Sign.readPreserve, Sign.kSignatures, getLast_eq_lookupExact, redaction_signatures hrk', hnone]
          rfl
  obtain ⟨x, rk', hxv, hx, hxr, hxn, hxd⟩ := key
  rw [hx, if_neg (by simp [hxd])]
  exact signWith_np hxv I.hrow hxr hb hxn name kid sig site

end V.AccProofs
