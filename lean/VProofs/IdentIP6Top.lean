/- Helper lemmas (C17), IPv6 part 3: parseIPv6 = RFC 4291 recogniser, and the dispatch of net.ParseIP (first of '.', ':', '%'; zones refused) = dotted quad or RFC 4291 text. -/
import VProofs.IdentIP6Loop
set_option linter.unusedSimpArgs false
namespace V.Ident


theorem isIPv6_iff_spec (s : BS) : Spec.isIPv6 s = true ↔ specNoEll 8 s := by
  unfold Spec.isIPv6 specNoEll
  cases hc : Spec.cutEllipsis s with
  | none =>
    simp only [beq_iff_eq, true_and]
    constructor
    · intro h; left; exact h
    · rintro (h | ⟨l, r, a, b, hcc, _⟩)
      · exact h
      · cases hcc
  | some p =>
    obtain ⟨l, r⟩ := p
    simp only
    constructor
    · intro h
      right
      cases hl : Spec.units l false with
      | none => simp [hl] at h
      | some a =>
        cases hr : Spec.units r true with
        | none => simp [hl, hr] at h
        | some b =>
          simp only [hl, hr, decide_eq_true_eq] at h
          exact ⟨l, r, a, b, rfl, hl, hr, by omega⟩
    · rintro (⟨hn, _⟩ | ⟨l', r', a, b, hcc, hl, hr, hab⟩)
      · cases hn
      · simp only [Option.some.injEq, Prod.mk.injEq] at hcc
        obtain ⟨rfl, rfl⟩ := hcc
        simp only [hl, hr, decide_eq_true_eq]; omega

theorem parseIPv6_go_isSome (s : BS) (ell : Option Nat) :
    (parseIPv6Go s ell).isSome = accepts (v6Loop 8 s [] ell) := by
  unfold parseIPv6Go
  cases v6Loop 8 s [] ell with
  | none => rfl
  | some p =>
    obtain ⟨ip, ell', rest⟩ := p
    simp only [accepts]
    cases rest with
    | cons _ _ => simp
    | nil =>
      simp only [List.isEmpty_nil, Bool.not_true, Bool.false_eq_true, if_false, Bool.true_and]
      by_cases hl : ip.length < 16
      · simp only [hl, if_true]; cases ell' <;> rfl
      · simp only [hl, if_false]; cases ell' <;> rfl

/-- Go's IPv6 literal parser (as modelled) accepts exactly the RFC 4291 text forms of the specification -/
theorem parseIPv6_isSome_eq (s : BS) : (parseIPv6 s).isSome = Spec.isIPv6 s := by
  have key : (parseIPv6 s).isSome = true ↔ Spec.isIPv6 s = true := by
    rw [isIPv6_iff_spec]
    match s with
    | 0x3A :: 0x3A :: r =>
      have hce : Spec.cutEllipsis (0x3A :: 0x3A :: r) = some ([], r) := by simp [Spec.cutEllipsis]
      have hu0 : Spec.units [] false = some 0 := rfl
      by_cases hr : r = []
      · subst hr
        simp only [parseIPv6, List.isEmpty_nil, if_true, Option.isSome_some, true_iff]
        right; exact ⟨[], [], 0, 0, hce, hu0, rfl, by omega⟩
      · have hre : r.isEmpty = false := by simpa using hr
        simp only [parseIPv6, hre, Bool.false_eq_true, if_false]
        rw [parseIPv6_go_isSome, v6Loop_ell 8 r [] 0 hr (by simp)]
        constructor
        · rintro ⟨u, hu, hk⟩
          right; exact ⟨[], r, 0, u, hce, hu0, hu, by omega⟩
        · rintro (⟨hn, _⟩ | ⟨l, r', a, b, hcc, hl, hrr, hab⟩)
          · rw [hce] at hn; cases hn
          · rw [hce] at hcc
            simp only [Option.some.injEq, Prod.mk.injEq] at hcc
            obtain ⟨rfl, rfl⟩ := hcc
            rw [hu0] at hl; simp only [Option.some.injEq] at hl
            exact ⟨b, hrr, by omega⟩
    | [] =>
      simp only [parseIPv6]
      rw [parseIPv6_go_isSome, v6Loop_noEll 8 [] [] (by simp) (by simp)]
    | [a] =>
      simp only [parseIPv6]
      rw [parseIPv6_go_isSome, v6Loop_noEll 8 [a] [] (by simp) (by simp)]
    | a :: b :: r =>
      by_cases hab : a = 0x3A ∧ b = 0x3A
      · obtain ⟨rfl, rfl⟩ := hab
        -- covered by the first pattern
        have hce : Spec.cutEllipsis (0x3A :: 0x3A :: r) = some ([], r) := by simp [Spec.cutEllipsis]
        have hu0 : Spec.units [] false = some 0 := rfl
        by_cases hr : r = []
        · subst hr
          simp only [parseIPv6, List.isEmpty_nil, if_true, Option.isSome_some, true_iff]
          right; exact ⟨[], [], 0, 0, hce, hu0, rfl, by omega⟩
        · have hre : r.isEmpty = false := by simpa using hr
          simp only [parseIPv6, hre, Bool.false_eq_true, if_false]
          rw [parseIPv6_go_isSome, v6Loop_ell 8 r [] 0 hr (by simp)]
          constructor
          · rintro ⟨u, hu, hk⟩
            right; exact ⟨[], r, 0, u, hce, hu0, hu, by omega⟩
          · rintro (⟨hn, _⟩ | ⟨l, r', a, b, hcc, hl, hrr, hab⟩)
            · rw [hce] at hn; cases hn
            · rw [hce] at hcc
              simp only [Option.some.injEq, Prod.mk.injEq] at hcc
              obtain ⟨rfl, rfl⟩ := hcc
              rw [hu0] at hl; simp only [Option.some.injEq] at hl
              exact ⟨b, hrr, by omega⟩
      · have hnot : ∀ t, (a :: b :: r : BS) ≠ 0x3A :: 0x3A :: t := by
          intro t e; simp only [List.cons.injEq] at e; exact hab ⟨e.1, e.2.1⟩
        have hp : parseIPv6 (a :: b :: r) = parseIPv6Go (a :: b :: r) none := by
          unfold parseIPv6
          split
          · rename_i r' heq
            simp only [List.cons.injEq] at heq
            exact absurd ⟨heq.1, heq.2.1⟩ hab
          · rfl
        rw [hp, parseIPv6_go_isSome, v6Loop_noEll 8 _ [] hnot (by simp)]
  cases h1 : (parseIPv6 s).isSome <;> cases h2 : Spec.isIPv6 s <;> simp_all



def ipChar (c : UInt8) : Bool := isHexB c || c == 0x3A || c == 0x2E

theorem units_chars : ∀ (n : Nat) (s : BS) (v : Bool) (u : Nat), s.length ≤ n → Spec.units s v = some u → s.all ipChar = true
  | 0, s, v, u, hl, _ => by
    have : s = [] := List.length_eq_zero_iff.mp (by omega)
    subst this; rfl
  | n + 1, s, v, u, hl, hu => by
    by_cases hs : s = []
    · subst hs; rfl
    obtain ⟨f0, rest', h1, h2, h3⟩ := first_field s
    have hf0 : Spec.isH16 f0 = true ∨ Spec.isIPv4 f0 = true → f0.all ipChar = true := by
      rintro (h | h)
      · rw [isH16_iff] at h
        exact all_imp (fun c hc => by simp [ipChar, hc]) h.2.2
      · exact all_imp (fun c hc => by
          simp only [Bool.or_eq_true, beq_iff_eq] at hc
          rcases hc with hc | hc
          · simp [ipChar, digit_isHex c hc]
          · simp [ipChar, hc]) (isIPv4_chars h).1
    rcases h3 with rfl | ⟨t, rfl⟩
    · simp only [List.append_nil] at h1; subst h1
      rw [units_single h2 hs] at hu
      split at hu
      · rename_i h; exact hf0 (Or.inl h)
      · split at hu
        · rename_i h; simp only [Bool.and_eq_true] at h; exact hf0 (Or.inr h.2)
        · cases hu
    · subst h1
      rw [units_cons t h2] at hu
      split at hu
      · cases hu
      · rename_i h16
        simp only [Bool.not_eq_true', Bool.not_eq_false] at h16
        split at hu
        · cases hu
        · cases hq : Spec.units t v with
          | none => simp [hq] at hu
          | some u' =>
            have := units_chars n t v u' (by simp at hl; omega) hq
            rw [List.all_append, List.all_cons, hf0 (Or.inl h16), this]
            rfl

theorem isIPv6_chars {s : BS} (h : Spec.isIPv6 s = true) : s.all ipChar = true := by
  rw [isIPv6_iff_spec] at h
  rcases h with ⟨_, hu⟩ | ⟨l, r, a, b, hc, hl, hr, _⟩
  · exact units_chars _ s true _ (Nat.le_refl _) hu
  · rw [cutEllipsis_decomp hc, List.all_append, List.all_cons, List.all_cons,
      units_chars _ l false a (Nat.le_refl _) hl, units_chars _ r true b (Nat.le_refl _) hr]
    rfl

theorem isIPv6_no_percent {s : BS} (hp : (0x25 : UInt8) ∈ s) : Spec.isIPv6 s = false := by
  cases h : Spec.isIPv6 s with
  | false => rfl
  | true => exact absurd ((List.all_eq_true.mp (isIPv6_chars h)) _ hp) (by decide)

theorem isIPv4_no_other {s : BS} {c : UInt8} (hc : c ∈ s) (hcc : (isDigit c || c == 0x2E) = false) : Spec.isIPv4 s = false := by
  cases h : Spec.isIPv4 s with
  | false => rfl
  | true =>
    have := (List.all_eq_true.mp (isIPv4_chars h).1) _ hc
    rw [hcc] at this; cases this

theorem isIPv6_no_colon {s : BS} (hn : (0x3A : UInt8) ∉ s) : Spec.isIPv6 s = false := by
  cases h : Spec.isIPv6 s with
  | false => rfl
  | true =>
    exfalso
    rw [isIPv6_iff_spec] at h
    rcases h with ⟨_, hu⟩ | ⟨l, r, a, b, hc, _⟩
    · by_cases hs : s = []
      · subst hs; simp [Spec.units] at hu
      · rw [units_single hn hs] at hu
        split at hu
        · cases hu
        · split at hu <;> cases hu
    · rw [cutEllipsis_nocolon hn] at hc; cases hc

theorem isIPv4_no_dot {s : BS} (hn : (0x2E : UInt8) ∉ s) : Spec.isIPv4 s = false := by
  unfold Spec.isIPv4
  rw [splitOn_nosep hn]; rfl

def isSpecial (c : UInt8) : Bool := c == 0x2E || c == 0x3A || c == 0x25

/-- the first special character is a dot but a colon follows: not an IPv6 text -/
theorem isIPv6_dot_first {s : BS} (hf : s.find? isSpecial = some 0x2E) (hcol : (0x3A : UInt8) ∈ s) : Spec.isIPv6 s = false := by
  cases h : Spec.isIPv6 s with
  | false => rfl
  | true =>
    exfalso
    rw [isIPv6_iff_spec] at h
    cases hcut : cut 0x3A s with
    | none => exact cut_none hcut hcol
    | some p =>
      obtain ⟨f0, t⟩ := p
      obtain ⟨hs, hn⟩ := cut_spec hcut
      have hdot : (0x2E : UInt8) ∈ f0 := by
        rw [hs, List.find?_append] at hf
        cases hq : f0.find? isSpecial with
        | none => simp [hq, List.find?, isSpecial] at hf
        | some c =>
          have hf' : c = 0x2E := by simpa [hq, Option.or] using hf
          subst hf'
          exact List.mem_of_find?_eq_some hq
      have hb : Spec.isH16 f0 = false := by
        cases hv : Spec.isH16 f0 with
        | false => rfl
        | true =>
          rw [isH16_iff] at hv
          exact absurd ((List.all_eq_true.mp hv.2.2) _ hdot) (by decide)
      have hne : s ≠ [] := by rw [hs]; simp
      have hnot : ∀ t', s ≠ 0x3A :: 0x3A :: t' := by
        intro t' e
        rw [hs] at e
        cases f0 with
        | nil => simp at hdot
        | cons x xs =>
          simp only [List.cons_append, List.cons.injEq] at e
          exact hn (by simp [e.1])
      exact (bad_first_field_spec hs hn (Or.inr ⟨t, rfl⟩) hne hnot hb (fun e => by cases e) 8).1 h

/-- net.ParseIP (as modelled) accepts exactly the dotted-quad and the RFC 4291 text forms -/
theorem parseIP_isSome_eq (a : BS) : (parseIP a).isSome = Spec.isIPLiteral a := by
  unfold parseIP Spec.isIPLiteral
  have hfun : (fun c : UInt8 => c == 0x2E || c == 0x3A || c == 0x25) = isSpecial := rfl
  rw [hfun]
  cases hf : a.find? isSpecial with
  | none =>
    have hno : ∀ c ∈ a, isSpecial c = false := by
      intro c hc
      have := List.find?_eq_none.mp hf c hc
      simpa using this
    have h1 : (0x2E : UInt8) ∉ a := fun hm => by have := hno _ hm; revert this; decide
    have h2 : (0x3A : UInt8) ∉ a := fun hm => by have := hno _ hm; revert this; decide
    simp [isIPv4_no_dot h1, isIPv6_no_colon h2]
  | some c =>
    have hmem := List.mem_of_find?_eq_some hf
    have hsp : isSpecial c = true := List.find?_some hf
    simp only
    by_cases hd : c = 0x2E
    · subst hd
      simp only [beq_self_eq_true, if_true, Option.isSome_map]
      rw [parseIPv4_isSome_eq]
      by_cases hcol : (0x3A : UInt8) ∈ a
      · simp [isIPv6_dot_first hf hcol]
      · simp [isIPv6_no_colon hcol]
    · have hd' : (c == 0x2E) = false := by simpa using hd
      simp only [hd', Bool.false_eq_true, if_false]
      by_cases hc : c = 0x3A
      · subst hc
        have h4 : Spec.isIPv4 a = false := isIPv4_no_other hmem (by decide)
        simp only [beq_self_eq_true, if_true, h4, Bool.false_or]
        by_cases hp : (0x25 : UInt8) ∈ a
        · have : a.contains 0x25 = true := by simpa using hp
          simp only [this, if_true, Option.isSome_none, isIPv6_no_percent hp]
        · have : a.contains 0x25 = false := by simpa using hp
          simp only [this, Bool.false_eq_true, if_false]
          exact parseIPv6_isSome_eq a
      · have hc' : (c == 0x3A) = false := by simpa using hc
        have hp : c = 0x25 := by
          simp only [isSpecial, Bool.or_eq_true, beq_iff_eq] at hsp
          rcases hsp with (h | h) | h
          · exact absurd h hd
          · exact absurd h hc
          · exact h
        subst hp
        simp [hc', isIPv4_no_other hmem (by decide), isIPv6_no_percent hmem]

end V.Ident
