/- Helper lemmas (C17), IPv6 part 2: the parse loop of netip.parseIPv6 (as modelled) against the specification, after and before the ellipsis (induction on the remaining 16-bit slots). -/
import VProofs.IdentIP6
set_option linter.unusedSimpArgs false
namespace V.Ident


theorem specEll_of_bad {s h r : BS} (hs : s = h ++ r) (hh : h.all isHexB = true)
    (hr : r = [] ∨ ∃ c t, r = c :: t ∧ isHexB c = false) (hne : s ≠ [])
    (hbad : h.length > 4 ∨ h.length = 0 ∨ (∃ c t, r = c :: t ∧ c ≠ 0x3A ∧ c ≠ 0x2E) ∨ (∃ t, r = 0x2E :: t ∧ (0x3A : UInt8) ∈ r))
    (v : Bool) : Spec.units s v = none := by
  obtain ⟨f0, rest', h1, h2, h3, h4, h5⟩ := bad_group hs hh hr hne hbad
  exact bad_first_units h1 h2 h3 hne h4 h5 v

theorem isH16_of_hex {h : BS} (hh : h.all isHexB = true) (h1 : ¬ h.length > 4) (h0 : ¬ h.length = 0) : Spec.isH16 h = true := by
  rw [isH16_iff]; exact ⟨by omega, by omega, hh⟩

/-- after the ellipsis: the rest of the text is a list of at most k-1 units -/
theorem v6Loop_ell : ∀ (k : Nat) (s : BS) (ip : List UInt8) (e : Nat), s ≠ [] → ip.length + 2 * k = 16 →
    (accepts (v6Loop k s ip (some e)) = true ↔ specEll k s)
  | 0, s, ip, e, hne, hlen => by
    have : s.isEmpty = false := by simpa using hne
    simp [v6Loop, accepts, this, specEll]
  | k + 1, s, ip, e, hne, hlen => by
    obtain ⟨h, r, hth, hs, hh, hr⟩ := takeHex_spec s
    rw [v6Loop_succ, hth]
    simp only
    by_cases h4 : h.length > 4
    · have := specEll_of_bad hs hh hr hne (Or.inl h4) true
      simp [h4, accepts, specEll, this]
    · by_cases h0 : h.length = 0
      · have := specEll_of_bad hs hh hr hne (Or.inr (Or.inl h0)) true
        simp [h0, accepts, specEll, this]
      · simp only [h4, h0, if_false]
        have h16 := isH16_of_hex hh h4 h0
        have hnc := hex_no_colon hh
        rcases hr with rfl | ⟨c, t, rfl, hc⟩
        · -- the group ends the text
          simp only [List.append_nil] at hs; subst hs
          simp only [List.head?_nil, afterGroup]
          have hu := units_single hnc hne true
          rw [h16] at hu
          simp only [if_true] at hu
          simp only [accepts, List.isEmpty_nil, Bool.true_and, List.length_append, twoBytes, List.length_cons, List.length_nil,
            Option.isSome_some, Option.isNone_some, specEll, hu, Option.some.injEq]
          constructor
          · intro ha
            refine ⟨1, rfl, ?_⟩
            by_cases hk : ip.length + 2 < 16
            · omega
            · simp [hk] at ha
          · rintro ⟨u, rfl, hk⟩
            have : ip.length + (0 + 1 + 1) < 16 := by omega
            simp [this]
        · by_cases hdot : c = 0x2E
          · -- embedded IPv4 tail
            subst hdot
            simp only [List.head?_cons, beq_self_eq_true, if_true, Option.isNone_some, Bool.false_and, Bool.false_eq_true, if_false]
            by_cases hcol : (0x3A : UInt8) ∈ (0x2E :: t : BS)
            · have hu := specEll_of_bad hs hh (Or.inr ⟨_, _, rfl, hc⟩) hne (Or.inr (Or.inr (Or.inr ⟨t, rfl, hcol⟩))) true
              have hp : parseIPv4 s = none := by
                cases hp : parseIPv4 s with
                | none => rfl
                | some f => exact absurd (by rw [hs]; simp [hcol]) (parseIPv4_no_colon hp)
              simp only [hp, specEll, hu]
              split <;> simp [accepts]
            · have hns : (0x3A : UInt8) ∉ s := by rw [hs]; simp only [List.mem_append, not_or]; exact ⟨hnc, hcol⟩
              have hu := units_single hns hne true
              have hnh : Spec.isH16 s = false := by
                cases hv : Spec.isH16 s with
                | false => rfl
                | true =>
                  rw [isH16_iff, hs, List.all_append] at hv
                  have := hv.2.2
                  simp only [Bool.and_eq_true, List.all_cons] at this
                  rw [hc] at this; exact absurd this.2.1 (by simp)
              rw [hnh] at hu
              simp only [Bool.false_eq_true, if_false, Bool.true_and] at hu
              rw [← parseIPv4_isSome_eq] at hu
              simp only [specEll, hu]
              cases hp : parseIPv4 s with
              | none =>
                simp only [Option.isSome_none, Bool.false_eq_true, if_false]
                split <;> simp [accepts]
              | some f =>
                have hf := parseIPv4_length hp
                simp only [Option.isSome_some, if_true, Option.some.injEq]
                by_cases hbig : ip.length + 4 > 16
                · simp only [hbig, if_true, accepts, Bool.false_eq_true, false_iff]
                  rintro ⟨u, rfl, hk⟩; omega
                · simp only [hbig, if_false, accepts, List.isEmpty_nil, Bool.true_and, List.length_append, hf,
                    Option.isSome_some, Option.isNone_some]
                  constructor
                  · intro ha
                    refine ⟨2, rfl, ?_⟩
                    by_cases hk : ip.length + 4 < 16
                    · omega
                    · simp [hk] at ha
                  · rintro ⟨u, rfl, hk⟩
                    have : ip.length + 4 < 16 := by omega
                    simp [this]
          · have hdot' : ((c :: t).head? == some 0x2E) = false := by simpa using hdot
            simp only [hdot', Bool.false_eq_true, if_false]
            by_cases hcc : c = 0x3A
            · subst hcc
              cases t with
              | nil =>
                -- trailing single colon
                have hu := units_cons [] hnc true
                rw [h16] at hu
                simp only [Bool.not_true, Bool.false_eq_true, if_false, List.isEmpty_nil, if_true] at hu
                rw [← hs] at hu
                simp [afterGroup, accepts, specEll, hu]
              | cons c2 rest2 =>
                by_cases hc2 : c2 = 0x3A
                · -- a second ellipsis
                  subst hc2
                  have hu := units_cons (0x3A :: rest2) hnc true
                  have hu2 := units_cons (f := []) rest2 (by simp) true
                  simp only [List.nil_append] at hu2
                  have hn16 : Spec.isH16 [] = false := by decide
                  rw [hn16] at hu2
                  simp only [Bool.not_false, if_true] at hu2
                  rw [h16, hu2, ← hs] at hu
                  simp only [Bool.not_true, Bool.false_eq_true, if_false, List.isEmpty_cons, Option.map_none] at hu
                  simp [afterGroup, accepts, specEll, hu]
                · -- a further group
                  have hc2' : (c2 == 0x3A) = false := by simpa using hc2
                  have hu := units_cons (c2 :: rest2) hnc true
                  rw [h16, ← hs] at hu
                  simp only [Bool.not_true, Bool.false_eq_true, if_false, List.isEmpty_cons] at hu
                  simp only [afterGroup, bne_self_eq_false, Bool.false_eq_true, if_false, hc2']
                  rw [v6Loop_ell k (c2 :: rest2) _ e (by simp) (by simp [twoBytes]; omega)]
                  simp only [specEll, hu]
                  constructor
                  · rintro ⟨u, hu', hk⟩
                    exact ⟨u + 1, by simp [hu'], by omega⟩
                  · rintro ⟨u, hu', hk⟩
                    cases hq : Spec.units (c2 :: rest2) true with
                    | none => simp [hq] at hu'
                    | some u' =>
                      simp only [hq, Option.map_some, Option.some.injEq] at hu'
                      exact ⟨u', rfl, by omega⟩
            · -- any other character after the group
              have hu := specEll_of_bad hs hh (Or.inr ⟨_, _, rfl, hc⟩) hne (Or.inr (Or.inr (Or.inl ⟨c, t, rfl, hcc, hdot⟩))) true
              have hcc' : (c != 0x3A) = true := by simpa using hcc
              simp [afterGroup, hcc', accepts, specEll, hu]



theorem units_zero {s : BS} {v : Bool} (h : Spec.units s v = some 0) : s = [] := by
  by_cases hs : s = []
  · exact hs
  · exfalso
    obtain ⟨f0, rest', h1, h2, h3⟩ := first_field s
    rcases h3 with rfl | ⟨t, rfl⟩
    · simp only [List.append_nil] at h1; subst h1
      rw [units_single h2 hs] at h
      split at h
      · cases h
      · split at h <;> cases h
    · subst h1
      rw [units_cons t h2] at h
      split at h
      · cases h
      · split at h
        · cases h
        · cases hq : Spec.units t v with
          | none => simp [hq] at h
          | some u => simp [hq] at h

theorem specNoEll_of_bad {s h r : BS} (hs : s = h ++ r) (hh : h.all isHexB = true)
    (hr : r = [] ∨ ∃ c t, r = c :: t ∧ isHexB c = false) (hne : s ≠ []) (hnot : ∀ t, s ≠ 0x3A :: 0x3A :: t)
    (hbad : h.length > 4 ∨ h.length = 0 ∨ (∃ c t, r = c :: t ∧ c ≠ 0x3A ∧ c ≠ 0x2E) ∨ (∃ t, r = 0x2E :: t ∧ (0x3A : UInt8) ∈ r))
    (k : Nat) : ¬ specNoEll k s := by
  obtain ⟨f0, rest', h1, h2, h3, h4, h5⟩ := bad_group hs hh hr hne hbad
  exact (bad_first_field_spec h1 h2 h3 hne hnot h4 h5 k).1

/-- before any ellipsis: the rest of the text either fills exactly the k remaining units, or contains one
    "::" with fewer than k units around it -/
theorem v6Loop_noEll : ∀ (k : Nat) (s : BS) (ip : List UInt8), (∀ t, s ≠ 0x3A :: 0x3A :: t) → ip.length + 2 * k = 16 →
    (accepts (v6Loop k s ip none) = true ↔ specNoEll k s)
  | 0, s, ip, hnot, hlen => by
    have hl : ¬ ip.length < 16 := by omega
    simp only [v6Loop, accepts, hl, if_false, Option.isNone_none, Bool.and_true, List.isEmpty_iff, specNoEll]
    constructor
    · rintro rfl; left; exact ⟨rfl, rfl⟩
    · rintro (⟨_, hu⟩ | ⟨l, r, a, b, _, _, _, hab⟩)
      · exact units_zero hu
      · omega
  | k + 1, s, ip, hnot, hlen => by
    by_cases hne : s = []
    · subst hne
      have hm : accepts (v6Loop (k + 1) [] ip none) = false := by simp [v6Loop_succ, takeHex, accepts]
      rw [hm]
      simp only [Bool.false_eq_true, false_iff]
      rintro (⟨_, hu⟩ | ⟨l, r, a, b, hc, _⟩)
      · simp [Spec.units] at hu
      · simp [Spec.cutEllipsis] at hc
    obtain ⟨h, r, hth, hs, hh, hr⟩ := takeHex_spec s
    rw [v6Loop_succ, hth]
    simp only
    by_cases h4 : h.length > 4
    · have := specNoEll_of_bad hs hh hr hne hnot (Or.inl h4) (k + 1)
      simp [h4, accepts, this]
    · by_cases h0 : h.length = 0
      · have := specNoEll_of_bad hs hh hr hne hnot (Or.inr (Or.inl h0)) (k + 1)
        simp [h0, accepts, this]
      · simp only [h4, h0, if_false]
        have h16 := isH16_of_hex hh h4 h0
        have hnc := hex_no_colon hh
        have hhne : h ≠ [] := fun e => h0 (by simp [e])
        rcases hr with rfl | ⟨c, t, rfl, hc⟩
        · -- the group ends the text
          simp only [List.append_nil] at hs; subst hs
          simp only [List.head?_nil, afterGroup]
          have hu := units_single hnc hne true
          rw [h16] at hu
          simp only [if_true] at hu
          have hce := cutEllipsis_nocolon hnc
          simp only [accepts, List.isEmpty_nil, Bool.true_and, List.length_append, twoBytes, List.length_cons, List.length_nil,
            Option.isSome_none, Option.isNone_none, specNoEll, hu, hce, Option.some.injEq, true_and]
          constructor
          · intro ha
            left
            by_cases hk : ip.length + (0 + 1 + 1) < 16
            · simp [hk] at ha
            · omega
          · rintro (hk | ⟨l, r, a, b, hcc, _⟩)
            · have : ¬ ip.length + (0 + 1 + 1) < 16 := by omega
              simp [this]
            · cases hcc
        · by_cases hdot : c = 0x2E
          · -- embedded IPv4 tail
            subst hdot
            simp only [List.head?_cons, beq_self_eq_true, if_true, Option.isNone_none, Bool.true_and]
            by_cases hcol : (0x3A : UInt8) ∈ (0x2E :: t : BS)
            · have hu := specNoEll_of_bad hs hh (Or.inr ⟨_, _, rfl, hc⟩) hne hnot (Or.inr (Or.inr (Or.inr ⟨t, rfl, hcol⟩))) (k + 1)
              have hp : parseIPv4 s = none := by
                cases hp : parseIPv4 s with
                | none => rfl
                | some f => exact absurd (by rw [hs]; simp [hcol]) (parseIPv4_no_colon hp)
              simp only [hp, hu, iff_false]
              split
              · simp [accepts]
              · split <;> simp [accepts]
            · have hns : (0x3A : UInt8) ∉ s := by rw [hs]; simp only [List.mem_append, not_or]; exact ⟨hnc, hcol⟩
              have hu := units_single hns hne true
              have hnh : Spec.isH16 s = false := by
                cases hv : Spec.isH16 s with
                | false => rfl
                | true =>
                  rw [isH16_iff, hs, List.all_append] at hv
                  have := hv.2.2
                  simp only [Bool.and_eq_true, List.all_cons] at this
                  rw [hc] at this; exact absurd this.2.1 (by simp)
              rw [hnh] at hu
              simp only [Bool.false_eq_true, if_false, Bool.true_and] at hu
              rw [← parseIPv4_isSome_eq] at hu
              have hce := cutEllipsis_nocolon hns
              simp only [specNoEll, hu, hce, true_and]
              cases hp : parseIPv4 s with
              | none =>
                simp only [Option.isSome_none, Bool.false_eq_true, if_false]
                constructor
                · intro ha; exfalso; revert ha
                  split
                  · simp [accepts]
                  · split <;> simp [accepts]
                · rintro (hk | ⟨l, r, a, b, hcc, _⟩)
                  · cases hk
                  · cases hcc
              | some f =>
                have hf := parseIPv4_length hp
                simp only [Option.isSome_some, if_true, Option.some.injEq]
                by_cases h12 : ip.length = 12
                · have e1 : (ip.length != 12) = false := by simp [h12]
                  have e2 : ¬ ip.length + 4 > 16 := by omega
                  have e3 : ¬ ip.length + 4 < 16 := by omega
                  simp only [e1, Bool.false_eq_true, if_false, e2, accepts, List.isEmpty_nil, Bool.true_and, List.length_append, hf,
                    e3, Option.isNone_none, true_iff]
                  left; omega
                · have e1 : (ip.length != 12) = true := by simp [h12]
                  simp only [e1, if_true, accepts, Bool.false_eq_true, false_iff]
                  rintro (hk | ⟨l, r, a, b, hcc, _⟩)
                  · omega
                  · cases hcc
          · have hdot' : ((c :: t).head? == some 0x2E) = false := by simpa using hdot
            simp only [hdot', Bool.false_eq_true, if_false]
            by_cases hcc : c = 0x3A
            · subst hcc
              cases t with
              | nil =>
                -- trailing single colon
                have hu := units_cons [] hnc true
                rw [h16] at hu
                simp only [Bool.not_true, Bool.false_eq_true, if_false, List.isEmpty_nil, if_true] at hu
                rw [← hs] at hu
                have hce := cutEllipsis_skip [] hnc (by simp)
                rw [← hs] at hce
                simp only [Spec.cutEllipsis, Option.map_none] at hce
                simp only [afterGroup, bne_self_eq_false, Bool.false_eq_true, if_false, accepts, false_iff, specNoEll, hu, hce]
                rintro (⟨_, hk⟩ | ⟨l, r, a, b, hcc, _⟩)
                · cases hk
                · cases hcc
              | cons c2 rest2 =>
                by_cases hc2 : c2 = 0x3A
                · -- the ellipsis
                  subst hc2
                  have hce := cutEllipsis_here rest2 hnc
                  rw [← hs] at hce
                  have hul := units_single hnc hhne false
                  rw [h16] at hul
                  simp only [if_true] at hul
                  simp only [afterGroup, bne_self_eq_false, Bool.false_eq_true, if_false, beq_self_eq_true, if_true,
                    Option.isSome_none]
                  have hlen' : (ip ++ twoBytes (hexAcc h)).length + 2 * k = 16 := by simp [twoBytes]; omega
                  generalize ip ++ twoBytes (hexAcc h) = ip' at hlen' ⊢
                  by_cases hr2 : rest2 = []
                  · subst hr2
                    simp only [List.isEmpty_nil, if_true, accepts, Bool.true_and, Option.isSome_some, Option.isNone_some]
                    constructor
                    · intro ha
                      right
                      refine ⟨h, [], 1, 0, hce, hul, rfl, ?_⟩
                      by_cases hk : ip'.length < 16
                      · omega
                      · simp [hk] at ha
                    · rintro (⟨hn, _⟩ | ⟨l, r, a, b, hcc, hl, hrr, hab⟩)
                      · rw [hce] at hn; cases hn
                      · rw [hce] at hcc
                        simp only [Option.some.injEq, Prod.mk.injEq] at hcc
                        obtain ⟨rfl, rfl⟩ := hcc
                        rw [hul] at hl
                        simp only [Option.some.injEq] at hl
                        have : ip'.length < 16 := by omega
                        simp [this]
                  · have hre : rest2.isEmpty = false := by simpa using hr2
                    simp only [hre, Bool.false_eq_true, if_false]
                    rw [v6Loop_ell k rest2 _ _ hr2 hlen']
                    constructor
                    · rintro ⟨u, hu, hk⟩
                      right
                      exact ⟨h, rest2, 1, u, hce, hul, hu, by omega⟩
                    · rintro (⟨hn, _⟩ | ⟨l, r, a, b, hcc, hl, hrr, hab⟩)
                      · rw [hce] at hn; cases hn
                      · rw [hce] at hcc
                        simp only [Option.some.injEq, Prod.mk.injEq] at hcc
                        obtain ⟨rfl, rfl⟩ := hcc
                        rw [hul] at hl
                        simp only [Option.some.injEq] at hl
                        exact ⟨b, hrr, by omega⟩
                · -- a further group
                  have hc2' : (c2 == 0x3A) = false := by simpa using hc2
                  have hu := units_cons (c2 :: rest2) hnc true
                  rw [h16, ← hs] at hu
                  simp only [Bool.not_true, Bool.false_eq_true, if_false, List.isEmpty_cons] at hu
                  have hce := cutEllipsis_skip (c2 :: rest2) hnc (by simpa using hc2)
                  rw [← hs] at hce
                  have hnot' : ∀ t, (c2 :: rest2 : BS) ≠ 0x3A :: 0x3A :: t := by
                    intro t e; simp only [List.cons.injEq] at e; exact hc2 e.1
                  simp only [afterGroup, bne_self_eq_false, Bool.false_eq_true, if_false, hc2']
                  rw [v6Loop_noEll k (c2 :: rest2) _ hnot' (by simp [twoBytes]; omega)]
                  simp only [specNoEll, hu, hce]
                  constructor
                  · rintro (⟨hn, hk⟩ | ⟨l, r, a, b, hcc, hl, hrr, hab⟩)
                    · left; exact ⟨by simp [hn], by simp [hk]⟩
                    · right
                      have hlne : l ≠ [] := by
                        rintro rfl
                        have := cutEllipsis_decomp hcc
                        exact hnot' r (by simpa using this)
                      have hle : l.isEmpty = false := by simpa using hlne
                      refine ⟨h ++ 0x3A :: l, r, a + 1, b, by simp [hcc], ?_, hrr, by omega⟩
                      rw [units_cons l hnc, h16, hl]
                      simp [hle]
                  · rintro (⟨hn, hk⟩ | ⟨l, r, a, b, hcc, hl, hrr, hab⟩)
                    · left
                      cases hq : Spec.cutEllipsis (c2 :: rest2) with
                      | some p => simp [hq] at hn
                      | none =>
                        refine ⟨rfl, ?_⟩
                        cases hq2 : Spec.units (c2 :: rest2) true with
                        | none => simp [hq2] at hk
                        | some u => simp [hq2] at hk; simp [hk]
                    · right
                      cases hq : Spec.cutEllipsis (c2 :: rest2) with
                      | none => simp [hq] at hcc
                      | some p =>
                        obtain ⟨l', r'⟩ := p
                        simp only [hq, Option.map_some, Option.some.injEq, Prod.mk.injEq] at hcc
                        obtain ⟨rfl, rfl⟩ := hcc
                        rw [units_cons l' hnc, h16] at hl
                        simp only [Bool.not_true, Bool.false_eq_true, if_false] at hl
                        split at hl
                        · cases hl
                        · cases hq3 : Spec.units l' false with
                          | none => simp [hq3] at hl
                          | some a' =>
                            simp only [hq3, Option.map_some, Option.some.injEq] at hl
                            exact ⟨l', r', a', b, rfl, hq3, hrr, by omega⟩
            · -- any other character after the group
              have hu := specNoEll_of_bad hs hh (Or.inr ⟨_, _, rfl, hc⟩) hne hnot (Or.inr (Or.inr (Or.inl ⟨c, t, rfl, hcc, hdot⟩))) (k + 1)
              have hcc' : (c != 0x3A) = true := by simpa using hcc
              simp [afterGroup, hcc', accepts, hu]

end V.Ident
