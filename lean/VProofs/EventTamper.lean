/-
  VProofs.EventTamper — what the identity of a received event is computed from when the redaction
  of its stripped form carries a re-emitted `event_id` (a case variant such as `Event_id` in the
  input): helper lemmas for C04's `tamper_redactable_same_identity`.  Core Lean only.

  * `redactObj_dropEventID`   redacting (redaction minus `event_id`) returns it unchanged
  * `redactObj_numsOk`        redaction keeps number literals grammatical
  * `no_variant_of_same_canon` if the redaction minus `event_id` has the canonical bytes of the
                              stripped input, the input has no member matching `event_id`
-/
import VProofs.EventParse
import VProofs.RedactCongr
import VProofs.JsonClosure
namespace V.EventProofs
open V V.Json V.GoJson V.Redact V.EventParse V.RedactProofs

/-! ## deleting one key from a redaction's output -/

theorem deleteFirst_noKey (k : Bytes) (l : EventParse.Obj) (h : ∀ kv ∈ l, kv.1 ≠ k) : deleteFirst k l = l := by
  induction l with
  | nil => rfl
  | cons kv rest ih =>
    have hk : (kv.1 == k) = false := by simpa using h kv List.mem_cons_self
    simp only [deleteFirst, hk, Bool.false_eq_true, if_false]
    rw [ih (fun x hx => h x (List.mem_cons_of_mem _ hx))]

theorem deleteFirst_flatMap (k : Bytes) (E : Field → EventParse.Obj) (hE : ∀ f, E f = [] ∨ ∃ v, E f = [(f.name, v)]) :
    ∀ fs : List Field, (fs.map (·.name)).Nodup →
      deleteFirst k (fs.flatMap E) = fs.flatMap (fun f => if f.name == k then [] else E f) := by
  intro fs
  induction fs with
  | nil => intro _; rfl
  | cons f fs ih =>
    intro hnd
    rw [List.map_cons, List.nodup_cons] at hnd
    simp only [List.flatMap_cons]
    have hkeys : ∀ kv ∈ fs.flatMap E, ∃ g ∈ fs, kv.1 = g.name := by
      intro kv hkv
      obtain ⟨g, hg, hkv'⟩ := List.mem_flatMap.mp hkv
      rcases hE g with h0 | ⟨v, h1⟩
      · rw [h0] at hkv'; cases hkv'
      · rw [h1] at hkv'; simp only [List.mem_singleton] at hkv'; exact ⟨g, hg, by rw [hkv']⟩
    by_cases hfk : f.name = k
    · have hb : (f.name == k) = true := by simp [hfk]
      simp only [hb, if_true, List.nil_append]
      have hrest : ∀ kv ∈ fs.flatMap E, kv.1 ≠ k := by
        intro kv hkv hk
        obtain ⟨g, hg, hn⟩ := hkeys kv hkv
        apply hnd.1
        rw [hfk, ← hk, hn]
        exact List.mem_map.mpr ⟨g, hg, rfl⟩
      have hcong : fs.flatMap (fun f => if f.name == k then [] else E f) = fs.flatMap E := by
        apply flatMap_congr'
        intro g hg
        have : (g.name == k) = false := by
          rw [beq_eq_false_iff_ne]; intro e
          apply hnd.1; rw [hfk, ← e]; exact List.mem_map.mpr ⟨g, hg, rfl⟩
        simp [this]
      rw [hcong]
      rcases hE f with h0 | ⟨v, h1⟩
      · rw [h0, List.nil_append]; exact deleteFirst_noKey k _ hrest
      · rw [h1, hfk]; simp [deleteFirst]
    · have hb : (f.name == k) = false := by simp [hfk]
      simp only [hb, Bool.false_eq_true, if_false]
      rcases hE f with h0 | ⟨v, h1⟩
      · rw [h0, List.nil_append, List.nil_append]; exact ih hnd.2
      · rw [h1]
        simp only [List.cons_append, List.nil_append, deleteFirst, hb, Bool.false_eq_true, if_false]
        rw [ih hnd.2]

theorem sel_nil_of_members_nil {kvs : EventParse.Obj} {n : Bytes} (h : members kvs n = []) : sel n kvs = [] := by
  unfold members at h
  exact List.map_eq_nil_iff.mp h

/-- **Redacting a redaction from which `event_id` was dropped returns it unchanged** (whenever it
    succeeds — which is what the constructors need to compute the event ID of the re-parsed event). -/
theorem redactObj_dropEventID {a : Algo} (hT : tablesOk a = true) {g : Field} (hg : g ∈ a.fields)
    (hgn : g.name = b!"event_id") (hgk : g.kind = .raw)
    {kvs rk : EventParse.Obj} (h : redactObj a kvs = .ok (.obj rk)) {v : JVal}
    (h' : redactObj a (deleteFirst b!"event_id" rk) = .ok v) :
    v = .obj (deleteFirst b!"event_id" rk) := by
  obtain ⟨tf, cf, F, hv⟩ := redactObj_ok h
  have hrk : rk = outputOf a kvs tf cf := by injection hv
  obtain ⟨F1, hout⟩ := outputOf_idem hT F
  obtain ⟨tf', cf', F2, hv'⟩ := redactObj_ok h'
  have e1 : tf' = tf := by have := F2.htf; rw [F.htf] at this; exact (Option.some.inj this).symm
  have e2 : cf' = cf := by have := F2.hcf; rw [F.hcf] at this; exact (Option.some.inj this).symm
  subst e1 e2
  obtain ⟨hdist, _, _, _⟩ := tablesOk_parts hT
  obtain ⟨htfm, htfk⟩ := typeField_mem F.htf
  obtain ⟨hcfm, hcfk⟩ := contentField_mem F.hcf
  have hev : a.fields.any (fun f => f.name == b!"event_id") = true :=
    List.any_eq_true.mpr ⟨g, hg, by simp [hgn]⟩
  -- which members the fields select after the deletion
  have hother : ∀ f ∈ a.fields, f ≠ g → sel f.name (deleteFirst b!"event_id" rk) = sel f.name rk := by
    intro f hf hne
    apply sel_deleteFirst_other
    cases hm : matchesField b!"event_id" f.name
    · rfl
    · exfalso
      have := matchesField_fold hm
      rw [← hgn] at this
      exact hne (foldDistinct_inj hdist hg hf this).symm
  have hself : sel g.name (deleteFirst b!"event_id" rk) = [] := by
    rw [hgn]; exact sel_nil_of_members_nil (no_event_id_member hT hev h)
  have htg : tf' ≠ g := by intro e; rw [e, hgk] at htfk; cases htfk
  have hcg : cf' ≠ g := by intro e; rw [e, hgk] at hcfk; cases hcfk
  have hty : decType tf'.name (deleteFirst b!"event_id" rk) = decType tf'.name rk := by
    rw [decType_sel, decType_sel, hother tf' htfm htg]
  have hct : decContent cf'.name (deleteFirst b!"event_id" rk) = decContent cf'.name rk := by
    rw [decContent_sel, decContent_sel, hother cf' hcfm hcg]
  rw [hv']
  congr 1
  have hdef : outputOf a (deleteFirst b!"event_id" rk) tf' cf' =
      a.fields.flatMap (emitField (deleteFirst b!"event_id" rk) (decType tf'.name rk).val
        (newContent a.ctable (decType tf'.name rk).val (decContent cf'.name rk).val)) := by
    unfold outputOf; rw [hty, hct]
  have hrk2 : rk = a.fields.flatMap (emitField rk (decType tf'.name rk).val
      (newContent a.ctable (decType tf'.name rk).val (decContent cf'.name rk).val)) := by
    have : outputOf a rk tf' cf' = rk := by rw [hrk]; exact hout
    exact this.symm
  rw [hdef]
  conv => rhs; rw [hrk2]
  rw [deleteFirst_flatMap b!"event_id" _ (fun f => emitField_shape _ _ _ f) a.fields (names_nodup hdist)]
  apply flatMap_congr'
  intro f hf
  by_cases hfe : f.name = b!"event_id"
  · have hfg : f = g := foldDistinct_inj hdist hf hg (by rw [hfe, hgn])
    subst hfg
    have hb : (f.name == b!"event_id") = true := by simp [hfe]
    simp only [hb, if_true]
    unfold emitField
    simp only [hgk]
    rw [lookupField_sel, hself]
    rfl
  · have hb : (f.name == b!"event_id") = false := by simp [hfe]
    simp only [hb, Bool.false_eq_true, if_false]
    have hfg : f ≠ g := by intro e; rw [e] at hfe; exact hfe hgn
    unfold emitField
    cases hk : f.kind with
    | raw => simp only; rw [lookupField_sel, lookupField_sel, hother f hf hfg]
    | str => rfl
    | map => rfl
    | unknown => rfl


/-! ## redaction keeps number literals grammatical -/

/-- every value of the members is a value with grammatical number literals -/
def AllNums (m : EventParse.Obj) : Prop := ∀ kv ∈ m, kv.2.numsOk = true

theorem allNums_iff (m : EventParse.Obj) : numsOkMembers m = true ↔ AllNums m := by
  rw [numsOkMembers_eq_all, List.all_eq_true]; rfl

theorem lastSome_mem (p : Bytes × JVal → Bool) (l : EventParse.Obj) (v : JVal) (h : lastSome p l = some v) :
    ∃ kv ∈ l, kv.2 = v := by
  induction l with
  | nil => cases h
  | cons x rest ih =>
    rw [lastSome_cons] at h
    cases hr : lastSome p rest with
    | some w =>
      rw [hr] at h
      simp only [Option.some.injEq] at h
      obtain ⟨kv, hkv, hv⟩ := ih (by rw [hr, h])
      exact ⟨kv, List.mem_cons_of_mem _ hkv, hv⟩
    | none =>
      rw [hr] at h
      simp only at h
      split at h
      · simp only [Option.some.injEq] at h
        exact ⟨x, List.mem_cons_self, h⟩
      · cases h

theorem setKey_allNums (m : EventParse.Obj) (k : Bytes) (v : JVal) (hm : AllNums m) (hv : v.numsOk = true) :
    AllNums (setKey m k v) := by
  unfold setKey
  split
  · intro kv hkv
    obtain ⟨x, hx, hxe⟩ := List.mem_map.mp hkv
    split at hxe
    · rw [← hxe]; exact hv
    · rw [← hxe]; exact hm x hx
  · intro kv hkv
    rcases List.mem_append.mp hkv with h | h
    · exact hm kv h
    · simp only [List.mem_singleton] at h; rw [h]; exact hv

theorem mergeInto_allNums (acc m : EventParse.Obj) (ha : AllNums acc) (hm : AllNums m) : AllNums (mergeInto acc m) := by
  unfold mergeInto
  induction m generalizing acc with
  | nil => exact ha
  | cons kv rest ih =>
    simp only [List.foldl_cons]
    exact ih _ (setKey_allNums acc kv.1 kv.2 ha (hm kv List.mem_cons_self)) (fun x hx => hm x (List.mem_cons_of_mem _ hx))

theorem contentStep_allNums (acc : ContentDec) (kv : Bytes × JVal) (hkv : kv.2.numsOk = true)
    (h : ∀ m, acc.val = some m → AllNums m) : ∀ m, (contentStep acc kv).val = some m → AllNums m := by
  intro m hm
  unfold contentStep at hm
  split at hm
  · rename_i m0 hobj
    simp only [Option.some.injEq] at hm
    subst hm
    apply mergeInto_allNums
    · cases hv : acc.val with
      | none => intro x hx; cases hx
      | some x => simpa using h x hv
    · rw [hobj] at hkv
      simp only [JVal.numsOk] at hkv
      exact (allNums_iff m0).mp hkv
  · cases hm
  · exact h m hm

theorem foldl_contentStep_allNums (l : EventParse.Obj) (hl : AllNums l) (acc : ContentDec)
    (h : ∀ m, acc.val = some m → AllNums m) : ∀ m, (l.foldl contentStep acc).val = some m → AllNums m := by
  induction l generalizing acc with
  | nil => exact h
  | cons kv rest ih =>
    exact ih (fun x hx => hl x (List.mem_cons_of_mem _ hx)) _ (contentStep_allNums acc kv (hl kv List.mem_cons_self) h)

theorem decContent_allNums (name : Bytes) (kvs : EventParse.Obj) (hk : AllNums kvs) :
    ∀ m, (decContent name kvs).val = some m → AllNums m := by
  rw [decContent_sel]
  apply foldl_contentStep_allNums
  · intro kv hkv
    exact hk kv (List.mem_filter.mp hkv).1
  · intro m hm; cases hm

theorem newContent_allNums (ct : CTable) (ty : Bytes) (c : Option EventParse.Obj) (hc : ∀ m, c = some m → AllNums m) :
    ∀ m, newContent ct ty c = some m → AllNums m := by
  intro m hm
  unfold newContent at hm
  cases hct : mapGet ct ty with
  | none =>
    rw [hct] at hm
    simp only [Option.some.injEq] at hm
    subst hm
    intro kv hkv; cases hkv
  | some keys =>
    rw [hct] at hm
    cases keys with
    | nil => exact hc m hm
    | cons k ks =>
      simp only [Option.some.injEq] at hm
      subst hm
      intro kv hkv
      obtain ⟨key, _, hkey⟩ := List.mem_filterMap.mp hkv
      cases hg : mapGet (c.getD []) key with
      | none => rw [hg] at hkey; cases hkey
      | some v =>
        rw [hg] at hkey
        simp only [Option.map_some, Option.some.injEq] at hkey
        obtain ⟨k', hmem⟩ := mapGet_mem _ _ _ hg
        cases hcv : c with
        | none => rw [hcv] at hmem; cases hmem
        | some m0 =>
          rw [hcv] at hmem
          rw [← hkey]
          exact hc m0 hcv (k', v) hmem

/-- **Redaction keeps number literals grammatical**: the members of the output come from the input. -/
theorem redactObj_numsOk {a : Algo} {kvs rk : EventParse.Obj} (hk : numsOkMembers kvs = true)
    (h : redactObj a kvs = .ok (.obj rk)) : numsOkMembers rk = true := by
  obtain ⟨tf, cf, F, hv⟩ := redactObj_ok h
  have hrk : rk = outputOf a kvs tf cf := by injection hv
  have hk' := (allNums_iff kvs).mp hk
  rw [allNums_iff, hrk]
  intro kv hkv
  obtain ⟨f, _, hkv'⟩ := List.mem_flatMap.mp hkv
  unfold emitField at hkv'
  split at hkv'
  · split at hkv'
    · cases hkv'
    · simp only [List.mem_singleton] at hkv'; rw [hkv']; rfl
  · split at hkv'
    · split at hkv'
      · cases hkv'
      · simp only [List.mem_singleton] at hkv'; rw [hkv']; rfl
    · rename_i m hnc
      split at hkv'
      · cases hkv'
      · simp only [List.mem_singleton] at hkv'; rw [hkv']
        simp only [JVal.numsOk]
        exact (allNums_iff m).mpr (newContent_allNums _ _ _ (decContent_allNums cf.name kvs hk') m hnc)
  · split at hkv'
    · rename_i v hl
      simp only [List.mem_singleton] at hkv'; rw [hkv']
      rw [lookupField_eq] at hl
      obtain ⟨x, hx, hxv⟩ := lastSome_mem _ _ _ hl
      rw [← hxv]; exact hk' x hx
    · cases hkv'
  · cases hkv'


/-! ## same canonical bytes, same keys -/

theorem keys_perm_of_canon_eq {A B : EventParse.Obj} (hA : numsOkMembers A = true) (hB : numsOkMembers B = true)
    (h : encodeCanon (.obj A) = encodeCanon (.obj B)) : (keysOf A).Perm (keysOf B) := by
  have hinj := encodeCanon_inj (.obj A) (.obj B) (by simpa [JVal.numsOk] using hA) (by simpa [JVal.numsOk] using hB) h
  simp only [JVal.sorted, JVal.normNums, JVal.obj.injEq] at hinj
  have hk := congrArg (List.map (·.1)) hinj
  rw [normNumsMembers_eq_map, normNumsMembers_eq_map, List.map_map, List.map_map] at hk
  have e : ∀ X : EventParse.Obj, List.map ((fun x => x.1) ∘ fun kv : Bytes × JVal => (kv.1, kv.2.normNums)) X = X.map (·.1) :=
    fun X => List.map_congr_left (fun _ _ => rfl)
  rw [e, e] at hk
  have pA : ((sortByKey (sortedMembers A)).map (·.1)).Perm (keysOf A) := by
    have := (sortByKey_perm (sortedMembers A)).map (·.1)
    rw [sortedMembers_keys'] at this
    exact this
  have pB : ((sortByKey (sortedMembers B)).map (·.1)).Perm (keysOf B) := by
    have := (sortByKey_perm (sortedMembers B)).map (·.1)
    rw [sortedMembers_keys'] at this
    exact this
  exact pA.symm.trans (hk ▸ pB)

/-- **No hidden variant.**  If the redaction of `k`, with `event_id` dropped, has the canonical bytes
    of `k` itself (the constructors then keep the decoded event instead of re-parsing), then `k` has no
    member the struct decoding would read as `event_id`, and its redaction has no `event_id` member. -/
theorem no_variant_of_same_canon {a : Algo} (hT : tablesOk a = true) {g : Field} (hg : g ∈ a.fields)
    (hgn : g.name = b!"event_id") (hgk : g.kind = .raw)
    {k rk : EventParse.Obj} (hnum : numsOkMembers k = true) (h : redactObj a k = .ok (.obj rk))
    (hc : encodeCanon (.obj (deleteFirst b!"event_id" rk)) = encodeCanon (.obj k)) :
    lookupExact rk b!"event_id" = none := by
  obtain ⟨hdist, _, _, _⟩ := tablesOk_parts hT
  have hev : a.fields.any (fun f => f.name == b!"event_id") = true :=
    List.any_eq_true.mpr ⟨g, hg, by simp [hgn]⟩
  have hnrk := redactObj_numsOk hnum h
  have hnd : numsOkMembers (deleteFirst b!"event_id" rk) = true := by
    rw [allNums_iff]
    intro kv hkv
    exact (allNums_iff rk).mp hnrk kv (deleteFirst_sub _ _ kv hkv)
  have hperm := keys_perm_of_canon_eq hnd hnum hc
  have hnone : sel b!"event_id" (deleteFirst b!"event_id" rk) = [] :=
    sel_nil_of_members_nil (no_event_id_member hT hev h)
  -- no member of `k` is read as `event_id`
  have hselk : sel b!"event_id" k = [] := by
    apply filter_eq_nil_of
    intro kv hkv
    cases hm : matchesField kv.1 b!"event_id"
    · rfl
    · exfalso
      have hin : kv.1 ∈ keysOf (deleteFirst b!"event_id" rk) :=
        hperm.symm.subset (List.mem_map.mpr ⟨kv, hkv, rfl⟩)
      obtain ⟨kv', hkv', hk1⟩ := List.mem_map.mp hin
      have : kv' ∈ sel b!"event_id" (deleteFirst b!"event_id" rk) := by
        unfold sel
        exact List.mem_filter.mpr ⟨hkv', by show matchesField kv'.1 _ = true; rw [hk1]; exact hm⟩
      rw [hnone] at this
      cases this
  -- so the `event_id` field emits nothing
  obtain ⟨tf, cf, F, hv⟩ := redactObj_ok h
  have hrk : rk = outputOf a k tf cf := by injection hv
  rw [lookupExact_eq, lastSome_none_iff]
  intro kv hkv
  cases hb : kv.1 == b!"event_id"
  · rfl
  · exfalso
    have hke : kv.1 = b!"event_id" := eq_of_beq hb
    rw [hrk] at hkv
    obtain ⟨f, hf, hkv'⟩ := List.mem_flatMap.mp hkv
    have hfn : kv.1 = f.name := emitField_name hkv'
    have hfg : f = g := foldDistinct_inj hdist hf hg (by rw [← hfn, hke, hgn])
    subst hfg
    unfold emitField at hkv'
    simp only [hgk] at hkv'
    rw [lookupField_sel, hgn, hselk] at hkv'
    cases hkv'

end V.EventProofs
