/-
  VProofs.EventTamper — helper lemmas for C04's `tamper_redactable_same_identity`: the stripped form
  of a received event of the formats with a computed ID has no `event_id` member (the constructors
  delete the key, and the model's domain has no duplicate keys), so — redaction matching keys exactly —
  its redaction has none either, whatever case variants (`Event_id`) the sender put in.  Core Lean only.

  (Before the repair of `redactEventJSON` this file carried the analysis of the `event_id` member that
  the keep struct re-emitted for a case variant: `redactObj_dropEventID`, `no_variant_of_same_canon`.
  With exact key matching that member cannot arise and those lemmas are gone.)
-/
import VProofs.EventParse
namespace V.EventProofs
open V V.Json V.GoJson V.Redact V.EventParse V.RedactProofs

theorem deleteFirst_keys_sublist (k : Bytes) : ∀ l : EventParse.Obj, List.Sublist (keysOf (deleteFirst k l)) (keysOf l)
  | [] => List.Sublist.refl _
  | x :: rest => by
    unfold deleteFirst
    split
    · exact List.Sublist.cons _ (List.Sublist.refl _)
    · exact List.Sublist.cons_cons _ (deleteFirst_keys_sublist k rest)

theorem deleteFirst_keys_nodup (k : Bytes) (l : EventParse.Obj) (h : (keysOf l).Nodup) : (keysOf (deleteFirst k l)).Nodup :=
  (deleteFirst_keys_sublist k l).nodup h

theorem keys_nodup_of_noDupKeys {l : EventParse.Obj} (h : (JVal.obj l).noDupKeys = true) : (keysOf l).Nodup := by
  simp only [JVal.noDupKeys, Bool.and_eq_true] at h
  exact (noDupIn_iff_nodup _).mp h.1

/-- **The stripped form has no `event_id`.**  For the formats whose ID is computed, the constructors
    delete `event_id` from the received text; the text has no duplicate keys (the model's domain), so
    no member with exactly that key is left. -/
theorem stripped_no_event_id {fmt : Fmt} (hv : fmt ≠ .v1) {kvs0 kvs : EventParse.Obj}
    (hnd : (JVal.obj kvs0).noDupKeys = true) (hs : stripped fmt (.obj kvs0) = .obj kvs) :
    lookupExact kvs b!"event_id" = none := by
  have hk : kvs = deleteKeys (stripKeys fmt) kvs0 := by
    unfold stripped at hs
    injection hs with h; exact h.symm
  have hkeys : stripKeys fmt = [b!"outlier", b!"destinations", b!"age_ts", b!"unsigned", b!"event_id"] := by
    unfold stripKeys
    rw [if_neg (by simp [hv])]
  have h0 := keys_nodup_of_noDupKeys hnd
  have h4 : (keysOf (deleteFirst b!"unsigned" (deleteFirst b!"age_ts" (deleteFirst b!"destinations"
      (deleteFirst b!"outlier" kvs0))))).Nodup :=
    deleteFirst_keys_nodup _ _ (deleteFirst_keys_nodup _ _ (deleteFirst_keys_nodup _ _ (deleteFirst_keys_nodup _ _ h0)))
  have hform : kvs = deleteFirst b!"event_id" (deleteFirst b!"unsigned" (deleteFirst b!"age_ts" (deleteFirst b!"destinations"
      (deleteFirst b!"outlier" kvs0)))) := by
    rw [hk, hkeys]; rfl
  rw [lookupExact_eq, hform]
  apply lastSome_none_of_forall
  intro kv hkv
  have := deleteFirst_removes _ _ h4 kv hkv
  simpa using this

end V.EventProofs
