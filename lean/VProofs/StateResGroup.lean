/-
  `groupByKey` of the state-resolution model: the groups are exactly the non-empty classes of state
  events per (type, state_key) slot, each in input order, with pairwise distinct keys.  Core only.
-/
import VProofs.StateResBasic
namespace V.StateRes
open V Json GoJson Auth List

/-- `hasKey` in terms of `keyOf` (`keyOf`, `hasKey`, `hasKey_iff`, `hasKey_keyOf` live in StateResBasic) -/
theorem hasKey_iff_keyOf {key : Bytes × Bytes} {e : Event} :
    hasKey key e = true ↔ e.stateKey.isSome ∧ keyOf e = key := by
  unfold hasKey; simp

theorem keyOf_some {e : Event} {k : Bytes} (h : e.stateKey = some k) : keyOf e = (e.type, k) := by
  unfold keyOf; rw [h]; rfl

/-- the fold step of `groupByKey` (the lambda of the model, verbatim) -/
def groupStep (acc : List ((Bytes × Bytes) × List Event)) (e : Event) : List ((Bytes × Bytes) × List Event) :=
  match e.stateKey with
    | none => acc
    | some k =>
      let key := (e.type, k)
      if (acc.find? (fun g => g.1 == key)).isSome then acc.map (fun g => if g.1 == key then (g.1, g.2 ++ [e]) else g)
      else acc ++ [(key, [e])]

theorem groupByKey_eq (evs : List Event) : groupByKey evs = evs.foldl groupStep [] := rfl

theorem groupByKey_nil : groupByKey [] = [] := rfl

theorem groupByKey_snoc (evs : List Event) (e : Event) : groupByKey (evs ++ [e]) = groupStep (groupByKey evs) e := by
  simp only [groupByKey_eq, List.foldl_append, List.foldl_cons, List.foldl_nil]

theorem groupStep_none {acc} {e : Event} (h : e.stateKey = none) : groupStep acc e = acc := by
  unfold groupStep; rw [h]

theorem groupStep_found {acc : List ((Bytes × Bytes) × List Event)} {e : Event} (hk : e.stateKey.isSome)
    (h : ∃ g ∈ acc, g.1 = keyOf e) :
    groupStep acc e = acc.map (fun g => if g.1 == keyOf e then (g.1, g.2 ++ [e]) else g) := by
  unfold groupStep
  cases hs : e.stateKey with
  | none => rw [hs] at hk; cases hk
  | some k =>
    have hke := keyOf_some hs
    simp only [← hke]
    rw [if_pos]
    rw [List.find?_isSome]
    obtain ⟨g, hg, hgk⟩ := h
    exact ⟨g, hg, by simp [hgk]⟩

theorem groupStep_fresh {acc : List ((Bytes × Bytes) × List Event)} {e : Event} (hk : e.stateKey.isSome)
    (h : ∀ g ∈ acc, g.1 ≠ keyOf e) :
    groupStep acc e = acc ++ [(keyOf e, [e])] := by
  unfold groupStep
  cases hs : e.stateKey with
  | none => rw [hs] at hk; cases hk
  | some k =>
    have hke := keyOf_some hs
    simp only [← hke]
    rw [if_neg]
    rw [List.find?_isSome]
    rintro ⟨g, hg, hgk⟩
    exact h g hg (by simpa using hgk)

/-- the invariant tying a group list to the events processed so far -/
structure GroupInv (evs : List Event) (G : List ((Bytes × Bytes) × List Event)) : Prop where
  nodup : (G.map (·.1)).Nodup
  group : ∀ g ∈ G, g.2 = evs.filter (hasKey g.1) ∧ g.2 ≠ []
  complete : ∀ e ∈ evs, e.stateKey.isSome → ∃ g ∈ G, g.1 = keyOf e

theorem GroupInv.nil : GroupInv [] [] :=
  ⟨by simp, fun _ h => absurd h (by simp), fun _ h => absurd h (by simp)⟩

theorem GroupInv.step {evs : List Event} {G} (h : GroupInv evs G) (e : Event) : GroupInv (evs ++ [e]) (groupStep G e) := by
  cases hs : e.stateKey with
  | none =>
    rw [groupStep_none hs]
    have hf : ∀ key, hasKey key e = false := by intro key; unfold hasKey; rw [hs]; rfl
    refine ⟨h.nodup, ?_, ?_⟩
    · intro g hg
      rw [List.filter_append, List.filter_cons, hf]
      simpa using h.group g hg
    · intro x hx hk
      rcases List.mem_append.mp hx with hx | hx
      · exact h.complete x hx hk
      · simp only [List.mem_singleton] at hx; subst hx; rw [hs] at hk; cases hk
  | some k =>
    have hk : e.stateKey.isSome := by rw [hs]; rfl
    by_cases hex : ∃ g ∈ G, g.1 = keyOf e
    · rw [groupStep_found hk hex]
      refine ⟨?_, ?_, ?_⟩
      · have : (G.map (fun g => if g.1 == keyOf e then (g.1, g.2 ++ [e]) else g)).map (·.1) = G.map (·.1) := by
          rw [List.map_map]; apply List.map_congr_left
          intro g _; simp only [Function.comp]; split <;> rfl
        rw [this]; exact h.nodup
      · intro g' hg'
        obtain ⟨g, hg, rfl⟩ := List.mem_map.mp hg'
        obtain ⟨h1, h2⟩ := h.group g hg
        by_cases hgk : g.1 == keyOf e
        · rw [if_pos hgk]
          have : hasKey g.1 e = true := hasKey_iff_keyOf.mpr ⟨hk, (by simpa using hgk : g.1 = keyOf e).symm⟩
          rw [List.filter_append, List.filter_cons, this, h1]
          simp
        · rw [if_neg hgk]
          have : hasKey g.1 e = false := by
            rw [Bool.eq_false_iff]; intro hh
            exact hgk (by simpa using (hasKey_iff_keyOf.mp hh).2.symm)
          rw [List.filter_append, List.filter_cons, this]
          simpa using ⟨h1, h2⟩
      · intro x hx hxk
        have : ∃ g ∈ G, g.1 = keyOf x := by
          rcases List.mem_append.mp hx with hx | hx
          · exact h.complete x hx hxk
          · simp only [List.mem_singleton] at hx; subst hx; exact hex
        obtain ⟨g, hg, hgk⟩ := this
        refine ⟨_, List.mem_map_of_mem (f := fun g => if g.1 == keyOf e then (g.1, g.2 ++ [e]) else g) hg, ?_⟩
        split <;> exact hgk
    · have hfresh : ∀ g ∈ G, g.1 ≠ keyOf e := fun g hg hgk => hex ⟨g, hg, hgk⟩
      rw [groupStep_fresh hk hfresh]
      refine ⟨?_, ?_, ?_⟩
      · rw [List.map_append, List.nodup_append]
        refine ⟨h.nodup, by simp, ?_⟩
        intro a ha b hb
        obtain ⟨g, hg, rfl⟩ := List.mem_map.mp ha
        simp only [List.map_cons, List.map_nil, List.mem_singleton] at hb
        rw [hb]; exact hfresh g hg
      · intro g hg
        rcases List.mem_append.mp hg with hg | hg
        · have : hasKey g.1 e = false := by
            rw [Bool.eq_false_iff]; intro hh
            exact hfresh g hg (hasKey_iff_keyOf.mp hh).2.symm
          rw [List.filter_append, List.filter_cons, this]
          simpa using h.group g hg
        · simp only [List.mem_singleton] at hg; subst hg
          have hnil : evs.filter (hasKey (keyOf e)) = [] := by
            rw [List.filter_eq_nil_iff]
            intro x hx hxk
            obtain ⟨hxs, hxe⟩ := hasKey_iff_keyOf.mp hxk
            obtain ⟨g, hg, hgk⟩ := h.complete x hx hxs
            exact hfresh g hg (hgk.trans hxe)
          rw [List.filter_append, hnil, List.filter_cons, hasKey_keyOf hk]
          simp
      · intro x hx hxk
        rcases List.mem_append.mp hx with hx | hx
        · obtain ⟨g, hg, hgk⟩ := h.complete x hx hxk
          exact ⟨g, List.mem_append_left _ hg, hgk⟩
        · simp only [List.mem_singleton] at hx; subst hx
          exact ⟨_, List.mem_append_right _ (List.mem_singleton.mpr rfl), rfl⟩

theorem groupInv_reverse (l : List Event) : GroupInv l.reverse (groupByKey l.reverse) := by
  induction l with
  | nil => exact GroupInv.nil
  | cons a as ih => rw [List.reverse_cons, groupByKey_snoc]; exact ih.step a

/-- `groupByKey` satisfies the invariant -/
theorem groupByKey_inv (evs : List Event) : GroupInv evs (groupByKey evs) := by
  have := groupInv_reverse evs.reverse
  rwa [List.reverse_reverse] at this

theorem groupByKey_keys_nodup (evs : List Event) : ((groupByKey evs).map (·.1)).Nodup :=
  (groupByKey_inv evs).nodup

/-- each group holds exactly the state events of its key, in input order, and is not empty -/
theorem groupByKey_group {evs : List Event} {g} (hg : g ∈ groupByKey evs) :
    g.2 = evs.filter (hasKey g.1) ∧ g.2 ≠ [] :=
  (groupByKey_inv evs).group g hg

theorem groupByKey_complete {evs : List Event} {e : Event} (he : e ∈ evs) (hk : e.stateKey.isSome) :
    ∃ g ∈ groupByKey evs, g.1 = keyOf e :=
  (groupByKey_inv evs).complete e he hk

/-- the members of a group are state events of the input with the key of the group -/
theorem groupByKey_mem {evs : List Event} {g} (hg : g ∈ groupByKey evs) {e : Event} :
    e ∈ g.2 ↔ e ∈ evs ∧ e.stateKey.isSome ∧ keyOf e = g.1 := by
  rw [(groupByKey_group hg).1, List.mem_filter, hasKey_iff_keyOf]

/-- two groups with the same key are the same group -/
theorem groupByKey_key_inj {evs : List Event} {g g'} (hg : g ∈ groupByKey evs) (hg' : g' ∈ groupByKey evs)
    (h : g.1 = g'.1) : g = g' := by
  have h2 : g.2 = g'.2 := by rw [(groupByKey_group hg).1, (groupByKey_group hg').1, h]
  exact Prod.ext h h2

/-- every state event of the input lies in exactly the group of its key -/
theorem groupByKey_cover {evs : List Event} {e : Event} (he : e ∈ evs) (hk : e.stateKey.isSome) :
    ∃ g ∈ groupByKey evs, g.1 = keyOf e ∧ e ∈ g.2 := by
  obtain ⟨g, hg, hgk⟩ := groupByKey_complete he hk
  exact ⟨g, hg, hgk, (groupByKey_mem hg).mpr ⟨he, hk, hgk.symm⟩⟩

/-- lookup form -/
theorem groupByKey_find (evs : List Event) (key : Bytes × Bytes) :
    ((groupByKey evs).find? (fun g => g.1 == key)).map (·.2) =
      if (evs.filter (hasKey key)).isEmpty then none else some (evs.filter (hasKey key)) := by
  cases hf : (groupByKey evs).find? (fun g => g.1 == key) with
  | none =>
    rw [List.find?_eq_none] at hf
    have : evs.filter (hasKey key) = [] := by
      rw [List.filter_eq_nil_iff]
      intro x hx hxk
      obtain ⟨hxs, hxe⟩ := hasKey_iff_keyOf.mp hxk
      obtain ⟨g, hg, hgk⟩ := groupByKey_complete hx hxs
      exact hf g hg (by simp [hgk, hxe])
    rw [this]; rfl
  | some g =>
    have hg : g ∈ groupByKey evs := List.mem_of_find?_eq_some hf
    have hgk : g.1 = key := by simpa using List.find?_some hf
    obtain ⟨h1, h2⟩ := groupByKey_group hg
    rw [hgk] at h1
    rw [← h1]
    cases hg2 : g.2 with
    | nil => exact absurd hg2 h2
    | cons a as => simp [hg2]

/-- permuting the input permutes the groups and the events inside each group -/
theorem groupByKey_perm {evs evs' : List Event} (h : evs ~ evs') :
    (∀ g ∈ groupByKey evs, ∃ g' ∈ groupByKey evs', g'.1 = g.1 ∧ g.2 ~ g'.2) := by
  intro g hg
  obtain ⟨h1, h2⟩ := groupByKey_group hg
  obtain ⟨e, he⟩ := List.exists_mem_of_ne_nil _ h2
  obtain ⟨hev, hes, hek⟩ := (groupByKey_mem hg).mp he
  obtain ⟨g', hg', hgk'⟩ := groupByKey_complete (h.mem_iff.mp hev) hes
  refine ⟨g', hg', hgk'.trans hek, ?_⟩
  rw [h1, (groupByKey_group hg').1, hgk'.trans hek]
  exact h.filter _

/-- the number of groups is the same for permuted inputs -/
theorem groupByKey_perm_keys {evs evs' : List Event} (h : evs ~ evs') :
    (groupByKey evs).map (·.1) ~ (groupByKey evs').map (·.1) := by
  refine SameSet.perm ?_ (groupByKey_keys_nodup evs) (groupByKey_keys_nodup evs')
  intro key
  simp only [List.mem_map]
  constructor
  · rintro ⟨g, hg, rfl⟩
    obtain ⟨g', hg', hk, _⟩ := groupByKey_perm h g hg
    exact ⟨g', hg', hk⟩
  · rintro ⟨g, hg, rfl⟩
    obtain ⟨g', hg', hk, _⟩ := groupByKey_perm h.symm g hg
    exact ⟨g', hg', hk⟩

end V.StateRes
