/-
  VProofs.StateResPanic — refinement of `VModel.StateResPanic` to `VModel.StateRes` (whenever no site
  fires the results are equal) and the guards that keep each site from firing.  Core Lean only.
-/
import VModel.StateResPanic
import VProofs.StateResWF
import VProofs.AuthRulesNoPanic
namespace V.SRPanic
open V V.Json V.GoJson V.Auth V.StateRes V.StateResPanic

/-! ## Refinement (a): the sub-functions -/

theorem foldlM_some_eq {α β : Type} (fP : α → β → Option α) (f : α → β → α)
    (h : ∀ a b r, fP a b = some r → f a b = r) :
    ∀ (l : List β) (init r : α), l.foldlM fP init = some r → l.foldl f init = r := by
  intro l
  induction l with
  | nil => intro init r hr; simp only [List.foldlM_nil] at hr; cases hr; rfl
  | cons b rest ih =>
    intro init r hr
    simp only [List.foldlM_cons] at hr
    cases hb : fP init b with
    | none => rw [hb] at hr; cases hr
    | some a =>
      rw [hb] at hr
      simp only [List.foldl_cons, h init b a hb]
      exact ih a r hr

theorem mainlineIterP_eq (am : List Event) : ∀ (fuel : Nat) (path : List ID) (e : Event) (acc r : List Event),
    mainlineIterP am fuel path e acc = some r → mainlineIter am fuel path e acc = r := by
  intro fuel
  induction fuel with
  | zero => intro path e acc r h; simp only [mainlineIterP] at h; cases h
  | succ fuel ih =>
    intro path e acc r h
    simp only [mainlineIterP] at h
    simp only [mainlineIter]
    refine foldlM_some_eq _ _ ?_ _ _ _ h
    intro a p r' hr
    split at hr
    · rename_i hp; simp only [hp, if_true]; exact ih _ p a r' hr
    · rename_i hp; simp only [hp]; cases hr; rfl

theorem createMainlineP_eq {am : List Event} {pl : Option Event} {m : List Event} (h : createMainlineP am pl = .ok m) :
    m = createMainline am pl := by
  unfold createMainlineP at h
  unfold createMainline
  split at h
  · cases h; rfl
  · split at h
    · rename_i m' hm
      cases h
      exact (mainlineIterP_eq am _ _ _ _ _ hm).symm
    · cases h

theorem firstMainlineP_go_eq (am ml : List Event) (fuel : Nat)
    (ih : ∀ path e st r, firstMainlineP am ml fuel path e st = some r → firstMainline am ml fuel path e st = r) (path : List ID) :
    ∀ (ps : List Event) (st r : Nat × Nat), firstMainlineP.go am ml fuel path ps st = some r →
      firstMainline.go am ml fuel path ps st = r := by
  intro ps
  induction ps with
  | nil => intro st r h; rw [firstMainlineP.go.eq_1] at h; rw [firstMainline.go.eq_1]; cases h; rfl
  | cons p rest ihp =>
    intro st r h
    rw [firstMainlineP.go.eq_2] at h
    rw [firstMainline.go.eq_2]
    split at h
    · rename_i hp; rw [if_pos hp]; exact ihp st r h
    · rename_i hp
      rw [if_neg hp]
      split at h
      · rename_i pos hpos; rw [hpos]; cases h; rfl
      · rename_i hpos
        rw [hpos]
        simp only
        split at h
        · rename_i hc; rw [if_pos hc]; exact ihp st r h
        · rename_i hc
          rw [if_neg hc]
          split at h
          · rename_i st' hst
            rw [ih _ p _ st' hst]
            exact ihp st' r h
          · cases h

theorem firstMainlineP_eq (am ml : List Event) : ∀ (fuel : Nat) (path : List ID) (e : Event) (st r : Nat × Nat),
    firstMainlineP am ml fuel path e st = some r → firstMainline am ml fuel path e st = r := by
  intro fuel
  induction fuel with
  | zero => intro path e st r h; rw [firstMainlineP.eq_1] at h; cases h
  | succ fuel ih =>
    intro path e st r h
    rw [firstMainlineP.eq_2] at h
    rw [firstMainline.eq_2]
    exact firstMainlineP_go_eq am ml fuel ih path _ st r h

theorem otherKeyP_eq {am ml : List Event} {e : Event} {k : OtherKey} (h : otherKeyP am ml e = .ok k) : k = otherKey am ml e := by
  unfold otherKeyP at h
  unfold otherKey
  split at h
  · rename_i pos steps hf
    cases h
    rw [firstMainlineP_eq am ml _ _ _ _ _ hf]
  · cases h

theorem otherKeysP_eq {am ml : List Event} : ∀ {evs : List Event} {ks : List (Event × OtherKey)},
    otherKeysP am ml evs = .ok ks → ks = evs.map (fun e => (e, otherKey am ml e)) := by
  intro evs
  induction evs with
  | nil => intro ks h; simp only [otherKeysP] at h; cases h; rfl
  | cons e rest ih =>
    intro ks h
    simp only [otherKeysP] at h
    split at h
    · cases h
    · rename_i k hk
      split at h
      · cases h
      · rename_i ks' hks
        cases h
        rw [otherKeyP_eq hk, ih hks]; rfl

theorem mainlineOrderingP_eq {am ml evs r : List Event} (h : mainlineOrderingP am ml evs = .ok r) :
    r = mainlineOrdering am ml evs := by
  unfold mainlineOrderingP at h
  unfold mainlineOrdering
  split at h
  · cases h
  · rename_i ks hks
    cases h
    rw [otherKeysP_eq hks]

theorem reverseTopoAuthP_eq {am : List Event} {ce : Option Event} {evs r : List Event} (h : reverseTopoAuthP am ce evs = .ok r) :
    r = reverseTopoAuth am ce evs := by
  unfold reverseTopoAuthP at h
  split at h
  · cases h
  · cases h; rfl

theorem authAndApplyP_eq (am : List Event) (rej : List ID) : ∀ (evs : List Event) (s r : State),
    authAndApplyP am rej s evs = .ok r → r = authAndApply am rej s evs := by
  intro evs
  induction evs with
  | nil => intro s r h; simp only [authAndApplyP] at h; cases h; rfl
  | cons e rest ih =>
    intro s r h
    simp only [authAndApplyP] at h
    unfold authAndApply
    simp only [List.foldl_cons]
    split at h
    · cases h
    · rename_i hv
      rw [hv]
      exact ih _ r h
    · rename_i hnp hno
      have := ih s r h
      rw [this]
      unfold authAndApply
      cases hv : allowedFreshNoValid e (Provider.ofEvents (providerFor am rej s e)) false with
      | ok => exact absurd hv hno
      | _ => rfl

/-! ## Refinement (a): `ResolveStateConflictsV2New` -/

theorem unconflictedFirstP_eq {algo : Nat} {am : List Event} {ce : Option Event} {u : List Event} {s : State}
    (h : unconflictedFirstP algo am ce u = .ok s) :
    s = if algo == 2 then applyEvents [] (reverseTopoAuth am ((State.get [] b!"m.room.create" []).orElse (fun _ => ce)) u) else [] := by
  unfold unconflictedFirstP at h
  split at h
  · rename_i ha
    rw [if_pos ha]
    split at h
    · cases h
    · rename_i l hl
      cases h
      rw [reverseTopoAuthP_eq hl]
  · rename_i ha
    rw [if_neg ha]
    cases h; rfl

theorem tailP_eq {am : List Event} {rej : List ID} {ce : Option Event} {s1 : State} {ces os : List Event}
    {r : List Event × List Event × State} (h : tailP am rej ce s1 ces os = .ok r) : r = tail am rej ce s1 ces os := by
  unfold tailP at h
  unfold tail
  split at h
  · cases h
  · rename_i controlOrder hco
    split at h
    · cases h
    · rename_i s2 hs2
      split at h
      · cases h
      · rename_i mainline hml
        split at h
        · cases h
        · rename_i othersOrder hoo
          split at h
          · cases h
          · rename_i s3 hs3
            cases h
            have e2 := reverseTopoAuthP_eq hco
            subst e2
            have e3 := authAndApplyP_eq _ _ _ _ _ hs2
            subst e3
            have e4 := createMainlineP_eq hml
            subst e4
            have e5 := mainlineOrderingP_eq hoo
            subst e5
            have e6 := authAndApplyP_eq _ _ _ _ _ hs3
            subst e6
            rfl

theorem resolveV2NewP_eq {algo : Nat} {sets : List (List Event)} {auth : List Event} {rej : List ID} {st : Stages}
    (h : resolveV2NewP algo sets auth rej = .ok st) : st = resolveV2New algo sets auth rej := by
  unfold resolveV2NewP at h
  unfold resolveV2New
  split at h
  · cases h
  · cases hsp : splitConflictedUnconflicted false sets with
    | mk c u =>
      rw [hsp] at h
      simp only at h ⊢
      split at h
      · cases h
      · cases h
      · cases h
      · split at h
        · rename_i hemp
          rw [if_pos hemp]
          cases h; rfl
        · rename_i hemp
          rw [if_neg hemp]
          split at h
          · cases h
          · split at h
            · cases h
            · rename_i s1 hs1
              split at h
              · cases h
              · rename_i controlOrder othersOrder s3 ht
                cases h
                have e1 := unconflictedFirstP_eq hs1
                subst e1
                have e2 := tailP_eq ht
                unfold tail at e2
                simp only [Prod.mk.injEq] at e2
                obtain ⟨e2a, e2b, e2c⟩ := e2
                subst e2a; subst e2b; subst e2c
                rfl

/-! ## Refinement (a): `ResolveStateConflictsV2` (deprecated) -/

theorem resolveV2OldP_eq {conflicted unconflicted auth : List Event} {rej : List ID} {r : List ID}
    (h : resolveV2OldP conflicted unconflicted auth rej = .ok r) : r = resolveV2Old conflicted unconflicted auth rej := by
  unfold resolveV2OldP at h
  unfold resolveV2Old
  split at h
  · rename_i hc; rw [hc]; cases h; rfl
  · rename_i ce hc
    rw [hc]
    simp only at h ⊢
    split at h
    · cases h
    · cases h
    · cases h
    · split at h
      · cases h
      · split at h
        · cases h
        · rename_i controlOrder othersOrder s3 ht
          cases h
          have e2 := tailP_eq ht
          unfold tail at e2
          simp only [Prod.mk.injEq] at e2
          obtain ⟨_, _, e2c⟩ := e2
          subst e2c
          rfl

/-! ## Refinement (a): version 1 -/

theorem v1AllowedP_eq {s : V1State} {valid : Bool} {e : Event} {b : Bool} (h : v1AllowedP s valid e = .ok b) :
    b = v1Allowed s valid e := by
  unfold v1AllowedP at h
  unfold v1Allowed
  split at h
  · cases h
  · cases h; rfl

theorem authBlockGoP_eq (valid : Bool) : ∀ (rest : List Event) (s : V1State) (result : Event) (r : Event × V1State),
    authBlockGoP valid s result rest = .ok r → r = resolveAuthBlock.go valid s result rest := by
  intro rest
  induction rest with
  | nil => intro s result r h; simp only [authBlockGoP] at h; cases h; rw [resolveAuthBlock.go.eq_1]
  | cons e more ih =>
    intro s result r h
    simp only [authBlockGoP] at h
    rw [resolveAuthBlock.go.eq_2]
    split at h
    · cases h
    · rename_i hv
      rw [← v1AllowedP_eq hv, if_pos rfl]
      split at h
      · cases h
      · exact ih _ _ _ h
    · rename_i hv
      rw [← v1AllowedP_eq hv]
      cases h; rfl

theorem resolveAuthBlockP_eq {sha : ID → Bytes} {valid : Bool} {s : V1State} {evs : List Event} {r : Option Event × V1State}
    (h : resolveAuthBlockP sha valid s evs = .ok r) : r = resolveAuthBlock sha valid s evs := by
  unfold resolveAuthBlockP at h
  unfold resolveAuthBlock
  split at h
  · cases h
  · rename_i first rest hsort
    rw [hsort]
    simp only at h ⊢
    split at h
    · cases h
    · split at h
      · cases h
      · rename_i result s' hgo
        have := authBlockGoP_eq valid _ _ _ _ hgo
        rw [← this]
        simp only
        cases h; rfl

theorem normalFindP_eq (s : V1State) (valid : Bool) : ∀ (l : List Event) (r : Option Event),
    normalFindP s valid l = .ok r → r = l.find? (fun e => v1Allowed s valid e) := by
  intro l
  induction l with
  | nil => intro r h; simp only [normalFindP] at h; cases h; rfl
  | cons e more ih =>
    intro r h
    simp only [normalFindP] at h
    split at h
    · cases h
    · rename_i hv
      cases h
      simp only [List.find?_cons, ← v1AllowedP_eq hv]
    · rename_i hv
      simp only [List.find?_cons, ← v1AllowedP_eq hv]
      exact ih r h

theorem resolveNormalBlockP_eq {sha : ID → Bytes} {valid : Bool} {s : V1State} {evs : List Event} {r : Option Event}
    (h : resolveNormalBlockP sha valid s evs = .ok r) : r = resolveNormalBlock sha valid s evs := by
  unfold resolveNormalBlockP at h
  unfold resolveNormalBlock
  split at h
  · rename_i hs; rw [hs]; cases h; rfl
  · rename_i first rest hs
    rw [hs]
    simp only
    split at h
    · cases h
    · rename_i e hf
      cases h
      rw [← normalFindP_eq s valid _ _ hf]
    · rename_i hf
      cases h
      rw [← normalFindP_eq s valid _ _ hf]

def authBlocksStep (sha : ID → Bytes) (valid : Bool) (acc : V1State × List Event) (block : List Event) : V1State × List Event :=
  if block.isEmpty then acc else
  match resolveAuthBlock sha valid acc.1 block with
  | (some e, st) => (st, acc.2 ++ [e])
  | (none, st) => (st, acc.2)

theorem authBlocksLoopP_eq (sha : ID → Bytes) (valid : Bool) : ∀ (blocks : List (List Event)) (acc r : V1State × List Event),
    authBlocksLoopP sha valid acc blocks = .ok r → r = blocks.foldl (authBlocksStep sha valid) acc := by
  intro blocks
  induction blocks with
  | nil => intro acc r h; simp only [authBlocksLoopP] at h; cases h; rfl
  | cons b more ih =>
    intro acc r h
    simp only [authBlocksLoopP] at h
    simp only [List.foldl_cons]
    split at h
    · rename_i hb
      have : authBlocksStep sha valid acc b = acc := by unfold authBlocksStep; rw [if_pos hb]
      rw [this]; exact ih _ _ h
    · rename_i hb
      split at h
      · cases h
      · rename_i e st hr
        have hr' := resolveAuthBlockP_eq hr
        have : authBlocksStep sha valid acc b = (st, acc.2 ++ [e]) := by
          unfold authBlocksStep; rw [if_neg hb, ← hr']
        rw [this]; exact ih _ _ h
      · rename_i st hr
        have hr' := resolveAuthBlockP_eq hr
        have : authBlocksStep sha valid acc b = (st, acc.2) := by
          unfold authBlocksStep; rw [if_neg hb, ← hr']
        rw [this]; exact ih _ _ h

theorem resolveAndAddAuthBlocks_step (sha : ID → Bytes) (valid : Bool) (s : V1State) (blocks : List (List Event)) :
    resolveAndAddAuthBlocks sha valid s blocks =
      ((blocks.foldl (authBlocksStep sha valid) (s, [])).2.foldl (fun st e => st.addAuthEvent e)
        (blocks.foldl (authBlocksStep sha valid) (s, [])).1, (blocks.foldl (authBlocksStep sha valid) (s, [])).2) := by
  unfold resolveAndAddAuthBlocks
  rfl

theorem resolveAndAddAuthBlocksP_eq {sha : ID → Bytes} {valid : Bool} {s : V1State} {blocks : List (List Event)}
    {r : V1State × List Event} (h : resolveAndAddAuthBlocksP sha valid s blocks = .ok r) :
    r = resolveAndAddAuthBlocks sha valid s blocks := by
  unfold resolveAndAddAuthBlocksP at h
  rw [resolveAndAddAuthBlocks_step]
  split at h
  · cases h
  · rename_i s' results hl
    have hl' := authBlocksLoopP_eq sha valid _ _ _ hl
    rw [← hl']
    cases h; rfl

theorem normalBlocksP_eq (sha : ID → Bytes) (valid : Bool) (s : V1State) : ∀ (bs : List (List Event)) (r : List Event),
    normalBlocksP sha valid s bs = .ok r → r = bs.filterMap (resolveNormalBlock sha valid s) := by
  intro bs
  induction bs with
  | nil => intro r h; simp only [normalBlocksP] at h; cases h; rfl
  | cons b more ih =>
    intro r h
    simp only [normalBlocksP] at h
    split at h
    · cases h
    · rename_i r1 hr1
      split at h
      · cases h
      · rename_i rs hrs
        cases h
        rw [List.filterMap_cons, ← resolveNormalBlockP_eq hr1, ih _ hrs]
        cases r1 <;> rfl

theorem resolveV1P_eq {sha : ID → Bytes} {conflicted auth r : List Event} (h : resolveV1P sha conflicted auth = .ok r) :
    r = resolveV1 sha conflicted auth := by
  unfold resolveV1P at h
  unfold resolveV1
  split at h
  · cases h
  · split at h
    · cases h
    · simp only at h ⊢
      split at h
      · cases h
      · rename_i s1 r1 h1
        rw [← resolveAndAddAuthBlocksP_eq h1]
        simp only at h ⊢
        split at h
        · cases h
        · rename_i s2 r2 h2
          rw [← resolveAndAddAuthBlocksP_eq h2]
          simp only at h ⊢
          split at h
          · cases h
          · rename_i s3 r3 h3
            rw [← resolveAndAddAuthBlocksP_eq h3]
            simp only at h ⊢
            split at h
            · cases h
            · rename_i s4 r4 h4
              rw [← resolveAndAddAuthBlocksP_eq h4]
              simp only at h ⊢
              split at h
              · cases h
              · rename_i s5 r5 h5
                rw [← resolveAndAddAuthBlocksP_eq h5]
                simp only at h ⊢
                split at h
                · cases h
                · rename_i r6 h6
                  cases h
                  rw [normalBlocksP_eq sha _ _ _ _ h6]

/-! ## Refinement (a): the entry points -/

theorem resolveConflictsNewP_eq {sha : ID → Bytes} {ver : Bytes} {sets : List (List Event)} {auth : List Event} {rej : List ID}
    {r : Option (List ID)} (h : resolveConflictsNewP sha ver sets auth rej = .ok r) :
    r = resolveConflictsNew sha ver sets auth rej := by
  unfold resolveConflictsNewP at h
  unfold resolveConflictsNew
  cases hrow : versionRow? ver with
  | none => rw [hrow] at h; cases h; rfl
  | some row =>
    rw [hrow] at h
    simp only at h ⊢
    by_cases h1 : (row.stateResAlgorithm == 1) = true
    · rw [if_pos h1] at h ⊢
      split at h
      · cases h
      · rename_i r1 hr
        cases h
        rw [resolveV1P_eq hr]
    · rw [if_neg h1] at h ⊢
      by_cases h2 : (row.stateResAlgorithm == 2 || row.stateResAlgorithm == 3) = true
      · rw [if_pos h2] at h ⊢
        split at h
        · cases h
        · rename_i st hs
          cases h
          rw [resolveV2NewP_eq hs]
      · rw [if_neg h2] at h ⊢
        cases h; rfl

theorem resolveConflictsOldP_eq {sha : ID → Bytes} {ver : Bytes} {events auth : List Event} {rej : List ID}
    {r : Option (List ID)} (h : resolveConflictsOldP sha ver events auth rej = .ok r) :
    r = resolveConflictsOld sha ver events auth rej := by
  unfold resolveConflictsOldP at h
  unfold resolveConflictsOld
  cases hrow : versionRow? ver with
  | none => rw [hrow] at h; cases h; rfl
  | some row =>
    rw [hrow] at h
    simp only at h ⊢
    by_cases h1 : (row.stateResAlgorithm == 1) = true
    · rw [if_pos h1] at h ⊢
      split at h
      · cases h
      · rename_i r1 hr
        cases h
        rw [resolveV1P_eq hr]
    · rw [if_neg h1] at h ⊢
      by_cases h2 : (row.stateResAlgorithm == 2 || row.stateResAlgorithm == 3) = true
      · rw [if_pos h2] at h ⊢
        split at h
        · cases h
        · rename_i st hs
          cases h
          rw [resolveV2OldP_eq hs]
      · rw [if_neg h2] at h ⊢
        cases h; rfl

end V.SRPanic
