/-
  VProofs.FedCheckLog — the provider-call log is write-only: every function of VModel.FedCheck that threads
  a log returns the log it was given followed by the calls it made; verdicts and maps do not depend on it.
-/
import VModel.FedCheck
namespace V.FedCheck
open V

def Step.pre {P} (l : Log) : Step P → Step P
  | .next m a lg => .next m a (l ++ lg)
  | .fail m lg => .fail m (l ++ lg)
  | .outOfFuel m lg => .outOfFuel m (l ++ lg)

theorem Step.pre_pre {P} (l1 l2 : Log) (s : Step P) : (s.pre l2).pre l1 = s.pre (l1 ++ l2) := by
  cases s <;> simp [Step.pre, List.append_assoc]

theorem Step.pre_nil {P} (s : Step P) : s.pre [] = s := by
  cases s <;> simp [Step.pre]

theorem retryAE_log {P} (O : Oracles P) (prov : Option EventProvider) (ae : Bytes) (fuel : Nat) (m : IdMap) (acc : P) (log : Log) :
    retryAE O prov ae fuel m acc log = (retryAE O prov ae fuel m acc []).pre log := by
  induction fuel generalizing m acc log with
  | zero => simp [retryAE, Step.pre]
  | succ k ih =>
    unfold retryAE
    cases hl : m.lookup ae with
    | some v =>
      cases v with
      | none => simp [Step.pre]
      | some a => by_cases hs : a.stateKey.isSome = true <;> simp [Step.pre, hs]
    | none =>
      cases prov with
      | none => simp [Step.pre]
      | some p =>
        simp only
        cases hp : p [ae] with
        | error =>
          simp only
          rw [ih _ _ (log ++ [Call.events [ae]]), ih _ _ ([] ++ [Call.events [ae]]), Step.pre_pre]
          simp
        | events es =>
          cases es with
          | nil =>
            simp only
            rw [ih _ _ (log ++ [Call.events [ae]]), ih _ _ ([] ++ [Call.events [ae]]), Step.pre_pre]
            simp
          | cons e es =>
            simp only
            rw [ih _ _ (log ++ [Call.events [ae]]), ih _ _ ([] ++ [Call.events [ae]]), Step.pre_pre]
            simp

theorem loopAE_log {P} (O : Oracles P) (prov : Option EventProvider) (fuel : Nat) (ids : List Bytes) (m : IdMap) (acc : P) (log : Log) :
    loopAE O prov fuel ids m acc log = (loopAE O prov fuel ids m acc []).pre log := by
  induction ids generalizing m acc log with
  | nil => simp [loopAE, Step.pre]
  | cons ae rest ih =>
    unfold loopAE
    rw [retryAE_log O prov ae fuel m acc log]
    cases hr : retryAE O prov ae fuel m acc [] with
    | next m' acc' log' =>
      simp only [Step.pre]
      rw [ih m' acc' (log ++ log'), ih m' acc' log']
      exact (Step.pre_pre log log' _).symm
    | fail m' log' => simp [Step.pre]
    | outOfFuel m' log' => simp [Step.pre]

theorem checkAllowed_log {P} (O : Oracles P) (prov : Option EventProvider) (fuel : Nat) (e : Event) (m : IdMap) (log : Log) :
    checkAllowed O prov fuel e m log =
      ((checkAllowed O prov fuel e m []).1, (checkAllowed O prov fuel e m []).2.1, log ++ (checkAllowed O prov fuel e m []).2.2) := by
  unfold checkAllowed
  rw [loopAE_log O prov fuel e.authEventIDs m O.empty log]
  cases loopAE O prov fuel e.authEventIDs m O.empty [] <;> simp [Step.pre]

def ChainStep.pre (l : Log) : ChainStep → ChainStep
  | .done r lg => .done r (l ++ lg)
  | .cont st lg => .cont st (l ++ lg)

theorem chainStep_log {P} (O : Oracles P) (prov : EventProvider) (caFuel : Nat) (st : ChainSt) (log : Log) :
    chainStep O prov caFuel st log = (chainStep O prov caFuel st []).pre log := by
  unfold chainStep
  cases hs : st.stack with
  | nil => simp [ChainStep.pre]
  | cons curr rest =>
    simp only
    by_cases hv : st.verified.contains curr.eventID = true
    · simp only [hv, if_true, ChainStep.pre, List.append_nil]
    · simp only [hv, Bool.false_eq_true, if_false]
      unfold fetchNeeded
      by_cases hn : (needOf st.m curr).isEmpty = true
      · simp only [hn, if_true]
        cases hc : (checkAllowed O (some prov) caFuel curr (putAll [] st.m) []) with
        | mk v rest2 =>
          obtain ⟨m2, lg2⟩ := rest2
          cases v <;> simp [ChainStep.pre]
      · simp only [hn, Bool.false_eq_true, if_false]
        cases hp : prov (needOf st.m curr) with
        | error => simp [ChainStep.pre]
        | events es =>
          simp only
          cases hc : (checkAllowed O (some prov) caFuel curr (putAll es st.m) []) with
          | mk v rest2 =>
            obtain ⟨m2, lg2⟩ := rest2
            cases v <;> simp [ChainStep.pre, List.append_assoc]

theorem chainLoop_log {P} (O : Oracles P) (prov : EventProvider) (caFuel fuel : Nat) (st : ChainSt) (log : Log) :
    chainLoop O prov caFuel fuel st log =
      ((chainLoop O prov caFuel fuel st []).1, log ++ (chainLoop O prov caFuel fuel st []).2) := by
  induction fuel generalizing st log with
  | zero => simp [chainLoop]
  | succ k ih =>
    unfold chainLoop
    rw [chainStep_log O prov caFuel st log]
    cases hc : chainStep O prov caFuel st [] with
    | done r lg => simp [ChainStep.pre]
    | cont st' lg =>
      simp only [ChainStep.pre]
      rw [ih st' (log ++ lg), ih st' lg]
      simp [List.append_assoc]

/-- the verdict of VerifyEventAuthChain does not depend on the log it is handed -/
theorem verifyEventAuthChain_log {P} (O : Oracles P) (prov : EventProvider) (caFuel fuel : Nat) (e : Event) (log : Log) :
    (verifyEventAuthChain O prov caFuel fuel e log).1 = (verifyEventAuthChain O prov caFuel fuel e []).1 := by
  unfold verifyEventAuthChain
  rw [chainLoop_log]

end V.FedCheck
