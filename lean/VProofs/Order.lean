/- Order facts about `bytesLt` and the insertion sort used by the JSON model. Core only. -/
import VModel.Json
namespace V.Json

theorem bytesLt_irrefl : ∀ a : Bytes, bytesLt a a = false
  | [] => rfl
  | x :: xs => by
    simp [bytesLt, bytesLt_irrefl xs]

theorem bytesLt_asymm : ∀ a b : Bytes, bytesLt a b = true → bytesLt b a = false
  | [], [] => by simp [bytesLt]
  | [], _ :: _ => by simp [bytesLt]
  | _ :: _, [] => by simp [bytesLt]
  | x :: xs, y :: ys => by
    unfold bytesLt
    by_cases h1 : x < y
    · have : ¬ y < x := by
        intro h2; exact absurd (UInt8.lt_trans h1 h2) (UInt8.lt_irrefl x)
      simp [h1, this]
    · by_cases h2 : y < x
      · simp [h1, h2]
      · simp [h1, h2]; exact bytesLt_asymm xs ys

theorem bytesLt_trans : ∀ a b c : Bytes, bytesLt a b = true → bytesLt b c = true → bytesLt a c = true
  | [], [], _ => by simp [bytesLt]
  | [], _ :: _, [] => by simp [bytesLt]
  | [], _ :: _, _ :: _ => by simp [bytesLt]
  | _ :: _, [], _ => by simp [bytesLt]
  | _ :: _, _ :: _, [] => by simp [bytesLt]
  | x :: xs, y :: ys, z :: zs => by
    unfold bytesLt
    by_cases hxy : x < y
    · by_cases hyz : y < z
      · have : x < z := UInt8.lt_trans hxy hyz
        simp [hxy, hyz, this]
      · by_cases hzy : z < y
        · simp [hxy, hyz, hzy]
        · have hyz' : y = z := by
            have := UInt8.le_antisymm (UInt8.not_lt.mp hzy) (UInt8.not_lt.mp hyz); exact this
          subst hyz'
          simp [hxy]
    · by_cases hyx : y < x
      · simp [hxy, hyx]
      · have hxy' : x = y := UInt8.le_antisymm (UInt8.not_lt.mp hyx) (UInt8.not_lt.mp hxy)
        subst hxy'
        by_cases hxz : x < z
        · simp [hxz]
        · by_cases hzx : z < x
          · simp [hxz, hzx]
          · simp [hxz, hzx]; exact bytesLt_trans xs ys zs

theorem bytesLt_total : ∀ a b : Bytes, bytesLt a b = false → bytesLt b a = false → a = b
  | [], [] => by simp
  | [], _ :: _ => by simp [bytesLt]
  | _ :: _, [] => by simp [bytesLt]
  | x :: xs, y :: ys => by
    unfold bytesLt
    by_cases hxy : x < y
    · simp [hxy]
    · by_cases hyx : y < x
      · simp [hxy, hyx]
      · have : x = y := UInt8.le_antisymm (UInt8.not_lt.mp hyx) (UInt8.not_lt.mp hxy)
        subst this
        simp [hxy]
        intro h1 h2; exact bytesLt_total xs ys h1 h2

end V.Json
