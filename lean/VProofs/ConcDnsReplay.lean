/-
  VProofs.ConcDnsReplay — every model state the DRIVER's DNS replay (`V.Driver.ConcOps.dnsReplay`, hence `dnsModel`)
  passes through is a `V.C19Client.ClientReach` state, so the invariant theorems `size_bounded_with_injections`,
  `no_dup_keys_with_injections` (VProofs/ConcDnsClient.lean) literally cover what the driver prints.

  `dnsReplay` only returns the printed lines.  Two twins with the SAME recursion (same case analysis, same `poke` calls,
  same `injectOps` calls, same conditions, same next time / next `ReplaySt`):
    * `dnsReplayBoth`   accumulates (printed line, model state the line's key set was rendered from);
                        `dnsReplayBoth_fst`:  its first projections ARE `dnsReplay`'s output;
                        `dnsReplayBoth_line`: every line is `<obs> ++ showKeys <its state>` (or the final `H<g>`);
                        `dnsReplayBoth_clientReach`: every paired state is `ClientReach`.
    * `dnsReplayStates` accumulates ALL states the replay moves through, including the three intermediate states of a
                        dial's delete-and-retry that are not printed; `dnsReplayStates_clientReach`;
                        `dnsReplayBoth_snd_mem`: the states of `dnsReplayBoth` are among them.
  Corollaries for `dnsModel`: `dnsModel_eq`, `dnsModel_states_bounded`, `dnsModel_allStates_bounded`.
-/
import VDriver.Conc
import VProofs.ConcDnsClient
namespace V.C19Replay
open V V.Conc V.Driver.ConcOps
open V.C19Client hiding injectOps

/-- the driver's `injectOps` is the `injectOps` of `ClientReach.inject` -/
theorem injectOps_eq : @V.Driver.ConcOps.injectOps = @V.C19Client.injectOps := rfl

/-- `dnsReplay`, accumulating next to each printed line the model state whose key set the line shows
    (for the final `H<g>` line, which shows no key set: the state `poke` returned) -/
def dnsReplayBoth (c : Dns.Cfg) (rg : Regime) (dials : List (List Bool)) :
    List Char → Dns.State → Int → ReplaySt → List (String × Dns.State) → List (String × Dns.State)
  | [], _, _, _, acc => acc.reverse
  | ch :: rest, s, t, rs, acc =>
    if ch == 'z' then
      dnsReplayBoth c rg dials rest s (t + rg.sleep) rs (("Z" ++ showKeys s, s) :: acc)
    else
      let g := ch.toNat - 'p'.toNat
      let t' := t + rg.tick
      let (s', o) := Dns.poke c 64 s g t'
      let i := (rs.idx[g]?).getD 0
      let isDial := (((dials[g]?).bind (·[i]?)).getD false)
      let adv (r : ReplaySt) : ReplaySt := ⟨r.idx.set g (i + 1), r.retry.set g false⟩
      match o with
      | .hang _ => ((showObs o, s') :: acc).reverse
      | .ret _ (.hit n _) =>
        if isDial && !((rs.retry[g]?).getD false) then
          let s1 := injectOps s' g [.del n, .lookup n 0]
          let (s2, _) := Dns.poke c 64 s1 g t'
          let (s3, o3) := Dns.poke c 64 s2 g t'
          dnsReplayBoth c rg dials rest s3 t' ⟨rs.idx, rs.retry.set g true⟩ ((showObs o3 ++ showKeys s3, s3) :: acc)
        else dnsReplayBoth c rg dials rest s' t' (adv rs) ((showObs o ++ showKeys s', s') :: acc)
      | .ret _ (.miss n _) =>
        if isDial then dnsReplayBoth c rg dials rest s' t' (adv rs) ((s!"X{g}:{n}" ++ showKeys s', s') :: acc)
        else dnsReplayBoth c rg dials rest s' t' (adv rs) ((showObs o ++ showKeys s', s') :: acc)
      | .ret _ (.fail n) =>
        if isDial then dnsReplayBoth c rg dials rest s' t' (adv rs) ((s!"X{g}:{n}" ++ showKeys s', s') :: acc)
        else dnsReplayBoth c rg dials rest s' t' (adv rs) ((showObs o ++ showKeys s', s') :: acc)
      | .ret _ _ => dnsReplayBoth c rg dials rest s' t' (adv rs) ((showObs o ++ showKeys s', s') :: acc)
      | _ => dnsReplayBoth c rg dials rest s' t' rs ((showObs o ++ showKeys s', s') :: acc)

/-- `dnsReplay`, accumulating EVERY model state it moves through (also the unprinted intermediate states of a dial's
    delete-and-retry: after the hit, after the injection, after the delete) -/
def dnsReplayStates (c : Dns.Cfg) (rg : Regime) (dials : List (List Bool)) :
    List Char → Dns.State → Int → ReplaySt → List Dns.State → List Dns.State
  | [], _, _, _, acc => acc.reverse
  | ch :: rest, s, t, rs, acc =>
    if ch == 'z' then
      dnsReplayStates c rg dials rest s (t + rg.sleep) rs (s :: acc)
    else
      let g := ch.toNat - 'p'.toNat
      let t' := t + rg.tick
      let (s', o) := Dns.poke c 64 s g t'
      let i := (rs.idx[g]?).getD 0
      let isDial := (((dials[g]?).bind (·[i]?)).getD false)
      let adv (r : ReplaySt) : ReplaySt := ⟨r.idx.set g (i + 1), r.retry.set g false⟩
      match o with
      | .hang _ => (s' :: acc).reverse
      | .ret _ (.hit n _) =>
        if isDial && !((rs.retry[g]?).getD false) then
          let s1 := injectOps s' g [.del n, .lookup n 0]
          let (s2, _) := Dns.poke c 64 s1 g t'
          let (s3, _) := Dns.poke c 64 s2 g t'
          dnsReplayStates c rg dials rest s3 t' ⟨rs.idx, rs.retry.set g true⟩ (s3 :: s2 :: s1 :: s' :: acc)
        else dnsReplayStates c rg dials rest s' t' (adv rs) (s' :: acc)
      | .ret _ (.miss _ _) =>
        if isDial then dnsReplayStates c rg dials rest s' t' (adv rs) (s' :: acc)
        else dnsReplayStates c rg dials rest s' t' (adv rs) (s' :: acc)
      | .ret _ (.fail _) =>
        if isDial then dnsReplayStates c rg dials rest s' t' (adv rs) (s' :: acc)
        else dnsReplayStates c rg dials rest s' t' (adv rs) (s' :: acc)
      | .ret _ _ => dnsReplayStates c rg dials rest s' t' (adv rs) (s' :: acc)
      | _ => dnsReplayStates c rg dials rest s' t' rs (s' :: acc)

/-! ### the twin prints what the driver prints -/

/-- **faithfulness**: the lines of `dnsReplayBoth` are exactly the output of the driver's `dnsReplay` -/
theorem dnsReplayBoth_fst (c : Dns.Cfg) (rg : Regime) (dials : List (List Bool)) :
    ∀ (sched : List Char) (s : Dns.State) (t : Int) (rs : ReplaySt) (acc : List (String × Dns.State)),
      (dnsReplayBoth c rg dials sched s t rs acc).map (·.1) = dnsReplay c rg dials sched s t rs (acc.map (·.1)) := by
  intro sched
  induction sched with
  | nil => intro s t rs acc; simp only [dnsReplayBoth, dnsReplay, List.map_reverse]
  | cons ch rest ih =>
    intro s t rs acc
    simp only [dnsReplayBoth, dnsReplay]
    split
    · rw [ih]; rfl
    · generalize Dns.poke c 64 s (ch.toNat - 'p'.toNat) (t + rg.tick) = p
      obtain ⟨s', o⟩ := p
      cases o with
      | ret g r =>
        cases r with
        | hit n e =>
          dsimp only
          split
          · rw [ih]; rfl
          · rw [ih]; rfl
        | miss n e =>
          dsimp only
          split
          · rw [ih]; rfl
          · rw [ih]; rfl
        | fail n =>
          dsimp only
          split
          · rw [ih]; rfl
          · rw [ih]; rfl
        | deleted n => dsimp only; rw [ih]; rfl
      | blocked g n => dsimp only; rw [ih]; rfl
      | noop => dsimp only; rw [ih]; rfl
      | hang g => dsimp only; simp only [List.map_reverse, List.map_cons]
      | stuck => dsimp only; rw [ih]; rfl

/-- what a printed line is, relative to the state paired with it -/
def LineOf (p : String × Dns.State) : Prop :=
  (∃ obs : String, p.1 = obs ++ showKeys p.2) ∨ (∃ g, p.1 = showObs (.hang g))

/-- every line of the replay is `<observation> ++ showKeys <paired state>`, or the final hang marker `H<g>` -/
theorem dnsReplayBoth_line (c : Dns.Cfg) (rg : Regime) (dials : List (List Bool)) :
    ∀ (sched : List Char) (s : Dns.State) (t : Int) (rs : ReplaySt) (acc : List (String × Dns.State)),
      (∀ p ∈ acc, LineOf p) → ∀ p ∈ dnsReplayBoth c rg dials sched s t rs acc, LineOf p := by
  intro sched
  induction sched with
  | nil => intro s t rs acc hacc p hp; simp only [dnsReplayBoth, List.mem_reverse] at hp; exact hacc p hp
  | cons ch rest ih =>
    intro s t rs acc hacc
    have hcons : ∀ (obs : String) (s0 : Dns.State), ∀ p ∈ (obs ++ showKeys s0, s0) :: acc, LineOf p := by
      intro obs s0 p hp
      rcases List.mem_cons.mp hp with e | hp
      · subst e; exact .inl ⟨obs, rfl⟩
      · exact hacc p hp
    simp only [dnsReplayBoth]
    split
    · exact ih _ _ _ _ (hcons _ _)
    · generalize Dns.poke c 64 s (ch.toNat - 'p'.toNat) (t + rg.tick) = p
      obtain ⟨s', o⟩ := p
      cases o with
      | ret g r =>
        cases r with
        | hit n e =>
          dsimp only
          split
          · exact ih _ _ _ _ (hcons _ _)
          · exact ih _ _ _ _ (hcons _ _)
        | miss n e =>
          dsimp only
          split
          · exact ih _ _ _ _ (hcons _ _)
          · exact ih _ _ _ _ (hcons _ _)
        | fail n =>
          dsimp only
          split
          · exact ih _ _ _ _ (hcons _ _)
          · exact ih _ _ _ _ (hcons _ _)
        | deleted n => dsimp only; exact ih _ _ _ _ (hcons _ _)
      | blocked g n => dsimp only; exact ih _ _ _ _ (hcons _ _)
      | noop => dsimp only; exact ih _ _ _ _ (hcons _ _)
      | hang g =>
        dsimp only
        intro p hp
        simp only [List.mem_reverse] at hp
        rcases List.mem_cons.mp hp with e | hp
        · subst e; exact .inr ⟨g, rfl⟩
        · exact hacc p hp
      | stuck => dsimp only; exact ih _ _ _ _ (hcons _ _)

/-! ### every visited state is a `ClientReach` state -/

section reach
variable {c : Dns.Cfg} {todos : List (List Dns.Op)} {t0 : Int}

/-- the delete-and-retry of a dial stays inside `ClientReach`: injection, then two pokes -/
theorem retry_clientReach {s' : Dns.State} (g : Nat) (n : Dns.Name) (t' : Int) (h : ClientReach c todos t0 s') :
    ClientReach c todos t0 (injectOps s' g [.del n, .lookup n 0]) ∧
    ClientReach c todos t0 (Dns.poke c 64 (injectOps s' g [.del n, .lookup n 0]) g t').1 ∧
    ClientReach c todos t0
      (Dns.poke c 64 (Dns.poke c 64 (injectOps s' g [.del n, .lookup n 0]) g t').1 g t').1 := by
  have h1 : ClientReach c todos t0 (injectOps s' g [.del n, .lookup n 0]) := ClientReach.inject g _ h
  have h2 := clientReach_poke 64 g t' h1
  exact ⟨h1, h2, clientReach_poke 64 g t' h2⟩

/-- **2.** every state paired with a line printed by the driver's replay is a `ClientReach` state -/
theorem dnsReplayBoth_clientReach (rg : Regime) (dials : List (List Bool)) :
    ∀ (sched : List Char) (s : Dns.State) (t : Int) (rs : ReplaySt) (acc : List (String × Dns.State)),
      ClientReach c todos t0 s → (∀ p ∈ acc, ClientReach c todos t0 p.2) →
      ∀ p ∈ dnsReplayBoth c rg dials sched s t rs acc, ClientReach c todos t0 p.2 := by
  intro sched
  induction sched with
  | nil => intro s t rs acc _ hacc p hp; simp only [dnsReplayBoth, List.mem_reverse] at hp; exact hacc p hp
  | cons ch rest ih =>
    intro s t rs acc hs hacc
    have hcons : ∀ (l : String) (s0 : Dns.State), ClientReach c todos t0 s0 →
        ∀ p ∈ (l, s0) :: acc, ClientReach c todos t0 p.2 := by
      intro l s0 h0 p hp
      rcases List.mem_cons.mp hp with e | hp
      · subst e; exact h0
      · exact hacc p hp
    simp only [dnsReplayBoth]
    split
    · exact ih _ _ _ _ hs (hcons _ _ hs)
    · have hs' := clientReach_poke 64 (ch.toNat - 'p'.toNat) (t + rg.tick) hs
      generalize Dns.poke c 64 s (ch.toNat - 'p'.toNat) (t + rg.tick) = p at hs'
      obtain ⟨s', o⟩ := p
      simp only at hs'
      cases o with
      | ret g r =>
        cases r with
        | hit n e =>
          dsimp only
          split
          · obtain ⟨_, _, h3⟩ := retry_clientReach (ch.toNat - 'p'.toNat) n (t + rg.tick) hs'
            exact ih _ _ _ _ h3 (hcons _ _ h3)
          · exact ih _ _ _ _ hs' (hcons _ _ hs')
        | miss n e =>
          dsimp only
          split
          · exact ih _ _ _ _ hs' (hcons _ _ hs')
          · exact ih _ _ _ _ hs' (hcons _ _ hs')
        | fail n =>
          dsimp only
          split
          · exact ih _ _ _ _ hs' (hcons _ _ hs')
          · exact ih _ _ _ _ hs' (hcons _ _ hs')
        | deleted n => dsimp only; exact ih _ _ _ _ hs' (hcons _ _ hs')
      | blocked g n => dsimp only; exact ih _ _ _ _ hs' (hcons _ _ hs')
      | noop => dsimp only; exact ih _ _ _ _ hs' (hcons _ _ hs')
      | hang g =>
        dsimp only
        intro p hp
        simp only [List.mem_reverse] at hp
        exact hcons _ _ hs' p hp
      | stuck => dsimp only; exact ih _ _ _ _ hs' (hcons _ _ hs')

/-- **1.** every state the driver's replay moves through (printed or not) is a `ClientReach` state -/
theorem dnsReplayStates_clientReach' (rg : Regime) (dials : List (List Bool)) :
    ∀ (sched : List Char) (s : Dns.State) (t : Int) (rs : ReplaySt) (acc : List Dns.State),
      ClientReach c todos t0 s → (∀ x ∈ acc, ClientReach c todos t0 x) →
      ∀ x ∈ dnsReplayStates c rg dials sched s t rs acc, ClientReach c todos t0 x := by
  intro sched
  induction sched with
  | nil => intro s t rs acc _ hacc x hx; simp only [dnsReplayStates, List.mem_reverse] at hx; exact hacc x hx
  | cons ch rest ih =>
    intro s t rs acc hs hacc
    have hcons : ∀ (s0 : Dns.State) (acc0 : List Dns.State), ClientReach c todos t0 s0 →
        (∀ x ∈ acc0, ClientReach c todos t0 x) → ∀ x ∈ s0 :: acc0, ClientReach c todos t0 x := by
      intro s0 acc0 h0 hacc0 x hx
      rcases List.mem_cons.mp hx with e | hx
      · subst e; exact h0
      · exact hacc0 x hx
    simp only [dnsReplayStates]
    split
    · exact ih _ _ _ _ hs (hcons _ _ hs hacc)
    · have hs' := clientReach_poke 64 (ch.toNat - 'p'.toNat) (t + rg.tick) hs
      generalize Dns.poke c 64 s (ch.toNat - 'p'.toNat) (t + rg.tick) = p at hs'
      obtain ⟨s', o⟩ := p
      simp only at hs'
      cases o with
      | ret g r =>
        cases r with
        | hit n e =>
          dsimp only
          split
          · obtain ⟨h1, h2, h3⟩ := retry_clientReach (ch.toNat - 'p'.toNat) n (t + rg.tick) hs'
            exact ih _ _ _ _ h3 (hcons _ _ h3 (hcons _ _ h2 (hcons _ _ h1 (hcons _ _ hs' hacc))))
          · exact ih _ _ _ _ hs' (hcons _ _ hs' hacc)
        | miss n e =>
          dsimp only
          split
          · exact ih _ _ _ _ hs' (hcons _ _ hs' hacc)
          · exact ih _ _ _ _ hs' (hcons _ _ hs' hacc)
        | fail n =>
          dsimp only
          split
          · exact ih _ _ _ _ hs' (hcons _ _ hs' hacc)
          · exact ih _ _ _ _ hs' (hcons _ _ hs' hacc)
        | deleted n => dsimp only; exact ih _ _ _ _ hs' (hcons _ _ hs' hacc)
      | blocked g n => dsimp only; exact ih _ _ _ _ hs' (hcons _ _ hs' hacc)
      | noop => dsimp only; exact ih _ _ _ _ hs' (hcons _ _ hs' hacc)
      | hang g =>
        dsimp only
        intro x hx
        simp only [List.mem_reverse] at hx
        exact hcons _ _ hs' hacc x hx
      | stuck => dsimp only; exact ih _ _ _ _ hs' (hcons _ _ hs' hacc)

/-- **1.** (the form asked for: replay started with an empty accumulator) -/
theorem dnsReplayStates_clientReach (rg : Regime) (dials : List (List Bool)) (sched : List Char) (s : Dns.State)
    (t : Int) (rs : ReplaySt) (h : ClientReach c todos t0 s) :
    ∀ x ∈ dnsReplayStates c rg dials sched s t rs [], ClientReach c todos t0 x :=
  dnsReplayStates_clientReach' rg dials sched s t rs [] h (fun _ hx => nomatch hx)

end reach

/-- the states paired with the printed lines are among the states of `dnsReplayStates` -/
theorem dnsReplayBoth_snd_mem (c : Dns.Cfg) (rg : Regime) (dials : List (List Bool)) :
    ∀ (sched : List Char) (s : Dns.State) (t : Int) (rs : ReplaySt) (acc : List (String × Dns.State))
      (accS : List Dns.State), (∀ p ∈ acc, p.2 ∈ accS) →
      ∀ p ∈ dnsReplayBoth c rg dials sched s t rs acc, p.2 ∈ dnsReplayStates c rg dials sched s t rs accS := by
  intro sched
  induction sched with
  | nil =>
    intro s t rs acc accS hacc p hp
    simp only [dnsReplayBoth, List.mem_reverse] at hp
    simp only [dnsReplayStates, List.mem_reverse]
    exact hacc p hp
  | cons ch rest ih =>
    intro s t rs acc accS hacc
    have hcons : ∀ (l : String) (s0 : Dns.State) (accS0 : List Dns.State), (∀ p ∈ acc, p.2 ∈ accS0) →
        ∀ p ∈ (l, s0) :: acc, p.2 ∈ s0 :: accS0 := by
      intro l s0 accS0 h0 p hp
      rcases List.mem_cons.mp hp with e | hp
      · subst e; exact List.mem_cons_self
      · exact List.mem_cons_of_mem _ (h0 p hp)
    have hweak : ∀ (x : Dns.State) (accS0 : List Dns.State), (∀ p ∈ acc, p.2 ∈ accS0) → ∀ p ∈ acc, p.2 ∈ x :: accS0 :=
      fun x accS0 h0 p hp => List.mem_cons_of_mem _ (h0 p hp)
    simp only [dnsReplayBoth, dnsReplayStates]
    split
    · exact ih _ _ _ _ _ (hcons _ _ _ hacc)
    · generalize Dns.poke c 64 s (ch.toNat - 'p'.toNat) (t + rg.tick) = p
      obtain ⟨s', o⟩ := p
      cases o with
      | ret g r =>
        cases r with
        | hit n e =>
          dsimp only
          split
          · exact ih _ _ _ _ _ (hcons _ _ _ (hweak _ _ (hweak _ _ (hweak _ _ hacc))))
          · exact ih _ _ _ _ _ (hcons _ _ _ hacc)
        | miss n e =>
          dsimp only
          split
          · exact ih _ _ _ _ _ (hcons _ _ _ hacc)
          · exact ih _ _ _ _ _ (hcons _ _ _ hacc)
        | fail n =>
          dsimp only
          split
          · exact ih _ _ _ _ _ (hcons _ _ _ hacc)
          · exact ih _ _ _ _ _ (hcons _ _ _ hacc)
        | deleted n => dsimp only; exact ih _ _ _ _ _ (hcons _ _ _ hacc)
      | blocked g n => dsimp only; exact ih _ _ _ _ _ (hcons _ _ _ hacc)
      | noop => dsimp only; exact ih _ _ _ _ _ (hcons _ _ _ hacc)
      | hang g =>
        dsimp only
        intro p hp
        simp only [List.mem_reverse] at hp ⊢
        exact hcons _ _ _ hacc p hp
      | stuck => dsimp only; exact ih _ _ _ _ _ (hcons _ _ _ hacc)

/-! ### `dnsModel` -/

/-- the replay `dnsModel` runs, with the states -/
def dnsModelBoth (cap : Int) (rg : Regime) (todosD : List (List (Dns.Op × Bool))) (sched : String) :
    List (String × Dns.State) :=
  let c : Dns.Cfg := ⟨cap, rg.dur, dnsResolver⟩
  let todos := todosD.map (·.map (·.1))
  let dials := todosD.map (·.map (·.2))
  dnsReplayBoth c rg dials sched.toList (Dns.init todos 0) 0 ⟨todos.map (fun _ => 0), todos.map (fun _ => false)⟩ []

/-- all states `dnsModel`'s replay moves through -/
def dnsModelStates (cap : Int) (rg : Regime) (todosD : List (List (Dns.Op × Bool))) (sched : String) : List Dns.State :=
  let c : Dns.Cfg := ⟨cap, rg.dur, dnsResolver⟩
  let todos := todosD.map (·.map (·.1))
  let dials := todosD.map (·.map (·.2))
  dnsReplayStates c rg dials sched.toList (Dns.init todos 0) 0 ⟨todos.map (fun _ => 0), todos.map (fun _ => false)⟩ []

/-- what the driver prints for a `conc.dns` op line is the `|`-joined list of the lines of `dnsModelBoth` -/
theorem dnsModel_eq (cap : Int) (rg : Regime) (todosD : List (List (Dns.Op × Bool))) (sched : String) :
    dnsModel cap rg todosD sched = String.intercalate "|" ((dnsModelBoth cap rg todosD sched).map (·.1)) := by
  unfold dnsModel dnsModelBoth
  simp only [dnsReplayBoth_fst, List.map_nil]

/-- every line `dnsModel` prints shows the key set of the state paired with it (or is the final `H<g>`) -/
theorem dnsModel_lines (cap : Int) (rg : Regime) (todosD : List (List (Dns.Op × Bool))) (sched : String) :
    ∀ p ∈ dnsModelBoth cap rg todosD sched, LineOf p :=
  dnsReplayBoth_line _ rg _ _ _ _ _ [] (fun _ hp => nomatch hp)

/-- the states behind `dnsModel`'s lines are runs-with-injections of the op lists of the op line -/
theorem dnsModel_states_clientReach (cap : Int) (rg : Regime) (todosD : List (List (Dns.Op × Bool))) (sched : String) :
    ∀ p ∈ dnsModelBoth cap rg todosD sched,
      ClientReach ⟨cap, rg.dur, dnsResolver⟩ (todosD.map (·.map (·.1))) 0 p.2 :=
  dnsReplayBoth_clientReach rg _ _ _ _ _ [] .init (fun _ hp => nomatch hp)

/-- **3.** the invariants hold in every state whose key set `dnsModel` prints: at most `max cap 0` entries, no
    duplicate keys -/
theorem dnsModel_states_bounded (cap : Int) (rg : Regime) (todosD : List (List (Dns.Op × Bool))) (sched : String) :
    ∀ p ∈ dnsModelBoth cap rg todosD sched,
      (p.2.entries.length : Int) ≤ max cap 0 ∧ (p.2.entries.map (·.1)).Nodup := by
  intro p hp
  have h := dnsModel_states_clientReach cap rg todosD sched p hp
  exact ⟨size_bounded_with_injections h, no_dup_keys_with_injections h⟩

/-- **3'.** … and in every state the replay moves through, printed or not -/
theorem dnsModel_allStates_bounded (cap : Int) (rg : Regime) (todosD : List (List (Dns.Op × Bool))) (sched : String) :
    ∀ x ∈ dnsModelStates cap rg todosD sched,
      (x.entries.length : Int) ≤ max cap 0 ∧ (x.entries.map (·.1)).Nodup := by
  intro x hx
  have h : ClientReach ⟨cap, rg.dur, dnsResolver⟩ (todosD.map (·.map (·.1))) 0 x :=
    dnsReplayStates_clientReach rg _ _ _ _ _ .init x hx
  exact ⟨size_bounded_with_injections h, no_dup_keys_with_injections h⟩

/-- the printed states are among all visited states -/
theorem dnsModelBoth_snd_mem (cap : Int) (rg : Regime) (todosD : List (List (Dns.Op × Bool))) (sched : String) :
    ∀ p ∈ dnsModelBoth cap rg todosD sched, p.2 ∈ dnsModelStates cap rg todosD sched :=
  dnsReplayBoth_snd_mem _ rg _ _ _ _ _ [] [] (fun _ hp => nomatch hp)

/-- non-trivial instance: cap 1, regime `h`, goroutine 0 dials `a` twice (`~a,~a`), schedule `pppp`: blocked in the resolver,
    stored (miss), then the second dial hits, deletes and retries (blocked again), stored again.  The key sets of the four
    paired states; seven states are visited in all (three unprinted ones inside the delete-and-retry). -/
example : (dnsModelBoth 1 ⟨1000000000, 1, 0⟩ [[(.lookup "a" 0, true), (.lookup "a" 0, true)]] "pppp").map
      (fun p => p.2.entries.map (·.1)) = [[], ["a"], [], ["a"]] ∧
    (dnsModelStates 1 ⟨1000000000, 1, 0⟩ [[(.lookup "a" 0, true), (.lookup "a" 0, true)]] "pppp").map
      (fun x => x.entries.map (·.1)) = [[], ["a"], ["a"], ["a"], [], [], ["a"]] := by decide

#print axioms V.C19Replay.dnsReplayBoth_fst
#print axioms V.C19Replay.dnsReplayBoth_line
#print axioms V.C19Replay.dnsReplayBoth_clientReach
#print axioms V.C19Replay.dnsReplayStates_clientReach
#print axioms V.C19Replay.dnsReplayBoth_snd_mem
#print axioms V.C19Replay.dnsModel_eq
#print axioms V.C19Replay.dnsModel_lines
#print axioms V.C19Replay.dnsModel_states_clientReach
#print axioms V.C19Replay.dnsModel_states_bounded
#print axioms V.C19Replay.dnsModel_allStates_bounded
#print axioms V.C19Replay.dnsModelBoth_snd_mem
end V.C19Replay
