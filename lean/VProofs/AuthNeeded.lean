/-
  VProofs.AuthNeeded — C09: the verdict of `Allowed` depends on the auth events only through the (type, state_key)
  pairs that StateNeededForAuth names (plus the Valid() bit).
-/
import VModel.AuthNeeded
import VProofs.AuthRulesMember
import VProofs.AuthRulesNoPanic
namespace V.AuthNeeded
open V V.Json V.GoJson V.Auth V.StateRes V.AuthRules

/-- verdict of a check -/
def verdictOf (r : R Unit) : Verdict :=
  match r with
  | .ok () => .ok
  | .error v => v

theorem allowedFresh_freshOf (e : Event) (p : Provider) (sig : Bool) :
    allowedFresh e p sig = if !p.valid then .notAllowed else
      (match freshOf p with
       | .error v => v
       | .ok c => verdictOf (c.allowed e sig)) := by
  unfold allowedFresh
  rw [update_empty]
  split
  · rfl
  · cases freshOf p with
    | error v => rfl
    | ok c =>
      simp only [verdictOf]
      cases c.allowed e sig with
      | ok u => cases u; rfl
      | error v => rfl

/-! ### what a fresh context holds, as a function of three lookups -/

structure FreshOf (p : Provider) (c : Ctx) : Prop where
  provider : c.provider = p
  create : createInfo p.create = .ok (c.createEvent, c.create, c.creators, c.privilegedCreators)
  pl : plInfo p.powerLevels (senderOfOpt c.createEvent) = .ok (c.plEvent, c.pl)
  plErr : c.plErr = plErrOf p.powerLevels
  jr : c.joinRule = (jrInfo p.joinRules).2

theorem freshOf_fields {p : Provider} {c : Ctx} (h : freshOf p = .ok c) : FreshOf p c := by
  unfold freshOf at h
  cases hci : createInfo p.create with
  | error v => simp [hci] at h
  | ok r =>
    obtain ⟨ce, cc, cr, pr⟩ := r
    simp only [hci] at h
    cases hpi : plInfo p.powerLevels (senderOfOpt ce) with
    | error v => simp [hpi] at h
    | ok r2 =>
      obtain ⟨pe, pl⟩ := r2
      simp only [hpi] at h
      cases h
      exact ⟨rfl, hci, hpi, rfl, rfl⟩

/-- the parts of two contexts that the create and power-levels events determine coincide -/
structure CoreEq (c1 c2 : Ctx) : Prop where
  createEvent : c1.createEvent = c2.createEvent
  create : c1.create = c2.create
  creators : c1.creators = c2.creators
  priv : c1.privilegedCreators = c2.privilegedCreators
  plEvent : c1.plEvent = c2.plEvent
  pl : c1.pl = c2.pl
  plErr : c1.plErr = c2.plErr

theorem createEq_of {p q : Provider} {c1 c2 : Ctx} (h1 : FreshOf p c1) (h2 : FreshOf q c2) (hc : p.create = q.create) :
    c1.createEvent = c2.createEvent ∧ c1.create = c2.create ∧ c1.creators = c2.creators
      ∧ c1.privilegedCreators = c2.privilegedCreators := by
  have := h1.create
  rw [hc, h2.create] at this
  simp only [Except.ok.injEq, Prod.mk.injEq] at this
  exact ⟨this.1.symm, this.2.1.symm, this.2.2.1.symm, this.2.2.2.symm⟩

theorem coreEq_of {p q : Provider} {c1 c2 : Ctx} (h1 : FreshOf p c1) (h2 : FreshOf q c2) (hc : p.create = q.create)
    (hp : p.powerLevels = q.powerLevels) : CoreEq c1 c2 := by
  obtain ⟨a, b, c, d⟩ := createEq_of h1 h2 hc
  have := h1.pl
  rw [hp, a, h2.pl] at this
  simp only [Except.ok.injEq, Prod.mk.injEq] at this
  exact ⟨a, b, c, d, this.1.symm, this.2.symm, by rw [h1.plErr, h2.plErr, hp]⟩

/-! ### each check reads the context only through those parts and the named lookups -/

theorem userPowerLevel_congr {c1 c2 : Ctx} (h : CoreEq c1 c2) (u : Bytes) : c1.userPowerLevel u = c2.userPowerLevel u := by
  unfold Ctx.userPowerLevel
  rw [h.priv, h.creators, h.plEvent, h.createEvent, h.pl]

theorem commonChecks_congr {c1 c2 : Ctx} (h : CoreEq c1 c2) (m : MemberContent) (e : Event) :
    c1.commonChecks m e = c2.commonChecks m e := by
  unfold Ctx.commonChecks
  simp only [h.create, userPowerLevel_congr h, h.pl]

theorem memberFromProvider_congr {p q : Provider} {u : Bytes} (h : p.get b!"m.room.member" u = q.get b!"m.room.member" u) :
    memberFromProvider p u = memberFromProvider q u := by
  unfold memberFromProvider Provider.member
  rw [h]

theorem alias_congr {c1 c2 : Ctx} (h : c1.create = c2.create) (e : Event) :
    c1.aliasEventAllowed e = c2.aliasEventAllowed e := by
  unfold Ctx.aliasEventAllowed
  simp only [h]

theorem default_congr {c1 c2 : Ctx} (h : CoreEq c1 c2) (e : Event)
    (hm : c1.provider.get b!"m.room.member" e.sender = c2.provider.get b!"m.room.member" e.sender) :
    c1.defaultEventAllowed e = c2.defaultEventAllowed e := by
  unfold Ctx.defaultEventAllowed
  simp only [memberFromProvider_congr hm, commonChecks_congr h]

theorem checkPowerLevelEvent_congr {c1 c2 : Ctx} (h : CoreEq c1 c2) (e : Event) (o n : PowerLevels) :
    c1.checkPowerLevelEvent e o n = c2.checkPowerLevelEvent e o n := by
  unfold Ctx.checkPowerLevelEvent
  simp only [h.createEvent]

theorem powerLevels_congr {c1 c2 : Ctx} (h : CoreEq c1 c2) (e : Event)
    (hm : c1.provider.get b!"m.room.member" e.sender = c2.provider.get b!"m.room.member" e.sender) :
    c1.powerLevelsEventAllowed e = c2.powerLevelsEventAllowed e := by
  unfold Ctx.powerLevelsEventAllowed
  simp only [memberFromProvider_congr hm, commonChecks_congr h, userPowerLevel_congr h, h.pl, checkPowerLevelEvent_congr h]

theorem redact_congr {c1 c2 : Ctx} (h : CoreEq c1 c2) (e : Event)
    (hm : c1.provider.get b!"m.room.member" e.sender = c2.provider.get b!"m.room.member" e.sender) :
    c1.redactEventAllowed e = c2.redactEventAllowed e := by
  unfold Ctx.redactEventAllowed
  simp only [memberFromProvider_congr hm, commonChecks_congr h, userPowerLevel_congr h, h.pl, h.create]

/-! ### membership events -/

theorem allowedOther_congr {c1 c2 : Ctx} (h : CoreEq c1 c2) (row : VGen.VersionRow) (ver : Bytes) (tk : Nat)
    (target sender : Bytes) (sm om nm : MemberContent) (j1 j2 : Bytes) :
    (MembershipAllower.mk c1 row ver tk target sender sm om nm j1).allowedOther
      = (MembershipAllower.mk c2 row ver tk target sender sm om nm j2).allowedOther := by
  unfold MembershipAllower.allowedOther
  simp only [userPowerLevel_congr h, h.pl]

theorem restrictedJoin_congr {c1 c2 : Ctx} (h : CoreEq c1 c2) (row : VGen.VersionRow) (ver : Bytes) (tk : Nat)
    (target sender : Bytes) (sm om nm : MemberContent) (j1 j2 : Bytes)
    (hvia : nm.authorisedVia ≠ [] →
      c1.provider.get b!"m.room.member" nm.authorisedVia = c2.provider.get b!"m.room.member" nm.authorisedVia) :
    (MembershipAllower.mk c1 row ver tk target sender sm om nm j1).restrictedJoin
      = (MembershipAllower.mk c2 row ver tk target sender sm om nm j2).restrictedJoin := by
  unfold MembershipAllower.restrictedJoin
  by_cases hv : nm.authorisedVia = []
  · simp only [hv, beq_self_eq_true, Bool.or_true, if_true]
  · have := hvia hv
    simp only [Provider.member, this, userPowerLevel_congr h, h.pl]

theorem allowedSelf_congr {c1 c2 : Ctx} (h : CoreEq c1 c2) (row : VGen.VersionRow) (ver : Bytes) (tk : Nat)
    (target sender : Bytes) (sm om nm : MemberContent) (j1 j2 : Bytes)
    (hj : nm.membership = b!"join" ∨ nm.membership = b!"knock" → j1 = j2)
    (hvia : nm.authorisedVia ≠ [] →
      c1.provider.get b!"m.room.member" nm.authorisedVia = c2.provider.get b!"m.room.member" nm.authorisedVia) :
    (MembershipAllower.mk c1 row ver tk target sender sm om nm j1).allowedSelf
      = (MembershipAllower.mk c2 row ver tk target sender sm om nm j2).allowedSelf := by
  rw [allowedSelf_model, allowedSelf_model]
  simp only
  by_cases hk : nm.membership = b!"knock"
  · have := hj (Or.inr hk); subst this
    have l : (b!"knock" == b!"join") = false := by decide
    simp only [hk, l, beq_self_eq_true, if_true, Bool.false_eq_true, if_false]
  · by_cases hjn : nm.membership = b!"join"
    · have := hj (Or.inl hjn); subst this
      rw [restrictedJoin_congr h row ver tk target sender sm om nm j1 j1 hvia]
    · have h1 : (nm.membership == b!"knock") = false := by simpa using hk
      have h2 : (nm.membership == b!"join") = false := by simpa using hjn
      simp only [h1, h2, Bool.false_eq_true, if_false]

theorem member_congr {c1 c2 : Ctx} (h : CoreEq c1 c2) (e : Event) (sig : Bool)
    (hs : c1.provider.get b!"m.room.member" e.sender = c2.provider.get b!"m.room.member" e.sender)
    (ht : ∀ k, e.stateKey = some k → c1.provider.get b!"m.room.member" k = c2.provider.get b!"m.room.member" k)
    (hjr : ∀ nm, decodeMemberContent e.content = .ok nm → nm.membership = b!"join" ∨ nm.membership = b!"knock" →
      c1.joinRule = c2.joinRule)
    (hvia : ∀ nm, decodeMemberContent e.content = .ok nm → nm.authorisedVia ≠ [] →
      c1.provider.get b!"m.room.member" nm.authorisedVia = c2.provider.get b!"m.room.member" nm.authorisedVia)
    (htp : ∀ nm s, decodeMemberContent e.content = .ok nm → nm.thirdPartyInvite = some s → nm.membership = b!"invite" →
      s.token.isEmpty = false →
      c1.provider.get b!"m.room.third_party_invite" s.token = c2.provider.get b!"m.room.third_party_invite" s.token) :
    c1.memberEventAllowed e sig = c2.memberEventAllowed e sig := by
  unfold Ctx.memberEventAllowed
  cases hrow : e.row with
  | none => rfl
  | some row =>
    cases hsk : e.stateKey with
    | none => rfl
    | some target =>
      cases hnm : decodeMemberContent e.content with
      | error v => rfl
      | ok nm =>
        have hself : ∀ tk tg sn sm om, (MembershipAllower.mk c1 row e.ver tk tg sn sm om nm c1.joinRule).allowedSelf
            = (MembershipAllower.mk c2 row e.ver tk tg sn sm om nm c2.joinRule).allowedSelf :=
          fun tk tg sn sm om => allowedSelf_congr h row e.ver tk tg sn sm om nm _ _ (hjr nm hnm) (hvia nm hnm)
        have hother : ∀ tk tg sn sm om, (MembershipAllower.mk c1 row e.ver tk tg sn sm om nm c1.joinRule).allowedOther
            = (MembershipAllower.mk c2 row e.ver tk tg sn sm om nm c2.joinRule).allowedOther :=
          fun tk tg sn sm om => allowedOther_congr h row e.ver tk tg sn sm om nm _ _
        simp only [pure_bind', ok_bind, notAllowed_bind, memberFromProvider_congr (ht target hsk), memberFromProvider_congr hs,
          h.create, h.createEvent, hself, hother]
        cases htpi : nm.thirdPartyInvite with
        | none => rfl
        | some s =>
          simp only
          by_cases hinv : nm.membership = b!"invite"
          · by_cases htok : s.token.isEmpty = true
            · simp only [htok, if_true]
            · have := htp nm s hnm htpi hinv (by simpa using htok)
              simp only [Provider.thirdPartyInvite, this]
          · have : (nm.membership != b!"invite") = true := by simpa using hinv
            simp only [this, if_true]

/-! ### the needed pairs -/

/-- the two providers answer alike for every pair StateNeededForAuth names for `e` -/
def Agree (e : Event) (p q : Provider) : Prop :=
  ∀ tk ∈ neededPairs (stateNeeded e), p.get tk.1 tk.2 = q.get tk.1 tk.2

/-- the verdict is inside the modelled domain -/
def Modelled (v : Verdict) : Prop := ∀ w, v ≠ .unmodelled w

/-- not a membership event whose content is absent or `null` (for those StateNeededForAuth names nothing: the
    pointer it decodes into stays nil) -/
def hasContent (e : Event) : Bool :=
  if e.type == b!"m.room.member" then
    (match e.content with
     | none => false
     | some .null => false
     | some _ => true)
  else true

theorem decode_fields {kvs : List (Bytes × JVal)} {nm : MemberContent} (h : decodeMemberContent (some (.obj kvs)) = .ok nm) :
    nm.membership = (decString (lookupExact kvs b!"membership")).val
    ∧ nm.thirdPartyInvite = (decodeThirdParty (lookupExact kvs b!"third_party_invite")).val
    ∧ nm.authorisedVia = (decString (lookupExact kvs b!"join_authorised_via_users_server")).val := by
  unfold decodeMemberContent at h
  simp only at h
  split at h
  · cases h
  · split at h
    · cases h
    · cases h; exact ⟨rfl, rfl, rfl⟩

theorem decode_obj {c : JVal} {nm : MemberContent} (h : decodeMemberContent (some c) = .ok nm) (hn : c ≠ .null) :
    ∃ kvs, c = .obj kvs := by
  cases c with
  | obj kvs => exact ⟨kvs, rfl⟩
  | null => exact absurd rfl hn
  | _ => simp [decodeMemberContent, notAllowed] at h

/-- what StateNeededForAuth names for a membership event with a content -/
theorem needed_member (e : Event) (ht : (e.type == b!"m.room.member") = true) (c : JVal) (hc : e.content = some c)
    (hn : c ≠ .null) :
    (b!"m.room.create", []) ∈ neededPairs (stateNeeded e)
    ∧ (b!"m.room.power_levels", []) ∈ neededPairs (stateNeeded e)
    ∧ (b!"m.room.member", e.sender) ∈ neededPairs (stateNeeded e)
    ∧ (∀ k, e.stateKey = some k → (b!"m.room.member", k) ∈ neededPairs (stateNeeded e))
    ∧ (∀ kvs, c = .obj kvs →
        let m := (decString (lookupExact kvs b!"membership")).val
        let tp := (decodeThirdParty (lookupExact kvs b!"third_party_invite")).val
        let av := (decString (lookupExact kvs b!"join_authorised_via_users_server")).val
        ((m = b!"join" ∨ m = b!"knock") → (b!"m.room.join_rules", []) ∈ neededPairs (stateNeeded e))
        ∧ (av ≠ [] → (b!"m.room.member", av) ∈ neededPairs (stateNeeded e))
        ∧ (∀ s, tp = some s → s.token.isEmpty = false → (b!"m.room.third_party_invite", s.token) ∈ neededPairs (stateNeeded e))) := by
  have h1 : (e.type == b!"m.room.create") = false := by
    have : e.type = b!"m.room.member" := by simpa using ht
    rw [this]; decide
  have h2 : (e.type == b!"m.room.aliases") = false := by
    have : e.type = b!"m.room.member" := by simpa using ht
    rw [this]; decide
  unfold stateNeeded
  simp only [h1, h2, ht, Bool.false_eq_true, if_false, if_true, hc]
  cases c with
  | null => exact absurd rfl hn
  | obj kvs =>
    simp only
    have mem_pairs : ∀ (n : Needed) (x : Bytes × Bytes), x ∈ neededPairs n ↔
        ((n.create = true ∧ x = (b!"m.room.create", [])) ∨ (n.joinRules = true ∧ x = (b!"m.room.join_rules", []))
         ∨ (n.powerLevels = true ∧ x = (b!"m.room.power_levels", [])) ∨ (∃ m ∈ n.member, x = (b!"m.room.member", m))
         ∨ (∃ t ∈ n.thirdPartyInvite, x = (b!"m.room.third_party_invite", t))) := by
      intro n x
      unfold neededPairs
      simp only [List.mem_append, List.mem_map]
      constructor
      · rintro ((((h | h) | h) | ⟨m, hm, rfl⟩) | ⟨t, ht, rfl⟩)
        · split at h <;> simp_all
        · split at h <;> simp_all
        · split at h <;> simp_all
        · exact Or.inr (Or.inr (Or.inr (Or.inl ⟨m, hm, rfl⟩)))
        · exact Or.inr (Or.inr (Or.inr (Or.inr ⟨t, ht, rfl⟩)))
      · rintro (⟨h, rfl⟩ | ⟨h, rfl⟩ | ⟨h, rfl⟩ | ⟨m, hm, rfl⟩ | ⟨t, ht, rfl⟩)
        · simp [h]
        · simp [h]
        · simp [h]
        · exact Or.inl (Or.inr ⟨m, hm, rfl⟩)
        · exact Or.inr ⟨t, ht, rfl⟩
    simp only [mem_pairs]
    cases htp : (decodeThirdParty (lookupExact kvs b!"third_party_invite")).val with
    | none =>
      simp only
      refine ⟨by simp, by simp, by simp, ?_, ?_⟩
      · intro k hk; simp [hk]
      · intro kvs' hk
        cases hk
        refine ⟨?_, ?_, ?_⟩
        · intro hm; rcases hm with hm | hm <;> simp [hm]
        · intro hav
          have hne : (decString (lookupExact kvs b!"join_authorised_via_users_server")).val.isEmpty = false := by
            cases h : (decString (lookupExact kvs b!"join_authorised_via_users_server")).val with
            | nil => exact absurd h hav
            | cons a t => rfl
          simp [hne]
        · intro s hs; rw [htp] at hs; cases hs
    | some s0 =>
      simp only
      by_cases htok : s0.token.isEmpty = true
      · simp only [htok, if_true]
        refine ⟨by simp, by simp, by simp, ?_, ?_⟩
        · intro k hk; simp [hk]
        · intro kvs' hk
          cases hk
          refine ⟨?_, ?_, ?_⟩
          · intro hm; rcases hm with hm | hm <;> simp [hm]
          · intro hav
            have hne : (decString (lookupExact kvs b!"join_authorised_via_users_server")).val.isEmpty = false := by
              cases h : (decString (lookupExact kvs b!"join_authorised_via_users_server")).val with
              | nil => exact absurd h hav
              | cons a t => rfl
            simp [hne]
          · intro s hs htk; rw [htp] at hs; cases hs; rw [htok] at htk; cases htk
      · simp only [htok, if_false, Bool.false_eq_true]
        refine ⟨by simp, by simp, by simp, ?_, ?_⟩
        · intro k hk; simp [hk]
        · intro kvs' hk
          cases hk
          refine ⟨?_, ?_, ?_⟩
          · intro hm; rcases hm with hm | hm <;> simp [hm]
          · intro hav
            have hne : (decString (lookupExact kvs b!"join_authorised_via_users_server")).val.isEmpty = false := by
              cases h : (decString (lookupExact kvs b!"join_authorised_via_users_server")).val with
              | nil => exact absurd h hav
              | cons a t => rfl
            simp [hne]
          · intro s hs htk; rw [htp] at hs; cases hs; simp
  | bool b =>
    simp only
    refine ⟨?_, ?_, ?_, ?_, ?_⟩
    · simp [neededPairs, lookupExact, decodeThirdParty]
    · simp [neededPairs, lookupExact, decodeThirdParty]
    · simp [neededPairs, lookupExact, decodeThirdParty]
    · intro k hk; simp [neededPairs, lookupExact, decodeThirdParty, hk]
    · intro kvs hk; cases hk
  | num b =>
    simp only
    refine ⟨?_, ?_, ?_, ?_, ?_⟩
    · simp [neededPairs, lookupExact, decodeThirdParty]
    · simp [neededPairs, lookupExact, decodeThirdParty]
    · simp [neededPairs, lookupExact, decodeThirdParty]
    · intro k hk; simp [neededPairs, lookupExact, decodeThirdParty, hk]
    · intro kvs hk; cases hk
  | str b =>
    simp only
    refine ⟨?_, ?_, ?_, ?_, ?_⟩
    · simp [neededPairs, lookupExact, decodeThirdParty]
    · simp [neededPairs, lookupExact, decodeThirdParty]
    · simp [neededPairs, lookupExact, decodeThirdParty]
    · intro k hk; simp [neededPairs, lookupExact, decodeThirdParty, hk]
    · intro kvs hk; cases hk
  | arr b =>
    simp only
    refine ⟨?_, ?_, ?_, ?_, ?_⟩
    · simp [neededPairs, lookupExact, decodeThirdParty]
    · simp [neededPairs, lookupExact, decodeThirdParty]
    · simp [neededPairs, lookupExact, decodeThirdParty]
    · intro k hk; simp [neededPairs, lookupExact, decodeThirdParty, hk]
    · intro kvs hk; cases hk

/-! ### the check of a fresh context needs only the needed state -/

theorem needed_other (e : Event) (h1 : (e.type == b!"m.room.create") = false) (h2 : (e.type == b!"m.room.aliases") = false)
    (h3 : (e.type == b!"m.room.member") = false) :
    (b!"m.room.create", []) ∈ neededPairs (stateNeeded e) ∧ (b!"m.room.power_levels", []) ∈ neededPairs (stateNeeded e)
    ∧ (b!"m.room.member", e.sender) ∈ neededPairs (stateNeeded e) := by
  unfold stateNeeded
  simp [h1, h2, h3, neededPairs]

theorem needed_aliases (e : Event) (h1 : (e.type == b!"m.room.create") = false) (h2 : (e.type == b!"m.room.aliases") = true) :
    (b!"m.room.create", []) ∈ neededPairs (stateNeeded e) := by
  unfold stateNeeded
  simp [h1, h2, neededPairs]

/-- two fresh contexts whose providers agree on the needed pairs dispatch alike -/
theorem ctx_dispatch_congr {p q : Provider} {c1 c2 : Ctx} (hf1 : FreshOf p c1) (hf2 : FreshOf q c2) (e : Event) (sig : Bool)
    (ha : Agree e p q) (hcont : hasContent e = true) : c1.dispatch e sig = c2.dispatch e sig := by
  unfold Ctx.dispatch
  by_cases h1 : (e.type == b!"m.room.create") = true
  · simp only [h1, if_true]; rfl
  · have h1' : (e.type == b!"m.room.create") = false := by simpa using h1
    simp only [h1', Bool.false_eq_true, if_false]
    by_cases h2 : (e.type == b!"m.room.aliases") = true
    · simp only [h2, if_true]
      have hc : p.create = q.create := ha _ (needed_aliases e h1' h2)
      exact alias_congr (createEq_of hf1 hf2 hc).2.1 e
    · have h2' : (e.type == b!"m.room.aliases") = false := by simpa using h2
      simp only [h2', Bool.false_eq_true, if_false]
      by_cases h3 : (e.type == b!"m.room.member") = true
      · unfold hasContent at hcont
        simp only [h3, if_true] at hcont
        cases hcnt : e.content with
        | none => simp [hcnt] at hcont
        | some c =>
          have hn : c ≠ .null := by
            intro h; subst h; simp [hcnt] at hcont
          obtain ⟨n1, n2, n3, n4, n5⟩ := needed_member e h3 c hcnt hn
          have hcore : CoreEq c1 c2 := coreEq_of hf1 hf2 (ha _ n1) (ha _ n2)
          rw [hcore.plErr]
          cases c2.plErr with
          | some v => rfl
          | none =>
          simp only
          unfold Ctx.dispatchPL
          simp only [h3, if_true]
          apply member_congr hcore e sig
          · rw [hf1.provider, hf2.provider]; exact ha _ n3
          · intro k hk; rw [hf1.provider, hf2.provider]; exact ha _ (n4 k hk)
          · intro nm hnm hm
            rw [hcnt] at hnm
            obtain ⟨kvs, rfl⟩ := decode_obj hnm hn
            obtain ⟨f1, f2, f3⟩ := decode_fields hnm
            have := (n5 kvs rfl).1 (by rw [← f1]; exact hm)
            rw [hf1.jr, hf2.jr]
            have hj : p.joinRules = q.joinRules := ha _ this
            rw [hj]
          · intro nm hnm hav
            rw [hcnt] at hnm
            obtain ⟨kvs, rfl⟩ := decode_obj hnm hn
            obtain ⟨f1, f2, f3⟩ := decode_fields hnm
            rw [hf1.provider, hf2.provider]
            have := (n5 kvs rfl).2.1 (by rw [← f3]; exact hav)
            rw [← f3] at this
            exact ha _ this
          · intro nm s hnm hs hm htok
            rw [hcnt] at hnm
            obtain ⟨kvs, rfl⟩ := decode_obj hnm hn
            obtain ⟨f1, f2, f3⟩ := decode_fields hnm
            rw [hf1.provider, hf2.provider]
            exact ha _ ((n5 kvs rfl).2.2 s (by rw [← f2]; exact hs) htok)
      · have h3' : (e.type == b!"m.room.member") = false := by simpa using h3
        obtain ⟨n1, n2, n3⟩ := needed_other e h1' h2' h3'
        have hcore : CoreEq c1 c2 := coreEq_of hf1 hf2 (ha _ n1) (ha _ n2)
        have hm : c1.provider.get b!"m.room.member" e.sender = c2.provider.get b!"m.room.member" e.sender := by
          rw [hf1.provider, hf2.provider]; exact ha _ n3
        rw [hcore.plErr]
        cases c2.plErr with
        | some v => rfl
        | none =>
        simp only
        unfold Ctx.dispatchPL
        simp only [h3', Bool.false_eq_true, if_false]
        split
        · exact powerLevels_congr hcore e hm
        · split
          · exact redact_congr hcore e hm
          · exact default_congr hcore e hm

/-- two fresh contexts whose providers have the same Valid() bit and agree on the needed pairs answer alike -/
theorem ctx_allowed_congr {p q : Provider} {c1 c2 : Ctx} (hf1 : FreshOf p c1) (hf2 : FreshOf q c2) (e : Event) (sig : Bool)
    (hv : p.valid = q.valid) (ha : Agree e p q) (hcont : hasContent e = true) : c1.allowed e sig = c2.allowed e sig := by
  unfold Ctx.allowed
  rw [hf1.provider, hf2.provider, hv, ctx_dispatch_congr hf1 hf2 e sig ha hcont]

/-- **The verdict needs only the needed state** (exact form).  If the two providers have the same Valid() bit and answer
    alike for every (type, state_key) pair that StateNeededForAuth names for `e`, and both verdicts are inside the modelled
    domain, the verdicts are EQUAL. -/
theorem verdict_exact (e : Event) (p q : Provider) (sig : Bool) (hv : p.valid = q.valid) (ha : Agree e p q)
    (hcont : hasContent e = true) (hp : Modelled (allowedFresh e p sig)) (hq : Modelled (allowedFresh e q sig)) :
    allowedFresh e p sig = allowedFresh e q sig := by
  rw [allowedFresh_freshOf] at hp hq ⊢
  rw [allowedFresh_freshOf]
  rw [← hv] at hq ⊢
  by_cases hval : (!p.valid) = true
  · simp only [hval, if_true]
  · simp only [hval, if_false, Bool.false_eq_true] at hp hq ⊢
    cases hf1 : freshOf p with
    | error v =>
      obtain ⟨w, rfl⟩ := freshOf_error hf1
      rw [hf1] at hp
      exact absurd rfl (hp w)
    | ok c1 =>
      cases hf2 : freshOf q with
      | error v =>
        obtain ⟨w, rfl⟩ := freshOf_error hf2
        rw [hf2] at hq
        exact absurd rfl (hq w)
      | ok c2 =>
        simp only
        rw [ctx_allowed_congr (freshOf_fields hf1) (freshOf_fields hf2) e sig hv ha hcont]

/-- two contexts that agree on the cached parts and whose providers answer EVERY lookup alike check alike -/
theorem ctx_allowed_congr_all {c1 c2 : Ctx} (h : CoreEq c1 c2) (hj : c1.joinRule = c2.joinRule)
    (hg : ∀ t k, c1.provider.get t k = c2.provider.get t k) (hv : c1.provider.valid = c2.provider.valid) (e : Event) (sig : Bool) :
    c1.allowed e sig = c2.allowed e sig := by
  unfold Ctx.allowed Ctx.dispatch
  rw [hv, h.plErr]
  split
  · rfl
  · split
    · rfl
    · split
      · exact alias_congr h.create e
      · cases c2.plErr with
        | some v => rfl
        | none =>
          simp only
          unfold Ctx.dispatchPL
          split
          · exact member_congr h e sig (hg _ _) (fun k _ => hg _ _) (fun _ _ _ => hj) (fun _ _ _ => hg _ _) (fun _ _ _ _ _ _ => hg _ _)
          · split
            · exact powerLevels_congr h e (hg _ _)
            · split
              · exact redact_congr h e (hg _ _)
              · exact default_congr h e (hg _ _)

/-- **The verdict is a function of the lookups and the Valid() bit**: providers that answer every lookup alike (whatever
    the order in which their events were added) give EQUAL verdicts — no side condition. -/
theorem verdict_of_gets (e : Event) (p q : Provider) (sig : Bool) (hv : p.valid = q.valid)
    (hg : ∀ t k, p.get t k = q.get t k) : allowedFresh e p sig = allowedFresh e q sig := by
  rw [allowedFresh_freshOf, allowedFresh_freshOf, ← hv]
  split
  · rfl
  · have hc : p.create = q.create := hg _ _
    have hp : p.powerLevels = q.powerLevels := hg _ _
    have hjr : p.joinRules = q.joinRules := hg _ _
    unfold freshOf
    rw [hc, hp, hjr]
    cases createInfo q.create with
    | error v => rfl
    | ok r =>
      obtain ⟨ce, cc, cr, pr⟩ := r
      simp only
      cases plInfo q.powerLevels (senderOfOpt ce) with
      | error v => rfl
      | ok r2 =>
        obtain ⟨pe, pl⟩ := r2
        simp only
        exact congrArg verdictOf (ctx_allowed_congr_all
          (c1 := Ctx.mk p true ce cc cr pr pe pl (plErrOf q.powerLevels) (jrInfo q.joinRules).1 (jrInfo q.joinRules).2)
          (c2 := Ctx.mk q true ce cc cr pr pe pl (plErrOf q.powerLevels) (jrInfo q.joinRules).1 (jrInfo q.joinRules).2)
          ⟨rfl, rfl, rfl, rfl, rfl, rfl, rfl⟩ rfl hg hv e sig)

/-! ### membership events without a content are never accepted -/

theorem bind_ne_ok {α} {x : R α} {f : α → R Unit} (h : ∀ a, f a ≠ .ok ()) : x >>= f ≠ .ok () := by
  cases x with
  | ok a => exact h a
  | error v => intro h'; cases h'

theorem allowedSelf_empty_ne_ok (m : MembershipAllower) (h : m.newMember.membership = []) : m.allowedSelf ≠ .ok () := by
  rw [allowedSelf_model]
  have l1 : (([] : Bytes) == b!"leave") = false := by decide
  have l2 : (([] : Bytes) == b!"knock") = false := by decide
  have l3 : (([] : Bytes) == b!"join") = false := by decide
  simp only [h, l1, l2, l3, Bool.and_false, Bool.false_eq_true, if_false]
  split <;> intro h' <;> cases h'

theorem allowedOther_empty_ne_ok (m : MembershipAllower) (h : m.newMember.membership = []) : m.allowedOther ≠ .ok () := by
  unfold MembershipAllower.allowedOther
  have l1 : (([] : Bytes) == b!"leave") = false := by decide
  have l2 : (([] : Bytes) == b!"ban") = false := by decide
  have l3 : (([] : Bytes) == b!"invite") = false := by decide
  simp only [h, l1, l2, l3, Bool.false_eq_true, if_false, notAllowed_bind]
  apply bind_ne_ok; intro sl
  apply bind_ne_ok; intro tl
  split <;> intro h' <;> cases h'

theorem member_no_content_ne_ok (c : Ctx) (e : Event) (sig : Bool) (hc : e.content = none ∨ e.content = some .null) :
    c.memberEventAllowed e sig ≠ .ok () := by
  unfold Ctx.memberEventAllowed
  apply bind_ne_ok; intro row
  apply bind_ne_ok; intro target
  rcases hc with hc | hc
  · rw [hc]
    intro h'; cases h'
  · rw [hc]
    have : decodeMemberContent (some JVal.null) = .ok {} := rfl
    rw [this, ok_bind]
    apply bind_ne_ok; intro om
    apply bind_ne_ok; intro sm
    simp only [pure_bind', notAllowed_bind]
    have l1 : (([] : Bytes) == b!"join") = false := by decide
    have l2 : (([] : Bytes) == b!"invite") = false := by decide
    simp only [l1, l2, Bool.and_false, Bool.false_and, Bool.false_eq_true, if_false]
    split
    · intro h'; cases h'
    · apply bind_ne_ok; intro su
      apply bind_ne_ok; intro _
      split
      · intro h'; cases h'
      · split
        · exact allowedSelf_empty_ne_ok _ rfl
        · exact allowedOther_empty_ne_ok _ rfl

/-- the computation never fails WITH the verdict `ok` (the error type of `R` is `Verdict`) -/
structure NoErrOk {α} (r : R α) : Prop where
  h : r ≠ .error .ok

theorem eo_ok {α} (x : α) : NoErrOk (.ok x : R α) := ⟨fun h => by cases h⟩
theorem eo_pure {α} (x : α) : NoErrOk (pure x : R α) := ⟨fun h => by cases h⟩
theorem eo_na {α} : NoErrOk (notAllowed : R α) := ⟨fun h => by cases h⟩
theorem eo_fail {α} : NoErrOk (failErr : R α) := ⟨fun h => by cases h⟩
theorem eo_unm {α} (w : String) : NoErrOk (.error (.unmodelled w) : R α) := ⟨fun h => by cases h⟩
theorem eo_panic {α} (w : String) : NoErrOk (.error (.panic w) : R α) := ⟨fun h => by cases h⟩
theorem eo_bind {α β} {x : R α} {f : α → R β} (hx : NoErrOk x) (hf : ∀ a, NoErrOk (f a)) : NoErrOk (x >>= f) := by
  cases x with
  | ok a => exact hf a
  | error v => exact ⟨fun h => hx.h (by cases h; rfl)⟩
theorem eo_ite {α} {c : Prop} [Decidable c] {a b : R α} (ha : NoErrOk a) (hb : NoErrOk b) : NoErrOk (if c then a else b) := by
  split <;> assumption

macro "eo_close" : tactic =>
  `(tactic| first | exact eo_ok _ | exact eo_pure _ | exact eo_na | exact eo_fail | exact eo_unm _ | exact eo_panic _ | assumption)
macro "eo_split" : tactic =>
  `(tactic| first | apply eo_ite | (apply eo_bind) | intro _ | split)
macro "eo_step" : tactic => `(tactic| first | eo_close | eo_split)

theorem eo_resolveUser (s : Bytes) : NoErrOk (resolveUser s) := by
  unfold resolveUser; repeat eo_step
theorem eo_domainAllowed (c : CreateContent) (d : Bytes) : NoErrOk (c.domainAllowed d) := by
  unfold CreateContent.domainAllowed; repeat eo_step
theorem eo_userPowerLevel (c : Ctx) (u : Bytes) : NoErrOk (c.userPowerLevel u) := by
  unfold Ctx.userPowerLevel; repeat eo_step
theorem eo_decodeMemberContent (cnt : Option JVal) : NoErrOk (decodeMemberContent cnt) := by
  unfold decodeMemberContent; repeat eo_step
theorem eo_memberFromProvider (p : Provider) (u : Bytes) : NoErrOk (memberFromProvider p u) := by
  unfold memberFromProvider
  repeat (first | eo_close | exact eo_decodeMemberContent _ | eo_split)
theorem eo_checkKnocking (row : VGen.VersionRow) (jr old : Bytes) : NoErrOk (checkKnockingAllowed row jr old) := by
  unfold checkKnockingAllowed; repeat eo_step
theorem eo_restrictedJoin (m : MembershipAllower) : NoErrOk m.restrictedJoin := by
  unfold MembershipAllower.restrictedJoin
  simp only [notAllowed_bind, error_bind]
  repeat (first | eo_close | exact eo_userPowerLevel _ _ | eo_split)
theorem eo_allowedSelf (m : MembershipAllower) : NoErrOk m.allowedSelf := by
  rw [allowedSelf_model]
  repeat (first | eo_close | exact eo_checkKnocking _ _ _ | exact eo_restrictedJoin m | eo_split)
theorem eo_allowedOther (m : MembershipAllower) : NoErrOk m.allowedOther := by
  unfold MembershipAllower.allowedOther
  simp only [notAllowed_bind]
  repeat (first | eo_close | exact eo_userPowerLevel _ _ | eo_split)
theorem eo_member (c : Ctx) (e : Event) (sig : Bool) : NoErrOk (c.memberEventAllowed e sig) := by
  unfold Ctx.memberEventAllowed
  simp only [notAllowed_bind]
  repeat (first | eo_close | exact eo_decodeMemberContent _ | exact eo_memberFromProvider _ _ | exact eo_resolveUser _ | exact eo_domainAllowed _ _ | exact eo_allowedSelf _ | exact eo_allowedOther _ | eo_split)

/-- a verdict inside the modelled domain that is neither an acceptance nor a panic reads "rej" -/
theorem coarse_rej {v : Verdict} (h1 : v ≠ .ok) (h2 : ∀ s, v ≠ .panic s) (h3 : Modelled v) : v.coarse = "rej" := by
  cases v with
  | ok => exact absurd rfl h1
  | notAllowed => rfl
  | err => rfl
  | panic s => exact absurd rfl (h2 s)
  | unmodelled w => exact absurd rfl (h3 w)

theorem member_type_facts {e : Event} (ht : (e.type == b!"m.room.member") = true) :
    (e.type == b!"m.room.create") = false ∧ (e.type == b!"m.room.aliases") = false := by
  have : e.type = b!"m.room.member" := by simpa using ht
  rw [this]; exact ⟨by decide, by decide⟩

/-- what `allowed` answers for a membership event: one of the two gates refuses, or the membership check decides -/
theorem allowed_member_cases (c : Ctx) (p : Provider) (hf : Fresh p c) (e : Event) (sig : Bool)
    (ht : (e.type == b!"m.room.member") = true) :
    c.allowed e sig = notAllowed ∨ c.allowed e sig = failErr ∨ c.allowed e sig = c.memberEventAllowed e sig := by
  obtain ⟨h1, h2⟩ := member_type_facts ht
  unfold Ctx.allowed Ctx.dispatch Ctx.dispatchPL
  simp only [h1, h2, ht, Bool.false_eq_true, if_false, if_true]
  split
  · exact Or.inl rfl
  · cases hpe : c.plErr with
    | none => exact Or.inr (Or.inr rfl)
    | some v =>
      rcases (plErr_spec hf).2 v hpe with rfl | rfl
      · exact Or.inl rfl
      · exact Or.inr (Or.inl rfl)

/-- a membership event without a content is refused whatever the auth events are -/
theorem no_content_coarse (e : Event) (p : Provider) (sig : Bool) (ht : (e.type == b!"m.room.member") = true)
    (hc : e.content = none ∨ e.content = some .null) (hr : e.roomID ≠ []) (hm : Modelled (allowedFresh e p sig)) :
    (allowedFresh e p sig).coarse = "rej" := by
  obtain ⟨h1, h2⟩ := member_type_facts ht
  apply coarse_rej _ _ hm
  · rw [allowedFresh_freshOf]
    split
    · intro h; cases h
    · cases hf : freshOf p with
      | error v => obtain ⟨w, rfl⟩ := freshOf_error hf; intro h; cases h
      | ok c =>
        simp only [verdictOf]
        rcases allowed_member_cases c p (fresh_of hf) e sig ht with hal | hal | hal
        · rw [hal]; intro h; cases h
        · rw [hal]; intro h; cases h
        rw [hal]
        have hne := member_no_content_ne_ok c e sig hc
        have heo := (eo_member c e sig).h
        cases hma : c.memberEventAllowed e sig with
        | ok u => cases u; exact absurd hma hne
        | error v =>
          simp only
          intro h; subst h
          exact heo hma
  · intro site
    rw [allowedFresh_freshOf]
    split
    · intro h; cases h
    · cases hf : freshOf p with
      | error v => obtain ⟨w, rfl⟩ := freshOf_error hf; intro h; cases h
      | ok c =>
        simp only [verdictOf]
        rcases allowed_member_cases c p (fresh_of hf) e sig ht with hal | hal | hal
        · rw [hal]; intro h; cases h
        · rw [hal]; intro h; cases h
        rw [hal]
        have hnp := (np_member c p (fresh_of hf) e sig hr).h site
        cases hma : c.memberEventAllowed e sig with
        | ok u => cases u; intro h; cases h
        | error v =>
          simp only
          intro h; subst h
          exact hnp hma

/-- **The verdict needs only the needed state.**  For every event `e` (with a room ID the constructors accept), providers
    `p`, `q` and signature oracle bit: if `p` and `q` have the same Valid() bit and answer every lookup alike for the
    (type, state_key) pairs that StateNeededForAuth names for `e`, and both verdicts are inside the modelled domain, then
    the verdicts are the same (as accept / reject; `verdict_exact` gives equality of the `Verdict` values whenever the
    event is not a membership event without content, for which only the error class can differ). -/
theorem verdict_coarse (e : Event) (p q : Provider) (sig : Bool) (hr : e.roomID ≠ []) (hv : p.valid = q.valid)
    (ha : Agree e p q) (hp : Modelled (allowedFresh e p sig)) (hq : Modelled (allowedFresh e q sig)) :
    (allowedFresh e p sig).coarse = (allowedFresh e q sig).coarse := by
  by_cases hcont : hasContent e = true
  · rw [verdict_exact e p q sig hv ha hcont hp hq]
  · unfold hasContent at hcont
    by_cases ht : (e.type == b!"m.room.member") = true
    · simp only [ht, if_true] at hcont
      have hc : e.content = none ∨ e.content = some .null := by
        cases hcnt : e.content with
        | none => exact Or.inl rfl
        | some c =>
          cases c with
          | null => exact Or.inr rfl
          | _ => simp [hcnt] at hcont
      rw [no_content_coarse e p sig ht hc hr hp, no_content_coarse e q sig ht hc hr hq]
    · simp [ht] at hcont

end V.AuthNeeded
