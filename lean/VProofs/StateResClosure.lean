/-
  The closure-based stages of the state-resolution model (`authClosure`, `fullAuthChain`, `reachFrom`,
  `conflictedSubgraph`, `controlClosure`) depend only on the SETS of events involved, never on list order:
  * the auth map enters only through `findByID` (and its length, as fuel): EQUALITIES under `MapEq`;
  * frontier / seen / state set enter only as sets: `SameSet` results.
  Core only.
-/
import VProofs.StateResBasic
namespace V.StateRes
open V Json GoJson Auth List

/-! ## A. the auth map enters only through lookups -/

theorem MapEq.find_eq {am am' : List Event} (h : MapEq am am') : findByID am = findByID am' := funext h.2

theorem authParents_mapEq {am am' : List Event} (h : MapEq am am') (e : Event) : authParents am e = authParents am' e := by
  unfold authParents; rw [h.find_eq]

theorem authParents_mapEq' {am am' : List Event} (h : MapEq am am') : authParents am = authParents am' :=
  funext (authParents_mapEq h)

theorem authClosure_zero (am : List Event) (fr : List Event) (seen : List ID) : authClosure am 0 fr seen = seen := rfl

/-- the frontier of the next round -/
def nextFresh (am : List Event) (fr : List Event) (seen : List ID) : List Event :=
  (eventMapFromEvents (fr.map (authParents am)).flatten).filter (fun e => !seen.contains e.eventID)

theorem authClosure_succ (am : List Event) (fuel : Nat) (fr : List Event) (seen : List ID) :
    authClosure am (fuel + 1) fr seen =
      if (nextFresh am fr seen).isEmpty then seen
      else authClosure am fuel (nextFresh am fr seen) (seen ++ (nextFresh am fr seen).map (·.eventID)) := rfl

theorem nextFresh_mapEq {am am' : List Event} (h : MapEq am am') (fr : List Event) (seen : List ID) :
    nextFresh am fr seen = nextFresh am' fr seen := by
  unfold nextFresh; rw [authParents_mapEq' h]

theorem authClosure_mapEq {am am' : List Event} (h : MapEq am am') (fuel : Nat) (fr : List Event) (seen : List ID) :
    authClosure am fuel fr seen = authClosure am' fuel fr seen := by
  induction fuel generalizing fr seen with
  | zero => rfl
  | succ n ih => rw [authClosure_succ, authClosure_succ, nextFresh_mapEq h, ih]

theorem fullAuthChain_mapEq {am am' : List Event} (h : MapEq am am') (s : List Event) :
    fullAuthChain am s = fullAuthChain am' s := by
  unfold fullAuthChain; rw [h.1, authClosure_mapEq h]

theorem reachFrom_mapEq {am am' : List Event} (h : MapEq am am') (e : Event) : reachFrom am e = reachFrom am' e := by
  unfold reachFrom; rw [h.1, authClosure_mapEq h]

theorem reachFrom_mapEq' {am am' : List Event} (h : MapEq am am') : reachFrom am = reachFrom am' :=
  funext (reachFrom_mapEq h)

theorem conflictedSubgraph_mapEq {am am' : List Event} (h : MapEq am am') (cids : List ID) (s : List Event) :
    conflictedSubgraph am cids s = conflictedSubgraph am' cids s := by
  unfold conflictedSubgraph; rw [reachFrom_mapEq' h, h.find_eq]

/-- the control closure is the auth closure over the conflicted map -/
theorem controlClosure_eq_authClosure (cm : List Event) (fuel : Nat) (fr : List Event) (seen : List ID) :
    controlClosure cm fuel fr seen = authClosure cm fuel fr seen := by
  induction fuel generalizing fr seen with
  | zero => rfl
  | succ n ih =>
    rw [authClosure_succ]
    show (if (nextFresh cm fr seen).isEmpty then seen
      else controlClosure cm n (nextFresh cm fr seen) (seen ++ (nextFresh cm fr seen).map (·.eventID))) = _
    rw [ih]

theorem controlClosure_mapEq {cm cm' : List Event} (h : MapEq cm cm') (fuel : Nat) (fr : List Event) (seen : List ID) :
    controlClosure cm fuel fr seen = controlClosure cm' fuel fr seen := by
  rw [controlClosure_eq_authClosure, controlClosure_eq_authClosure, authClosure_mapEq h]

/-! ## B. frontier / seen / state set enter only as sets -/

theorem mem_authParents {am : List Event} {e x : Event} :
    x ∈ authParents am e ↔ ∃ id ∈ e.authEventIDs, findByID am id = some x := by
  unfold authParents; rw [List.mem_filterMap]

/-- everything that comes out of lookups in one map is identified by its ID -/
theorem idsIn_of_lookups {am : List Event} {l : List Event} (h : ∀ x ∈ l, ∃ id, findByID am id = some x) : IdsIn l := by
  intro x y hx hy hxy
  obtain ⟨i, hi⟩ := h x hx
  obtain ⟨j, hj⟩ := h y hy
  have h1 := (findByID_some hi).2
  have h2 := (findByID_some hj).2
  have : i = j := by rw [← h1, ← h2, hxy]
  subst this
  rw [hi] at hj
  exact Option.some.inj hj

theorem parents_lookups (am : List Event) (fr : List Event) :
    ∀ x ∈ (fr.map (authParents am)).flatten, ∃ id, findByID am id = some x := by
  intro x hx
  obtain ⟨l, hl, hxl⟩ := List.mem_flatten.mp hx
  obtain ⟨e, _, rfl⟩ := List.mem_map.mp hl
  obtain ⟨id, _, hid⟩ := mem_authParents.mp hxl
  exact ⟨id, hid⟩

theorem parents_sameSet (am : List Event) {fr fr' : List Event} (hf : SameSet fr fr') :
    SameSet (fr.map (authParents am)).flatten (fr'.map (authParents am)).flatten := by
  intro x
  simp only [List.mem_flatten, List.mem_map]
  constructor
  · rintro ⟨l, ⟨e, he, rfl⟩, hx⟩; exact ⟨_, ⟨e, (hf e).mp he, rfl⟩, hx⟩
  · rintro ⟨l, ⟨e, he, rfl⟩, hx⟩; exact ⟨_, ⟨e, (hf e).mpr he, rfl⟩, hx⟩

theorem mem_nextFresh {am : List Event} {fr : List Event} {seen : List ID} {x : Event} :
    x ∈ nextFresh am fr seen ↔ x ∈ (fr.map (authParents am)).flatten ∧ x.eventID ∉ seen := by
  unfold nextFresh
  rw [List.mem_filter, eventMap_sameSet (idsIn_of_lookups (parents_lookups am fr)) x]
  simp

theorem nextFresh_sameSet (am : List Event) {fr fr' : List Event} {seen seen' : List ID}
    (hf : SameSet fr fr') (hs : SameSet seen seen') : SameSet (nextFresh am fr seen) (nextFresh am fr' seen') := by
  intro x
  rw [mem_nextFresh, mem_nextFresh, parents_sameSet am hf x, hs x.eventID]

theorem authClosure_sameSet (am : List Event) (fuel : Nat) {fr fr' : List Event} {seen seen' : List ID}
    (hf : SameSet fr fr') (hs : SameSet seen seen') :
    SameSet (authClosure am fuel fr seen) (authClosure am fuel fr' seen') := by
  induction fuel generalizing fr fr' seen seen' with
  | zero => exact hs
  | succ n ih =>
    have hn := nextFresh_sameSet am hf hs
    rw [authClosure_succ, authClosure_succ, hn.isEmpty]
    split
    · exact hs
    · exact ih hn (hs.append (hn.map _))

theorem fullAuthChain_sameSet (am : List Event) {s s' : List Event} (h : SameSet s s') :
    SameSet (fullAuthChain am s) (fullAuthChain am s') :=
  authClosure_sameSet am _ h (SameSet.refl _)

theorem controlClosure_sameSet (cm : List Event) (fuel : Nat) {fr fr' : List Event} {seen seen' : List ID}
    (hf : SameSet fr fr') (hs : SameSet seen seen') :
    SameSet (controlClosure cm fuel fr seen) (controlClosure cm fuel fr' seen') := by
  rw [controlClosure_eq_authClosure, controlClosure_eq_authClosure]
  exact authClosure_sameSet cm fuel hf hs

/-- the candidate list of `conflictedSubgraph` before deduplication -/
def subgraphCand (am : List Event) (origins : List Event) : List Event :=
  origins ++ ((origins.map (reachFrom am)).flatten.filterMap (findByID am))

theorem conflictedSubgraph_eq (am : List Event) (cids : List ID) (s : List Event) :
    conflictedSubgraph am cids s =
      ((eventMapFromEvents (subgraphCand am (s.filter (fun e => cids.contains e.eventID)))).filter
        (fun x => (reachFrom am x).any (fun id => cids.contains id))).map (·.eventID) := rfl

theorem subgraphCand_sub {am origins : List Event} {x : Event} (h : x ∈ subgraphCand am origins) : x ∈ origins ∨ x ∈ am := by
  unfold subgraphCand at h
  rcases List.mem_append.mp h with h | h
  · exact Or.inl h
  · obtain ⟨id, _, hid⟩ := List.mem_filterMap.mp h
    exact Or.inr (findByID_some hid).1

theorem subgraphCand_sameSet (am : List Event) {o o' : List Event} (h : SameSet o o') :
    SameSet (subgraphCand am o) (subgraphCand am o') := by
  unfold subgraphCand
  refine h.append (SameSet.filterMap _ ?_)
  intro x
  simp only [List.mem_flatten, List.mem_map]
  constructor
  · rintro ⟨l, ⟨e, he, rfl⟩, hx⟩; exact ⟨_, ⟨e, (h e).mp he, rfl⟩, hx⟩
  · rintro ⟨l, ⟨e, he, rfl⟩, hx⟩; exact ⟨_, ⟨e, (h e).mpr he, rfl⟩, hx⟩

theorem conflictedSubgraph_sameSet {U : Event → Prop} (hU : EvId U) (am : List Event) {cids cids' : List ID} {s s' : List Event}
    (hs : ∀ x ∈ s, U x) (hs' : ∀ x ∈ s', U x) (ham : ∀ x ∈ am, U x) (hc : SameSet cids cids') (h : SameSet s s') :
    SameSet (conflictedSubgraph am cids s) (conflictedSubgraph am cids' s') := by
  rw [conflictedSubgraph_eq, conflictedSubgraph_eq]
  have hcc : (fun id => cids.contains id) = (fun id => cids'.contains id) := funext (fun id => hc.contains id)
  have hce : (fun (e : Event) => cids.contains e.eventID) = (fun e => cids'.contains e.eventID) :=
    funext (fun e => hc.contains e.eventID)
  rw [hcc, hce]
  have ho : SameSet (s.filter (fun e => cids'.contains e.eventID)) (s'.filter (fun e => cids'.contains e.eventID)) := h.filter _
  have hI : ∀ {t : List Event}, (∀ x ∈ t, U x) →
      IdsIn (subgraphCand am (t.filter (fun e => cids'.contains e.eventID))) := by
    intro t ht
    refine hU.mono ?_
    intro x hx
    rcases subgraphCand_sub hx with hx | hx
    · exact ht x (List.mem_filter.mp hx).1
    · exact ham x hx
  refine SameSet.map _ (SameSet.filter _ ?_)
  exact (eventMap_sameSet (hI hs)).trans ((subgraphCand_sameSet am ho).trans (eventMap_sameSet (hI hs')).symm)

/-! ## C. the whole auth difference -/

/-- the first chain filtered by membership in all the others -/
def interIDs : List (List ID) → List ID
  | [] => []
  | c :: cs => c.filter (fun id => cs.all (fun d => d.contains id))

def diffIDs (chains : List (List ID)) : List ID :=
  (chains.foldl unionIDs []).filter (fun id => !(interIDs chains).contains id)

def subIDs (algo : Nat) (am : List Event) (cids : List ID) (sets : List (List Event)) : List ID :=
  if algo == 3 then (sets.map (conflictedSubgraph am cids)).foldl unionIDs [] else []

/-- the auth map first, then the conflicted events themselves -/
def resolveID (am c : List Event) (id : ID) : Option Event :=
  match findByID am id with
  | some e => some e
  | none => findByID c id

theorem authDifferenceNew_eq (algo : Nat) (am c : List Event) (sets : List (List Event)) :
    authDifferenceNew algo am c sets =
      (unionIDs (diffIDs (sets.map (fullAuthChain am))) (subIDs algo am (c.map (·.eventID)) sets)).filterMap
        (resolveID am c) := rfl

theorem mem_interIDs {chains : List (List ID)} {id : ID} :
    id ∈ interIDs chains ↔ chains ≠ [] ∧ ∀ ch ∈ chains, id ∈ ch := by
  cases chains with
  | nil => simp [interIDs]
  | cons c cs => simp [interIDs, List.mem_filter, List.all_eq_true]

theorem mem_diffIDs {chains : List (List ID)} {id : ID} :
    id ∈ diffIDs chains ↔ (∃ ch ∈ chains, id ∈ ch) ∧ ¬ ∀ ch ∈ chains, id ∈ ch := by
  unfold diffIDs
  rw [List.mem_filter, mem_foldl_unionIDs]
  have hc : (!(interIDs chains).contains id) = true ↔ ¬ (chains ≠ [] ∧ ∀ ch ∈ chains, id ∈ ch) := by
    rw [← mem_interIDs, Bool.not_eq_true', ← Bool.not_eq_true, List.contains_iff_mem]
  rw [hc]
  simp only [List.not_mem_nil, false_or, not_and]
  constructor
  · rintro ⟨⟨ch, hch, hid⟩, hn⟩
    exact ⟨⟨ch, hch, hid⟩, hn (List.ne_nil_of_mem hch)⟩
  · rintro ⟨hex, hn⟩
    exact ⟨hex, fun _ => hn⟩

theorem mem_subIDs {algo : Nat} {am : List Event} {cids : List ID} {sets : List (List Event)} {id : ID} :
    id ∈ subIDs algo am cids sets ↔ algo = 3 ∧ ∃ s ∈ sets, id ∈ conflictedSubgraph am cids s := by
  unfold subIDs
  by_cases ha : algo = 3
  · subst ha
    simp only [beq_self_eq_true, if_true, true_and, mem_foldl_unionIDs, List.not_mem_nil, false_or, List.mem_map]
    constructor
    · rintro ⟨l, ⟨s, hs, rfl⟩, hid⟩; exact ⟨s, hs, hid⟩
    · rintro ⟨s, hs, hid⟩; exact ⟨_, ⟨s, hs, rfl⟩, hid⟩
  · have : (algo == 3) = false := by simpa using ha
    simp [this, ha]

/-- every ID list of one side has the same elements as some ID list of the other side, and conversely -/
def IDsSim (a b : List (List ID)) : Prop :=
  (∀ s ∈ a, ∃ s' ∈ b, SameSet s s') ∧ (∀ s' ∈ b, ∃ s ∈ a, SameSet s s')

theorem IDsSim.symm {a b : List (List ID)} (h : IDsSim a b) : IDsSim b a :=
  ⟨fun s hs => let ⟨s', hs', hh⟩ := h.2 s hs; ⟨s', hs', hh.symm⟩,
   fun s hs => let ⟨s', hs', hh⟩ := h.1 s hs; ⟨s', hs', hh.symm⟩⟩

theorem chains_sim (am : List Event) {sets sets' : List (List Event)} (h : SetsSim sets sets') :
    IDsSim (sets.map (fullAuthChain am)) (sets'.map (fullAuthChain am)) := by
  constructor
  · intro ch hch
    obtain ⟨s, hs, rfl⟩ := List.mem_map.mp hch
    obtain ⟨s', hs', hh⟩ := h.1 s hs
    exact ⟨_, List.mem_map_of_mem hs', fullAuthChain_sameSet am hh⟩
  · intro ch hch
    obtain ⟨s', hs', rfl⟩ := List.mem_map.mp hch
    obtain ⟨s, hs, hh⟩ := h.2 s' hs'
    exact ⟨_, List.mem_map_of_mem hs, fullAuthChain_sameSet am hh⟩

theorem diffIDs_sub_of_sim {a b : List (List ID)} (h : IDsSim a b) {id : ID} (hid : id ∈ diffIDs a) : id ∈ diffIDs b := by
  rw [mem_diffIDs] at *
  obtain ⟨⟨ch, hch, hmem⟩, hn⟩ := hid
  obtain ⟨ch', hch', hss⟩ := h.1 ch hch
  refine ⟨⟨ch', hch', (hss id).mp hmem⟩, fun hall => hn (fun d hd => ?_)⟩
  obtain ⟨d', hd', hdd⟩ := h.1 d hd
  exact (hdd id).mpr (hall d' hd')

theorem diffIDs_sameSet {a b : List (List ID)} (h : IDsSim a b) : SameSet (diffIDs a) (diffIDs b) :=
  fun _ => ⟨diffIDs_sub_of_sim h, diffIDs_sub_of_sim h.symm⟩

theorem subIDs_sameSet {U : Event → Prop} (hU : EvId U) (algo : Nat) (am : List Event) {cids cids' : List ID}
    {sets sets' : List (List Event)} (hsets : ∀ s ∈ sets, ∀ x ∈ s, U x) (hsets' : ∀ s ∈ sets', ∀ x ∈ s, U x)
    (ham : ∀ x ∈ am, U x) (hc : SameSet cids cids') (hs : SetsSim sets sets') :
    SameSet (subIDs algo am cids sets) (subIDs algo am cids' sets') := by
  intro id
  rw [mem_subIDs, mem_subIDs]
  constructor
  · rintro ⟨ha, s, hs1, hid⟩
    obtain ⟨s', hs', hh⟩ := hs.1 s hs1
    exact ⟨ha, s', hs', (conflictedSubgraph_sameSet hU am (hsets s hs1) (hsets' s' hs') ham hc hh id).mp hid⟩
  · rintro ⟨ha, s', hs', hid⟩
    obtain ⟨s, hs1, hh⟩ := hs.2 s' hs'
    exact ⟨ha, s, hs1, (conflictedSubgraph_sameSet hU am (hsets s hs1) (hsets' s' hs') ham hc hh id).mpr hid⟩

theorem unionIDs_sameSet {a a' b b' : List ID} (ha : SameSet a a') (hb : SameSet b b') :
    SameSet (unionIDs a b) (unionIDs a' b') := by
  intro x; rw [mem_unionIDs, mem_unionIDs, ha x, hb x]

theorem resolveID_congr {U : Event → Prop} (hU : EvId U) {am am' c c' : List Event}
    (hcU : ∀ x ∈ c, U x) (hcU' : ∀ x ∈ c', U x) (hm : MapEq am am') (hc : SameSet c c') :
    resolveID am c = resolveID am' c' := by
  funext id
  unfold resolveID
  rw [hm.2 id, findByID_congr hU hcU hcU' hc id]

/-- the auth difference with the auth map replaced by one that answers alike -/
theorem authDifferenceNew_mapEq (algo : Nat) {am am' : List Event} (hm : MapEq am am') (c : List Event)
    (sets : List (List Event)) : authDifferenceNew algo am c sets = authDifferenceNew algo am' c sets := by
  rw [authDifferenceNew_eq, authDifferenceNew_eq]
  have h1 : fullAuthChain am = fullAuthChain am' := funext (fullAuthChain_mapEq hm)
  have h2 : conflictedSubgraph am (c.map (·.eventID)) = conflictedSubgraph am' (c.map (·.eventID)) :=
    funext (conflictedSubgraph_mapEq hm _)
  have h3 : resolveID am c = resolveID am' c := by
    funext id; unfold resolveID; rw [hm.2 id]
  unfold subIDs
  rw [h1, h2, h3]

theorem authDifferenceNew_congr {U : Event → Prop} (hU : EvId U) (algo : Nat) {am am' c c' : List Event}
    {sets sets' : List (List Event)}
    (hsets : ∀ s ∈ sets, ∀ x ∈ s, U x) (hsets' : ∀ s ∈ sets', ∀ x ∈ s, U x) (ham : ∀ x ∈ am, U x) (ham' : ∀ x ∈ am', U x)
    (hcU : ∀ x ∈ c, U x) (hcU' : ∀ x ∈ c', U x)
    (hm : MapEq am am') (hc : SameSet c c') (hs : SetsSim sets sets') :
    SameSet (authDifferenceNew algo am c sets) (authDifferenceNew algo am' c' sets') := by
  have _ := ham'
  rw [← authDifferenceNew_mapEq algo hm c' sets', authDifferenceNew_eq, authDifferenceNew_eq,
    ← resolveID_congr hU hcU hcU' (MapEq.refl am) hc]
  refine SameSet.filterMap _ (unionIDs_sameSet (diffIDs_sameSet (chains_sim am hs)) ?_)
  exact subIDs_sameSet hU algo am hsets hsets' ham (hc.map _) hs

theorem mem_authDifferenceNew_sub {algo : Nat} {am c : List Event} {sets : List (List Event)} {e : Event}
    (h : e ∈ authDifferenceNew algo am c sets) : e ∈ am ∨ e ∈ c := by
  rw [authDifferenceNew_eq] at h
  obtain ⟨id, _, hid⟩ := List.mem_filterMap.mp h
  unfold resolveID at hid
  split at hid
  · rename_i x hx
    cases hid
    exact Or.inl (findByID_some hx).1
  · exact Or.inr (findByID_some hid).1

theorem conflictedSubgraph_nil (am : List Event) (s : List Event) : conflictedSubgraph am [] s = [] := by
  rw [conflictedSubgraph_eq]
  have : s.filter (fun e => ([] : List ID).contains e.eventID) = [] := by simp
  rw [this]
  rfl

/-- all state sets hold the same events and nothing is conflicted: the auth difference is empty -/
theorem authDifferenceNew_all_equal (algo : Nat) (am : List Event) (sets : List (List Event))
    (h : ∀ s ∈ sets, ∀ s' ∈ sets, SameSet s s') : authDifferenceNew algo am [] sets = [] := by
  rw [authDifferenceNew_eq]
  have hids : unionIDs (diffIDs (sets.map (fullAuthChain am))) (subIDs algo am (([] : List Event).map (·.eventID)) sets) = [] := by
    rw [List.eq_nil_iff_forall_not_mem]
    intro id hid
    rcases mem_unionIDs.mp hid with hid | hid
    · obtain ⟨⟨ch, hch, hmem⟩, hn⟩ := mem_diffIDs.mp hid
      apply hn
      intro d hd
      obtain ⟨s, hs, rfl⟩ := List.mem_map.mp hch
      obtain ⟨s', hs', rfl⟩ := List.mem_map.mp hd
      exact (fullAuthChain_sameSet am (h s hs s' hs') id).mp hmem
    · obtain ⟨_, s, _, hmem⟩ := mem_subIDs.mp hid
      rw [List.map_nil, conflictedSubgraph_nil] at hmem
      cases hmem
  rw [hids]; rfl

/-! ## D. facts about the control closure used elsewhere -/

theorem authClosure_sub {am : List Event} {fuel : Nat} {fr : List Event} {seen : List ID} {id : ID}
    (h : id ∈ authClosure am fuel fr seen) : id ∈ seen ∨ ∃ e ∈ am, e.eventID = id := by
  induction fuel generalizing fr seen with
  | zero => exact Or.inl h
  | succ n ih =>
    rw [authClosure_succ] at h
    split at h
    · exact Or.inl h
    · rcases ih h with h' | h'
      · rcases List.mem_append.mp h' with h'' | h''
        · exact Or.inl h''
        · obtain ⟨x, hx, rfl⟩ := List.mem_map.mp h''
          obtain ⟨i, hi⟩ := parents_lookups am fr x (mem_nextFresh.mp hx).1
          exact Or.inr ⟨x, (findByID_some hi).1, rfl⟩
      · exact Or.inr h'

theorem nextFresh_idNodup (am : List Event) (fr : List Event) (seen : List ID) : IdNodup (nextFresh am fr seen) :=
  (eventMap_idNodup _).filter _

theorem authClosure_nodup {am : List Event} {fuel : Nat} {fr : List Event} {seen : List ID} (h : seen.Nodup) :
    (authClosure am fuel fr seen).Nodup := by
  induction fuel generalizing fr seen with
  | zero => exact h
  | succ n ih =>
    rw [authClosure_succ]
    split
    · exact h
    · apply ih
      rw [List.nodup_append]
      refine ⟨h, nextFresh_idNodup am fr seen, ?_⟩
      intro a ha b hb hab
      obtain ⟨x, hx, rfl⟩ := List.mem_map.mp hb
      exact (mem_nextFresh.mp hx).2 (hab ▸ ha)

theorem authClosure_seen_sub {am : List Event} {fuel : Nat} {fr : List Event} {seen : List ID} {id : ID}
    (h : id ∈ seen) : id ∈ authClosure am fuel fr seen := by
  induction fuel generalizing fr seen with
  | zero => exact h
  | succ n ih =>
    rw [authClosure_succ]
    split
    · exact h
    · exact ih (List.mem_append_left _ h)

theorem controlClosure_sub {cm : List Event} {fuel : Nat} {fr : List Event} {seen : List ID} {id : ID}
    (h : id ∈ controlClosure cm fuel fr seen) : id ∈ seen ∨ ∃ e ∈ cm, e.eventID = id := by
  rw [controlClosure_eq_authClosure] at h; exact authClosure_sub h

theorem controlClosure_nodup {cm : List Event} {fuel : Nat} {fr : List Event} {seen : List ID} (h : seen.Nodup) :
    (controlClosure cm fuel fr seen).Nodup := by
  rw [controlClosure_eq_authClosure]; exact authClosure_nodup h

theorem controlClosure_seen_sub {cm : List Event} {fuel : Nat} {fr : List Event} {seen : List ID} {id : ID}
    (h : id ∈ seen) : id ∈ controlClosure cm fuel fr seen := by
  rw [controlClosure_eq_authClosure]; exact authClosure_seen_sub h

end V.StateRes
