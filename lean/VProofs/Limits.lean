/- Helper definitions and lemmas about VModel.Limits (C17): the decision as a function of WHICH limits are exceeded. -/
import VModel.Limits
namespace V.Limits
open V.Ident


/-- which limits an event exceeds -/
structure Exceeds where
  json : Bool
  typeCP : Bool
  skCP : Bool
  typeB : Bool
  skB : Bool
  senderCP : Bool
  senderB : Bool
  roomCP : Bool
  roomB : Bool
  deriving DecidableEq, Repr

def exceeds (maxID maxEvent : Nat) (s : Sizes) : Exceeds :=
  { json := s.jsonLen > maxEvent, typeCP := s.typeCP > maxID, skCP := s.hasStateKey && s.skCP > maxID,
    typeB := s.typeBytes > maxID, skB := s.hasStateKey && s.skBytes > maxID,
    senderCP := s.sender.cp > maxID, senderB := s.sender.bytes > maxID,
    roomCP := s.room.cp > maxID, roomB := s.room.bytes > maxID }

def checkIDX (colon sigil cp b : Bool) : Outcome :=
  if !colon then .other else if !sigil then .other else if cp then .tooLarge else if b then .tooLargePersistable else .ok

/-- `verdict` as a function of the exceeded limits only -/
def verdictX (lenient exempt : Bool) (rc : RoomCheck) (sColon sSigil rColon rSigil rValid : Bool) (x : Exceeds) : Outcome :=
  let room : Outcome := match rc with
    | .checkID => (checkIDX rColon rSigil x.roomCP x.roomB).andThen (if rValid then Outcome.ok else Outcome.other)
    | .prefixOnly => if !rSigil then Outcome.other else if rValid then Outcome.ok else Outcome.other
  room.andThen
    (if x.json then .tooLarge else if x.typeCP then .tooLarge else if x.skCP then .tooLarge
     else if x.typeB then soft lenient else if x.skB then soft lenient
     else if exempt then .ok else checkIDX sColon sSigil x.senderCP x.senderB)

theorem verdict_eq_verdictX (p : Params) (s : Sizes) :
    verdict p s = verdictX p.lenient p.senderExempt p.roomCheck s.sender.hasColon s.sender.sigilOk
      s.room.hasColon s.room.sigilOk s.roomValid (exceeds p.maxID p.maxEvent s) := by
  obtain ⟨jl, tcp, tb, hsk, scp, sb, ⟨sc, ss, secp, seb⟩, ⟨rc, rs, rcp, rb⟩, rv⟩ := s
  obtain ⟨mi, me, le, ex, rck⟩ := p
  cases rck <;>
  simp only [verdict, verdictX, roomCheckOutcome, checkIDSize, checkIDX, checkFields, exceeds, decide_eq_true_eq,
    Bool.and_eq_true]

def Exceeds.hard (x : Exceeds) : Bool := x.json || x.typeCP || x.skCP || x.senderCP || x.roomCP
def Exceeds.softAny (x : Exceeds) : Bool := x.typeB || x.skB || x.senderB || x.roomB

def specX (wf : Bool) (x : Exceeds) : Option Outcome :=
  if !wf then none else if x.hard then some .tooLarge else if x.softAny then some .tooLargePersistable else some .ok

theorem spec_eq_specX (dl ps : Bool) (s : Sizes) :
    Spec.verdict dl ps s = specX (Spec.wellFormedIDs dl ps s) (exceeds 255 65536 s) := by
  rfl

/-- the inputs on which the order of the checks reports "persistable" although a hard limit is exceeded as well:
    a room ID over the byte limit only is reported before anything else is looked at; a type / state key over
    the byte limit only is reported before the sender is looked at -/
def Exceeds.masked (x : Exceeds) : Bool :=
  (!x.roomCP && x.roomB && (x.json || x.typeCP || x.skCP || x.senderCP)) ||
  (!x.roomCP && !x.roomB && !x.json && !x.typeCP && !x.skCP && (x.typeB || x.skB) && x.senderCP)


end V.Limits
