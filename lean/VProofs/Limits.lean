/- Helper definitions and lemmas about VModel.Limits (C17): the decision as a function of WHICH limits are exceeded. -/
import VModel.Limits
namespace V.Limits
open V.Ident


/-- which limits an event exceeds -/
structure Exceeds where
  json : Bool
  typeCP : Bool
  skCP : Bool
  typeB : Bool
  skB : Bool
  senderCP : Bool
  senderB : Bool
  roomCP : Bool
  roomB : Bool
  deriving DecidableEq, Repr

def exceeds (maxID maxEvent : Nat) (s : Sizes) : Exceeds :=
  { json := s.jsonLen > maxEvent, typeCP := s.typeCP > maxID, skCP := s.hasStateKey && s.skCP > maxID,
    typeB := s.typeBytes > maxID, skB := s.hasStateKey && s.skBytes > maxID,
    senderCP := s.sender.cp > maxID, senderB := s.sender.bytes > maxID,
    roomCP := s.room.cp > maxID, roomB := s.room.bytes > maxID }

def checkIDX (colon sigil cp b : Bool) : Outcome :=
  if !colon then .other else if !sigil then .other else if cp then .tooLarge else if b then .tooLargePersistable else .ok

def checkRoomIDFieldX (colon sigil cp b rValid : Bool) : Outcome :=
  match checkIDX colon sigil cp b with
  | .ok => if rValid then .ok else .other
  | .tooLargePersistable => .tooLarge
  | e => e

def checkFieldsX (lenient exempt sColon sSigil : Bool) (x : Exceeds) : Outcome :=
  if x.json then .tooLarge else if x.typeCP then .tooLarge else if x.skCP then .tooLarge
  else if x.senderCP then .tooLarge
  else if !exempt && !sColon then .other
  else if !exempt && !sSigil then .other
  else if x.typeB then soft lenient else if x.skB then soft lenient
  else if x.senderB then .tooLargePersistable else .ok

def roomX (rc : RoomCheck) (create rColon rSigil rValid : Bool) (x : Exceeds) : Outcome :=
  match rc with
  | .checkID => checkRoomIDFieldX rColon rSigil x.roomCP x.roomB rValid
  | .prefixOnly =>
    if create then (if x.roomCP then Outcome.tooLarge else if x.roomB then Outcome.tooLarge else Outcome.ok)
    else if !rSigil then Outcome.other else if rValid then Outcome.ok else Outcome.other

/-- `verdict` as a function of the exceeded limits only -/
def verdictX (lenient exempt : Bool) (rc : RoomCheck) (create sColon sSigil rColon rSigil rValid : Bool) (x : Exceeds) : Outcome :=
  (roomX rc create rColon rSigil rValid x).andThen (checkFieldsX lenient exempt sColon sSigil x)

/-- `verdictUntrusted`: `x` describes the event as received, `checkedJson` says whether the JSON that
    CheckFields sees (the redacted one if the hash does not match) is over the limit -/
def verdictUntrustedX (lenient exempt : Bool) (rc : RoomCheck) (create sColon sSigil rColon rSigil rValid : Bool) (x : Exceeds)
    (checkedJson : Bool) : Outcome :=
  (roomX rc create rColon rSigil rValid x).andThen
    (if x.json then .tooLarge else checkFieldsX lenient exempt sColon sSigil { x with json := checkedJson })

theorem checkFields_eq_X (p : Params) (s : Sizes) :
    checkFields p s = checkFieldsX p.lenient p.senderExempt s.sender.hasColon s.sender.sigilOk (exceeds p.maxID p.maxEvent s) := by
  obtain ⟨jl, tcp, tb, hsk, scp, sb, ⟨sc, ss, secp, seb⟩, ⟨rc, rs, rcp, rb⟩, rv, cr⟩ := s
  obtain ⟨mi, me, le, ex, rck⟩ := p
  simp only [checkFields, checkFieldsX, exceeds, decide_eq_true_eq, Bool.and_eq_true]

theorem room_eq_X (p : Params) (s : Sizes) :
    roomCheckOutcome p s = roomX p.roomCheck s.create s.room.hasColon s.room.sigilOk s.roomValid (exceeds p.maxID p.maxEvent s) := by
  obtain ⟨jl, tcp, tb, hsk, scp, sb, ⟨sc, ss, secp, seb⟩, ⟨rc, rs, rcp, rb⟩, rv, cr⟩ := s
  obtain ⟨mi, me, le, ex, rck⟩ := p
  cases rck
  · simp only [roomCheckOutcome, roomX, checkRoomIDField, checkRoomIDFieldX, checkIDSize, checkIDX, exceeds, decide_eq_true_eq]
    cases rc <;> cases rs <;> by_cases h1 : rcp > mi <;> by_cases h2 : rb > mi <;> simp [h1, h2]
  · simp only [roomCheckOutcome, roomX, exceeds, decide_eq_true_eq]

theorem verdict_eq_verdictX (p : Params) (s : Sizes) :
    verdict p s = verdictX p.lenient p.senderExempt p.roomCheck s.create s.sender.hasColon s.sender.sigilOk
      s.room.hasColon s.room.sigilOk s.roomValid (exceeds p.maxID p.maxEvent s) := by
  unfold verdict verdictX
  rw [room_eq_X, checkFields_eq_X]

theorem verdictUntrusted_eq_X (p : Params) (s : Sizes) (n : Nat) :
    verdictUntrusted p s n = verdictUntrustedX p.lenient p.senderExempt p.roomCheck s.create s.sender.hasColon s.sender.sigilOk
      s.room.hasColon s.room.sigilOk s.roomValid (exceeds p.maxID p.maxEvent s) (decide (n > p.maxEvent)) := by
  unfold verdictUntrusted verdictUntrustedX
  rw [room_eq_X, checkFields_eq_X]
  simp only [exceeds, decide_eq_true_eq]

def Exceeds.hard (x : Exceeds) : Bool := x.json || x.typeCP || x.skCP || x.senderCP || x.roomCP
def Exceeds.softAny (x : Exceeds) : Bool := x.typeB || x.skB || x.senderB || x.roomB

def specX (wf : Bool) (x : Exceeds) : Option Outcome :=
  if !wf then none else if x.hard then some .tooLarge else if x.softAny then some .tooLargePersistable else some .ok

theorem spec_eq_specX (dl ps : Bool) (s : Sizes) :
    Spec.verdict dl ps s = specX (Spec.wellFormedIDs dl ps s) (exceeds 255 65536 s) := by
  rfl

/-- the one remaining gap (KNOWN FINDING): the room ID is over the byte limit only and no hard limit is
    exceeded; the property says "too large but persistable", the code refuses (a room ID over 255 bytes is
    not a valid room ID, and the constructors return no event that could be persisted) -/
def Exceeds.roomBytesOnly (x : Exceeds) : Bool := !x.roomCP && x.roomB && !x.hard

end V.Limits
