/-
  VProofs.RedactMain — `redactObj` characterised; a second redaction returns its input.
  Core Lean only.
-/
import VProofs.RedactMaps
namespace V.RedactProofs
open V V.Json V.GoJson V.Redact

/-- what the proofs need of a (keep struct, content table) pair; decided on the regenerated tables -/
def tablesOk (a : Algo) : Bool :=
  !a.fields.any (fun f => f.kind == .unknown) &&
  foldDistinct a.fields &&
  (match typeField a.fields with
   | some tf => !tf.omitempty
   | none => false) &&
  (match contentField a.fields with
   | some cf => !cf.omitempty
   | none => false) &&
  a.ctable.all (fun e => noDupIn e.2)

structure RedactFacts (a : Algo) (kvs : Obj) (tf cf : Field) : Prop where
  htf : typeField a.fields = some tf
  hcf : contentField a.fields = some cf
  noUnknown : a.fields.any (fun f => f.kind == .unknown) = false
  terr : (decType tf.name kvs).err = false
  cerr : (decContent cf.name kvs).err = false
  ccls : (decContent cf.name kvs).cls = .ok
  tutf : utf8Valid (decType tf.name kvs).val = true
  cmod : contentModelled (newContent a.ctable (decType tf.name kvs).val (decContent cf.name kvs).val) = true
  mok : marshalOk a.fields kvs = true

/-- the output `redactObj` computes once its checks have passed -/
def outputOf (a : Algo) (kvs : Obj) (tf cf : Field) : Obj :=
  a.fields.flatMap (emitField kvs (decType tf.name kvs).val
    (newContent a.ctable (decType tf.name kvs).val (decContent cf.name kvs).val))

theorem redactObj_ok {a : Algo} {kvs : Obj} {v : JVal} (h : redactObj a kvs = .ok v) :
    ∃ tf cf, RedactFacts a kvs tf cf ∧ v = .obj (outputOf a kvs tf cf) := by
  unfold redactObj at h
  split at h
  · cases h
  · rename_i hunk
    split at h
    · rename_i tf cf htf hcf
      simp only at h
      split at h
      · cases h
      · rename_i h1
        split at h
        · cases h
        · rename_i h2
          split at h
          · cases h
          · rename_i h3
            split at h
            · cases h
            · rename_i h4
              split at h
              · cases h
              · rename_i h5
                refine ⟨tf, cf, ⟨htf, hcf, ?_, ?_, ?_, ?_, ?_, ?_, ?_⟩, ?_⟩
                · simpa using hunk
                · simp only [Bool.or_eq_true, not_or, Bool.not_eq_true] at h1; exact h1.1.1
                · simp only [Bool.or_eq_true, not_or, Bool.not_eq_true] at h1; exact h1.1.2
                · simp only [Bool.or_eq_true, not_or, Bool.not_eq_true, beq_iff_eq] at h1 h2
                  cases hc : (decContent cf.name kvs).cls
                  · rfl
                  · simp [hc] at h1
                  · simp [hc] at h2
                · simpa using h3
                · simpa using h4
                · simpa using h5
                · cases h; rfl
    · cases h

theorem redactObj_of {a : Algo} {kvs : Obj} {tf cf : Field} (F : RedactFacts a kvs tf cf) :
    redactObj a kvs = .ok (.obj (outputOf a kvs tf cf)) := by
  unfold redactObj
  rw [if_neg (by simp [F.noUnknown])]
  simp only [F.htf, F.hcf]
  rw [if_neg (by simp [F.terr, F.cerr, F.ccls])]
  rw [if_neg (by simp [F.ccls])]
  rw [if_neg (by simp [F.tutf])]
  rw [if_neg (by simp [F.cmod])]
  rw [if_neg (by simp [F.mok])]
  rfl

end V.RedactProofs

namespace V.RedactProofs
open V V.Json V.GoJson V.Redact

/-! ## invariants of the content decoder -/

theorem contentStep_nodup (acc : ContentDec) (kv : Bytes × JVal)
    (h : ∀ m, acc.val = some m → (keysOf m).Nodup) : ∀ m, (contentStep acc kv).val = some m → (keysOf m).Nodup := by
  intro m hm
  unfold contentStep at hm
  split at hm
  · rename_i m0 _
    simp only [Option.some.injEq] at hm
    subst hm
    apply mergeInto_nodup
    cases hv : acc.val with
    | none => simp [keysOf]
    | some x => simpa using h x hv
  · cases hm
  · exact h m hm

theorem foldl_contentStep_nodup (l : Obj) (acc : ContentDec)
    (h : ∀ m, acc.val = some m → (keysOf m).Nodup) : ∀ m, (l.foldl contentStep acc).val = some m → (keysOf m).Nodup := by
  induction l generalizing acc with
  | nil => exact h
  | cons kv rest ih => exact ih _ (contentStep_nodup acc kv h)

theorem decContent_nodup (name : Bytes) (kvs : Obj) (m : Obj) (h : (decContent name kvs).val = some m) :
    (keysOf m).Nodup := by
  rw [decContent_sel] at h
  exact foldl_contentStep_nodup _ {} (fun m hm => by cases hm) m h

theorem mapGet_mem {α : Type} (t : List (Bytes × α)) (k : Bytes) (v : α) (h : mapGet t k = some v) : ∃ k', (k', v) ∈ t := by
  unfold mapGet at h
  cases hf : t.find? (fun kv => kv.1 == k) with
  | none => simp [hf] at h
  | some kv =>
    simp [hf] at h
    exact ⟨kv.1, by rw [← h]; exact List.mem_of_find?_eq_some hf⟩

theorem newContent_nodup (a : Algo) (hT : a.ctable.all (fun e => noDupIn e.2) = true) (ty : Bytes) (c : Option Obj)
    (hc : ∀ m, c = some m → (keysOf m).Nodup) : ∀ m, newContent a.ctable ty c = some m → (keysOf m).Nodup := by
  intro m hm
  unfold newContent at hm
  cases hct : mapGet a.ctable ty with
  | none =>
    rw [hct] at hm
    simp only [Option.some.injEq] at hm
    subst hm
    simp [keysOf]
  | some keys =>
    rw [hct] at hm
    cases keys with
    | nil => exact hc m hm
    | cons k ks =>
      simp only [Option.some.injEq] at hm
      subst hm
      apply filterMap_keys_nodup
      obtain ⟨k', hmem⟩ := mapGet_mem a.ctable ty (k :: ks) hct
      have := List.all_eq_true.mp hT _ hmem
      exact (noDupIn_iff_nodup (k :: ks)).mp this

theorem filterMap_congr' {α β : Type} (l : List α) (f g : α → Option β) (h : ∀ x ∈ l, f x = g x) :
    l.filterMap f = l.filterMap g := by
  induction l with
  | nil => rfl
  | cons x xs ih =>
    simp only [List.filterMap_cons, h x List.mem_cons_self, ih (fun y hy => h y (List.mem_cons_of_mem _ hy))]

theorem newContent_idem (ct : CTable) (ty : Bytes) (c : Option Obj) :
    newContent ct ty (newContent ct ty c) = newContent ct ty c := by
  unfold newContent
  cases hct : mapGet ct ty with
  | none => rfl
  | some keys =>
    cases keys with
    | nil => rfl
    | cons k ks =>
      simp only [Option.getD_some, Option.some.injEq]
      apply filterMap_congr'
      intro x hx
      rw [mapGet_filterMap (k :: ks) (fun k' => mapGet (c.getD []) k') x, if_pos hx]

/-! ## a second redaction returns its input -/

theorem typeField_mem {fs : List Field} {tf : Field} (h : typeField fs = some tf) : tf ∈ fs ∧ tf.kind = .str := by
  unfold typeField at h
  exact ⟨List.mem_of_find?_eq_some h, by simpa using List.find?_some h⟩

theorem contentField_mem {fs : List Field} {cf : Field} (h : contentField fs = some cf) : cf ∈ fs ∧ cf.kind = .map := by
  unfold contentField at h
  exact ⟨List.mem_of_find?_eq_some h, by simpa using List.find?_some h⟩

theorem tablesOk_parts {a : Algo} (h : tablesOk a = true) :
    foldDistinct a.fields = true ∧ a.ctable.all (fun e => noDupIn e.2) = true ∧
    (∀ tf, typeField a.fields = some tf → tf.omitempty = false) ∧
    (∀ cf, contentField a.fields = some cf → cf.omitempty = false) := by
  simp only [tablesOk, Bool.and_eq_true] at h
  obtain ⟨⟨⟨⟨_, h2⟩, h3⟩, h4⟩, h5⟩ := h
  refine ⟨h2, h5, ?_, ?_⟩
  · intro tf htf; rw [htf] at h3; simpa using h3
  · intro cf hcf; rw [hcf] at h4; simpa using h4

/-- what the second pass reads back -/
structure ReadBack (a : Algo) (kvs : Obj) (tf cf : Field) : Prop where
  type : decType tf.name (outputOf a kvs tf cf) = ⟨(decType tf.name kvs).val, false⟩
  cval : (decContent cf.name (outputOf a kvs tf cf)).val = newContent a.ctable (decType tf.name kvs).val (decContent cf.name kvs).val
  cerr : (decContent cf.name (outputOf a kvs tf cf)).err = false
  ccls : (decContent cf.name (outputOf a kvs tf cf)).cls = .ok
  raw : ∀ f ∈ a.fields, f.kind = .raw → lookupField (outputOf a kvs tf cf) f.name = lookupField kvs f.name

theorem readBack {a : Algo} {kvs : Obj} {tf cf : Field} (hT : tablesOk a = true) (F : RedactFacts a kvs tf cf) :
    ReadBack a kvs tf cf := by
  obtain ⟨hdist, hkeys, htfo, hcfo⟩ := tablesOk_parts hT
  obtain ⟨htfm, htfk⟩ := typeField_mem F.htf
  obtain ⟨hcfm, hcfk⟩ := contentField_mem F.hcf
  have hE : ∀ g, ∀ kv ∈ emitField kvs (decType tf.name kvs).val
      (newContent a.ctable (decType tf.name kvs).val (decContent cf.name kvs).val) g, kv.1 = g.name :=
    fun g kv hkv => emitField_name hkv
  have hsel : ∀ f ∈ a.fields, sel f.name (outputOf a kvs tf cf) = emitField kvs (decType tf.name kvs).val
      (newContent a.ctable (decType tf.name kvs).val (decContent cf.name kvs).val) f :=
    fun f hf => sel_flatMap_emit _ hE a.fields hdist f hf
  refine ⟨?_, ?_, ?_, ?_, ?_⟩
  · rw [decType_sel, hsel tf htfm]
    simp [emitField, htfk, htfo tf F.htf, typeStep]
  · rw [decContent_sel, hsel cf hcfm]
    simp only [emitField, hcfk, hcfo cf F.hcf]
    cases hnc : newContent a.ctable (decType tf.name kvs).val (decContent cf.name kvs).val with
    | none => simp [contentStep]
    | some m =>
      have hnd := newContent_nodup a hkeys _ _ (fun m hm => decContent_nodup cf.name kvs m hm) m hnc
      simp [contentStep, mergeInto_nil_of_nodup m hnd]
  · rw [decContent_sel, hsel cf hcfm]
    simp only [emitField, hcfk, hcfo cf F.hcf]
    cases hnc : newContent a.ctable (decType tf.name kvs).val (decContent cf.name kvs).val with
    | none => simp [contentStep]
    | some m => simp [contentStep]
  · rw [decContent_sel, hsel cf hcfm]
    simp only [emitField, hcfk, hcfo cf F.hcf]
    cases hnc : newContent a.ctable (decType tf.name kvs).val (decContent cf.name kvs).val with
    | none => simp [contentStep]
    | some m =>
      have hcm := F.cmod
      rw [hnc] at hcm
      simp only [contentModelled, Option.getD_some, List.all_eq_true, Bool.and_eq_true] at hcm
      have := floatScanMembers_of_all m (fun kv hkv => (hcm kv hkv).2)
      simp [contentStep, this, NumClass.worst]
  · intro f hf hk
    rw [lookupField_sel, hsel f hf]
    simp only [emitField, hk]
    cases hl : lookupField kvs f.name <;> simp

theorem outputOf_idem {a : Algo} {kvs : Obj} {tf cf : Field} (hT : tablesOk a = true) (F : RedactFacts a kvs tf cf) :
    RedactFacts a (outputOf a kvs tf cf) tf cf ∧ outputOf a (outputOf a kvs tf cf) tf cf = outputOf a kvs tf cf := by
  have R := readBack hT F
  have hty : (decType tf.name (outputOf a kvs tf cf)).val = (decType tf.name kvs).val := by rw [R.type]
  have hnc : newContent a.ctable (decType tf.name (outputOf a kvs tf cf)).val (decContent cf.name (outputOf a kvs tf cf)).val =
      newContent a.ctable (decType tf.name kvs).val (decContent cf.name kvs).val := by
    rw [hty, R.cval, newContent_idem]
  constructor
  · refine ⟨F.htf, F.hcf, F.noUnknown, by rw [R.type], R.cerr, R.ccls, by rw [hty]; exact F.tutf, by rw [hnc]; exact F.cmod, ?_⟩
    -- marshalOk
    have hm := F.mok
    simp only [marshalOk, List.all_eq_true] at hm ⊢
    intro f hf
    have := hm f hf
    by_cases hk : f.kind = .raw
    · rw [R.raw f hf hk]; exact this
    · simp [hk]
  · have hdef : outputOf a (outputOf a kvs tf cf) tf cf =
        a.fields.flatMap (emitField (outputOf a kvs tf cf) (decType tf.name (outputOf a kvs tf cf)).val
          (newContent a.ctable (decType tf.name (outputOf a kvs tf cf)).val (decContent cf.name (outputOf a kvs tf cf)).val)) := rfl
    rw [hdef, hnc, hty]
    show _ = a.fields.flatMap _
    apply flatMap_congr'
    intro f hf
    unfold emitField
    cases hk : f.kind with
    | raw => simp only; rw [R.raw f hf hk]
    | str => rfl
    | map => rfl
    | unknown => rfl

/-- `redactObj` is idempotent: redacting its output succeeds and returns the output unchanged. -/
theorem redactObj_idem {a : Algo} (hT : tablesOk a = true) {kvs : Obj} {v : JVal} (h : redactObj a kvs = .ok v) :
    ∃ r, v = .obj r ∧ redactObj a r = .ok (.obj r) := by
  obtain ⟨tf, cf, F, hv⟩ := redactObj_ok h
  obtain ⟨F', hout⟩ := outputOf_idem hT F
  refine ⟨_, hv, ?_⟩
  have := redactObj_of F'
  rw [hout] at this
  exact this

end V.RedactProofs
