/-
  Version 1 state resolution: the former counter-example to order independence, as concrete events.

  An auth event (`AJ`, @a:x's join) is supplied for a slot that is also conflicted (`a1`, `a2`).  Before the library
  was fixed, `resolveAuthBlock` left that slot EMPTY after resolving the @a:x block, so the @b:x block (whose candidate
  `b2` is an invite sent by @a:x) was judged differently depending on whether it came before or after the @a:x block:
      resolveV1 id [a1, a2, b1, b2] [C, AJ]  gave  [$a2, $b1]
      resolveV1 id [b1, b2, a1, a2] [C, AJ]  gave  [$b2, $a2]          (#eval on the model before the fix)
  Now the previous occupant of the slot is put back, and both orders give {$a2, $b2}.
  The examples are checked by kernel evaluation of the executable model (`decide +kernel`: plain kernel reduction, no compiled code).
-/
import VProofs.StateResV1g
namespace V.StateRes.V1Ex
open V Json GoJson Auth List V.StateRes

/-- a room-version-1 state event in room `!r:x` (depth = origin_server_ts; no prev / auth events listed) -/
def mk (id type sk sender : Bytes) (depth : Bytes) (content : List (Bytes × JVal)) : Event :=
  { ver := b!"1", eventID := id,
    obj := [(b!"type", .str type), (b!"state_key", .str sk), (b!"sender", .str sender), (b!"room_id", .str b!"!r:x"),
            (b!"depth", .num depth), (b!"origin_server_ts", .num depth), (b!"content", .obj content),
            (b!"prev_events", .arr []), (b!"auth_events", .arr [])] }

def C : Event := mk b!"$c" b!"m.room.create" b!"" b!"@a:x" b!"1" [(b!"creator", .str b!"@a:x")]
/-- supplied auth event: @a:x has joined -/
def AJ : Event := mk b!"$aj" b!"m.room.member" b!"@a:x" b!"@a:x" b!"2" [(b!"membership", .str b!"join")]
/-- two conflicting member events of @a:x -/
def a1 : Event := mk b!"$a1" b!"m.room.member" b!"@a:x" b!"@a:x" b!"5" [(b!"membership", .str b!"join"), (b!"displayname", .str b!"A")]
def a2 : Event := mk b!"$a2" b!"m.room.member" b!"@a:x" b!"@a:x" b!"6" [(b!"membership", .str b!"join"), (b!"displayname", .str b!"AA")]
/-- two conflicting member events of @b:x: a leave, and an invite sent by @a:x (allowed only while @a:x is joined) -/
def b1 : Event := mk b!"$b1" b!"m.room.member" b!"@b:x" b!"@b:x" b!"3" [(b!"membership", .str b!"leave")]
def b2 : Event := mk b!"$b2" b!"m.room.member" b!"@b:x" b!"@a:x" b!"4" [(b!"membership", .str b!"invite")]

/-- the supplied auth event `AJ` occupies the slot of the conflicted events `a1`, `a2` (the former hypothesis P2 fails) -/
theorem ex_not_P2 : AJ.stateKey.isSome ∧ a1.stateKey.isSome ∧ keyOf AJ = keyOf a1 := by decide

/-- the invite `b2` passes the auth checks only while @a:x's membership is known -/
theorem ex_b2_allowed : allowedFresh b2 (Provider.ofEvents [C, AJ, b1]) false = .ok ∧
    allowedFresh b2 (Provider.ofEvents [C, b1]) false = .notAllowed := by decide +kernel

theorem ex_order1 : (resolveV1 id [a1, a2, b1, b2] [C, AJ]).map (·.eventID) = [b!"$a2", b!"$b2"] := by decide +kernel

theorem ex_order2 : (resolveV1 id [b1, b2, a1, a2] [C, AJ]).map (·.eventID) = [b!"$b2", b!"$a2"] := by decide +kernel

/-- the two arrangements now resolve to the same events -/
theorem ex_orders_perm :
    (resolveV1 id [a1, a2, b1, b2] [C, AJ]).map (·.eventID) ~ (resolveV1 id [b1, b2, a1, a2] [C, AJ]).map (·.eventID) := by
  rw [ex_order1, ex_order2]
  exact Perm.swap _ _ _

/-! ## the remaining hypotheses of `v1_perm_invariant` hold here (non-vacuity) -/

/-- P1 for the supplied auth events -/
theorem ex_P1 : ∀ a ∈ [C, AJ], ∀ b ∈ [C, AJ], a.stateKey.isSome → keyOf a = keyOf b → b.stateKey.isSome → a = b := by
  intro a ha b hb _ hk _
  simp only [List.mem_cons, List.not_mem_nil, or_false] at ha hb
  rcases ha with rfl | rfl <;> rcases hb with rfl | rfl <;> first | rfl | exact absurd hk (by decide)

/-- P3 for the conflicted events (with the identity as "sha1"): candidates of one slot differ in depth -/
theorem ex_P3 : ∀ a ∈ [a1, a2, b1, b2], ∀ b ∈ [a1, a2, b1, b2], a.stateKey.isSome → b.stateKey.isSome → keyOf a = keyOf b →
    a.depth = b.depth → id a.eventID = id b.eventID → a = b := by
  intro a ha b hb _ _ _ hd _
  simp only [List.mem_cons, List.not_mem_nil, or_false] at ha hb
  rcases ha with rfl | rfl | rfl | rfl <;> rcases hb with rfl | rfl | rfl | rfl <;>
    first | rfl | exact absurd hd (by decide)

/-- the premises of P1 / P3 are not vacuous: two different conflicted events share a slot -/
theorem ex_P3_nontrivial : a1.stateKey.isSome ∧ a2.stateKey.isSome ∧ keyOf a1 = keyOf a2 ∧ a1.depth ≠ a2.depth := by decide

/-- the general theorem applies: conflicted events rearranged, auth events rearranged and repeated -/
theorem ex_invariant : resolveV1 id [a1, a2, b1, b2] [C, AJ] ~ resolveV1 id [b1, b2, a1, a2] [AJ, C, AJ] := by
  refine v1_perm_invariant id (conflicted := [a1, a2] ++ [b1, b2]) List.perm_append_comm ?_ ex_P1 ex_P3
  intro x
  simp only [List.mem_cons, List.not_mem_nil, or_false]
  constructor
  · rintro (h | h)
    · exact Or.inr (Or.inl h)
    · exact Or.inl h
  · rintro (h | h | h)
    · exact Or.inr h
    · exact Or.inl h
    · exact Or.inr h

end V.StateRes.V1Ex
