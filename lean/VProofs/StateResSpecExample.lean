/-
  C10: a concrete, non-trivial instance of the hypotheses of the C10 theorems (well-formed state sets, ranked auth
  graph): a room-version-10 room with create / join / power-levels events agreed by both state sets and two
  competing topic events.  The closed facts about concrete events are checked by kernel evaluation
  (`decide +kernel`: no axioms beyond the usual three).  Core only.
-/
import VModel.StateResSpec
namespace V.StateResSpec.Example
open V Json V.StateRes V.StateResSpec

def mk (id type : Bytes) (sk : Bytes) (sender : Bytes) (ts : Bytes) (auth : List Bytes) (content : JVal) : Event :=
  { ver := b!"10", eventID := id,
    obj := [(b!"type", .str type), (b!"state_key", .str sk), (b!"sender", .str sender), (b!"room_id", .str b!"!r:h"),
            (b!"origin_server_ts", .num ts), (b!"depth", .num b!"1"),
            (b!"auth_events", .arr (auth.map .str)), (b!"prev_events", .arr []), (b!"content", content)] }

def eC := mk b!"$c" b!"m.room.create" [] b!"@u:h" b!"1" [] (.obj [(b!"creator", .str b!"@u:h"), (b!"room_version", .str b!"10")])
def eM := mk b!"$m" b!"m.room.member" b!"@u:h" b!"@u:h" b!"2" [b!"$c"] (.obj [(b!"membership", .str b!"join")])
def eP := mk b!"$p" b!"m.room.power_levels" [] b!"@u:h" b!"3" [b!"$c", b!"$m"] (.obj [(b!"users", .obj [(b!"@u:h", .num b!"100")])])
def eA := mk b!"$a" b!"m.room.topic" [] b!"@u:h" b!"5" [b!"$c", b!"$m", b!"$p"] (.obj [(b!"topic", .str b!"A")])
def eB := mk b!"$b" b!"m.room.topic" [] b!"@u:h" b!"4" [b!"$c", b!"$m", b!"$p"] (.obj [(b!"topic", .str b!"B")])

/-- two state sets that agree on create / member / power levels and differ on the topic -/
def exSets : List (List Event) := [[eC, eM, eP, eA], [eC, eM, eP, eB]]
def exAuth : List Event := [eC, eM, eP]

theorem mem_all {x : Event} (h : x ∈ exSets.flatten ++ exAuth) : x = eC ∨ x = eM ∨ x = eP ∨ x = eA ∨ x = eB := by
  simp [exSets, exAuth] at h
  rcases h with h | h | h | h | h | h | h | h | h | h | h <;> simp [h]

theorem id_inj {x y : Event} (hx : x = eC ∨ x = eM ∨ x = eP ∨ x = eA ∨ x = eB)
    (hy : y = eC ∨ y = eM ∨ y = eP ∨ y = eA ∨ y = eB) (h : x.eventID = y.eventID) : x = y := by
  rcases hx with rfl | rfl | rfl | rfl | rfl <;> rcases hy with rfl | rfl | rfl | rfl | rfl <;>
    first | rfl | exact absurd h (by decide)

theorem key_C : keyOf eC = some (b!"m.room.create", []) := by decide +kernel
theorem key_M : keyOf eM = some (b!"m.room.member", b!"@u:h") := by decide +kernel
theorem key_P : keyOf eP = some (b!"m.room.power_levels", []) := by decide +kernel
theorem key_A : keyOf eA = some (b!"m.room.topic", []) := by decide +kernel
theorem key_B : keyOf eB = some (b!"m.room.topic", []) := by decide +kernel

theorem ne_of_id {x y : Event} (h : x.eventID ≠ y.eventID) : x ≠ y := fun e => h (by rw [e])

theorem nodup_of_ids {l : List Event} (h : (l.map (·.eventID)).Nodup) : l.Nodup := by
  rw [List.nodup_iff_pairwise_ne, List.pairwise_map] at h
  exact h.imp (fun {a b} hne heq => hne (congrArg Event.eventID heq))

theorem stateMap1 : IsStateMap [eC, eM, eP, eA] := by
  constructor
  · exact nodup_of_ids (by decide)
  · intro a ha b hb _ hk
    simp only [List.mem_cons, List.not_mem_nil, or_false] at ha hb
    rcases ha with rfl | rfl | rfl | rfl <;> rcases hb with rfl | rfl | rfl | rfl <;>
      first | rfl | (simp only [key_C, key_M, key_P, key_A] at hk; exact absurd hk (by decide))

theorem stateMap2 : IsStateMap [eC, eM, eP, eB] := by
  constructor
  · exact nodup_of_ids (by decide)
  · intro a ha b hb _ hk
    simp only [List.mem_cons, List.not_mem_nil, or_false] at ha hb
    rcases ha with rfl | rfl | rfl | rfl <;> rcases hb with rfl | rfl | rfl | rfl <;>
      first | rfl | (simp only [key_C, key_M, key_P, key_B] at hk; exact absurd hk (by decide))

/-- the example input is well-formed -/
theorem exWF : WF exSets exAuth where
  ids := fun _ _ ha hb h => id_inj (mem_all ha) (mem_all hb) h
  maps := by
    intro S hS
    simp only [exSets, List.mem_cons, List.not_mem_nil, or_false] at hS
    rcases hS with rfl | rfl
    · exact stateMap1
    · exact stateMap2

theorem auth_C : eC.authEventIDs = [] := by decide +kernel
theorem auth_M : eM.authEventIDs = [b!"$c"] := by decide +kernel
theorem auth_P : eP.authEventIDs = [b!"$c", b!"$m"] := by decide +kernel
theorem auth_A : eA.authEventIDs = [b!"$c", b!"$m", b!"$p"] := by decide +kernel
theorem auth_B : eB.authEventIDs = [b!"$c", b!"$m", b!"$p"] := by decide +kernel

def exRank (id : ID) : Nat :=
  if id = b!"$c" then 0 else if id = b!"$m" then 1 else if id = b!"$p" then 2 else 3

/-- its auth graph is ranked (acyclic) -/
theorem exRanked : Ranked (exSets.flatten ++ exAuth) := by
  refine ⟨exRank, ?_⟩
  intro e he p hp
  rcases mem_all he with rfl | rfl | rfl | rfl | rfl
  · rw [auth_C] at hp; cases hp
  · rw [auth_M] at hp; simp at hp; subst hp; decide
  · rw [auth_P] at hp; simp at hp; rcases hp with rfl | rfl <;> decide
  · rw [auth_A] at hp; simp at hp; rcases hp with rfl | rfl | rfl <;> decide
  · rw [auth_B] at hp; simp at hp; rcases hp with rfl | rfl | rfl <;> decide

/-- the instance is not trivial: the two topic events are conflicted -/
theorem exConflicted : Conflicted exSets eA := by
  refine ⟨⟨_, List.mem_cons_self, by simp⟩, by rw [key_A]; simp, ?_⟩
  rintro ⟨_, k, hk⟩
  have h1 : keyOf eA = some k := ((hk _ List.mem_cons_self eA).mpr rfl).2
  have hk' : k = (b!"m.room.topic", []) := by rw [key_A] at h1; exact (Option.some.inj h1).symm
  subst hk'
  have : eB = eA := (hk [eC, eM, eP, eB] (by simp [exSets]) eB).mp ⟨by simp, key_B⟩
  exact absurd this (ne_of_id (by decide))

/-! ## Version 1: the order of the member blocks does not matter (any more)

  Room version 1; `$A0`: @a joined; conflicted: two further joins of @a (`A1`, `A2`) and two invites of @b SENT BY @a
  (`B1`, `B2`); auth events: create, creator's join, public join rules, `A0`.  Before the fix of `resolveAuthBlock`
  (which used to clear the winner's slot until the phase was over, dropping `A0`) the @b block saw "@a has no
  membership" iff the @a block was resolved first, and the Go code answered `nondet:…$B1…|…$B2…` on this input;
  now every block leaves the registered events as it found them and both orders give `$A2`, `$B2`. -/

def mk1 (id type : Bytes) (sk : Bytes) (sender : Bytes) (depth : Bytes) (auth : List Bytes) (content : JVal) : Event :=
  { ver := b!"1", eventID := id,
    obj := [(b!"type", .str type), (b!"state_key", .str sk), (b!"sender", .str sender), (b!"room_id", .str b!"!r:h"),
            (b!"origin_server_ts", .num depth), (b!"depth", .num depth),
            (b!"auth_events", .arr (auth.map (fun a => .arr [.str a, .obj []]))), (b!"prev_events", .arr []), (b!"content", content)] }

def memb (m : Bytes) : JVal := .obj [(b!"membership", .str m)]
def vC  := mk1 b!"$C:h" b!"m.room.create" [] b!"@c:h" b!"1" [] (.obj [(b!"creator", .str b!"@c:h")])
def vJC := mk1 b!"$JC:h" b!"m.room.member" b!"@c:h" b!"@c:h" b!"2" [b!"$C:h"] (memb b!"join")
def vJR := mk1 b!"$JR:h" b!"m.room.join_rules" [] b!"@c:h" b!"3" [b!"$C:h", b!"$JC:h"] (.obj [(b!"join_rule", .str b!"public")])
def vA0 := mk1 b!"$A0:h" b!"m.room.member" b!"@a:h" b!"@a:h" b!"4" [b!"$C:h", b!"$JR:h"] (memb b!"join")
def vA1 := mk1 b!"$A1:h" b!"m.room.member" b!"@a:h" b!"@a:h" b!"5" [b!"$C:h", b!"$JR:h", b!"$A0:h"] (memb b!"join")
def vA2 := mk1 b!"$A2:h" b!"m.room.member" b!"@a:h" b!"@a:h" b!"6" [b!"$C:h", b!"$JR:h", b!"$A0:h"] (memb b!"join")
def vB1 := mk1 b!"$B1:h" b!"m.room.member" b!"@b:h" b!"@a:h" b!"7" [b!"$C:h", b!"$JR:h", b!"$A0:h"] (memb b!"invite")
def vB2 := mk1 b!"$B2:h" b!"m.room.member" b!"@b:h" b!"@a:h" b!"8" [b!"$C:h", b!"$JR:h", b!"$A0:h"] (memb b!"invite")
def vAuth : List Event := [vC, vJC, vJR, vA0]

/-- the same conflicted events, presented in two orders, resolve to the same events (kernel-evaluated on the model;
    the Go code answers `$A2:h,$B2:h,$C:h,$JC:h,$JR:h` on the corresponding op line) -/
theorem v1_former_counterexample :
    ((resolveV1 (fun id => id) [vA1, vA2, vB1, vB2] vAuth).map (·.eventID),
     (resolveV1 (fun id => id) [vB1, vB2, vA1, vA2] vAuth).map (·.eventID)) =
      ([b!"$A2:h", b!"$B2:h"], [b!"$B2:h", b!"$A2:h"]) := by decide +kernel

end V.StateResSpec.Example
