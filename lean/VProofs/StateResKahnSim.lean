/-
  Kahn's algorithm of VModel.StateRes (`kahn`, `kahnLoop`): named pieces, the de-duplicated node list,
  the in-degree table (as a lookup function), and the loop, with the facts needed to show that the
  result does not depend on the order or duplication of the input (StateResKahnSim2.lean).  Core only.
-/
import VProofs.StateResBasic
import VProofs.StateResSort
namespace V.StateRes
open V Json GoJson Auth List

/-! ## The pieces of `kahn` / `kahnLoop`, by name -/

def kahnDedupStep {κ} (acc : List (KNode κ)) (n : KNode κ) : List (KNode κ) :=
  if acc.any (fun m => m.ev.eventID == n.ev.eventID) then acc else acc ++ [n]

/-- the node list with duplicates (same event ID) removed, first occurrence kept -/
def kNodes {κ} (nodes0 : List (KNode κ)) : List (KNode κ) := nodes0.foldl kahnDedupStep []

def kBump (deg : List (ID × Nat)) (id : ID) (by_ : Nat) : List (ID × Nat) :=
  if (deg.find? (fun d => d.1 == id)).isSome then deg.map (fun d => if d.1 == id then (d.1, d.2 + by_) else d)
  else deg ++ [(id, by_)]

def kahnInDeg {κ} (parents : Event → List ID) (nodes : List (KNode κ)) : List (ID × Nat) :=
  nodes.foldl (fun deg n => (parents n.ev).foldl (fun d pid => kBump d pid 1) (kBump deg n.ev.eventID 0)) []

/-- lookup in an in-degree table -/
def kDegOf (deg : List (ID × Nat)) (id : ID) : Option Nat := (deg.find? (fun d => d.1 == id)).map (·.2)

def kahnZero {κ} (inDeg : List (ID × Nat)) (nodes : List (KNode κ)) : List (KNode κ) :=
  nodes.filter (fun n => kDegOf inDeg n.ev.eventID == some 0)

def kahnRemaining {κ} (inDeg : List (ID × Nat)) (nodes : List (KNode κ)) : List (KNode κ) :=
  nodes.filter (fun n => !(kDegOf inDeg n.ev.eventID == some 0))

def kahnOut {κ} (lt : κ → κ → Bool) (r : List (KNode κ) × List (KNode κ)) : List Event :=
  ((sortBy (fun a b => lt a.key b.key) r.1) ++ r.2).map (·.ev)

theorem kahn_eq {κ} (lt : κ → κ → Bool) (parents : Event → List ID) (nodes0 : List (KNode κ)) :
    kahn lt parents nodes0 =
      kahnOut lt (kahnLoop lt parents ((kNodes nodes0).length + 1)
        (kahnRemaining (kahnInDeg parents (kNodes nodes0)) (kNodes nodes0))
        (kahnInDeg parents (kNodes nodes0))
        (sortBy (fun a b => lt a.key b.key) (kahnZero (kahnInDeg parents (kNodes nodes0)) (kNodes nodes0))) []) := rfl

/-- decrement every entry for `pid` -/
def decMap (deg : List (ID × Nat)) (pid : ID) : List (ID × Nat) :=
  deg.map (fun d => if d.1 == pid then (d.1, d.2 - 1) else d)

/-- the inner-fold step of `kahnLoop` (lambda copied verbatim) -/
def kDecStep {κ} (acc : List (ID × Nat) × List (KNode κ) × List (KNode κ)) (pid : ID) :
    List (ID × Nat) × List (KNode κ) × List (KNode κ) :=
  let (deg, rem, ni) := acc
  let deg' := deg.map (fun d => if d.1 == pid then (d.1, d.2 - 1) else d)
  let now := (deg'.find? (fun d => d.1 == pid)).map (·.2)
  if now == some 0 then
    match rem.find? (fun n => n.ev.eventID == pid) with
    | some n => (deg', rem.filter (fun m => m.ev.eventID != pid), ni ++ [n])
    | none => (deg', rem, ni)
  else (deg', rem, ni)

theorem kDecStep_eq {κ} (deg : List (ID × Nat)) (rem ni : List (KNode κ)) (pid : ID) :
    kDecStep (deg, rem, ni) pid =
      if kDegOf (decMap deg pid) pid == some 0 then
        match rem.find? (fun n => n.ev.eventID == pid) with
        | some n => (decMap deg pid, rem.filter (fun m => m.ev.eventID != pid), ni ++ [n])
        | none => (decMap deg pid, rem, ni)
      else (decMap deg pid, rem, ni) := rfl

theorem kahnLoop_zero_eq {κ} (lt : κ → κ → Bool) (parents : Event → List ID) (rem : List (KNode κ)) (deg : List (ID × Nat))
    (ni graph : List (KNode κ)) : kahnLoop lt parents 0 rem deg ni graph = (rem, graph) := rfl

theorem kahnLoop_succ {κ} (lt : κ → κ → Bool) (parents : Event → List ID) (fuel : Nat) (rem : List (KNode κ))
    (deg : List (ID × Nat)) (ni graph : List (KNode κ)) :
    kahnLoop lt parents (fuel + 1) rem deg ni graph =
      match ni.reverse with
      | [] => (rem, graph)
      | node :: restRev =>
        kahnLoop lt parents fuel ((parents node.ev).foldl kDecStep (deg, rem, restRev.reverse)).2.1
          ((parents node.ev).foldl kDecStep (deg, rem, restRev.reverse)).1
          (sortBy (fun a b => lt a.key b.key) ((parents node.ev).foldl kDecStep (deg, rem, restRev.reverse)).2.2)
          (node :: graph) := rfl

/-! ## De-duplication: first node per event ID -/

theorem kahnDedup_mem {κ} {l acc : List (KNode κ)} {n : KNode κ} (h : n ∈ l.foldl kahnDedupStep acc) : n ∈ acc ∨ n ∈ l := by
  induction l generalizing acc with
  | nil => exact Or.inl h
  | cons a as ih =>
    rw [List.foldl_cons] at h
    rcases ih h with h' | h'
    · unfold kahnDedupStep at h'
      split at h'
      · exact Or.inl h'
      · rcases List.mem_append.mp h' with h'' | h''
        · exact Or.inl h''
        · exact Or.inr (by simp_all)
    · exact Or.inr (List.mem_cons_of_mem _ h')

theorem kahnDedup_acc_sub {κ} {l acc : List (KNode κ)} {n : KNode κ} (h : n ∈ acc) : n ∈ l.foldl kahnDedupStep acc := by
  induction l generalizing acc with
  | nil => exact h
  | cons a as ih =>
    rw [List.foldl_cons]; apply ih
    unfold kahnDedupStep; split
    · exact h
    · exact List.mem_append_left _ h

/-- every ID of the input (or of the accumulator) occurs in the result -/
theorem kahnDedup_ids {κ} {l acc : List (KNode κ)} {n : KNode κ} (h : n ∈ acc ∨ n ∈ l) :
    ∃ m ∈ l.foldl kahnDedupStep acc, m.ev.eventID = n.ev.eventID := by
  induction l generalizing acc with
  | nil =>
    rcases h with h | h
    · exact ⟨n, h, rfl⟩
    · cases h
  | cons a as ih =>
    rw [List.foldl_cons]
    rcases h with h | h
    · exact ⟨n, kahnDedup_acc_sub (by
        unfold kahnDedupStep; split
        · exact h
        · exact List.mem_append_left _ h), rfl⟩
    · rcases List.mem_cons.mp h with rfl | h
      · by_cases hs : acc.any (fun m => m.ev.eventID == n.ev.eventID) = true
        · obtain ⟨m, hm, hid⟩ := List.any_eq_true.mp hs
          refine ⟨m, kahnDedup_acc_sub ?_, by simpa using hid⟩
          unfold kahnDedupStep; rw [if_pos hs]; exact hm
        · refine ⟨n, kahnDedup_acc_sub ?_, rfl⟩
          unfold kahnDedupStep; rw [if_neg hs]; simp
      · exact ih (Or.inr h)

/-- distinct event IDs (for nodes) -/
def KIdNodup {κ} (l : List (KNode κ)) : Prop := (l.map (·.ev.eventID)).Nodup

theorem KIdNodup.nodup {κ} {l : List (KNode κ)} (h : KIdNodup l) : l.Nodup := by
  unfold KIdNodup at h
  rw [List.nodup_iff_pairwise_ne, List.pairwise_map] at h
  exact h.imp (fun {a b} hne heq => hne (by rw [heq]))

theorem kahnDedup_idNodup {κ} {l acc : List (KNode κ)} (h : KIdNodup acc) : KIdNodup (l.foldl kahnDedupStep acc) := by
  induction l generalizing acc with
  | nil => exact h
  | cons a as ih =>
    rw [List.foldl_cons]; apply ih
    unfold kahnDedupStep; split
    · exact h
    · rename_i hn
      have hn' : ∀ m ∈ acc, m.ev.eventID ≠ a.ev.eventID := by
        intro m hm heq
        exact hn (List.any_eq_true.mpr ⟨m, hm, by simpa using heq⟩)
      unfold KIdNodup at *
      rw [List.map_append, List.nodup_append]
      refine ⟨h, by simp, ?_⟩
      intro x hx y hy
      simp only [List.map_cons, List.map_nil, List.mem_singleton] at hy
      obtain ⟨e, he, rfl⟩ := List.mem_map.mp hx
      rw [hy]; exact hn' e he

theorem mem_kNodes {κ} {l : List (KNode κ)} {n : KNode κ} (h : n ∈ kNodes l) : n ∈ l := by
  rcases kahnDedup_mem (acc := []) h with h' | h'
  · cases h'
  · exact h'

theorem kNodes_idNodup {κ} (l : List (KNode κ)) : KIdNodup (kNodes l) :=
  kahnDedup_idNodup (acc := []) (by simp [KIdNodup])

theorem kNodes_ids {κ} {l : List (KNode κ)} {n : KNode κ} (h : n ∈ l) :
    ∃ m ∈ kNodes l, m.ev.eventID = n.ev.eventID := kahnDedup_ids (acc := []) (Or.inr h)

/-- the event ID identifies the node within `U` -/
def KId {κ} (U : KNode κ → Prop) : Prop := ∀ a b, U a → U b → a.ev.eventID = b.ev.eventID → a = b

theorem mem_kNodes_of_mem {κ} {U : KNode κ → Prop} (hU : KId U) {l : List (KNode κ)} (hl : ∀ n ∈ l, U n)
    {n : KNode κ} (h : n ∈ l) : n ∈ kNodes l := by
  obtain ⟨m, hm, hid⟩ := kNodes_ids h
  rw [← hU m n (hl m (mem_kNodes hm)) (hl n h) hid]; exact hm

theorem kNodes_perm {κ} {U : KNode κ → Prop} (hU : KId U) {l l' : List (KNode κ)} (hl : ∀ n ∈ l, U n)
    (hl' : ∀ n ∈ l', U n) (h : SameSet l l') : kNodes l ~ kNodes l' := by
  refine SameSet.perm ?_ (kNodes_idNodup l).nodup (kNodes_idNodup l').nodup
  intro n
  constructor
  · intro hn; exact mem_kNodes_of_mem hU hl' ((h n).mp (mem_kNodes hn))
  · intro hn; exact mem_kNodes_of_mem hU hl ((h n).mpr (mem_kNodes hn))

/-! ## In-degree tables as lookup functions -/

/-- two tables that answer every lookup alike -/
def KDegEq (d d' : List (ID × Nat)) : Prop := ∀ x, kDegOf d x = kDegOf d' x

theorem KDegEq.refl (d : List (ID × Nat)) : KDegEq d d := fun _ => rfl
theorem KDegEq.symm {d d' : List (ID × Nat)} (h : KDegEq d d') : KDegEq d' d := fun x => (h x).symm
theorem KDegEq.trans {a b c : List (ID × Nat)} (h : KDegEq a b) (h' : KDegEq b c) : KDegEq a c := fun x => (h x).trans (h' x)

theorem kDegOf_nil (x : ID) : kDegOf [] x = none := rfl

theorem kDegOf_cons (a : ID × Nat) (deg : List (ID × Nat)) (x : ID) :
    kDegOf (a :: deg) x = if a.1 = x then some a.2 else kDegOf deg x := by
  unfold kDegOf; rw [List.find?_cons]
  by_cases h : a.1 = x
  · simp [h]
  · have : (a.1 == x) = false := by simpa using h
    simp [this, h]

theorem kDegOf_append (d d' : List (ID × Nat)) (x : ID) : kDegOf (d ++ d') x = (kDegOf d x).or (kDegOf d' x) := by
  induction d with
  | nil => simp [kDegOf_nil]
  | cons a as ih => rw [List.cons_append, kDegOf_cons, kDegOf_cons, ih]; split <;> simp

/-- updating the values stored under `id` (every entry; the lookup sees the first) -/
theorem kDegOf_update (g : Nat → Nat) (deg : List (ID × Nat)) (id x : ID) :
    kDegOf (deg.map (fun d => if d.1 == id then (d.1, g d.2) else d)) x
      = if x = id then (kDegOf deg x).map g else kDegOf deg x := by
  induction deg with
  | nil => simp [kDegOf_nil]
  | cons a as ih =>
    rw [List.map_cons, kDegOf_cons, kDegOf_cons, ih]
    by_cases ha : a.1 = id
    · have : (a.1 == id) = true := by simpa using ha
      simp only [this, if_true]
      by_cases hx : x = id
      · subst hx; simp [ha]
      · have : ¬ a.1 = x := fun h => hx (h ▸ ha)
        simp [hx, this]
    · have : (a.1 == id) = false := by simpa using ha
      simp only [this]
      by_cases hax : a.1 = x
      · have : ¬ x = id := fun h => ha (hax ▸ h)
        simp [hax, this]
      · simp only [hax, if_false, Bool.false_eq_true]

theorem kDegOf_decMap (deg : List (ID × Nat)) (pid x : ID) :
    kDegOf (decMap deg pid) x = if x = pid then (kDegOf deg x).map (· - 1) else kDegOf deg x :=
  kDegOf_update (· - 1) deg pid x

theorem kDegOf_kBump (deg : List (ID × Nat)) (id : ID) (by_ : Nat) (x : ID) :
    kDegOf (kBump deg id by_) x = if x = id then some ((kDegOf deg id).getD 0 + by_) else kDegOf deg x := by
  unfold kBump
  have hs : (deg.find? (fun d => d.1 == id)).isSome = (kDegOf deg id).isSome := by unfold kDegOf; simp
  rw [hs]
  split
  · rename_i h
    rw [kDegOf_update (· + by_)]
    by_cases hx : x = id
    · subst hx
      cases hd : kDegOf deg x with
      | none => simp [hd] at h
      | some v => simp
    · simp [hx]
  · rename_i h
    have hn : kDegOf deg id = none := by simpa using h
    rw [kDegOf_append, kDegOf_cons, kDegOf_nil]
    by_cases hx : x = id
    · subst hx; simp [hn]
    · have : ¬ id = x := fun h => hx h.symm
      simp [hx, this]

theorem KDegEq.decMap {d d' : List (ID × Nat)} (h : KDegEq d d') (pid : ID) : KDegEq (decMap d pid) (decMap d' pid) := by
  intro x; rw [kDegOf_decMap, kDegOf_decMap, h x]

theorem KDegEq.kBump {d d' : List (ID × Nat)} (h : KDegEq d d') (id : ID) (by_ : Nat) : KDegEq (kBump d id by_) (kBump d' id by_) := by
  intro x; rw [kDegOf_kBump, kDegOf_kBump, h x, h id]

theorem kBump_comm (d : List (ID × Nat)) (i j : ID) (a b : Nat) :
    KDegEq (kBump (kBump d i a) j b) (kBump (kBump d j b) i a) := by
  intro x
  simp only [kDegOf_kBump]
  by_cases hij : i = j
  · subst hij
    by_cases hx : x = i
    · simp [hx]; omega
    · simp [hx]
  · have hji : ¬ j = i := fun h => hij h.symm
    by_cases hxi : x = i
    · subst hxi; simp [hij]
    · by_cases hxj : x = j
      · subst hxj; simp [hji]
      · simp [hxi, hxj]

/-- the kBump operations `kahnInDeg` performs, as a list -/
def kahnOps {κ} (parents : Event → List ID) (nodes : List (KNode κ)) : List (ID × Nat) :=
  nodes.flatMap (fun n => (n.ev.eventID, 0) :: (parents n.ev).map (fun pid => (pid, 1)))

def kBumpOp (d : List (ID × Nat)) (op : ID × Nat) : List (ID × Nat) := kBump d op.1 op.2

theorem kahnInDeg_eq {κ} (parents : Event → List ID) (nodes : List (KNode κ)) :
    kahnInDeg parents nodes = (kahnOps parents nodes).foldl kBumpOp [] := by
  unfold kahnInDeg kahnOps
  rw [List.foldl_flatMap]
  congr 1
  funext deg n
  rw [List.foldl_cons, List.foldl_map]
  rfl

theorem kBumpFold_congr (ops : List (ID × Nat)) {d d' : List (ID × Nat)} (h : KDegEq d d') :
    KDegEq (ops.foldl kBumpOp d) (ops.foldl kBumpOp d') := by
  induction ops generalizing d d' with
  | nil => exact h
  | cons op ops ih => rw [List.foldl_cons, List.foldl_cons]; exact ih (h.kBump _ _)

theorem kBumpFold_perm {ops ops' : List (ID × Nat)} (hp : ops ~ ops') :
    ∀ {d d' : List (ID × Nat)}, KDegEq d d' → KDegEq (ops.foldl kBumpOp d) (ops'.foldl kBumpOp d') := by
  induction hp with
  | nil => intro d d' h; exact h
  | cons a _ ih => intro d d' h; rw [List.foldl_cons, List.foldl_cons]; exact ih (h.kBump _ _)
  | swap a b l =>
    intro d d' h
    simp only [List.foldl_cons]
    exact kBumpFold_congr l (((h.kBump _ _).kBump _ _).trans (kBump_comm d' b.1 a.1 b.2 a.2))
  | trans _ _ ih1 ih2 => intro d d' h; exact (ih1 h).trans (ih2 (KDegEq.refl d'))

/-- the in-degree table (as a lookup function) does not depend on the order of the nodes -/
theorem kahnInDeg_perm {κ} (parents : Event → List ID) {nodes nodes' : List (KNode κ)} (hp : nodes ~ nodes') :
    KDegEq (kahnInDeg parents nodes) (kahnInDeg parents nodes') := by
  rw [kahnInDeg_eq, kahnInDeg_eq]
  exact kBumpFold_perm (hp.flatMap_right _) (KDegEq.refl [])

end V.StateRes
