/- What `CompactJSON` makes of a number literal (L1, number part): every byte is copied, except the
   sign of the literal `-0`.  Core only. -/
import VProofs.JsonFuel
import VProofs.JsonNum
namespace V.Json

/-- The input byte before the current position is not an exponent marker. -/
def prevOk (prev : Option UInt8) : Prop := ∀ p, prev = some p → (p == 0x65 || p == 0x45) = false

theorem prevOk_none : prevOk none := fun _ h => by cases h
theorem prevOk_some {c : UInt8} (h : (c == 0x65 || c == 0x45) = false) : prevOk (some c) :=
  fun _ hp => by cases hp; exact h

/-- The compactor copies `out` for the token `tok`, whatever precedes and follows. -/
def CRun (tok out : Bytes) : Prop :=
  ∀ (prev : Option UInt8) (X acc : Bytes), ∃ prev', compactAll prev (tok ++ X) acc = compactAll prev' X (acc ++ out)

theorem CRun_nil : CRun [] [] := fun prev X acc => ⟨prev, by simp⟩

theorem CRun_append {t1 o1 t2 o2 : Bytes} (h1 : CRun t1 o1) (h2 : CRun t2 o2) : CRun (t1 ++ t2) (o1 ++ o2) := by
  intro prev X acc
  obtain ⟨p1, e1⟩ := h1 prev (t2 ++ X) acc
  obtain ⟨p2, e2⟩ := h2 p1 X (acc ++ o1)
  exact ⟨p2, by rw [List.append_assoc, e1, e2, List.append_assoc]⟩

theorem CRun_copy (c : UInt8) (h1 : ¬ c ≤ 0x20) (h2 : (c == 0x2D) = false) (h3 : (c == 0x22) = false) :
    CRun [c] [c] := fun prev X acc => ⟨some c, compactAll_copy prev c X acc h1 h2 h3⟩

theorem CRun_cons {c : UInt8} {t o : Bytes} (h : CRun [c] [c]) (ht : CRun t o) : CRun (c :: t) (c :: o) :=
  CRun_append h ht

theorem CRun_digit {c : UInt8} (h : isDigit c = true) : CRun [c] [c] := by
  obtain ⟨h1, _, _, _, _, h6, h7⟩ := digit_facts h
  exact CRun_copy c h7 h1 h6

theorem CRun_digits : ∀ ds : Bytes, allDigits ds → CRun ds ds
  | [], _ => CRun_nil
  | c :: ds, h =>
    CRun_cons (CRun_digit (h c List.mem_cons_self)) (CRun_digits ds (fun x hx => h x (List.mem_cons_of_mem _ hx)))

theorem CRun_int {ip : Bytes} (h : IntPart ip) : CRun ip ip := by
  rcases h with rfl | ⟨c, ds, rfl, hc, _, hds⟩
  · exact CRun_copy _ (by decide) (by decide) (by decide)
  · exact CRun_cons (CRun_digit hc) (CRun_digits ds hds)

theorem CRun_frac {fp : Bytes} (h : FracPart fp) : CRun fp fp := by
  rcases h with rfl | ⟨c, ds, rfl, hds⟩
  · exact CRun_nil
  · exact CRun_cons (CRun_copy _ (by decide) (by decide) (by decide)) (CRun_digits _ hds)

theorem isNegZero_afterE (e : UInt8) (rest : Bytes) (he : e = 0x65 ∨ e = 0x45) :
    isNegZero (some e) rest = false := by
  unfold isNegZero
  cases rest with
  | nil => rfl
  | cons z r =>
    simp only
    split
    · rfl
    · rcases he with rfl | rfl <;> simp

/-- the `-` of an exponent is copied: the byte before it is `e`/`E` -/
theorem CRun_expMinus (e : UInt8) (he : e = 0x65 ∨ e = 0x45) : CRun [e, 0x2D] [e, 0x2D] := by
  intro prev X acc
  have h1 : ¬ e ≤ 0x20 := by rcases he with rfl | rfl <;> decide
  have h2 : (e == 0x2D) = false := by rcases he with rfl | rfl <;> decide
  have h3 : (e == 0x22) = false := by rcases he with rfl | rfl <;> decide
  refine ⟨some 0x2D, ?_⟩
  simp only [List.cons_append, List.nil_append]
  rw [compactAll_copy prev e _ acc h1 h2 h3, compactAll_minus _ _ _ (isNegZero_afterE e X he)]
  simp

theorem CRun_exp {ep : Bytes} (h : ExpPart ep) : CRun ep ep := by
  rcases h with rfl | ⟨e, sg, c, ds, rfl, he, hsg, hds⟩
  · exact CRun_nil
  · have h1 : ¬ e ≤ 0x20 := by rcases he with rfl | rfl <;> decide
    have h2 : (e == 0x2D) = false := by rcases he with rfl | rfl <;> decide
    have h3 : (e == 0x22) = false := by rcases he with rfl | rfl <;> decide
    rcases hsg with rfl | rfl | rfl
    · exact CRun_cons (CRun_copy e h1 h2 h3) (CRun_digits _ hds)
    · exact CRun_cons (CRun_copy e h1 h2 h3)
        (CRun_cons (CRun_copy _ (by decide) (by decide) (by decide)) (CRun_digits _ hds))
    · exact CRun_append (t1 := [e, 0x2D]) (o1 := [e, 0x2D]) (CRun_expMinus e he) (CRun_digits _ hds)

/-- The unsigned part of a literal is copied byte for byte. -/
theorem CRun_body {sign ip fp ep : Bytes} (h : NumParts sign ip fp ep) : CRun (ip ++ fp ++ ep) (ip ++ fp ++ ep) :=
  CRun_append (CRun_append (CRun_int h.ip) (CRun_frac h.fp)) (CRun_exp h.ep)

/-! ### The sign -/

theorem isNegZero_prevOk {prev : Option UInt8} (h : prevOk prev) (rest : Bytes) :
    isNegZero prev rest = isNegZero none rest := by
  unfold isNegZero
  cases rest with
  | nil => rfl
  | cons z r =>
    simp only
    split
    · rfl
    · cases prev with
      | none => rfl
      | some p => simp [h p rfl]

theorem isNegZero_zero (r : Bytes) :
    isNegZero none (0x30 :: r) = (headOk notDot r && headOk notE r) := by
  cases r with
  | nil => rfl
  | cons n r =>
    simp only [isNegZero, headOk_cons, notDot, notE]
    cases (n == 0x2E) <;> cases (n == 0x65) <;> cases (n == 0x45) <;> simp

theorem isNegZero_nonzero (c : UInt8) (r : Bytes) (h : (c == 0x30) = false) : isNegZero none (c :: r) = false := by
  have : c ≠ 0x30 := by simpa using h
  simp [isNegZero, this]

/-- **Number token.** A literal the parser accepts is compacted to its canonical spelling:
    unchanged, except that `-0` becomes `0`. -/
theorem parseNumber_compact {s lit s4 : Bytes} (h : parseNumber s = some (lit, s4))
    {prev : Option UInt8} (hp : prevOk prev) (acc : Bytes) :
    ∃ prev', compactAll prev s acc = compactAll prev' s4 (acc ++ encodeNum lit) := by
  obtain ⟨sign, ip, fp, ep, hparts, rfl, rfl, hcont⟩ := parseNumber_parts h
  have hbody := CRun_body hparts
  rcases hparts.sign with rfl | rfl
  · -- no sign: the literal starts with a digit, so it is not `-0`
    have hne : encodeNum ([] ++ ip ++ fp ++ ep) = [] ++ ip ++ fp ++ ep := by
      unfold encodeNum
      rcases hparts.ip with rfl | ⟨c, ds, rfl, hc, _, _⟩
      · simp
      · have := (digit_facts hc).1
        simp only [beq_eq_false_iff_ne, ne_eq] at this
        simp [this]
    rw [hne]
    simpa using hbody prev s4 acc
  · -- leading `-`
    simp only [List.cons_append, List.nil_append, List.append_assoc]
    by_cases hz : ip = [0x30] ∧ fp = [] ∧ ep = []
    · obtain ⟨rfl, rfl, rfl⟩ := hz
      obtain ⟨c1, c2⟩ := hcont rfl rfl
      have hnz : isNegZero prev (0x30 :: s4) = true := by
        rw [isNegZero_prevOk hp, isNegZero_zero, c1, c2]; rfl
      refine ⟨some 0x30, ?_⟩
      simp only [List.nil_append, List.cons_append]
      rw [compactAll_negzero _ _ _ hnz, compactAll_copy _ 0x30 _ _ (by decide) (by decide) (by decide)]
      rfl
    · have hnz : isNegZero prev (ip ++ (fp ++ (ep ++ s4))) = false := by
        rw [isNegZero_prevOk hp]
        rcases hparts.ip with rfl | ⟨c, ds, rfl, _, hc0, _⟩
        · simp only [List.cons_append, List.nil_append]
          rw [isNegZero_zero]
          rcases hparts.fp with rfl | ⟨c, ds, rfl, _⟩
          · rcases hparts.ep with rfl | ⟨e, sg, c, ds, rfl, he, _, _⟩
            · exact absurd ⟨rfl, rfl, rfl⟩ hz
            · rcases he with rfl | rfl <;> rfl
          · rfl
        · exact isNegZero_nonzero c _ hc0
      have hne : encodeNum (0x2D :: (ip ++ (fp ++ ep))) = 0x2D :: (ip ++ (fp ++ ep)) := by
        unfold encodeNum
        have : (0x2D :: (ip ++ (fp ++ ep))) ≠ [0x2D, 0x30] := by
          intro he
          simp only [List.cons.injEq, true_and] at he
          rcases hparts.ip with rfl | ⟨c, ds, rfl, _, hc0, _⟩
          · simp only [List.cons_append, List.nil_append, List.cons.injEq, true_and, List.append_eq_nil_iff] at he
            exact hz ⟨rfl, he.1, he.2⟩
          · simp only [List.cons_append, List.cons.injEq] at he
            rw [he.1] at hc0; cases hc0
        rw [if_neg (by simpa using this)]
      rw [hne, compactAll_minus _ _ _ hnz]
      obtain ⟨p', e'⟩ := hbody (some 0x2D) s4 (acc ++ [0x2D])
      refine ⟨p', ?_⟩
      simpa using e'

end V.Json
