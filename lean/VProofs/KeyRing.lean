/- Helper lemmas for C12 (association lists, folds of the key ring model). Core only. -/
import VModel.KeyRing
namespace V.KeyRing
open V List

/-! ## Association lists -/
namespace AList
variable {α β : Type} [DecidableEq α]

theorem lookup_insert_self (k : α) (v : β) (m : List (α × β)) : lookup k (insert k v m) = some v := by
  induction m with
  | nil => simp [insert, lookup]
  | cons e rest ih =>
    obtain ⟨k', v'⟩ := e
    by_cases h : k' = k
    · simp [insert, lookup, h]
    · simp [insert, lookup, h, ih]

theorem lookup_insert_ne {k k' : α} (v : β) (m : List (α × β)) (h : k' ≠ k) : lookup k' (insert k v m) = lookup k' m := by
  induction m with
  | nil => simp [insert, lookup, Ne.symm h]
  | cons e rest ih =>
    obtain ⟨k₂, v₂⟩ := e
    by_cases h2 : k₂ = k
    · subst h2; simp [insert, lookup, Ne.symm h]
    · by_cases h3 : k₂ = k'
      · subst h3; simp [insert, lookup, h]
      · simp [insert, lookup, h2, h3, ih]

theorem lookup_erase_self (k : α) (m : List (α × β)) : lookup k (erase k m) = none := by
  induction m with
  | nil => rfl
  | cons e rest ih =>
    obtain ⟨k', v'⟩ := e
    by_cases h : k' = k
    · simp [erase, h, ih]
    · simp [erase, lookup, h, ih]

theorem lookup_erase_ne {k k' : α} (m : List (α × β)) (h : k' ≠ k) : lookup k' (erase k m) = lookup k' m := by
  induction m with
  | nil => rfl
  | cons e rest ih =>
    obtain ⟨k₂, v₂⟩ := e
    by_cases h2 : k₂ = k
    · subst h2; simp [erase, lookup, Ne.symm h, ih]
    · by_cases h3 : k₂ = k'
      · subst h3; simp [erase, lookup, h]
      · simp [erase, lookup, h2, h3, ih]

theorem mem_of_lookup {k : α} {v : β} {m : List (α × β)} (h : lookup k m = some v) : (k, v) ∈ m := by
  induction m with
  | nil => cases h
  | cons e rest ih =>
    obtain ⟨k', v'⟩ := e
    by_cases h2 : k' = k
    · subst h2; simp [lookup] at h; subst h; simp
    · simp [lookup, h2] at h; exact List.mem_cons_of_mem _ (ih h)

theorem lookup_isSome_of_mem {k : α} {v : β} {m : List (α × β)} (h : (k, v) ∈ m) : (lookup k m).isSome = true := by
  induction m with
  | nil => cases h
  | cons e rest ih =>
    obtain ⟨k', v'⟩ := e
    by_cases h2 : k' = k
    · simp [lookup, h2]
    · simp only [lookup, h2, ↓reduceIte]
      rcases List.mem_cons.1 h with h3 | h3
      · cases h3; exact absurd rfl h2
      · exact ih h3

/-- with unique keys, membership determines lookup -/
theorem lookup_of_mem_nodup {k : α} {v : β} {m : List (α × β)} (hn : (m.map Prod.fst).Nodup) (h : (k, v) ∈ m) :
    lookup k m = some v := by
  induction m with
  | nil => cases h
  | cons e rest ih =>
    obtain ⟨k', v'⟩ := e
    simp only [map_cons, nodup_cons] at hn
    rcases List.mem_cons.1 h with h3 | h3
    · cases h3; simp [lookup]
    · have : k' ≠ k := by
        rintro rfl; exact hn.1 (List.mem_map_of_mem (f := Prod.fst) h3)
      simp [lookup, this, ih hn.2 h3]

theorem mem_erase {k : α} {e : α × β} {m : List (α × β)} (h : e ∈ erase k m) : e ∈ m ∧ e.1 ≠ k := by
  induction m with
  | nil => cases h
  | cons x rest ih =>
    obtain ⟨k', v'⟩ := x
    by_cases h2 : k' = k
    · simp only [erase, h2, ↓reduceIte] at h
      have := ih h; exact ⟨List.mem_cons_of_mem _ this.1, this.2⟩
    · simp only [erase, h2, ↓reduceIte] at h
      rcases List.mem_cons.1 h with h3 | h3
      · subst h3; exact ⟨by simp, h2⟩
      · have := ih h3; exact ⟨List.mem_cons_of_mem _ this.1, this.2⟩

theorem mem_insert {k : α} {v : β} {e : α × β} {m : List (α × β)} (h : e ∈ insert k v m) : e = (k, v) ∨ e ∈ m := by
  induction m with
  | nil => simp [insert] at h; exact Or.inl h
  | cons x rest ih =>
    obtain ⟨k', v'⟩ := x
    by_cases h2 : k' = k
    · simp only [insert, h2, ↓reduceIte] at h
      rcases List.mem_cons.1 h with h3 | h3
      · exact Or.inl h3
      · exact Or.inr (List.mem_cons_of_mem _ h3)
    · simp only [insert, h2, ↓reduceIte] at h
      rcases List.mem_cons.1 h with h3 | h3
      · exact Or.inr (by rw [h3]; simp)
      · rcases ih h3 with h4 | h4
        · exact Or.inl h4
        · exact Or.inr (List.mem_cons_of_mem _ h4)

end AList
/-! ## Validity arithmetic -/

/-- `WasValidAt` is the property's validity clause. -/
theorem wasValidAt_iff (k : KeyRes) (t : Nat) (strict : Bool) (now : Nat) :
    wasValidAt k t strict now = true ↔
      if k.expiredTS ≠ 0 then t < k.expiredTS
      else (strict = false ∨ (k.validUntilTS ≠ 0 ∧ t ≤ min k.validUntilTS (now + sevenDaysMs))) := by
  unfold wasValidAt
  by_cases he : k.expiredTS ≠ 0
  · simp [he]
  · simp only [he, ↓reduceIte]
    cases strict with
    | false => simp [noStrictValidity]
    | true =>
      simp only [↓reduceIte, strictValidity, Bool.true_eq_false, false_or]
      by_cases hv : k.validUntilTS = 0
      · simp [hv]
      · simp only [hv, ↓reduceIte, ne_eq, not_false_eq_true, true_and]
        by_cases hc : k.validUntilTS > now + sevenDaysMs
        · simp only [hc, ↓reduceIte]
          by_cases ht : t > now + sevenDaysMs
          · simp only [ht, ↓reduceIte, Bool.false_eq_true, false_iff]; omega
          · simp only [ht, ↓reduceIte, true_iff]; omega
        · simp only [hc, ↓reduceIte]
          by_cases ht : t > k.validUntilTS
          · simp only [ht, ↓reduceIte, Bool.false_eq_true, false_iff]; omega
          · simp only [ht, ↓reduceIte, true_iff]; omega

theorem spec_validAt_eq (k : KeyRes) (t : Nat) (strict : Bool) (now : Nat) :
    Spec.validAt k t strict now = wasValidAt k t strict now := by
  rw [Bool.eq_iff_iff, wasValidAt_iff]
  unfold Spec.validAt
  by_cases he : k.expiredTS ≠ 0
  · simp [he]
  · simp only [he, ↓reduceIte]
    cases strict <;> simp [sevenDaysMs]

/-! ## checkUsingKeys -/

/-- a key for signature `s` of a request is usable: present, valid at the time, and the signature verifies -/
def usable (server : Bytes) (atTS : Nat) (strict : Bool) (keys : KeyMap) (now : Nat) (s : SigInfo) : Bool :=
  match AList.lookup ⟨server, s.keyID⟩ keys with
  | none => false
  | some k => wasValidAt k atTS strict now && verifyJSON s k.key

/-- the key-ID loop succeeds iff SOME key ID is usable: the order in which the Go map yields the key IDs
    does not matter for the result -/
theorem checkSigs_eq_any (server : Bytes) (atTS : Nat) (strict : Bool) (keys : KeyMap) (now : Nat) (sigs : List SigInfo) :
    checkSigs server atTS strict keys now sigs = sigs.any (usable server atTS strict keys now) := by
  induction sigs with
  | nil => rfl
  | cons s rest ih =>
    simp only [checkSigs, any_cons, usable]
    cases AList.lookup ⟨server, s.keyID⟩ keys with
    | none => simpa using ih
    | some k =>
      simp only
      cases wasValidAt k atTS strict now <;> cases verifyJSON s k.key <;> simp [ih]

theorem checkSigs_perm (server : Bytes) (atTS : Nat) (strict : Bool) (keys : KeyMap) (now : Nat) {l₁ l₂ : List SigInfo}
    (h : l₁ ~ l₂) : checkSigs server atTS strict keys now l₁ = checkSigs server atTS strict keys now l₂ := by
  rw [checkSigs_eq_any, checkSigs_eq_any, Bool.eq_iff_iff, any_eq_true, any_eq_true]
  exact ⟨fun ⟨x, hx, hp⟩ => ⟨x, h.mem_iff.1 hx, hp⟩, fun ⟨x, hx, hp⟩ => ⟨x, h.mem_iff.2 hx, hp⟩⟩

theorem checkUsingKeys_length (keys : KeyMap) (now : Nat) (reqs : List Request) (ress : List Bool)
    (h : ress.length = reqs.length) : (checkUsingKeys keys now reqs ress).length = reqs.length := by
  induction reqs generalizing ress with
  | nil => cases ress <;> simp [checkUsingKeys]
  | cons r rs ih =>
    cases ress with
    | nil => simp at h
    | cons p ps => simp only [checkUsingKeys, length_cons]; rw [ih ps (by simpa using h)]

theorem checkUsingKeys_getElem? (keys : KeyMap) (now : Nat) (reqs : List Request) (ress : List Bool) (i : Nat) (b : Bool)
    (h : (checkUsingKeys keys now reqs ress)[i]? = some b) :
    ∃ r p, reqs[i]? = some r ∧ ress[i]? = some p ∧
      b = (p || checkSigs r.server r.atTS r.strict keys now (supportedSigs r)) := by
  induction reqs generalizing ress i with
  | nil => cases ress <;> simp [checkUsingKeys] at h
  | cons r rs ih =>
    cases ress with
    | nil => simp [checkUsingKeys] at h
    | cons p ps =>
      cases i with
      | zero =>
        simp only [checkUsingKeys, getElem?_cons_zero, Option.some.injEq] at h
        refine ⟨r, p, rfl, rfl, ?_⟩
        rw [← h]; cases p <;> simp
      | succ j =>
        simp only [checkUsingKeys, getElem?_cons_succ] at h
        simpa using ih ps j h

theorem checkUsingKeys_getElem?_of (keys : KeyMap) (now : Nat) (reqs : List Request) (ress : List Bool) (i : Nat) (r : Request) (p : Bool)
    (hr : reqs[i]? = some r) (hp : ress[i]? = some p) :
    (checkUsingKeys keys now reqs ress)[i]? = some (p || checkSigs r.server r.atTS r.strict keys now (supportedSigs r)) := by
  induction reqs generalizing ress i with
  | nil => simp at hr
  | cons r' rs ih =>
    cases ress with
    | nil => simp at hp
    | cons p' ps =>
      cases i with
      | zero =>
        simp only [getElem?_cons_zero, Option.some.injEq] at hr hp
        subst hr hp
        simp only [checkUsingKeys, getElem?_cons_zero, Option.some.injEq]
        cases p' <;> simp
      | succ j =>
        simp only [getElem?_cons_succ] at hr hp
        simpa [checkUsingKeys] using ih ps j hr hp

/-! ## Where keys come from, what is asked -/

/-- the database keeps this entry: it is marked expired or still inside its validity -/
def keeps (now : Nat) (k : KeyRes) : Prop := k.expiredTS ≠ 0 ∨ now < k.validUntilTS

theorem pruneStep_fst (now : Nat) (st : KeyMap × ReqMap) (e : KeyReq × KeyRes) :
    (pruneStep now st e).1 = AList.insert e.1 e.2 st.1 := by
  obtain ⟨kf, kr⟩ := st; obtain ⟨q, k⟩ := e
  simp only [pruneStep]; split
  · rfl
  · split <;> rfl

theorem pruneStep_snd (now : Nat) (st : KeyMap × ReqMap) (e : KeyReq × KeyRes) :
    (pruneStep now st e).2 = if e.2.expiredTS ≠ 0 ∨ now < e.2.validUntilTS then AList.erase e.1 st.2 else st.2 := by
  obtain ⟨kf, kr⟩ := st; obtain ⟨q, k⟩ := e
  simp only [pruneStep]
  by_cases h1 : k.expiredTS ≠ 0
  · simp [h1]
  · have h1' : k.expiredTS = 0 := Classical.not_not.1 h1
    by_cases h2 : now < k.validUntilTS
    · simp [h1', h2]
    · simp [h1', h2]

theorem prune_mem_fst (now : Nat) (l : KeyMap) (st : KeyMap × ReqMap) (x : KeyReq × KeyRes)
    (h : x ∈ (l.foldl (pruneStep now) st).1) : x ∈ st.1 ∨ x ∈ l := by
  induction l generalizing st with
  | nil => exact Or.inl h
  | cons e rest ih =>
    simp only [foldl_cons] at h
    rcases ih _ h with h1 | h1
    · rw [pruneStep_fst] at h1
      rcases AList.mem_insert h1 with h2 | h2
      · right; rw [h2]; simp
      · exact Or.inl h2
    · exact Or.inr (List.mem_cons_of_mem _ h1)

theorem prune_mem_snd (now : Nat) (l : KeyMap) (st : KeyMap × ReqMap) (x : KeyReq × Nat)
    (h : x ∈ (l.foldl (pruneStep now) st).2) :
    x ∈ st.2 ∧ ∀ k, (x.1, k) ∈ l → ¬ keeps now k := by
  induction l generalizing st with
  | nil => exact ⟨h, by simp⟩
  | cons e rest ih =>
    simp only [foldl_cons] at h
    obtain ⟨h1, h2⟩ := ih _ h
    rw [pruneStep_snd] at h1
    by_cases hk : e.2.expiredTS ≠ 0 ∨ now < e.2.validUntilTS
    · simp only [hk, ↓reduceIte] at h1
      obtain ⟨h3, h4⟩ := AList.mem_erase h1
      refine ⟨h3, ?_⟩
      intro k hm
      rcases List.mem_cons.1 hm with h5 | h5
      · exact absurd (congrArg Prod.fst h5) h4
      · exact h2 k h5
    · simp only [hk, ↓reduceIte] at h1
      refine ⟨h1, ?_⟩
      intro k hm
      rcases List.mem_cons.1 hm with h5 | h5
      · rw [← h5] at hk; exact hk
      · exact h2 k h5

theorem pruneDB_mem_fst {now : Nat} {fromDB : KeyMap} {kr : ReqMap} {x : KeyReq × KeyRes}
    (h : x ∈ (pruneDB now fromDB kr).1) : x ∈ fromDB := by
  rcases prune_mem_fst now fromDB ([], kr) x h with h1 | h1
  · cases h1
  · exact h1

theorem mergeStep_mem_fst (st : KeyMap × ReqMap × KeyMap) (e : KeyReq × KeyRes) (x : KeyReq × KeyRes)
    (h : x ∈ (mergeStep st e).1) : x ∈ st.1 ∨ x = e := by
  obtain ⟨kf, kr, ks⟩ := st; obtain ⟨q, k⟩ := e
  simp only [mergeStep] at h
  split at h
  · exact Or.inl h
  · rcases AList.mem_insert h with h2 | h2
    · exact Or.inr h2
    · exact Or.inl h2

theorem mergeStep_mem_snd (st : KeyMap × ReqMap × KeyMap) (e : KeyReq × KeyRes) (x : KeyReq × Nat)
    (h : x ∈ (mergeStep st e).2.1) : x ∈ st.2.1 := by
  obtain ⟨kf, kr, ks⟩ := st; obtain ⟨q, k⟩ := e
  simp only [mergeStep] at h
  split at h
  · exact h
  · exact (AList.mem_erase h).1

theorem merge_mem_fst (l : KeyMap) (st : KeyMap × ReqMap × KeyMap) (x : KeyReq × KeyRes)
    (h : x ∈ (l.foldl mergeStep st).1) : x ∈ st.1 ∨ x ∈ l := by
  induction l generalizing st with
  | nil => exact Or.inl h
  | cons e rest ih =>
    simp only [foldl_cons] at h
    rcases ih _ h with h1 | h1
    · rcases mergeStep_mem_fst _ _ _ h1 with h2 | h2
      · exact Or.inl h2
      · right; rw [h2]; simp
    · exact Or.inr (List.mem_cons_of_mem _ h1)

theorem merge_mem_snd (l : KeyMap) (st : KeyMap × ReqMap × KeyMap) (x : KeyReq × Nat)
    (h : x ∈ (l.foldl mergeStep st).2.1) : x ∈ st.2.1 := by
  induction l generalizing st with
  | nil => exact h
  | cons e rest ih =>
    simp only [foldl_cons] at h
    exact mergeStep_mem_snd _ _ _ (ih _ h)

/-- every key held after the fetcher loop was held before or is in some fetcher's answer;
    every question put to a fetcher is a subset of the requests outstanding at the start -/
theorem fetchLoop_inv (fs : List (Nat × FetchScript)) (st : FetchState) :
    (∀ x ∈ (fetchLoop fs st).keysFetched, x ∈ st.keysFetched ∨ ∃ idx m, (idx, some m) ∈ fs ∧ x ∈ m) ∧
    (∀ c ∈ (fetchLoop fs st).calls, c ∈ st.calls ∨ ((∃ f, (c.1, f) ∈ fs) ∧ ∀ e ∈ c.2, e ∈ st.keyRequests)) := by
  induction fs generalizing st with
  | nil => exact ⟨fun x h => Or.inl h, fun c h => Or.inl h⟩
  | cons f rest ih =>
    obtain ⟨idx, f⟩ := f
    simp only [fetchLoop]
    split
    · exact ⟨fun x h => Or.inl h, fun c h => Or.inl h⟩
    · -- the call is recorded
      have hcall : ∀ (st' : FetchState), st'.calls = st.calls ++ [(idx, st.keyRequests)] →
          (∀ e ∈ st'.keyRequests, e ∈ st.keyRequests) →
          ∀ c ∈ (fetchLoop rest st').calls, c ∈ st.calls ∨ ((∃ f', (c.1, f') ∈ (idx, f) :: rest) ∧ ∀ e ∈ c.2, e ∈ st.keyRequests) := by
        intro st' hc hsub c hm
        rcases (ih st').2 c hm with h1 | ⟨⟨f', hf'⟩, h2⟩
        · rw [hc] at h1
          rcases List.mem_append.1 h1 with h3 | h3
          · exact Or.inl h3
          · simp only [mem_cons, not_mem_nil, or_false] at h3
            subst h3
            exact Or.inr ⟨⟨f, by simp⟩, fun e he => he⟩
        · exact Or.inr ⟨⟨f', List.mem_cons_of_mem _ hf'⟩, fun e he => hsub e (h2 e he)⟩
      cases f with
      | none =>
        simp only
        refine ⟨?_, hcall _ rfl (fun e he => he)⟩
        intro x hx
        rcases (ih _).1 x hx with h1 | ⟨i, m, hm, hxm⟩
        · exact Or.inl h1
        · exact Or.inr ⟨i, m, List.mem_cons_of_mem _ hm, hxm⟩
      | some fetched =>
        simp only
        split
        · refine ⟨?_, hcall _ rfl (fun e he => he)⟩
          intro x hx
          rcases (ih _).1 x hx with h1 | ⟨i, m, hm, hxm⟩
          · exact Or.inl h1
          · exact Or.inr ⟨i, m, List.mem_cons_of_mem _ hm, hxm⟩
        · refine ⟨?_, hcall _ rfl (fun e he => merge_mem_snd _ _ _ he)⟩
          intro x hx
          rcases (ih _).1 x hx with h1 | ⟨i, m, hm, hxm⟩
          · rcases merge_mem_fst _ _ _ h1 with h2 | h2
            · exact Or.inl h2
            · exact Or.inr ⟨idx, fetched, by simp, h2⟩
          · exact Or.inr ⟨i, m, List.mem_cons_of_mem _ hm, hxm⟩

theorem mem_enumFrom {α} {n : Nat} {l : List α} {i : Nat} {x : α} (h : (i, x) ∈ enumFrom n l) : l[i - n]? = some x ∧ n ≤ i := by
  induction l generalizing n with
  | nil => cases h
  | cons y ys ih =>
    simp only [enumFrom, mem_cons, Prod.mk.injEq] at h
    rcases h with ⟨rfl, rfl⟩ | h
    · simp
    · have ⟨h1, h2⟩ := ih h
      have : i - n = (i - (n + 1)) + 1 := by omega
      rw [this]; simp [h1]; omega

/-! ## publicKeyRequests -/

theorem addKeyRequest_mem {m : ReqMap} {k : KeyReq} {t : Nat} {x : KeyReq × Nat} (h : x ∈ addKeyRequest m k t) :
    x ∈ m ∨ x = (k, t) := by
  unfold addKeyRequest at h
  simp only at h
  split at h
  · rcases AList.mem_insert h with h1 | h1
    · exact Or.inr h1
    · exact Or.inl h1
  · exact Or.inl h

theorem addKeyRequest_contains_self (m : ReqMap) (k : KeyReq) (t : Nat) : AList.contains k (addKeyRequest m k t) = true := by
  unfold addKeyRequest AList.contains
  simp only
  split
  · rw [AList.lookup_insert_self]; rfl
  · rename_i h
    cases hl : AList.lookup k m with
    | none => simp [hl] at h
    | some v => rfl

theorem addKeyRequest_contains_mono {m : ReqMap} {k q : KeyReq} {t : Nat} (h : AList.contains q m = true) :
    AList.contains q (addKeyRequest m k t) = true := by
  unfold addKeyRequest
  simp only
  split
  · unfold AList.contains at *
    by_cases hq : q = k
    · subst hq; rw [AList.lookup_insert_self]; rfl
    · rw [AList.lookup_insert_ne _ _ hq]; exact h
  · exact h

theorem addSigs_mem (server : Bytes) (atTS : Nat) (sigs : List SigInfo) (m : ReqMap) (x : KeyReq × Nat)
    (h : x ∈ sigs.foldl (fun m s => addKeyRequest m ⟨server, s.keyID⟩ atTS) m) :
    x ∈ m ∨ ∃ s ∈ sigs, x = (⟨server, s.keyID⟩, atTS) := by
  induction sigs generalizing m with
  | nil => exact Or.inl h
  | cons s rest ih =>
    simp only [foldl_cons] at h
    rcases ih _ h with h1 | ⟨s', hs', hx⟩
    · rcases addKeyRequest_mem h1 with h2 | h2
      · exact Or.inl h2
      · exact Or.inr ⟨s, by simp, h2⟩
    · exact Or.inr ⟨s', List.mem_cons_of_mem _ hs', hx⟩

theorem addSigs_contains_mono (server : Bytes) (atTS : Nat) (sigs : List SigInfo) (m : ReqMap) (q : KeyReq)
    (h : AList.contains q m = true) :
    AList.contains q (sigs.foldl (fun m s => addKeyRequest m ⟨server, s.keyID⟩ atTS) m) = true := by
  induction sigs generalizing m with
  | nil => exact h
  | cons s rest ih => simp only [foldl_cons]; exact ih _ (addKeyRequest_contains_mono h)

theorem addSigs_contains (server : Bytes) (atTS : Nat) (sigs : List SigInfo) (m : ReqMap) (s : SigInfo) (hs : s ∈ sigs) :
    AList.contains ⟨server, s.keyID⟩ (sigs.foldl (fun m s => addKeyRequest m ⟨server, s.keyID⟩ atTS) m) = true := by
  induction sigs generalizing m with
  | nil => cases hs
  | cons s' rest ih =>
    simp only [foldl_cons]
    rcases List.mem_cons.1 hs with h | h
    · subst h; exact addSigs_contains_mono _ _ _ _ _ (addKeyRequest_contains_self _ _ _)
    · exact ih _ h

/-- every key request is (server, supported key ID, timestamp) of some request -/
theorem publicKeyRequests_mem (reqs : List Request) (ress : List Bool) (m : ReqMap) (x : KeyReq × Nat)
    (h : x ∈ publicKeyRequests reqs ress m) :
    x ∈ m ∨ ∃ r ∈ reqs, ∃ s ∈ supportedSigs r, x = (⟨r.server, s.keyID⟩, r.atTS) := by
  induction reqs generalizing ress m with
  | nil => cases ress <;> exact Or.inl h
  | cons r rs ih =>
    cases ress with
    | nil => exact Or.inl h
    | cons p ps =>
      simp only [publicKeyRequests] at h
      split at h
      · rcases ih _ _ h with h1 | ⟨r', hr', hx⟩
        · exact Or.inl h1
        · exact Or.inr ⟨r', List.mem_cons_of_mem _ hr', hx⟩
      · rcases ih _ _ h with h1 | ⟨r', hr', hx⟩
        · rcases addSigs_mem _ _ _ _ _ h1 with h2 | ⟨s, hs, hx⟩
          · exact Or.inl h2
          · exact Or.inr ⟨r, by simp, s, hs, hx⟩
        · exact Or.inr ⟨r', List.mem_cons_of_mem _ hr', hx⟩

theorem publicKeyRequests_contains_mono (reqs : List Request) (ress : List Bool) (m : ReqMap) (q : KeyReq)
    (h : AList.contains q m = true) : AList.contains q (publicKeyRequests reqs ress m) = true := by
  induction reqs generalizing ress m with
  | nil => cases ress <;> exact h
  | cons r rs ih =>
    cases ress with
    | nil => exact h
    | cons p ps =>
      simp only [publicKeyRequests]
      split
      · exact ih _ _ h
      · exact ih _ _ (addSigs_contains_mono _ _ _ _ _ h)

/-- every supported signature of every request (none verified yet) has its key requested -/
theorem publicKeyRequests_contains (reqs : List Request) (m : ReqMap) (r : Request) (hr : r ∈ reqs)
    (s : SigInfo) (hs : s ∈ supportedSigs r) :
    AList.contains ⟨r.server, s.keyID⟩ (publicKeyRequests reqs (reqs.map (fun _ => false)) m) = true := by
  induction reqs generalizing m with
  | nil => cases hr
  | cons r' rs ih =>
    simp only [map_cons, publicKeyRequests, Bool.false_eq_true, ↓reduceIte]
    rcases List.mem_cons.1 hr with h | h
    · subst h
      exact publicKeyRequests_contains_mono _ _ _ _ (addSigs_contains _ _ _ _ s hs)
    · exact ih _ h

/-! ## The phases of verifyJSONs -/

def results0 (reqs : List Request) : List Bool := reqs.map (fun _ => false)
def keyRequests0 (reqs : List Request) : ReqMap := publicKeyRequests reqs (results0 reqs) []
/-- (keysFetched, keyRequests) after the database answered -/
def afterDB (reqs : List Request) (fromDB : KeyMap) (now : Nat) : KeyMap × ReqMap := pruneDB now fromDB (keyRequests0 reqs)
def earlyTry (reqs : List Request) (fromDB : KeyMap) (now : Nat) : Bool := (afterDB reqs fromDB now).1.length == reqs.length
def results1 (reqs : List Request) (fromDB : KeyMap) (now : Nat) : List Bool :=
  if earlyTry reqs fromDB now then checkUsingKeys (afterDB reqs fromDB now).1 now reqs (results0 reqs) else results0 reqs
def finalState (reqs : List Request) (fromDB : KeyMap) (fetchers : List FetchScript) (now : Nat) : FetchState :=
  fetchLoop (enumFrom 0 fetchers) { keyRequests := (afterDB reqs fromDB now).2, keysFetched := (afterDB reqs fromDB now).1, keysToStore := [], calls := [] }

theorem verifyJSONs_eq (reqs : List Request) (db : FetchScript) (storeOk : Bool) (fetchers : List FetchScript) (now : Nat) :
    verifyJSONs reqs db storeOk fetchers now =
      if (keyRequests0 reqs).isEmpty then (.ok (results0 reqs), {})
      else match db with
        | none => (.error .db, { dbAsked := some (keyRequests0 reqs) })
        | some fromDB =>
          if earlyTry reqs fromDB now && (results1 reqs fromDB now).all id then
            (.ok (results1 reqs fromDB now), { dbAsked := some (keyRequests0 reqs) })
          else if !storeOk then
            (.error .store, { dbAsked := some (keyRequests0 reqs), fetcherCalls := (finalState reqs fromDB fetchers now).calls,
                              stored := some (finalState reqs fromDB fetchers now).keysToStore })
          else
            (.ok (checkUsingKeys (finalState reqs fromDB fetchers now).keysFetched now reqs (results1 reqs fromDB now)),
             { dbAsked := some (keyRequests0 reqs), fetcherCalls := (finalState reqs fromDB fetchers now).calls,
               stored := some (finalState reqs fromDB fetchers now).keysToStore }) := by
  cases db <;> rfl

/-- The three ways `verifyJSONs` returns results. -/
theorem verifyJSONs_ok {reqs : List Request} {db : FetchScript} {storeOk : Bool} {fetchers : List FetchScript} {now : Nat}
    {rs : List Bool} {tr : Trace} (h : verifyJSONs reqs db storeOk fetchers now = (.ok rs, tr)) :
    (keyRequests0 reqs = [] ∧ rs = results0 reqs ∧ tr.dbAsked = none ∧ tr.fetcherCalls = [] ∧ tr.stored = none) ∨
    ∃ fromDB, db = some fromDB ∧ keyRequests0 reqs ≠ [] ∧ tr.dbAsked = some (keyRequests0 reqs) ∧
      ((earlyTry reqs fromDB now = true ∧ (results1 reqs fromDB now).all id = true ∧ rs = results1 reqs fromDB now ∧
          tr.fetcherCalls = [] ∧ tr.stored = none) ∨
       (storeOk = true ∧ rs = checkUsingKeys (finalState reqs fromDB fetchers now).keysFetched now reqs (results1 reqs fromDB now) ∧
          tr.fetcherCalls = (finalState reqs fromDB fetchers now).calls ∧
          tr.stored = some (finalState reqs fromDB fetchers now).keysToStore)) := by
  rw [verifyJSONs_eq] at h
  by_cases he : (keyRequests0 reqs).isEmpty = true
  · simp only [he, ↓reduceIte, Prod.mk.injEq, Except.ok.injEq] at h
    obtain ⟨h1, h2⟩ := h
    left
    refine ⟨by simpa using he, h1.symm, ?_, ?_, ?_⟩ <;> rw [← h2]
  · simp only [he, Bool.false_eq_true, ↓reduceIte] at h
    right
    cases db with
    | none => simp at h
    | some fromDB =>
      refine ⟨fromDB, rfl, by simpa using he, ?_⟩
      simp only at h
      by_cases hearly : (earlyTry reqs fromDB now && (results1 reqs fromDB now).all id) = true
      · simp only [hearly, ↓reduceIte, Prod.mk.injEq, Except.ok.injEq] at h
        obtain ⟨h1, h2⟩ := h
        simp only [Bool.and_eq_true] at hearly
        exact ⟨by rw [← h2], Or.inl ⟨hearly.1, hearly.2, h1.symm, by rw [← h2], by rw [← h2]⟩⟩
      · simp only [hearly, Bool.false_eq_true, ↓reduceIte] at h
        cases storeOk with
        | false => simp at h
        | true =>
          simp only [Bool.not_true, Bool.false_eq_true, ↓reduceIte, Prod.mk.injEq, Except.ok.injEq] at h
          obtain ⟨h1, h2⟩ := h
          exact ⟨by rw [← h2], Or.inr ⟨rfl, h1.symm, by rw [← h2], by rw [← h2]⟩⟩

/-! ## Exact content of the key map for a requested key -/

theorem contains_false_iff {α β} [DecidableEq α] (k : α) (m : List (α × β)) : AList.contains k m = false ↔ AList.lookup k m = none := by
  unfold AList.contains; cases AList.lookup k m <;> simp

theorem mergeStep_other (st : KeyMap × ReqMap × KeyMap) (e : KeyReq × KeyRes) (q : KeyReq) (h : e.1 ≠ q) :
    AList.lookup q (mergeStep st e).1 = AList.lookup q st.1 ∧ AList.lookup q (mergeStep st e).2.1 = AList.lookup q st.2.1 := by
  obtain ⟨kf, kr, ks⟩ := st; obtain ⟨q', k⟩ := e
  simp only [mergeStep]
  split
  · exact ⟨rfl, rfl⟩
  · exact ⟨AList.lookup_insert_ne _ _ (Ne.symm h), AList.lookup_erase_ne _ (Ne.symm h)⟩

/-- a key held and no longer requested is never touched again -/
theorem mergeStep_stable (st : KeyMap × ReqMap × KeyMap) (e : KeyReq × KeyRes) (q : KeyReq) (v : KeyRes)
    (h1 : AList.lookup q st.1 = some v) (h2 : AList.lookup q st.2.1 = none) :
    AList.lookup q (mergeStep st e).1 = some v ∧ AList.lookup q (mergeStep st e).2.1 = none := by
  by_cases he : e.1 = q
  · obtain ⟨kf, kr, ks⟩ := st; obtain ⟨q', k⟩ := e
    simp only at he; subst he
    simp only at h1 h2
    simp [mergeStep, AList.contains, h1, h2]
  · have := mergeStep_other st e q he
    rw [this.1, this.2]; exact ⟨h1, h2⟩

theorem merge_stable (l : KeyMap) (st : KeyMap × ReqMap × KeyMap) (q : KeyReq) (v : KeyRes)
    (h1 : AList.lookup q st.1 = some v) (h2 : AList.lookup q st.2.1 = none) :
    AList.lookup q (l.foldl mergeStep st).1 = some v ∧ AList.lookup q (l.foldl mergeStep st).2.1 = none := by
  induction l generalizing st with
  | nil => exact ⟨h1, h2⟩
  | cons e rest ih =>
    simp only [foldl_cons]
    have := mergeStep_stable st e q v h1 h2
    exact ih _ this.1 this.2

theorem merge_other (l : KeyMap) (st : KeyMap × ReqMap × KeyMap) (q : KeyReq) (h : AList.lookup q l = none) :
    AList.lookup q (l.foldl mergeStep st).1 = AList.lookup q st.1 ∧ AList.lookup q (l.foldl mergeStep st).2.1 = AList.lookup q st.2.1 := by
  induction l generalizing st with
  | nil => exact ⟨rfl, rfl⟩
  | cons e rest ih =>
    obtain ⟨q', k⟩ := e
    simp only [AList.lookup] at h
    split at h
    · cases h
    · rename_i hne
      simp only [foldl_cons]
      have h1 := mergeStep_other st (q', k) q hne
      have h2 := ih (mergeStep st (q', k)) h
      rw [h2.1, h2.2, h1.1, h1.2]; exact ⟨rfl, rfl⟩

/-- a requested key that the answer contains is taken from the answer and leaves the request map -/
theorem merge_requested (l : KeyMap) (st : KeyMap × ReqMap × KeyMap) (q : KeyReq) (v : KeyRes)
    (hl : AList.lookup q l = some v) (hreq : (AList.lookup q st.2.1).isSome = true) :
    AList.lookup q (l.foldl mergeStep st).1 = some v ∧ AList.lookup q (l.foldl mergeStep st).2.1 = none := by
  induction l generalizing st with
  | nil => cases hl
  | cons e rest ih =>
    obtain ⟨q', k⟩ := e
    simp only [AList.lookup] at hl
    simp only [foldl_cons]
    split at hl
    · rename_i heq
      subst heq
      cases hl
      apply merge_stable
      · obtain ⟨kf, kr, ks⟩ := st
        simp only at hreq
        simp only [mergeStep, AList.contains, hreq, Bool.not_true, Bool.false_and, Bool.false_eq_true, ↓reduceIte]
        exact AList.lookup_insert_self _ _ _
      · obtain ⟨kf, kr, ks⟩ := st
        simp only at hreq
        simp only [mergeStep, AList.contains, hreq, Bool.not_true, Bool.false_and, Bool.false_eq_true, ↓reduceIte]
        exact AList.lookup_erase_self _ _
    · rename_i hne
      have h1 := mergeStep_other st (q', k) q hne
      exact ih _ hl (by rw [h1.2]; exact hreq)

theorem fetchLoop_stable (fs : List (Nat × FetchScript)) (st : FetchState) (q : KeyReq) (v : KeyRes)
    (h1 : AList.lookup q st.keysFetched = some v) (h2 : AList.lookup q st.keyRequests = none) :
    AList.lookup q (fetchLoop fs st).keysFetched = some v := by
  induction fs generalizing st with
  | nil => exact h1
  | cons f rest ih =>
    obtain ⟨idx, f⟩ := f
    simp only [fetchLoop]
    split
    · exact h1
    · cases f with
      | none => exact ih _ h1 h2
      | some fetched =>
        simp only
        split
        · exact ih _ h1 h2
        · have := merge_stable fetched (st.keysFetched, st.keyRequests, st.keysToStore) q v h1 h2
          exact ih _ this.1 this.2

/-- the answer of the first fetcher (in call order) whose answer has an entry for `q` -/
def firstAns : List (Nat × FetchScript) → KeyReq → Option KeyRes
  | [], _ => none
  | (_, none) :: rest, q => firstAns rest q
  | (_, some m) :: rest, q =>
    match AList.lookup q m with
    | some k => some k
    | none => firstAns rest q

/-- a requested key ends up with the first answer given for it; without any answer it stays as it was -/
theorem fetchLoop_requested (fs : List (Nat × FetchScript)) (st : FetchState) (q : KeyReq)
    (hreq : (AList.lookup q st.keyRequests).isSome = true) :
    AList.lookup q (fetchLoop fs st).keysFetched =
      match firstAns fs q with
      | some k => some k
      | none => AList.lookup q st.keysFetched := by
  induction fs generalizing st with
  | nil => rfl
  | cons f rest ih =>
    obtain ⟨idx, f⟩ := f
    have hne : st.keyRequests.isEmpty = false := by
      cases hk : st.keyRequests with
      | nil => rw [hk] at hreq; simp [AList.lookup] at hreq
      | cons _ _ => rfl
    simp only [fetchLoop, hne, Bool.false_eq_true, ↓reduceIte]
    cases f with
    | none => simp only [firstAns]; exact ih _ hreq
    | some fetched =>
      simp only [firstAns]
      split
      · rename_i hemp
        have : fetched = [] := by simpa using hemp
        subst this
        simp only [AList.lookup]
        exact ih _ hreq
      · cases hl : AList.lookup q fetched with
        | some k =>
          simp only
          have := merge_requested fetched (st.keysFetched, st.keyRequests, st.keysToStore) q k hl hreq
          exact fetchLoop_stable rest _ q k this.1 this.2
        | none =>
          simp only
          have := merge_other fetched (st.keysFetched, st.keyRequests, st.keysToStore) q hl
          rw [ih _ (by simpa [this.2] using hreq)]
          simp only [this.1]

/-! ## The database phase, exactly (the answer is a Go map: unique keys) -/

def keepsB (now : Nat) (k : KeyRes) : Bool := k.expiredTS != 0 || decide (now < k.validUntilTS)

theorem lookup_none_of_not_mem_keys {α β} [DecidableEq α] {q : α} {l : List (α × β)} (h : q ∉ l.map Prod.fst) :
    AList.lookup q l = none := by
  induction l with
  | nil => rfl
  | cons e rest ih =>
    obtain ⟨q', v⟩ := e
    simp only [map_cons, mem_cons, not_or] at h
    simp only [AList.lookup]
    rw [if_neg (Ne.symm h.1)]
    exact ih h.2

theorem pruneStep_other (now : Nat) (st : KeyMap × ReqMap) (e : KeyReq × KeyRes) (q : KeyReq) (h : e.1 ≠ q) :
    AList.lookup q (pruneStep now st e).1 = AList.lookup q st.1 ∧ AList.lookup q (pruneStep now st e).2 = AList.lookup q st.2 := by
  rw [pruneStep_fst, pruneStep_snd]
  refine ⟨AList.lookup_insert_ne _ _ (Ne.symm h), ?_⟩
  split
  · exact AList.lookup_erase_ne _ (Ne.symm h)
  · rfl

theorem prune_other (now : Nat) (l : KeyMap) (st : KeyMap × ReqMap) (q : KeyReq) (h : AList.lookup q l = none) :
    AList.lookup q (l.foldl (pruneStep now) st).1 = AList.lookup q st.1 ∧
    AList.lookup q (l.foldl (pruneStep now) st).2 = AList.lookup q st.2 := by
  induction l generalizing st with
  | nil => exact ⟨rfl, rfl⟩
  | cons e rest ih =>
    obtain ⟨q', k⟩ := e
    simp only [AList.lookup] at h
    split at h
    · cases h
    · rename_i hne
      simp only [foldl_cons]
      have h1 := pruneStep_other now st (q', k) q hne
      have h2 := ih (pruneStep now st (q', k)) h
      rw [h2.1, h2.2, h1.1, h1.2]; exact ⟨rfl, rfl⟩

theorem prune_exact (now : Nat) (l : KeyMap) (hn : (l.map Prod.fst).Nodup) (st : KeyMap × ReqMap) (q : KeyReq) (k : KeyRes)
    (h : AList.lookup q l = some k) :
    AList.lookup q (l.foldl (pruneStep now) st).1 = some k ∧
    AList.lookup q (l.foldl (pruneStep now) st).2 = if keepsB now k then none else AList.lookup q st.2 := by
  induction l generalizing st with
  | nil => cases h
  | cons e rest ih =>
    obtain ⟨q', k'⟩ := e
    simp only [map_cons, nodup_cons] at hn
    simp only [AList.lookup] at h
    simp only [foldl_cons]
    split at h
    · rename_i heq
      subst heq; cases h
      have hnone := lookup_none_of_not_mem_keys hn.1
      have := prune_other now rest (pruneStep now st (q', k)) q' hnone
      rw [this.1, this.2, pruneStep_fst, pruneStep_snd]
      refine ⟨AList.lookup_insert_self _ _ _, ?_⟩
      by_cases hk : k.expiredTS ≠ 0 ∨ now < k.validUntilTS
      · have : keepsB now k = true := by simpa [keepsB] using hk
        simp only [hk, ↓reduceIte, this]; exact AList.lookup_erase_self _ _
      · have : keepsB now k = false := by
          simp only [keepsB, Bool.or_eq_false_iff, bne_eq_false_iff_eq, decide_eq_false_iff_not]
          simp only [not_or, Classical.not_not] at hk; exact hk
        simp [hk, this]
    · rename_i hne
      have h1 := pruneStep_other now st (q', k') q hne
      have h2 := ih hn.2 (pruneStep now st (q', k')) h
      rw [h2.1, h2.2, h1.2]; exact ⟨rfl, rfl⟩

theorem lookupIn_eq (m : KeyMap) (q : KeyReq) : Spec.lookupIn m q = AList.lookup q m := by
  unfold Spec.lookupIn
  induction m with
  | nil => rfl
  | cons e rest ih =>
    obtain ⟨q', k⟩ := e
    by_cases h : q' = q
    · simp [List.find?, AList.lookup, h]
    · have : (q' == q) = false := by simpa using h
      simp only [List.find?, this, AList.lookup, h, ↓reduceIte]; exact ih

theorem firstAns_enum (fs : List FetchScript) (n : Nat) (q : KeyReq) : firstAns (enumFrom n fs) q = Spec.firstAnswer fs q := by
  induction fs generalizing n with
  | nil => rfl
  | cons f rest ih =>
    cases f with
    | none => simp only [enumFrom, firstAns, Spec.firstAnswer]; exact ih _
    | some m =>
      simp only [enumFrom, firstAns, Spec.firstAnswer, lookupIn_eq]
      cases AList.lookup q m with
      | some k => rfl
      | none => exact ih _

/-- **The key the ring ends up holding for a requested (server, key ID)** is the one the specification
    calls supplied: the database's entry if it keeps it (expired-marked or inside validity), else the first
    fetcher's that answers for it, else the database's stale entry. -/
theorem final_key_eq_supplied (reqs : List Request) (fromDB : KeyMap) (fetchers : List FetchScript) (now : Nat)
    (hn : (fromDB.map Prod.fst).Nodup) (q : KeyReq) (hq : AList.contains q (keyRequests0 reqs) = true) :
    AList.lookup q (finalState reqs fromDB fetchers now).keysFetched = Spec.supplied fromDB fetchers q now := by
  unfold finalState afterDB pruneDB Spec.supplied Spec.dbKeeps
  rw [lookupIn_eq]
  cases hl : AList.lookup q fromDB with
  | some k =>
    have hp := prune_exact now fromDB hn ([], keyRequests0 reqs) q k hl
    simp only
    by_cases hk : k.expiredTS ≠ 0 ∨ now < k.validUntilTS
    · have hkb : keepsB now k = true := by simpa [keepsB] using hk
      simp only [hk, ↓reduceIte]
      rw [hkb] at hp
      exact fetchLoop_stable _ _ q k hp.1 hp.2
    · have hkb : keepsB now k = false := by
        simp only [keepsB, Bool.or_eq_false_iff, bne_eq_false_iff_eq, decide_eq_false_iff_not]
        simp only [not_or, Classical.not_not] at hk; exact hk
      simp only [hk, ↓reduceIte]
      rw [hkb] at hp
      rw [fetchLoop_requested _ _ q (by simpa [hp.2, AList.contains] using hq), firstAns_enum, hp.1]
      cases Spec.firstAnswer fetchers q <;> rfl
  | none =>
    have hp := prune_other now fromDB ([], keyRequests0 reqs) q hl
    simp only
    rw [fetchLoop_requested _ _ q (by simpa [hp.2, AList.contains] using hq), firstAns_enum, hp.1]
    cases Spec.firstAnswer fetchers q <;> rfl

/-! ## Helpers of the property theorems -/

theorem results0_getElem? (reqs : List Request) (i : Nat) (b : Bool) (h : (results0 reqs)[i]? = some b) :
    b = false ∧ ∃ r, reqs[i]? = some r := by
  unfold results0 at h
  rw [List.getElem?_map] at h
  cases hr : reqs[i]? with
  | none => simp [hr] at h
  | some r => simp [hr] at h; exact ⟨h, r, rfl⟩

theorem results1_length (reqs : List Request) (fromDB : KeyMap) (now : Nat) : (results1 reqs fromDB now).length = reqs.length := by
  unfold results1; split
  · exact checkUsingKeys_length _ _ _ _ (by simp [results0])
  · simp [results0]

/-- what makes request `r` succeed with the key map `keys`: some supported signature has a usable key -/
def okWith (keys : KeyMap) (now : Nat) (r : Request) : Bool :=
  (supportedSigs r).any (usable r.server r.atTS r.strict keys now)

theorem results1_getElem? (reqs : List Request) (fromDB : KeyMap) (now : Nat) (i : Nat) (b : Bool)
    (h : (results1 reqs fromDB now)[i]? = some b) :
    ∃ r, reqs[i]? = some r ∧ b = (earlyTry reqs fromDB now && okWith (afterDB reqs fromDB now).1 now r) := by
  unfold results1 at h
  split at h
  · rename_i he
    obtain ⟨r, p, hr, hp, hb⟩ := checkUsingKeys_getElem? _ _ _ _ _ _ h
    obtain ⟨rfl, _⟩ := results0_getElem? _ _ _ hp
    exact ⟨r, hr, by rw [hb, he, checkSigs_eq_any]; simp [okWith]⟩
  · rename_i he
    obtain ⟨rfl, r, hr⟩ := results0_getElem? _ _ _ h
    exact ⟨r, hr, by simp [he]⟩

/-- a usable key: present in the map, valid at the requested time under the request's rule, verifying -/
theorem usable_iff (server : Bytes) (atTS : Nat) (strict : Bool) (keys : KeyMap) (now : Nat) (s : SigInfo) :
    usable server atTS strict keys now s = true ↔
      ∃ k, AList.lookup ⟨server, s.keyID⟩ keys = some k ∧ wasValidAt k atTS strict now = true ∧ verifyJSON s k.key = true := by
  unfold usable
  cases AList.lookup ⟨server, s.keyID⟩ keys with
  | none => simp
  | some k => simp

theorem supportedSigs_eq (r : Request) : Spec.edSigs r = supportedSigs r := rfl

theorem good_eq (r : Request) (s : SigInfo) (k : KeyRes) (now : Nat) :
    Spec.good r s k now = (wasValidAt k r.atTS r.strict now && verifyJSON s k.key) := by
  unfold Spec.good verifyJSON
  rw [spec_validAt_eq]
  simp only [publicKeySize]
  cases s.reaches <;> cases (k.key.length == 32) <;> cases s.verifies k.key <;> cases wasValidAt k r.atTS r.strict now <;> rfl

/-- what the trace records, for every outcome (results, database error, store error) -/
theorem trace_of {reqs : List Request} {db : FetchScript} {storeOk : Bool} {fetchers : List FetchScript} {now : Nat}
    {out : Except CallErr (List Bool)} {tr : Trace} (h : verifyJSONs reqs db storeOk fetchers now = (out, tr)) :
    (tr.fetcherCalls = [] ∧ tr.stored = none) ∨
    ∃ fromDB, db = some fromDB ∧ tr.fetcherCalls = (finalState reqs fromDB fetchers now).calls ∧
      tr.stored = some (finalState reqs fromDB fetchers now).keysToStore := by
  rw [verifyJSONs_eq] at h
  split at h
  · cases h; exact Or.inl ⟨rfl, rfl⟩
  · cases db with
    | none => cases h; exact Or.inl ⟨rfl, rfl⟩
    | some fromDB =>
      simp only at h
      split at h
      · cases h; exact Or.inl ⟨rfl, rfl⟩
      · split at h <;> cases h <;> exact Or.inr ⟨fromDB, rfl, rfl, rfl⟩

theorem enumFrom_fst_ge {α} {n : Nat} {l : List α} {x : Nat × α} (h : x ∈ enumFrom n l) : n ≤ x.1 :=
  (mem_enumFrom (i := x.1) (x := x.2) h).2

/-- what a call's answer gives for a key it was asked for is what the ring holds at the end
    (calls carry the index of the fetcher; fetchers are tried in order, each at most once) -/
theorem fetchLoop_answers (fs : List FetchScript) (n : Nat) (st : FetchState) :
    ∀ c ∈ (fetchLoop (enumFrom n fs) st).calls, c ∈ st.calls ∨
      (n ≤ c.1 ∧ ∀ m, fs[c.1 - n]? = some (some m) → ∀ (q : KeyReq) (v : KeyRes), AList.lookup q m = some v →
        AList.contains q c.2 = true → AList.lookup q (fetchLoop (enumFrom n fs) st).keysFetched = some v) := by
  induction fs generalizing n st with
  | nil => intro c hc; exact Or.inl hc
  | cons f rest ih =>
    intro c hc
    simp only [enumFrom, fetchLoop] at hc ⊢
    split at hc
    · rename_i hemp; simp only [hemp, ↓reduceIte]; exact Or.inl hc
    · rename_i hemp
      simp only [hemp, Bool.false_eq_true, ↓reduceIte]
      have later : ∀ st' : FetchState, st'.calls = st.calls ++ [(n, st.keyRequests)] →
          c ∈ (fetchLoop (enumFrom (n + 1) rest) st').calls →
          (∀ m, f = some m → ∀ (q : KeyReq) (v : KeyRes), AList.lookup q m = some v → AList.contains q st.keyRequests = true →
              AList.lookup q (fetchLoop (enumFrom (n + 1) rest) st').keysFetched = some v) →
          c ∈ st.calls ∨ (n ≤ c.1 ∧ ∀ m, (f :: rest)[c.1 - n]? = some (some m) → ∀ (q : KeyReq) (v : KeyRes), AList.lookup q m = some v →
              AList.contains q c.2 = true → AList.lookup q (fetchLoop (enumFrom (n + 1) rest) st').keysFetched = some v) := by
        intro st' hcalls hmem hthis
        rcases ih (n + 1) st' c hmem with h1 | ⟨hge, h1⟩
        · rw [hcalls] at h1
          rcases List.mem_append.1 h1 with h2 | h2
          · exact Or.inl h2
          · simp only [mem_cons, not_mem_nil, or_false] at h2
            subst h2
            refine Or.inr ⟨Nat.le_refl _, fun m hm q v hx hcont => ?_⟩
            simp only [Nat.sub_self, getElem?_cons_zero, Option.some.injEq] at hm
            exact hthis m hm q v hx hcont
        · refine Or.inr ⟨by omega, fun m hm q v hx hcont => ?_⟩
          have : c.1 - n = (c.1 - (n + 1)) + 1 := by omega
          rw [this, getElem?_cons_succ] at hm
          exact h1 m hm q v hx hcont
      cases f with
      | none =>
        simp only at hc ⊢
        exact later _ rfl hc (fun m hm => by cases hm)
      | some fetched =>
        simp only at hc ⊢
        split at hc
        · rename_i hfe
          simp only [hfe, ↓reduceIte]
          refine later _ rfl hc (fun m hm q v hx _ => ?_)
          cases hm
          have : fetched = [] := by simpa using hfe
          subst this; simp [AList.lookup] at hx
        · rename_i hfe
          simp only [hfe, Bool.false_eq_true, ↓reduceIte]
          refine later _ rfl hc (fun m hm q v hx hcont => ?_)
          cases hm
          have := merge_requested fetched (st.keysFetched, st.keyRequests, st.keysToStore) q v hx (by simpa [AList.contains] using hcont)
          exact fetchLoop_stable _ _ _ _ this.1 this.2

/-! ## `keysToStore`: what is handed to `StoreKeys` -/

theorem mergeStep_mem_trd (st : KeyMap × ReqMap × KeyMap) (e : KeyReq × KeyRes) (x : KeyReq × KeyRes)
    (h : x ∈ (mergeStep st e).2.2) : x ∈ st.2.2 ∨ x = e := by
  obtain ⟨kf, kr, ks⟩ := st; obtain ⟨q, k⟩ := e
  simp only [mergeStep] at h
  split at h
  · exact Or.inl h
  · rcases AList.mem_insert h with h2 | h2
    · exact Or.inr h2
    · exact Or.inl h2

theorem merge_mem_trd (l : KeyMap) (st : KeyMap × ReqMap × KeyMap) (x : KeyReq × KeyRes)
    (h : x ∈ (l.foldl mergeStep st).2.2) : x ∈ st.2.2 ∨ x ∈ l := by
  induction l generalizing st with
  | nil => exact Or.inl h
  | cons e rest ih =>
    simp only [foldl_cons] at h
    rcases ih _ h with h1 | h1
    · rcases mergeStep_mem_trd _ _ _ h1 with h2 | h2
      · exact Or.inl h2
      · right; rw [h2]; simp
    · exact Or.inr (List.mem_cons_of_mem _ h1)

theorem fetchLoop_calls_mono (fs : List (Nat × FetchScript)) (st : FetchState) :
    ∀ c ∈ st.calls, c ∈ (fetchLoop fs st).calls := by
  induction fs generalizing st with
  | nil => intro c h; exact h
  | cons f rest ih =>
    obtain ⟨idx, f⟩ := f
    intro c hc
    simp only [fetchLoop]
    split
    · exact hc
    · cases f with
      | none => exact ih _ c (List.mem_append_left _ hc)
      | some fetched =>
        simp only
        split
        · exact ih _ c (List.mem_append_left _ hc)
        · exact ih _ c (List.mem_append_left _ hc)

/-- **only what came from a fetcher**: every entry of `keysToStore` after the fetcher loop was there before or is an entry
    of the answer of a fetcher that the loop called -/
theorem fetchLoop_toStore_mem (fs : List (Nat × FetchScript)) (st : FetchState) :
    ∀ x ∈ (fetchLoop fs st).keysToStore, x ∈ st.keysToStore ∨
      ∃ idx m asked, (idx, some m) ∈ fs ∧ (idx, asked) ∈ (fetchLoop fs st).calls ∧ x ∈ m := by
  induction fs generalizing st with
  | nil => intro x h; exact Or.inl h
  | cons f rest ih =>
    obtain ⟨idx, f⟩ := f
    intro x hx
    simp only [fetchLoop] at hx ⊢
    split at hx
    · rename_i hemp; simp only [hemp, ↓reduceIte]; exact Or.inl hx
    · rename_i hemp
      simp only [hemp, Bool.false_eq_true, ↓reduceIte]
      cases f with
      | none =>
        simp only at hx ⊢
        rcases ih _ x hx with h1 | ⟨i, m, a, hm, hc, hxm⟩
        · exact Or.inl h1
        · exact Or.inr ⟨i, m, a, List.mem_cons_of_mem _ hm, hc, hxm⟩
      | some fetched =>
        simp only at hx ⊢
        split at hx
        · rename_i hfe
          simp only [hfe, ↓reduceIte]
          rcases ih _ x hx with h1 | ⟨i, m, a, hm, hc, hxm⟩
          · exact Or.inl h1
          · exact Or.inr ⟨i, m, a, List.mem_cons_of_mem _ hm, hc, hxm⟩
        · rename_i hfe
          simp only [hfe, Bool.false_eq_true, ↓reduceIte]
          rcases ih _ x hx with h1 | ⟨i, m, a, hm, hc, hxm⟩
          · rcases merge_mem_trd _ _ _ h1 with h2 | h2
            · exact Or.inl h2
            · refine Or.inr ⟨idx, fetched, st.keyRequests, by simp, ?_, h2⟩
              apply fetchLoop_calls_mono
              simp
          · exact Or.inr ⟨i, m, a, List.mem_cons_of_mem _ hm, hc, hxm⟩

/-- a key held and no longer requested: no later answer changes what is noted for it in `keysToStore` -/
theorem mergeStep_stable_trd (st : KeyMap × ReqMap × KeyMap) (e : KeyReq × KeyRes) (q : KeyReq) (v : KeyRes)
    (h1 : AList.lookup q st.1 = some v) (h2 : AList.lookup q st.2.1 = none) :
    AList.lookup q (mergeStep st e).2.2 = AList.lookup q st.2.2 := by
  obtain ⟨kf, kr, ks⟩ := st; obtain ⟨q', k⟩ := e
  simp only at h1 h2
  by_cases he : q' = q
  · subst he
    simp [mergeStep, AList.contains, h1, h2]
  · simp only [mergeStep]
    split
    · rfl
    · exact AList.lookup_insert_ne _ _ (Ne.symm he)

theorem merge_stable_trd (l : KeyMap) (st : KeyMap × ReqMap × KeyMap) (q : KeyReq) (v : KeyRes)
    (h1 : AList.lookup q st.1 = some v) (h2 : AList.lookup q st.2.1 = none) :
    AList.lookup q (l.foldl mergeStep st).2.2 = AList.lookup q st.2.2 := by
  induction l generalizing st with
  | nil => rfl
  | cons e rest ih =>
    simp only [foldl_cons]
    have h := mergeStep_stable st e q v h1 h2
    rw [ih _ h.1 h.2, mergeStep_stable_trd st e q v h1 h2]

theorem mergeStep_other_trd (st : KeyMap × ReqMap × KeyMap) (e : KeyReq × KeyRes) (q : KeyReq) (h : e.1 ≠ q) :
    AList.lookup q (mergeStep st e).2.2 = AList.lookup q st.2.2 := by
  obtain ⟨kf, kr, ks⟩ := st; obtain ⟨q', k⟩ := e
  simp only [mergeStep]
  split
  · rfl
  · exact AList.lookup_insert_ne _ _ (Ne.symm h)

/-- a requested key that the answer contains is noted in `keysToStore` with the answer's value -/
theorem merge_requested_trd (l : KeyMap) (st : KeyMap × ReqMap × KeyMap) (q : KeyReq) (v : KeyRes)
    (hl : AList.lookup q l = some v) (hreq : (AList.lookup q st.2.1).isSome = true) :
    AList.lookup q (l.foldl mergeStep st).2.2 = some v := by
  induction l generalizing st with
  | nil => cases hl
  | cons e rest ih =>
    obtain ⟨q', k⟩ := e
    simp only [AList.lookup] at hl
    simp only [foldl_cons]
    split at hl
    · rename_i heq
      subst heq
      cases hl
      obtain ⟨kf, kr, ks⟩ := st
      simp only at hreq
      have hstep : mergeStep (kf, kr, ks) (q', v) = (AList.insert q' v kf, AList.erase q' kr, AList.insert q' v ks) := by
        simp only [mergeStep, AList.contains, hreq, Bool.not_true, Bool.false_and, Bool.false_eq_true, ↓reduceIte]
      rw [hstep, merge_stable_trd rest _ q' v (AList.lookup_insert_self _ _ _) (AList.lookup_erase_self _ _)]
      exact AList.lookup_insert_self _ _ _
    · rename_i hne
      have h1 := mergeStep_other st (q', k) q hne
      exact ih _ hl (by rw [h1.2]; exact hreq)

theorem fetchLoop_stable_trd (fs : List (Nat × FetchScript)) (st : FetchState) (q : KeyReq) (v : KeyRes)
    (h1 : AList.lookup q st.keysFetched = some v) (h2 : AList.lookup q st.keyRequests = none) :
    AList.lookup q (fetchLoop fs st).keysToStore = AList.lookup q st.keysToStore := by
  induction fs generalizing st with
  | nil => rfl
  | cons f rest ih =>
    obtain ⟨idx, f⟩ := f
    simp only [fetchLoop]
    split
    · rfl
    · cases f with
      | none => exact ih _ h1 h2
      | some fetched =>
        simp only
        split
        · exact ih _ h1 h2
        · have h := merge_stable fetched (st.keysFetched, st.keyRequests, st.keysToStore) q v h1 h2
          rw [ih _ h.1 h.2]
          exact merge_stable_trd fetched (st.keysFetched, st.keyRequests, st.keysToStore) q v h1 h2

/-- what a call's answer gives for a key it was asked for is what is handed to `StoreKeys` for that key -/
theorem fetchLoop_toStore_answers (fs : List FetchScript) (n : Nat) (st : FetchState) :
    ∀ c ∈ (fetchLoop (enumFrom n fs) st).calls, c ∈ st.calls ∨
      (n ≤ c.1 ∧ ∀ m, fs[c.1 - n]? = some (some m) → ∀ (q : KeyReq) (v : KeyRes), AList.lookup q m = some v →
        AList.contains q c.2 = true → AList.lookup q (fetchLoop (enumFrom n fs) st).keysToStore = some v) := by
  induction fs generalizing n st with
  | nil => intro c hc; exact Or.inl hc
  | cons f rest ih =>
    intro c hc
    simp only [enumFrom, fetchLoop] at hc ⊢
    split at hc
    · rename_i hemp; simp only [hemp, ↓reduceIte]; exact Or.inl hc
    · rename_i hemp
      simp only [hemp, Bool.false_eq_true, ↓reduceIte]
      have later : ∀ st' : FetchState, st'.calls = st.calls ++ [(n, st.keyRequests)] →
          c ∈ (fetchLoop (enumFrom (n + 1) rest) st').calls →
          (∀ m, f = some m → ∀ (q : KeyReq) (v : KeyRes), AList.lookup q m = some v → AList.contains q st.keyRequests = true →
              AList.lookup q (fetchLoop (enumFrom (n + 1) rest) st').keysToStore = some v) →
          c ∈ st.calls ∨ (n ≤ c.1 ∧ ∀ m, (f :: rest)[c.1 - n]? = some (some m) → ∀ (q : KeyReq) (v : KeyRes), AList.lookup q m = some v →
              AList.contains q c.2 = true → AList.lookup q (fetchLoop (enumFrom (n + 1) rest) st').keysToStore = some v) := by
        intro st' hcalls hmem hthis
        rcases ih (n + 1) st' c hmem with h1 | ⟨hge, h1⟩
        · rw [hcalls] at h1
          rcases List.mem_append.1 h1 with h2 | h2
          · exact Or.inl h2
          · simp only [mem_cons, not_mem_nil, or_false] at h2
            subst h2
            refine Or.inr ⟨Nat.le_refl _, fun m hm q v hx hcont => ?_⟩
            simp only [Nat.sub_self, getElem?_cons_zero, Option.some.injEq] at hm
            exact hthis m hm q v hx hcont
        · refine Or.inr ⟨by omega, fun m hm q v hx hcont => ?_⟩
          have : c.1 - n = (c.1 - (n + 1)) + 1 := by omega
          rw [this, getElem?_cons_succ] at hm
          exact h1 m hm q v hx hcont
      cases f with
      | none =>
        simp only at hc ⊢
        exact later _ rfl hc (fun m hm => by cases hm)
      | some fetched =>
        simp only at hc ⊢
        split at hc
        · rename_i hfe
          simp only [hfe, ↓reduceIte]
          refine later _ rfl hc (fun m hm q v hx _ => ?_)
          cases hm
          have : fetched = [] := by simpa using hfe
          subst this; simp [AList.lookup] at hx
        · rename_i hfe
          simp only [hfe, Bool.false_eq_true, ↓reduceIte]
          refine later _ rfl hc (fun m hm q v hx hcont => ?_)
          cases hm
          have hr : (AList.lookup q (st.keysFetched, st.keyRequests, st.keysToStore).2.1).isSome = true := by
            simpa [AList.contains] using hcont
          have h3 := merge_requested fetched (st.keysFetched, st.keyRequests, st.keysToStore) q v hx hr
          have h4 := merge_requested_trd fetched (st.keysFetched, st.keyRequests, st.keysToStore) q v hx hr
          rw [fetchLoop_stable_trd _ _ q v h3.1 h3.2]
          exact h4

/-- fetchers that fail or answer nothing leave nothing to store -/
theorem fetchLoop_toStore_silent (fs : List (Nat × FetchScript)) (st : FetchState)
    (h : ∀ p ∈ fs, p.2 = none ∨ p.2 = some []) : (fetchLoop fs st).keysToStore = st.keysToStore := by
  induction fs generalizing st with
  | nil => rfl
  | cons f rest ih =>
    obtain ⟨idx, f⟩ := f
    have hrest : ∀ p ∈ rest, p.2 = none ∨ p.2 = some [] := fun p hp => h p (List.mem_cons_of_mem _ hp)
    simp only [fetchLoop]
    split
    · rfl
    · rcases h (idx, f) (by simp) with h1 | h1
      · simp only at h1; subst h1; exact ih _ hrest
      · simp only at h1; subst h1
        simp only [List.isEmpty_nil, ↓reduceIte]
        exact ih _ hrest

theorem mem_enumFrom_snd {α} {n : Nat} {l : List α} {p : Nat × α} (h : p ∈ enumFrom n l) : p.2 ∈ l := by
  induction l generalizing n with
  | nil => cases h
  | cons y ys ih =>
    simp only [enumFrom, mem_cons] at h
    rcases h with rfl | h
    · simp
    · exact List.mem_cons_of_mem _ (ih h)

/-- every entry handed to `StoreKeys` is an entry of the answer of a fetcher this call consulted -/
theorem verifyJSONs_stored_mem {reqs : List Request} {db : FetchScript} {storeOk : Bool} {fetchers : List FetchScript} {now : Nat}
    {out : Except CallErr (List Bool)} {tr : Trace} (h : verifyJSONs reqs db storeOk fetchers now = (out, tr))
    (stored : KeyMap) (hs : tr.stored = some stored) (e : KeyReq × KeyRes) (he : e ∈ stored) :
    ∃ c ∈ tr.fetcherCalls, ∃ m, fetchers[c.1]? = some (some m) ∧ e ∈ m := by
  rcases trace_of h with ⟨_, h1⟩ | ⟨fromDB, _, hcalls, hst⟩
  · rw [h1] at hs; cases hs
  · rw [hst] at hs
    cases hs
    unfold finalState at he hcalls
    rcases fetchLoop_toStore_mem _ _ e he with h1 | ⟨idx, m, asked, hm, hcall, hem⟩
    · cases h1
    · refine ⟨(idx, asked), by rw [hcalls]; exact hcall, m, ?_, hem⟩
      have := (mem_enumFrom hm).1
      simpa using this

/-- fetchers that fail or answer nothing: `StoreKeys` is not called, or called with nothing -/
theorem verifyJSONs_stored_silent {reqs : List Request} {db : FetchScript} {storeOk : Bool} {fetchers : List FetchScript} {now : Nat}
    {out : Except CallErr (List Bool)} {tr : Trace} (h : verifyJSONs reqs db storeOk fetchers now = (out, tr))
    (hf : ∀ f ∈ fetchers, f = none ∨ f = some []) : tr.stored = none ∨ tr.stored = some [] := by
  rcases trace_of h with ⟨_, h1⟩ | ⟨fromDB, _, _, hst⟩
  · exact Or.inl h1
  · right
    rw [hst]
    unfold finalState
    rw [fetchLoop_toStore_silent _ _ (fun p hp => hf p.2 (mem_enumFrom_snd hp))]

end V.KeyRing
