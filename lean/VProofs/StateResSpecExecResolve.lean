/-
  C10: the executable rendering of the definition (`VModel/StateResSpecExec.lean`, what the driver prints as the
  specification answer) satisfies the definition `Resolves`, and therefore returns exactly the events the model returns.
  Core only.
-/
import VProofs.StateResSpecExecSets2
import VProofs.StateResSpecExecOrder2
import VProofs.StateResSpecUnique
namespace V.StateResSpec.Exec
open V Json GoJson Auth List
open V.StateRes (ID IdNodup eventMapFromEvents findByID dedupStep eventMapFromEvents_eq findByID_isSome resolveV2New
  mem_eventMap)
open V.StateResSpec

/-! ## `distinct` is the model's `eventMapFromEvents` -/

theorem dedupFold_eq_distinct : ∀ (l acc : List Event),
    l.foldl dedupStep acc = acc ++ (distinct l).filter (fun x => !memID acc x)
  | [], acc => by simp [distinct]
  | e :: es, acc => by
    rw [List.foldl_cons, distinct_cons, List.filter_cons]
    by_cases hin : memID acc e = true
    · have hsome : (findByID acc e.eventID).isSome = true := by
        rw [findByID_isSome]; exact memID_iff.mp hin
      have hstep : dedupStep acc e = acc := by unfold dedupStep; simp only [hsome, if_true]
      simp only [hin, Bool.not_true, Bool.false_eq_true, if_false]
      rw [hstep, dedupFold_eq_distinct es acc, List.filter_filter]
      congr 1
      apply List.filter_congr
      intro x _
      -- an event with e's ID is already excluded by `acc`
      by_cases hx : memID acc x = true
      · simp [hx]
      · have hx' : memID acc x = false := by simpa using hx
        have : sameID e x = false := by
          cases hs : sameID e x with
          | false => rfl
          | true =>
            exfalso
            obtain ⟨a, ha, hae⟩ := memID_iff.mp hin
            have : memID acc x = true := memID_iff.mpr ⟨a, ha, hae.trans (sameID_iff.mp hs)⟩
            rw [this] at hx'; cases hx'
        simp [hx', this]
    · have hin' : memID acc e = false := by simpa using hin
      have hnone : (findByID acc e.eventID).isSome = false := by
        cases h : (findByID acc e.eventID).isSome with
        | false => rfl
        | true =>
          exfalso
          have := memID_iff.mpr (findByID_isSome.mp h)
          rw [this] at hin'; cases hin'
      have hstep : dedupStep acc e = acc ++ [e] := by unfold dedupStep; simp only [hnone, Bool.false_eq_true, if_false]
      simp only [hin', Bool.not_false, if_true]
      rw [hstep, dedupFold_eq_distinct es (acc ++ [e]), List.filter_filter, List.append_assoc, List.singleton_append]
      congr 2
      apply List.filter_congr
      intro x _
      have : memID (acc ++ [e]) x = (memID acc x || sameID x e) := by
        unfold memID; rw [List.any_append]; simp
      rw [this, sameID_comm x e]
      cases memID acc x <;> cases sameID e x <;> rfl

theorem authMap_eq_eventMap (auth : List Event) : authMap auth = eventMapFromEvents auth := by
  rw [eventMapFromEvents_eq, dedupFold_eq_distinct]
  unfold authMap
  have : (fun x => !memID ([] : List Event) x) = fun _ => true := by funext x; simp [memID]
  rw [this, List.nil_append, List.filter_eq_self.mpr (fun _ _ => rfl)]

/-! ## the executable definition resolves -/

theorem resolve_resolves (algo : Nat) (halgo : algo = 2 ∨ algo = 3) (sets : List (List Event)) (auth : List Event)
    (rejected : List ID) (hwf : WF sets auth) (hr : Ranked (sets.flatten ++ auth)) :
    ∃ result : SMap, Resolves algo sets (authMap auth) auth rejected result ∧
      ∀ id, id ∈ resolve algo sets auth rejected ↔ ∃ k e, result k = some e ∧ e.eventID = id := by
  obtain ⟨hconf, hunconf, _, hctl, hoth, hothN⟩ := resolve_sets_spec algo hwf
  obtain ⟨m, hm⟩ : ∃ c, c = authMap auth := ⟨_, rfl⟩
  rw [← hm] at hctl hoth hothN
  obtain ⟨full, hfull⟩ : ∃ c, c = fullConflicted algo (reachTable m (distinct (sets.flatten ++ m))) m sets := ⟨_, rfl⟩
  rw [← hfull] at hctl hoth hothN
  obtain ⟨ctl, hctlD⟩ : ∃ c, c = controlSet (conflicted sets) full (unconflicted sets) := ⟨_, rfl⟩
  obtain ⟨oth, hothD⟩ : ∃ c, c = otherSet (conflicted sets) full (unconflicted sets) := ⟨_, rfl⟩
  rw [← hctlD] at hctl
  rw [← hothD] at hoth hothN
  obtain ⟨cre, hcre⟩ : ∃ c, c = roomCreate (unconflicted sets) auth (conflicted sets) := ⟨_, rfl⟩
  obtain ⟨uo, huo⟩ : ∃ c, c = powerOrder m cre (unconflicted sets) := ⟨_, rfl⟩
  obtain ⟨s1, hs1⟩ : ∃ c : AMap, c = if algo == 2 then uo.foldl applyOneA [] else [] := ⟨_, rfl⟩
  obtain ⟨co, hco⟩ : ∃ c, c = powerOrder m (createFor s1.toSMap cre) ctl := ⟨_, rfl⟩
  obtain ⟨s2, hs2⟩ : ∃ c, c = co.foldl (authStepA m rejected) s1 := ⟨_, rfl⟩
  obtain ⟨ml, hml⟩ : ∃ c, c = mainline m (s2.get (b!"m.room.power_levels", [])) := ⟨_, rfl⟩
  obtain ⟨oo, hoo⟩ : ∃ c, c = mainlineOrder m ml oth := ⟨_, rfl⟩
  have hres : resolve algo sets auth rejected =
      ((unconflicted sets).foldl applyOneA (oo.foldl (authStepA m rejected) s2)).map (·.2.eventID) := by
    subst hoo hml hs2 hco hs1 huo hcre hothD hctlD hfull hm
    rfl
  -- universe facts
  have hU := hwf.ids
  have hflat : ∀ x, InSomeSet sets x → x ∈ sets.flatten ++ auth := by
    rintro x ⟨S, hS, hx⟩; exact List.mem_append_left _ (List.mem_flatten.mpr ⟨S, hS, hx⟩)
  have hmU : ∀ x ∈ m, x ∈ sets.flatten ++ auth := fun x hx => List.mem_append_right _ (authMap_sub x (hm ▸ hx))
  have hunconfU : ∀ x ∈ unconflicted sets, x ∈ sets.flatten ++ auth := fun x hx => hflat x ((hunconf x).mp hx).1
  have hac : Acyclic (· ∈ m) := ranked_acyclic hr hmU
  have hctlU : ∀ x ∈ ctl, x ∈ sets.flatten ++ auth := by
    intro x hx
    obtain ⟨r, hroot, hreach⟩ := (hctl x).mp hx
    have hrU : r ∈ sets.flatten ++ auth := by
      rcases hroot.1 with h | h | ⟨_, h⟩
      · exact hflat r h.1
      · obtain ⟨⟨S, _, s, _, hre⟩, _⟩ := h; exact hmU r hre.target
      · obtain ⟨S, hS, o, ho, _, hro, _⟩ := h
        rcases hro.source_or_mem with h' | h'
        · exact h' ▸ hflat o ⟨S, hS, ho⟩
        · exact hmU r h'
    rcases hreach with h | h
    · exact h ▸ hrU
    · exact hflat x h.target.1
  -- orderings
  have hkU : IsReverseTopoPowerOrder m cre (unconflicted sets) uo := huo ▸
    powerOrder_is_power_order m cre _ (fun a ha b hb => hU a b (hunconfU a ha) (hunconfU b hb))
      (ranked_kahn hr _ hunconfU)
  have hs1map : s1.toSMap = (if algo = 2 then applyAll SMap.empty uo else SMap.empty) := by
    rcases halgo with rfl | rfl
    · simp only [hs1]; exact initial_toSMap uo
    · simp only [hs1]; rfl
  have hs1k : AKeysNodup s1 := by
    rcases halgo with rfl | rfl
    · simp only [hs1]; exact foldl_applyOneA_keysNodup uo aKeysNodup_nil
    · simp only [hs1]; exact aKeysNodup_nil
  have hkC : IsReverseTopoPowerOrder m (createFor s1.toSMap cre) ctl co := hco ▸
    powerOrder_is_power_order m _ ctl (fun a ha b hb => hU a b (hctlU a ha) (hctlU b hb)) (ranked_kahn hr ctl hctlU)
  have hs2map : s2.toSMap = iterAuth m rejected s1.toSMap co := by rw [hs2, foldl_authStepA_toSMap]
  have hML : IsMainline m (iterAuth m rejected s1.toSMap co (b!"m.room.power_levels", [])) ml := by
    rw [← hs2map, hml]; exact mainline_is_mainline hac _
  have hMO : IsMainlineOrder m ml oth oo := hoo ▸ mainlineOrder_spec hac ml oth
  subst hm
  refine ⟨((unconflicted sets).foldl applyOneA (oo.foldl (authStepA (authMap auth) rejected) s2)).toSMap, ?_, ?_⟩
  · refine ⟨⟨conflicted sets, unconflicted sets, ctl, oth, uo, co, oo, ml, hconf, hunconf, hctl, hoth, hothN, ?_, ?_⟩⟩
    · rw [← hcre]; exact hkU
    · rw [← hcre, ← hs1map]
      refine ⟨hkC, hML, hMO, ?_⟩
      rw [hs2, pipeline_toSMap]
  · intro id
    rw [hres]
    exact amap_ids_iff (by rw [hs2]; exact pipeline_keysNodup (authMap auth) rejected hs1k co oo _) id

/-- **The executable definition and the model return the same events** (well-formed, ranked input with at most one
    conflicted create event): the specification stream the driver prints is, provably, the model's answer. -/
theorem resolve_eq_model (algo : Nat) (halgo : algo = 2 ∨ algo = 3) (sets : List (List Event)) (auth : List Event)
    (rejected : List ID) (hwf : WF sets auth) (hr : Ranked (sets.flatten ++ auth))
    (hc : ∀ a b, Conflicted sets a → Conflicted sets b → a.isCreate = true → b.isCreate = true → a = b) (id : ID) :
    id ∈ resolve algo sets auth rejected ↔ id ∈ (resolveV2New algo sets auth rejected).result := by
  obtain ⟨r1, h1, hid1⟩ := resolve_resolves algo halgo sets auth rejected hwf hr
  obtain ⟨r2, h2, hrel, hk⟩ := resolveV2State_resolves algo halgo sets auth rejected hwf hr
  rw [authMap_eq_eventMap] at h1
  have hU : IDsIdentify (fun e => e ∈ sets.flatten ++ eventMapFromEvents auth) := by
    intro a b ha hb
    have key : ∀ x, x ∈ sets.flatten ++ eventMapFromEvents auth → x ∈ sets.flatten ++ auth := by
      intro x hx
      rcases List.mem_append.mp hx with h | h
      · exact List.mem_append_left _ h
      · exact List.mem_append_right _ (mem_eventMap h)
    exact hwf.ids a b (key a ha) (key b hb)
  have : r1 = r2 := Resolves.unique hU hc h1 h2
  rw [hid1, this, resolveV2New_result]
  exact (result_ids_iff hk hrel id).symm

end V.StateResSpec.Exec
