/-
  C10: the definition `Resolves` DETERMINES the resolved state (for well-formed input with at most one conflicted
  create event): every stage relation has a unique output, so the existential enumerations of the sets do not matter.
  Core only.
-/
import VProofs.StateResSpecResolve
namespace V.StateResSpec
open V Json GoJson Auth List
open V.StateRes

/-! ## orderings -/

theorem PowerLt_asymm (m : List Event) (c : Option Event) (a b : Event) : PowerLt m c a b → ¬ PowerLt m c b a := by
  unfold PowerLt
  intro h h'
  have := powerLt_strictTotal.asymm _ _ h
  rw [this] at h'; cases h'

theorem IsReverseTopoPowerOrder.unique {m : List Event} {c : Option Event} {i₁ i₂ o₁ o₂ : List Event}
    (hs : ∀ x, x ∈ i₁ ↔ x ∈ i₂) (h1 : IsReverseTopoPowerOrder m c i₁ o₁) (h2 : IsReverseTopoPowerOrder m c i₂ o₂) :
    o₁ = o₂ :=
  IsPowerOrder.eq_of (PowerLt_asymm m c) (h1.congr_input hs) h2

theorem IsMainlineOrder.congr_input {m ml input input' out : List Event} (hp : input'.Perm input)
    (h : IsMainlineOrder m ml input out) : IsMainlineOrder m ml input' out := by
  obtain ⟨h1, key, hk, hs⟩ := h
  exact ⟨h1.trans hp.symm, key, fun e he => hk e (hp.mem_iff.mp he), hs⟩

/-! ## applying a set of events with one event per key -/

def OnePerKey (P : Event → Prop) : Prop := ∀ a b, P a → P b → keyOf a ≠ none → keyOf a = keyOf b → a = b

theorem applyAll_apply (k : Key) : ∀ (l : List Event) (f : SMap),
    (∃ e ∈ l, keyOf e = some k ∧ applyAll f l k = some e) ∨ ((∀ e ∈ l, keyOf e ≠ some k) ∧ applyAll f l k = f k)
  | [], f => Or.inr ⟨by simp, rfl⟩
  | a :: l, f => by
    have ih := applyAll_apply k l (applyOne f a)
    have hstep : applyAll f (a :: l) = applyAll (applyOne f a) l := rfl
    rw [hstep]
    rcases ih with ⟨e, he, hk, hv⟩ | ⟨hno, hv⟩
    · exact Or.inl ⟨e, List.mem_cons_of_mem _ he, hk, hv⟩
    · by_cases hak : keyOf a = some k
      · left
        refine ⟨a, by simp, hak, ?_⟩
        rw [hv]; unfold applyOne; rw [hak]; simp [SMap.set]
      · right
        refine ⟨?_, ?_⟩
        · intro e he
          rcases List.mem_cons.mp he with rfl | he'
          · exact hak
          · exact hno e he'
        · rw [hv]; unfold applyOne
          cases hka : keyOf a with
          | none => rfl
          | some k' =>
            have : k ≠ k' := fun h => hak (by rw [hka, h])
            simp [SMap.set, this]

theorem applyAll_sameSet {P : Event → Prop} (hP : OnePerKey P) {l₁ l₂ : List Event} (h1 : ∀ x, x ∈ l₁ ↔ P x)
    (h2 : ∀ x, x ∈ l₂ ↔ P x) (f : SMap) : applyAll f l₁ = applyAll f l₂ := by
  funext k
  rcases applyAll_apply k l₁ f with ⟨e1, he1, hk1, hv1⟩ | ⟨hno1, hv1⟩ <;>
    rcases applyAll_apply k l₂ f with ⟨e2, he2, hk2, hv2⟩ | ⟨hno2, hv2⟩
  · rw [hv1, hv2, hP e1 e2 ((h1 _).mp he1) ((h2 _).mp he2) (by rw [hk1]; simp) (hk1.trans hk2.symm)]
  · exact absurd hk1 (hno2 e1 ((h2 _).mpr ((h1 _).mp he1)))
  · exact absurd hk2 (hno1 e2 ((h1 _).mpr ((h2 _).mp he2)))
  · rw [hv1, hv2]

/-- the unconflicted events have one event per key -/
theorem unconflicted_onePerKey (sets : List (List Event)) : OnePerKey (Unconflicted sets) := by
  intro a b ha hb _ hk
  obtain ⟨⟨S, hS, haS⟩, ka, hua⟩ := ha
  obtain ⟨_, kb, hub⟩ := hb
  have hka : keyOf a = some ka := ((hua S hS a).mpr rfl).2
  have hbS := (hub S hS b).mpr rfl
  have hkb : keyOf b = some kb := hbS.2
  have : ka = kb := by rw [hka, hkb] at hk; exact Option.some.inj hk
  subst this
  exact ((hua S hS b).mp hbS).symm

/-! ## the create event -/

theorem isCreate_key {e : Event} (h : e.isCreate = true) : keyOf e = some (b!"m.room.create", []) := by
  unfold Event.isCreate at h
  simp only [Bool.and_eq_true, beq_iff_eq] at h
  unfold keyOf
  unfold Event.stateKeyEquals at h
  have h2 : e.stateKey = some [] := by simpa using h.2
  rw [h2, h.1]; rfl

theorem firstCreate_sameSet {P : Event → Prop} (hP : ∀ a b, P a → P b → a.isCreate = true → b.isCreate = true → a = b)
    {l₁ l₂ : List Event} (h1 : ∀ x, x ∈ l₁ ↔ P x) (h2 : ∀ x, x ∈ l₂ ↔ P x) : firstCreate l₁ = firstCreate l₂ := by
  unfold firstCreate
  cases hf1 : l₁.find? (fun e => e.isCreate) with
  | none =>
    cases hf2 : l₂.find? (fun e => e.isCreate) with
    | none => rfl
    | some c2 =>
      have hc2 := List.find?_some hf2
      have : c2 ∈ l₁ := (h1 _).mpr ((h2 _).mp (List.mem_of_find?_eq_some hf2))
      exact absurd hc2 (by simpa using List.find?_eq_none.mp hf1 c2 this)
  | some c1 =>
    have hc1 := List.find?_some hf1
    have hm1 := List.mem_of_find?_eq_some hf1
    cases hf2 : l₂.find? (fun e => e.isCreate) with
    | none =>
      have : c1 ∈ l₂ := (h2 _).mpr ((h1 _).mp hm1)
      exact absurd hc1 (by simpa using List.find?_eq_none.mp hf2 c1 this)
    | some c2 =>
      have hc2 := List.find?_some hf2
      have hm2 := List.mem_of_find?_eq_some hf2
      rw [hP c1 c2 ((h1 _).mp hm1) ((h2 _).mp hm2) hc1 hc2]

/-- **The definition determines the resolved state.**  `hc`: at most one conflicted create event (otherwise "the
    room's create event", consulted only to decide who the creators of a version-12 room are when neither the
    unconflicted state nor the auth events have one, would depend on the enumeration of the conflicted set). -/
theorem Resolves.unique {algo : Nat} {sets : List (List Event)} {m auth : List Event} {rejected : List ID}
    (hU : IDsIdentify (fun e => e ∈ sets.flatten ++ m))
    (hc : ∀ a b, Conflicted sets a → Conflicted sets b → a.isCreate = true → b.isCreate = true → a = b)
    {r₁ r₂ : SMap} (h1 : Resolves algo sets m auth rejected r₁) (h2 : Resolves algo sets m auth rejected r₂) : r₁ = r₂ := by
  obtain ⟨conf, unconf, ctl, oth, uo, co, oo, ml, hsc, hsu, hctl, hoth, hothN, hkU, hrest⟩ := h1
  obtain ⟨conf', unconf', ctl', oth', uo', co', oo', ml', hsc', hsu', hctl', hoth', hothN', hkU', hrest'⟩ := h2
  obtain ⟨hkC, hML, hMO, hres⟩ := hrest
  obtain ⟨hkC', hML', hMO', hres'⟩ := hrest'
  -- the create event
  have hcreate : roomCreate unconf auth conf = roomCreate unconf' auth conf' := by
    unfold roomCreate
    have e1 : firstCreate unconf = firstCreate unconf' :=
      firstCreate_sameSet (fun a b ha hb hca hcb =>
        unconflicted_onePerKey sets a b ha hb (by rw [isCreate_key hca]; simp) ((isCreate_key hca).trans (isCreate_key hcb).symm))
        hsu hsu'
    have e2 : firstCreate conf = firstCreate conf' := firstCreate_sameSet hc hsc hsc'
    rw [e1, e2]
  -- the first ordering and the first state
  have huo : uo = uo' := by
    rw [hcreate] at hkU
    exact IsReverseTopoPowerOrder.unique (fun x => (hsu x).trans (hsu' x).symm) hkU hkU'
  subst huo
  rw [hcreate] at hkC
  have hco : co = co' := IsReverseTopoPowerOrder.unique (fun x => (hctl x).trans (hctl' x).symm) hkC hkC'
  subst hco
  have hml : ml = ml' := IsMainline.unique hML hML'
  subst hml
  -- the rest
  have hothP : oth'.Perm oth := (List.perm_ext_iff_of_nodup hothN' hothN).mpr (fun x => (hoth' x).trans (hoth x).symm)
  have hothU : ∀ a ∈ oth, ∀ b ∈ oth, a.eventID = b.eventID → a = b := by
    intro a ha b hb hab
    have inU : ∀ x ∈ oth, x ∈ sets.flatten ++ m := by
      intro x hx
      rcases ((hoth x).mp hx).1 with h | h | ⟨_, h⟩
      · obtain ⟨⟨S, hS, hxS⟩, _⟩ := h
        exact List.mem_append_left _ (List.mem_flatten.mpr ⟨S, hS, hxS⟩)
      · obtain ⟨⟨S, _, s, _, hreach⟩, _⟩ := h
        exact List.mem_append_right _ hreach.target
      · obtain ⟨S, hS, o, ho, _, hro, _⟩ := h
        rcases hro.source_or_mem with h' | h'
        · exact h' ▸ List.mem_append_left _ (List.mem_flatten.mpr ⟨S, hS, ho⟩)
        · exact List.mem_append_right _ h'
    exact hU a b (inU a ha) (inU b hb) hab
  have hoo : oo = oo' := IsMainlineOrder.unique hothU hMO (hMO'.congr_input hothP.symm)
  subst hoo
  rw [hres, hres']
  exact applyAll_sameSet (unconflicted_onePerKey sets) hsu hsu' _

end V.StateResSpec
