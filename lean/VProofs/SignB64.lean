/- Base64 as `spec.Base64Bytes` reads and writes it: decoding what `Encode` wrote gives the bytes back
   (so a signature stored by SignJSON is the signature VerifyJSON reads).  Core only. -/
import VModel.Sign
namespace V.Sign
open V

/-- the sextets `b64Encode` writes -/
def sextets : Bytes → List Nat
  | [] => []
  | [a] => [a.toNat / 4, a.toNat % 4 * 16]
  | [a, b] => [a.toNat / 4, a.toNat % 4 * 16 + b.toNat / 16, b.toNat % 16 * 4]
  | a :: b :: c :: rest =>
    a.toNat / 4 :: (a.toNat % 4 * 16 + b.toNat / 16) :: (b.toNat % 16 * 4 + c.toNat / 64) :: c.toNat % 64 :: sextets rest

theorem b64Encode_eq_map : ∀ b : Bytes, b64Encode b = (sextets b).map stdChar
  | [] => rfl
  | [_] => rfl
  | [_, _] => rfl
  | a :: b :: c :: rest => by
    simp only [b64Encode, sextets, List.map_cons, b64Encode_eq_map rest]

theorem sextets_lt : ∀ b : Bytes, ∀ n ∈ sextets b, n < 64
  | [], n, h => by simp [sextets] at h
  | [a], n, h => by
    have := a.toNat_lt
    simp only [sextets, List.mem_cons, List.not_mem_nil, or_false] at h
    rcases h with rfl | rfl <;> omega
  | [a, b], n, h => by
    have := a.toNat_lt
    have := b.toNat_lt
    simp only [sextets, List.mem_cons, List.not_mem_nil, or_false] at h
    rcases h with rfl | rfl | rfl <;> omega
  | a :: b :: c :: rest, n, h => by
    have := a.toNat_lt
    have := b.toNat_lt
    have := c.toNat_lt
    simp only [sextets, List.mem_cons] at h
    rcases h with rfl | rfl | rfl | rfl | h
    · omega
    · omega
    · omega
    · omega
    · exact sextets_lt rest n h

/-- every character of the standard alphabet reads back as its value and is neither a URL-alphabet
    marker nor a line break -/
theorem stdChar_facts : ∀ n : Fin 64,
    b64Val false (stdChar n.val) = some n.val ∧ isURLMark (stdChar n.val) = false ∧ isCRLF (stdChar n.val) = false := by
  decide

theorem stdChar_val (n : Nat) (h : n < 64) : b64Val false (stdChar n) = some n := (stdChar_facts ⟨n, h⟩).1
theorem stdChar_notURL (n : Nat) (h : n < 64) : isURLMark (stdChar n) = false := (stdChar_facts ⟨n, h⟩).2.1
theorem stdChar_notCRLF (n : Nat) (h : n < 64) : isCRLF (stdChar n) = false := (stdChar_facts ⟨n, h⟩).2.2

theorem b64Vals_map_stdChar : ∀ l : List Nat, (∀ n ∈ l, n < 64) → b64Vals false (l.map stdChar) = some l
  | [], _ => rfl
  | n :: ns, h => by
    simp only [List.map_cons, b64Vals, stdChar_val n (h n List.mem_cons_self),
      b64Vals_map_stdChar ns (fun m hm => h m (List.mem_cons_of_mem _ hm))]

theorem ofNat_toNat (a : UInt8) : UInt8.ofNat a.toNat = a := by
  apply UInt8.toNat_inj.mp
  simp

theorem byte_eq (a : UInt8) (n : Nat) (h : n = a.toNat) : UInt8.ofNat n = a := by
  rw [h]; exact ofNat_toNat a

theorem b64Bytes_sextets : ∀ b : Bytes, b64Bytes (sextets b) = some b
  | [] => rfl
  | [a] => by
    have := a.toNat_lt
    simp only [sextets, b64Bytes]
    rw [byte_eq a _ (by omega)]
  | [a, b] => by
    have := a.toNat_lt
    have := b.toNat_lt
    simp only [sextets, b64Bytes]
    rw [byte_eq a _ (by omega), byte_eq b _ (by omega)]
  | a :: b :: c :: rest => by
    have := a.toNat_lt
    have := b.toNat_lt
    have := c.toNat_lt
    simp only [sextets, b64Bytes, b64Bytes_sextets rest]
    rw [byte_eq a _ (by omega), byte_eq b _ (by omega), byte_eq c _ (by omega)]

/-- **Round trip**: `Base64Bytes.Decode(b.Encode()) = b`. -/
theorem b64Decode_encode (b : Bytes) : b64Decode (b64Encode b) = some b := by
  have hlt := sextets_lt b
  unfold b64Decode
  rw [b64Encode_eq_map]
  have hany : ((sextets b).map stdChar).any isURLMark = false := by
    rw [List.any_eq_false]
    intro c hc
    obtain ⟨n, hn, rfl⟩ := List.mem_map.mp hc
    simp [stdChar_notURL n (hlt n hn)]
  have hfil : ((sextets b).map stdChar).filter (fun c => !isCRLF c) = (sextets b).map stdChar := by
    rw [List.filter_eq_self]
    intro c hc
    obtain ⟨n, hn, rfl⟩ := List.mem_map.mp hc
    simp [stdChar_notCRLF n (hlt n hn)]
  rw [hany, hfil, b64Vals_map_stdChar _ hlt]
  exact b64Bytes_sextets b

end V.Sign
