/-
  The set-valued stages of the EXECUTABLE rendering `VModel/StateResSpecExec.lean` compute the Prop-level
  definitions of `VModel/StateResSpec.lean`, for well-formed input (event IDs identify events).
  Part 2: auth difference, conflicted subgraph, full conflicted set, control set, other set.
  Core only.
-/
import VProofs.StateResSpecExecSets
namespace V.StateResSpec.Exec
open V Json List
open V.StateRes (ID IdNodup IdsIn EvId isControlEvent)
open V.StateResSpec

/-! ## the universe list `distinct (sets.flatten ++ m)` -/

section AuthDiff
variable {U : Event → Prop} {m : List Event} {sets : List (List Event)}

theorem flatten_sub (hsU : ∀ S ∈ sets, ∀ x ∈ S, U x) : ∀ x ∈ sets.flatten, U x := by
  intro x hx
  obtain ⟨S, hS, hxS⟩ := List.mem_flatten.mp hx
  exact hsU S hS x hxS

theorem idsIdentify_flatten (hU : IDsIdentify U) (hsU : ∀ S ∈ sets, ∀ x ∈ S, U x) :
    IDsIdentify (· ∈ sets.flatten) :=
  fun a b ha hb => hU a b (flatten_sub hsU a ha) (flatten_sub hsU b hb)

theorem univ_sub (hmU : ∀ x ∈ m, U x) (hsU : ∀ S ∈ sets, ∀ x ∈ S, U x) : ∀ x ∈ sets.flatten ++ m, U x := by
  intro x hx
  rcases List.mem_append.mp hx with h | h
  · exact flatten_sub hsU x h
  · exact hmU x h

theorem mem_univ_iff (hU : IDsIdentify U) (hmU : ∀ x ∈ m, U x) (hsU : ∀ S ∈ sets, ∀ x ∈ S, U x) {x : Event} :
    x ∈ distinct (sets.flatten ++ m) ↔ x ∈ sets.flatten ∨ x ∈ m := by
  rw [mem_distinct_iff' hU (univ_sub hmU hsU), List.mem_append]

theorem distinct_univ_sub (hmU : ∀ x ∈ m, U x) (hsU : ∀ S ∈ sets, ∀ x ∈ S, U x) :
    ∀ x ∈ distinct (sets.flatten ++ m), U x := distinct_subset (univ_sub hmU hsU)

theorem reach_target {P : Event → Prop} {x y : Event} (h : Reach P x y) : x = y ∨ P y := by
  rcases h with h | h
  · exact Or.inl h
  · exact Or.inr h.target

/-! ## auth chains and the auth difference -/

theorem inAuthChain_iff (hU : IDsIdentify U) (hm : IdNodup m) (hmU : ∀ x ∈ m, U x) (hsU : ∀ S ∈ sets, ∀ x ∈ S, U x)
    {S : List Event} (hS : S ∈ sets) {y : Event} (hy : U y) :
    inAuthChain (reachTable m (distinct (sets.flatten ++ m))) S y = true ↔ InAuthChain (· ∈ m) S y := by
  unfold inAuthChain InAuthChain
  rw [List.any_eq_true]
  have key : ∀ s ∈ S, ((reachTable m (distinct (sets.flatten ++ m))).plus s y = true ↔ ReachPlus (· ∈ m) s y) :=
    fun s hs => plus_iff_in hU hm hmU (distinct_univ_sub hmU hsU)
      ((mem_univ_iff hU hmU hsU).mpr (Or.inl (mem_flatten_of hS hs))) hy
  constructor
  · rintro ⟨s, hs, h⟩; exact ⟨s, hs, (key s hs).mp h⟩
  · rintro ⟨s, hs, h⟩; exact ⟨s, hs, (key s hs).mpr h⟩

theorem mem_authDifference_iff (hU : IDsIdentify U) (hm : IdNodup m) (hmU : ∀ x ∈ m, U x)
    (hsU : ∀ S ∈ sets, ∀ x ∈ S, U x) {y : Event} :
    y ∈ authDifference (reachTable m (distinct (sets.flatten ++ m))) m sets ↔ AuthDifference (· ∈ m) sets y := by
  unfold authDifference AuthDifference
  rw [List.mem_filter, Bool.and_eq_true, Bool.not_eq_true', List.any_eq_true, List.all_eq_false]
  constructor
  · rintro ⟨hy, ⟨S, hS, h⟩, S', hS', h'⟩
    have hyU := hmU y hy
    exact ⟨⟨S, hS, (inAuthChain_iff hU hm hmU hsU hS hyU).mp h⟩,
      S', hS', fun hc => h' ((inAuthChain_iff hU hm hmU hsU hS' hyU).mpr hc)⟩
  · rintro ⟨⟨S, hS, h⟩, S', hS', h'⟩
    have hy : y ∈ m := by
      obtain ⟨s, _, hr⟩ := h
      exact hr.target
    have hyU := hmU y hy
    exact ⟨hy, ⟨S, hS, (inAuthChain_iff hU hm hmU hsU hS hyU).mpr h⟩,
      S', hS', fun hc => h' ((inAuthChain_iff hU hm hmU hsU hS' hyU).mp hc)⟩

theorem authDifference_sub {t : ReachTable} : ∀ x ∈ authDifference t m sets, x ∈ m :=
  fun _ hx => (List.mem_filter.mp hx).1

/-! ## the conflicted subgraph (v2.1) -/

/-- `hconf : ∀ x ∈ conf, U x` is not needed: the conflicted events enter by ID only, on both sides. -/
theorem mem_subgraph_iff (hU : IDsIdentify U) (hm : IdNodup m) (hmU : ∀ x ∈ m, U x)
    (hsU : ∀ S ∈ sets, ∀ x ∈ S, U x) (conf : List Event) {x : Event} :
    x ∈ subgraph (reachTable m (distinct (sets.flatten ++ m))) m conf sets ↔
      ConflictedSubgraph (· ∈ m) (· ∈ conf) sets x := by
  unfold subgraph ConflictedSubgraph
  simp only []
  rw [List.mem_filter, Bool.and_eq_true, List.any_eq_true, List.any_eq_true]
  have hUl := distinct_univ_sub hmU hsU
  have hstar : ∀ a ∈ distinct (sets.flatten ++ m), ∀ b, U b →
      ((reachTable m (distinct (sets.flatten ++ m))).star a b = true ↔ Reach (· ∈ m) a b) :=
    fun a ha b hb => star_iff_in hU hm hmU hUl ha hb
  constructor
  · rintro ⟨hx, ⟨S, hS, hany⟩, c, hc, hxc⟩
    obtain ⟨o, hoS, ho⟩ := List.any_eq_true.mp hany
    rw [Bool.and_eq_true] at ho
    obtain ⟨hcUl, hcc⟩ := List.mem_filter.mp hc
    have hoUl : o ∈ distinct (sets.flatten ++ m) := (mem_univ_iff hU hmU hsU).mpr (Or.inl (mem_flatten_of hS hoS))
    exact ⟨S, hS, o, hoS, memID_iff.mp ho.1, (hstar o hoUl x (hUl x hx)).mp ho.2,
      c, memID_iff.mp hcc, (hstar x hx c (hUl c hcUl)).mp hxc⟩
  · rintro ⟨S, hS, o, hoS, hoc, hox, c, hcc, hxc⟩
    have hoUl : o ∈ distinct (sets.flatten ++ m) := (mem_univ_iff hU hmU hsU).mpr (Or.inl (mem_flatten_of hS hoS))
    have hx : x ∈ distinct (sets.flatten ++ m) := by
      rcases reach_target hox with h | h
      · exact h ▸ hoUl
      · exact (mem_univ_iff hU hmU hsU).mpr (Or.inr h)
    have hcUl : c ∈ distinct (sets.flatten ++ m) := by
      rcases reach_target hxc with h | h
      · exact h ▸ hx
      · exact (mem_univ_iff hU hmU hsU).mpr (Or.inr h)
    refine ⟨hx, ⟨S, hS, List.any_eq_true.mpr ⟨o, hoS, ?_⟩⟩, c, List.mem_filter.mpr ⟨hcUl, memID_iff.mpr hcc⟩, ?_⟩
    · rw [Bool.and_eq_true]
      exact ⟨memID_iff.mpr hoc, (hstar o hoUl x (hUl x hx)).mpr hox⟩
    · exact (hstar x hx c (hUl c hcUl)).mpr hxc

theorem subgraph_sub {t : ReachTable} {conf : List Event} :
    ∀ x ∈ subgraph t m conf sets, x ∈ distinct (sets.flatten ++ m) :=
  fun _ hx => (List.mem_filter.mp hx).1

/-- the conflicted subgraph depends on the conflicted set only through its extension -/
theorem conflictedSubgraph_congr {P C C' : Event → Prop} (h : ∀ x, C x ↔ C' x) (sets : List (List Event)) (x : Event) :
    ConflictedSubgraph P C sets x ↔ ConflictedSubgraph P C' sets x := by
  unfold ConflictedSubgraph
  simp only [h]

/-! ## the full conflicted set -/

theorem conflicted_sub : ∀ x ∈ conflicted sets, x ∈ sets.flatten := by
  intro x hx
  unfold conflicted stateEvents at hx
  exact mem_of_mem_distinct (List.mem_filter.mp (List.mem_filter.mp hx).1).1

theorem unconflicted_sub : ∀ x ∈ unconflicted sets, x ∈ sets.flatten := by
  intro x hx
  unfold unconflicted stateEvents at hx
  exact mem_of_mem_distinct (List.mem_filter.mp (List.mem_filter.mp hx).1).1

/-- `halgo : algo = 2 ∨ algo = 3` is not needed. -/
theorem mem_fullConflicted_iff (hU : IDsIdentify U) (hm : IdNodup m) (hmU : ∀ x ∈ m, U x)
    (hsU : ∀ S ∈ sets, ∀ x ∈ S, U x) (algo : Nat) {x : Event} :
    x ∈ fullConflicted algo (reachTable m (distinct (sets.flatten ++ m))) m sets ↔
      FullConflicted algo (· ∈ m) sets x := by
  unfold fullConflicted FullConflicted
  have hids := idsIdentify_flatten hU hsU
  have hsubU : ∀ z ∈ (if algo == 3 then subgraph (reachTable m (distinct (sets.flatten ++ m))) m (conflicted sets) sets
      else []), U z := by
    intro z hz
    split at hz
    · exact distinct_univ_sub hmU hsU z (subgraph_sub z hz)
    · cases hz
  have hall : ∀ z ∈ conflicted sets ++ authDifference (reachTable m (distinct (sets.flatten ++ m))) m sets ++
      (if algo == 3 then subgraph (reachTable m (distinct (sets.flatten ++ m))) m (conflicted sets) sets else []),
      U z := by
    intro z hz
    rcases List.mem_append.mp hz with h | h
    · rcases List.mem_append.mp h with h | h
      · exact flatten_sub hsU z (conflicted_sub z h)
      · exact hmU z (authDifference_sub z h)
    · exact hsubU z h
  rw [mem_distinct_iff' hU hall, List.mem_append, List.mem_append, or_assoc, mem_conflicted_iff hids,
    mem_authDifference_iff hU hm hmU hsU]
  have h3 : x ∈ (if algo == 3 then subgraph (reachTable m (distinct (sets.flatten ++ m))) m (conflicted sets) sets
      else []) ↔ (algo = 3 ∧ ConflictedSubgraph (· ∈ m) (Conflicted sets) sets x) := by
    by_cases ha : algo = 3
    · subst ha
      simp only [beq_self_eq_true, if_true, true_and]
      rw [mem_subgraph_iff hU hm hmU hsU]
      exact conflictedSubgraph_congr (fun z => mem_conflicted_iff hids) sets x
    · have : (algo == 3) = false := by rw [beq_eq_false_iff_ne]; exact ha
      rw [this]
      simp [ha]
  rw [h3]

end AuthDiff

/-! ## control set and the rest -/

section Control
variable {U : Event → Prop} {conf full unconf : List Event}

theorem mem_controlRoots_iff {r : Event} :
    r ∈ controlRoots full unconf ↔ ControlRoot (· ∈ full) (· ∈ unconf) r := by
  unfold controlRoots ControlRoot
  rw [List.mem_filter, Bool.and_eq_true, Bool.not_eq_true', memID_eq_false]
  constructor
  · rintro ⟨hf, hn, hc⟩
    exact ⟨hf, fun ⟨u, hu, hid⟩ => hn u hu hid, hc⟩
  · rintro ⟨hf, hn, hc⟩
    exact ⟨hf, fun u hu hid => hn ⟨u, hu, hid⟩, hc⟩

theorem controlRoots_sub : ∀ r ∈ controlRoots full unconf, r ∈ full :=
  fun _ hr => (List.mem_filter.mp hr).1

/-- `unconf` need not lie inside `U`: it enters by ID only. -/
theorem mem_controlSet_iff (hU : IDsIdentify U) (hfU : ∀ x ∈ full, U x) (hcU : ∀ x ∈ conf, U x)
    (hconfN : IdNodup conf) {x : Event} :
    x ∈ controlSet conf full unconf ↔ ControlSet (· ∈ conf) (· ∈ full) (· ∈ unconf) x := by
  unfold controlSet ControlSet
  simp only []
  rw [List.mem_filter, List.any_eq_true]
  have hall : ∀ z ∈ full ++ conf, U z := by
    intro z hz
    rcases List.mem_append.mp hz with h | h
    · exact hfU z h
    · exact hcU z h
  have hrU : ∀ r ∈ controlRoots full unconf, U r := fun r hr => hfU r (controlRoots_sub r hr)
  rw [mem_distinct_iff' hU hall, List.mem_append]
  constructor
  · rintro ⟨hx, r, hr, hstar⟩
    have hxU : U x := hall x (List.mem_append.mpr hx)
    exact ⟨r, mem_controlRoots_iff.mp hr, (star_iff_in hU hconfN hcU hrU hr hxU).mp hstar⟩
  · rintro ⟨r, hroot, hreach⟩
    have hr := mem_controlRoots_iff.mpr hroot
    have hx : x ∈ full ∨ x ∈ conf := by
      rcases reach_target hreach with h | h
      · exact Or.inl (h ▸ controlRoots_sub r hr)
      · exact Or.inr h
    have hxU : U x := hall x (List.mem_append.mpr hx)
    exact ⟨hx, r, hr, (star_iff_in hU hconfN hcU hrU hr hxU).mpr hreach⟩

theorem controlSet_sub : ∀ x ∈ controlSet conf full unconf, x ∈ full ∨ x ∈ conf := by
  intro x hx
  unfold controlSet at hx
  exact List.mem_append.mp (mem_of_mem_distinct (List.mem_filter.mp hx).1)

theorem mem_otherSet_iff (hU : IDsIdentify U) (hfU : ∀ x ∈ full, U x) (hcU : ∀ x ∈ conf, U x)
    (hconfN : IdNodup conf) {x : Event} :
    x ∈ otherSet conf full unconf ↔ OtherSet (· ∈ conf) (· ∈ full) (· ∈ unconf) x := by
  unfold otherSet OtherSet
  simp only []
  rw [List.mem_filter, Bool.and_eq_true, Bool.not_eq_true', Bool.not_eq_true', memID_eq_false]
  have hctlU : ∀ z ∈ controlSet conf full unconf, U z := by
    intro z hz
    rcases controlSet_sub z hz with h | h
    · exact hfU z h
    · exact hcU z h
  constructor
  · rintro ⟨hf, hn, hc⟩
    refine ⟨hf, fun ⟨u, hu, hid⟩ => hn u hu hid, ?_⟩
    intro hcs
    have := (memID_iff_mem hU hctlU (hfU x hf)).mpr ((mem_controlSet_iff hU hfU hcU hconfN).mpr hcs)
    rw [hc] at this; cases this
  · rintro ⟨hf, hn, hc⟩
    refine ⟨hf, fun u hu hid => hn ⟨u, hu, hid⟩, ?_⟩
    cases hmem : memID (controlSet conf full unconf) x with
    | false => rfl
    | true =>
      exact absurd ((mem_controlSet_iff hU hfU hcU hconfN).mp ((memID_iff_mem hU hctlU (hfU x hf)).mp hmem)) hc

end Control

/-! ## congruence of the definitions in their set arguments; the stages as `resolve` instantiates them -/

theorem reachPlus_congr {P Q : Event → Prop} (h : ∀ x, P x ↔ Q x) (x y : Event) : ReachPlus P x y ↔ ReachPlus Q x y :=
  ⟨ReachPlus.mono (fun z => (h z).mp), ReachPlus.mono (fun z => (h z).mpr)⟩

theorem controlRoot_congr {F F' Un Un' : Event → Prop} (hf : ∀ x, F x ↔ F' x) (hu : ∀ x, Un x ↔ Un' x) (r : Event) :
    ControlRoot F Un r ↔ ControlRoot F' Un' r := by
  unfold ControlRoot
  simp only [hf, hu]

theorem controlSet_congr {C C' F F' Un Un' : Event → Prop} (hc : ∀ x, C x ↔ C' x) (hf : ∀ x, F x ↔ F' x)
    (hu : ∀ x, Un x ↔ Un' x) (x : Event) : ControlSet C F Un x ↔ ControlSet C' F' Un' x := by
  unfold ControlSet Reach
  simp only [controlRoot_congr hf hu, reachPlus_congr hc]

theorem otherSet_congr {C C' F F' Un Un' : Event → Prop} (hc : ∀ x, C x ↔ C' x) (hf : ∀ x, F x ↔ F' x)
    (hu : ∀ x, Un x ↔ Un' x) (x : Event) : OtherSet C F Un x ↔ OtherSet C' F' Un' x := by
  unfold OtherSet
  simp only [controlSet_congr hc hf hu, hf, hu]

theorem fullConflicted_idNodup (algo : Nat) (t : ReachTable) (m : List Event) (sets : List (List Event)) :
    IdNodup (fullConflicted algo t m sets) := distinct_idNodup _

theorem otherSet_idNodup {conf full unconf : List Event} (h : IdNodup full) : IdNodup (otherSet conf full unconf) :=
  h.filter _

theorem authMap_idNodup (auth : List Event) : IdNodup (authMap auth) := distinct_idNodup auth

theorem authMap_sub {auth : List Event} : ∀ x ∈ authMap auth, x ∈ auth := fun _ h => mem_of_mem_distinct h

/-- **The set-valued stages of `Exec.resolve`** compute the sets the definition `Resolves` asks for
    (its `conf`, `unconf`, `ctl`, `oth` with `oth.Nodup`), for well-formed input. -/
theorem resolve_sets_spec (algo : Nat) {sets : List (List Event)} {auth : List Event} (hwf : WF sets auth) :
    let m := authMap auth
    let t := reachTable m (distinct (sets.flatten ++ m))
    let full := fullConflicted algo t m sets
    (∀ x, x ∈ conflicted sets ↔ Conflicted sets x) ∧
    (∀ x, x ∈ unconflicted sets ↔ Unconflicted sets x) ∧
    (∀ x, x ∈ full ↔ FullConflicted algo (· ∈ m) sets x) ∧
    (∀ x, x ∈ controlSet (conflicted sets) full (unconflicted sets) ↔
      ControlSet (Conflicted sets) (FullConflicted algo (· ∈ m) sets) (Unconflicted sets) x) ∧
    (∀ x, x ∈ otherSet (conflicted sets) full (unconflicted sets) ↔
      OtherSet (Conflicted sets) (FullConflicted algo (· ∈ m) sets) (Unconflicted sets) x) ∧
    (otherSet (conflicted sets) full (unconflicted sets)).Nodup := by
  intro m t full
  have hU := hwf.ids
  have hm : IdNodup m := authMap_idNodup auth
  have hmU : ∀ x ∈ m, x ∈ sets.flatten ++ auth := fun x hx => List.mem_append_right _ (authMap_sub x hx)
  have hsU : ∀ S ∈ sets, ∀ x ∈ S, x ∈ sets.flatten ++ auth :=
    fun S hS x hx => List.mem_append_left _ (mem_flatten_of hS hx)
  have hids : IDsIdentify (· ∈ sets.flatten) := idsIdentify_flatten hU hsU
  have hconf : ∀ x, x ∈ conflicted sets ↔ Conflicted sets x := fun x => mem_conflicted_iff hids
  have hunconf : ∀ x, x ∈ unconflicted sets ↔ Unconflicted sets x := fun x => mem_unconflicted_iff hids
  have hfull : ∀ x, x ∈ full ↔ FullConflicted algo (· ∈ m) sets x :=
    fun x => mem_fullConflicted_iff hU hm hmU hsU algo
  have hfU : ∀ x ∈ full, x ∈ sets.flatten ++ auth := by
    intro x hx
    rcases (hfull x).mp hx with h | h | h
    · exact List.mem_append_left _ (inSomeSet_iff.mp h.1)
    · obtain ⟨⟨S, _, s, _, hr⟩, _⟩ := h
      exact hmU x hr.target
    · obtain ⟨_, S, hS, o, hoS, _, hox, _⟩ := h
      rcases reach_target hox with h' | h'
      · exact h' ▸ hsU S hS o hoS
      · exact hmU x h'
  have hcU : ∀ x ∈ conflicted sets, x ∈ sets.flatten ++ auth :=
    fun x hx => List.mem_append_left _ (conflicted_sub x hx)
  refine ⟨hconf, hunconf, hfull, ?_, ?_, ?_⟩
  · intro x
    rw [mem_controlSet_iff hU hfU hcU (conflicted_idNodup sets)]
    exact controlSet_congr hconf hfull hunconf x
  · intro x
    rw [mem_otherSet_iff hU hfU hcU (conflicted_idNodup sets)]
    exact otherSet_congr hconf hfull hunconf x
  · exact (otherSet_idNodup (fullConflicted_idNodup algo t m sets)).nodup

end V.StateResSpec.Exec
