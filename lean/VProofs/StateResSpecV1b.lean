/-
  C10, version 1 (R1, R2), part 2: `resolveV1` computes what `V1Resolves` defines; the entry point; determinacy.
-/
import VProofs.StateResSpecV1
namespace V.StateResSpec
open V Json List
open V.StateRes

/-! ## 7. the resolver -/

theorem resolveV1_unfold (sha : ID → Bytes) (conflicted auth : List Event) :
    resolveV1 sha conflicted auth =
      let valid := v1Valid auth
      let p1 := resolveAndAddAuthBlocks sha valid (registerAll {} auth) [v1Single conflicted b!"m.room.create"]
      let p2 := resolveAndAddAuthBlocks sha valid p1.1 [v1Single conflicted b!"m.room.power_levels"]
      let p3 := resolveAndAddAuthBlocks sha valid p2.1 [v1Single conflicted b!"m.room.join_rules"]
      let p4 := resolveAndAddAuthBlocks sha valid p3.1
        (((groupByKey conflicted).filter (fun g => !specialKey g.1 && g.1.1 == b!"m.room.third_party_invite")).map (·.2))
      let p5 := resolveAndAddAuthBlocks sha valid p4.1
        (((groupByKey conflicted).filter (fun g => !specialKey g.1 && g.1.1 == b!"m.room.member")).map (·.2))
      p1.2 ++ p2.2 ++ p3.2 ++ p4.2 ++ p5.2 ++
        (((groupByKey conflicted).filter (fun g => !specialKey g.1 && !(g.1.1 == b!"m.room.third_party_invite") &&
          !(g.1.1 == b!"m.room.member"))).map (·.2)).filterMap (resolveNormalBlock sha valid p5.1) := rfl


theorem normalRun_filterMap (sha : ID → Bytes) (valid : Bool) (s : V1State) : ∀ (blocks : List (List Event)),
    (∀ b ∈ blocks, b ≠ []) → NormalRun sha valid s blocks (blocks.filterMap (resolveNormalBlock sha valid s))
  | [], _ => NormalRun.nil
  | b :: bs, h => by
    obtain ⟨w, hw, hwin⟩ := resolveNormalBlock_spec sha valid s b (h b (by simp))
    rw [List.filterMap_cons, hw]
    exact NormalRun.cons (sortV1_isV1Order sha b) hwin
      (normalRun_filterMap sha valid s bs (fun b' hb' => h b' (List.mem_cons_of_mem _ hb')))

theorem phaseBlocks_ne_nil (evs : List Event) (p : Nat) : ∀ b ∈ phaseBlocks evs p, b ≠ [] := by
  intro b hb
  unfold phaseBlocks at hb
  obtain ⟨k, hk, rfl⟩ := List.mem_map.mp hb
  exact candidates_ne_nil (List.mem_filter.mp hk).1

theorem phaseBlocks_of_filter (evs : List Event) (p : Nat) (q : Group → Bool) (h : ∀ k l, q (k, l) = (v1Phase k == p)) :
    ((groupByKey evs).filter q).map (·.2) = phaseBlocks evs p :=
  groups_filter evs q (fun k => v1Phase k == p) h

/-- **Version 1.** The model's resolver computes what the definition prescribes. -/
theorem resolveV1_eq_spec (sha : ID → Bytes) (conflicted auth : List Event) :
    V1Resolves sha conflicted auth (resolveV1 sha conflicted auth) := by
  rw [resolveV1_unfold]
  simp only
  rw [phaseBlocks_of_filter conflicted 3 _ (fun k _ => ((v1Phase_345 k).1).symm),
    phaseBlocks_of_filter conflicted 4 _ (fun k _ => ((v1Phase_345 k).2.1).symm),
    phaseBlocks_of_filter conflicted 5 _ (fun k _ => ((v1Phase_345 k).2.2).symm)]
  obtain ⟨s1, r1, hr1, he1⟩ := resolveAndAddAuthBlocks_spec sha (v1Valid auth) (registerAll {} auth)
    [v1Single conflicted b!"m.room.create"]
  rw [he1]
  obtain ⟨s2, r2, hr2, he2⟩ := resolveAndAddAuthBlocks_spec sha (v1Valid auth) (registerAll s1 r1)
    [v1Single conflicted b!"m.room.power_levels"]
  rw [he2]
  obtain ⟨s3, r3, hr3, he3⟩ := resolveAndAddAuthBlocks_spec sha (v1Valid auth) (registerAll s2 r2)
    [v1Single conflicted b!"m.room.join_rules"]
  rw [he3]
  obtain ⟨s4, r4, hr4, he4⟩ := resolveAndAddAuthBlocks_spec sha (v1Valid auth) (registerAll s3 r3) (phaseBlocks conflicted 3)
  rw [he4]
  obtain ⟨s5, r5, hr5, he5⟩ := resolveAndAddAuthBlocks_spec sha (v1Valid auth) (registerAll s4 r4) (phaseBlocks conflicted 4)
  rw [he5]
  refine ⟨v1Valid auth, s1, s2, s3, s4, s5, r1, r2, r3, r4, r5, _, v1Valid_iff auth, ?_, ?_, ?_, hr4, hr5,
    normalRun_filterMap sha _ _ _ (phaseBlocks_ne_nil conflicted 5), rfl⟩
  · exact phaseRun_single (single_phase conflicted _ 0 v1Phase_0) hr1
  · exact phaseRun_single (single_phase conflicted _ 1 v1Phase_1) hr2
  · exact phaseRun_single (single_phase conflicted _ 2 v1Phase_2) hr3

/-- **Version 1, entry point.** -/
theorem v1_entry_eq_spec (sha : ID → Bytes) (sets : List (List Event)) (auth : List Event)
    (hids : IDsIdentify (· ∈ sets.flatten)) :
    V1Result sha sets auth ((resolveV1 sha (splitConflictedUnconflicted true sets).1 auth ++
      (splitConflictedUnconflicted true sets).2).map (·.eventID)) := by
  obtain ⟨h1, h2⟩ := split_v1_eq_spec sets hids
  exact ⟨_, _, _, h1, h2, resolveV1_eq_spec sha _ auth, rfl⟩

theorem resolveConflictsNew_v1 (sha : ID → Bytes) (ver : Bytes) (sets : List (List Event)) (auth : List Event)
    (rejected : List ID) (row : VGen.VersionRow) (hrow : versionRow? ver = some row) (halg : row.stateResAlgorithm = 1)
    (hids : IDsIdentify (· ∈ sets.flatten)) :
    ∃ ids, resolveConflictsNew sha ver sets auth rejected = some ids ∧ V1Result sha sets auth ids := by
  refine ⟨_, ?_, v1_entry_eq_spec sha sets auth hids⟩
  unfold resolveConflictsNew
  rw [hrow]
  simp only [halg, beq_self_eq_true, if_true]

/-! ## 8. determinacy -/

theorem normalWinner_functional {valid : Bool} {s : V1State} {sorted : List Event} {w₁ w₂ : Event}
    (h1 : IsNormalWinner valid s sorted w₁) (h2 : IsNormalWinner valid s sorted w₂) : w₁ = w₂ := by
  obtain ⟨c0, rest, hs, h1⟩ := h1
  obtain ⟨c0', rest', hs', h2⟩ := h2
  rw [hs] at hs'
  obtain ⟨rfl, rfl⟩ := List.cons.inj hs'
  have key : ∀ w, (∃ pre post, rest = pre ++ w :: post ∧ v1Allowed s valid w = true ∧ ∀ e ∈ post, v1Allowed s valid e = false) →
      rest.reverse.find? (fun e => v1Allowed s valid e) = some w := fun w h => find?_reverse_some_iff.mpr h
  have keyn : (∀ e ∈ rest, v1Allowed s valid e = false) → rest.reverse.find? (fun e => v1Allowed s valid e) = none :=
    fun h => find?_reverse_none_iff.mpr h
  rcases h1 with h1 | ⟨h1, rfl⟩ <;> rcases h2 with h2 | ⟨h2, rfl⟩
  · have := (key _ h1).symm.trans (key _ h2); exact Option.some.inj this
  · have := (key _ h1).symm.trans (keyn h2); cases this
  · have := (key _ h2).symm.trans (keyn h1); cases this
  · rfl

theorem PhaseRun.functional {sha : ID → Bytes} {valid : Bool} {U : List Event}
    (hk : ∀ a ∈ U, ∀ b ∈ U, v1Key sha a = v1Key sha b → a = b)
    {s : V1State} {blocks : List (List Event)} {s₁ s₂ : V1State} {ws₁ ws₂ : List Event}
    (hsub : ∀ b ∈ blocks, ∀ e ∈ b, e ∈ U)
    (h1 : PhaseRun sha valid s blocks s₁ ws₁) (h2 : PhaseRun sha valid s blocks s₂ ws₂) : s₁ = s₂ ∧ ws₁ = ws₂ := by
  induction h1 generalizing s₂ ws₂ with
  | nil => cases h2; exact ⟨rfl, rfl⟩
  | skip _ ih =>
    cases h2 with
    | skip h2' => exact ih (fun b hb => hsub b (List.mem_cons_of_mem _ hb)) h2'
    | block ho _ _ => have := ho.1.length_eq; simp at this
  | block ho hrun _ ih =>
    cases h2 with
    | skip _ => have := ho.1.length_eq; simp at this
    | block ho' hrun' h2' =>
      have hb := hsub _ (List.mem_cons_self)
      have := IsV1Order.unique (fun a ha b hb' => hk a (hb a ha) b (hb b hb')) ho ho'
      obtain ⟨rfl, rfl⟩ := List.cons.inj this
      obtain ⟨rfl, rfl⟩ := AuthBlockRun.functional hrun hrun'
      obtain ⟨rfl, rfl⟩ := ih (fun b hb => hsub b (List.mem_cons_of_mem _ hb)) h2'
      exact ⟨rfl, rfl⟩

theorem NormalRun.functional {sha : ID → Bytes} {valid : Bool} {U : List Event}
    (hk : ∀ a ∈ U, ∀ b ∈ U, v1Key sha a = v1Key sha b → a = b)
    {s : V1State} {blocks : List (List Event)} {ws₁ ws₂ : List Event}
    (hsub : ∀ b ∈ blocks, ∀ e ∈ b, e ∈ U)
    (h1 : NormalRun sha valid s blocks ws₁) (h2 : NormalRun sha valid s blocks ws₂) : ws₁ = ws₂ := by
  induction h1 generalizing ws₂ with
  | nil => cases h2; rfl
  | cons ho hw _ ih =>
    cases h2 with
    | cons ho' hw' h2' =>
      have hb := hsub _ (List.mem_cons_self)
      have := IsV1Order.unique (fun a ha b hb' => hk a (hb a ha) b (hb b hb')) ho ho'
      subst this
      have := normalWinner_functional hw hw'
      subst this
      rw [ih (fun b hb => hsub b (List.mem_cons_of_mem _ hb)) h2']

theorem phaseBlocks_sub (evs : List Event) (p : Nat) : ∀ b ∈ phaseBlocks evs p, ∀ e ∈ b, e ∈ evs := by
  intro b hb e he
  unfold phaseBlocks at hb
  obtain ⟨k, _, rfl⟩ := List.mem_map.mp hb
  exact (List.mem_filter.mp he).1

/-- with no ties in the candidate order the definition determines the result -/
theorem V1Resolves.unique {sha : ID → Bytes} {conflicted auth : List Event}
    (hk : ∀ a ∈ conflicted, ∀ b ∈ conflicted, v1Key sha a = v1Key sha b → a = b) {r₁ r₂ : List Event}
    (h1 : V1Resolves sha conflicted auth r₁) (h2 : V1Resolves sha conflicted auth r₂) : r₁ = r₂ := by
  obtain ⟨v, s1, s2, s3, s4, s5, a1, a2, a3, a4, a5, a6, hv, p1, p2, p3, p4, p5, p6, rfl⟩ := h1
  obtain ⟨v', t1, t2, t3, t4, t5, b1, b2, b3, b4, b5, b6, hv', q1, q2, q3, q4, q5, q6, rfl⟩ := h2
  have : v = v' := by
    cases v <;> cases v' <;> simp_all
  subst this
  obtain ⟨rfl, rfl⟩ := PhaseRun.functional hk (phaseBlocks_sub conflicted 0) p1 q1
  obtain ⟨rfl, rfl⟩ := PhaseRun.functional hk (phaseBlocks_sub conflicted 1) p2 q2
  obtain ⟨rfl, rfl⟩ := PhaseRun.functional hk (phaseBlocks_sub conflicted 2) p3 q3
  obtain ⟨rfl, rfl⟩ := PhaseRun.functional hk (phaseBlocks_sub conflicted 3) p4 q4
  obtain ⟨rfl, rfl⟩ := PhaseRun.functional hk (phaseBlocks_sub conflicted 4) p5 q5
  rw [NormalRun.functional hk (phaseBlocks_sub conflicted 5) p6 q6]

/-- the model's result is THE result the definition prescribes -/
theorem resolveV1_unique {sha : ID → Bytes} {conflicted auth : List Event}
    (hk : ∀ a ∈ conflicted, ∀ b ∈ conflicted, v1Key sha a = v1Key sha b → a = b) {r : List Event}
    (h : V1Resolves sha conflicted auth r) : r = resolveV1 sha conflicted auth :=
  V1Resolves.unique hk h (resolveV1_eq_spec sha conflicted auth)

end V.StateResSpec
