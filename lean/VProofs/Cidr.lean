/-
  VProofs.Cidr — bit-level lemmas behind C16's network policy theorems: and-ing with a CIDR mask
  keeps exactly the leading bits, so "masked addresses equal" is "prefixes equal".
-/
import VModel.Cidr
namespace V.Cidr

/-- testBit of `cidrMask ones bits`: the `ones` bits just below position `bits` (for ones ≤ bits) -/
theorem testBit_cidrMask (ones bits i : Nat) (h : ones ≤ bits) :
    (cidrMask ones bits).testBit i = (decide (bits - ones ≤ i) && decide (i < bits)) := by
  unfold cidrMask
  rw [Nat.testBit_shiftLeft, Nat.testBit_two_pow_sub_one]
  by_cases h1 : bits - ones ≤ i
  · by_cases h2 : i < bits
    · have : i - (bits - ones) < ones := by omega
      simp [h1, h2, this]
    · have : ¬ (i - (bits - ones) < ones) := by omega
      simp [h1, h2, this]
  · simp [h1]

/-- and-ing an address of `bits` bits with the mask clears its low `bits - ones` bits -/
theorem and_cidrMask (x ones bits : Nat) (hx : x < 2 ^ bits) (h : ones ≤ bits) :
    x &&& cidrMask ones bits = x / 2 ^ (bits - ones) * 2 ^ (bits - ones) := by
  apply Nat.eq_of_testBit_eq
  intro i
  rw [Nat.testBit_and, testBit_cidrMask _ _ _ h, Nat.testBit_mul_two_pow, Nat.testBit_div_two_pow]
  by_cases h1 : bits - ones ≤ i
  · have e : i - (bits - ones) + (bits - ones) = i := by omega
    by_cases h2 : i < bits
    · simp [h1, h2, e]
    · have : x.testBit i = false := by
        apply Nat.testBit_lt_two_pow
        exact Nat.lt_of_lt_of_le hx (Nat.pow_le_pow_right (by decide) (by omega))
      simp [h1, h2, e, this]
  · simp [h1]

/-- masked equality is prefix equality -/
theorem masked_eq_iff (a b ones bits : Nat) (ha : a < 2 ^ bits) (hb : b < 2 ^ bits) (h : ones ≤ bits) :
    (b &&& cidrMask ones bits) = (a &&& cidrMask ones bits) ↔ a / 2 ^ (bits - ones) = b / 2 ^ (bits - ones) := by
  rw [and_cidrMask a ones bits ha h, and_cidrMask b ones bits hb h]
  have hp : 0 < 2 ^ (bits - ones) := Nat.two_pow_pos _
  constructor
  · intro e; exact (Nat.eq_of_mul_eq_mul_right hp e).symm
  · intro e; rw [e]

theorem and_cidrMask_idem (x ones bits : Nat) : (x &&& cidrMask ones bits) &&& cidrMask ones bits = x &&& cidrMask ones bits := by
  rw [Nat.and_assoc, Nat.and_self]

theorem and_lt (x m bits : Nat) (hx : x < 2 ^ bits) : x &&& m < 2 ^ bits :=
  Nat.lt_of_le_of_lt Nat.and_le_left hx

end V.Cidr

namespace V.Cidr

theorem and_mod_two_pow (x m k : Nat) : (x &&& m) % 2 ^ k = (x % 2 ^ k) &&& (m % 2 ^ k) := by
  apply Nat.eq_of_testBit_eq
  intro i
  simp only [Nat.testBit_and, Nat.testBit_mod_two_pow]
  by_cases h : i < k <;> simp [h]

/-- the low 32 bits of a 128-bit mask of at least 96 ones are the 32-bit mask of `ones - 96` ones -/
theorem cidrMask_128_mod (ones : Nat) (h1 : 96 ≤ ones) (h2 : ones ≤ 128) :
    cidrMask ones 128 % 2 ^ 32 = cidrMask (ones - 96) 32 := by
  apply Nat.eq_of_testBit_eq
  intro i
  rw [Nat.testBit_mod_two_pow, testBit_cidrMask _ _ _ h2, testBit_cidrMask _ _ _ (by omega)]
  by_cases a : i < 32 <;> by_cases b : 128 - ones ≤ i <;> by_cases c : 32 - (ones - 96) ≤ i <;>
    by_cases d : i < 128 <;> simp [a, b, c, d] <;> omega

/-- masking keeps the IPv4-mapped prefix exactly when the mask covers it -/
theorem isMapped_and_cidrMask (x ones : Nat) (hx : x < 2 ^ 128) (h : ones ≤ 128) :
    isMapped (x &&& cidrMask ones 128) = (decide (96 ≤ ones) && isMapped x) := by
  rw [and_cidrMask x ones 128 hx h]
  unfold isMapped
  by_cases h96 : 96 ≤ ones
  · -- 128 - ones ≤ 32: dividing by 2^32 forgets the cleared bits
    have e : 2 ^ 32 = 2 ^ (128 - ones) * 2 ^ (32 - (128 - ones)) := by
      rw [← Nat.pow_add]; congr 1; omega
    have : x / 2 ^ (128 - ones) * 2 ^ (128 - ones) / 2 ^ 32 = x / 2 ^ 32 := by
      rw [e, ← Nat.div_div_eq_div_mul, Nat.mul_div_cancel _ (Nat.two_pow_pos _), Nat.div_div_eq_div_mul]
    rw [this]; simp [h96]
  · -- the lowest bit of the would-be prefix is cleared
    obtain ⟨j, hj⟩ : ∃ j, 128 - ones = j + 1 + 32 := ⟨128 - ones - 33, by omega⟩
    rw [hj]
    have hq : ∀ q : Nat, q * 2 ^ (j + 1 + 32) / 2 ^ 32 = q * 2 ^ j * 2 := by
      intro q
      rw [Nat.pow_add, Nat.pow_add, Nat.pow_one, ← Nat.mul_assoc, ← Nat.mul_assoc, Nat.mul_div_cancel _ (Nat.two_pow_pos _)]
    rw [hq]
    simp only [h96, decide_false, Bool.false_and]
    apply beq_false_of_ne
    omega

end V.Cidr

namespace V.Cidr

/-- well-formedness of what net.ParseCIDR returns -/
structure CIDR.WF (c : CIDR) : Prop where
  bits : c.bitLen = 32 ∨ c.bitLen = 128
  ones : c.ones ≤ c.bitLen
  addr : c.addr16 < 2 ^ 128

theorem normalise_v4 (a : Nat) (h : isMapped a = true) : normalise a = .v4 (a % 2 ^ 32) := by
  simp [normalise, h]

theorem normalise_v6 (a : Nat) (h : isMapped a = false) : normalise a = .v6 a := by
  simp [normalise, h]

theorem contains_v4 (c : CIDR) (ip16 : Nat) (hb : c.bitLen = 32) (ho : c.ones ≤ 32) :
    contains (ipNetOf c) ip16 = true ↔ Spec.mem (normalise ip16) (.r4 (c.addr16 % 2 ^ 32) c.ones) := by
  have hlt : c.addr16 % 2 ^ 32 < 2 ^ 32 := Nat.mod_lt _ (Nat.two_pow_pos _)
  by_cases hm : isMapped ip16 = true
  · rw [normalise_v4 _ hm]
    simp only [contains, ipNetOf, hb, numberAndMask, normalise_v4 _ hm, Spec.mem, beq_self_eq_true, ↓reduceIte]
    rw [and_cidrMask_idem, beq_iff_eq]
    exact masked_eq_iff _ _ _ _ (Nat.mod_lt _ (Nat.two_pow_pos _)) hlt ho
  · have hm' : isMapped ip16 = false := by simpa using hm
    rw [normalise_v6 _ hm']
    simp [contains, ipNetOf, hb, numberAndMask, normalise_v6 _ hm', Spec.mem]

theorem contains_v6 (c : CIDR) (ip16 : Nat) (hb : c.bitLen = 128) (ho : c.ones ≤ 128) (ha : c.addr16 < 2 ^ 128)
    (hip : ip16 < 2 ^ 128) :
    contains (ipNetOf c) ip16 = true ↔
      Spec.mem (normalise ip16)
        (if c.ones ≥ 96 && isMapped c.addr16 then .r4 (c.addr16 % 2 ^ 32) (c.ones - 96) else .r6 c.addr16 c.ones) := by
  have hnet := isMapped_and_cidrMask c.addr16 c.ones ha ho
  by_cases hcov : (decide (96 ≤ c.ones) && isMapped c.addr16) = true
  · -- the network is an IPv4 network written in IPv4-mapped form
    have h96 : 96 ≤ c.ones := by
      simp only [Bool.and_eq_true, decide_eq_true_eq] at hcov; exact hcov.1
    have hcov' : (decide (c.ones ≥ 96) && isMapped c.addr16) = true := by simpa using hcov
    rw [hcov] at hnet
    simp only [hcov', ↓reduceIte]
    have hlt : c.addr16 % 2 ^ 32 < 2 ^ 32 := Nat.mod_lt _ (Nat.two_pow_pos _)
    by_cases hm : isMapped ip16 = true
    · rw [normalise_v4 _ hm]
      simp only [contains, ipNetOf, hb, numberAndMask, normalise_v4 _ hnet, normalise_v4 _ hm, Spec.mem,
        show ((128 : Nat) == 32) = false from rfl, Bool.false_eq_true, ↓reduceIte, beq_self_eq_true]
      rw [and_mod_two_pow, cidrMask_128_mod _ h96 ho, and_cidrMask_idem, beq_iff_eq]
      exact masked_eq_iff _ _ _ _ (Nat.mod_lt _ (Nat.two_pow_pos _)) hlt (by omega)
    · have hm' : isMapped ip16 = false := by simpa using hm
      rw [normalise_v6 _ hm']
      simp [contains, ipNetOf, hb, numberAndMask, normalise_v4 _ hnet, normalise_v6 _ hm', Spec.mem]
  · have hcov0 : (decide (96 ≤ c.ones) && isMapped c.addr16) = false := by simpa using hcov
    have hcov' : (decide (c.ones ≥ 96) && isMapped c.addr16) = false := by simpa using hcov0
    rw [hcov0] at hnet
    simp only [hcov', Bool.false_eq_true, ↓reduceIte]
    by_cases hm : isMapped ip16 = true
    · rw [normalise_v4 _ hm]
      simp [contains, ipNetOf, hb, numberAndMask, normalise_v6 _ hnet, normalise_v4 _ hm, Spec.mem]
    · have hm' : isMapped ip16 = false := by simpa using hm
      rw [normalise_v6 _ hm']
      simp only [contains, ipNetOf, hb, numberAndMask, normalise_v6 _ hnet, normalise_v6 _ hm', Spec.mem,
        show ((128 : Nat) == 32) = false from rfl, Bool.false_eq_true, ↓reduceIte, beq_self_eq_true]
      rw [and_cidrMask_idem, beq_iff_eq]
      exact masked_eq_iff _ _ _ _ hip ha ho

/-- IPNet.Contains, as ParseCIDR builds the network, is membership in the range the entry denotes:
    same family (IPv4-mapped forms counted as IPv4) and same leading `ones` bits. -/
theorem contains_iff_mem (c : CIDR) (ip16 : Nat) (hc : c.WF) (hip : ip16 < 2 ^ 128) :
    contains (ipNetOf c) ip16 = true ↔ Spec.mem (normalise ip16) (Spec.rangeOf c) := by
  rcases hc.bits with hb | hb
  · have := contains_v4 c ip16 hb (by have := hc.ones; omega)
    simpa [Spec.rangeOf, hb] using this
  · have := contains_v6 c ip16 hb (by have := hc.ones; omega) hc.addr hip
    simpa [Spec.rangeOf, hb] using this

end V.Cidr

namespace V.Cidr

theorem as16_lt (p : ParsedAddr) : p.as16 < 2 ^ 128 := by
  cases p with
  | v4 a =>
    have : a % 2 ^ 32 < 2 ^ 32 := Nat.mod_lt _ (Nat.two_pow_pos _)
    simp only [ParsedAddr.as16, mapped]; omega
  | v6 a => exact Nat.mod_lt _ (Nat.two_pow_pos _)

/-- net.ParseIP yields a 16-byte address -/
theorem parseIP_lt (s : Str) (a : Nat) (h : parseIP s = some a) : a < 2 ^ 128 := by
  unfold parseIP at h
  cases hp : parseAddr s with
  | none => simp [hp] at h
  | some p => simp [hp] at h; rw [← h]; exact as16_lt p

/-- what net.ParseCIDR returns is well-formed -/
theorem parseCIDR_wf (s : Str) (c : CIDR) (h : parseCIDR s = some c) : c.WF := by
  unfold parseCIDR at h
  split at h
  · simp at h
  · split at h
    · simp at h
    · rename_i pa _
      split at h
      · simp at h
      · rename_i n _
        split at h
        · simp at h
        · rename_i hn
          simp only [Option.some.injEq] at h
          subst h
          refine ⟨?_, ?_, as16_lt pa⟩
          · cases pa <;> simp [ParsedAddr.bitLen]
          · simpa using hn

/-- inRange: some parsable entry of the list contains the address -/
theorem inRange_iff (ip16 : Nat) (l : List (Option CIDR)) (hwf : ∀ c ∈ Spec.parsable l, c.WF) (hip : ip16 < 2 ^ 128) :
    inRange ip16 l = true ↔ ∃ c ∈ Spec.parsable l, Spec.mem (normalise ip16) (Spec.rangeOf c) := by
  induction l with
  | nil => simp [inRange, Spec.parsable]
  | cons x xs ih =>
    cases x with
    | none =>
      have : Spec.parsable (none :: xs) = Spec.parsable xs := by simp [Spec.parsable]
      rw [this] at hwf ⊢
      simpa [inRange] using ih hwf
    | some c =>
      have hp : Spec.parsable (some c :: xs) = c :: Spec.parsable xs := by simp [Spec.parsable]
      rw [hp] at hwf ⊢
      have hc : c.WF := hwf c (by simp)
      have ih' := ih (fun d hd => hwf d (by simp [hd]))
      have hcm := contains_iff_mem c ip16 hc hip
      simp only [inRange, List.mem_cons, exists_eq_or_imp]
      by_cases hcon : contains (ipNetOf c) ip16 = true
      · simp [hcon, hcm.mp hcon]
      · have : ¬ Spec.mem (normalise ip16) (Spec.rangeOf c) := fun hmem => hcon (hcm.mpr hmem)
        simp [hcon, this, ih']

end V.Cidr
