/-
  C10, Kahn's algorithm (`kahn` / `kahnLoop` of VModel.StateRes), part 1:
  named pieces of the model (`dedupNodes`, `bump`, `initDeg`, `decStep`, `kahnNodes`; each equal to the anonymous
  piece of the model by `rfl`), the in-degree table seen as a function (`keysOf`, `degVal`), `childCount`,
  the INIT LEMMA `initDeg_spec` (the table `kahn` builds holds the exact child counts), and dedup by event ID.
  Part 2 (`VProofs.StateResSpecKahn2`): loop invariant, permutation, no strays, topological, IsPowerOrder.
  Core only.
-/
import VModel.StateResSpec
import VProofs.StateResSort
import VProofs.StateResBasic
import VProofs.StateResSpecOrder
namespace V.StateRes
open V Json List

variable {κ : Type}

/-! ## Named pieces of `kahn` / `kahnLoop` -/

def dedupStepN (acc : List (KNode κ)) (n : KNode κ) : List (KNode κ) :=
  if acc.any (fun m => m.ev.eventID == n.ev.eventID) then acc else acc ++ [n]

def dedupNodes (nodes0 : List (KNode κ)) : List (KNode κ) := nodes0.foldl dedupStepN []

def bump (deg : List (ID × Nat)) (id : ID) (by_ : Nat) : List (ID × Nat) :=
  if (deg.find? (fun d => d.1 == id)).isSome then deg.map (fun d => if d.1 == id then (d.1, d.2 + by_) else d)
  else deg ++ [(id, by_)]

def initDegStep (parents : Event → List ID) (deg : List (ID × Nat)) (n : KNode κ) : List (ID × Nat) :=
  (parents n.ev).foldl (fun d pid => bump d pid 1) (bump deg n.ev.eventID 0)

def initDeg (parents : Event → List ID) (nodes : List (KNode κ)) : List (ID × Nat) :=
  nodes.foldl (initDegStep parents) []

/-- table lookup as the model writes it -/
def degOf (D : List (ID × Nat)) (id : ID) : Option Nat := (D.find? (fun d => d.1 == id)).map (·.2)

def decTable (D : List (ID × Nat)) (pid : ID) : List (ID × Nat) :=
  D.map (fun d => if d.1 == pid then (d.1, d.2 - 1) else d)

def decStep (acc : List (ID × Nat) × List (KNode κ) × List (KNode κ)) (pid : ID) :
    List (ID × Nat) × List (KNode κ) × List (KNode κ) :=
  let deg' := decTable acc.1 pid
  if degOf deg' pid == some 0 then
    match acc.2.1.find? (fun n => n.ev.eventID == pid) with
    | some n => (deg', acc.2.1.filter (fun m => m.ev.eventID != pid), acc.2.2 ++ [n])
    | none => (deg', acc.2.1, acc.2.2)
  else (deg', acc.2.1, acc.2.2)

def kahnNodes (lt : κ → κ → Bool) (parents : Event → List ID) (nodes0 : List (KNode κ)) : List (KNode κ) :=
  let nodes := dedupNodes nodes0
  let inDeg := initDeg parents nodes
  let zero := nodes.filter (fun n => degOf inDeg n.ev.eventID == some 0)
  let remaining := nodes.filter (fun n => !(degOf inDeg n.ev.eventID == some 0))
  let r := kahnLoop lt parents (nodes.length + 1) remaining inDeg (sortBy (fun a b => lt a.key b.key) zero) []
  sortBy (fun a b => lt a.key b.key) r.1 ++ r.2

theorem kahn_eq_map (lt : κ → κ → Bool) (parents : Event → List ID) (nodes0 : List (KNode κ)) :
    kahn lt parents nodes0 = (kahnNodes lt parents nodes0).map (·.ev) := rfl

theorem kahnLoop_zero (lt : κ → κ → Bool) (parents : Event → List ID) (R : List (KNode κ)) (D N G) :
    kahnLoop lt parents 0 R D N G = (R, G) := rfl

theorem kahnLoop_nil (lt : κ → κ → Bool) (parents : Event → List ID) (fuel : Nat) (R : List (KNode κ)) (D G) :
    kahnLoop lt parents fuel R D [] G = (R, G) := by
  cases fuel <;> rfl

theorem kahnLoop_snoc (lt : κ → κ → Bool) (parents : Event → List ID) (fuel : Nat) (R : List (KNode κ)) (D) (noInc) (node) (G) :
    kahnLoop lt parents (fuel + 1) R D (noInc ++ [node]) G =
      kahnLoop lt parents fuel ((parents node.ev).foldl decStep (D, R, noInc)).2.1
        ((parents node.ev).foldl decStep (D, R, noInc)).1
        (sortBy (fun a b => lt a.key b.key) ((parents node.ev).foldl decStep (D, R, noInc)).2.2) (node :: G) := by
  rw [kahnLoop]
  simp only [List.reverse_append, List.reverse_cons, List.reverse_nil, List.nil_append, List.singleton_append,
    List.reverse_reverse]
  rfl


/-! ## The in-degree table seen as a function -/

def keysOf (D : List (ID × Nat)) : List ID := D.map (·.1)

def degVal (D : List (ID × Nat)) (id : ID) : Nat := (degOf D id).getD 0

theorem degOf_nil (id : ID) : degOf [] id = none := rfl

theorem degOf_cons (d : ID × Nat) (D : List (ID × Nat)) (id : ID) :
    degOf (d :: D) id = if d.1 = id then some d.2 else degOf D id := by
  unfold degOf
  rw [List.find?_cons]
  by_cases h : d.1 = id
  · simp [h]
  · have : (d.1 == id) = false := by simpa using h
    simp [this, h]

theorem degOf_isSome {D : List (ID × Nat)} {id : ID} : (degOf D id).isSome ↔ id ∈ keysOf D := by
  induction D with
  | nil => simp [degOf_nil, keysOf]
  | cons d D ih =>
    rw [degOf_cons]
    by_cases h : d.1 = id
    · simp [h, keysOf]
    · simp only [h, if_false, ih, keysOf, List.map_cons, List.mem_cons]
      constructor
      · exact Or.inr
      · rintro (h' | h')
        · exact absurd h'.symm h
        · exact h'

theorem degOf_eq_some {D : List (ID × Nat)} {id : ID} {v : Nat} :
    degOf D id = some v ↔ id ∈ keysOf D ∧ degVal D id = v := by
  rw [← degOf_isSome]; unfold degVal
  cases degOf D id <;> simp

theorem degOf_eq_none {D : List (ID × Nat)} {id : ID} : degOf D id = none ↔ id ∉ keysOf D := by
  rw [← degOf_isSome]; cases degOf D id <;> simp

theorem degOf_eq_ite (D : List (ID × Nat)) (id : ID) :
    degOf D id = if id ∈ keysOf D then some (degVal D id) else none := by
  split
  · rename_i h; exact degOf_eq_some.mpr ⟨h, rfl⟩
  · rename_i h; exact degOf_eq_none.mpr h

theorem degOf_beq_zero {D : List (ID × Nat)} {id : ID} :
    (degOf D id == some 0) = true ↔ id ∈ keysOf D ∧ degVal D id = 0 := by
  rw [← degOf_eq_some]; simp

theorem degVal_of_not_key {D : List (ID × Nat)} {id : ID} (h : id ∉ keysOf D) : degVal D id = 0 := by
  unfold degVal; rw [degOf_eq_none.mpr h]; rfl

/-! ### `decTable` -/

theorem keysOf_decTable (D : List (ID × Nat)) (pid : ID) : keysOf (decTable D pid) = keysOf D := by
  unfold keysOf decTable
  rw [List.map_map]
  apply List.map_congr_left
  intro d _
  simp only [Function.comp]
  split <;> rfl

theorem degOf_decTable (D : List (ID × Nat)) (pid id : ID) :
    degOf (decTable D pid) id = if id = pid then (degOf D id).map (· - 1) else degOf D id := by
  induction D with
  | nil => simp [decTable, degOf_nil]
  | cons d D ih =>
    have e : decTable (d :: D) pid = (if d.1 == pid then (d.1, d.2 - 1) else d) :: decTable D pid := rfl
    rw [e, degOf_cons, degOf_cons, ih]
    by_cases h1 : d.1 = pid
    · subst h1
      by_cases h2 : d.1 = id
      · subst h2; simp
      · have h2' : ¬ id = d.1 := fun h => h2 h.symm
        simp [h2, h2']
    · have h1' : (d.1 == pid) = false := by simpa using h1
      simp only [h1', Bool.false_eq_true, if_false]
      by_cases h2 : d.1 = id
      · subst h2; simp [h1]
      · simp [h2]

theorem degVal_decTable (D : List (ID × Nat)) (pid id : ID) :
    degVal (decTable D pid) id = degVal D id - (if id = pid then 1 else 0) := by
  unfold degVal
  rw [degOf_decTable]
  split
  · cases degOf D id <;> simp
  · simp

/-! ### `bump` -/

theorem keysOf_bump (D : List (ID × Nat)) (id : ID) (b : Nat) :
    keysOf (bump D id b) = if id ∈ keysOf D then keysOf D else keysOf D ++ [id] := by
  unfold bump
  have hk : (D.find? (fun d => d.1 == id)).isSome ↔ id ∈ keysOf D := by
    have := degOf_isSome (D := D) (id := id); unfold degOf at this; simpa using this
  by_cases h : id ∈ keysOf D
  · rw [if_pos (hk.mpr h), if_pos h]
    unfold keysOf
    rw [List.map_map]
    apply List.map_congr_left
    intro d _
    simp only [Function.comp]
    split <;> rfl
  · rw [if_neg (fun h' => h (hk.mp h')), if_neg h]
    simp [keysOf]

theorem mem_keysOf_bump {D : List (ID × Nat)} {id id' : ID} {b : Nat} :
    id' ∈ keysOf (bump D id b) ↔ id' ∈ keysOf D ∨ id' = id := by
  rw [keysOf_bump]
  split
  · rename_i h
    constructor
    · exact Or.inl
    · rintro (h' | rfl)
      · exact h'
      · exact h
  · simp

theorem keysOf_bump_nodup {D : List (ID × Nat)} (id : ID) (b : Nat) (h : (keysOf D).Nodup) :
    (keysOf (bump D id b)).Nodup := by
  rw [keysOf_bump]
  split
  · exact h
  · rename_i hn
    rw [List.nodup_append]
    refine ⟨h, by simp, ?_⟩
    intro a ha c hc
    simp only [List.mem_singleton] at hc
    subst hc
    intro e; subst e; exact hn ha

theorem degOf_append_singleton (D : List (ID × Nat)) (k : ID) (v : Nat) (id : ID) :
    degOf (D ++ [(k, v)]) id = (degOf D id).or (if k = id then some v else none) := by
  induction D with
  | nil => simp [degOf_cons, degOf_nil]
  | cons d D ih =>
    rw [List.cons_append, degOf_cons, degOf_cons, ih]
    split <;> simp

theorem degVal_bump (D : List (ID × Nat)) (id : ID) (b : Nat) (id' : ID) :
    degVal (bump D id b) id' = degVal D id' + (if id' = id then b else 0) := by
  unfold bump
  have hk : (D.find? (fun d => d.1 == id)).isSome ↔ id ∈ keysOf D := by
    have := degOf_isSome (D := D) (id := id); unfold degOf at this; simpa using this
  by_cases h : id ∈ keysOf D
  · rw [if_pos (hk.mpr h)]
    clear hk
    unfold degVal
    induction D with
    | nil => simp [keysOf] at h
    | cons d D ih =>
      rw [List.map_cons, degOf_cons, degOf_cons]
      by_cases h1 : d.1 = id
      · subst h1
        by_cases h2 : d.1 = id'
        · subst h2; simp
        · have h2' : ¬ id' = d.1 := fun e => h2 e.symm
          simp only [beq_self_eq_true, if_true, h2, if_false, h2', Nat.add_zero]
          by_cases h3 : d.1 ∈ keysOf D
          · have := ih h3; simpa [h2'] using this
          · -- the key does not occur further: the map changes nothing relevant
            have hn : ∀ D' : List (ID × Nat), d.1 ∉ keysOf D' →
                D'.map (fun x => if x.1 == d.1 then (x.1, x.2 + b) else x) = D' := by
              intro D' hD'
              induction D' with
              | nil => rfl
              | cons x xs ihx =>
                simp only [keysOf, List.map_cons, List.mem_cons, not_or] at hD'
                have hx : (x.1 == d.1) = false := by
                  have : ¬ x.1 = d.1 := fun e => hD'.1 e.symm
                  simpa using this
                rw [List.map_cons, hx]
                simp only [Bool.false_eq_true, if_false]
                rw [ihx (by simpa [keysOf] using hD'.2)]
            rw [hn D h3]
      · have h1' : (d.1 == id) = false := by simpa using h1
        have h3 : id ∈ keysOf D := by
          simp only [keysOf, List.map_cons, List.mem_cons] at h
          rcases h with h | h
          · exact absurd h.symm h1
          · exact h
        simp only [h1', Bool.false_eq_true, if_false]
        by_cases h2 : d.1 = id'
        · subst h2
          have : ¬ d.1 = id := h1
          simp [this]
        · simp only [h2, if_false]
          exact ih h3
  · rw [if_neg (fun h' => h (hk.mp h'))]
    unfold degVal
    rw [degOf_append_singleton]
    by_cases h2 : id' = id
    · subst h2
      rw [degOf_eq_none.mpr h]; simp
    · have h2' : ¬ id = id' := fun e => h2 e.symm
      simp [h2, h2']


/-! ## childCount -/

/-- number of occurrences (with multiplicity) of `id` among the parents of the nodes of `l` -/
def childCount (parents : Event → List ID) : List (KNode κ) → ID → Nat
  | [], _ => 0
  | n :: ns, id => (parents n.ev).count id + childCount parents ns id

theorem childCount_nil (parents : Event → List ID) (id : ID) : childCount parents ([] : List (KNode κ)) id = 0 := rfl

theorem childCount_cons (parents : Event → List ID) (n : KNode κ) (ns : List (KNode κ)) (id : ID) :
    childCount parents (n :: ns) id = (parents n.ev).count id + childCount parents ns id := rfl

theorem childCount_eq_sum (parents : Event → List ID) (l : List (KNode κ)) (id : ID) :
    childCount parents l id = (l.map (fun n => (parents n.ev).count id)).sum := by
  induction l with
  | nil => rfl
  | cons n ns ih => rw [childCount_cons, ih, List.map_cons, List.sum_cons]

theorem childCount_append (parents : Event → List ID) (l₁ l₂ : List (KNode κ)) (id : ID) :
    childCount parents (l₁ ++ l₂) id = childCount parents l₁ id + childCount parents l₂ id := by
  induction l₁ with
  | nil => simp [childCount_nil]
  | cons n ns ih => rw [List.cons_append, childCount_cons, childCount_cons, ih]; omega

theorem childCount_perm (parents : Event → List ID) {l₁ l₂ : List (KNode κ)} (h : l₁ ~ l₂) (id : ID) :
    childCount parents l₁ id = childCount parents l₂ id := by
  induction h with
  | nil => rfl
  | cons x _ ih => rw [childCount_cons, childCount_cons, ih]
  | swap x y l => simp only [childCount_cons]; omega
  | trans _ _ ih1 ih2 => rw [ih1, ih2]

theorem childCount_eq_zero {parents : Event → List ID} {l : List (KNode κ)} {id : ID} :
    childCount parents l id = 0 ↔ ∀ a ∈ l, id ∉ parents a.ev := by
  induction l with
  | nil => simp [childCount_nil]
  | cons n ns ih =>
    rw [childCount_cons, Nat.add_eq_zero_iff, ih, List.count_eq_zero]
    simp only [List.mem_cons, forall_eq_or_imp]

theorem childCount_pos {parents : Event → List ID} {l : List (KNode κ)} {id : ID} :
    0 < childCount parents l id ↔ ∃ a ∈ l, id ∈ parents a.ev := by
  rw [Nat.pos_iff_ne_zero, Ne, childCount_eq_zero]
  constructor
  · intro h
    apply Classical.byContradiction
    intro hn
    exact h (fun a ha hp => hn ⟨a, ha, hp⟩)
  · rintro ⟨a, ha, hp⟩ h
    exact h a ha hp

/-! ## (a) The initial in-degree table -/

theorem keysOf_foldBump (ps : List ID) (D : List (ID × Nat)) (id : ID) :
    id ∈ keysOf (ps.foldl (fun d pid => bump d pid 1) D) ↔ id ∈ keysOf D ∨ id ∈ ps := by
  induction ps generalizing D with
  | nil => simp
  | cons p ps ih =>
    rw [List.foldl_cons, ih, mem_keysOf_bump, List.mem_cons, or_assoc]

theorem nodup_foldBump (ps : List ID) (D : List (ID × Nat)) (h : (keysOf D).Nodup) :
    (keysOf (ps.foldl (fun d pid => bump d pid 1) D)).Nodup := by
  induction ps generalizing D with
  | nil => exact h
  | cons p ps ih => rw [List.foldl_cons]; exact ih _ (keysOf_bump_nodup p 1 h)

theorem degVal_foldBump (ps : List ID) (D : List (ID × Nat)) (id : ID) :
    degVal (ps.foldl (fun d pid => bump d pid 1) D) id = degVal D id + ps.count id := by
  induction ps generalizing D with
  | nil => simp
  | cons p ps ih =>
    rw [List.foldl_cons, ih, degVal_bump, List.count_cons]
    by_cases h : id = p
    · subst h; simp; omega
    · have h' : (p == id) = false := by
        have : ¬ p = id := fun e => h e.symm
        simpa using this
      simp [h, h']

theorem mem_keysOf_initDegStep (parents : Event → List ID) (D : List (ID × Nat)) (n : KNode κ) (id : ID) :
    id ∈ keysOf (initDegStep parents D n) ↔ id ∈ keysOf D ∨ id = n.ev.eventID ∨ id ∈ parents n.ev := by
  unfold initDegStep
  rw [keysOf_foldBump, mem_keysOf_bump, or_assoc]

theorem degVal_initDegStep (parents : Event → List ID) (D : List (ID × Nat)) (n : KNode κ) (id : ID) :
    degVal (initDegStep parents D n) id = degVal D id + (parents n.ev).count id := by
  unfold initDegStep
  rw [degVal_foldBump, degVal_bump]
  split <;> omega

theorem mem_keysOf_foldInit (parents : Event → List ID) (nodes : List (KNode κ)) (D : List (ID × Nat)) (id : ID) :
    id ∈ keysOf (nodes.foldl (initDegStep parents) D) ↔
      id ∈ keysOf D ∨ (∃ n ∈ nodes, n.ev.eventID = id) ∨ (∃ n ∈ nodes, id ∈ parents n.ev) := by
  induction nodes generalizing D with
  | nil => simp
  | cons n ns ih =>
    rw [List.foldl_cons, ih, mem_keysOf_initDegStep]
    simp only [List.mem_cons, exists_eq_or_imp]
    constructor
    · rintro ((h | h | h) | h | h)
      · exact Or.inl h
      · exact Or.inr (Or.inl (Or.inl h.symm))
      · exact Or.inr (Or.inr (Or.inl h))
      · exact Or.inr (Or.inl (Or.inr h))
      · exact Or.inr (Or.inr (Or.inr h))
    · rintro (h | (h | h) | (h | h))
      · exact Or.inl (Or.inl h)
      · exact Or.inl (Or.inr (Or.inl h.symm))
      · exact Or.inr (Or.inl h)
      · exact Or.inl (Or.inr (Or.inr h))
      · exact Or.inr (Or.inr h)

theorem nodup_foldInit (parents : Event → List ID) (nodes : List (KNode κ)) (D : List (ID × Nat))
    (h : (keysOf D).Nodup) : (keysOf (nodes.foldl (initDegStep parents) D)).Nodup := by
  induction nodes generalizing D with
  | nil => exact h
  | cons n ns ih =>
    rw [List.foldl_cons]; apply ih
    unfold initDegStep
    exact nodup_foldBump _ _ (keysOf_bump_nodup _ 0 h)

theorem degVal_foldInit (parents : Event → List ID) (nodes : List (KNode κ)) (D : List (ID × Nat)) (id : ID) :
    degVal (nodes.foldl (initDegStep parents) D) id = degVal D id + childCount parents nodes id := by
  induction nodes generalizing D with
  | nil => simp [childCount_nil]
  | cons n ns ih => rw [List.foldl_cons, ih, degVal_initDegStep, childCount_cons]; omega

/-- keys of the initial table: the node IDs and the parent IDs -/
theorem mem_keysOf_initDeg (parents : Event → List ID) (nodes : List (KNode κ)) (id : ID) :
    id ∈ keysOf (initDeg parents nodes) ↔ (∃ n ∈ nodes, n.ev.eventID = id) ∨ (∃ n ∈ nodes, id ∈ parents n.ev) := by
  unfold initDeg
  rw [mem_keysOf_foldInit]; simp [keysOf]

theorem initDeg_keys_nodup (parents : Event → List ID) (nodes : List (KNode κ)) :
    ((initDeg parents nodes).map (·.1)).Nodup :=
  nodup_foldInit parents nodes [] (by simp [keysOf])

theorem degVal_initDeg (parents : Event → List ID) (nodes : List (KNode κ)) (id : ID) :
    degVal (initDeg parents nodes) id = childCount parents nodes id := by
  unfold initDeg
  rw [degVal_foldInit]; simp [degVal, degOf_nil]

/-- (a) INIT LEMMA: the table `kahn` builds holds, for every node ID and every parent ID, the number of
    occurrences of that ID among the parents of the nodes — and nothing else. -/
theorem initDeg_spec (parents : Event → List ID) (nodes : List (KNode κ)) (id : ID) :
    ((initDeg parents nodes).find? (fun d => d.1 == id)).map (·.2) =
      if (∃ n ∈ nodes, n.ev.eventID = id) ∨ (∃ n ∈ nodes, id ∈ parents n.ev) then some (childCount parents nodes id)
      else none := by
  have := degOf_eq_ite (initDeg parents nodes) id
  unfold degOf at this
  rw [this, degVal_initDeg]
  by_cases h : id ∈ keysOf (initDeg parents nodes)
  · rw [if_pos h, if_pos ((mem_keysOf_initDeg parents nodes id).mp h)]
  · rw [if_neg h, if_neg (fun h' => h ((mem_keysOf_initDeg parents nodes id).mpr h'))]

theorem eq_nil_or_snoc {α} (l : List α) : l = [] ∨ ∃ l' b, l = l' ++ [b] := by
  rcases List.eq_nil_or_concat l with h | ⟨l', b, h⟩
  · exact Or.inl h
  · exact Or.inr ⟨l', b, by rw [h, List.concat_eq_append]⟩

/-! ## Dedup by event ID -/

/-- the node IDs are pairwise distinct -/
def NodeIdNodup (l : List (KNode κ)) : Prop := (l.map (fun n => n.ev.eventID)).Nodup

theorem NodeIdNodup.nodup {l : List (KNode κ)} (h : NodeIdNodup l) : l.Nodup := by
  unfold NodeIdNodup at h
  rw [List.nodup_iff_pairwise_ne, List.pairwise_map] at h
  exact h.imp (fun {a b} hne heq => hne (by rw [heq]))

theorem NodeIdNodup.perm {l l' : List (KNode κ)} (hp : l ~ l') (h : NodeIdNodup l) : NodeIdNodup l' := by
  unfold NodeIdNodup at *
  exact (hp.map _).nodup_iff.mp h

theorem NodeIdNodup.eq_of {l : List (KNode κ)} (h : NodeIdNodup l) {a b : KNode κ} (ha : a ∈ l) (hb : b ∈ l)
    (e : a.ev.eventID = b.ev.eventID) : a = b := by
  induction l with
  | nil => cases ha
  | cons x xs ih =>
    unfold NodeIdNodup at h
    simp only [List.map_cons, List.nodup_cons, List.mem_map, not_exists, not_and] at h
    rcases List.mem_cons.mp ha with rfl | ha' <;> rcases List.mem_cons.mp hb with rfl | hb'
    · rfl
    · exact absurd e.symm (h.1 b hb')
    · exact absurd e (h.1 a ha')
    · exact ih h.2 ha' hb'

theorem dedupFoldN_mem {l acc : List (KNode κ)} {n : KNode κ} (h : n ∈ l.foldl dedupStepN acc) : n ∈ acc ∨ n ∈ l := by
  induction l generalizing acc with
  | nil => exact Or.inl h
  | cons a as ih =>
    rw [List.foldl_cons] at h
    rcases ih h with h' | h'
    · unfold dedupStepN at h'
      split at h'
      · exact Or.inl h'
      · rcases List.mem_append.mp h' with h'' | h''
        · exact Or.inl h''
        · exact Or.inr (by simp_all)
    · exact Or.inr (List.mem_cons_of_mem _ h')

theorem dedupFoldN_idNodup {l acc : List (KNode κ)} (h : NodeIdNodup acc) : NodeIdNodup (l.foldl dedupStepN acc) := by
  induction l generalizing acc with
  | nil => exact h
  | cons a as ih =>
    rw [List.foldl_cons]; apply ih
    unfold dedupStepN; split
    · exact h
    · rename_i hn
      have hn' : ∀ m ∈ acc, m.ev.eventID ≠ a.ev.eventID := by simpa using hn
      unfold NodeIdNodup at *
      rw [List.map_append, List.nodup_append]
      refine ⟨h, by simp, ?_⟩
      intro x hx y hy
      simp only [List.map_cons, List.map_nil, List.mem_singleton] at hy
      obtain ⟨e, he, rfl⟩ := List.mem_map.mp hx
      rw [hy]; exact hn' e he

theorem dedupFoldN_ids {l acc : List (KNode κ)} {id : ID}
    (h : (∃ m ∈ acc, m.ev.eventID = id) ∨ (∃ m ∈ l, m.ev.eventID = id)) :
    ∃ m ∈ l.foldl dedupStepN acc, m.ev.eventID = id := by
  induction l generalizing acc with
  | nil =>
    rcases h with h | ⟨m, hm, _⟩
    · exact h
    · cases hm
  | cons a as ih =>
    rw [List.foldl_cons]; apply ih
    rcases h with ⟨m, hm, e⟩ | ⟨m, hm, e⟩
    · left; refine ⟨m, ?_, e⟩
      unfold dedupStepN; split
      · exact hm
      · exact List.mem_append_left _ hm
    · rcases List.mem_cons.mp hm with rfl | hm'
      · left
        unfold dedupStepN; split
        · rename_i hany
          obtain ⟨x, hx, hxe⟩ := List.any_eq_true.mp hany
          exact ⟨x, hx, by rw [← e]; simpa using hxe⟩
        · exact ⟨m, by simp, e⟩
      · right; exact ⟨m, hm', e⟩

theorem mem_dedupNodes {l : List (KNode κ)} {n : KNode κ} (h : n ∈ dedupNodes l) : n ∈ l := by
  rcases dedupFoldN_mem (acc := []) h with h' | h'
  · cases h'
  · exact h'

theorem dedupNodes_idNodup (l : List (KNode κ)) : NodeIdNodup (dedupNodes l) :=
  dedupFoldN_idNodup (acc := []) (by simp [NodeIdNodup])

theorem dedupNodes_ids {l : List (KNode κ)} {n : KNode κ} (h : n ∈ l) :
    ∃ m ∈ dedupNodes l, m.ev.eventID = n.ev.eventID :=
  dedupFoldN_ids (acc := []) (Or.inr ⟨n, h, rfl⟩)

/-- when IDs identify the nodes, dedup keeps exactly the node values -/
theorem mem_dedupNodes_iff {l : List (KNode κ)}
    (hid : ∀ n ∈ l, ∀ n' ∈ l, n.ev.eventID = n'.ev.eventID → n = n') {n : KNode κ} : n ∈ dedupNodes l ↔ n ∈ l := by
  constructor
  · exact mem_dedupNodes
  · intro h
    obtain ⟨m, hm, e⟩ := dedupNodes_ids h
    rw [← hid m (mem_dedupNodes hm) n h e]; exact hm

/-- removing the (single) node carrying a given ID -/
theorem filter_ne_perm {l : List (KNode κ)} (h : NodeIdNodup l) {n : KNode κ} (hn : n ∈ l) :
    l ~ n :: l.filter (fun m => m.ev.eventID != n.ev.eventID) := by
  induction l with
  | nil => cases hn
  | cons x xs ih =>
    have hx : NodeIdNodup xs := by
      unfold NodeIdNodup at *; simp only [List.map_cons, List.nodup_cons] at h; exact h.2
    by_cases e : x = n
    · subst e
      rw [List.filter_cons]
      simp only [bne_self_eq_false, Bool.false_eq_true, if_false]
      refine Perm.cons _ ?_
      rw [List.filter_eq_self.mpr]
      intro a ha
      have : a.ev.eventID ≠ x.ev.eventID := by
        intro e'
        have := h.eq_of (List.mem_cons_of_mem _ ha) List.mem_cons_self e'
        subst this
        exact (List.nodup_cons.mp h.nodup).1 ha
      simpa using this
    · have hn' : n ∈ xs := by
        rcases List.mem_cons.mp hn with h' | h'
        · exact absurd h'.symm e
        · exact h'
      have hne : x.ev.eventID ≠ n.ev.eventID := fun e' => e (h.eq_of List.mem_cons_self hn e')
      rw [List.filter_cons]
      have : (x.ev.eventID != n.ev.eventID) = true := by simpa using hne
      rw [if_pos this]
      exact ((ih hx hn').cons x).trans (Perm.swap n x _)

end V.StateRes
