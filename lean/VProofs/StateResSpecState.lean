/-
  C10 stage 7a: the model's resolved state (an association list) against the definition's partial state
  (a map), `applyEvents` = `applyAll`, the per-event provider (partial state, else the event's own non-rejected
  auth events: R7) and `authAndApply` = `iterAuth` (a left fold, definitional).  Core only.
-/
import VProofs.StateResSpecMainline
import VProofs.AuthRulesBase
namespace V.StateResSpec
open V Json GoJson Auth List
open V.StateRes

/-! ## association list vs map -/

def StateRel (s : State) (f : SMap) : Prop := ∀ t k, s.get t k = f (t, k)

def KeysNodup (s : State) : Prop := (s.map (·.1)).Nodup

theorem stateRel_nil : StateRel [] SMap.empty := fun _ _ => rfl
theorem keysNodup_nil : KeysNodup [] := by simp [KeysNodup]

theorem find_map_upd (p : Key) (e : Event) (q : Key) : ∀ s : State,
    ((s.map (fun x => if x.1 == p then (p, e) else x)).find? (fun x => x.1 == q)).map (·.2) =
      if q = p then (s.find? (fun x => x.1 == p)).map (fun _ => e) else (s.find? (fun x => x.1 == q)).map (·.2)
  | [] => by simp
  | x :: xs => by
    have ih := find_map_upd p e q xs
    simp only [List.map_cons, List.find?_cons]
    by_cases hxp : x.1 = p
    · simp only [hxp, beq_self_eq_true, if_true]
      by_cases hqp : q = p
      · simp [hqp]
      · have : (p == q) = false := by simpa using fun h => hqp h.symm
        simp only [this, hqp, if_false]
        rw [ih]; simp [hqp]
    · have hxp' : (x.1 == p) = false := by simpa using hxp
      simp only [hxp', Bool.false_eq_true, if_false]
      by_cases hqp : q = p
      · subst hqp
        simp only [hxp', if_true]
        rw [ih]; simp
      · simp only [hqp, if_false]
        by_cases hxq : x.1 = q
        · simp [hxq]
        · have hxq' : (x.1 == q) = false := by simpa using hxq
          simp only [hxq']
          rw [ih]; simp [hqp]

theorem State.get_set (s : State) (t k : Bytes) (e : Event) (t' k' : Bytes) :
    (s.set t k e).get t' k' = if (t', k') = (t, k) then some e else s.get t' k' := by
  unfold State.set State.get
  split
  · rename_i hf
    rw [find_map_upd (t, k) e (t', k') s]
    by_cases h : (t', k') = (t, k)
    · simp only [h, if_true]
      obtain ⟨x, hx⟩ := Option.isSome_iff_exists.mp hf
      rw [hx]; rfl
    · simp only [h, if_false]
  · rename_i hf
    have hnone : s.find? (fun x => x.1 == (t, k)) = none := by
      cases h : s.find? (fun x => x.1 == (t, k)) with
      | none => rfl
      | some x => rw [h] at hf; simp at hf
    rw [List.find?_append]
    by_cases h : (t', k') = (t, k)
    · rw [h, hnone]; simp
    · have : ((t, k) == (t', k')) = false := by
        have hne : (t, k) ≠ (t', k') := fun h' => h h'.symm
        simpa using hne
      simp only [h, if_false, List.find?_cons, this, List.find?_nil]
      cases s.find? (fun x => x.1 == (t', k')) <;> simp

theorem keysNodup_set {s : State} (h : KeysNodup s) (t k : Bytes) (e : Event) : KeysNodup (s.set t k e) := by
  unfold State.set KeysNodup at *
  split
  · have : (s.map (fun x => if x.1 == (t, k) then ((t, k), e) else x)).map (·.1) = s.map (·.1) := by
      rw [List.map_map]
      apply List.map_congr_left
      intro x _
      simp only [Function.comp]
      split
      · rename_i hx; exact (by simpa using hx : x.1 = (t, k)).symm
      · rfl
    rw [this]; exact h
  · rename_i hf
    rw [List.map_append, List.nodup_append]
    refine ⟨h, by simp, ?_⟩
    intro a ha b hb
    simp at hb; subst hb
    intro heq; subst heq
    apply hf
    obtain ⟨x, hx, hxk⟩ := List.mem_map.mp ha
    rw [List.find?_isSome]
    exact ⟨x, hx, by simp [hxk]⟩

theorem stateRel_set {s : State} {f : SMap} (h : StateRel s f) (t k : Bytes) (e : Event) :
    StateRel (s.set t k e) (f.set (t, k) e) := by
  intro t' k'
  rw [State.get_set]
  unfold SMap.set
  split
  · rfl
  · exact h t' k'

/-- with distinct keys an entry is in the list iff the lookup of its key returns it -/
theorem mem_state_iff {s : State} (h : KeysNodup s) (k : Key) (e : Event) : (k, e) ∈ s ↔ s.get k.1 k.2 = some e := by
  unfold State.get
  induction s with
  | nil => simp
  | cons x xs ih =>
    unfold KeysNodup at h
    simp only [List.map_cons, List.nodup_cons] at h
    simp only [List.mem_cons, List.find?_cons]
    by_cases hx : x.1 = k
    · have hb : (x.1 == (k.1, k.2)) = true := by simpa using hx
      simp only [hb]
      constructor
      · rintro (h1 | h1)
        · rw [← h1]; rfl
        · exact absurd (hx ▸ List.mem_map_of_mem (f := (·.1)) h1) h.1
      · intro h1
        left
        simp at h1
        exact Prod.ext hx.symm h1.symm
    · have hb : (x.1 == (k.1, k.2)) = false := by simpa using hx
      simp only [hb]
      rw [← ih h.2]
      constructor
      · rintro (h1 | h1)
        · exact absurd (by rw [← h1]) hx
        · exact h1
      · exact Or.inr

theorem result_ids_iff {s : State} {f : SMap} (hk : KeysNodup s) (hr : StateRel s f) (id : ID) :
    id ∈ s.map (·.2.eventID) ↔ ∃ k e, f k = some e ∧ e.eventID = id := by
  simp only [List.mem_map]
  constructor
  · rintro ⟨⟨k, e⟩, hx, rfl⟩
    exact ⟨k, e, by rw [← hr k.1 k.2]; exact (mem_state_iff hk k e).mp hx, rfl⟩
  · rintro ⟨k, e, hf, rfl⟩
    exact ⟨(k, e), (mem_state_iff hk k e).mpr (by rw [hr k.1 k.2]; exact hf), rfl⟩

/-! ## applying events -/

def applyStep (st : State) (e : Event) : State :=
  match e.stateKey with
  | none => st
  | some k => st.set e.type k e

theorem applyEvents_eq (s : State) (evs : List Event) : applyEvents s evs = evs.foldl applyStep s := rfl

theorem applyStep_rel {s : State} {f : SMap} (h : StateRel s f) (hk : KeysNodup s) (e : Event) :
    StateRel (applyStep s e) (applyOne f e) ∧ KeysNodup (applyStep s e) := by
  unfold applyStep applyOne keyOf
  cases e.stateKey with
  | none => exact ⟨h, hk⟩
  | some k => exact ⟨stateRel_set h _ _ _, keysNodup_set hk _ _ _⟩

theorem applyEvents_rel : ∀ (evs : List Event) {s : State} {f : SMap}, StateRel s f → KeysNodup s →
    StateRel (applyEvents s evs) (applyAll f evs) ∧ KeysNodup (applyEvents s evs)
  | [], _, _, h, hk => ⟨h, hk⟩
  | e :: es, s, f, h, hk => by
    have h1 := applyStep_rel h hk e
    have := applyEvents_rel es h1.1 h1.2
    simpa [applyEvents_eq, applyAll] using this

/-! ## the provider (R7) -/

theorem lookupState_eq {s : State} {f : SMap} (h : StateRel s f) (t k : Bytes) :
    lookupState s t k = partialLookup f (t, k) := by
  unfold lookupState partialLookup
  rw [h t k]

theorem fromAuthEvents_eq (m : List Event) (rejected : List ID) (e : Event) (t k : Bytes) :
    fromAuthEvents m rejected e t k = fallback m rejected e (t, k) := rfl

theorem flatMap_congr' {α β : Type} {f g : α → List β} : ∀ {l : List α}, (∀ x ∈ l, f x = g x) →
    l.flatMap f = l.flatMap g
  | [], _ => rfl
  | x :: xs, h => by
    rw [List.flatMap_cons, List.flatMap_cons, h x (by simp),
      flatMap_congr' (fun y hy => h y (List.mem_cons_of_mem _ hy))]

theorem providerFor_eq {s : State} {f : SMap} (h : StateRel s f) (m : List Event) (rejected : List ID) (e : Event) :
    providerFor m rejected s e = providerEvents m rejected f e := by
  unfold providerFor providerEvents neededKeys
  apply flatMap_congr'
  intro tk _
  rw [lookupState_eq h, fromAuthEvents_eq]
  obtain ⟨t, k⟩ := tk
  rfl

/-! ## iterative auth checks: a left fold (definitional) -/

def modelAuthStep (m : List Event) (rejected : List ID) (st : State) (e : Event) : State :=
  match allowedFreshNoValid e (Provider.ofEvents (providerFor m rejected st e)) false with
  | .ok => applyEvents st [e]
  | _ => st

/-- **Stage 7 (iterative auth checks, definitional).** -/
theorem iterativeAuth_eq_fold (m : List Event) (rejected : List ID) (s : State) (evs : List Event) :
    authAndApply m rejected s evs = evs.foldl (modelAuthStep m rejected) s := rfl

theorem modelAuthStep_rel {s : State} {f : SMap} (h : StateRel s f) (hk : KeysNodup s) (m : List Event)
    (rejected : List ID) (e : Event) :
    StateRel (modelAuthStep m rejected s e) (authStep m rejected f e) ∧ KeysNodup (modelAuthStep m rejected s e) := by
  unfold modelAuthStep authStep
  rw [providerFor_eq h]
  -- the model calls the reusable checker, the definition the standalone `Allowed`: they accept alike
  have hiff := V.AuthRules.allowedFresh_ok_iff_noValid e (Provider.ofEvents (providerEvents m rejected f e)) false
  generalize allowedFreshNoValid e (Provider.ofEvents (providerEvents m rejected f e)) false = v at hiff
  generalize allowedFresh e (Provider.ofEvents (providerEvents m rejected f e)) false = w at hiff
  cases v with
  | ok =>
    have hw : w = .ok := hiff.mpr rfl
    subst hw
    have := applyStep_rel h hk e
    simpa [applyEvents_eq] using this
  | _ =>
    cases w with
    | ok => exact absurd (hiff.mp rfl) (by intro hc; cases hc)
    | _ => exact ⟨h, hk⟩

theorem authAndApply_rel (m : List Event) (rejected : List ID) : ∀ (evs : List Event) {s : State} {f : SMap},
    StateRel s f → KeysNodup s →
    StateRel (authAndApply m rejected s evs) (iterAuth m rejected f evs) ∧ KeysNodup (authAndApply m rejected s evs)
  | [], _, _, h, hk => ⟨h, hk⟩
  | e :: es, s, f, h, hk => by
    have h1 := modelAuthStep_rel h hk m rejected e
    have := authAndApply_rel m rejected es h1.1 h1.2
    simpa [iterativeAuth_eq_fold, iterAuth] using this

end V.StateResSpec
