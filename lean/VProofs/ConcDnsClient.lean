/-
  VProofs.ConcDnsClient — the DNS-cache invariants of C19 also cover runs in which a CLIENT of the cache
  (`DNSCache.DialContext`: lookup; on a cache hit delete the name and look it up once more) pushes new ops onto the FRONT
  of a thread's to-do list in the middle of a run (`injectOps`, as the driver `VDriver/Conc.lean` does).

  The invariant theorems of `VProps/C19.lean` are stated for `Reachable c todos t0 s`: runs from `init todos t0` with
  fixed to-do lists.  Here:
    1. `step` only looks at the head of the mover's to-do list: appending at the END of any thread's list commutes
       with `step` (`step_extendTodo`), with `run` (`run_extendTodo`) and with `Reachable` (`reachable_extendTodo`).
    2. a reachable state with ops injected at the front of thread g's remaining list is reachable from `init todos'`,
       where `todos'` has the injected ops spliced in after the ops thread g had already consumed (`inject_reachable`);
       the current to-do list of a thread is a suffix of its initial one (`todo_suffix`).
    3. `ClientReach` = closure of `init` under `step` AND `injectOps`; every `ClientReach` state is `Reachable` for
       some to-do lists (`clientReach_reachable`), so `V.C19.dns_size_bounded`, `V.C19.dns_no_dup_keys`,
       `V.C19.dns_right_host` hold for it (`size_bounded_with_injections`, `no_dup_keys_with_injections`,
       `right_host_with_injections`).  The driver's harness-granularity move `poke` is a sequence of `step`s, so
       `ClientReach` (and `Reachable`) is closed under it (`clientReach_poke`, `reachable_poke`).
-/
import VProps.C19
namespace V.C19Client
open V.Conc V.Conc.Dns

/-! ### 1. `step` is insensitive to the unconsumed tails -/

/-- append `x i` at the end of thread `i`'s to-do list -/
def extThread (x : Nat → List Op) (i : Nat) (th : Thread) : Thread := { th with todo := th.todo ++ x i }

/-- append `x i` at the end of thread `i`'s to-do list, for every thread -/
def extendAll (s : State) (x : Nat → List Op) : State :=
  { s with threads := s.threads.mapIdx (extThread x) }

/-- append `extra` at the END of thread `g`'s to-do list -/
def extendTodo (s : State) (g : Nat) (extra : List Op) : State :=
  match s.threads[g]? with
  | some th => { s with threads := s.threads.set g { th with todo := th.todo ++ extra } }
  | none => s

/-- prepend `ops` to thread `g`'s to-do list (the definition of `V.Driver.Conc.injectOps`, restated) -/
def injectOps (s : State) (g : Nat) (ops : List Op) : State :=
  match s.threads[g]? with
  | some th => { s with threads := s.threads.set g { th with todo := ops ++ th.todo } }
  | none => s

def only (g : Nat) (extra : List Op) : Nat → List Op := fun i => if i = g then extra else []

theorem extendTodo_eq (s : State) (g : Nat) (extra : List Op) :
    extendTodo s g extra = extendAll s (only g extra) := by
  have key : ∀ (l : List Thread), (match l[g]? with
      | some th => l.set g { th with todo := th.todo ++ extra }
      | none => l) = l.mapIdx (extThread (only g extra)) := by
    intro l
    apply List.ext_getElem?
    intro i
    rw [List.getElem?_mapIdx]
    cases hg : l[g]? with
    | none =>
      simp only
      cases hi : l[i]? with
      | none => rfl
      | some th =>
        have : i ≠ g := fun e => by subst e; rw [hg] at hi; cases hi
        simp [extThread, only, this]
    | some thg =>
      simp only
      rw [get_set hg]
      by_cases hig : i = g
      · subst hig; simp [hg, extThread, only]
      · cases hi : l[i]? <;> simp [hig, extThread, only]
  unfold extendTodo extendAll
  rw [← key]
  cases s.threads[g]? <;> rfl

/-- a thread that is idle with an empty to-do list cannot move -/
theorem step_idle_empty {c : Cfg} {s : State} {m : Move} {th : Thread}
    (hth : s.threads[m.tid]? = some th) (hpc : th.pc = .idle) (htodo : th.todo = []) : step c s m = none := by
  obtain ⟨pc, todo, rets⟩ := th
  simp only at hpc htodo
  subst hpc htodo
  unfold step
  simp [hth]

/-- unless the mover is idle with nothing to do, `step` commutes with extending the to-do lists at their ends -/
theorem step_extendAll {c : Cfg} {s : State} {m : Move} (x : Nat → List Op)
    (hne : ∀ th, s.threads[m.tid]? = some th → th.pc = .idle → th.todo ≠ []) :
    step c (extendAll s x) m = (step c s m).map (fun s' => extendAll s' x) := by
  unfold step
  simp only [extendAll, List.getElem?_mapIdx]
  by_cases hnow : m.t < s.now
  · simp [hnow]
  · simp only [hnow, if_false]
    cases hth : s.threads[m.tid]? with
    | none => simp
    | some th =>
      obtain ⟨pc, todo, rets⟩ := th
      simp only [Option.map_some, extThread]
      cases pc with
      | idle =>
        cases todo with
        | nil => exact absurd rfl (hne _ hth rfl)
        | cons op rest =>
          cases op with
          | lookup n sel =>
            simp only [List.cons_append]
            by_cases hmx : s.mutex.isSome = true
            · simp [hmx]
            · simp only [hmx]
              cases get? n s.entries with
              | none => simp [extThread]
              | some e => by_cases hlt : m.t < e.expires <;> simp [hlt, extThread]
          | del n =>
            simp only [List.cons_append]
            by_cases hmx : s.mutex.isSome = true
            · simp [hmx]
            · simp [hmx, extThread]
      | resolve n sel =>
        simp only
        cases c.resolver n sel with
        | none => simp [extThread]
        | some a => by_cases hsz : c.size ≤ 0 <;> simp [hsz, extThread]
      | store n a =>
        by_cases hmx : s.mutex.isSome = true
        · simp [hmx]
        · simp [hmx, extThread]
      | evict n a =>
        by_cases hmx : (s.mutex != some m.tid) = true
        · simp [hmx]
        · by_cases hsz : (s.entries.length : Int) ≥ c.size <;> simp [hmx, hsz, extThread]

theorem step_extendAll_of_some {c : Cfg} {s s' : State} {m : Move} (x : Nat → List Op)
    (h : step c s m = some s') : step c (extendAll s x) m = some (extendAll s' x) := by
  rw [step_extendAll x, h]; rfl
  intro th hth hpc htodo
  rw [step_idle_empty hth hpc htodo] at h; cases h

/-- **1.** a step stays enabled, with the same effect, when ops are appended at the end of any thread's to-do list -/
theorem step_extendTodo {c : Cfg} {s s' : State} {m : Move} (g : Nat) (extra : List Op)
    (h : step c s m = some s') : step c (extendTodo s g extra) m = some (extendTodo s' g extra) := by
  rw [extendTodo_eq, extendTodo_eq]; exact step_extendAll_of_some _ h

/-- … lifted to schedules -/
theorem run_extendTodo {c : Cfg} (g : Nat) (extra : List Op) {ms : List Move} {s s' : State}
    (h : run c s ms = some s') : run c (extendTodo s g extra) ms = some (extendTodo s' g extra) := by
  induction ms generalizing s with
  | nil => simp only [run] at h ⊢; cases h; rfl
  | cons m ms ih =>
    simp only [run] at h ⊢
    cases hs : step c s m with
    | none => rw [hs] at h; cases h
    | some s1 =>
      rw [hs] at h
      rw [step_extendTodo g extra hs]
      exact ih h

/-- the initial to-do lists with `extra` appended to list `g` -/
def extendTodos (todos : List (List Op)) (g : Nat) (extra : List Op) : List (List Op) :=
  match todos[g]? with
  | some l => todos.set g (l ++ extra)
  | none => todos

theorem extendTodo_init (todos : List (List Op)) (g : Nat) (extra : List Op) (t0 : Int) :
    extendTodo (init todos t0) g extra = init (extendTodos todos g extra) t0 := by
  unfold extendTodo extendTodos init
  simp only [List.getElem?_map]
  cases todos[g]? with
  | none => rfl
  | some l => simp [List.map_set]

/-- … lifted to reachability: the run that reaches `s` from `init todos` reaches `extendTodo s g extra` from
    `init (extendTodos todos g extra)` -/
theorem reachable_extendTodo {c : Cfg} {todos : List (List Op)} {t0 : Int} {s : State} (g : Nat) (extra : List Op)
    (h : Reachable c todos t0 s) : Reachable c (extendTodos todos g extra) t0 (extendTodo s g extra) := by
  induction h with
  | init => rw [extendTodo_init]; exact .init
  | step m _ hs ih => exact .step m ih (step_extendTodo g extra hs)

/-! ### 2. injection in the middle of a run -/

theorem set_of_get {α} {l : List α} {g : Nat} {a : α} (h : l[g]? = some a) : l.set g a = l := by
  apply List.ext_getElem?
  intro i
  rw [get_set h]
  by_cases hi : i = g
  · subst hi; simp [h]
  · simp [hi]

theorem set_back {l : List Thread} {i g : Nat} {th0 new th' : Thread} (h0 : l[i]? = some th0)
    (h' : (l.set i new)[g]? = some th') :
    ∃ th, l[g]? = some th ∧ ((g ≠ i ∧ th' = th) ∨ (g = i ∧ th = th0 ∧ th' = new)) := by
  rw [get_set h0] at h'
  by_cases hg : g = i
  · subst hg
    simp only [if_true, Option.some.injEq] at h'
    exact ⟨th0, h0, .inr ⟨rfl, rfl, h'.symm⟩⟩
  · simp only [hg, if_false] at h'
    exact ⟨th', h', .inl ⟨hg, rfl⟩⟩

/-- what a step does to the to-do list of thread `g`: nothing, unless `g` is the mover and idle — then it drops the head -/
theorem step_todo_back {c : Cfg} {s s' : State} {m : Move} (g : Nat) {th' : Thread}
    (h : step c s m = some s') (hth' : s'.threads[g]? = some th') :
    ∃ th, s.threads[g]? = some th ∧
      ((th'.todo = th.todo ∧ (m.tid = g → th.pc ≠ .idle)) ∨
       (m.tid = g ∧ th.pc = .idle ∧ ∃ op, th.todo = op :: th'.todo)) := by
  cases step_rel h with
  | hit th0 n sel rest e hth0 hpc htodo hmx hget hlt =>
    rcases set_back hth0 hth' with ⟨th, hth, ⟨hg, e⟩ | ⟨hg, e1, e2⟩⟩
    · subst e; exact ⟨_, hth, .inl ⟨rfl, fun e => absurd e.symm hg⟩⟩
    · subst e1 e2; exact ⟨_, hth, .inr ⟨hg.symm, hpc, _, htodo⟩⟩
  | stale th0 n sel rest e hth0 hpc htodo hmx hget hlt =>
    rcases set_back hth0 hth' with ⟨th, hth, ⟨hg, e⟩ | ⟨hg, e1, e2⟩⟩
    · subst e; exact ⟨_, hth, .inl ⟨rfl, fun e => absurd e.symm hg⟩⟩
    · subst e1 e2; exact ⟨_, hth, .inr ⟨hg.symm, hpc, _, htodo⟩⟩
  | absent th0 n sel rest hth0 hpc htodo hmx hget =>
    rcases set_back hth0 hth' with ⟨th, hth, ⟨hg, e⟩ | ⟨hg, e1, e2⟩⟩
    · subst e; exact ⟨_, hth, .inl ⟨rfl, fun e => absurd e.symm hg⟩⟩
    · subst e1 e2; exact ⟨_, hth, .inr ⟨hg.symm, hpc, _, htodo⟩⟩
  | del th0 n rest hth0 hpc htodo hmx =>
    rcases set_back hth0 hth' with ⟨th, hth, ⟨hg, e⟩ | ⟨hg, e1, e2⟩⟩
    · subst e; exact ⟨_, hth, .inl ⟨rfl, fun e => absurd e.symm hg⟩⟩
    · subst e1 e2; exact ⟨_, hth, .inr ⟨hg.symm, hpc, _, htodo⟩⟩
  | resolveFail th0 n sel hth0 hpc hr =>
    rcases set_back hth0 hth' with ⟨th, hth, ⟨hg, e⟩ | ⟨hg, e1, e2⟩⟩
    · subst e; exact ⟨_, hth, .inl ⟨rfl, fun e => absurd e.symm hg⟩⟩
    · subst e1 e2; exact ⟨_, hth, .inl ⟨rfl, fun _ => by simp [hpc]⟩⟩
  | resolveNoCache th0 n sel a hth0 hpc hr hsz =>
    rcases set_back hth0 hth' with ⟨th, hth, ⟨hg, e⟩ | ⟨hg, e1, e2⟩⟩
    · subst e; exact ⟨_, hth, .inl ⟨rfl, fun e => absurd e.symm hg⟩⟩
    · subst e1 e2; exact ⟨_, hth, .inl ⟨rfl, fun _ => by simp [hpc]⟩⟩
  | resolveOk th0 n sel a hth0 hpc hr hsz =>
    rcases set_back hth0 hth' with ⟨th, hth, ⟨hg, e⟩ | ⟨hg, e1, e2⟩⟩
    · subst e; exact ⟨_, hth, .inl ⟨rfl, fun e => absurd e.symm hg⟩⟩
    · subst e1 e2; exact ⟨_, hth, .inl ⟨rfl, fun _ => by simp [hpc]⟩⟩
  | lock th0 n a hth0 hpc hmx =>
    rcases set_back hth0 hth' with ⟨th, hth, ⟨hg, e⟩ | ⟨hg, e1, e2⟩⟩
    · subst e; exact ⟨_, hth, .inl ⟨rfl, fun e => absurd e.symm hg⟩⟩
    · subst e1 e2; exact ⟨_, hth, .inl ⟨rfl, fun _ => by simp [hpc]⟩⟩
  | evictOne th0 n a hth0 hpc hmx hsz =>
    refine ⟨th', hth', .inl ⟨rfl, fun e => ?_⟩⟩
    subst e
    simp only at hth'
    rw [hth0] at hth'; cases hth'
    simp [hpc]
  | insert th0 n a hth0 hpc hmx hsz =>
    rcases set_back hth0 hth' with ⟨th, hth, ⟨hg, e⟩ | ⟨hg, e1, e2⟩⟩
    · subst e; exact ⟨_, hth, .inl ⟨rfl, fun e => absurd e.symm hg⟩⟩
    · subst e1 e2; exact ⟨_, hth, .inl ⟨rfl, fun _ => by simp [hpc]⟩⟩

/-- the current to-do list of a thread is a SUFFIX of its initial one (steps only ever drop the head of the mover's list) -/
theorem todo_suffix {c : Cfg} {todos : List (List Op)} {t0 : Int} {s : State} (g : Nat)
    (h : Reachable c todos t0 s) :
    ∀ th, s.threads[g]? = some th → ∃ consumed, todos[g]? = some (consumed ++ th.todo) := by
  induction h with
  | init =>
    intro th hth
    simp only [init, List.getElem?_map] at hth
    cases hl : todos[g]? with
    | none => rw [hl] at hth; cases hth
    | some l =>
      rw [hl] at hth
      simp only [Option.map_some, Option.some.injEq] at hth
      subst hth
      exact ⟨[], rfl⟩
  | step m _ hs ih =>
    intro th' hth'
    obtain ⟨th, hth, hcase⟩ := step_todo_back g hs hth'
    obtain ⟨consumed, hc⟩ := ih th hth
    rcases hcase with ⟨e, _⟩ | ⟨_, _, op, e⟩
    · exact ⟨consumed, by rw [e]; exact hc⟩
    · exact ⟨consumed ++ [op], by rw [hc, e]; simp⟩

/-- as long as thread `g` has not touched the last `rest` ops of its list, the run is also a run of the to-do lists
    with `rest` cut off from list `g` -/
theorem truncate_reachable {c : Cfg} {todos : List (List Op)} {t0 : Int} {s : State} {g : Nat}
    {consumed rest : List Op} (h : Reachable c todos t0 s) (h0 : todos[g]? = some (consumed ++ rest)) :
    ∀ th, s.threads[g]? = some th → rest.length ≤ th.todo.length →
      ∃ s0, Reachable c (todos.set g consumed) t0 s0 ∧ s = extendTodo s0 g rest := by
  induction h with
  | init =>
    intro th _ _
    refine ⟨init (todos.set g consumed) t0, .init, ?_⟩
    rw [extendTodo_init]
    have hg : (todos.set g consumed)[g]? = some consumed := by rw [get_set h0]; simp
    unfold extendTodos
    rw [hg]
    simp only [List.set_set]
    rw [set_of_get h0]
  | step m hr hs ih =>
    rename_i s1 s2
    intro th' hth' hlen
    obtain ⟨th, hth, hcase⟩ := step_todo_back g hs hth'
    have hlen' : rest.length ≤ th.todo.length := by
      rcases hcase with ⟨e, _⟩ | ⟨_, _, op, e⟩
      · rw [← e]; exact hlen
      · rw [e]; simp only [List.length_cons]; omega
    obtain ⟨s0, hr0, e⟩ := ih th hth hlen'
    subst e
    rw [extendTodo_eq] at hs hth
    have hne : ∀ th0, s0.threads[m.tid]? = some th0 → th0.pc = .idle → th0.todo ≠ [] := by
      intro th0 hth0 hpc htodo
      by_cases hg : m.tid = g
      · subst hg
        simp only [extendAll, List.getElem?_mapIdx, hth0, Option.map_some, Option.some.injEq] at hth
        subst hth
        rcases hcase with ⟨_, hn⟩ | ⟨_, _, op, e⟩
        · exact hn rfl hpc
        · simp only [extThread, only, htodo, if_true, List.nil_append] at e
          rw [e] at hlen; simp only [List.length_cons] at hlen; omega
      · have hnone : step c (extendAll s0 (only g rest)) m = none := by
          apply step_idle_empty (th := extThread (only g rest) m.tid th0)
          · simp [extendAll, List.getElem?_mapIdx, hth0]
          · exact hpc
          · simp [extThread, only, hg, htodo]
        rw [hnone] at hs; cases hs
    rw [step_extendAll _ hne] at hs
    cases hs0 : step c s0 m with
    | none => rw [hs0] at hs; cases hs
    | some s0' =>
      rw [hs0] at hs
      simp only [Option.map_some, Option.some.injEq] at hs
      exact ⟨s0', .step m hr0 hs0, by rw [extendTodo_eq]; exact hs.symm⟩

/-- **2.** the injection lemma: a reachable state in which thread `g` still has `rest` to do, with `ops` pushed onto the
    front of that list, is reachable from the to-do lists in which `ops` is spliced in between what thread `g` had
    already consumed and `rest` -/
theorem inject_reachable {c : Cfg} {todos : List (List Op)} {t0 : Int} {s : State} {g : Nat}
    {consumed rest : List Op} {th : Thread} (ops : List Op)
    (h : Reachable c todos t0 s) (h0 : todos[g]? = some (consumed ++ rest))
    (hth : s.threads[g]? = some th) (hrest : th.todo = rest) :
    Reachable c (todos.set g (consumed ++ (ops ++ rest))) t0 (injectOps s g ops) := by
  obtain ⟨s0, hr0, e⟩ := truncate_reachable h h0 th hth (by rw [hrest]; exact Nat.le_refl _)
  have h1 := reachable_extendTodo g (ops ++ rest) hr0
  have hg : (todos.set g consumed)[g]? = some consumed := by rw [get_set h0]; simp
  have e1 : extendTodos (todos.set g consumed) g (ops ++ rest) = todos.set g (consumed ++ (ops ++ rest)) := by
    unfold extendTodos; rw [hg]; simp only [List.set_set]
  have e2 : injectOps s g ops = extendTodo s0 g (ops ++ rest) := by
    subst e
    unfold extendTodo at hth ⊢
    cases h0g : s0.threads[g]? with
    | none => rw [h0g] at hth; simp only at hth; rw [h0g] at hth; cases hth
    | some th0 =>
      rw [h0g] at hth
      simp only at hth ⊢
      rw [get_set h0g] at hth
      simp only [if_true, Option.some.injEq] at hth
      subst hth
      simp only [List.append_left_eq_self] at hrest
      unfold injectOps
      simp only [get_set h0g, if_true, List.set_set, hrest, List.nil_append]
  rw [e1] at h1; rw [e2]; exact h1

/-- the same without having to name the consumed prefix: some to-do lists (as many as before) explain the state -/
theorem inject_reachable' {c : Cfg} {todos : List (List Op)} {t0 : Int} {s : State} (g : Nat) (ops : List Op)
    (h : Reachable c todos t0 s) :
    ∃ todos', todos'.length = todos.length ∧ Reachable c todos' t0 (injectOps s g ops) := by
  cases hth : s.threads[g]? with
  | none => exact ⟨todos, rfl, by unfold injectOps; rw [hth]; exact h⟩
  | some th =>
    obtain ⟨consumed, hc⟩ := todo_suffix g h th hth
    exact ⟨_, by simp, inject_reachable ops h hc hth rfl⟩

/-! ### 3. runs with injections -/

/-- closure of `init todos t0` under enabled moves AND under injections of ops at the front of any thread's to-do
    list (the driver injects only while the thread is idle, right after its lookup returned; nothing below needs that) -/
inductive ClientReach (c : Cfg) (todos : List (List Op)) (t0 : Int) : State → Prop where
  | init : ClientReach c todos t0 (init todos t0)
  | step {s s' : State} (m : Move) : ClientReach c todos t0 s → step c s m = some s' → ClientReach c todos t0 s'
  | inject {s : State} (g : Nat) (ops : List Op) : ClientReach c todos t0 s → ClientReach c todos t0 (injectOps s g ops)

/-- a run with injections is an ordinary run of other to-do lists (same number of threads) -/
theorem clientReach_reachable {c : Cfg} {todos : List (List Op)} {t0 : Int} {s : State}
    (h : ClientReach c todos t0 s) : ∃ todos', todos'.length = todos.length ∧ Reachable c todos' t0 s := by
  induction h with
  | init => exact ⟨todos, rfl, .init⟩
  | step m _ hs ih =>
    obtain ⟨todos', hl, hr⟩ := ih
    exact ⟨todos', hl, .step m hr hs⟩
  | inject g ops _ ih =>
    obtain ⟨todos', hl, hr⟩ := ih
    obtain ⟨todos'', hl', hr'⟩ := inject_reachable' g ops hr
    exact ⟨todos'', hl'.trans hl, hr'⟩

/-- `V.C19.dns_size_bounded` for runs with injections -/
theorem size_bounded_with_injections {c : Cfg} {todos : List (List Op)} {t0 : Int} {s : State}
    (h : ClientReach c todos t0 s) : (s.entries.length : Int) ≤ max c.size 0 := by
  obtain ⟨_, _, hr⟩ := clientReach_reachable h
  exact V.C19.dns_size_bounded hr

/-- `V.C19.dns_no_dup_keys` for runs with injections -/
theorem no_dup_keys_with_injections {c : Cfg} {todos : List (List Op)} {t0 : Int} {s : State}
    (h : ClientReach c todos t0 s) : (s.entries.map (·.1)).Nodup := by
  obtain ⟨_, _, hr⟩ := clientReach_reachable h
  exact V.C19.dns_no_dup_keys hr

/-- `V.C19.dns_right_host` for runs with injections -/
theorem right_host_with_injections {c : Cfg} {ans : Name → Addrs}
    (hres : ∀ n k a, c.resolver n k = some a → a = ans n)
    {todos : List (List Op)} {t0 : Int} {s : State} (h : ClientReach c todos t0 s) :
    (∀ p ∈ s.entries, p.2.addrs = ans p.1) ∧
    (∀ th ∈ s.threads, ∀ r ∈ th.rets, ∀ n e, (r = .hit n e ∨ r = .miss n e) → e.addrs = ans n) := by
  obtain ⟨_, _, hr⟩ := clientReach_reachable h
  exact V.C19.dns_right_host hres hr

/-! ### the driver's harness-granularity move `poke` is a sequence of `step`s -/

theorem evictLoop_closed {c : Cfg} {P : State → Prop} (hP : ∀ s s' m, P s → step c s m = some s' → P s')
    (g : Nat) (t : Int) : ∀ (fuel : Nat) (s s' : State), P s → evictLoop c g t fuel s = some s' → P s' := by
  intro fuel
  induction fuel with
  | zero => intro s s' _ h; simp [evictLoop] at h
  | succ fuel ih =>
    intro s s' hs h
    unfold evictLoop at h
    split at h
    · split at h
      · split at h
        · rename_i s1 hs1; exact ih _ _ (hP _ _ _ hs hs1) h
        · cases h
      · cases h; exact hs
    · cases h

/-- every state `poke` returns is obtained from its argument by `step`s -/
theorem poke_closed {c : Cfg} {P : State → Prop} (hP : ∀ s s' m, P s → step c s m = some s' → P s')
    (fuel : Nat) (s : State) (g : Nat) (t : Int) (hs : P s) : P (poke c fuel s g t).1 := by
  unfold poke
  split
  · exact hs
  · split
    · split
      · exact hs
      · split
        · exact hs
        · rename_i s' hs'
          have := hP _ _ _ hs hs'
          split
          · split <;> exact this
          · exact this
    · split
      · exact hs
      · rename_i s1 hs1
        have h1 := hP _ _ _ hs hs1
        split
        · split
          · split
            · exact h1
            · rename_i s2 hs2
              have h2 := hP _ _ _ h1 hs2
              split
              · rename_i s3 hs3; exact evictLoop_closed hP g t _ _ _ h2 hs3
              · exact h2
          · exact h1
        · exact h1
    · exact hs

/-- runs with injections are closed under the driver's `poke` -/
theorem clientReach_poke {c : Cfg} {todos : List (List Op)} {t0 : Int} {s : State} (fuel g : Nat) (t : Int)
    (h : ClientReach c todos t0 s) : ClientReach c todos t0 (poke c fuel s g t).1 :=
  poke_closed (fun _ _ m hs hstep => .step m hs hstep) fuel s g t h

/-- … and so are plain runs -/
theorem reachable_poke {c : Cfg} {todos : List (List Op)} {t0 : Int} {s : State} (fuel g : Nat) (t : Int)
    (h : Reachable c todos t0 s) : Reachable c todos t0 (poke c fuel s g t).1 :=
  poke_closed (fun _ _ m hs hstep => .step m hs hstep) fuel s g t h

/-- the hypotheses are satisfiable by a run that really injects: thread 0 looks "a" up (miss, resolve, store), looks it up
    again (hit), then the client pushes `del "a"; lookup "a"` and the delete runs -/
example : ∃ s, ClientReach ⟨2, 10, fun _ _ => some [1]⟩ [[.lookup "a" 0, .lookup "a" 0]] 0 s ∧
    s.threads.map (·.todo) = [[.lookup "a" 0]] ∧ s.entries = [] := by
  refine ⟨_, .step ⟨0, 5, 0⟩ (.inject 0 [.del "a", .lookup "a" 0]
    (.step ⟨0, 4, 0⟩ (.step ⟨0, 3, 0⟩ (.step ⟨0, 2, 0⟩ (.step ⟨0, 1, 0⟩ (.step ⟨0, 0, 0⟩ .init rfl) rfl) rfl) rfl) rfl)) rfl,
    ?_, ?_⟩ <;> decide

#print axioms V.C19Client.step_extendTodo
#print axioms V.C19Client.run_extendTodo
#print axioms V.C19Client.reachable_extendTodo
#print axioms V.C19Client.todo_suffix
#print axioms V.C19Client.inject_reachable
#print axioms V.C19Client.clientReach_reachable
#print axioms V.C19Client.size_bounded_with_injections
#print axioms V.C19Client.no_dup_keys_with_injections
#print axioms V.C19Client.right_host_with_injections
#print axioms V.C19Client.clientReach_poke
end V.C19Client
