/-
  Well-formedness of the v2 / v2.1 result (`finalState`, see StateResStages.lean): one entry per slot, every
  entry is a supplied event, the unconflicted events are all there, and equal state sets resolve to themselves.
  Core only.
-/
import VProofs.StateResStages
import VProofs.StateResState
import VProofs.StateResSplit
import VProofs.StateResClosure
import VProofs.StateResKahnSim2
import VProofs.StateResMapEq
namespace V.StateRes
open V Json GoJson Auth List

/-! ## one entry per slot -/

theorem stateS1_wf (algo : Nat) (p : Prep) : StateWF (stateS1 algo p) := by
  unfold stateS1; split
  · exact stateWF_nil.applyEvents _
  · exact stateWF_nil

theorem stateS2_wf (algo : Nat) (p : Prep) (rej : List ID) : StateWF (stateS2 algo p rej) :=
  (stateS1_wf algo p).authAndApply _ _ _

theorem stateS3_wf (algo : Nat) (p : Prep) (rej : List ID) : StateWF (stateS3 algo p rej) :=
  (stateS2_wf algo p rej).authAndApply _ _ _

theorem stateS4_wf (algo : Nat) (p : Prep) (rej : List ID) : StateWF (stateS4 algo p rej) :=
  (stateS3_wf algo p rej).applyEvents _

theorem finalState_wf (algo : Nat) (sets : List (List Event)) (auth : List Event) (rej : List ID) :
    StateWF (finalState algo sets auth rej) := by
  unfold finalState
  simp only
  split
  · exact stateWF_nil
  · exact stateS4_wf _ _ _

/-! ## every entry is a supplied event -/

/-- where the events that `resolveV2New` ever applies come from -/
structure PrepSub (p : Prep) (sets : List (List Event)) (auth : List Event) : Prop where
  unconf : ∀ e ∈ p.unconflicted, e ∈ sets.flatten
  control : ∀ e ∈ p.controlEvents, e ∈ sets.flatten ∨ e ∈ auth
  others : ∀ e ∈ p.others, e ∈ sets.flatten ∨ e ∈ auth

theorem mem_fullConflicted {algo : Nat} {sets : List (List Event)} {auth : List Event} {e : Event}
    (h : e ∈ (splitConflictedUnconflicted false sets).1 ++
      authDifferenceNew algo (eventMapFromEvents auth) (splitConflictedUnconflicted false sets).1 sets) :
    e ∈ sets.flatten ∨ e ∈ auth := by
  rcases List.mem_append.mp h with h | h
  · exact Or.inl (split_sub false sets (Or.inl h)).1
  · rcases mem_authDifferenceNew_sub h with h' | h'
    · exact Or.inr (mem_eventMap h')
    · exact Or.inl (split_sub false sets (Or.inl h')).1

theorem prepOf_sub (algo : Nat) (sets : List (List Event)) (auth : List Event) : PrepSub (prepOf algo sets auth) sets auth := by
  refine ⟨?_, ?_, ?_⟩
  · intro e he
    exact (split_sub false sets (Or.inr he)).1
  · intro e he
    simp only [prepOf] at he
    obtain ⟨id, _, hid⟩ := List.mem_filterMap.mp he
    unfold lookupAny at hid
    split at hid
    · rename_i x hx
      cases hid
      exact mem_fullConflicted (findByID_some hx).1
    · have := (findByID_some hid).1
      exact Or.inl (split_sub false sets (Or.inl (mem_eventMap this))).1
  · intro e he
    simp only [prepOf, othersOf] at he
    exact mem_fullConflicted (mem_eventMap (List.mem_filter.mp he).1)

theorem mem_stateS4 {algo : Nat} {p : Prep} {rej : List ID} {x} (h : x ∈ stateS4 algo p rej) :
    x.2 ∈ p.unconflicted ∨ x.2 ∈ p.controlEvents ∨ x.2 ∈ p.others := by
  unfold stateS4 at h
  rcases mem_applyEvents h with h3 | h3
  · unfold stateS3 at h3
    rcases mem_authAndApply h3 with h2 | h2
    · unfold stateS2 at h2
      rcases mem_authAndApply h2 with h1 | h1
      · unfold stateS1 at h1
        split at h1
        · rcases mem_applyEvents h1 with h0 | h0
          · cases h0
          · exact Or.inl (reverseTopoAuth_subset _ _ h0)
        · cases h1
      · exact Or.inr (Or.inl (reverseTopoAuth_subset _ _ h1))
    · exact Or.inr (Or.inr (mem_mainlineOrdering.mp h2))
  · exact Or.inl h3

theorem mem_finalState {algo : Nat} {sets : List (List Event)} {auth : List Event} {rej : List ID} {x}
    (h : x ∈ finalState algo sets auth rej) : x.2 ∈ sets.flatten ∨ x.2 ∈ auth := by
  unfold finalState at h
  simp only at h
  split at h
  · cases h
  · have hs := prepOf_sub algo sets auth
    rcases mem_stateS4 h with h' | h' | h'
    · exact Or.inl (hs.unconf _ h')
    · exact hs.control _ h'
    · exact hs.others _ h'

/-! ## the unconflicted events are kept -/

theorem unconflicted_distinctSlots (sets : List (List Event)) : DistinctSlots (splitConflictedUnconflicted false sets).2 :=
  distinctSlots_of_keys (split_unconflicted_keys false sets)

theorem finalState_keeps_unconflicted (algo : Nat) (sets : List (List Event)) (auth : List Event) (rej : List ID)
    {u : Event} (hu : u ∈ (splitConflictedUnconflicted false sets).2) :
    (keyOf u, u) ∈ finalState algo sets auth rej := by
  have hk : u.stateKey.isSome := (split_sub false sets (Or.inr hu)).2
  have hne : ¬ ((prepOf algo sets auth).conflicted.isEmpty && (prepOf algo sets auth).unconflicted.isEmpty && auth.isEmpty) = true := by
    have : (prepOf algo sets auth).unconflicted.isEmpty = false := by
      cases h : (prepOf algo sets auth).unconflicted with
      | nil => simp only [prepOf] at h; rw [h] at hu; cases hu
      | cons a as => rfl
    simp [this]
  unfold finalState
  simp only [if_neg hne]
  apply State.mem_of_get_eq_some
  unfold stateS4
  have hd : DistinctSlots (prepOf algo sets auth).unconflicted := unconflicted_distinctSlots sets
  exact (get_applyEvents hd _ _ _ _).mpr (Or.inl ⟨u, hu, hasKey_keyOf hk, rfl⟩)

/-! ## equal state sets -/

theorem kahn_nil {κ} (lt : κ → κ → Bool) (parents : Event → List ID) : kahn lt parents [] = [] := rfl

theorem reverseTopoAuth_nil (am : List Event) (ce : Option Event) : reverseTopoAuth am ce [] = [] := rfl

theorem mainlineOrdering_nil (am ml : List Event) : mainlineOrdering am ml [] = [] := rfl

theorem controlIDsOf_nil : controlIDsOf [] [] = [] := rfl

/-- with nothing conflicted the preparation yields no control events and no others -/
theorem prepOf_all_equal (algo : Nat) (sets : List (List Event)) (auth : List Event)
    (hc : (splitConflictedUnconflicted false sets).1 = []) (hs : ∀ s ∈ sets, ∀ s' ∈ sets, SameSet s s') :
    (prepOf algo sets auth).controlEvents = [] ∧ (prepOf algo sets auth).others = [] := by
  have hd : authDifferenceNew algo (eventMapFromEvents auth) [] sets = [] := authDifferenceNew_all_equal algo _ sets hs
  simp only [prepOf, hc, hd, List.append_nil]
  have h1 : eventMapFromEvents ([] : List Event) = [] := rfl
  have h2 : ∀ ids, rootsOf ids [] = [] := fun _ => rfl
  rw [h1, h2, controlIDsOf_nil]
  exact ⟨rfl, rfl⟩

theorem authAndApply_nil (am : List Event) (rej : List ID) (s : State) : authAndApply am rej s [] = s := rfl

/-- If all state sets are rearrangements of one duplicate-free set `S` of state events with distinct slots, the resolved
    state consists exactly of the events of `S`. -/
theorem finalState_all_equal (algo : Nat) (S : List Event) (hS : IdNodup S) (hkeys : (S.map keyOf).Nodup)
    (hst : ∀ e ∈ S, e.stateKey.isSome) (sets : List (List Event)) (hne : sets ≠ []) (h : ∀ s ∈ sets, s ~ S)
    (auth : List Event) (rej : List ID) :
    SameSet ((finalState algo sets auth rej).map (·.2)) S := by
  obtain ⟨hc, hu⟩ := split_all_equal S hS hkeys hst sets hne h
  have hss : ∀ s ∈ sets, ∀ s' ∈ sets, SameSet s s' := fun s hs s' hs' =>
    (SameSet.of_perm (h s hs)).trans (SameSet.of_perm (h s' hs')).symm
  obtain ⟨hce, hot⟩ := prepOf_all_equal algo sets auth hc hss
  intro e
  constructor
  · intro he
    obtain ⟨x, hx, rfl⟩ := List.mem_map.mp he
    unfold finalState at hx
    simp only at hx
    split at hx
    · cases hx
    · rcases mem_stateS4 hx with h' | h' | h'
      · exact (hu _).mp h'
      · rw [hce] at h'; cases h'
      · rw [hot] at h'; cases h'
  · intro he
    have := finalState_keeps_unconflicted algo sets auth rej ((hu e).mpr he)
    exact List.mem_map.mpr ⟨_, this, rfl⟩

/-- the events of a well-formed state are pairwise distinct -/
theorem StateWF.events_nodup {s : State} (h : StateWF s) : (s.map (·.2)).Nodup := by
  have hn := h.nodup
  rw [List.nodup_iff_pairwise_ne, List.pairwise_map] at hn ⊢
  have : s.Pairwise (fun a b => a ∈ s ∧ b ∈ s ∧ a.1 ≠ b.1) := by
    rw [List.pairwise_iff_forall_sublist] at hn ⊢
    intro a b hab
    have := hab.subset
    exact ⟨this List.mem_cons_self, this (List.mem_cons_of_mem _ List.mem_cons_self), hn hab⟩
  refine this.imp ?_
  rintro a b ⟨ha, hb, hne⟩ heq
  apply hne
  have h1 := hasKey_iff.mp (h.slot a ha)
  have h2 := hasKey_iff.mp (h.slot b hb)
  rw [heq] at h1
  have e2 : a.1.2 = b.1.2 := by
    have := h1.1.symm.trans h2.1; simpa using this
  have e1 : a.1.1 = b.1.1 := h1.2.symm.trans h2.2
  exact Prod.ext e1 e2

theorem finalState_all_equal_perm (algo : Nat) (S : List Event) (hS : IdNodup S) (hkeys : (S.map keyOf).Nodup)
    (hst : ∀ e ∈ S, e.stateKey.isSome) (sets : List (List Event)) (hne : sets ≠ []) (h : ∀ s ∈ sets, s ~ S)
    (auth : List Event) (rej : List ID) :
    (finalState algo sets auth rej).map (·.2) ~ S :=
  (finalState_all_equal algo S hS hkeys hst sets hne h auth rej).perm
    (finalState_wf algo sets auth rej).events_nodup hS.nodup

end V.StateRes
