/-
  VProofs.ConcFetch — helper lemmas for the FetchKeys interleaving model (C19): result-map facts, inversion of `step`,
  the reachable-state invariant, the termination measure.
-/
import VModel.ConcFetch
import VProofs.ConcDns
namespace V.Conc.Fetch
open V.Conc

/-! ### result maps -/

def keysNodup (m : RMap) : Prop := (m.map (·.1)).Nodup

theorem rget_nil (k : Req) : rget k [] = none := rfl

theorem rget_cons (k : Req) (p : Req × Val) (m : RMap) :
    rget k (p :: m) = if p.1 = k then some p.2 else rget k m := by
  unfold rget
  by_cases h : p.1 = k
  · simp [h]
  · have : (p.1 == k) = false := by simpa using h
    simp [this, h]

theorem rget_append (k : Req) (a b : RMap) : rget k (a ++ b) = (rget k a).or (rget k b) := by
  induction a with
  | nil => simp [rget_nil]
  | cons p a ih =>
    simp only [List.cons_append, rget_cons]
    by_cases h : p.1 = k <;> simp [h, ih]

theorem rget_filter_ne (k k' : Req) (m : RMap) :
    rget k (m.filter (fun p => p.1 != k')) = if k = k' then none else rget k m := by
  induction m with
  | nil => simp [rget_nil]
  | cons p m ih =>
    by_cases hp : p.1 = k'
    · have : (p.1 != k') = false := by simp [hp]
      simp only [List.filter_cons, this, Bool.false_eq_true, if_false, ih, rget_cons]
      by_cases hk : k = k'
      · simp [hk]
      · have : ¬ p.1 = k := by rw [hp]; exact fun h => hk h.symm
        simp [hk, this]
    · have : (p.1 != k') = true := by simp [hp]
      simp only [List.filter_cons, this, if_true, rget_cons, ih]
      by_cases hk : k = k'
      · subst hk; simp [hp]
      · simp [hk]

theorem rget_rput (k k' : Req) (v : Val) (m : RMap) :
    rget k (rput k' v m) = if k = k' then some v else rget k m := by
  unfold rput
  rw [rget_append, rget_filter_ne, rget_cons, rget_nil]
  by_cases h : k = k'
  · subst h; simp
  · have : ¬ k' = k := fun h' => h h'.symm
    simp [h, this]

theorem mem_rput {k : Req} {v : Val} {m : RMap} {p : Req × Val} (h : p ∈ rput k v m) : p ∈ m ∨ p = (k, v) := by
  simp only [rput, List.mem_append, List.mem_filter, List.mem_cons, List.not_mem_nil, or_false] at h
  rcases h with ⟨h, _⟩ | h
  · exact Or.inl h
  · exact Or.inr h

theorem rget_none_of_no_key {k : Req} {m : RMap} (h : ∀ p ∈ m, p.1 ≠ k) : rget k m = none := by
  induction m with
  | nil => rfl
  | cons p m ih =>
    rw [rget_cons]
    have := h p (by simp)
    simp [this, ih (fun q hq => h q (by simp [hq]))]

/-- merging a map none of whose keys is `k` leaves `k` untouched -/
theorem rget_mergeInto_other {k : Req} (res : RMap) (m : RMap) (h : ∀ p ∈ res, p.1 ≠ k) :
    rget k (mergeInto m res) = rget k m := by
  unfold mergeInto
  induction res generalizing m with
  | nil => rfl
  | cons p res ih =>
    simp only [List.foldl_cons]
    rw [ih _ (fun q hq => h q (by simp [hq])), rget_rput]
    have := h p (by simp)
    have hne : ¬ k = p.1 := fun h' => this h'.symm
    simp [hne]

/-- merging a map with distinct keys: its entries win, everything else is kept -/
theorem rget_mergeInto (k : Req) (res : RMap) (m : RMap) (hn : keysNodup res) :
    rget k (mergeInto m res) = (rget k res).or (rget k m) := by
  induction res generalizing m with
  | nil => simp [mergeInto, rget_nil]
  | cons p res ih =>
    have hn' : keysNodup res := by
      unfold keysNodup at *; simp only [List.map_cons, List.nodup_cons] at hn; exact hn.2
    have hp : ∀ q ∈ res, q.1 ≠ p.1 := by
      unfold keysNodup at hn; simp only [List.map_cons, List.nodup_cons, List.mem_map] at hn
      intro q hq heq; exact hn.1 ⟨q, hq, heq⟩
    have : mergeInto m (p :: res) = mergeInto (rput p.1 p.2 m) res := by simp [mergeInto]
    rw [this, ih _ hn', rget_rput, rget_cons]
    by_cases hk : k = p.1
    · subst hk
      rw [rget_none_of_no_key hp]; simp
    · have : ¬ p.1 = k := fun h => hk h.symm
      simp [hk, this]

theorem keysNodup_rput {k : Req} {v : Val} {m : RMap} (h : keysNodup m) : keysNodup (rput k v m) := by
  unfold keysNodup rput at *
  simp only [List.map_append, List.map_cons, List.map_nil]
  rw [List.nodup_append]
  refine ⟨?_, by simp, ?_⟩
  · have : (m.filter (fun p => p.1 != k)).map (·.1) = (m.map (·.1)).filter (· != k) := by
      induction m with
      | nil => rfl
      | cons x xs ih =>
        have ih' := ih (by simp only [List.map_cons, List.nodup_cons] at h; exact h.2)
        simp only [List.filter_cons, List.map_cons]
        by_cases hx : (x.1 != k) = true <;> simp [hx, ih']
    rw [this]; exact h.sublist List.filter_sublist
  · intro a ha b hb
    simp only [List.mem_cons, List.not_mem_nil, or_false] at hb
    subst hb
    simp only [List.mem_map, List.mem_filter] at ha
    obtain ⟨q, ⟨_, hq⟩, rfl⟩ := ha
    simpa using hq

/-! ### what a server's answer can contain -/

theorem mapKeys_spec (r : Resp) : keysNodup (mapKeys r) ∧ ∀ p ∈ mapKeys r, p.1.1 = r.name := by
  unfold mapKeys
  have gen : ∀ {β} (l : List β) (f : β → Req × Val) (m0 : RMap), (∀ b, (f b).1.1 = r.name) →
      (keysNodup m0 ∧ ∀ p ∈ m0, p.1.1 = r.name) →
      (keysNodup (l.foldl (fun acc k => rput (f k).1 (f k).2 acc) m0) ∧
        ∀ p ∈ l.foldl (fun acc k => rput (f k).1 (f k).2 acc) m0, p.1.1 = r.name) := by
    intro β l f m0 hf
    induction l generalizing m0 with
    | nil => intro h; exact h
    | cons x xs ih =>
      intro h
      simp only [List.foldl_cons]
      apply ih
      refine ⟨keysNodup_rput h.1, ?_⟩
      intro p hp
      rcases mem_rput hp with hp | rfl
      · exact h.2 p hp
      · exact hf x
  have h1 := gen r.verify (fun k => ((r.name, k.1), ⟨k.2.1, publicKeyNotExpired, r.validUntil⟩)) [] (fun _ => rfl)
    ⟨by simp [keysNodup], by simp⟩
  exact gen r.old (fun k => ((r.name, k.1), ⟨k.2.1, k.2.2, publicKeyNotValid⟩)) _ (fun _ => rfl) h1

theorem checkKeys_name {q : Server} {r : Resp} (h : checkKeys q r = true) : r.name = q := by
  unfold checkKeys at h
  simp only [Bool.and_eq_true, beq_iff_eq] at h
  exact h.1.1.1.symm

theorem fetchDirect_spec {c : Cfg} {s : Server} {res : RMap} (h : fetchDirect c s = some res) :
    keysNodup res ∧ ∀ p ∈ res, p.1.1 = s := by
  unfold fetchDirect at h
  split at h
  · cases h
  · rename_i r _
    split at h
    · rename_i hc
      cases h
      have := mapKeys_spec r
      rw [checkKeys_name hc] at this
      exact this
    · cases h

theorem fetchNotary_spec {c : Cfg} {s : Server} {res : RMap} (h : fetchNotary c s = some res) :
    keysNodup res ∧ ∀ p ∈ res, p.1.1 = s := by
  unfold fetchNotary at h
  split at h
  · cases h
  · split at h
    · cases h
    · rename_i r _
      split at h
      · rename_i hc
        cases h
        have := mapKeys_spec r
        rw [checkKeys_name hc] at this
        exact this
      · cases h

/-- a server's answer only ever contains keys of that server (CheckKeys forces `server_name`), each once -/
theorem answer_spec (c : Cfg) (s : Server) : keysNodup (answer c s) ∧ ∀ p ∈ answer c s, p.1.1 = s := by
  unfold answer
  cases hd : fetchDirect c s with
  | some r => exact fetchDirect_spec hd
  | none =>
    cases hn : fetchNotary c s with
    | some r => simpa using fetchNotary_spec hn
    | none => simp [keysNodup]

/-! ### inversion of `step` -/

inductive FStep (c : Cfg) (s : State) : Move → State → Prop where
  | main : s.mainDone = false → s.wait = 0 → FStep c s .main { s with mainDone := true }
  | recvJob (i : Nat) (srv : Server) (q : List Server) : s.workers[i]? = some .recv → s.queue = srv :: q →
      FStep c s (.worker i) { s with queue := q, workers := s.workers.set i (.fetch srv) }
  | recvExit (i : Nat) : s.workers[i]? = some .recv → s.queue = [] →
      FStep c s (.worker i) { s with workers := s.workers.set i .exited, wait := s.wait - 1, negWait := s.negWait || s.wait == 0 }
  | fetchOk (i : Nat) (srv : Server) (res : RMap) : s.workers[i]? = some (.fetch srv) → fetchDirect c srv = some res →
      FStep c s (.worker i) { s with workers := s.workers.set i (.merge srv res) }
  | fetchFail (i : Nat) (srv : Server) : s.workers[i]? = some (.fetch srv) → fetchDirect c srv = none →
      FStep c s (.worker i) { s with workers := s.workers.set i (.notary srv) }
  | notaryOk (i : Nat) (srv : Server) (res : RMap) : s.workers[i]? = some (.notary srv) → fetchNotary c srv = some res →
      FStep c s (.worker i) { s with workers := s.workers.set i (.merge srv res) }
  | notaryFail (i : Nat) (srv : Server) : s.workers[i]? = some (.notary srv) → fetchNotary c srv = none →
      FStep c s (.worker i) { s with workers := s.workers.set i .recv, finished := srv :: s.finished }
  | merge (i : Nat) (srv : Server) (res : RMap) : s.workers[i]? = some (.merge srv res) → s.mutex = none →
      FStep c s (.worker i) { s with results := mergeInto s.results res, workers := s.workers.set i .recv, finished := srv :: s.finished }

theorem fstep_rel {c : Cfg} {s s' : State} {m : Move} (h : step c s m = some s') : FStep c s m s' := by
  cases m with
  | main =>
    simp only [step] at h
    split at h
    · cases h
    · rename_i hc
      injection h with h; subst h
      simp only [Bool.or_eq_true, bne_iff_ne, ne_eq, not_or, Bool.not_eq_true, Decidable.not_not] at hc
      exact .main hc.1 hc.2
  | worker i =>
    simp only [step] at h
    split at h
    · cases h
    · rename_i pc hw
      split at h
      · split at h
        · rename_i srv q hq
          injection h with h; subst h
          exact .recvJob i srv q hw hq
        · rename_i hq
          injection h with h; subst h
          exact .recvExit i hw hq
      · rename_i srv
        split at h
        · rename_i res hr
          injection h with h; subst h
          exact .fetchOk i srv res hw hr
        · rename_i hr
          injection h with h; subst h
          exact .fetchFail i srv hw hr
      · rename_i srv
        split at h
        · rename_i res hr
          injection h with h; subst h
          exact .notaryOk i srv res hw hr
        · rename_i hr
          injection h with h; subst h
          exact .notaryFail i srv hw hr
      · rename_i srv res
        split at h
        · cases h
        · rename_i hmx
          have hmx' : s.mutex = none := by cases hm : s.mutex <;> simp_all
          injection h with h; subst h
          exact .merge i srv res hw hmx'
      · cases h

/-! ### the invariant -/

def inflight (pc : WPc) (x : Server) : Prop := pc = .fetch x ∨ pc = .notary x ∨ ∃ res, pc = .merge x res

def WOk (c : Cfg) (order : List Server) : WPc → Prop
  | .fetch srv => srv ∈ order
  | .notary srv => srv ∈ order ∧ fetchDirect c srv = none
  | .merge srv res => srv ∈ order ∧ res = answer c srv
  | _ => True

def live (ws : List WPc) : Nat := ws.countP (fun pc => pc != .exited)

/-- what the results map must hold, key by key, once the servers in `fin` are done -/
def resultsSpec (c : Cfg) (fin : List Server) (k : Req) : Option Val :=
  if c.isLocal k.1 then (if c.requests.contains k then some (localVal c) else none)
  else if k.1 ∈ fin then rget k (answer c k.1) else none

structure FInv (c : Cfg) (order : List Server) (s : State) : Prop where
  res : (∀ x ∈ order, c.isLocal x = false) → ∀ k, rget k s.results = resultsSpec c s.finished k
  mx : s.mutex = none
  wk : ∀ pc ∈ s.workers, WOk c order pc
  cover : ∀ x ∈ order, x ∈ s.queue ∨ x ∈ s.finished ∨ ∃ pc ∈ s.workers, inflight pc x
  subq : ∀ x ∈ s.queue, x ∈ order
  subf : ∀ x ∈ s.finished, x ∈ order
  cnt : s.wait = live s.workers
  neg : s.negWait = false
  ex : (∃ pc ∈ s.workers, pc = .exited) → s.queue = []
  len : s.workers.length = numWorkers order.length
  done : s.mainDone = true → s.wait = 0

theorem rget_foldl_rput (k : Req) (v : Val) (l : List Req) (m : RMap) :
    rget k (l.foldl (fun acc r => rput r v acc) m) = if k ∈ l then some v else rget k m := by
  induction l generalizing m with
  | nil => simp
  | cons x xs ih =>
    simp only [List.foldl_cons, ih, rget_rput, List.mem_cons]
    by_cases h1 : k ∈ xs <;> by_cases h2 : k = x <;> simp [h1, h2]

theorem finv_init (c : Cfg) (order : List Server) : FInv c order (init c order) := by
  refine ⟨?_, rfl, ?_, ?_, ?_, ?_, ?_, rfl, ?_, ?_, ?_⟩
  · intro _ k
    simp only [init, resultsSpec, rget_foldl_rput, rget_nil, localRequests, List.mem_filter, List.not_mem_nil, if_false]
    by_cases hl : c.isLocal k.1 = true
    · by_cases hr : k ∈ c.requests <;> simp [hl, hr]
    · simp [hl]
  · intro pc hpc
    simp only [init, List.mem_replicate] at hpc
    rw [hpc.2]; trivial
  · intro x hx; exact Or.inl hx
  · intro x hx; exact hx
  · intro x hx; simp [init] at hx
  · simp only [init, live, List.countP_replicate]; simp
  · rintro ⟨pc, hpc, rfl⟩
    simp only [init, List.mem_replicate] at hpc
    cases hpc.2
  · simp [init]
  · intro h; simp [init] at h

theorem mem_set_ne {α} {l : List α} {i : Nat} {old new pc : α} (h : l[i]? = some old) (hpc : pc ∈ l) (hne : pc ≠ old) :
    pc ∈ l.set i new := by
  obtain ⟨j, hj⟩ := List.getElem?_of_mem hpc
  have hji : j ≠ i := by
    intro e; subst e; rw [h] at hj; cases hj; exact hne rfl
  have : (l.set i new)[j]? = some pc := by rw [Dns.get_set h]; simp [hji, hj]
  exact List.mem_of_getElem? this

theorem mem_set_new {α} {l : List α} {i : Nat} {old new : α} (h : l[i]? = some old) : new ∈ l.set i new := by
  have : (l.set i new)[i]? = some new := by rw [Dns.get_set h]; simp
  exact List.mem_of_getElem? this

theorem live_set {ws : List WPc} {i : Nat} {old new : WPc} (h : ws[i]? = some old) :
    live (ws.set i new) = live ws - (if old = .exited then 0 else 1) + (if new = .exited then 0 else 1) := by
  have hi : i < ws.length := by
    rcases Nat.lt_or_ge i ws.length with h' | h'
    · exact h'
    · rw [List.getElem?_eq_none h'] at h; cases h
  have hget : ws[i] = old := by
    have := List.getElem?_eq_getElem hi
    rw [this] at h; exact Option.some.inj h
  unfold live
  rw [List.countP_set hi, hget]
  by_cases h1 : old = .exited <;> by_cases h2 : new = .exited <;> simp [h1, h2]

theorem live_pos {ws : List WPc} {i : Nat} {old : WPc} (h : ws[i]? = some old) (hne : old ≠ .exited) : 0 < live ws := by
  unfold live
  rw [List.countP_pos_iff]
  exact ⟨old, List.mem_of_getElem? h, by simpa using hne⟩

/-- generic preservation for a step that replaces worker `i`'s pc, keeps queue / finished / results -/
theorem cover_replace {s : State} {order : List Server} {i : Nat} {old new : WPc} {q fin : List Server}
    (hcov : ∀ x ∈ order, x ∈ s.queue ∨ x ∈ s.finished ∨ ∃ pc ∈ s.workers, inflight pc x)
    (hw : s.workers[i]? = some old)
    (hq : ∀ x, x ∈ s.queue → x ∈ q ∨ inflight new x)
    (hf : ∀ x, x ∈ s.finished → x ∈ fin)
    (hold : ∀ x, inflight old x → inflight new x ∨ x ∈ fin) :
    ∀ x ∈ order, x ∈ q ∨ x ∈ fin ∨ ∃ pc ∈ s.workers.set i new, inflight pc x := by
  intro x hx
  rcases hcov x hx with h | h | ⟨pc, hpc, hin⟩
  · rcases hq x h with h | h
    · exact Or.inl h
    · exact Or.inr (Or.inr ⟨new, mem_set_new hw, h⟩)
  · exact Or.inr (Or.inl (hf x h))
  · by_cases hpo : pc = old
    · subst hpo
      rcases hold x hin with h | h
      · exact Or.inr (Or.inr ⟨new, mem_set_new hw, h⟩)
      · exact Or.inr (Or.inl h)
    · exact Or.inr (Or.inr ⟨pc, mem_set_ne hw hpc hpo, hin⟩)

theorem wk_replace {c : Cfg} {order : List Server} {ws : List WPc} {i : Nat} {new : WPc}
    (hwk : ∀ pc ∈ ws, WOk c order pc) (hnew : WOk c order new) : ∀ pc ∈ ws.set i new, WOk c order pc := by
  intro pc hpc
  rcases Dns.mem_set_of hpc with h | rfl
  · exact hwk pc h
  · exact hnew

theorem ex_replace {ws : List WPc} {i : Nat} {new : WPc} {q q' : List Server}
    (hex : (∃ pc ∈ ws, pc = .exited) → q = []) (hnew : new ≠ .exited) (hq : q = [] → q' = []) :
    (∃ pc ∈ ws.set i new, pc = .exited) → q' = [] := by
  rintro ⟨pc, hpc, rfl⟩
  rcases Dns.mem_set_of hpc with h | h
  · exact hq (hex ⟨_, h, rfl⟩)
  · exact absurd h.symm hnew

theorem resultsSpec_finished_cons {c : Cfg} {fin : List Server} {srv : Server} {k : Req} (hk : k.1 ≠ srv) :
    resultsSpec c (srv :: fin) k = resultsSpec c fin k := by
  simp [resultsSpec, hk]

theorem finv_step {c : Cfg} {order : List Server}
    {s s' : State} {m : Move} (hi : FInv c order s) (h : step c s m = some s') : FInv c order s' := by
  cases fstep_rel h with
  | main hd hw =>
    exact ⟨hi.res, hi.mx, hi.wk, hi.cover, hi.subq, hi.subf, hi.cnt, hi.neg, hi.ex, hi.len, fun _ => hw⟩
  | recvJob i srv q hw hq =>
    have hsrv : srv ∈ order := hi.subq srv (by rw [hq]; simp)
    refine ⟨hi.res, hi.mx, wk_replace hi.wk hsrv, ?_, ?_, hi.subf, ?_, hi.neg, ?_, ?_, hi.done⟩
    · apply cover_replace hi.cover hw
      · intro x hx; rw [hq] at hx
        rcases List.mem_cons.1 hx with rfl | hx
        · exact Or.inr (Or.inl rfl)
        · exact Or.inl hx
      · intro x hx; exact hx
      · intro x hx; rcases hx with h | h | ⟨_, h⟩ <;> cases h
    · intro x hx; exact hi.subq x (by rw [hq]; simp [hx])
    · show s.wait = live (s.workers.set i (.fetch srv))
      rw [live_set hw, hi.cnt]
      have := live_pos hw (by simp)
      simp; omega
    · intro hex
      have : s.queue = [] := by
        apply hi.ex
        obtain ⟨pc, hpc, rfl⟩ := hex
        rcases Dns.mem_set_of hpc with h | h
        · exact ⟨_, h, rfl⟩
        · cases h
      rw [hq] at this; cases this
    · simpa using hi.len
  | recvExit i hw hq =>
    refine ⟨hi.res, hi.mx, wk_replace hi.wk trivial, ?_, hi.subq, hi.subf, ?_, ?_, fun _ => hq, ?_, ?_⟩
    · apply cover_replace hi.cover hw
      · intro x hx; exact Or.inl hx
      · intro x hx; exact hx
      · intro x hx; rcases hx with h | h | ⟨_, h⟩ <;> cases h
    · show s.wait - 1 = live (s.workers.set i .exited)
      rw [live_set hw, hi.cnt]
      simp
    · show (s.negWait || s.wait == 0) = false
      have := live_pos hw (by simp)
      rw [hi.neg, hi.cnt]
      simp; omega
    · simpa using hi.len
    · intro hd
      have := hi.done hd
      have hp := live_pos hw (by simp)
      rw [hi.cnt] at this; omega
  | fetchOk i srv res hw hr =>
    have hm := List.mem_of_getElem? hw
    have hsrv : srv ∈ order := hi.wk _ hm
    have hans : res = answer c srv := by simp [answer, hr]
    refine ⟨hi.res, hi.mx, wk_replace hi.wk ⟨hsrv, hans⟩, ?_, hi.subq, hi.subf, ?_, hi.neg, ex_replace hi.ex (by simp) id, by simpa using hi.len, hi.done⟩
    · apply cover_replace hi.cover hw
      · intro x hx; exact Or.inl hx
      · intro x hx; exact hx
      · intro x hx
        rcases hx with h | h | ⟨_, h⟩
        · cases h; exact Or.inl (Or.inr (Or.inr ⟨res, rfl⟩))
        · cases h
        · cases h
    · show s.wait = live (s.workers.set i (.merge srv res))
      rw [live_set hw, hi.cnt]
      have := live_pos hw (by simp)
      simp; omega
  | fetchFail i srv hw hr =>
    have hm := List.mem_of_getElem? hw
    have hsrv : srv ∈ order := hi.wk _ hm
    refine ⟨hi.res, hi.mx, wk_replace hi.wk ⟨hsrv, hr⟩, ?_, hi.subq, hi.subf, ?_, hi.neg, ex_replace hi.ex (by simp) id, by simpa using hi.len, hi.done⟩
    · apply cover_replace hi.cover hw
      · intro x hx; exact Or.inl hx
      · intro x hx; exact hx
      · intro x hx
        rcases hx with h | h | ⟨_, h⟩
        · cases h; exact Or.inl (Or.inr (Or.inl rfl))
        · cases h
        · cases h
    · show s.wait = live (s.workers.set i (.notary srv))
      rw [live_set hw, hi.cnt]
      have := live_pos hw (by simp)
      simp; omega
  | notaryOk i srv res hw hr =>
    have hm := List.mem_of_getElem? hw
    obtain ⟨hsrv, hd⟩ : srv ∈ order ∧ fetchDirect c srv = none := hi.wk _ hm
    have hans : res = answer c srv := by simp [answer, hd, hr]
    refine ⟨hi.res, hi.mx, wk_replace hi.wk ⟨hsrv, hans⟩, ?_, hi.subq, hi.subf, ?_, hi.neg, ex_replace hi.ex (by simp) id, by simpa using hi.len, hi.done⟩
    · apply cover_replace hi.cover hw
      · intro x hx; exact Or.inl hx
      · intro x hx; exact hx
      · intro x hx
        rcases hx with h | h | ⟨_, h⟩
        · cases h
        · cases h; exact Or.inl (Or.inr (Or.inr ⟨res, rfl⟩))
        · cases h
    · show s.wait = live (s.workers.set i (.merge srv res))
      rw [live_set hw, hi.cnt]
      have := live_pos hw (by simp)
      simp; omega
  | notaryFail i srv hw hr =>
    have hm := List.mem_of_getElem? hw
    obtain ⟨hsrv, hd⟩ : srv ∈ order ∧ fetchDirect c srv = none := hi.wk _ hm
    have hans : answer c srv = [] := by simp [answer, hd, hr]
    refine ⟨?_, hi.mx, wk_replace hi.wk trivial, ?_, hi.subq, ?_, ?_, hi.neg, ex_replace hi.ex (by simp) id, by simpa using hi.len, hi.done⟩
    · intro hloc k
      show rget k s.results = resultsSpec c (srv :: s.finished) k
      rw [hi.res hloc k]
      by_cases hk : k.1 = srv
      · have hl := hloc srv hsrv
        simp [resultsSpec, hk, hl, hans, rget_nil]
      · rw [resultsSpec_finished_cons hk]
    · apply cover_replace hi.cover hw
      · intro x hx; exact Or.inl hx
      · intro x hx; simp [hx]
      · intro x hx
        rcases hx with h | h | ⟨_, h⟩
        · cases h
        · cases h; exact Or.inr (by simp)
        · cases h
    · intro x hx
      rcases List.mem_cons.1 hx with rfl | hx
      · exact hsrv
      · exact hi.subf x hx
    · show s.wait = live (s.workers.set i .recv)
      rw [live_set hw, hi.cnt]
      have := live_pos hw (by simp)
      simp; omega
  | merge i srv res hw hmx =>
    have hm := List.mem_of_getElem? hw
    obtain ⟨hsrv, hans⟩ : srv ∈ order ∧ res = answer c srv := hi.wk _ hm
    obtain ⟨hnd, hkeys⟩ := answer_spec c srv
    refine ⟨?_, hi.mx, wk_replace hi.wk trivial, ?_, hi.subq, ?_, ?_, hi.neg, ex_replace hi.ex (by simp) id, by simpa using hi.len, hi.done⟩
    · intro hloc k
      show rget k (mergeInto s.results res) = resultsSpec c (srv :: s.finished) k
      by_cases hk : k.1 = srv
      · have hl := hloc srv hsrv
        rw [hans, rget_mergeInto k _ _ hnd, hi.res hloc k]
        simp only [resultsSpec, hk, hl, Bool.false_eq_true, if_false, List.mem_cons, true_or, if_true]
        by_cases hf : srv ∈ s.finished
        · simp [hf]
        · simp [hf]
      · rw [resultsSpec_finished_cons hk, ← hi.res hloc k]
        apply rget_mergeInto_other
        intro p hp heq
        rw [hans] at hp
        exact hk (by rw [← heq]; exact hkeys p hp)
    · apply cover_replace hi.cover hw
      · intro x hx; exact Or.inl hx
      · intro x hx; simp [hx]
      · intro x hx
        rcases hx with h | h | ⟨_, h⟩
        · cases h
        · cases h
        · cases h; exact Or.inr (by simp)
    · intro x hx
      rcases List.mem_cons.1 hx with rfl | hx
      · exact hsrv
      · exact hi.subf x hx
    · show s.wait = live (s.workers.set i .recv)
      rw [live_set hw, hi.cnt]
      have := live_pos hw (by simp)
      simp; omega

theorem finv_reachable {c : Cfg} {order : List Server} {s : State}
    (h : Reachable c order s) : FInv c order s := by
  induction h with
  | init => exact finv_init c order
  | step m _ hs ih => exact finv_step ih hs

/-! ### termination measure -/

def weight : WPc → Nat
  | .exited => 0
  | .recv => 1
  | .merge _ _ => 2
  | .notary _ => 3
  | .fetch _ => 4

def wsum : List WPc → Nat
  | [] => 0
  | pc :: ws => weight pc + wsum ws

theorem wsum_set {ws : List WPc} {i : Nat} {old new : WPc} (h : ws[i]? = some old) :
    wsum (ws.set i new) + weight old = wsum ws + weight new := by
  induction ws generalizing i with
  | nil => simp at h
  | cons x xs ih =>
    cases i with
    | zero => simp at h; subst h; simp [wsum]; omega
    | succ j =>
      simp at h
      have := ih h
      simp [wsum]; omega

def measure (s : State) : Nat := 5 * s.queue.length + wsum s.workers + (if s.mainDone then 0 else 1)

theorem measure_decreases {c : Cfg} {s s' : State} {m : Move} (h : step c s m = some s') : measure s' < measure s := by
  cases fstep_rel h with
  | main hd hw => simp [measure, hd]
  | recvJob i srv q hw hq =>
    have := wsum_set (new := .fetch srv) hw
    simp only [measure, hq, List.length_cons, weight] at *
    omega
  | recvExit i hw hq =>
    have := wsum_set (new := .exited) hw
    simp only [measure, weight] at *
    omega
  | fetchOk i srv res hw hr =>
    have := wsum_set (new := .merge srv res) hw
    simp only [measure, weight] at *
    omega
  | fetchFail i srv hw hr =>
    have := wsum_set (new := .notary srv) hw
    simp only [measure, weight] at *
    omega
  | notaryOk i srv res hw hr =>
    have := wsum_set (new := .merge srv res) hw
    simp only [measure, weight] at *
    omega
  | notaryFail i srv hw hr =>
    have := wsum_set (new := .recv) hw
    simp only [measure, weight] at *
    omega
  | merge i srv res hw hmx =>
    have := wsum_set (new := .recv) hw
    simp only [measure, weight] at *
    omega

/-! ### the sequential union as a map -/

theorem mem_byServerKeys {c : Cfg} {x : Server} :
    x ∈ byServerKeys c ↔ ∃ k, (x, k) ∈ c.requests ∧ c.isLocal x = false := by
  unfold byServerKeys
  rw [List.mem_eraseDups]
  simp only [List.mem_map, List.mem_filter]
  constructor
  · rintro ⟨⟨a, b⟩, ⟨hm, hl⟩, rfl⟩
    exact ⟨b, hm, by simpa using hl⟩
  · rintro ⟨k, hm, hl⟩
    exact ⟨(x, k), ⟨hm, by simpa using hl⟩, rfl⟩

theorem rget_foldl_merge (c : Cfg) (k : Req) (l : List Server) (m0 : RMap) :
    rget k (l.foldl (fun acc s => mergeInto acc (answer c s)) m0) =
      if k.1 ∈ l then (rget k (answer c k.1)).or (rget k m0) else rget k m0 := by
  induction l generalizing m0 with
  | nil => simp
  | cons x xs ih =>
    simp only [List.foldl_cons, ih, List.mem_cons]
    obtain ⟨hnd, hkeys⟩ := answer_spec c x
    by_cases hx : k.1 = x
    · subst hx
      rw [rget_mergeInto k _ _ hnd]
      by_cases hin : k.1 ∈ xs
      · simp only [hin, true_or, if_true]
        cases rget k (answer c k.1) <;> simp
      · simp [hin]
    · have : rget k (mergeInto m0 (answer c x)) = rget k m0 := by
        apply rget_mergeInto_other
        intro p hp heq
        exact hx (by rw [← heq]; exact hkeys p hp)
      rw [this]
      simp [hx]

theorem specMap_get (c : Cfg) (k : Req) : rget k (specMap c) = specGet c k := by
  unfold specMap specGet
  rw [rget_foldl_merge, rget_foldl_rput]
  simp only [localRequests, List.mem_filter, rget_nil]
  by_cases hl : c.isLocal k.1 = true
  · have : k.1 ∉ byServerKeys c := by
      rw [mem_byServerKeys]; rintro ⟨_, _, h⟩; rw [hl] at h; cases h
    by_cases hr : k ∈ c.requests <;> simp [hl, this, hr]
  · by_cases hb : k.1 ∈ byServerKeys c <;> simp [hl, hb]

end V.Conc.Fetch
