/- L2: the parser reads back a compact rendering `encode v` (any member order) as the value `v` with
   `-0` normalised and every string in its canonical spelling.  Core only. -/
import VProofs.JsonParseStr
import VProofs.JsonNum
namespace V.Json

mutual
/-- What the parser returns on `encode v`. -/
def ofJVal : JVal → PVal
  | .null => .null
  | .bool b => .bool b
  | .num lit => .num (encodeNum lit)
  | .str s => .str (encodeStringBody s) s
  | .arr xs => .arr (ofJVals xs)
  | .obj kvs => .obj (ofJMembers kvs)
def ofJVals : List JVal → List PVal
  | [] => []
  | x :: xs => ofJVal x :: ofJVals xs
def ofJMembers : List (Bytes × JVal) → List (Bytes × Bytes × PVal)
  | [] => []
  | (k, v) :: kvs => (encodeStringBody k, k, ofJVal v) :: ofJMembers kvs
end

theorem skipWs_cons_of_not_ws (c : UInt8) (r : Bytes) (h : isWs c = false) : skipWs (c :: r) = c :: r := by
  simp [skipWs, h]

theorem numStop_close (c : UInt8) (h : c = 0x2C ∨ c = 0x5D ∨ c = 0x7D) (r : Bytes) : headOk numStop (c :: r) = true := by
  rcases h with rfl | rfl | rfl <;> (simp only [headOk_cons]; decide)

theorem isNumLit_encodeNum {lit : Bytes} (h : isNumLit lit = true) : isNumLit (encodeNum lit) = true := by
  unfold encodeNum
  split
  · decide
  · exact h

theorem parseValue_succ (f : Nat) (s : Bytes) :
    parseValue (f + 1) s =
    match skipWs s with
    | [] => none
    | c :: rest =>
      if c == 0x7B then
        match skipWs rest with
        | [] => none
        | c2 :: rest' => if c2 == 0x7D then some (.obj [], rest') else parseMembers f (c2 :: rest') []
      else if c == 0x5B then
        match skipWs rest with
        | [] => none
        | c2 :: rest' => if c2 == 0x5D then some (.arr [], rest') else parseElems f (c2 :: rest') []
      else if c == 0x22 then
        match parseString (rest.length + 1) rest [] [] with
        | some (raw, dec, rest') => some (.str raw dec, rest')
        | none => none
      else if c == 0x74 then
        match rest with
        | r :: u :: e :: rest' => if r == 0x72 && u == 0x75 && e == 0x65 then some (.bool true, rest') else none
        | _ => none
      else if c == 0x66 then
        match rest with
        | a :: l :: s' :: e :: rest' =>
          if a == 0x61 && l == 0x6C && s' == 0x73 && e == 0x65 then some (.bool false, rest') else none
        | _ => none
      else if c == 0x6E then
        match rest with
        | u :: l :: l' :: rest' => if u == 0x75 && l == 0x6C && l' == 0x6C then some (.null, rest') else none
        | _ => none
      else if c == 0x2D || isDigit c then
        match parseNumber (c :: rest) with
        | some (lit, rest') => some (.num lit, rest')
        | none => none
      else none := by
  conv => lhs; unfold parseValue
  rfl

theorem parseElems_succ (f : Nat) (s : Bytes) (acc : List PVal) :
    parseElems (f + 1) s acc =
    match parseValue f s with
    | none => none
    | some (v, rest) =>
      match skipWs rest with
      | [] => none
      | d :: rest' =>
        if d == 0x2C then parseElems f rest' (acc ++ [v])
        else if d == 0x5D then some (.arr (acc ++ [v]), rest')
        else none := by
  conv => lhs; unfold parseElems
  rfl

theorem parseMembers_succ (f : Nat) (s : Bytes) (acc : List (Bytes × Bytes × PVal)) :
    parseMembers (f + 1) s acc =
    match skipWs s with
    | [] => none
    | q :: rest =>
      if q == 0x22 then
        match parseString (rest.length + 1) rest [] [] with
        | none => none
        | some (raw, dec, rest1) =>
          match skipWs rest1 with
          | [] => none
          | col :: rest2 =>
            if col == 0x3A then
              match parseValue f rest2 with
              | none => none
              | some (v, rest3) =>
                match skipWs rest3 with
                | [] => none
                | d :: rest4 =>
                  if d == 0x2C then parseMembers f rest4 (acc ++ [(raw, dec, v)])
                  else if d == 0x7D then some (.obj (acc ++ [(raw, dec, v)]), rest4)
                  else none
            else none
      else none := by
  conv => lhs; unfold parseMembers
  rfl

/-- a number at the head of the input -/
theorem parseValue_num (f : Nat) (lit rest : Bytes) (h : isNumLit lit = true) (hs : headOk numStop rest = true) :
    parseValue (f + 1) (lit ++ rest) = some (.num lit, rest) := by
  obtain ⟨c, l, rfl, hc⟩ := isNumLit_head h
  have hnum := parseNumber_append rest h hs
  have facts : isWs c = false ∧ (c == 0x7B) = false ∧ (c == 0x5B) = false ∧ (c == 0x22) = false ∧
      (c == 0x74) = false ∧ (c == 0x66) = false ∧ (c == 0x6E) = false := by
    simp only [Bool.or_eq_true, beq_iff_eq] at hc
    rcases hc with rfl | hc
    · decide
    · simp only [isDigit, Bool.and_eq_true, decide_eq_true_eq] at hc
      simp only [isWs, Bool.or_eq_false_iff, beq_eq_false_iff_ne, ne_eq]
      refine ⟨⟨⟨⟨?_, ?_⟩, ?_⟩, ?_⟩, ?_, ?_, ?_, ?_, ?_, ?_⟩ <;> grind
  obtain ⟨w, f1, f2, f3, f4, f5, f6⟩ := facts
  rw [parseValue_succ, List.cons_append, skipWs_cons_of_not_ws _ _ w]
  simp only [f1, f2, f3, f4, f5, f6, Bool.false_eq_true, ↓reduceIte, hc]
  rw [List.cons_append] at hnum
  rw [hnum]

/-- The first byte of a rendering is neither whitespace nor a closing bracket. -/
theorem encode_head : ∀ v : JVal, v.numsOk = true →
    ∃ c l, encode v = c :: l ∧ isWs c = false ∧ (c == 0x5D) = false ∧ (c == 0x7D) = false
  | .null, _ => ⟨_, _, rfl, by decide, by decide, by decide⟩
  | .bool true, _ => ⟨_, _, rfl, by decide, by decide, by decide⟩
  | .bool false, _ => ⟨_, _, rfl, by decide, by decide, by decide⟩
  | .str s, _ => ⟨_, _, rfl, by decide, by decide, by decide⟩
  | .arr xs, _ => ⟨_, _, rfl, by decide, by decide, by decide⟩
  | .obj kvs, _ => ⟨_, _, rfl, by decide, by decide, by decide⟩
  | .num lit, h => by
    simp only [JVal.numsOk] at h
    obtain ⟨c, l, hl, hc⟩ := isNumLit_head (isNumLit_encodeNum h)
    refine ⟨c, l, by simp [encode, hl], ?_⟩
    simp only [Bool.or_eq_true, beq_iff_eq] at hc
    rcases hc with rfl | hc
    · decide
    · simp only [isDigit, Bool.and_eq_true, decide_eq_true_eq] at hc
      simp only [isWs, Bool.or_eq_false_iff, beq_eq_false_iff_ne, ne_eq]
      refine ⟨⟨⟨⟨?_, ?_⟩, ?_⟩, ?_⟩, ?_, ?_⟩ <;> grind

/-- one element of an array, given that its value reads back -/
theorem parseElems_elem (f : Nat) (v : JVal) (tail : Bytes) (accl : List PVal)
    (hv : parseValue f (encode v ++ tail) = some (ofJVal v, tail)) :
    parseElems (f + 1) (encode v ++ tail) accl =
      match skipWs tail with
      | [] => none
      | d :: rest' =>
        if d == 0x2C then parseElems f rest' (accl ++ [ofJVal v])
        else if d == 0x5D then some (.arr (accl ++ [ofJVal v]), rest')
        else none := by
  rw [parseElems_succ, hv]

/-- one member of an object, given that its value reads back -/
theorem parseMembers_member (f : Nat) (k : Bytes) (v : JVal) (tail : Bytes) (accl : List (Bytes × Bytes × PVal))
    (hv : parseValue f (encode v ++ tail) = some (ofJVal v, tail)) :
    parseMembers (f + 1) ((0x22 :: encodeStringBody k ++ [0x22, 0x3A] ++ encode v) ++ tail) accl =
      match skipWs tail with
      | [] => none
      | d :: rest4 =>
        if d == 0x2C then parseMembers f rest4 (accl ++ [(encodeStringBody k, k, ofJVal v)])
        else if d == 0x7D then some (.obj (accl ++ [(encodeStringBody k, k, ofJVal v)]), rest4)
        else none := by
  have shape : (0x22 :: encodeStringBody k ++ [0x22, 0x3A] ++ encode v) ++ tail =
      0x22 :: (encodeStringBody k ++ 0x22 :: (0x3A :: (encode v ++ tail))) := by simp
  rw [shape, parseMembers_succ, skipWs_cons_of_not_ws _ _ (by decide)]
  simp only [beq_self_eq_true, ↓reduceIte]
  rw [parseString_esb k _ [] [] _ (by simp only [List.length_append, List.length_cons]; omega)]
  simp only [List.nil_append]
  rw [skipWs_cons_of_not_ws _ _ (by decide)]
  simp only [beq_self_eq_true, ↓reduceIte, hv]

theorem joinWith_length_cons (sep : UInt8) (x : Bytes) (l : List Bytes) :
    x.length ≤ (joinWith sep (x :: l)).length ∧ (l ≠ [] → x.length + 1 + (joinWith sep l).length = (joinWith sep (x :: l)).length) := by
  cases l with
  | nil => simp [joinWith]
  | cons y ys => simp [joinWith]; omega

mutual
/-- **L2, values.** -/
theorem parseValue_encode : (v : JVal) → v.numsOk = true → ∀ (f : Nat) (rest : Bytes),
    (encode v).length < f → headOk numStop rest = true →
    parseValue f (encode v ++ rest) = some (ofJVal v, rest)
  | .null, _, f, rest, hf, _ => by
    cases f with
    | zero => omega
    | succ f => rw [parseValue_succ]; simp [encode, skipWs, isWs, ofJVal]
  | .bool true, _, f, rest, hf, _ => by
    cases f with
    | zero => omega
    | succ f => rw [parseValue_succ]; simp [encode, skipWs, isWs, ofJVal]
  | .bool false, _, f, rest, hf, _ => by
    cases f with
    | zero => omega
    | succ f => rw [parseValue_succ]; simp [encode, skipWs, isWs, ofJVal]
  | .num lit, hv, f, rest, hf, hs => by
    cases f with
    | zero => omega
    | succ f =>
      simp only [JVal.numsOk] at hv
      simp only [encode, ofJVal]
      exact parseValue_num f _ rest (isNumLit_encodeNum hv) hs
  | .str s, _, f, rest, hf, _ => by
    cases f with
    | zero => omega
    | succ f =>
      have shape : encode (.str s) ++ rest = 0x22 :: (encodeStringBody s ++ 0x22 :: rest) := by simp [encode]
      rw [shape, parseValue_succ, skipWs_cons_of_not_ws _ _ (by decide)]
      have h1 : ((0x22 : UInt8) == 0x7B) = false := by decide
      have h2 : ((0x22 : UInt8) == 0x5B) = false := by decide
      simp only [h1, h2, Bool.false_eq_true, ↓reduceIte, beq_self_eq_true]
      rw [parseString_esb s _ [] [] _ (by simp only [List.length_append, List.length_cons]; omega)]
      simp [ofJVal]
  | .arr [], _, f, rest, hf, _ => by
    cases f with
    | zero => omega
    | succ f => rw [parseValue_succ]; simp [encode, encodeList, joinWith, skipWs, isWs, ofJVal, ofJVals]
  | .arr (x :: xs), hv, f, rest, hf, hs => by
    cases f with
    | zero => omega
    | succ f =>
      simp only [JVal.numsOk] at hv
      have hx : x.numsOk = true := by simp only [numsOkList, Bool.and_eq_true] at hv; exact hv.1
      obtain ⟨c, l, hcl, w, nb, _⟩ := encode_head x hx
      have shape : encode (.arr (x :: xs)) ++ rest =
          0x5B :: (joinWith 0x2C (encodeList (x :: xs)) ++ 0x5D :: rest) := by simp [encode]
      have hlen : (joinWith 0x2C (encodeList (x :: xs))).length + 1 < f := by
        simp only [encode, List.length_cons, List.length_append, List.length_nil] at hf; omega
      have ih := parseElems_encode (x :: xs) (by simp) hv f rest [] hlen
      -- the first byte after `[` is the first byte of the first element
      obtain ⟨l', hj⟩ : ∃ l', joinWith 0x2C (encodeList (x :: xs)) = c :: l' := by
        cases xs with
        | nil => exact ⟨l, by simp [encodeList, joinWith, hcl]⟩
        | cons y ys => exact ⟨l ++ 0x2C :: joinWith 0x2C (encodeList (y :: ys)), by simp [encodeList, joinWith, hcl]⟩
      rw [hj] at ih
      rw [shape, parseValue_succ, skipWs_cons_of_not_ws _ _ (by decide), hj]
      have h1 : ((0x5B : UInt8) == 0x7B) = false := by decide
      simp only [h1, Bool.false_eq_true, ↓reduceIte, beq_self_eq_true, List.cons_append]
      rw [skipWs_cons_of_not_ws _ _ w]
      simp only [nb, Bool.false_eq_true, ↓reduceIte]
      simpa [ofJVal] using ih
  | .obj [], _, f, rest, hf, _ => by
    cases f with
    | zero => omega
    | succ f => rw [parseValue_succ]; simp [encode, encodeMembers, joinWith, skipWs, isWs, ofJVal, ofJMembers]
  | .obj ((k, x) :: kvs), hv, f, rest, hf, hs => by
    cases f with
    | zero => omega
    | succ f =>
      simp only [JVal.numsOk] at hv
      have shape : encode (.obj ((k, x) :: kvs)) ++ rest =
          0x7B :: (joinWith 0x2C (encodeMembers ((k, x) :: kvs)) ++ 0x7D :: rest) := by simp [encode]
      have hlen : (joinWith 0x2C (encodeMembers ((k, x) :: kvs))).length + 1 < f := by
        simp only [encode, List.length_cons, List.length_append, List.length_nil] at hf; omega
      have ih := parseMembers_encode ((k, x) :: kvs) (by simp) hv f rest [] hlen
      obtain ⟨l', hj⟩ : ∃ l', joinWith 0x2C (encodeMembers ((k, x) :: kvs)) = 0x22 :: l' := by
        cases kvs with
        | nil => exact ⟨_, by simp [encodeMembers, joinWith]; rfl⟩
        | cons y ys => obtain ⟨k2, y2⟩ := y; exact ⟨_, by simp [encodeMembers, joinWith]; rfl⟩
      rw [hj] at ih
      rw [shape, parseValue_succ, skipWs_cons_of_not_ws _ _ (by decide), hj]
      simp only [beq_self_eq_true, ↓reduceIte, List.cons_append]
      rw [skipWs_cons_of_not_ws _ _ (by decide)]
      have h1 : ((0x22 : UInt8) == 0x7D) = false := by decide
      simp only [h1, Bool.false_eq_true, ↓reduceIte]
      simpa [ofJVal] using ih
/-- **L2, array elements** (after `[`). -/
theorem parseElems_encode : (l : List JVal) → l ≠ [] → numsOkList l = true →
    ∀ (f : Nat) (rest : Bytes) (accl : List PVal), (joinWith 0x2C (encodeList l)).length + 1 < f →
    parseElems f (joinWith 0x2C (encodeList l) ++ 0x5D :: rest) accl = some (.arr (accl ++ ofJVals l), rest)
  | [], hne, _, _, _, _, _ => absurd rfl hne
  | [x], _, hv, f, rest, accl, hf => by
    cases f with
    | zero => omega
    | succ f =>
      simp only [numsOkList, Bool.and_true] at hv
      simp only [encodeList, joinWith] at hf ⊢
      have hx := parseValue_encode x hv f (0x5D :: rest) (by omega) (numStop_close _ (Or.inr (Or.inl rfl)) _)
      rw [parseElems_elem f x _ accl hx, skipWs_cons_of_not_ws _ _ (by decide)]
      simp [ofJVals]
  | x :: y :: ys, _, hv, f, rest, accl, hf => by
    cases f with
    | zero => omega
    | succ f =>
      simp only [numsOkList, Bool.and_eq_true] at hv
      have hl := (joinWith_length_cons 0x2C (encode x) (encodeList (y :: ys))).2 (by simp [encodeList])
      have shape : joinWith 0x2C (encodeList (x :: y :: ys)) ++ 0x5D :: rest =
          encode x ++ 0x2C :: (joinWith 0x2C (encodeList (y :: ys)) ++ 0x5D :: rest) := by
        simp [encodeList, joinWith]
      simp only [encodeList] at hf hl
      have hx := parseValue_encode x hv.1 f (0x2C :: (joinWith 0x2C (encodeList (y :: ys)) ++ 0x5D :: rest))
        (by omega) (numStop_close _ (Or.inl rfl) _)
      rw [shape, parseElems_elem f x _ accl hx, skipWs_cons_of_not_ws _ _ (by decide)]
      simp only [beq_self_eq_true, ↓reduceIte]
      rw [parseElems_encode (y :: ys) (by simp) (by simp [numsOkList, hv.2]) f rest _ (by simp only [encodeList]; omega)]
      simp [ofJVals]
/-- **L2, object members** (after `{`). -/
theorem parseMembers_encode : (l : List (Bytes × JVal)) → l ≠ [] → numsOkMembers l = true →
    ∀ (f : Nat) (rest : Bytes) (accl : List (Bytes × Bytes × PVal)), (joinWith 0x2C (encodeMembers l)).length + 1 < f →
    parseMembers f (joinWith 0x2C (encodeMembers l) ++ 0x7D :: rest) accl = some (.obj (accl ++ ofJMembers l), rest)
  | [], hne, _, _, _, _, _ => absurd rfl hne
  | [(k, x)], _, hv, f, rest, accl, hf => by
    cases f with
    | zero => omega
    | succ f =>
      simp only [numsOkMembers, Bool.and_true] at hv
      simp only [encodeMembers, joinWith] at hf ⊢
      have hx := parseValue_encode x hv f (0x7D :: rest)
        (by simp only [List.length_cons, List.length_append] at hf; omega) (numStop_close _ (Or.inr (Or.inr rfl)) _)
      rw [parseMembers_member f k x _ accl hx, skipWs_cons_of_not_ws _ _ (by decide)]
      simp [ofJMembers]
  | (k, x) :: (k2, y2) :: ys, _, hv, f, rest, accl, hf => by
    cases f with
    | zero => omega
    | succ f =>
      have hv2 : numsOkMembers ((k2, y2) :: ys) = true := by
        simp only [numsOkMembers, Bool.and_eq_true] at hv ⊢; exact hv.2
      simp only [numsOkMembers, Bool.and_eq_true] at hv
      have hl := (joinWith_length_cons 0x2C (0x22 :: encodeStringBody k ++ [0x22, 0x3A] ++ encode x)
        (encodeMembers ((k2, y2) :: ys))).2 (by simp [encodeMembers])
      have shape : joinWith 0x2C (encodeMembers ((k, x) :: (k2, y2) :: ys)) ++ 0x7D :: rest =
          (0x22 :: encodeStringBody k ++ [0x22, 0x3A] ++ encode x) ++
            0x2C :: (joinWith 0x2C (encodeMembers ((k2, y2) :: ys)) ++ 0x7D :: rest) := by
        simp [encodeMembers, joinWith]
      have hf' : (joinWith 0x2C ((0x22 :: encodeStringBody k ++ [0x22, 0x3A] ++ encode x) ::
          encodeMembers ((k2, y2) :: ys))).length + 1 < f + 1 := hf
      have hx := parseValue_encode x hv.1 f (0x2C :: (joinWith 0x2C (encodeMembers ((k2, y2) :: ys)) ++ 0x7D :: rest))
        (by simp only [List.length_cons, List.length_append] at hl; omega) (numStop_close _ (Or.inl rfl) _)
      rw [shape, parseMembers_member f k x _ accl hx, skipWs_cons_of_not_ws _ _ (by decide)]
      simp only [beq_self_eq_true, ↓reduceIte]
      rw [parseMembers_encode ((k2, y2) :: ys) (by simp) hv2 f rest _ (by omega)]
      simp [ofJMembers]
end

/-- **L2.** The parser reads a compact rendering back. -/
theorem parse_encode (v : JVal) (hv : v.numsOk = true) : parse (encode v) = some (ofJVal v) := by
  unfold parse
  have := parseValue_encode v hv ((encode v).length + 1) [] (Nat.lt_succ_self _) rfl
  rw [List.append_nil] at this
  rw [this]
  rfl

end V.Json
