/-
  C10, version 1 (R1, R2): the model's `resolveV1` computes what `V1Resolves` defines.  Core only.
-/
import VModel.StateResSpec
import VProofs.StateResSort
import VProofs.StateResSpecSplit
namespace V.StateResSpec
open V Json List
open V.StateRes

/-! ## 1. the candidate order -/

theorem sortV1_perm (sha : ID → Bytes) (block : List Event) : (sortV1 sha block).Perm block := by
  unfold sortV1
  have hp := (sortBy_perm (fun (a b : Event × V1Key) => v1Lt a.2 b.2)
    (block.map (fun e => (e, ({ depth := e.depth, sha1 := sha e.eventID } : V1Key))))).map (·.1)
  rw [List.map_map] at hp
  have hid : ((fun x : Event × V1Key => x.1) ∘ fun e => (e, ({ depth := e.depth, sha1 := sha e.eventID } : V1Key))) = id := rfl
  rw [hid, List.map_id] at hp
  exact hp

theorem sortV1_isV1Order (sha : ID → Bytes) (block : List Event) : IsV1Order sha block (sortV1 sha block) := by
  refine ⟨sortV1_perm sha block, ?_⟩
  unfold sortV1
  have hs := sortBy_sorted (fun (x : Event × V1Key) => x.2) v1Lt_strictTotal
    (block.map (fun e => (e, ({ depth := e.depth, sha1 := sha e.eventID } : V1Key))))
  unfold IsSortedBy
  rw [List.pairwise_map]
  refine List.Pairwise.imp_of_mem ?_ hs
  intro a b ha hb hab
  have ha' := (mem_sortBy _).mp ha
  have hb' := (mem_sortBy _).mp hb
  rw [List.mem_map] at ha' hb'
  obtain ⟨x, _, rfl⟩ := ha'
  obtain ⟨y, _, rfl⟩ := hb'
  exact hab

theorem IsV1Order.unique {sha : ID → Bytes} {block o₁ o₂ : List Event}
    (hk : ∀ a ∈ block, ∀ b ∈ block, v1Key sha a = v1Key sha b → a = b)
    (h1 : IsV1Order sha block o₁) (h2 : IsV1Order sha block o₂) : o₁ = o₂ := by
  refine sorted_unique (v1Key sha) v1Lt_strictTotal (h1.1.trans h2.1.symm) ?_ h1.2 h2.2
  intro a ha b hb
  exact hk a (h1.1.mem_iff.mp ha) b (h1.1.mem_iff.mp hb)

theorem sortV1_ne_nil (sha : ID → Bytes) {block : List Event} (hne : block ≠ []) : sortV1 sha block ≠ [] := by
  intro h
  have := (sortV1_perm sha block).length_eq
  rw [h] at this
  cases block with
  | nil => exact hne rfl
  | cons a as => simp at this

theorem sortV1_nil (sha : ID → Bytes) : sortV1 sha [] = [] := rfl

/-! ## 2. auth blocks -/

theorem authBlock_go_spec (valid : Bool) : ∀ (rest : List Event) (s : V1State) (w : Event),
    AuthBlockRun valid s w rest (resolveAuthBlock.go valid s w rest).1 (resolveAuthBlock.go valid s w rest).2
  | [], s, w => by unfold resolveAuthBlock.go; exact AuthBlockRun.done
  | e :: more, s, w => by
    unfold resolveAuthBlock.go
    cases h : v1Allowed s valid e with
    | true =>
      simp only [if_true]
      exact AuthBlockRun.next h (authBlock_go_spec valid more (s.addAuthEvent e) e)
    | false =>
      simp only [Bool.false_eq_true, if_false]
      exact AuthBlockRun.stop h

theorem AuthBlockRun.functional {valid : Bool} {s : V1State} {w : Event} {l : List Event} {w₁ w₂ : Event} {s₁ s₂ : V1State}
    (h1 : AuthBlockRun valid s w l w₁ s₁) (h2 : AuthBlockRun valid s w l w₂ s₂) : w₁ = w₂ ∧ s₁ = s₂ := by
  induction h1 with
  | done => cases h2; exact ⟨rfl, rfl⟩
  | stop hf =>
    cases h2 with
    | stop _ => exact ⟨rfl, rfl⟩
    | next ht _ => rw [hf] at ht; cases ht
  | next ht _ ih =>
    cases h2 with
    | stop hf => rw [hf] at ht; cases ht
    | next _ h2' => exact ih h2'

theorem resolveAuthBlock_nil (sha : ID → Bytes) (valid : Bool) (s : V1State) :
    resolveAuthBlock sha valid s [] = (none, s) := rfl

theorem resolveAuthBlock_spec (sha : ID → Bytes) (valid : Bool) (s : V1State) (block : List Event) (hne : block ≠ []) :
    ∃ c0 rest w s1, sortV1 sha block = c0 :: rest ∧ AuthBlockRun valid (s.addAuthEvent c0) c0 rest w s1 ∧
      resolveAuthBlock sha valid s block = (some w, afterBlock s s1 c0 w) := by
  unfold resolveAuthBlock
  cases hs : sortV1 sha block with
  | nil => exact absurd hs (sortV1_ne_nil sha hne)
  | cons c0 rest =>
    exact ⟨c0, rest, _, _, rfl, authBlock_go_spec valid rest (s.addAuthEvent c0) c0, rfl⟩

/-! ## 3. a phase of auth blocks -/

/-- the fold step of `resolveAndAddAuthBlocks` -/
def phaseStep (sha : ID → Bytes) (valid : Bool) (acc : V1State × List Event) (block : List Event) : V1State × List Event :=
  if block.isEmpty then acc else
  match resolveAuthBlock sha valid acc.1 block with
  | (some e, st) => (st, acc.2 ++ [e])
  | (none, st) => (st, acc.2)

theorem resolveAndAddAuthBlocks_eq (sha : ID → Bytes) (valid : Bool) (s : V1State) (blocks : List (List Event)) :
    resolveAndAddAuthBlocks sha valid s blocks =
      (registerAll (blocks.foldl (phaseStep sha valid) (s, [])).1 (blocks.foldl (phaseStep sha valid) (s, [])).2,
       (blocks.foldl (phaseStep sha valid) (s, [])).2) := rfl

theorem phase_foldl_spec (sha : ID → Bytes) (valid : Bool) : ∀ (blocks : List (List Event)) (s : V1State) (acc : List Event),
    ∃ s' ws, PhaseRun sha valid s blocks s' ws ∧ blocks.foldl (phaseStep sha valid) (s, acc) = (s', acc ++ ws)
  | [], s, acc => ⟨s, [], PhaseRun.nil, by simp⟩
  | block :: blocks, s, acc => by
    simp only [List.foldl_cons]
    cases block with
    | nil =>
      obtain ⟨s', ws, hr, he⟩ := phase_foldl_spec sha valid blocks s acc
      refine ⟨s', ws, PhaseRun.skip hr, ?_⟩
      have : phaseStep sha valid (s, acc) [] = (s, acc) := rfl
      rw [this, he]
    | cons b bs =>
      obtain ⟨c0, rest, w, s1, hsort, hrun, hres⟩ := resolveAuthBlock_spec sha valid s (b :: bs) (by simp)
      have hstep : phaseStep sha valid (s, acc) (b :: bs) = (afterBlock s s1 c0 w, acc ++ [w]) := by
        unfold phaseStep
        simp only [List.isEmpty_cons, Bool.false_eq_true, if_false, hres]
      obtain ⟨s', ws, hr, he⟩ := phase_foldl_spec sha valid blocks (afterBlock s s1 c0 w) (acc ++ [w])
      refine ⟨s', w :: ws, PhaseRun.block (hsort ▸ sortV1_isV1Order sha (b :: bs)) hrun hr, ?_⟩
      rw [hstep, he]; simp

theorem resolveAndAddAuthBlocks_spec (sha : ID → Bytes) (valid : Bool) (s : V1State) (blocks : List (List Event)) :
    ∃ s' ws, PhaseRun sha valid s blocks s' ws ∧ resolveAndAddAuthBlocks sha valid s blocks = (registerAll s' ws, ws) := by
  obtain ⟨s', ws, hr, he⟩ := phase_foldl_spec sha valid blocks s []
  refine ⟨s', ws, hr, ?_⟩
  rw [resolveAndAddAuthBlocks_eq, he]; simp

/-! ## 4. normal blocks -/

theorem find?_reverse_some_iff {α : Type} {p : α → Bool} {l : List α} {w : α} :
    l.reverse.find? p = some w ↔ ∃ pre post, l = pre ++ w :: post ∧ p w = true ∧ ∀ e ∈ post, p e = false := by
  rw [List.find?_eq_some_iff_append]
  constructor
  · rintro ⟨hw, as, bs, hl, has⟩
    refine ⟨bs.reverse, as.reverse, ?_, hw, ?_⟩
    · have := congrArg List.reverse hl
      simpa using this
    · intro e he
      have := has e (List.mem_reverse.mp he)
      simpa using this
  · rintro ⟨pre, post, hl, hw, hpost⟩
    refine ⟨hw, post.reverse, pre.reverse, ?_, ?_⟩
    · rw [hl]; simp
    · intro e he
      have := hpost e (List.mem_reverse.mp he)
      simp [this]

theorem find?_reverse_none_iff {α : Type} {p : α → Bool} {l : List α} :
    l.reverse.find? p = none ↔ ∀ e ∈ l, p e = false := by
  rw [List.find?_eq_none]
  constructor
  · intro h e he
    have := h e (List.mem_reverse.mpr he)
    simpa using this
  · intro h e he
    have := h e (List.mem_reverse.mp he)
    simp [this]

theorem resolveNormalBlock_nil (sha : ID → Bytes) (valid : Bool) (s : V1State) : resolveNormalBlock sha valid s [] = none := rfl

theorem resolveNormalBlock_spec (sha : ID → Bytes) (valid : Bool) (s : V1State) (block : List Event) (hne : block ≠ []) :
    ∃ w, resolveNormalBlock sha valid s block = some w ∧ IsNormalWinner valid s (sortV1 sha block) w := by
  unfold resolveNormalBlock IsNormalWinner
  cases hs : sortV1 sha block with
  | nil => exact absurd hs (sortV1_ne_nil sha hne)
  | cons c0 rest =>
    simp only
    cases hf : rest.reverse.find? (fun e => v1Allowed s valid e) with
    | some w =>
      refine ⟨w, rfl, c0, rest, rfl, Or.inl ?_⟩
      exact find?_reverse_some_iff.mp hf
    | none =>
      refine ⟨c0, rfl, c0, rest, rfl, Or.inr ⟨?_, rfl⟩⟩
      exact find?_reverse_none_iff.mp hf

/-! ## 5. the blocks -/

theorem groupStep_keys_none {acc : List Group} {e : Event} (h : e.stateKey = none) : groupStep acc e = acc := by
  unfold groupStep; rw [h]

theorem groupKeys_foldl : ∀ (es : List Event) (acc : List Group),
    (es.foldl groupStep acc).map (·.1) =
      acc.map (·.1) ++ ((es.filterMap keyOf).filter (fun k => !(acc.map (·.1)).contains k)).eraseDups
  | [], acc => by simp
  | e :: es, acc => by
    simp only [List.foldl_cons]
    rw [groupKeys_foldl es (groupStep acc e)]
    cases hk : e.stateKey with
    | none =>
      rw [groupStep_keys_none hk, List.filterMap_cons, keyOf_none hk]
    | some k =>
      rw [List.filterMap_cons, keyOf_some hk]
      simp only
      unfold groupStep
      rw [hk]
      simp only
      split
      · rename_i hfound
        have hkeys : (acc.map (fun g => if g.1 == (e.type, k) then (g.1, g.2 ++ [e]) else g)).map (·.1) = acc.map (·.1) := by
          rw [List.map_map]
          apply List.map_congr_left
          intro g _
          simp only [Function.comp]
          split <;> rfl
        rw [hkeys]
        have hin : (acc.map (·.1)).contains (e.type, k) = true := by
          rw [List.find?_isSome] at hfound
          obtain ⟨g, hg, hgk⟩ := hfound
          rw [List.contains_iff_mem]
          have : g.1 = (e.type, k) := by simpa using hgk
          rw [← this]; exact List.mem_map_of_mem hg
        rw [List.filter_cons, hin]
        simp
      · rename_i hnot
        have hnin : (acc.map (·.1)).contains (e.type, k) = false := by
          cases hc : (acc.map (·.1)).contains (e.type, k) with
          | false => rfl
          | true =>
            exfalso; apply hnot
            rw [List.contains_iff_mem] at hc
            obtain ⟨g, hg, hgk⟩ := List.mem_map.mp hc
            rw [List.find?_isSome]
            exact ⟨g, hg, by simp [hgk]⟩
        rw [List.filter_cons]
        simp only [hnin, Bool.not_false, if_true, List.eraseDups_cons, List.map_append, List.map_cons, List.map_nil,
          List.append_assoc, List.singleton_append, List.filter_filter]
        congr 3
        apply List.filter_congr
        intro x _
        rw [Bool.eq_iff_iff]
        simp [or_comm]


theorem groupKeys_eq (evs : List Event) : (groupByKey evs).map (·.1) = conflictedKeys evs := by
  rw [groupByKey_eq, groupKeys_foldl]
  unfold conflictedKeys
  simp only [List.map_nil, List.contains_nil, Bool.not_false, List.nil_append]
  rw [List.filter_eq_self.mpr (fun _ _ => rfl)]

theorem conflictedKeys_nodup (evs : List Event) : (conflictedKeys evs).Nodup := by
  rw [← groupKeys_eq]; exact (ginv_groupByKey evs).keys

theorem groups_eq (evs : List Event) : groupByKey evs = (conflictedKeys evs).map (fun k => (k, candidates evs k)) := by
  rw [← groupKeys_eq, List.map_map]
  have hI := ginv_groupByKey evs
  have : ∀ g ∈ groupByKey evs, ((fun k => (k, candidates evs k)) ∘ (fun g : Group => g.1)) g = g := by
    intro g hg
    have := (hI.grp g hg).1
    simp only [Function.comp]
    show (g.1, withKey evs g.1) = g
    rw [← this]
  conv => lhs; rw [← List.map_id (groupByKey evs)]
  apply List.map_congr_left
  intro g hg
  exact (this g hg).symm

theorem candidates_ne_nil {evs : List Event} {k : Key} (hk : k ∈ conflictedKeys evs) : candidates evs k ≠ [] := by
  rw [← groupKeys_eq] at hk
  obtain ⟨g, hg, rfl⟩ := List.mem_map.mp hk
  have := (ginv_groupByKey evs).grp g hg
  show withKey evs g.1 ≠ []
  rw [← this.1]; exact this.2

/-- a filter of the groups on the key only, projected to the candidate lists -/
theorem groups_filter (evs : List Event) (q : Group → Bool) (p : Key → Bool) (h : ∀ k l, q (k, l) = p k) :
    ((groupByKey evs).filter q).map (·.2) = ((conflictedKeys evs).filter p).map (candidates evs) := by
  rw [groups_eq, List.filter_map, List.map_map]
  have : (q ∘ fun k => (k, candidates evs k)) = p := by funext k; exact h _ _
  rw [this]
  rfl


/-- the model's `special` filter on a key -/
def specialKey (k : Key) : Bool :=
  k == (b!"m.room.create", []) || k == (b!"m.room.power_levels", []) || k == (b!"m.room.join_rules", [])

theorem beq_false_of_ne {k k' : Key} (h : k ≠ k') : (k == k') = false := by simpa using h

theorem v1Phase_0 (k : Key) : (v1Phase k == 0) = (k == (b!"m.room.create", [])) := by
  by_cases h1 : k = (b!"m.room.create", [])
  · subst h1; decide
  have b1 := beq_false_of_ne h1
  unfold v1Phase
  rw [b1]
  simp only [Bool.false_eq_true, if_false]
  repeat' split
  all_goals rfl

theorem v1Phase_1 (k : Key) : (v1Phase k == 1) = (k == (b!"m.room.power_levels", [])) := by
  by_cases h1 : k = (b!"m.room.create", [])
  · subst h1; decide
  by_cases h2 : k = (b!"m.room.power_levels", [])
  · subst h2; decide
  have b1 := beq_false_of_ne h1
  have b2 := beq_false_of_ne h2
  unfold v1Phase
  rw [b1, b2]
  simp only [Bool.false_eq_true, if_false]
  repeat' split
  all_goals rfl

theorem v1Phase_2 (k : Key) : (v1Phase k == 2) = (k == (b!"m.room.join_rules", [])) := by
  by_cases h1 : k = (b!"m.room.create", [])
  · subst h1; decide
  by_cases h2 : k = (b!"m.room.power_levels", [])
  · subst h2; decide
  by_cases h3 : k = (b!"m.room.join_rules", [])
  · subst h3; decide
  have b1 := beq_false_of_ne h1
  have b2 := beq_false_of_ne h2
  have b3 := beq_false_of_ne h3
  unfold v1Phase
  rw [b1, b2, b3]
  simp only [Bool.false_eq_true, if_false]
  repeat' split
  all_goals rfl

theorem tpi_ne_member {t : Bytes} (h1 : (t == b!"m.room.third_party_invite") = true) : (t == b!"m.room.member") = false := by
  have : t = b!"m.room.third_party_invite" := by simpa using h1
  subst this; decide

theorem v1Phase_345 (k : Key) :
    (v1Phase k == 3) = (!specialKey k && k.1 == b!"m.room.third_party_invite") ∧
    (v1Phase k == 4) = (!specialKey k && k.1 == b!"m.room.member") ∧
    (v1Phase k == 5) = (!specialKey k && !(k.1 == b!"m.room.third_party_invite") && !(k.1 == b!"m.room.member")) := by
  by_cases h1 : k = (b!"m.room.create", [])
  · subst h1; decide
  by_cases h2 : k = (b!"m.room.power_levels", [])
  · subst h2; decide
  by_cases h3 : k = (b!"m.room.join_rules", [])
  · subst h3; decide
  have b1 := beq_false_of_ne h1
  have b2 := beq_false_of_ne h2
  have b3 := beq_false_of_ne h3
  unfold v1Phase specialKey
  rw [b1, b2, b3]
  simp only [Bool.false_eq_true, if_false, Bool.or_false, Bool.not_false, Bool.true_and]
  cases h4 : k.1 == b!"m.room.third_party_invite"
  · cases h5 : k.1 == b!"m.room.member" <;> simp
  · rw [tpi_ne_member h4]; simp


theorem filter_beq_of_nodup {α : Type} [BEq α] [LawfulBEq α] : ∀ {l : List α} {a : α}, l.Nodup → a ∈ l → l.filter (· == a) = [a]
  | x :: xs, a, hn, hm => by
    rw [List.nodup_cons] at hn
    rw [List.filter_cons]
    by_cases hxa : x = a
    · subst hxa
      simp only [beq_self_eq_true, if_true]
      congr 1
      rw [List.filter_eq_nil_iff]
      intro y hy hya
      have : y = x := by simpa using hya
      subst this; exact hn.1 hy
    · have : (x == a) = false := by simpa using hxa
      rw [this]
      simp only [Bool.false_eq_true, if_false]
      rcases List.mem_cons.mp hm with h | h
      · exact absurd h.symm hxa
      · exact filter_beq_of_nodup hn.2 h

theorem filter_beq_of_not_mem {α : Type} [BEq α] [LawfulBEq α] {l : List α} {a : α} (h : a ∉ l) : l.filter (· == a) = [] := by
  rw [List.filter_eq_nil_iff]
  intro y hy hya
  have : y = a := by simpa using hya
  subst this; exact h hy

/-- the model's `single t` -/
def v1Single (evs : List Event) (t : Bytes) : List Event :=
  (((groupByKey evs).filter (fun g => g.1 == (t, []))).map (·.2)).flatten

theorem single_phase (evs : List Event) (t : Bytes) (p : Nat) (hp : ∀ k, (v1Phase k == p) = (k == (t, []))) :
    (phaseBlocks evs p = [] ∧ v1Single evs t = []) ∨ phaseBlocks evs p = [v1Single evs t] := by
  unfold v1Single phaseBlocks
  rw [groups_filter evs (fun g => g.1 == (t, [])) (fun k => k == (t, [])) (fun _ _ => rfl)]
  have : (fun k => v1Phase k == p) = (fun k => k == (t, [])) := funext hp
  rw [this]
  by_cases hm : (t, []) ∈ conflictedKeys evs
  · right
    rw [filter_beq_of_nodup (conflictedKeys_nodup evs) hm]
    simp
  · left
    rw [filter_beq_of_not_mem hm]
    simp

theorem phaseRun_single {sha : ID → Bytes} {valid : Bool} {s s' : V1State} {ws : List Event} {blocks : List (List Event)}
    {single : List Event} (h : (blocks = [] ∧ single = []) ∨ blocks = [single])
    (hr : PhaseRun sha valid s [single] s' ws) : PhaseRun sha valid s blocks s' ws := by
  rcases h with ⟨h1, h2⟩ | h
  · subst h1; subst h2
    cases hr with
    | skip h => exact h
    | block ho _ _ =>
      have := ho.1.length_eq
      simp at this
  · subst h; exact hr

/-! ## 6. `valid` -/

def roomStep (acc : List Bytes) (e : Event) : List Bytes := if acc.contains e.roomID then acc else acc ++ [e.roomID]

theorem roomIDs_foldl : ∀ (auth : List Event) (acc : List Bytes), acc.Nodup →
    (auth.foldl roomStep acc).Nodup ∧ ∀ r, r ∈ auth.foldl roomStep acc ↔ r ∈ acc ∨ ∃ e ∈ auth, e.roomID = r
  | [], acc, hn => by simp [hn]
  | e :: es, acc, hn => by
    simp only [List.foldl_cons]
    have hstep : (roomStep acc e).Nodup ∧ ∀ r, r ∈ roomStep acc e ↔ r ∈ acc ∨ e.roomID = r := by
      unfold roomStep
      by_cases hc : e.roomID ∈ acc
      · have : acc.contains e.roomID = true := by simpa using hc
        rw [this]; simp only [if_true]
        refine ⟨hn, fun r => ⟨Or.inl, ?_⟩⟩
        rintro (h | h)
        · exact h
        · subst h; exact hc
      · have : acc.contains e.roomID = false := by simpa using hc
        rw [this]; simp only [Bool.false_eq_true, if_false]
        refine ⟨?_, fun r => ?_⟩
        · rw [List.nodup_append]
          refine ⟨hn, by simp, ?_⟩
          intro a ha b hb
          simp at hb; subst hb
          intro h; subst h; exact hc ha
        · simp [eq_comm]
    obtain ⟨ih1, ih2⟩ := roomIDs_foldl es (roomStep acc e) hstep.1
    refine ⟨ih1, fun r => ?_⟩
    rw [ih2, hstep.2]
    simp only [List.mem_cons, exists_eq_or_imp, or_assoc]

theorem length_le_one_iff {α : Type} {l : List α} (hn : l.Nodup) : l.length ≤ 1 ↔ ∀ x ∈ l, ∀ y ∈ l, x = y := by
  match l, hn with
  | [], _ => simp
  | [a], _ => simp
  | a :: b :: rest, hn =>
    constructor
    · intro h; simp at h
    · intro h
      have := h a (by simp) b (by simp)
      subst this; simp at hn

/-- the model's `valid` -/
def v1Valid (auth : List Event) : Bool :=
  decide ((auth.foldl (fun acc (e : Event) => if acc.contains e.roomID then acc else acc ++ [e.roomID]) ([] : List Bytes)).length ≤ 1)

theorem v1Valid_iff (auth : List Event) : v1Valid auth = true ↔ SameRoom auth := by
  unfold v1Valid SameRoom
  rw [decide_eq_true_iff]
  obtain ⟨hn, hm⟩ := roomIDs_foldl auth [] List.nodup_nil
  have : (auth.foldl (fun acc (e : Event) => if acc.contains e.roomID then acc else acc ++ [e.roomID]) ([] : List Bytes))
      = auth.foldl roomStep [] := rfl
  rw [this, length_le_one_iff hn]
  constructor
  · intro h a ha b hb
    exact h _ ((hm _).mpr (Or.inr ⟨a, ha, rfl⟩)) _ ((hm _).mpr (Or.inr ⟨b, hb, rfl⟩))
  · intro h x hx y hy
    rcases (hm x).mp hx with h1 | ⟨a, ha, rfl⟩
    · cases h1
    rcases (hm y).mp hy with h1 | ⟨b, hb, rfl⟩
    · cases h1
    exact h a ha b hb

end V.StateResSpec
