/-
  VProofs.RedactMaps — association lists with distinct keys (`setKey`, `mergeInto`, `mapGet`) and the
  float64 scan of values inside the IntSafe domain.  Core Lean only.
-/
import VProofs.RedactCore
namespace V.RedactProofs
open V V.Json V.GoJson V.Redact

theorem noDupIn_iff_nodup (ks : List Bytes) : noDupIn ks = true ↔ ks.Nodup := by
  induction ks with
  | nil => simp [noDupIn]
  | cons k ks ih =>
    simp only [noDupIn, Bool.and_eq_true, Bool.not_eq_true', List.contains_eq_mem, decide_eq_false_iff_not,
      List.nodup_cons, ih]

def keysOf (m : Obj) : List Bytes := m.map (·.1)

theorem any_key_iff (m : Obj) (k : Bytes) : m.any (fun kv => kv.1 == k) = true ↔ k ∈ keysOf m := by
  simp only [List.any_eq_true, beq_iff_eq, keysOf, List.mem_map]

theorem setKey_keys (m : Obj) (k : Bytes) (v : JVal) :
    keysOf (setKey m k v) = if k ∈ keysOf m then keysOf m else keysOf m ++ [k] := by
  unfold setKey
  by_cases h : k ∈ keysOf m
  · rw [if_pos ((any_key_iff m k).mpr h), if_pos h]
    simp only [keysOf, List.map_map]
    apply List.map_congr_left
    intro kv _
    simp only [Function.comp]
    split
    · rename_i hk; exact (beq_iff_eq.mp hk).symm
    · rfl
  · have : ¬ (m.any (fun kv => kv.1 == k) = true) := fun hh => h ((any_key_iff m k).mp hh)
    rw [if_neg this, if_neg h]
    simp [keysOf]

theorem setKey_nodup (m : Obj) (k : Bytes) (v : JVal) (h : (keysOf m).Nodup) : (keysOf (setKey m k v)).Nodup := by
  rw [setKey_keys]
  split
  · exact h
  · rename_i hk
    rw [List.nodup_append]
    refine ⟨h, by simp, ?_⟩
    intro a ha b hb
    simp only [List.mem_singleton] at hb
    subst hb
    intro hab
    subst hab
    exact hk ha

theorem mergeInto_nodup (acc m : Obj) (h : (keysOf acc).Nodup) : (keysOf (mergeInto acc m)).Nodup := by
  unfold mergeInto
  induction m generalizing acc with
  | nil => exact h
  | cons kv rest ih =>
    simp only [List.foldl_cons]
    exact ih _ (setKey_nodup acc kv.1 kv.2 h)

theorem setKey_fresh (m : Obj) (kv : Bytes × JVal) (h : kv.1 ∉ keysOf m) : setKey m kv.1 kv.2 = m ++ [kv] := by
  unfold setKey
  have : ¬ (m.any (fun x => x.1 == kv.1) = true) := fun hh => h ((any_key_iff m kv.1).mp hh)
  rw [if_neg this]

theorem mergeInto_fresh (acc m : Obj) (h : (keysOf (acc ++ m)).Nodup) : mergeInto acc m = acc ++ m := by
  induction m generalizing acc with
  | nil => simp [mergeInto]
  | cons kv rest ih =>
    have hk : kv.1 ∉ keysOf acc := by
      simp only [keysOf, List.map_append, List.map_cons, List.nodup_append, List.nodup_cons] at h
      intro hmem
      exact h.2.2 kv.1 hmem kv.1 List.mem_cons_self rfl
    have step : mergeInto acc (kv :: rest) = mergeInto (setKey acc kv.1 kv.2) rest := rfl
    rw [step, setKey_fresh acc kv hk]
    have h' : (keysOf ((acc ++ [kv]) ++ rest)).Nodup := by
      simpa [List.append_assoc] using h
    rw [ih (acc ++ [kv]) h']
    simp [List.append_assoc]

theorem mergeInto_nil_of_nodup (m : Obj) (h : (keysOf m).Nodup) : mergeInto [] m = m := by
  have := mergeInto_fresh [] m (by simpa using h)
  simpa using this

/-! ## `mapGet` on a filtered map -/

theorem mapGet_filterMap (ks : List Bytes) (F : Bytes → Option JVal) (k : Bytes) :
    mapGet (ks.filterMap (fun k' => (F k').map (fun v => (k', v)))) k = if k ∈ ks then F k else none := by
  induction ks with
  | nil => simp [mapGet]
  | cons k0 rest ih =>
    simp only [List.filterMap_cons]
    cases hF : F k0 with
    | none =>
      simp only [Option.map_none]
      rw [ih]
      by_cases hk : k = k0
      · subst hk; simp [hF]
      · simp [hk]
    | some v =>
      simp only [Option.map_some]
      by_cases hk : k0 = k
      · subst hk
        simp [mapGet, hF]
      · have hne : (k0 == k) = false := by simp [hk]
        have : mapGet ((k0, v) :: rest.filterMap (fun k' => (F k').map (fun v => (k', v)))) k =
               mapGet (rest.filterMap (fun k' => (F k').map (fun v => (k', v)))) k := by
          simp [mapGet, hne]
        rw [this, ih]
        have hk' : k ≠ k0 := fun h => hk h.symm
        simp [hk']

theorem filterMap_keys_nodup (ks : List Bytes) (F : Bytes → Option JVal) (h : ks.Nodup) :
    (keysOf (ks.filterMap (fun k' => (F k').map (fun v => (k', v))))).Nodup := by
  have hsub : List.Sublist (keysOf (ks.filterMap (fun k' => (F k').map (fun v => (k', v))))) ks := by
    induction ks with
    | nil => simp [keysOf]
    | cons k0 rest ih =>
      simp only [List.filterMap_cons]
      cases hF : F k0 with
      | none => simp only [Option.map_none]; exact List.Sublist.cons _ (ih (List.nodup_cons.mp h).2)
      | some v =>
        simp only [Option.map_some, keysOf, List.map_cons]
        exact List.Sublist.cons_cons _ (ih (List.nodup_cons.mp h).2)
  exact hsub.nodup h

/-! ## values of the IntSafe domain fit a float64 -/

theorem takeDigits_all (s : Bytes) (h : s.all isDigit = true) : takeDigits s = (s, []) := by
  induction s with
  | nil => rfl
  | cons c rest ih =>
    simp only [List.all_cons, Bool.and_eq_true] at h
    simp [takeDigits, h.1, ih h.2]

theorem intSafe_floatClass (lit : Bytes) (h : intSafe lit = true) : floatClass lit = .ok := by
  simp only [intSafe, isIntLit, Bool.and_eq_true, decide_eq_true_eq] at h
  obtain ⟨⟨⟨_, hall⟩, hlen⟩, _⟩ := h
  unfold floatClass
  simp only [takeDigits_all _ hall, List.append_nil]
  split
  · rfl
  · have he : expValue ([] : Bytes) = 0 := rfl
    have : (leadingZeros (stripSign lit) : Int) ≥ 0 := Int.natCast_nonneg _
    have hl : ((stripSign lit).length : Int) ≤ 16 := by exact_mod_cast hlen
    split
    · rfl
    · rename_i hgt
      rw [he] at hgt
      omega

mutual
theorem iface_float : ∀ v : JVal, ifaceOk v = true → floatScan v = .ok
  | .null, _ => rfl
  | .bool _, _ => rfl
  | .str _, _ => rfl
  | .num lit, h => by
    simp only [ifaceOk] at h
    simp only [floatScan]
    exact intSafe_floatClass lit h
  | .arr xs, h => by
    simp only [ifaceOk] at h
    simp only [floatScan]
    exact iface_float_list xs h
  | .obj kvs, h => by
    simp only [ifaceOk, Bool.and_eq_true] at h
    simp only [floatScan]
    exact iface_float_members kvs h.2
theorem iface_float_list : ∀ xs : List JVal, ifaceOkList xs = true → floatScanList xs = .ok
  | [], _ => rfl
  | x :: xs, h => by
    simp only [ifaceOkList, Bool.and_eq_true] at h
    simp only [floatScanList, iface_float x h.1, iface_float_list xs h.2, NumClass.worst]
theorem iface_float_members : ∀ kvs : List (Bytes × JVal), ifaceOkMembers kvs = true → floatScanMembers kvs = .ok
  | [], _ => rfl
  | (k, v) :: kvs, h => by
    simp only [ifaceOkMembers, Bool.and_eq_true] at h
    simp only [floatScanMembers, iface_float v h.1.2, iface_float_members kvs h.2, NumClass.worst]
end

/-- members whose values are all in the IntSafe domain scan as `ok` -/
theorem floatScanMembers_of_all (m : Obj) (h : ∀ kv ∈ m, ifaceOk kv.2 = true) : floatScanMembers m = .ok := by
  induction m with
  | nil => rfl
  | cons kv rest ih =>
    obtain ⟨k, v⟩ := kv
    simp only [floatScanMembers, iface_float v (h (k, v) List.mem_cons_self),
      ih (fun x hx => h x (List.mem_cons_of_mem _ hx)), NumClass.worst]

end V.RedactProofs
