/-
  VProofs.AuthRulesMember — C07: the model decides what rule 5 decides for m.room.member events.
-/
import VProofs.AuthRulesBase
namespace V.AuthRules
open V V.Json V.GoJson V.Auth

/-- the model's allower and the rules' inputs describe the same check -/
structure Rel (m : MembershipAllower) (i : MemberInputs) (vr : VGen.VersionRow) : Prop where
  ctx : m.ctx = i.c
  prov : i.c.provider = i.p
  row : m.row = vr
  rowIs : RowIs vr i.sv
  ver : m.ver = i.e.ver
  target : m.targetID = i.target
  sender : m.senderID = i.e.sender
  snd : m.senderMember = i.snd
  old : m.oldMember = i.old
  new : m.newMember = i.new
  jr : m.joinRule = i.c.joinRule
  create : i.c.createEvent.isSome = true

theorem membershipField_eq (ev : Event) :
    (match ev.content with
      | none => none
      | some JVal.null => some []
      | some (JVal.obj kvs) =>
        if (decString (lookupExact kvs b!"membership")).err = true then none else some (decString (lookupExact kvs b!"membership")).val
      | some _ => none) = membershipField ev := by
  unfold membershipField
  cases ev.content with
  | none => rfl
  | some v => cases v <;> rfl

theorem restricted_tail (ev : Event) (L inv : Int) :
    (match
      (match ev.content with
      | none => none
      | some JVal.null => some []
      | some (JVal.obj kvs) =>
        if (decString (lookupExact kvs b!"membership")).err = true then none
        else some (decString (lookupExact kvs b!"membership")).val
      | some _ => none : Option Bytes) with
    | none => (notAllowed : R Bytes)
    | some mem =>
      if (mem != b!"join") = true then notAllowed
      else if L < inv then notAllowed else pure b!"public") =
    if (membershipField ev == some b!"join" && decide (L ≥ inv)) = true then Except.ok b!"public" else notAllowed := by
  unfold membershipField
  cases ev.content with
  | none => simp
  | some v =>
    cases v with
    | null => simp
    | obj kvs =>
      simp only
      by_cases herr : (decString (lookupExact kvs b!"membership")).err = true
      · simp [herr]
      · simp only [herr, if_false]
        by_cases hj : (decString (lookupExact kvs b!"membership")).val = b!"join"
        · by_cases hl : L < inv
          · have : ¬ (L ≥ inv) := by omega
            simp [hj, hl, this]
          · have : L ≥ inv := by omega
            simp [hj, hl, this, pure, Except.pure]
        · simp [hj]
    | _ => simp

theorem restrictedJoin_off {m i row} (h : Rel m i row) (hs : i.sv.restricted = false) : m.restrictedJoin = notAllowed := by
  unfold MembershipAllower.restrictedJoin
  have : row.checkRestrictedJoinAllowedFunc = "disallowRestrictedJoins" := by rw [h.rowIs.restricted, hs]; rfl
  simp [h.row, this]

theorem restrictedJoin_invite {m i row} (h : Rel m i row) (hs : i.sv.restricted = true)
    (ho : (i.old.membership == b!"join" || i.old.membership == b!"invite" || i.new.authorisedVia == []) = true) :
    m.restrictedJoin = .ok b!"invite" := by
  unfold MembershipAllower.restrictedJoin
  have : row.checkRestrictedJoinAllowedFunc = "allowRestrictedJoins" := by rw [h.rowIs.restricted, hs]; rfl
  have e1 : ("allowRestrictedJoins" == "disallowRestrictedJoins") = false := by decide
  have e2 : ("allowRestrictedJoins" == "") = false := by decide
  simp only [h.row, this, e1, e2, h.old, h.new, ho, bne_self_eq_false, Bool.false_eq_true, if_false, if_true]
  rfl

theorem restrictedJoin_auth {m i row} (h : Rel m i row) (hs : i.sv.restricted = true)
    (ho : (i.old.membership == b!"join" || i.old.membership == b!"invite" || i.new.authorisedVia == []) = false) :
    m.restrictedJoin = if authorisedJoin lib i then .ok b!"public" else notAllowed := by
  unfold MembershipAllower.restrictedJoin authorisedJoin
  have : row.checkRestrictedJoinAllowedFunc = "allowRestrictedJoins" := by rw [h.rowIs.restricted, hs]; rfl
  have e1 : ("allowRestrictedJoins" == "disallowRestrictedJoins") = false := by decide
  have e2 : ("allowRestrictedJoins" == "") = false := by decide
  have hd14 : lib.d14_pseudoIDs = true := rfl
  have hvia : (i.new.authorisedVia != []) = true := by
    simp only [Bool.or_eq_false_iff] at ho
    simpa using ho.2
  simp only [h.row, this, e1, e2, h.old, h.new, ho, bne_self_eq_false, Bool.false_eq_true, if_false, h.ver, h.ctx, h.prov,
    hd14, Bool.true_and, hvia, userPowerLevel_eq i.c _ h.create]
  by_cases hv : (i.e.ver == b!"org.matrix.msc4014") = true
  · have : (i.e.ver != b!"org.matrix.msc4014") = false := by simp_all
    simp only [this, hv, Bool.true_or, Bool.false_eq_true, if_false, Bool.true_and]
    cases hm : i.p.member i.new.authorisedVia with
    | none => simp
    | some ev =>
      simp only [notAllowed_bind, ok_bind]
      exact restricted_tail ev _ _
  · have hv' : (i.e.ver == b!"org.matrix.msc4014") = false := by simpa using hv
    have : (i.e.ver != b!"org.matrix.msc4014") = true := by simp_all
    simp only [this, hv', Bool.false_or, if_true]
    by_cases hsp : splitIDOk 64 i.new.authorisedVia = true
    · simp only [hsp, Bool.not_true, Bool.false_eq_true, if_false, Bool.true_and]
      cases hm : i.p.member i.new.authorisedVia with
      | none => simp
      | some ev =>
        simp only [notAllowed_bind, ok_bind]
        exact restricted_tail ev _ _
    · simp [hsp]

/-! ### the sender changes their own membership -/

/-- `membershipAllowedSelf` as one chain of cases -/
theorem allowedSelf_model (m : MembershipAllower) :
    m.allowedSelf =
      if (m.oldMember.membership == b!"leave" && m.newMember.membership == b!"leave") = true then .ok ()
      else if (m.oldMember.membership == b!"ban") = true then notAllowed
      else if (m.newMember.membership == b!"knock") = true then checkKnockingAllowed m.row m.joinRule m.oldMember.membership
      else if (m.newMember.membership == b!"join") = true then
        (if (m.joinRule == b!"restricted" || m.joinRule == b!"knock_restricted") = true then m.restrictedJoin else pure m.joinRule)
          >>= fun jr =>
          if (((m.joinRule == b!"restricted" || m.joinRule == b!"knock_restricted") && jr == b!"public")
              || m.oldMember.membership == b!"invite" || m.oldMember.membership == b!"join"
              || jr == b!"public") = true then .ok () else notAllowed
      else if (m.newMember.membership == b!"leave") = true then
        (if (m.oldMember.membership == b!"join" || m.oldMember.membership == b!"invite") = true then .ok ()
         else if (m.oldMember.membership == b!"knock") = true then checkKnockingAllowed m.row b!"knock" m.oldMember.membership
         else notAllowed)
      else notAllowed := by
  unfold MembershipAllower.allowedSelf
  simp only [notAllowed_bind]
  split
  · rfl
  · split
    · rfl
    · split
      · rfl
      · split
        · congr 1
          funext jr
          cases (m.joinRule == b!"restricted" || m.joinRule == b!"knock_restricted") <;>
          cases jr == b!"public" <;>
          cases m.oldMember.membership == b!"invite" <;>
          cases m.oldMember.membership == b!"join" <;> rfl
        · rfl

theorem authorisedJoin_nil {d i} (h : (i.new.authorisedVia == []) = true) : authorisedJoin d i = false := by
  unfold authorisedJoin
  have : (i.new.authorisedVia != []) = false := by simp_all
  simp [this]

/-- the join rule as a formula over the atoms the model tests -/
theorem ruleJoin_atoms (i : MemberInputs) :
    ruleJoin lib i =
      (i.selfSent && !(i.old.membership == b!"ban") &&
        (if (i.c.joinRule == b!"restricted" || i.c.joinRule == b!"knock_restricted") = true then
           i.sv.restricted && (i.old.membership == b!"invite" || i.old.membership == b!"join" || authorisedJoin lib i)
         else
           (i.old.membership == b!"invite" || i.old.membership == b!"join" || i.c.joinRule == b!"public"))) := by
  unfold ruleJoin restrictedApplies inviteLikeRule MemberInputs.joinRule
  have hu1 : lib.d16_invitedJoinsAnyRule = true := rfl
  have hd9 : lib.d9_knockRestrictedEarly = true := rfl
  simp only [hu1, hd9, Bool.true_or, Bool.and_true, Bool.not_true, Bool.false_or, Bool.true_and, bne]
  by_cases hR : (i.c.joinRule == b!"restricted" || i.c.joinRule == b!"knock_restricted") = true
  · simp only [hR, if_true]
    simp only [Bool.or_eq_true] at hR
    rcases hR with hR | hR <;> simp only [hR, Bool.true_or, Bool.or_true, Bool.and_true]
  · have hR' : (i.c.joinRule == b!"restricted" || i.c.joinRule == b!"knock_restricted") = false := by simpa using hR
    simp only [hR', Bool.false_eq_true, if_false]
    cases i.selfSent <;> cases (i.old.membership == b!"ban") <;> cases (i.old.membership == b!"invite") <;>
    cases (i.old.membership == b!"join") <;> cases (i.c.joinRule == b!"public") <;>
    cases (i.c.joinRule == b!"invite") <;> cases (i.sv.knock && i.c.joinRule == b!"knock") <;> rfl

theorem allowedSelf_join {m i row} (h : Rel m i row) (hself : i.selfSent = true)
    (hn : i.new.membership = b!"join") :
    accepts m.allowedSelf = some (ruleJoin lib i) := by
  rw [allowedSelf_model, ruleJoin_atoms]
  have l1 : (b!"join" == b!"leave") = false := by decide
  have l2 : (b!"join" == b!"knock") = false := by decide
  simp only [h.old, h.new, h.jr, hn, hself, l1, l2, Bool.and_false, Bool.false_eq_true, if_false, beq_self_eq_true, if_true,
    Bool.true_and]
  by_cases hb : (i.old.membership == b!"ban") = true
  · simp [hb]
  · have hb' : (i.old.membership == b!"ban") = false := by simpa using hb
    simp only [hb', Bool.false_eq_true, if_false, Bool.not_false, Bool.true_and]
    by_cases hR : (i.c.joinRule == b!"restricted" || i.c.joinRule == b!"knock_restricted") = true
    · simp only [hR, if_true, Bool.true_and]
      cases hs : i.sv.restricted with
      | false => rw [restrictedJoin_off h hs]; simp
      | true =>
        by_cases ho : (i.old.membership == b!"join" || i.old.membership == b!"invite" || i.new.authorisedVia == []) = true
        · rw [restrictedJoin_invite h hs ho]
          have l3 : (b!"invite" == b!"public") = false := by decide
          simp only [ok_bind, l3, Bool.and_false, Bool.false_or, Bool.true_and]
          by_cases hv : (i.new.authorisedVia == []) = true
          · rw [authorisedJoin_nil hv]
            cases (i.old.membership == b!"invite") <;> cases (i.old.membership == b!"join") <;> simp
          · have hij : (i.old.membership == b!"join" || i.old.membership == b!"invite") = true := by
              simp only [Bool.or_eq_true] at ho ⊢
              rcases ho with ho | ho
              · exact ho
              · exact absurd ho hv
            cases hI : (i.old.membership == b!"invite") <;> cases hJ : (i.old.membership == b!"join") <;> simp_all
        · have ho' : (i.old.membership == b!"join" || i.old.membership == b!"invite" || i.new.authorisedVia == []) = false := by
            simpa using ho
          rw [restrictedJoin_auth h hs ho']
          simp only [Bool.or_eq_false_iff] at ho'
          simp only [ho'.1.1, ho'.1.2, Bool.false_or, Bool.true_and]
          cases authorisedJoin lib i <;> simp
    · have hR' : (i.c.joinRule == b!"restricted" || i.c.joinRule == b!"knock_restricted") = false := by simpa using hR
      simp only [hR', Bool.false_eq_true, if_false, pure_bind', Bool.false_and, Bool.false_or]
      cases (i.old.membership == b!"invite") <;> cases (i.old.membership == b!"join") <;>
      cases (i.c.joinRule == b!"public") <;> simp

theorem checkKnocking_eq {m i row} (h : Rel m i row) (old : Bytes) :
    accepts (checkKnockingAllowed m.row m.joinRule old) =
      some (i.sv.knock && (i.joinRule == b!"knock" || i.joinRule == b!"knock_restricted")
            && !(old == b!"join" || old == b!"invite" || old == b!"ban")) := by
  unfold checkKnockingAllowed MemberInputs.joinRule
  rw [h.row, h.rowIs.knock, h.jr]
  have e1 : ("checkKnocking" == "disallowKnocking") = false := by decide
  cases i.sv.knock with
  | false => simp
  | true =>
    simp only [if_true, e1, Bool.false_eq_true, if_false, beq_self_eq_true, Bool.true_and]
    repeat' split
    all_goals simp_all
    all_goals grind

/-- cancelling a knock: the version's knocking check for a user outside a `knock` room answers whether the version has
    knocking at all -/
theorem knockLeave_eq {m i row} (h : Rel m i row) :
    accepts (checkKnockingAllowed m.row b!"knock" b!"knock") = some i.sv.knock := by
  unfold checkKnockingAllowed
  rw [h.row, h.rowIs.knock]
  have e1 : ("checkKnocking" == "disallowKnocking") = false := by decide
  cases i.sv.knock with
  | false => simp
  | true =>
    simp only [if_true, e1, Bool.false_eq_true, if_false, beq_self_eq_true]
    decide

theorem membership_cases (x : Bytes) :
    x = b!"join" ∨ x = b!"leave" ∨ x = b!"invite" ∨ x = b!"ban" ∨ x = b!"knock" ∨
    (x ≠ b!"join" ∧ x ≠ b!"leave" ∧ x ≠ b!"invite" ∧ x ≠ b!"ban" ∧ x ≠ b!"knock") := by
  by_cases h1 : x = b!"join"
  · exact Or.inl h1
  by_cases h2 : x = b!"leave"
  · exact Or.inr (Or.inl h2)
  by_cases h3 : x = b!"invite"
  · exact Or.inr (Or.inr (Or.inl h3))
  by_cases h4 : x = b!"ban"
  · exact Or.inr (Or.inr (Or.inr (Or.inl h4)))
  by_cases h5 : x = b!"knock"
  · exact Or.inr (Or.inr (Or.inr (Or.inr (Or.inl h5))))
  exact Or.inr (Or.inr (Or.inr (Or.inr (Or.inr ⟨h1, h2, h3, h4, h5⟩))))

theorem allowedSelf_eq {m i row} (h : Rel m i row) (hself : i.selfSent = true) (hso : i.snd = i.old) :
    accepts m.allowedSelf = some (ruleByMembership lib i) := by
  have hd1 : lib.d1_selfLeaveLeave = true := rfl
  have hd9 : lib.d9_knockRestrictedEarly = true := rfl
  rcases membership_cases i.new.membership with hn | hn | hn | hn | hn | hn
  · -- join
    rw [allowedSelf_join h hself hn]
    simp [ruleByMembership, hn]
  · -- leave
    rw [allowedSelf_model]
    simp only [h.old, h.new, hn, ruleByMembership, ruleLeave, hself, hd1]
    rcases membership_cases i.old.membership with ho | ho | ho | ho | ho | ho
    · simp [ho]
    · simp [ho]
    · simp [ho]
    · simp [ho]
    · simp [ho, knockLeave_eq h]
    · simp [ho]
  · -- invite
    rw [allowedSelf_model]
    simp only [h.old, h.new, hn, ruleByMembership, ruleInvite, hso]
    rcases membership_cases i.old.membership with ho | ho | ho | ho | ho | ho <;> simp [ho]
  · -- ban
    rw [allowedSelf_model]
    have hst : i.target = i.e.sender := by simpa [MemberInputs.selfSent] using hself
    simp only [h.old, h.new, hn, ruleByMembership, ruleBan, hso, hst]
    rcases membership_cases i.old.membership with ho | ho | ho | ho | ho | ho <;> simp [ho]
  · -- knock
    rw [allowedSelf_model]
    simp only [h.new, hn]
    have l1 : (b!"knock" == b!"leave") = false := by decide
    simp only [l1, Bool.and_false, Bool.false_eq_true, if_false, beq_self_eq_true, if_true]
    by_cases hb : (m.oldMember.membership == b!"ban") = true
    · have : i.old.membership = b!"ban" := by rw [← h.old]; simpa using hb
      simp [hb, ruleByMembership, hn, ruleKnock, this]
    · simp only [hb, if_false, Bool.false_eq_true]
      rw [checkKnocking_eq h, h.old]
      have : (i.old.membership == b!"ban") = false := by rw [← h.old]; simpa using hb
      simp only [ruleByMembership, hn, ruleKnock, hself, hd9, this, MemberInputs.joinRule]
      simp
      cases i.sv.knock <;> cases (i.c.joinRule == b!"knock") <;> cases (i.c.joinRule == b!"knock_restricted") <;>
      cases (i.old.membership == b!"join") <;> cases (i.old.membership == b!"invite") <;> simp
  · -- unknown membership
    rw [allowedSelf_model]
    obtain ⟨h1, h2, h3, h4, h5⟩ := hn
    simp only [h.old, h.new, ruleByMembership]
    simp [h1, h2, h3, h4, h5]

/-! ### the sender changes somebody else's membership -/

theorem allowedOther_eq {m i row} (h : Rel m i row) (hself : i.selfSent = false) :
    accepts m.allowedOther = some (ruleByMembership lib i) := by
  have hd10 : lib.d10_unbanBanLevelOnly = true := rfl
  unfold MembershipAllower.allowedOther
  simp only [h.ctx, h.sender, h.target, userPowerLevel_eq i.c _ h.create, ok_bind, notAllowed_bind, h.snd, h.new, h.old]
  by_cases hj : (i.snd.membership != b!"join") = true
  · have hj' : (i.snd.membership == b!"join") = false := by simpa using hj
    simp only [hj, if_true, ruleByMembership, ruleJoin, ruleInvite, ruleLeave, ruleBan, ruleKnock, hself, hj', Bool.false_and]
    simp
  · have hj' : (i.snd.membership == b!"join") = true := by simpa using hj
    have hj'' : (i.snd.membership != b!"join") = false := by simpa using hj
    simp only [hj'', Bool.false_eq_true, if_false, ruleByMembership, ruleJoin, ruleInvite, ruleLeave, ruleBan, ruleKnock, hself, hj',
      Bool.false_and, Bool.true_and, hd10, Bool.and_false, Bool.true_or, Bool.and_true]
    rcases membership_cases i.new.membership with hn | hn | hn | hn | hn | hn
    · simp [hn]
    · -- leave
      simp only [hn]
      by_cases hb : (i.old.membership == b!"ban") = true
      · simp [hb]
        split <;> simp_all
      · simp [hb]
        split <;> simp_all <;> omega
    · -- invite
      simp only [hn]
      simp
      by_cases hl : powerOf lib i.c i.e.sender < i.c.pl.invite
      · have : ¬ (i.c.pl.invite ≤ powerOf lib i.c i.e.sender) := by omega
        simp [hl, this]
      · have : i.c.pl.invite ≤ powerOf lib i.c i.e.sender := by omega
        simp [hl, this]
        split <;> simp_all
        grind
    · -- ban
      simp only [hn]
      simp
      split <;> simp_all <;> omega
    · simp [hn]
    · obtain ⟨h1, h2, h3, h4, h5⟩ := hn
      simp [h1, h2, h3, h4, h5]

/-! ### `memberEventAllowed` -/

/-- the third-party-invite keys the model loads: only for invites that carry a `third_party_invite` block -/
def tpKeysFor (p : Provider) (nm : MemberContent) : Option Nat :=
  match nm.thirdPartyInvite with
  | none => some 0
  | some s => if nm.membership != b!"invite" then some 0 else if s.token.isEmpty then none else thirdPartyKeys p nm

theorem bind_tp (tk : Option Nat) (x : R Nat) (k : Nat → R Unit)
    (hx : x = match tk with
      | some n => .ok n
      | none => notAllowed) :
    accepts (x >>= k) = (match (motive := Option Nat → Option Bool) tk with
      | some n => accepts (k n)
      | none => some false) := by
  subst hx
  cases tk <;> rfl

theorem bind_opt {α} (su : Option α) (x : R α) (k : α → R Unit)
    (hx : x = match su with
      | some u => .ok u
      | none => failErr) :
    accepts (x >>= k) = (match (motive := Option α → Option Bool) su with
      | some u => accepts (k u)
      | none => some false) := by
  subst hx
  cases su <;> rfl

theorem singleton_eq (l : List Bytes) (x : Bytes) :
    (l.length == 1 && l.head? == some x) = (l == [x]) := by
  cases l with
  | nil => rfl
  | cons a t =>
    cases t with
    | nil => simp
    | cons b t' => simp

theorem firstJoin_eq (i : MemberInputs) (ce : Event) (hcev : i.c.createEvent = some ce) :
    ruleFirstJoin lib i =
      (i.target == ce.sender && i.new.membership == b!"join" && i.e.sender == i.target && i.e.prevEventIDs.length == 1
        && i.e.prevEventIDs.head? == some i.c.create.eventID) := by
  have hd12 : lib.d12_firstJoinBySelf = true := rfl
  unfold ruleFirstJoin MemberInputs.selfSent
  simp only [hcev, Option.map_some, hd12, Bool.not_true, Bool.false_or, Bool.and_assoc, singleton_eq]
  rw [Bool.eq_iff_iff]
  simp only [Bool.and_eq_true, beq_iff_eq, Option.some.injEq]
  constructor
  · rintro ⟨h1, h2, h3, h4⟩
    exact ⟨h1.symm, h2, h3.symm, h4⟩
  · rintro ⟨h1, h2, h3, h4⟩
    exact ⟨h1.symm, h2, h3.symm, h4⟩

theorem member_eq (c : Ctx) (p : Provider) (hf : Fresh p c) (e : Event) (sig : Bool) (row : VGen.VersionRow) (sv : SpecVersion)
    (hrow : e.row = some row) (hri : RowIs row sv)
    (hs : (parseUserID? e.sender).isSome = true) (hr : e.roomID ≠ [])
    (hnew : isUnmodelled (decodeMemberContent e.content) = false)
    (hsnd : isUnmodelled (memberFromProvider p e.sender) = false)
    (hold : (match e.stateKey with
            | some t => !isUnmodelled (memberFromProvider p t)
            | none => true) = true)
    (hmx : (match decodeMemberContent e.content with
            | .ok nm => (match nm.mxidMappingUserID with
                         | some uid => (parseUserID? uid).isSome
                         | none => true)
            | .error _ => true) = true) :
    accepts (c.memberEventAllowed e sig) = some (ruleMember lib c p sv e sig) := by
  unfold Ctx.memberEventAllowed ruleMember
  rw [hf.provider]
  simp only [hrow, pure_bind']
  cases hsk : e.stateKey with
  | none => simp
  | some target =>
    rw [hsk] at hold
    simp only [pure_bind'] at hold ⊢
    rcases decodeMemberContent_cases _ hnew with ⟨nm, hnm⟩ | hnm
    case inr => simp [hnm, newMemberOf, notAllowed]
    have hnm' : newMemberOf e = some nm := by simp [newMemberOf, hnm]
    rw [hnm] at hmx
    simp only [hnm, hnm', ok_bind] at hmx ⊢
    have hold' : isUnmodelled (memberFromProvider p target) = false := by simpa using hold
    rcases memberFromProvider_cases p target hold' with ⟨om, hom⟩ | hom
    case inr => simp [hom, membershipOf_na hom]
    rcases memberFromProvider_cases p e.sender hsnd with ⟨sm, hsm⟩ | hsm
    case inr => simp [hom, hsm, membershipOf_na hsm, membershipOf_ok hom]
    simp only [hom, hsm, membershipOf_ok hom, membershipOf_ok hsm, ok_bind, notAllowed_bind]
    refine Eq.trans (bind_tp (tpKeysFor p nm) _ _ ?_) ?_
    · unfold tpKeysFor thirdPartyKeys
      cases nm.thirdPartyInvite with
      | none => rfl
      | some s =>
        simp only
        by_cases hinv : (nm.membership != b!"invite") = true
        · simp only [hinv, if_true]; rfl
        · simp only [hinv, if_false, Bool.false_eq_true]
          by_cases htok : s.token.isEmpty = true
          · simp only [htok, if_true]
          · simp only [htok, if_false, Bool.false_eq_true]
            cases p.thirdPartyInvite s.token with
            | none => rfl
            | some tpe =>
              simp only [Option.bind_some]
              cases decodeThirdPartyInviteKeys tpe.content <;> rfl
    · cases htp : tpKeysFor p nm with
      | none =>
        -- an invite naming a third-party invite for which there is no usable m.room.third_party_invite event
        simp only
        unfold tpKeysFor at htp
        cases htpi : nm.thirdPartyInvite with
        | none => rw [htpi] at htp; cases htp
        | some s =>
          rw [htpi] at htp
          simp only at htp
          by_cases hinv : (nm.membership != b!"invite") = true
          · simp [hinv] at htp
          · simp only [hinv, if_false, Bool.false_eq_true] at htp
            have hnj : nm.membership = b!"invite" := by simpa using hinv
            have : ruleMemberDecision lib (MemberInputs.mk c p e sv target nm om sm sig) = false := by
              unfold ruleMemberDecision ruleFirstJoin ruleThirdPartyInvite
              by_cases htok : s.token.isEmpty = true
              · simp [htpi, hnj, htok]
              · simp only [htok, if_false, Bool.false_eq_true] at htp
                simp [htpi, hnj, htp]
            simp [this]
      | some tpKeys =>
        simp only
        by_cases hroom : (c.create.roomID != e.roomID) = true
        · have : ruleCreatePresent c e = false := by
            unfold ruleCreatePresent
            have : ¬ (e.roomID = c.create.roomID) := by
              intro h; rw [h] at hroom; simp at hroom
            simp [this]
          simp [hroom, this]
        · have hroom' : (e.roomID != c.create.roomID) = false := by
            have : c.create.roomID = e.roomID := by simpa using hroom
            simp [this]
          have hce := createPresent_of hf hr hroom'
          have hcp : ruleCreatePresent c e = true := by
            unfold ruleCreatePresent; simp_all
          have hroom2 : (c.create.roomID != e.roomID) = false := by simpa using hroom
          simp only [hroom2, Bool.false_eq_true, if_false, hcp, Bool.true_and]
          refine Eq.trans (bind_opt (federateSubject lib
              { c := c, p := p, e := e, sv := sv, target := target, new := nm, old := om, snd := sm, sig3pid := sig }) _ _ ?_) ?_
          · unfold federateSubject resolveUser userOf
            have hd14 : lib.d14_pseudoIDs = true := rfl
            simp only [hd14, Bool.true_and]
            cases hmm : nm.mxidMappingUserID with
            | some uid =>
              rw [hmm] at hmx
              simp only at hmx ⊢
              by_cases hv : (e.ver == b!"org.matrix.msc4014") = true
              · simp only [hv, if_true]
                cases hp : parseUserID? uid with
                | none => simp [hp] at hmx
                | some o => cases o <;> rfl
              · simp only [hv, if_false, Bool.false_eq_true]
                cases hp : parseUserID? e.sender with
                | none => simp [hp] at hs
                | some o => cases o <;> rfl
            | none =>
              simp only
              cases hp : parseUserID? e.sender with
              | none => simp [hp] at hs
              | some o => cases o <;> rfl
          · cases hsu : federateSubject lib
              { c := c, p := p, e := e, sv := sv, target := target, new := nm, old := om, snd := sm, sig3pid := sig } with
            | none => simp
            | some u =>
              simp only [domainAllowed_eq]
              by_cases hfed : (u.domain == c.create.senderDomain || c.create.federate != some false) = true
              · have : ruleFederate c u.domain = true := hfed
                simp only [hfed, if_true, ok_bind, this, Bool.true_and]
                cases hcev : c.createEvent with
                | none => simp [hcev] at hce
                | some ce =>
                  simp only
                  generalize hi : MemberInputs.mk c p e sv target nm om sm sig = i
                  have hrel : ∀ tk, Rel (MembershipAllower.mk c row e.ver tk target e.sender sm om nm c.joinRule) i row := by
                    intro tk; subst hi
                    exact ⟨rfl, hf.provider, rfl, hri, rfl, rfl, rfl, rfl, rfl, rfl, rfl, hce⟩
                  have hd12 : lib.d12_firstJoinBySelf = true := rfl
                  have hd7 : lib.d7_thirdPartySynapse = true := rfl
                  have hfirst : ruleFirstJoin lib i =
                      (target == ce.sender && nm.membership == b!"join" && e.sender == target && e.prevEventIDs.length == 1
                        && e.prevEventIDs.head? == some c.create.eventID) := by
                    subst hi
                    exact firstJoin_eq _ ce hcev
                  unfold ruleMemberDecision
                  rw [hfirst]
                  by_cases hfj : (target == ce.sender && nm.membership == b!"join" && e.sender == target && e.prevEventIDs.length == 1
                        && e.prevEventIDs.head? == some c.create.eventID) = true
                  · simp [hfj]
                  · have hfj' : (target == ce.sender && nm.membership == b!"join" && e.sender == target && e.prevEventIDs.length == 1
                        && e.prevEventIDs.head? == some c.create.eventID) = false := by simpa using hfj
                    simp only [hfj', Bool.false_eq_true, if_false, Bool.false_or]
                    have hinew : i.new = nm := by subst hi; rfl
                    have hitarget : i.target = target := by subst hi; rfl
                    have hie : i.e = e := by subst hi; rfl
                    have hiold : i.old = om := by subst hi; rfl
                    have hisnd : i.snd = sm := by subst hi; rfl
                    have tail : accepts (if (target == e.sender) = true then
                          (MembershipAllower.mk c row e.ver tpKeys target e.sender sm om nm c.joinRule).allowedSelf
                        else
                          (MembershipAllower.mk c row e.ver tpKeys target e.sender sm om nm c.joinRule).allowedOther)
                        = some (ruleByMembership lib i) := by
                      by_cases hself : (target == e.sender) = true
                      · simp only [hself, if_true]
                        have hs1 : i.selfSent = true := by
                          unfold MemberInputs.selfSent; rw [hitarget, hie]; exact hself
                        have hso : i.snd = i.old := by
                          rw [hisnd, hiold]
                          have : target = e.sender := by simpa using hself
                          rw [this] at hom
                          rw [hom] at hsm
                          cases hsm; rfl
                        exact allowedSelf_eq (hrel tpKeys) hs1 hso
                      · have hself' : (target == e.sender) = false := by simpa using hself
                        simp only [hself', Bool.false_eq_true, if_false]
                        have hs1 : i.selfSent = false := by
                          unfold MemberInputs.selfSent; rw [hitarget, hie]; exact hself'
                        exact allowedOther_eq (hrel tpKeys) hs1
                    rw [hinew]
                    cases htpi : nm.thirdPartyInvite with
                    | none =>
                      simp only [Option.isSome_none, Bool.and_false, Bool.false_eq_true, if_false]
                      exact tail
                    | some s =>
                      simp only [Option.isSome_some, Bool.and_true]
                      by_cases hinv : (nm.membership == b!"invite") = true
                      · simp only [hinv, if_true]
                        unfold ruleThirdPartyInvite
                        rw [hinew, hitarget]
                        have hip : i.p = p := by subst hi; rfl
                        have hisig : i.sig3pid = sig := by subst hi; rfl
                        have htp' : s.token.isEmpty = false ∧ thirdPartyKeys p nm = some tpKeys := by
                          unfold tpKeysFor at htp
                          rw [htpi] at htp
                          have : (nm.membership != b!"invite") = false := by simpa using hinv
                          simp only [this, Bool.false_eq_true, if_false] at htp
                          by_cases htok : s.token.isEmpty = true
                          · simp [htok] at htp
                          · simp only [htok, if_false, Bool.false_eq_true] at htp
                            exact ⟨by simpa using htok, htp⟩
                        rw [hip, hisig, htp'.2, htp'.1]
                        simp only [hd7, Bool.true_or, Bool.and_true, Bool.not_false, Bool.true_and]
                        by_cases hmx2 : target = s.mxid
                        · simp only [hmx2, bne_self_eq_false, Bool.false_eq_true, if_false, beq_self_eq_true, Bool.true_and]
                          cases hcond : (decide (tpKeys > 0) && s.sigs.any (fun dk => (b!"ed25519").isPrefixOf dk.2) && sig) <;>
                            simp_all
                        · simp [hmx2]
                      · have hinv' : (nm.membership == b!"invite") = false := by simpa using hinv
                        simp only [hinv', Bool.false_eq_true, if_false]
                        exact tail
              · have : ruleFederate c u.domain = false := by simpa [ruleFederate] using hfed
                simp [hfed, this]

end V.AuthRules
