/- L3: re-emitting the read-back value with sorted members gives the canonical encoding, plus the
   bookkeeping lemmas relating `PVal`, `JVal`, `ofJVal`, `normNums`, `sorted`.  Core only. -/
import VProofs.JsonParse
import VProofs.Sort
namespace V.Json

/-! ### sorting commutes with key-preserving maps -/

theorem insertByKey_map {α β : Type} (g : Bytes × α → Bytes × β) (hg : ∀ x, (g x).1 = x.1) (m : Bytes × α) :
    ∀ l, insertByKey (g m) (l.map g) = (insertByKey m l).map g
  | [] => rfl
  | x :: xs => by
    simp only [List.map_cons, insertByKey, hg]
    split
    · rfl
    · simp only [List.map_cons, insertByKey_map g hg m xs]

theorem sortByKey_map {α β : Type} (g : Bytes × α → Bytes × β) (hg : ∀ x, (g x).1 = x.1) :
    ∀ l, sortByKey (l.map g) = (sortByKey l).map g
  | [] => rfl
  | m :: ms => by
    simp only [List.map_cons, sortByKey, sortByKey_map g hg ms, insertByKey_map g hg]

/-! ### maps -/

theorem sortedMembers_eq_map' (kvs : List (Bytes × JVal)) :
    sortedMembers kvs = kvs.map (fun kv => (kv.1, kv.2.sorted)) := by
  induction kvs with
  | nil => rfl
  | cons x xs ih => obtain ⟨k, v⟩ := x; simp [sortedMembers, ih]

theorem encodeMembers_eq_map (kvs : List (Bytes × JVal)) :
    encodeMembers kvs = kvs.map (fun kv => 0x22 :: encodeStringBody kv.1 ++ [0x22, 0x3A] ++ encode kv.2) := by
  induction kvs with
  | nil => rfl
  | cons x xs ih => obtain ⟨k, v⟩ := x; simp [encodeMembers, ih]

mutual
/-- **L3.** -/
theorem sortEmit_ofJVal : (v : JVal) → sortEmit (ofJVal v) = encode v.sorted
  | .null => rfl
  | .bool true => rfl
  | .bool false => rfl
  | .num lit => rfl
  | .str s => rfl
  | .arr xs => by
    simp only [ofJVal, sortEmit, JVal.sorted, encode, sortEmitList_ofJVals xs]
  | .obj kvs => by
    simp only [ofJVal, sortEmit, JVal.sorted, encode]
    rw [sortEmitMembers_ofJMembers kvs, encodeMembers_eq_map]
    rw [sortByKey_map (fun kw : Bytes × JVal => (kw.1, 0x22 :: encodeStringBody kw.1 ++ [0x22, 0x3A] ++ encode kw.2))
      (fun _ => rfl)]
    simp [List.map_map, Function.comp_def]
theorem sortEmitList_ofJVals : (xs : List JVal) → sortEmitList (ofJVals xs) = encodeList (sortedList xs)
  | [] => rfl
  | x :: xs => by
    simp only [ofJVals, sortEmitList, sortedList, encodeList, sortEmit_ofJVal x, sortEmitList_ofJVals xs]
theorem sortEmitMembers_ofJMembers : (kvs : List (Bytes × JVal)) →
    sortEmitMembers (ofJMembers kvs) =
      (sortedMembers kvs).map (fun kw => (kw.1, 0x22 :: encodeStringBody kw.1 ++ [0x22, 0x3A] ++ encode kw.2))
  | [] => rfl
  | (k, v) :: kvs => by
    simp only [ofJMembers, sortEmitMembers, sortedMembers, List.map_cons, sortEmit_ofJVal v,
      sortEmitMembers_ofJMembers kvs]
end

/-! ### `ofJVal` forgets nothing but the spelling -/

mutual
theorem ofJVal_toJVal : (v : JVal) → (ofJVal v).toJVal = v.normNums
  | .null => rfl
  | .bool _ => rfl
  | .num _ => rfl
  | .str _ => rfl
  | .arr xs => by simp only [ofJVal, PVal.toJVal, JVal.normNums, ofJVals_toJVals xs]
  | .obj kvs => by simp only [ofJVal, PVal.toJVal, JVal.normNums, ofJMembers_toJMembers kvs]
theorem ofJVals_toJVals : (xs : List JVal) → toJVals (ofJVals xs) = normNumsList xs
  | [] => rfl
  | x :: xs => by simp only [ofJVals, toJVals, normNumsList, ofJVal_toJVal x, ofJVals_toJVals xs]
theorem ofJMembers_toJMembers : (kvs : List (Bytes × JVal)) → toJMembers (ofJMembers kvs) = normNumsMembers kvs
  | [] => rfl
  | (k, v) :: kvs => by
    simp only [ofJMembers, toJMembers, normNumsMembers, ofJVal_toJVal v, ofJMembers_toJMembers kvs]
end

mutual
theorem ofJVal_surrogatesOk : (v : JVal) → (ofJVal v).surrogatesOk = true
  | .null => rfl
  | .bool _ => rfl
  | .num _ => rfl
  | .str s => by simp only [ofJVal, PVal.surrogatesOk, noLoneSurr_esb]
  | .arr xs => by simp only [ofJVal, PVal.surrogatesOk, ofJVals_surrogatesOk xs]
  | .obj kvs => by simp only [ofJVal, PVal.surrogatesOk, ofJMembers_surrogatesOk kvs]
theorem ofJVals_surrogatesOk : (xs : List JVal) → surrogatesOkList (ofJVals xs) = true
  | [] => rfl
  | x :: xs => by simp only [ofJVals, surrogatesOkList, ofJVal_surrogatesOk x, ofJVals_surrogatesOk xs, Bool.and_self]
theorem ofJMembers_surrogatesOk : (kvs : List (Bytes × JVal)) → surrogatesOkMembers (ofJMembers kvs) = true
  | [] => rfl
  | (k, v) :: kvs => by
    simp only [ofJMembers, surrogatesOkMembers, noLoneSurr_esb, ofJVal_surrogatesOk v,
      ofJMembers_surrogatesOk kvs, Bool.and_self]
end

/-! ### `-0` normalisation -/

theorem encodeNum_idem (lit : Bytes) : encodeNum (encodeNum lit) = encodeNum lit := by
  unfold encodeNum
  split
  · rfl
  · rename_i h; simp

mutual
theorem encode_normNums : (v : JVal) → encode v.normNums = encode v
  | .null => rfl
  | .bool _ => rfl
  | .num lit => by simp only [JVal.normNums, encode, encodeNum_idem]
  | .str _ => rfl
  | .arr xs => by simp only [JVal.normNums, encode, encodeList_normNums xs]
  | .obj kvs => by simp only [JVal.normNums, encode, encodeMembers_normNums kvs]
theorem encodeList_normNums : (xs : List JVal) → encodeList (normNumsList xs) = encodeList xs
  | [] => rfl
  | x :: xs => by simp only [normNumsList, encodeList, encode_normNums x, encodeList_normNums xs]
theorem encodeMembers_normNums : (kvs : List (Bytes × JVal)) → encodeMembers (normNumsMembers kvs) = encodeMembers kvs
  | [] => rfl
  | (k, v) :: kvs => by simp only [normNumsMembers, encodeMembers, encode_normNums v, encodeMembers_normNums kvs]
end

theorem normNumsMembers_eq_map (kvs : List (Bytes × JVal)) :
    normNumsMembers kvs = kvs.map (fun kv => (kv.1, kv.2.normNums)) := by
  induction kvs with
  | nil => rfl
  | cons x xs ih => obtain ⟨k, v⟩ := x; simp [normNumsMembers, ih]

mutual
/-- normalising numbers and sorting members commute -/
theorem sorted_normNums : (v : JVal) → v.normNums.sorted = v.sorted.normNums
  | .null => rfl
  | .bool _ => rfl
  | .num _ => rfl
  | .str _ => rfl
  | .arr xs => by simp only [JVal.normNums, JVal.sorted, sortedList_normNums xs]
  | .obj kvs => by
    simp only [JVal.normNums, JVal.sorted]
    rw [sortedMembers_normNums kvs, normNumsMembers_eq_map (sortByKey _),
      ← sortByKey_map (fun kv : Bytes × JVal => (kv.1, kv.2.normNums)) (fun _ => rfl),
      ← normNumsMembers_eq_map]
theorem sortedList_normNums : (xs : List JVal) → sortedList (normNumsList xs) = normNumsList (sortedList xs)
  | [] => rfl
  | x :: xs => by simp only [normNumsList, sortedList, sorted_normNums x, sortedList_normNums xs]
theorem sortedMembers_normNums : (kvs : List (Bytes × JVal)) →
    sortedMembers (normNumsMembers kvs) = normNumsMembers (sortedMembers kvs)
  | [] => rfl
  | (k, v) :: kvs => by
    simp only [normNumsMembers, sortedMembers, sorted_normNums v, sortedMembers_normNums kvs]
end

theorem encodeCanon_normNums (v : JVal) : encodeCanon v.normNums = encodeCanon v := by
  unfold encodeCanon
  rw [sorted_normNums, encode_normNums]

end V.Json
