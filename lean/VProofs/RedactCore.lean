/-
  VProofs.RedactCore — structure of `redactObj`'s output: which members it has, what a second
  redaction reads back from it.  Core Lean only.
-/
import VProofs.RedactLookup
namespace V.RedactProofs
open V V.Json V.GoJson V.Redact

/-! ## generic list facts -/

theorem foldl_filter {α β : Type} (p : α → Bool) (g : β → α → β) (l : List α) (init : β) :
    l.foldl (fun acc x => if p x then g acc x else acc) init = (l.filter p).foldl g init := by
  induction l generalizing init with
  | nil => rfl
  | cons x xs ih =>
    simp only [List.foldl_cons, List.filter_cons]
    cases h : p x <;> simp [ih]

theorem flatMap_congr' {α β : Type} (l : List α) (f g : α → List β) (h : ∀ x ∈ l, f x = g x) :
    l.flatMap f = l.flatMap g := by
  induction l with
  | nil => rfl
  | cons x xs ih =>
    simp only [List.flatMap_cons]
    rw [h x List.mem_cons_self, ih (fun y hy => h y (List.mem_cons_of_mem _ hy))]

theorem filter_eq_nil_of {α : Type} (p : α → Bool) (l : List α) (h : ∀ x ∈ l, p x = false) : l.filter p = [] := by
  induction l with
  | nil => rfl
  | cons x xs ih =>
    simp only [List.filter_cons, h x List.mem_cons_self]
    exact ih (fun y hy => h y (List.mem_cons_of_mem _ hy))

theorem filter_eq_self_of {α : Type} (p : α → Bool) (l : List α) (h : ∀ x ∈ l, p x = true) : l.filter p = l := by
  induction l with
  | nil => rfl
  | cons x xs ih =>
    simp only [List.filter_cons, h x List.mem_cons_self]
    simp [ih (fun y hy => h y (List.mem_cons_of_mem _ hy))]

/-! ## members selected by a field name -/

/-- the members encoding/json feeds to the field `name` -/
def sel (name : Bytes) (kvs : Obj) : Obj := kvs.filter (fun kv => matchesField kv.1 name)

theorem matchesField_self (n : Bytes) : matchesField n n = true := by
  simp [matchesField]

theorem matchesField_fold {k n : Bytes} (h : matchesField k n = true) : foldBytes k = foldBytes n := by
  simp only [matchesField, Bool.or_eq_true, beq_iff_eq] at h
  rcases h with h | h
  · rw [h]
  · exact h

theorem lastSome_filter (p : Bytes × JVal → Bool) (kvs : Obj) :
    lastSome p kvs = ((kvs.filter p).getLast?).map (·.2) := by
  induction kvs with
  | nil => rfl
  | cons kv rest ih =>
    rw [lastSome_cons, ih, List.filter_cons]
    cases hp : p kv
    · simp only [Bool.false_eq_true, if_false]
      cases (rest.filter p).getLast? <;> rfl
    · simp only [if_true, List.getLast?_cons]
      cases (rest.filter p).getLast? <;> rfl

theorem lookupField_sel (kvs : Obj) (name : Bytes) :
    lookupField kvs name = ((sel name kvs).getLast?).map (·.2) := by
  rw [lookupField_eq, lastSome_filter]; rfl

/-- the unconditional step of `decType` -/
def typeStep (acc : Dec Bytes) (kv : Bytes × JVal) : Dec Bytes :=
  match kv.2 with
  | .str s => ⟨s, acc.err⟩
  | .null => acc
  | _ => ⟨acc.val, true⟩

theorem decType_sel (name : Bytes) (kvs : Obj) :
    decType name kvs = (sel name kvs).foldl typeStep ⟨[], false⟩ := by
  unfold decType sel
  rw [← foldl_filter]
  rfl

def contentStep (acc : ContentDec) (kv : Bytes × JVal) : ContentDec :=
  match kv.2 with
  | .obj m => { val := some (mergeInto (acc.val.getD []) m), err := acc.err, cls := acc.cls.worst (floatScanMembers m) }
  | .null => { acc with val := none }
  | _ => { acc with err := true }

theorem decContent_sel (name : Bytes) (kvs : Obj) :
    decContent name kvs = (sel name kvs).foldl contentStep {} := by
  unfold decContent sel
  rw [← foldl_filter]
  rfl

/-! ## the output of a redaction -/

theorem emitField_name {kvs : Obj} {ty : Bytes} {nc : Option Obj} {f : Field} {kv : Bytes × JVal}
    (h : kv ∈ emitField kvs ty nc f) : kv.1 = f.name := by
  unfold emitField at h
  split at h
  · split at h <;> simp_all
  · split at h
    · split at h <;> simp_all
    · split at h <;> simp_all
  · split at h <;> simp_all
  · simp at h

/-- folded names of a field list are pairwise different -/
def foldDistinct (fs : List Field) : Bool := noDupIn (fs.map (fun f => foldBytes f.name))

theorem noDupIn_cons {k : Bytes} {ks : List Bytes} (h : noDupIn (k :: ks) = true) : k ∉ ks ∧ noDupIn ks = true := by
  simp only [noDupIn, Bool.and_eq_true, Bool.not_eq_true', List.contains_eq_mem, decide_eq_false_iff_not] at h
  exact h

/-- In the output of a redaction, the members a field name selects are exactly those the field emitted. -/
theorem sel_flatMap_emit (E : Field → Obj) (hE : ∀ g, ∀ kv ∈ E g, kv.1 = g.name)
    (fs : List Field) (hd : foldDistinct fs = true) (f : Field) (hf : f ∈ fs) :
    sel f.name (fs.flatMap E) = E f := by
  induction fs with
  | nil => cases hf
  | cons g gs ih =>
    have hd' : noDupIn (foldBytes g.name :: gs.map (fun f => foldBytes f.name)) = true := hd
    have hc := noDupIn_cons hd'
    simp only [List.flatMap_cons, sel, List.filter_append]
    rcases List.mem_cons.mp hf with rfl | hmem
    · -- f is the head: the tail contributes nothing
      have htail : (gs.flatMap E).filter (fun kv => matchesField kv.1 f.name) = [] := by
        apply filter_eq_nil_of
        intro kv hkv
        rcases List.mem_flatMap.mp hkv with ⟨g', hg', hkv'⟩
        have hn := hE g' kv hkv'
        cases hm : matchesField kv.1 f.name
        · rfl
        · exfalso
          apply hc.1
          have := matchesField_fold hm
          rw [hn] at this
          rw [← this]
          exact List.mem_map.mpr ⟨g', hg', rfl⟩
      rw [htail, List.append_nil]
      apply filter_eq_self_of
      intro kv hkv
      rw [hE f kv hkv]
      exact matchesField_self _
    · -- f is in the tail: the head contributes nothing
      have hhead : (E g).filter (fun kv => matchesField kv.1 f.name) = [] := by
        apply filter_eq_nil_of
        intro kv hkv
        have hn := hE g kv hkv
        cases hm : matchesField kv.1 f.name
        · rfl
        · exfalso
          apply hc.1
          have := matchesField_fold hm
          rw [hn] at this
          rw [this]
          exact List.mem_map.mpr ⟨f, hmem, rfl⟩
      rw [hhead, List.nil_append]
      exact ih hc.2 hmem

/-- a name whose folding differs from every field's selects nothing from the output -/
theorem sel_flatMap_emit_other (E : Field → Obj) (hE : ∀ g, ∀ kv ∈ E g, kv.1 = g.name)
    (fs : List Field) (n : Bytes) (hn : ∀ g ∈ fs, foldBytes g.name ≠ foldBytes n) :
    sel n (fs.flatMap E) = [] := by
  apply filter_eq_nil_of
  intro kv hkv
  rcases List.mem_flatMap.mp hkv with ⟨g, hg, hkv'⟩
  cases hm : matchesField kv.1 n
  · rfl
  · exfalso
    have := matchesField_fold hm
    rw [hE g kv hkv'] at this
    exact hn g hg this

end V.RedactProofs
