/-
  The deprecated entry points `ResolveStateConflictsV2` (`resolveV2Old`) and `ResolveConflicts` (`resolveConflictsOld`):
  well-formedness of the result and order independence, by the same route as for `resolveV2New` (StateResFlow.lean).
  Core only.
-/
import VProofs.StateResFlow
import VProofs.StateResV1g
namespace V.StateRes
open V Json GoJson Auth List

/-! ## the old auth difference depends on the maps only as sets / through lookups -/

/-- `authSets[id]` of the old routine -/
def oldAuthSet (authMap confMap : List Event) (id : ID) : Option (List ID) :=
  match findByID confMap id with
  | none => none
  | some c =>
    let ch := authClosure authMap (authMap.length + 1) [c] []
    if ch.isEmpty then none else some ch

def oldInDiff (authMap confMap : List Event) (a : Event) : Bool :=
  match oldAuthSet authMap confMap a.eventID with
  | none => false
  | some ch => !(ch.all (fun k => match oldAuthSet authMap confMap k with
      | none => false
      | some chk => chk.contains k))

theorem authDifferenceOld_eq (authMap confMap : List Event) :
    authDifferenceOld authMap confMap = authMap.filter (oldInDiff authMap confMap) := rfl

theorem oldAuthSet_mapEq {am am' cm cm' : List Event} (ha : MapEq am am') (hc : MapEq cm cm') (id : ID) :
    oldAuthSet am cm id = oldAuthSet am' cm' id := by
  unfold oldAuthSet
  rw [hc.2 id, ha.1]
  cases findByID cm' id with
  | none => rfl
  | some c => simp only [authClosure_mapEq ha]

theorem oldInDiff_mapEq {am am' cm cm' : List Event} (ha : MapEq am am') (hc : MapEq cm cm') (a : Event) :
    oldInDiff am cm a = oldInDiff am' cm' a := by
  have h : oldAuthSet am cm = oldAuthSet am' cm' := funext (oldAuthSet_mapEq ha hc)
  unfold oldInDiff; rw [h]

theorem authDifferenceOld_congr {am am' cm cm' : List Event} (hs : SameSet am am') (ha : MapEq am am') (hc : MapEq cm cm') :
    SameSet (authDifferenceOld am cm) (authDifferenceOld am' cm') := by
  intro x
  rw [authDifferenceOld_eq, authDifferenceOld_eq, List.mem_filter, List.mem_filter, hs x, oldInDiff_mapEq ha hc]

theorem mem_authDifferenceOld_sub {am cm : List Event} {e : Event} (h : e ∈ authDifferenceOld am cm) : e ∈ am := by
  rw [authDifferenceOld_eq] at h; exact (List.mem_filter.mp h).1

/-! ## `resolveV2Old` in stages -/

def prepOld (c u auth : List Event) : Prep :=
  mkPrep c u (eventMapFromEvents auth) none (authDifferenceOld (eventMapFromEvents auth) (eventMapFromEvents c))

/-- the resolved state of the deprecated resolver (`[]` when the auth events lack a create event) -/
def finalStateOld (c u auth : List Event) (rej : List ID) : State :=
  match getCreateEvent auth with
  | none => []
  | some _ => flowFrom (prepOld c u auth) rej (applyEvents [] u)

theorem createFor_none (s : State) : createFor none s = s.get b!"m.room.create" [] := by
  unfold createFor; cases s.get b!"m.room.create" [] <;> rfl

theorem resolveV2Old_result (c u auth : List Event) (rej : List ID) :
    resolveV2Old c u auth rej = (finalStateOld c u auth rej).map (·.2.eventID) := by
  unfold resolveV2Old finalStateOld
  cases getCreateEvent auth with
  | none => rfl
  | some ce =>
    simp only [flowFrom, stateS3From, othersOrderFrom, stateS2From, controlOrderFrom, prepOld, mkPrep, createFor_none]
    rfl

/-! ## well-formedness -/

theorem finalStateOld_wf (c u auth : List Event) (rej : List ID) : StateWF (finalStateOld c u auth rej) := by
  unfold finalStateOld
  split
  · exact stateWF_nil
  · exact flowFrom_wf _ _ (stateWF_nil.applyEvents _)

theorem mem_finalStateOld {c u auth : List Event} {rej : List ID} {x} (h : x ∈ finalStateOld c u auth rej) :
    x.2 ∈ c ∨ x.2 ∈ u ∨ x.2 ∈ auth := by
  unfold finalStateOld at h
  split at h
  · cases h
  · have hd : ∀ e, e ∈ c ∨ e ∈ authDifferenceOld (eventMapFromEvents auth) (eventMapFromEvents c) → e ∈ c ∨ e ∈ u ∨ e ∈ auth := by
      rintro e (he | he)
      · exact Or.inl he
      · exact Or.inr (Or.inr (mem_eventMap (mem_authDifferenceOld_sub he)))
    rcases mem_flowFrom h with h' | h' | h' | h'
    · rcases mem_applyEvents h' with h'' | h''
      · cases h''
      · exact Or.inr (Or.inl h'')
    · exact Or.inr (Or.inl h')
    · exact hd _ (mkPrep_control_sub h')
    · exact hd _ (mkPrep_others_sub h')

theorem finalStateOld_keeps_unconflicted (c : List Event) {u auth : List Event} (rej : List ID) (hd : DistinctSlots u)
    (hcr : (getCreateEvent auth).isSome) {e : Event} (he : e ∈ u) (hk : e.stateKey.isSome) :
    (keyOf e, e) ∈ finalStateOld c u auth rej := by
  unfold finalStateOld
  cases h : getCreateEvent auth with
  | none => rw [h] at hcr; cases hcr
  | some ce => exact flowFrom_keeps_unconflicted (prepOld c u auth) rej _ hd he hk

/-! ## order independence -/

theorem getCreateEvent_isSome_congr {l l' : List Event} (h : SameSet l l') :
    (getCreateEvent l).isSome = (getCreateEvent l').isSome := by
  unfold getCreateEvent
  rw [Bool.eq_iff_iff]
  simp only [List.find?_isSome, h _]

/-- **`ResolveStateConflictsV2` is order independent**: conflicted events as a set, unconflicted events (distinct slots) in
    any order, auth events as a set. -/
theorem finalStateOld_perm_invariant {U : Event → Prop} (hU : EvId U) {c c' u u' auth auth' : List Event}
    (hcU : ∀ x ∈ c, U x) (hcU' : ∀ x ∈ c', U x) (huU : ∀ x ∈ u, U x) (haU : ∀ x ∈ auth, U x)
    (hc : SameSet c c') (hu : u ~ u') (hd : DistinctSlots u) (ha : SameSet auth auth') (rej : List ID) :
    finalStateOld c u auth rej ~ finalStateOld c' u' auth' rej := by
  have huU' : ∀ x ∈ u', U x := fun x hx => huU x (hu.mem_iff.mpr hx)
  have haU' : ∀ x ∈ auth', U x := fun x hx => haU x ((ha x).mpr hx)
  have hamU : ∀ x ∈ eventMapFromEvents auth, U x := fun x hx => haU x (mem_eventMap hx)
  have hamU' : ∀ x ∈ eventMapFromEvents auth', U x := fun x hx => haU' x (mem_eventMap hx)
  have ham : MapEq (eventMapFromEvents auth) (eventMapFromEvents auth') := eventMap_mapEq hU haU haU' ha
  have hams : SameSet (eventMapFromEvents auth) (eventMapFromEvents auth') :=
    (eventMap_sameSet (hU.mono haU)).trans (ha.trans (eventMap_sameSet (hU.mono haU')).symm)
  have hcm : MapEq (eventMapFromEvents c) (eventMapFromEvents c') := eventMap_mapEq hU hcU hcU' hc
  have hdiff := authDifferenceOld_congr hams ham hcm
  have hp : PrepSim U (prepOld c u auth) (prepOld c' u' auth') :=
    mkPrep_sim hU none hcU hcU' huU huU' (fun x hx => hamU x (mem_authDifferenceOld_sub hx))
      (fun x hx => hamU' x (mem_authDifferenceOld_sub hx)) hc hu hd ham hdiff
  have hs1 : StateEq (applyEvents [] u) (applyEvents [] u') := (StateEq.refl stateWF_nil).applyEvents_perm hu hd
  unfold finalStateOld
  have hcr := getCreateEvent_isSome_congr ha
  cases h1 : getCreateEvent auth with
  | none =>
    cases h2 : getCreateEvent auth' with
    | none => exact Perm.refl _
    | some x => rw [h1, h2] at hcr; cases hcr
  | some x =>
    cases h2 : getCreateEvent auth' with
    | none => rw [h1, h2] at hcr; cases hcr
    | some y => exact (flowFrom_sim hU hp rej hs1).perm

/-! ## the entry point `ResolveConflicts` -/

/-- for algorithm 1 the deprecated entry point is the current one run on the single state set `events` -/
theorem resolveConflictsOld_v1 (sha : ID → Bytes) (ver : Bytes) (events auth : List Event) (rej : List ID)
    {row : VGen.VersionRow} (hv : versionRow? ver = some row) (ha : row.stateResAlgorithm = 1) :
    resolveConflictsOld sha ver events auth rej = resolveConflictsNew sha ver [events] auth rej := by
  unfold resolveConflictsOld resolveConflictsNew
  rw [hv]
  simp only [ha, beq_self_eq_true, if_true]

theorem resolveConflictsOld_v2 (sha : ID → Bytes) (ver : Bytes) (events auth : List Event) (rej : List ID)
    {row : VGen.VersionRow} (hv : versionRow? ver = some row)
    (ha : row.stateResAlgorithm = 2 ∨ row.stateResAlgorithm = 3) :
    resolveConflictsOld sha ver events auth rej =
      some ((finalStateOld (splitConflictedUnconflicted true [events]).1 (splitConflictedUnconflicted true [events]).2 auth rej).map
        (·.2.eventID)) := by
  unfold resolveConflictsOld
  rw [hv]
  have h1 : (row.stateResAlgorithm == 1) = false := by
    rcases ha with h | h <;> simp [h]
  have h2 : (row.stateResAlgorithm == 2 || row.stateResAlgorithm == 3) = true := by
    rcases ha with h | h <;> simp [h]
  simp only [h1, h2, Bool.false_eq_true, if_false, if_true, resolveV2Old_result]

theorem resolveConflictsOld_other (sha : ID → Bytes) (ver : Bytes) (events auth : List Event) (rej : List ID)
    (h : ∀ row, versionRow? ver = some row →
      ¬ (row.stateResAlgorithm = 1 ∨ row.stateResAlgorithm = 2 ∨ row.stateResAlgorithm = 3)) :
    resolveConflictsOld sha ver events auth rej = none := by
  unfold resolveConflictsOld
  cases hv : versionRow? ver with
  | none => rfl
  | some row =>
    have := h row hv
    simp only [not_or] at this
    have h1 : (row.stateResAlgorithm == 1) = false := by simpa using this.1
    have h2 : (row.stateResAlgorithm == 2) = false := by simpa using this.2.1
    have h3 : (row.stateResAlgorithm == 3) = false := by simpa using this.2.2
    simp [h1, h2, h3]

theorem setsEquiv_singleton {a b : List Event} (h : a ~ b) : SetsEquiv [a] [b] :=
  ⟨[a], Perm.refl _, .cons h .nil⟩

/-- the v2 / v2.1 answer of the deprecated entry point for two orderings of the events and two presentations of the auth events -/
theorem finalStateOld_entry_perm_invariant {U : Event → Prop} (hU : EvId U) {events events' auth auth' : List Event}
    (heU : ∀ x ∈ events, U x) (haU : ∀ x ∈ auth, U x) (he : events ~ events') (ha : SameSet auth auth') (rej : List ID) :
    finalStateOld (splitConflictedUnconflicted true [events]).1 (splitConflictedUnconflicted true [events]).2 auth rej ~
      finalStateOld (splitConflictedUnconflicted true [events']).1 (splitConflictedUnconflicted true [events']).2 auth' rej := by
  have hsU : ∀ s ∈ [events], ∀ x ∈ s, U x := by
    intro s hs x hx; simp only [List.mem_singleton] at hs; subst hs; exact heU x hx
  have hsU' : ∀ s ∈ [events'], ∀ x ∈ s, U x := by
    intro s hs x hx; simp only [List.mem_singleton] at hs; subst hs; exact heU x (he.mem_iff.mpr hx)
  obtain ⟨hc, _⟩ := split_perm_invariant hU true hsU (setsEquiv_singleton he)
  obtain ⟨_, hup⟩ := split_perm_invariant_perm hU true hsU (setsEquiv_singleton he)
  have sub : ∀ {ev : List Event} (_ : ∀ s ∈ [ev], ∀ x ∈ s, U x) {x : Event},
      x ∈ (splitConflictedUnconflicted true [ev]).1 ∨ x ∈ (splitConflictedUnconflicted true [ev]).2 → U x := by
    intro ev hev x hx
    have := (split_sub true [ev] hx).1
    simp only [List.flatten_cons, List.flatten_nil, List.append_nil] at this
    exact hev ev (List.mem_singleton.mpr rfl) x this
  exact finalStateOld_perm_invariant hU (fun x hx => sub hsU (Or.inl hx)) (fun x hx => sub hsU' (Or.inl hx))
    (fun x hx => sub hsU (Or.inr hx)) haU hc hup (distinctSlots_of_keys (split_unconflicted_keys true [events])) ha rej

end V.StateRes
