/-
  C10 stage 3: `authDifferenceNew` computes the auth difference (⋃ chains \ ⋂ chains) and, for algorithm 3 (v2.1),
  additionally the conflicted subgraph, as DEFINED through reachability in the auth map.  Core only.
-/
import VProofs.StateResSpecClosure
namespace V.StateResSpec
open V Json List
open V.StateRes

/-! ## the ID-level pieces of `authDifferenceNew` -/

def chainsOf (m : List Event) (sets : List (List Event)) : List (List ID) := sets.map (fullAuthChain m)

def diffIDs (m : List Event) (sets : List (List Event)) : List ID :=
  let chains := chainsOf m sets
  let union := chains.foldl unionIDs []
  let inter := match chains with
    | [] => []
    | c :: cs => c.filter (fun id => cs.all (fun d => d.contains id))
  union.filter (fun id => !inter.contains id)

def subIDs (algo : Nat) (m : List Event) (conflicted : List Event) (sets : List (List Event)) : List ID :=
  if algo == 3 then (sets.map (conflictedSubgraph m (conflicted.map (·.eventID)))).foldl unionIDs [] else []

def resolveID (m conflicted : List Event) (id : ID) : Option Event :=
  match findByID m id with
  | some e => some e
  | none => findByID conflicted id

theorem authDifferenceNew_eq (algo : Nat) (m conflicted : List Event) (sets : List (List Event)) :
    authDifferenceNew algo m conflicted sets =
      (unionIDs (diffIDs m sets) (subIDs algo m conflicted sets)).filterMap (resolveID m conflicted) := rfl

theorem mem_diffIDs {m : List Event} {sets : List (List Event)} {id : ID} :
    id ∈ diffIDs m sets ↔ (∃ S ∈ sets, id ∈ fullAuthChain m S) ∧ ∃ S ∈ sets, id ∉ fullAuthChain m S := by
  unfold diffIDs chainsOf
  simp only [List.mem_filter, mem_foldl_unionIDs, List.not_mem_nil, false_or, List.mem_map,
    Bool.not_eq_eq_eq_not, Bool.not_true, List.contains_eq_mem, decide_eq_false_iff_not]
  have hU : (∃ l, (∃ S ∈ sets, fullAuthChain m S = l) ∧ id ∈ l) ↔ ∃ S ∈ sets, id ∈ fullAuthChain m S := by
    constructor
    · rintro ⟨l, ⟨S, hS, rfl⟩, h⟩; exact ⟨S, hS, h⟩
    · rintro ⟨S, hS, h⟩; exact ⟨_, ⟨S, hS, rfl⟩, h⟩
  rw [hU]
  cases sets with
  | nil => simp
  | cons S0 rest =>
    simp only [List.map_cons, List.mem_filter, List.all_eq_true, List.mem_map,
      decide_eq_true_eq, forall_exists_index, and_imp, forall_apply_eq_imp_iff₂, List.mem_cons, exists_eq_or_imp,
      not_and]
    constructor
    · rintro ⟨hu, hn⟩
      refine ⟨hu, ?_⟩
      by_cases h0 : id ∈ fullAuthChain m S0
      · right
        apply Classical.byContradiction
        intro hno
        apply hn h0
        intro S hS
        apply Classical.byContradiction
        intro hS'
        exact hno ⟨S, hS, hS'⟩
      · exact Or.inl h0
    · rintro ⟨hu, hn⟩
      refine ⟨hu, ?_⟩
      intro h0 hall
      rcases hn with hn | ⟨S, hS, hn⟩
      · exact hn h0
      · exact hn (hall S hS)

/-- an ID of a chain is the ID of exactly one event of the auth map -/
theorem chain_event {m : List Event} (hm : IdNodup m) {S : List Event} {y : Event} (hy : y ∈ m) :
    y.eventID ∈ fullAuthChain m S ↔ InAuthChain (· ∈ m) S y := by
  rw [mem_fullAuthChain_iff hm]
  constructor
  · rintro ⟨y', hid, hc⟩
    obtain ⟨s, hs, hr⟩ := hc
    have : y' = y := hm.idsIn y' y hr.target hy hid
    exact this ▸ ⟨s, hs, hr⟩
  · intro h; exact ⟨y, rfl, h⟩

theorem diffIDs_event {m : List Event} (hm : IdNodup m) {sets : List (List Event)} {id : ID} :
    id ∈ diffIDs m sets ↔ ∃ y, y ∈ m ∧ y.eventID = id ∧ AuthDifference (· ∈ m) sets y := by
  rw [mem_diffIDs]
  unfold AuthDifference
  constructor
  · rintro ⟨⟨S, hS, h1⟩, S', hS', h2⟩
    obtain ⟨y, hid, hc⟩ := (mem_fullAuthChain_iff hm S id).mp h1
    have hy : y ∈ m := by obtain ⟨s, _, hr⟩ := hc; exact hr.target
    refine ⟨y, hy, hid, ⟨S, hS, hc⟩, S', hS', ?_⟩
    intro hc'
    apply h2
    rw [← hid]; exact (chain_event hm hy).mpr hc'
  · rintro ⟨y, hy, rfl, ⟨S, hS, h1⟩, S', hS', h2⟩
    exact ⟨⟨S, hS, (chain_event hm hy).mpr h1⟩, S', hS', fun h => h2 ((chain_event hm hy).mp h)⟩

/-- **Stage 3 (algorithm 2).** The events returned are exactly the auth difference ⋃ chains \ ⋂ chains. -/
theorem authDifference_eq_spec {m : List Event} (hm : IdNodup m) (conflicted : List Event) (sets : List (List Event))
    (y : Event) : y ∈ authDifferenceNew 2 m conflicted sets ↔ AuthDifference (· ∈ m) sets y := by
  rw [authDifferenceNew_eq]
  have hsub : subIDs 2 m conflicted sets = [] := rfl
  rw [hsub, List.mem_filterMap]
  constructor
  · rintro ⟨id, hid, hres⟩
    rw [mem_unionIDs] at hid
    rcases hid with hid | hid
    · obtain ⟨y', hy', rfl, hd⟩ := (diffIDs_event hm).mp hid
      unfold resolveID at hres
      rw [findByID_of_mem hm.idsIn hy'] at hres
      cases hres; exact hd
    · cases hid
  · intro hd
    have hy : y ∈ m := by
      obtain ⟨⟨S, _, s, _, hr⟩, _⟩ := hd; exact hr.target
    refine ⟨y.eventID, mem_unionIDs.mpr (Or.inl ((diffIDs_event hm).mpr ⟨y, hy, rfl, hd⟩)), ?_⟩
    unfold resolveID
    rw [findByID_of_mem hm.idsIn hy]

/-! ## the conflicted subgraph (v2.1) -/

/-- per state set, ID level, with conflicted-ness decided by the ID list `cids` -/
def SubgraphOf (m : List Event) (cids : List ID) (S : List Event) (x : Event) : Prop :=
  ∃ o ∈ S, o.eventID ∈ cids ∧ Reach (· ∈ m) o x ∧ ∃ c, c.eventID ∈ cids ∧ Reach (· ∈ m) x c

theorem reachFrom_any {m : List Event} (hm : IdNodup m) (cids : List ID) (x : Event) :
    (reachFrom m x).any (fun id => cids.contains id) = true ↔ ∃ c, c.eventID ∈ cids ∧ Reach (· ∈ m) x c := by
  rw [List.any_eq_true]
  constructor
  · rintro ⟨id, hid, hc⟩
    obtain ⟨y, hy, hr⟩ := (mem_reachFrom_iff hm x id).mp hid
    exact ⟨y, by rw [hy]; simpa using hc, hr⟩
  · rintro ⟨c, hc, hr⟩
    exact ⟨c.eventID, (mem_reachFrom_iff hm x _).mpr ⟨c, rfl, hr⟩, by simpa using hc⟩

theorem Reach.source_or_mem {P : Event → Prop} {x y : Event} (h : Reach P x y) : y = x ∨ P y := by
  rcases h with h | h
  · exact Or.inl h.symm
  · exact Or.inr h.target

theorem mem_conflictedSubgraph {U : Event → Prop} (hU : IDsIdentify U) {m : List Event} (hm : IdNodup m)
    (hmU : ∀ x ∈ m, U x) {S : List Event} (hSU : ∀ x ∈ S, U x) (cids : List ID) (id : ID) :
    id ∈ conflictedSubgraph m cids S ↔ ∃ x, x.eventID = id ∧ SubgraphOf m cids S x := by
  unfold conflictedSubgraph SubgraphOf
  simp only [List.mem_map, List.mem_filter]
  -- the candidates are exactly the events reachable (reflexively) from a conflicted origin
  have hcand : ∀ x, x ∈ eventMapFromEvents (S.filter (fun e => cids.contains e.eventID) ++
        (((S.filter (fun e => cids.contains e.eventID)).map (reachFrom m)).flatten.filterMap (findByID m))) ↔
      ∃ o ∈ S, o.eventID ∈ cids ∧ Reach (· ∈ m) o x := by
    intro x
    have hlistU : ∀ z ∈ S.filter (fun e => cids.contains e.eventID) ++
        (((S.filter (fun e => cids.contains e.eventID)).map (reachFrom m)).flatten.filterMap (findByID m)), U z := by
      intro z hz
      rcases List.mem_append.mp hz with h | h
      · exact hSU z (List.mem_filter.mp h).1
      · obtain ⟨_, _, hf⟩ := List.mem_filterMap.mp h
        exact hmU z (findByID_some hf).1
    rw [(eventMap_sameSet (fun a b ha hb => hU a b (hlistU a ha) (hlistU b hb))) x, List.mem_append]
    constructor
    · rintro (h | h)
      · obtain ⟨h1, h2⟩ := List.mem_filter.mp h
        exact ⟨x, h1, by simpa using h2, Or.inl rfl⟩
      · obtain ⟨id', hid', hf⟩ := List.mem_filterMap.mp h
        obtain ⟨l, hl, hid''⟩ := List.mem_flatten.mp hid'
        obtain ⟨o, ho, rfl⟩ := List.mem_map.mp hl
        obtain ⟨ho1, ho2⟩ := List.mem_filter.mp ho
        obtain ⟨hxm, hxid⟩ := findByID_some hf
        obtain ⟨y, hy, hr⟩ := (mem_reachFrom_iff hm o id').mp hid''
        refine ⟨o, ho1, by simpa using ho2, ?_⟩
        have : y = x := by
          rcases hr.source_or_mem with h | h
          · exact hU y x (h ▸ hSU o ho1) (hmU x hxm) (hy.trans hxid.symm)
          · exact hU y x (hmU y h) (hmU x hxm) (hy.trans hxid.symm)
        exact this ▸ hr
    · rintro ⟨o, ho, hoc, hr⟩
      have horig : o ∈ S.filter (fun e => cids.contains e.eventID) := List.mem_filter.mpr ⟨ho, by simpa using hoc⟩
      rcases hr with h | h
      · left; exact h ▸ horig
      · right
        refine List.mem_filterMap.mpr ⟨x.eventID, ?_, findByID_of_mem hm.idsIn h.target⟩
        exact List.mem_flatten.mpr ⟨_, List.mem_map_of_mem horig,
          (mem_reachFrom_iff hm o _).mpr ⟨x, rfl, Or.inr h⟩⟩
  constructor
  · rintro ⟨x, ⟨hx, hany⟩, rfl⟩
    obtain ⟨o, ho, hoc, hr⟩ := (hcand x).mp hx
    exact ⟨x, rfl, o, ho, hoc, hr, (reachFrom_any hm cids x).mp hany⟩
  · rintro ⟨x, rfl, o, ho, hoc, hr, hc⟩
    exact ⟨x, ⟨(hcand x).mpr ⟨o, ho, hoc, hr⟩, (reachFrom_any hm cids x).mpr hc⟩, rfl⟩

theorem subgraphOf_iff {m conflicted : List Event} {sets : List (List Event)} {x : Event} :
    (∃ S ∈ sets, SubgraphOf m (conflicted.map (·.eventID)) S x) ↔
      ConflictedSubgraph (· ∈ m) (· ∈ conflicted) sets x := by
  unfold SubgraphOf ConflictedSubgraph
  have hc : ∀ z : Event, z.eventID ∈ conflicted.map (·.eventID) ↔ ∃ c, c ∈ conflicted ∧ c.eventID = z.eventID := by
    intro z; simp [List.mem_map]
  constructor
  · rintro ⟨S, hS, o, ho, hoc, hr, c, hcc, hr'⟩
    exact ⟨S, hS, o, ho, (hc o).mp hoc, hr, c, (hc c).mp hcc, hr'⟩
  · rintro ⟨S, hS, o, ho, hoc, hr, c, hcc, hr'⟩
    exact ⟨S, hS, o, ho, (hc o).mpr hoc, hr, c, (hc c).mpr hcc, hr'⟩

/-- **Stage 3 (v2.1 subgraph, ID level).** -/
theorem subgraph_eq_spec {U : Event → Prop} (hU : IDsIdentify U) {m : List Event} (hm : IdNodup m)
    (hmU : ∀ x ∈ m, U x) {sets : List (List Event)} (hSU : ∀ S ∈ sets, ∀ x ∈ S, U x) (conflicted : List Event) (id : ID) :
    id ∈ subIDs 3 m conflicted sets ↔
      ∃ x, x.eventID = id ∧ ConflictedSubgraph (· ∈ m) (· ∈ conflicted) sets x := by
  have : subIDs 3 m conflicted sets =
      (sets.map (conflictedSubgraph m (conflicted.map (·.eventID)))).foldl unionIDs [] := rfl
  rw [this, mem_foldl_unionIDs]
  simp only [List.not_mem_nil, false_or, List.mem_map]
  constructor
  · rintro ⟨l, ⟨S, hS, rfl⟩, hid⟩
    obtain ⟨x, hx, hsub⟩ := (mem_conflictedSubgraph hU hm hmU (hSU S hS) _ id).mp hid
    exact ⟨x, hx, subgraphOf_iff.mp ⟨S, hS, hsub⟩⟩
  · rintro ⟨x, hx, hsub⟩
    obtain ⟨S, hS, hs⟩ := subgraphOf_iff.mpr hsub
    exact ⟨_, ⟨S, hS, rfl⟩, (mem_conflictedSubgraph hU hm hmU (hSU S hS) _ id).mpr ⟨x, hx, hs⟩⟩

/-- an event of the subgraph is a conflicted origin or an event of the auth map -/
theorem ConflictedSubgraph.cases {m conflicted : List Event} {sets : List (List Event)} {x : Event}
    (h : ConflictedSubgraph (· ∈ m) (· ∈ conflicted) sets x) :
    x ∈ m ∨ ((∃ S ∈ sets, x ∈ S) ∧ ∃ c ∈ conflicted, c.eventID = x.eventID) := by
  obtain ⟨S, hS, o, ho, hoc, hr, _⟩ := h
  rcases hr.source_or_mem with h | h
  · right; subst h; exact ⟨⟨S, hS, ho⟩, hoc⟩
  · exact Or.inl h

/-- **Stage 3 (algorithm 3 = v2.1).** The events returned are the auth difference together with the conflicted subgraph. -/
theorem authDifference21_eq_spec {U : Event → Prop} (hU : IDsIdentify U) {m : List Event} (hm : IdNodup m)
    (hmU : ∀ x ∈ m, U x) {sets : List (List Event)} (hSU : ∀ S ∈ sets, ∀ x ∈ S, U x) {conflicted : List Event}
    (hcU : ∀ x ∈ conflicted, U x) (y : Event) :
    y ∈ authDifferenceNew 3 m conflicted sets ↔
      AuthDifference (· ∈ m) sets y ∨ ConflictedSubgraph (· ∈ m) (· ∈ conflicted) sets y := by
  rw [authDifferenceNew_eq, List.mem_filterMap]
  have hres : ∀ id z, resolveID m conflicted id = some z → z.eventID = id ∧ (z ∈ m ∨ z ∈ conflicted) := by
    intro id z h
    unfold resolveID at h
    cases hf : findByID m id with
    | some e =>
      rw [hf] at h; cases h
      exact ⟨(findByID_some hf).2, Or.inl (findByID_some hf).1⟩
    | none =>
      rw [hf] at h
      exact ⟨(findByID_some h).2, Or.inr (findByID_some h).1⟩
  constructor
  · rintro ⟨id, hid, hr⟩
    rw [mem_unionIDs] at hid
    rcases hid with hid | hid
    · left
      obtain ⟨y', hy', rfl, hd⟩ := (diffIDs_event hm).mp hid
      unfold resolveID at hr
      rw [findByID_of_mem hm.idsIn hy'] at hr
      cases hr; exact hd
    · right
      obtain ⟨x, hx, hsub⟩ := (subgraph_eq_spec hU hm hmU hSU conflicted id).mp hid
      obtain ⟨hyid, hy⟩ := hres id y hr
      have hxU : U x := by
        rcases hsub.cases with h | ⟨⟨S, hS, h⟩, _⟩
        · exact hmU x h
        · exact hSU S hS x h
      have hyU : U y := by
        rcases hy with h | h
        · exact hmU y h
        · exact hcU y h
      have : x = y := hU x y hxU hyU (hx.trans hyid.symm)
      exact this ▸ hsub
  · rintro (hd | hsub)
    · have hy : y ∈ m := by
        obtain ⟨⟨S, _, s, _, hr⟩, _⟩ := hd; exact hr.target
      refine ⟨y.eventID, mem_unionIDs.mpr (Or.inl ((diffIDs_event hm).mpr ⟨y, hy, rfl, hd⟩)), ?_⟩
      unfold resolveID
      rw [findByID_of_mem hm.idsIn hy]
    · refine ⟨y.eventID, mem_unionIDs.mpr (Or.inr ((subgraph_eq_spec hU hm hmU hSU conflicted _).mpr ⟨y, rfl, hsub⟩)), ?_⟩
      unfold resolveID
      rcases hsub.cases with h | ⟨⟨S, hS, h⟩, c, hc, hcid⟩
      · rw [findByID_of_mem hm.idsIn h]
      · cases hf : findByID m y.eventID with
        | some e =>
          obtain ⟨he, heid⟩ := findByID_some hf
          have : e = y := hU e y (hmU e he) (hSU S hS y h) heid
          simp [this]
        | none =>
          simp only
          have hcy : c = y := hU c y (hcU c hc) (hSU S hS y h) hcid
          subst hcy
          exact findByID_of_mem (fun a b ha hb => hU a b (hcU a ha) (hcU b hb)) hc

end V.StateResSpec
