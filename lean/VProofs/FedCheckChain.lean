/-
  VProofs.FedCheckChain — VerifyEventAuthChain against a table provider: the depth-first stack loop verifies
  exactly the events reachable from the root through resolvable auth event IDs.
-/
import VProofs.FedCheck
namespace V.FedCheck
open V V.FedCheck.Spec

section
variable {P : Type} (O : Oracles P) (root : Event) (table : Bytes → Option Event) (errs : Bytes → Bool)

theorem tableProvider_single (id : Bytes) :
    tableProvider table errs [id] = if errs id then .error else .events (match table id with
      | some e => [e]
      | none => []) := by
  unfold tableProvider
  cases he : errs id <;> cases ht : table id <;> simp [he, ht]

theorem provided_table (id : Bytes) :
    provided (some (tableProvider table errs)) id =
      if errs id then none else match table id with
        | some e => if e.stateKey.isSome then some e else none
        | none => none := by
  unfold provided
  simp only [tableProvider_single]
  cases he : errs id <;> cases ht : table id <;> simp

theorem tableProvider_ok (htable : ∀ id e, table id = some e → e.eventID = id) : ProvOK (some (tableProvider table errs)) := by
  intro p hp id
  cases hp
  rw [tableProvider_single]
  cases he : errs id
  · cases ht : table id with
    | none => right; left; simp
    | some e => right; right; exact ⟨e, by simp, htable id e ht⟩
  · left; simp

/-- resolved events carry the ID they were asked under -/
theorem chainResolve_id (htable : ∀ id e, table id = some e → e.eventID = id) {id : Bytes} {a : Event}
    (h : chainResolve root table id = some a) : a.eventID = id := by
  unfold chainResolve at h
  split at h
  · rename_i hr
    cases h
    exact (by simpa using hr : id = root.eventID).symm
  · exact htable id a h

theorem chainResolve_self (htable : ∀ id e, table id = some e → e.eventID = id) {id : Bytes} {a : Event}
    (h : chainResolve root table id = some a) : chainResolve root table a.eventID = some a := by
  rw [chainResolve_id root table htable h]; exact h

/-! ### putAll -/

theorem putAll_lookup_other (es : List Event) (m : IdMap) (id : Bytes) (h : ∀ e ∈ es, e.eventID ≠ id) :
    (putAll es m).lookup id = m.lookup id := by
  induction es generalizing m with
  | nil => rfl
  | cons x xs ih =>
    unfold putAll
    rw [ih _ (fun e he => h e (List.mem_cons_of_mem _ he))]
    exact lookup_cons_ne _ _ (fun h' => h x List.mem_cons_self h'.symm)

theorem putAll_lookup_mem (es : List Event) (m : IdMap) (id : Bytes) (e : Event) (he : e ∈ es) (hid : e.eventID = id)
    (huniq : ∀ e' ∈ es, e'.eventID = id → e' = e) : (putAll es m).lookup id = some (some e) := by
  induction es generalizing m with
  | nil => cases he
  | cons x xs ih =>
    unfold putAll
    by_cases hx : e ∈ xs
    · exact ih _ hx (fun e' he' => huniq e' (List.mem_cons_of_mem _ he'))
    · have hex : e = x := by
        rcases List.mem_cons.mp he with h | h
        · exact h
        · exact absurd h hx
      subst hex
      rw [putAll_lookup_other xs _ id (fun e' he' hid' => hx (huniq e' (List.mem_cons_of_mem _ he') hid' ▸ he'))]
      rw [← hid]
      exact lookup_cons_self _ _ _

/-! ### the loop invariant -/

structure ChainInv (st : ChainSt) : Prop where
  rootIn : st.m.lookup root.eventID = some (some root)
  mapOK : ∀ id e, st.m.lookup id = some (some e) → chainResolve root table id = some e ∧ (id = root.eventID ∨ errs id = false)
  pending : ∀ id e, st.m.lookup id = some (some e) → e.eventID ∈ st.verified ∨ e ∈ st.stack
  stackOK : ∀ e ∈ st.stack, chainResolve root table e.eventID = some e ∧ Reach root table e
  verifiedOK : ∀ id ∈ st.verified, ∃ e, chainResolve root table id = some e ∧ chainGood O root table errs e = true ∧
    ∀ aid ∈ e.authEventIDs, ∀ a, chainResolve root table aid = some a → a.eventID ∈ st.verified ∨ a ∈ st.stack
  rootSeen : root.eventID ∈ st.verified ∨ root ∈ st.stack

theorem chainInv_init : ChainInv O root table errs { stack := [root], m := [(root.eventID, some root)], verified := [] } := by
  have hres : chainResolve root table root.eventID = some root := by simp [chainResolve]
  refine { rootIn := lookup_cons_self _ _ _, mapOK := fun id e h => ?_, pending := fun id e h => ?_, stackOK := fun e he => ?_,
           verifiedOK := fun id h => ?_, rootSeen := Or.inr (List.mem_singleton.mpr rfl) }
  · by_cases hid : id = root.eventID
    · subst hid
      rw [lookup_cons_self] at h
      cases h
      exact ⟨hres, Or.inl rfl⟩
    · rw [lookup_cons_ne _ _ hid] at h
      cases h
  · by_cases hid : id = root.eventID
    · subst hid
      rw [lookup_cons_self] at h
      cases h
      exact Or.inr (by simp)
    · rw [lookup_cons_ne _ _ hid] at h
      cases h
  · have : e = root := by simpa using he
    subst this
    exact ⟨hres, Reach.root⟩
  · cases h

/-- the map after the batch fetch -/
theorem fetched_lookup (htable : ∀ id e, table id = some e → e.eventID = id) (m : IdMap) (need : List Bytes) (id : Bytes) :
    (putAll (need.filterMap table) m).lookup id =
      if id ∈ need then (match table id with
        | some e => some (some e)
        | none => m.lookup id) else m.lookup id := by
  have hmem : ∀ e, e ∈ need.filterMap table ↔ ∃ i ∈ need, table i = some e := fun e => List.mem_filterMap
  by_cases hin : id ∈ need
  · simp only [hin, if_true]
    cases ht : table id with
    | some e =>
      simp only
      apply putAll_lookup_mem _ _ _ e ((hmem e).mpr ⟨id, hin, ht⟩) (htable id e ht)
      intro e' he' hid'
      obtain ⟨i, _, hi⟩ := (hmem e').mp he'
      have : i = id := by rw [← htable i e' hi, hid']
      subst this
      rw [ht] at hi
      cases hi; rfl
    | none =>
      simp only
      apply putAll_lookup_other
      intro e he hid'
      obtain ⟨i, _, hi⟩ := (hmem e).mp he
      have : i = id := by rw [← htable i e hi, hid']
      subst this
      rw [ht] at hi
      cases hi
  · simp only [hin, if_false]
    apply putAll_lookup_other
    intro e he hid'
    obtain ⟨i, hi_in, hi⟩ := (hmem e).mp he
    have : i = id := by rw [← htable i e hi, hid']
    subst this
    exact hin hi_in

theorem foldl_accStep_congr_on (r1 r2 : Bytes → Option Event) (ids : List Bytes) (acc : P)
    (h : ∀ id ∈ ids, r1 id = r2 id) : ids.foldl (accStep O r1) acc = ids.foldl (accStep O r2) acc := by
  induction ids generalizing acc with
  | nil => rfl
  | cons id rest ih =>
    simp only [List.foldl_cons]
    have : accStep O r1 acc id = accStep O r2 acc id := by
      unfold accStep; rw [h id List.mem_cons_self]
    rw [this]
    exact ih _ (fun i hi => h i (List.mem_cons_of_mem _ hi))

theorem isNilIn_false {m : IdMap} {id : Bytes} (h : isNilIn m id = false) : ∃ e, m.lookup id = some (some e) := by
  unfold isNilIn at h
  split at h
  · rename_i e he; exact ⟨e, he⟩
  · cases h

theorem isNilIn_true {m : IdMap} {id : Bytes} (h : isNilIn m id = true) : m.lookup id = none ∨ m.lookup id = some none := by
  unfold isNilIn at h
  cases hl : m.lookup id with
  | none => exact Or.inl rfl
  | some v =>
    cases v with
    | none => exact Or.inr rfl
    | some e => simp [hl] at h

/-- how the auth event IDs of `curr` resolve in the map after a successful batch fetch -/
theorem resolved_after_fetch (htable : ∀ id e, table id = some e → e.eventID = id) (st : ChainSt) (hinv : ChainInv O root table errs st)
    (curr : Event) (hfetch : (needOf st.m curr).any errs = false) (id : Bytes) (hid : id ∈ curr.authEventIDs) :
    resM (some (tableProvider table errs)) (putAll ((needOf st.m curr).filterMap table) st.m) id = chainResolve root table id ∧
    badIn (putAll ((needOf st.m curr).filterMap table) st.m) id = (match chainResolve root table id with
      | some a => a.stateKey.isNone
      | none => false) ∧
    ((id == root.eventID) = true ∨ errs id = false) := by
  have hl := fetched_lookup table htable st.m (needOf st.m curr) id
  by_cases hn : isNilIn st.m id = true
  · have hin : id ∈ needOf st.m curr := by unfold needOf; exact List.mem_filter.mpr ⟨hid, hn⟩
    have hne : id ≠ root.eventID := by
      intro h
      subst h
      unfold isNilIn at hn
      rw [hinv.rootIn] at hn
      cases hn
    have herr : errs id = false := (List.any_eq_false.mp hfetch) id hin |> fun h => by simpa using h
    have hres : chainResolve root table id = table id := by
      unfold chainResolve
      have : (id == root.eventID) = false := by simpa using hne
      simp [this]
    simp only [hin, if_true] at hl
    rw [hres]
    unfold resM badIn
    rw [hl]
    cases ht : table id with
    | some e => exact ⟨rfl, rfl, Or.inr herr⟩
    | none =>
      simp only
      rcases isNilIn_true hn with h0 | h0
      · rw [h0]
        simp only
        rw [provided_table, ht]
        exact ⟨by simp [herr], trivial, Or.inr herr⟩
      · rw [h0]
        exact ⟨rfl, rfl, Or.inr herr⟩
  · have hn' : isNilIn st.m id = false := by simpa using hn
    obtain ⟨e, he⟩ := isNilIn_false hn'
    have hnin : id ∉ needOf st.m curr := by
      unfold needOf
      intro h
      have := (List.mem_filter.mp h).2
      rw [hn'] at this
      cases this
    simp only [hnin, if_false] at hl
    obtain ⟨hres, herr⟩ := hinv.mapOK id e he
    unfold resM badIn
    rw [hl, he, hres]
    refine ⟨rfl, rfl, ?_⟩
    rcases herr with h | h
    · left; simp [h]
    · right; exact h

/-- after a successful batch fetch, checkAllowedByAuthEvents accepts `curr` exactly when it is `chainGood` -/
theorem verdict_iff_chainGood (htable : ∀ id e, table id = some e → e.eventID = id) (st : ChainSt) (hinv : ChainInv O root table errs st)
    (curr : Event) (hfetch : (needOf st.m curr).any errs = false) :
    (caVerdict O (some (tableProvider table errs)) curr (putAll ((needOf st.m curr).filterMap table) st.m) = .ok ↔
      chainGood O root table errs curr = true) ∧
    caVerdict O (some (tableProvider table errs)) curr (putAll ((needOf st.m curr).filterMap table) st.m) ≠ .outOfFuel := by
  have hr := resolved_after_fetch O root table errs htable st hinv curr hfetch
  have hauth : authOf O (resM (some (tableProvider table errs)) (putAll ((needOf st.m curr).filterMap table) st.m)) curr
      = authOf O (chainResolve root table) curr := by
    unfold authOf
    exact foldl_accStep_congr_on O _ _ _ _ (fun id hid => (hr id hid).1)
  have hbad : curr.authEventIDs.any (badIn (putAll ((needOf st.m curr).filterMap table) st.m)) =
      !curr.authEventIDs.all (fun id => match chainResolve root table id with
        | some a => a.stateKey.isSome
        | none => true) := by
    rw [Bool.eq_iff_iff]
    simp only [List.any_eq_true, Bool.not_eq_true', List.all_eq_false]
    constructor
    · rintro ⟨id, hid, hb⟩
      refine ⟨id, hid, ?_⟩
      rw [(hr id hid).2.1] at hb
      cases hc : chainResolve root table id with
      | none => simp [hc] at hb
      | some a => simp only [hc] at hb ⊢; cases hs : a.stateKey <;> simp_all
    · rintro ⟨id, hid, hb⟩
      refine ⟨id, hid, ?_⟩
      rw [(hr id hid).2.1]
      cases hc : chainResolve root table id with
      | none => simp [hc] at hb
      | some a => simp only [hc] at hb ⊢; cases hs : a.stateKey <;> simp_all
  have herrs : curr.authEventIDs.all (fun id => id == root.eventID || !errs id) = true := by
    rw [List.all_eq_true]
    intro id hid
    rcases (hr id hid).2.2 with h | h
    · simp [h]
    · simp [h]
  unfold caVerdict chainGood
  rw [hbad, hauth, herrs]
  cases h1 : curr.authEventIDs.all (fun id => match chainResolve root table id with
        | some a => a.stateKey.isSome
        | none => true)
  · simp
  · cases h2 : O.allowedBy curr (authOf O (chainResolve root table) curr) <;> simp

theorem fetchNeeded_table (need : List Bytes) (log : Log) :
    (need.any errs = true ∧ fetchNeeded (tableProvider table errs) need log = none) ∨
    (need.any errs = false ∧ ∃ log1, fetchNeeded (tableProvider table errs) need log = some (need.filterMap table, log1)) := by
  unfold fetchNeeded
  by_cases hn : need.isEmpty = true
  · right
    have : need = [] := by simpa using hn
    subst this
    exact ⟨rfl, log, by simp⟩
  · simp only [hn, Bool.false_eq_true, if_false]
    unfold tableProvider
    cases he : need.any errs
    · right; exact ⟨rfl, log ++ [Call.events need], by simp [he]⟩
    · left; exact ⟨rfl, by simp [he]⟩

/-- what one iteration of the loop establishes -/
def StepPost (st : ChainSt) : ChainStep → Prop
  | .done .ok _ => st.stack = []
  | .done .outOfFuel _ => False
  | .done .provErr _ => ∃ e, Reach root table e ∧ chainGood O root table errs e = false
  | .done .authFail _ => ∃ e, Reach root table e ∧ chainGood O root table errs e = false
  | .cont st' _ => ChainInv O root table errs st'

theorem chainStep_post (hidem : AddIdem O) (htable : ∀ id e, table id = some e → e.eventID = id) (n : Nat)
    (st : ChainSt) (log : Log) (hinv : ChainInv O root table errs st) :
    StepPost O root table errs st (chainStep O (tableProvider table errs) (n + 2) st log) := by
  unfold chainStep
  cases hs : st.stack with
  | nil => exact hs
  | cons curr rest =>
    simp only
    have hcurr := hinv.stackOK curr (by rw [hs]; exact List.mem_cons_self)
    by_cases hv : st.verified.contains curr.eventID = true
    · -- already verified: pop
      simp only [hv, if_true]
      have hvm : curr.eventID ∈ st.verified := by simpa using hv
      have lift : ∀ x : Event, (x.eventID ∈ st.verified ∨ x ∈ st.stack) → (x.eventID ∈ st.verified ∨ x ∈ rest) := by
        intro x hx
        rcases hx with h | h
        · exact Or.inl h
        · rw [hs] at h
          rcases List.mem_cons.mp h with h | h
          · subst h; exact Or.inl hvm
          · exact Or.inr h
      exact {
        rootIn := hinv.rootIn, mapOK := hinv.mapOK,
        pending := fun id e h => lift e (hinv.pending id e h),
        stackOK := fun e he => hinv.stackOK e (by rw [hs]; exact List.mem_cons_of_mem _ he),
        verifiedOK := fun id hid => by
          obtain ⟨e, h1, h2, h3⟩ := hinv.verifiedOK id hid
          exact ⟨e, h1, h2, fun aid ha a hra => lift a (h3 aid ha a hra)⟩,
        rootSeen := lift root hinv.rootSeen }
    · simp only [hv, Bool.false_eq_true, if_false]
      rcases fetchNeeded_table table errs (needOf st.m curr) log with ⟨herr, hf⟩ | ⟨hok, log1, hf⟩
      · -- the provider failed on a needed ID
        rw [hf]
        simp only [StepPost]
        refine ⟨curr, hcurr.2, ?_⟩
        rw [List.any_eq_true] at herr
        obtain ⟨id, hid, he⟩ := herr
        have hmem := List.mem_filter.mp (by unfold needOf at hid; exact hid)
        have hne : (id == root.eventID) = false := by
          cases hc : (id == root.eventID)
          · rfl
          · have : id = root.eventID := by simpa using hc
            subst this
            have := hmem.2
            unfold isNilIn at this
            rw [hinv.rootIn] at this
            cases this
        unfold chainGood
        have : curr.authEventIDs.all (fun id => id == root.eventID || !errs id) = false := by
          rw [List.all_eq_false]
          exact ⟨id, hmem.1, by simp [hne, he]⟩
        rw [this]
        rfl
      · rw [hf]
        simp only
        obtain ⟨m2, log2, hc, hext⟩ := checkAllowed_contract O hidem (some (tableProvider table errs))
          (tableProvider_ok table errs htable) n curr (putAll ((needOf st.m curr).filterMap table) st.m) log1
        rw [hc]
        obtain ⟨hiff, hnf⟩ := verdict_iff_chainGood O root table errs htable st hinv curr hok
        have hl := fetched_lookup table htable st.m (needOf st.m curr)
        cases hver : caVerdict O (some (tableProvider table errs)) curr (putAll ((needOf st.m curr).filterMap table) st.m) with
        | outOfFuel => exact absurd hver hnf
        | notAllowed =>
          simp only [StepPost]
          refine ⟨curr, hcurr.2, ?_⟩
          cases hg : chainGood O root table errs curr
          · rfl
          · rw [hiff.mpr hg] at hver; cases hver
        | addErr =>
          simp only [StepPost]
          refine ⟨curr, hcurr.2, ?_⟩
          cases hg : chainGood O root table errs curr
          · rfl
          · rw [hiff.mpr hg] at hver; cases hver
        | ok =>
          simp only [StepPost]
          have hgood := hiff.mp hver
          -- facts about the needed IDs
          have need_facts : ∀ id, id ∈ needOf st.m curr → id ∈ curr.authEventIDs ∧ id ≠ root.eventID ∧ errs id = false ∧
              chainResolve root table id = table id := by
            intro id hid
            have hmem := List.mem_filter.mp (by unfold needOf at hid; exact hid)
            have hne : id ≠ root.eventID := by
              intro h
              subst h
              have := hmem.2
              unfold isNilIn at this
              rw [hinv.rootIn] at this
              cases this
            refine ⟨hmem.1, hne, by simpa using (List.any_eq_false.mp hok) id hid, ?_⟩
            unfold chainResolve
            have : (id == root.eventID) = false := by simpa using hne
            simp [this]
          have not_need : ∀ id e, st.m.lookup id = some (some e) → id ∉ needOf st.m curr := by
            intro id e he hin
            have := (List.mem_filter.mp (by unfold needOf at hin; exact hin)).2
            unfold isNilIn at this
            rw [he] at this
            cases this
          -- entries of the map after the fetch
          have m1_some : ∀ id e, (putAll ((needOf st.m curr).filterMap table) st.m).lookup id = some (some e) →
              st.m.lookup id = some (some e) ∨ (id ∈ needOf st.m curr ∧ table id = some e) := by
            intro id e h
            rw [hl id] at h
            by_cases hin : id ∈ needOf st.m curr
            · simp only [hin, if_true] at h
              cases ht : table id with
              | none => rw [ht] at h; exact Or.inl h
              | some e' => rw [ht] at h; cases h; exact Or.inr ⟨hin, rfl⟩
            · simp only [hin, if_false] at h
              exact Or.inl h
          -- new non-nil entries cannot appear during checkAllowed
          have m2_some : ∀ id e, m2.lookup id = some (some e) →
              (putAll ((needOf st.m curr).filterMap table) st.m).lookup id = some (some e) := by
            intro id e h
            rcases hext.new id (some e) h with h1 | ⟨h1, hp, hd⟩
            · exact h1
            · exfalso
              rw [hl id] at h1
              have hprov := provided_table table errs id
              by_cases hin : id ∈ needOf st.m curr
              · simp only [hin, if_true] at h1
                obtain ⟨_, _, herrs, _⟩ := need_facts id hin
                cases ht : table id with
                | some e' => rw [ht] at h1; cases h1
                | none =>
                  rw [herrs, ht] at hprov
                  rw [hprov] at hp
                  cases hp
              · simp only [hin, if_false] at h1
                have hnil : isNilIn st.m id = true := by unfold isNilIn; rw [h1]
                exact hin (by unfold needOf; exact List.mem_filter.mpr ⟨hd, hnil⟩)
          have new_mem : ∀ id e, id ∈ needOf st.m curr → table id = some e → e ∈ ((needOf st.m curr).filterMap table).reverse ++ rest := by
            intro id e hin ht
            apply List.mem_append_left
            rw [List.mem_reverse, List.mem_filterMap]
            exact ⟨id, hin, ht⟩
          have lift : ∀ x : Event, (x.eventID ∈ st.verified ∨ x ∈ st.stack) →
              (x.eventID ∈ curr.eventID :: st.verified ∨ x ∈ ((needOf st.m curr).filterMap table).reverse ++ rest) := by
            intro x hx
            rcases hx with h | h
            · exact Or.inl (List.mem_cons_of_mem _ h)
            · rw [hs] at h
              rcases List.mem_cons.mp h with h | h
              · subst h; exact Or.inl List.mem_cons_self
              · exact Or.inr (List.mem_append_right _ h)
          exact {
            rootIn := by
              apply hext.keep
              rw [hl root.eventID]
              have : root.eventID ∉ needOf st.m curr := not_need _ _ hinv.rootIn
              simp only [this, if_false]
              exact hinv.rootIn,
            mapOK := fun id e h => by
              rcases m1_some id e (m2_some id e h) with h1 | ⟨hin, ht⟩
              · exact hinv.mapOK id e h1
              · obtain ⟨_, _, herrs, hres⟩ := need_facts id hin
                exact ⟨by rw [hres]; exact ht, Or.inr herrs⟩,
            pending := fun id e h => by
              rcases m1_some id e (m2_some id e h) with h1 | ⟨hin, ht⟩
              · exact lift e (hinv.pending id e h1)
              · exact Or.inr (new_mem id e hin ht),
            stackOK := fun e he => by
              rcases List.mem_append.mp he with h | h
              · rw [List.mem_reverse, List.mem_filterMap] at h
                obtain ⟨id, hin, ht⟩ := h
                obtain ⟨hauth, _, _, hres⟩ := need_facts id hin
                have hr : chainResolve root table id = some e := by rw [hres]; exact ht
                exact ⟨chainResolve_self root table htable hr, Reach.step hcurr.2 hauth hr⟩
              · exact hinv.stackOK e (by rw [hs]; exact List.mem_cons_of_mem _ h),
            verifiedOK := fun id hid => by
              rcases List.mem_cons.mp hid with h | h
              · subst h
                refine ⟨curr, hcurr.1, hgood, fun aid ha a hra => ?_⟩
                by_cases hin : aid ∈ needOf st.m curr
                · obtain ⟨_, _, _, hres⟩ := need_facts aid hin
                  rw [hres] at hra
                  exact Or.inr (new_mem aid a hin hra)
                · have hnil : isNilIn st.m aid = false := by
                    cases hc : isNilIn st.m aid
                    · rfl
                    · exact absurd (by unfold needOf; exact List.mem_filter.mpr ⟨ha, hc⟩) hin
                  obtain ⟨a', ha'⟩ := isNilIn_false hnil
                  have := (hinv.mapOK aid a' ha').1
                  rw [hra] at this
                  cases this
                  exact lift a (hinv.pending aid a ha')
              · obtain ⟨e, h1, h2, h3⟩ := hinv.verifiedOK id h
                exact ⟨e, h1, h2, fun aid ha a hra => lift a (h3 aid ha a hra)⟩,
            rootSeen := lift root hinv.rootSeen }

/-- when the stack is empty every event of the chain has been verified -/
theorem closed_of_empty (htable : ∀ id e, table id = some e → e.eventID = id) (st : ChainSt) (hinv : ChainInv O root table errs st)
    (hempty : st.stack = []) (e : Event) (hr : Reach root table e) :
    e.eventID ∈ st.verified ∧ chainResolve root table e.eventID = some e := by
  induction hr with
  | root =>
    refine ⟨?_, by simp [chainResolve]⟩
    rcases hinv.rootSeen with h | h
    · exact h
    · rw [hempty] at h; cases h
  | step hre hid hres ih =>
    rename_i e0 a id
    obtain ⟨hv, hself⟩ := ih
    obtain ⟨e', h1, _, h3⟩ := hinv.verifiedOK e0.eventID hv
    rw [hself] at h1
    cases h1
    refine ⟨?_, chainResolve_self root table htable hres⟩
    rcases h3 id hid a hres with h | h
    · exact h
    · rw [hempty] at h; cases h

/-- what the loop's verdict means -/
def LoopPost : ChainOut → Prop
  | .ok => ∀ e, Reach root table e → chainGood O root table errs e = true
  | .outOfFuel => True
  | .provErr => ∃ e, Reach root table e ∧ chainGood O root table errs e = false
  | .authFail => ∃ e, Reach root table e ∧ chainGood O root table errs e = false

theorem chainLoop_post (hidem : AddIdem O) (htable : ∀ id e, table id = some e → e.eventID = id) (n fuel : Nat)
    (st : ChainSt) (log : Log) (hinv : ChainInv O root table errs st) :
    LoopPost O root table errs (chainLoop O (tableProvider table errs) (n + 2) fuel st log).1 := by
  induction fuel generalizing st log with
  | zero => simp [chainLoop, LoopPost]
  | succ k ih =>
    unfold chainLoop
    have hp := chainStep_post O root table errs hidem htable n st log hinv
    cases hc : chainStep O (tableProvider table errs) (n + 2) st log with
    | done r lg =>
      rw [hc] at hp
      simp only
      cases r with
      | ok =>
        simp only [StepPost] at hp
        intro e hr
        obtain ⟨hv, hself⟩ := closed_of_empty O root table errs htable st hinv hp e hr
        obtain ⟨e', h1, h2, _⟩ := hinv.verifiedOK e.eventID hv
        rw [hself] at h1
        cases h1
        exact h2
      | outOfFuel => trivial
      | provErr => exact hp
      | authFail => exact hp
    | cont st' lg =>
      rw [hc] at hp
      simp only
      exact ih st' lg hp

end
end V.FedCheck
